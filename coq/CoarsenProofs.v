(* CoarsenProofs.v -- lemmas for C04 (Aggregates.v, Tentative.v, Coarsen.v). *)
From Coq Require Import ZifyBool.
From Amgcl Require Import Scalar Vec Crs Kernels MatOps MatOps2 Aggregates Tentative Coarsen.
Local Open Scope S_scope.

(* ------------------------------------------------------------------ list helpers *)
Lemma upd_nth_length {X} (l : list X) i x : length (upd_nth l i x) = length l.
Proof. revert i; induction l as [|a l IH]; intros [|i]; simpl; auto. Qed.

Lemma nth_upd_nth {X} (l : list X) i x k d :
  nth k (upd_nth l i x) d = if Nat.eqb k i && Nat.ltb i (length l) then x else nth k l d.
Proof.
  revert i k; induction l as [|a l IH]; intros i k.
  - simpl. rewrite andb_false_r. destruct i; reflexivity.
  - destruct i as [|i], k as [|k]; simpl; try reflexivity.
    rewrite IH. reflexivity.
Qed.

Lemma zget_upd (l : list Z) i x k :
  zget (upd_nth l i x) k = if Nat.eqb k i && Nat.ltb i (length l) then x else zget l k.
Proof. apply nth_upd_nth. Qed.

Lemma zget_in_range (l : list Z) i : zget l i <> removed -> i < length l.
Proof.
  intro H. destruct (Nat.ltb i (length l)) eqn:E; [lia|].
  exfalso. apply H. unfold zget. apply nth_overflow. lia.
Qed.

Lemma indexed_length {X} (l : list X) : length (indexed l) = length l.
Proof. unfold indexed. rewrite combine_length, seq_length. lia. Qed.

Lemma nth_indexed {X} (l : list X) i d : i < length l -> nth i (indexed l) (0%nat, d) = (i, nth i l d).
Proof.
  intro H. unfold indexed. rewrite combine_nth by (rewrite seq_length; reflexivity).
  rewrite seq_nth by assumption. reflexivity.
Qed.

(* ------------------------------------------------------------------ the greedy pass *)
(* every cell keeps its value or, if it was not [removed], receives [cur] *)
Definition writes (cur : Z) (id id' : list Z) : Prop :=
  length id' = length id /\
  forall p, zget id' p = zget id p \/ (zget id p <> removed /\ zget id' p = cur).

Lemma writes_refl cur id : writes cur id id.
Proof. split; auto. Qed.

Lemma writes_trans cur a b c : writes cur a b -> writes cur b c -> writes cur a c.
Proof.
  intros [L1 H1] [L2 H2]. split; [congruence|]. intro p.
  destruct (H2 p) as [E2|[N2 E2]]; destruct (H1 p) as [E1|[N1 E1]].
  - left; congruence.
  - right; split; congruence.
  - right; split; congruence.
  - right; split; congruence.
Qed.

Lemma writes_upd cur id c : zget id c <> removed -> writes cur id (upd_nth id c cur).
Proof.
  intro H. split; [apply upd_nth_length|]. intro p. rewrite zget_upd.
  destruct (Nat.eqb p c) eqn:E; simpl; auto.
  destruct (Nat.ltb c (length id)); auto.
  apply Nat.eqb_eq in E; subst. right; auto.
Qed.

Lemma claim_neib_writes cur acc e : writes cur (fst acc) (fst (claim_neib cur acc e)).
Proof.
  unfold claim_neib. destruct (snd e && negb (Z.eqb (zget (fst acc) (fst e)) removed)) eqn:E.
  - simpl. apply writes_upd. lia.
  - apply writes_refl.
Qed.

Lemma fold_claim_writes cur l acc : writes cur (fst acc) (fst (fold_left (claim_neib cur) l acc)).
Proof.
  revert acc; induction l as [|e l IH]; intro acc; simpl; [apply writes_refl|].
  eapply writes_trans; [apply claim_neib_writes | apply IH].
Qed.

Lemma mark_undef_writes cur id e : writes cur id (mark_undef cur id e).
Proof.
  unfold mark_undef. destruct (snd e && Z.eqb (zget id (fst e)) undefined) eqn:E.
  - apply writes_upd. unfold undefined, removed in *. lia.
  - apply writes_refl.
Qed.

Lemma fold_mark_writes cur l id : writes cur id (fold_left (mark_undef cur) l id).
Proof.
  revert id; induction l as [|e l IH]; intro id; simpl; [apply writes_refl|].
  eapply writes_trans; [apply mark_undef_writes | apply IH].
Qed.

Lemma mark_neibs_writes {S : Scalar} (A : crs S) st cur neib id : writes cur id (mark_neibs A st cur id neib).
Proof.
  unfold mark_neibs. revert id; induction neib as [|c l IH]; intro id; simpl; [apply writes_refl|].
  eapply writes_trans; [apply fold_mark_writes | apply IH].
Qed.

(* invariant of the pass after the first k rows *)
Definition pass_inv (id0 : list Z) (k : nat) (s : list Z * nat) : Prop :=
  length (fst s) = length id0 /\
  (forall p, zget (fst s) p = removed <-> zget id0 p = removed) /\
  (forall p, zget (fst s) p = removed \/ zget (fst s) p = undefined \/
             (0 <= zget (fst s) p < Z.of_nat (snd s))%Z) /\
  (forall p, p < k -> zget (fst s) p <> undefined).

Lemma agg_step_inv {S : Scalar} (A : crs S) st id0 k s :
  pass_inv id0 k s -> pass_inv id0 (Datatypes.S k) (agg_step A st s k).
Proof.
  intros (L & R & B & D). unfold agg_step.
  destruct (Z.eqb (zget (fst s) k) undefined) eqn:E.
  - set (cur := Z.of_nat (snd s)).
    assert (Hk : zget (fst s) k <> removed) by (unfold undefined, removed in *; lia).
    set (c := fold_left (claim_neib cur) (srow A st k) (upd_nth (fst s) k cur, [])).
    set (id3 := mark_neibs A st cur (fst c) (snd c)).
    assert (Wk : writes cur (upd_nth (fst s) k cur) id3).
    { eapply writes_trans; [|apply mark_neibs_writes].
      apply (fold_claim_writes cur (srow A st k) (upd_nth (fst s) k cur, [])). }
    assert (W : writes cur (fst s) id3).
    { eapply writes_trans; [apply writes_upd; exact Hk | exact Wk]. }
    destruct W as [WL W]. destruct Wk as [_ Wk].
    assert (Hcur : (0 <= cur)%Z) by (unfold cur; lia).
    unfold pass_inv. cbn [fst snd]. repeat split.
    + congruence.
    + intro H. apply R. destruct (W p) as [Ep|[Np Ep]]; [congruence|]. unfold removed in *; lia.
    + intro H. apply R in H. destruct (W p) as [Ep|[Np Ep]]; [congruence|]. contradiction.
    + intro p. destruct (W p) as [Ep|[Np Ep]].
      * rewrite Ep. destruct (B p) as [?|[?|?]]; auto. right; right. lia.
      * right; right. rewrite Ep. unfold cur. lia.
    + intros p Hp. destruct (Nat.eq_dec p k) as [->|Hne].
      * specialize (Wk k). rewrite zget_upd in Wk.
        assert (Hlen : k < length (fst s)) by (apply zget_in_range; exact Hk).
        replace (Nat.eqb k k && Nat.ltb k (length (fst s))) with true in Wk
          by (symmetry; apply andb_true_iff; split; [apply Nat.eqb_refl | apply Nat.ltb_lt; exact Hlen]).
        destruct Wk as [Ek|[_ Ek]]; rewrite Ek; unfold undefined; lia.
      * assert (p < k) by lia.
        destruct (W p) as [Ep|[Np Ep]]; [rewrite Ep; apply D; assumption|].
        rewrite Ep. unfold undefined; lia.
  - repeat split; auto.
    + apply R.
    + apply R.
    + intros p Hp. destruct (Nat.eq_dec p k) as [->|Hne]; [lia|]. apply D. lia.
Qed.

Lemma agg_fold_inv {S : Scalar} (A : crs S) st id0 m k s :
  pass_inv id0 k s -> pass_inv id0 (k + m) (fold_left (agg_step A st) (seq k m) s).
Proof.
  revert k s; induction m as [|m IH]; intros k s H; simpl.
  - replace (k + 0)%nat with k by lia. exact H.
  - replace (k + Datatypes.S m)%nat with (Datatypes.S k + m)%nat by lia.
    apply IH. apply agg_step_inv. exact H.
Qed.

Lemma init_id_length st : length (init_id st) = length st.
Proof. unfold init_id. apply map_length. Qed.

Lemma zget_init_id st p : p < length st ->
  zget (init_id st) p = if has_strong (nth p st []) then undefined else removed.
Proof.
  intro H. unfold zget, init_id.
  rewrite (nth_indep _ removed (if has_strong [] then undefined else removed)) by (rewrite map_length; exact H).
  rewrite (map_nth (fun fl => if has_strong fl then undefined else removed)). reflexivity.
Qed.

Lemma pass_inv_init st : pass_inv (init_id st) 0 (init_id st, 0%nat).
Proof.
  repeat split; simpl; auto; try lia.
  intro p. destruct (Nat.ltb p (length st)) eqn:E.
  - rewrite zget_init_id by lia. destruct (has_strong (nth p st [])); auto.
  - left. unfold zget. apply nth_overflow. rewrite init_id_length. lia.
Qed.

(* result of the pass: every cell is removed or a valid id, and removed <-> no strong entry *)
Lemma agg_pass_spec {S : Scalar} (A : crs S) st : length st = nrows A ->
  let r := agg_pass A st in
  length (fst r) = nrows A /\
  (forall p, p < nrows A -> (zget (fst r) p = removed <-> has_strong (nth p st []) = false)) /\
  (forall p, p < nrows A -> zget (fst r) p = removed \/ (0 <= zget (fst r) p < Z.of_nat (snd r))%Z).
Proof.
  intros Hst r.
  pose proof (agg_fold_inv A st (init_id st) (nrows A) 0 _ (pass_inv_init st)) as (L & R & B & D).
  fold (agg_pass A st) in L, R, B, D. fold r in L, R, B, D. simpl in D.
  rewrite init_id_length in L. split; [congruence|]. split.
  - intros p Hp. split.
    + intro H. apply R in H. rewrite zget_init_id in H by lia.
      destruct (has_strong (nth p st [])); [unfold undefined, removed in H; lia | reflexivity].
    + intro H. apply R. rewrite zget_init_id by lia. rewrite H. reflexivity.
  - intros p Hp. destruct (B p) as [?|[?|?]]; auto. exfalso. eapply D; eauto.
Qed.

(* ------------------------------------------------------------------ renumbering *)
Fixpoint lsum (l : list nat) : nat := match l with [] => 0 | x :: tl => x + lsum tl end.
Definition bits (l : list nat) : Prop := forall k, nth k l 0%nat <= 1.

Lemma bits_tl x l : bits (x :: l) -> bits l.
Proof. intros H k. apply (H (Datatypes.S k)). Qed.
Lemma bits_hd x l : bits (x :: l) -> x <= 1.
Proof. intros H. apply (H 0%nat). Qed.

Lemma psum_length acc l : length (psum_from acc l) = length l.
Proof. revert acc; induction l; intro acc; simpl; auto. Qed.

Lemma psum_last acc l d : l <> [] -> last (psum_from acc l) d = (acc + lsum l)%nat.
Proof.
  revert acc; induction l as [|x l IH]; intros acc H; [congruence|].
  destruct l as [|y l].
  - simpl. lia.
  - change (last (psum_from acc (x :: y :: l)) d) with (last (psum_from (acc + x) (y :: l)) d).
    rewrite IH by discriminate. simpl. lia.
Qed.

Lemma psum_nth_bounds acc l k : bits l -> k < length l -> nth k l 0%nat = 1%nat ->
  acc + 1 <= nth k (psum_from acc l) 0%nat <= acc + lsum l.
Proof.
  revert acc k; induction l as [|x l IH]; intros acc k Hb Hk H1; simpl in *; [lia|].
  destruct k as [|k].
  - subst x. lia.
  - specialize (IH (acc + x)%nat k (bits_tl _ _ Hb) ltac:(lia) H1). lia.
Qed.

Lemma psum_hits acc l t : bits l -> acc <= t < acc + lsum l ->
  exists k, k < length l /\ nth k l 0%nat = 1%nat /\ nth k (psum_from acc l) 0%nat = Datatypes.S t.
Proof.
  revert acc; induction l as [|x l IH]; intros acc Hb Ht; simpl in *; [lia|].
  pose proof (bits_hd _ _ Hb) as Hx.
  destruct (Nat.eq_dec x 1) as [->|Hx1].
  - destruct (Nat.eq_dec t acc) as [->|Hne].
    + exists 0%nat. repeat split; try lia.
    + destruct (IH (acc + 1)%nat (bits_tl _ _ Hb) ltac:(lia)) as (k & K1 & K2 & K3).
      exists (Datatypes.S k). repeat split; auto; lia.
  - assert (x = 0%nat) by lia. subst x.
    destruct (IH (acc + 0)%nat (bits_tl _ _ Hb) ltac:(lia)) as (k & K1 & K2 & K3).
    exists (Datatypes.S k). repeat split; auto; lia.
Qed.

Lemma lsum_le_length l : bits l -> lsum l <= length l.
Proof.
  induction l as [|x l IH]; intro Hb; simpl; [lia|].
  pose proof (bits_hd _ _ Hb). specialize (IH (bits_tl _ _ Hb)). lia.
Qed.

Lemma bits_full l : bits l -> length l <= lsum l -> forall k, k < length l -> nth k l 0%nat = 1%nat.
Proof.
  induction l as [|x l IH]; intros Hb Hs k Hk; simpl in *; [lia|].
  pose proof (bits_hd _ _ Hb) as Hx. pose proof (lsum_le_length l (bits_tl _ _ Hb)).
  destruct k as [|k]; [lia|]. apply IH; [eapply bits_tl; eauto | lia | lia].
Qed.

(* mark_used: cnt[k] = 1 iff some id equals k *)
Lemma mark_used_fold id : forall acc k, k < length acc ->
  nth k (fold_left (fun cnt a => if Z.leb 0 a then upd_nth cnt (Z.to_nat a) 1%nat else cnt) id acc) 0%nat
  = if existsb (Z.eqb (Z.of_nat k)) id then 1%nat else nth k acc 0%nat.
Proof.
  induction id as [|a id IH]; intros acc k Hk; simpl; [reflexivity|].
  destruct (Z.leb 0 a) eqn:Ea.
  - rewrite IH by (rewrite upd_nth_length; exact Hk).
    rewrite nth_upd_nth.
    destruct (existsb (Z.eqb (Z.of_nat k)) id); [rewrite orb_true_r; reflexivity|].
    rewrite orb_false_r.
    destruct (Z.eqb (Z.of_nat k) a) eqn:Ek.
    + replace (Nat.eqb k (Z.to_nat a)) with true by lia.
      replace (Nat.ltb (Z.to_nat a) (length acc)) with true by lia. reflexivity.
    + replace (Nat.eqb k (Z.to_nat a)) with false by lia. reflexivity.
  - rewrite IH by exact Hk. replace (Z.eqb (Z.of_nat k) a) with false by lia. reflexivity.
Qed.

Lemma fold_upd_length (id : list Z) : forall acc : list nat,
  length (fold_left (fun cnt a => if Z.leb 0 a then upd_nth cnt (Z.to_nat a) 1%nat else cnt) id acc) = length acc.
Proof.
  induction id as [|a id IH]; intro acc; simpl; [reflexivity|].
  destruct (Z.leb 0 a); rewrite IH; [apply upd_nth_length | reflexivity].
Qed.

Lemma mark_used_length id count : length (mark_used id count) = count.
Proof. unfold mark_used. rewrite fold_upd_length. apply repeat_length. Qed.

Lemma mark_used_nth id count k : k < count ->
  nth k (mark_used id count) 0%nat = if existsb (Z.eqb (Z.of_nat k)) id then 1%nat else 0%nat.
Proof.
  intro H. unfold mark_used. rewrite mark_used_fold by (rewrite repeat_length; exact H).
  rewrite nth_repeat. reflexivity.
Qed.

Lemma mark_used_bits id count : bits (mark_used id count).
Proof.
  intro k. destruct (Nat.ltb k count) eqn:E.
  - rewrite mark_used_nth by lia. destruct (existsb _ id); lia.
  - rewrite nth_overflow by (rewrite mark_used_length; lia). lia.
Qed.

Lemma existsb_zget (id : list Z) (v : Z) : v <> removed ->
  existsb (Z.eqb v) id = true <-> exists i, i < length id /\ zget id i = v.
Proof.
  intro Hv. rewrite existsb_exists. split.
  - intros (x & Hin & Hx). apply (In_nth _ _ removed) in Hin. destruct Hin as (i & Hi & Hn).
    exists i. split; [exact Hi|]. unfold zget. rewrite Hn. lia.
  - intros (i & Hi & Hz). exists (zget id i). split; [apply nth_In; exact Hi | lia].
Qed.

Definition partition_spec (n count : nat) (id : list Z) (st : flags) : Prop :=
  length id = n /\
  (forall i, i < n -> zget id i = removed \/ (0 <= zget id i < Z.of_nat count)%Z) /\
  (forall k, k < count -> exists i, i < n /\ zget id i = Z.of_nat k) /\
  (forall i, i < n -> ((0 <= zget id i)%Z <-> has_strong (nth i st []) = true)).

Lemma zget_map_renum (f : Z -> Z) (id : list Z) i : i < length id -> zget (map f id) i = f (zget id i).
Proof.
  intro H. unfold zget. rewrite (nth_indep _ removed (f removed)) by (rewrite map_length; exact H).
  apply map_nth.
Qed.

(* the renumbering lemma: whatever valid (id, count) the pass leaves, the result is onto 0..count'-1 *)
Lemma renumber_spec n count id st : 0 < count ->
  length id = n ->
  (forall i, i < n -> zget id i = removed \/ (0 <= zget id i < Z.of_nat count)%Z) ->
  (forall i, i < n -> (zget id i = removed <-> has_strong (nth i st []) = false)) ->
  partition_spec n (snd (renumber id count)) (fst (renumber id count)) st.
Proof.
  intros Hc L B R. unfold renumber.
  set (u := mark_used id count). set (cnt := psum_from 0 u).
  assert (Hu : u <> []) by (intro E; pose proof (mark_used_length id count) as H; fold u in H; rewrite E in H; simpl in H; lia).
  assert (Hlast : last cnt 0%nat = lsum u) by (unfold cnt; rewrite psum_last by exact Hu; lia).
  assert (Hb : bits u) by apply mark_used_bits.
  assert (Hlen : length u = count) by apply mark_used_length.
  assert (Hstrong : forall i, i < n -> ((0 <= zget id i)%Z <-> has_strong (nth i st []) = true)).
  { intros i Hi. specialize (R i Hi). destruct (B i Hi) as [E|E].
    - rewrite E. split; [unfold removed; lia|]. intro H. destruct R as [R _]. rewrite (R E) in H. discriminate.
    - split; [|lia]. intros _. destruct (has_strong (nth i st [])) eqn:Hs; auto.
      destruct R as [_ R]. specialize (R eq_refl). unfold removed in *. lia. }
  assert (Hused : forall i, i < n -> (0 <= zget id i)%Z -> nth (Z.to_nat (zget id i)) u 0%nat = 1%nat).
  { intros i Hi H0. destruct (B i Hi) as [E|E]; [unfold removed in *; lia|].
    unfold u. rewrite mark_used_nth by lia.
    replace (existsb _ id) with true; [reflexivity|]. symmetry.
    apply existsb_zget; [unfold removed; lia|]. exists i. split; [lia|]. lia. }
  rewrite Hlast.
  destruct (Nat.ltb (lsum u) count) eqn:Elt; simpl.
  - (* some aggregates vanished *)
    unfold partition_spec. split; [|split; [|split]].
    + rewrite map_length. exact L.
    + intros i Hi. rewrite zget_map_renum by lia.
      destruct (Z.leb 0 (zget id i)) eqn:E0.
      * right. destruct (B i Hi) as [E|E]; [unfold removed in *; lia|].
        pose proof (psum_nth_bounds 0 u (Z.to_nat (zget id i)) Hb ltac:(lia) (Hused i Hi ltac:(lia))) as Hbd.
        fold cnt in Hbd. lia.
      * left. destruct (B i Hi) as [E|E]; [exact E | lia].
    + intros k Hk.
      destruct (psum_hits 0 u k Hb ltac:(lia)) as (j & J1 & J2 & J3). fold cnt in J3.
      unfold u in J2. rewrite mark_used_nth in J2 by lia.
      destruct (existsb (Z.eqb (Z.of_nat j)) id) eqn:Ex; [|discriminate].
      apply existsb_zget in Ex; [|unfold removed; lia]. destruct Ex as (i & Hi & Hz).
      exists i. split; [lia|]. rewrite zget_map_renum by lia. rewrite Hz.
      replace (Z.leb 0 (Z.of_nat j)) with true by lia. rewrite Nat2Z.id. rewrite J3. lia.
    + intros i Hi. rewrite zget_map_renum by lia. rewrite <- (Hstrong i Hi).
      destruct (Z.leb 0 (zget id i)) eqn:E0; [|lia].
      destruct (B i Hi) as [E|E]; [unfold removed in *; lia|].
      pose proof (psum_nth_bounds 0 u (Z.to_nat (zget id i)) Hb ltac:(lia) (Hused i Hi ltac:(lia))) as Hbd.
      fold cnt in Hbd. lia.
  - (* nothing vanished: every id below count is in use *)
    unfold partition_spec. split; [exact L|]. split; [exact B|]. split; [|exact Hstrong].
    intros k Hk.
    pose proof (bits_full u Hb ltac:(lia) k ltac:(lia)) as H1.
    unfold u in H1. rewrite mark_used_nth in H1 by lia.
    destruct (existsb (Z.eqb (Z.of_nat k)) id) eqn:Ex; [|discriminate].
    apply existsb_zget in Ex; [|unfold removed; lia]. destruct Ex as (i & Hi & Hz).
    exists i. split; [lia | exact Hz].
Qed.

Lemma strong_connections_length {S : Scalar} eps2 (A : crs S) junk :
  length (strong_connections eps2 A junk) = nrows A.
Proof. unfold strong_connections. rewrite map_length, indexed_length. reflexivity. Qed.

(* Theorem 1 *)
Lemma plain_aggregates_partition {S : Scalar} eps2 (A : crs S) junk count id st :
  plain_aggregates eps2 A junk = AggOk count id st ->
  0 < count /\ st = strong_connections eps2 A junk /\ partition_spec (nrows A) count id st.
Proof.
  unfold plain_aggregates. set (st0 := strong_connections eps2 A junk).
  pose proof (agg_pass_spec A st0 (strong_connections_length eps2 A junk)) as (L & R & B).
  destruct (Nat.eqb (snd (agg_pass A st0)) 0) eqn:E0; [discriminate|].
  intro H. injection H as <- <- <-.
  assert (Hc : 0 < snd (agg_pass A st0)) by lia.
  pose proof (renumber_spec (nrows A) _ _ st0 Hc L B R) as P.
  split; [|split; [reflexivity | exact P]].
  clear P. unfold renumber. destruct (Nat.ltb _ _) eqn:El; simpl; [|lia].
  (* count' = number of used ids > 0 : the seed of aggregate 0 ... simply: some id is >= 0 *)
  set (u := mark_used (fst (agg_pass A st0)) (snd (agg_pass A st0))).
  assert (Hu : u <> []) by (intro E; pose proof (mark_used_length (fst (agg_pass A st0)) (snd (agg_pass A st0))) as H; fold u in H; rewrite E in H; simpl in H; lia).
  rewrite psum_last by exact Hu. simpl.
  destruct (Nat.eq_dec (lsum u) 0) as [Ez|]; [|lia].
  exfalso.
  (* count > 0 but no id in use: impossible, since ids < count come only from seeds; use: an aggregate
     counter is increased only when a cell receives that id, and ids never become negative again.
     We derive it from the invariant differently: if lsum u = 0 then all ids are removed, hence the
     pass never found an undefined cell, hence count = 0. *)
  clear El.
  assert (Hall : forall p, p < nrows A -> zget (fst (agg_pass A st0)) p = removed).
  { intros p Hp. destruct (B p Hp) as [?|Hr]; auto. exfalso.
    assert (H1 : nth (Z.to_nat (zget (fst (agg_pass A st0)) p)) u 0%nat = 1%nat).
    { unfold u. rewrite mark_used_nth by lia.
      replace (existsb _ _) with true; [reflexivity|]. symmetry.
      apply existsb_zget; [unfold removed; lia|]. exists p. split; [lia|]. lia. }
    assert (Hlt : Z.to_nat (zget (fst (agg_pass A st0)) p) < length u) by (unfold u; rewrite mark_used_length; lia).
    pose proof (psum_nth_bounds 0 u _ (mark_used_bits _ _) Hlt H1). lia. }
  (* all removed => every row has no strong entry => init all removed => count stays 0 *)
  assert (Hinit : forall p, p < nrows A -> has_strong (nth p st0 []) = false).
  { intros p Hp. apply R; auto. }
  assert (Hz : snd (agg_pass A st0) = 0%nat).
  { unfold agg_pass.
    assert (Hgen : forall m k s, snd s = 0%nat -> (forall p, zget (fst s) p = removed) ->
              snd (fold_left (agg_step A st0) (seq k m) s) = 0%nat).
    { induction m as [|m IHm]; intros k s Hs Hr; simpl; [exact Hs|].
      apply IHm; unfold agg_step; rewrite Hr; simpl; auto. }
    apply Hgen; [reflexivity|]. intro p. simpl.
    destruct (Nat.ltb p (length st0)) eqn:Ep.
    - rewrite zget_init_id by lia. rewrite Hinit; [reflexivity|].
      rewrite <- (strong_connections_length eps2 A junk). fold st0. lia.
    - unfold zget. apply nth_overflow. rewrite init_id_length. lia. }
  lia.
Qed.

(* empty_level <-> no row has a strong connection *)
Lemma plain_aggregates_empty {S : Scalar} eps2 (A : crs S) junk :
  plain_aggregates eps2 A junk = AggEmpty <->
  (forall i, i < nrows A -> has_strong (nth i (strong_connections eps2 A junk) []) = false).
Proof.
  unfold plain_aggregates. set (st0 := strong_connections eps2 A junk).
  pose proof (agg_pass_spec A st0 (strong_connections_length eps2 A junk)) as (L & R & B).
  split.
  - destruct (Nat.eqb (snd (agg_pass A st0)) 0) eqn:E0; [|discriminate]. intros _ i Hi.
    apply R; auto. destruct (B i Hi); auto. lia.
  - intro Hinit.
    assert (Hz : snd (agg_pass A st0) = 0%nat).
    { unfold agg_pass.
      assert (Hgen : forall m k s, snd s = 0%nat -> (forall p, zget (fst s) p = removed) ->
                snd (fold_left (agg_step A st0) (seq k m) s) = 0%nat).
      { induction m as [|m IHm]; intros k s Hs Hr; simpl; [exact Hs|].
        apply IHm; unfold agg_step; rewrite Hr; simpl; auto. }
      apply Hgen; [reflexivity|]. intro p. simpl.
      destruct (Nat.ltb p (length st0)) eqn:Ep.
      - rewrite zget_init_id by lia. rewrite Hinit; [reflexivity|].
        rewrite <- (strong_connections_length eps2 A junk). fold st0. lia.
      - unfold zget. apply nth_overflow. rewrite init_id_length. lia. }
    rewrite Hz. reflexivity.
Qed.

(* ------------------------------------------------------------------ tentative prolongation *)
Section TentativeAny.
Context {S : Scalar}.

Lemma tentative_nrows naggr id : nrows (tentative_prolongation (S:=S) naggr id) = length id.
Proof. unfold nrows, tentative_prolongation. simpl. apply map_length. Qed.

(* row i is the single unit entry (id i, 1) when id i >= 0 and empty otherwise *)
Lemma tentative_row_nth naggr id i :
  nth i (rows (tentative_prolongation (S:=S) naggr id)) [] = tentative_row (zget id i).
Proof.
  unfold tentative_prolongation. simpl.
  change (@nil (nat * S)) with (tentative_row (S:=S) removed). unfold zget. apply map_nth.
Qed.

Lemma tentative_mget_off naggr id i j :
  (zget id i < 0)%Z \/ j <> Z.to_nat (zget id i) ->
  mget (tentative_prolongation (S:=S) naggr id) i j = s0.
Proof.
  intro H. unfold mget. rewrite tentative_row_nth. unfold tentative_row.
  destruct (Z.leb 0 (zget id i)) eqn:E; [|reflexivity].
  destruct H as [H|H]; [lia|]. unfold rget. simpl.
  replace (Nat.eqb (Z.to_nat (zget id i)) j) with false by (symmetry; apply Nat.eqb_neq; auto).
  reflexivity.
Qed.

(* disjoint supports: a row has at most one column with a non-zero entry *)
Lemma tentative_disjoint naggr id i j1 j2 :
  mget (tentative_prolongation (S:=S) naggr id) i j1 <> s0 ->
  mget (tentative_prolongation (S:=S) naggr id) i j2 <> s0 -> j1 = j2.
Proof.
  intros H1 H2.
  destruct (Z_lt_dec (zget id i) 0) as [Hn|Hn]; [exfalso; apply H1; apply tentative_mget_off; auto|].
  destruct (Nat.eq_dec j1 (Z.to_nat (zget id i))) as [->|N1]; [|exfalso; apply H1; apply tentative_mget_off; auto].
  destruct (Nat.eq_dec j2 (Z.to_nat (zget id i))) as [->|N2]; [|exfalso; apply H2; apply tentative_mget_off; auto].
  reflexivity.
Qed.

(* removed rows are empty *)
Lemma tentative_removed_row naggr id i : (zget id i < 0)%Z ->
  nth i (rows (tentative_prolongation (S:=S) naggr id)) [] = [].
Proof.
  intro H. rewrite tentative_row_nth. unfold tentative_row.
  replace (Z.leb 0 (zget id i)) with false by lia. reflexivity.
Qed.
End TentativeAny.

Section TentativeRing.
Variable S : Scalar.
Hypothesis Srt : Sring S.
Add Ring SRing : Srt.

Lemma tentative_mget_on naggr id i : (0 <= zget id i)%Z ->
  mget (tentative_prolongation (S:=S) naggr id) i (Z.to_nat (zget id i)) = s1.
Proof.
  intro H. unfold mget. rewrite tentative_row_nth. unfold tentative_row.
  replace (Z.leb 0 (zget id i)) with true by lia. unfold rget. simpl. rewrite Nat.eqb_refl. ring.
Qed.

Lemma vget_repeat_one n k : k < n -> vget (repeat (@s1 S) n) k = s1.
Proof.
  revert k; induction n as [|n IH]; intros k H; [lia|].
  destruct k as [|k]; [reflexivity|]. unfold vget in *. simpl. apply IH. lia.
Qed.

(* P_tent * 1 = 1 on aggregated rows (and 0 on removed rows) *)
Lemma tentative_times_one naggr id i : (0 <= zget id i < Z.of_nat naggr)%Z ->
  dotrow (nth i (rows (tentative_prolongation (S:=S) naggr id)) []) (repeat s1 naggr) = s1.
Proof.
  intro H. rewrite tentative_row_nth. unfold tentative_row.
  replace (Z.leb 0 (zget id i)) with true by lia. unfold dotrow. simpl.
  rewrite vget_repeat_one by lia. ring.
Qed.

Lemma tentative_times_one_removed naggr id i x : (zget id i < 0)%Z ->
  dotrow (nth i (rows (tentative_prolongation (S:=S) naggr id)) []) x = s0.
Proof. intro H. rewrite tentative_removed_row by exact H. reflexivity. Qed.

Lemma sumn_zero (f : nat -> S) n : (forall i, i < n -> f i = s0) -> sumn f n = s0.
Proof.
  induction n as [|n IH]; intro H; simpl; [reflexivity|].
  rewrite IH by (intros; apply H; lia). rewrite H by lia. ring.
Qed.

(* columns are mutually orthogonal *)
Lemma tentative_orthogonal naggr id j1 j2 : j1 <> j2 ->
  sumn (fun i => mget (tentative_prolongation (S:=S) naggr id) i j1 *
                 mget (tentative_prolongation (S:=S) naggr id) i j2) (length id) = s0.
Proof.
  intro Hne. apply sumn_zero. intros i _.
  destruct (Z_lt_dec (zget id i) 0) as [Hn|Hn].
  - rewrite (tentative_mget_off naggr id i j1) by auto. ring.
  - destruct (Nat.eq_dec j1 (Z.to_nat (zget id i))) as [E1|N1].
    + rewrite (tentative_mget_off naggr id i j2) by (right; congruence). ring.
    + rewrite (tentative_mget_off naggr id i j1) by auto. ring.
Qed.
End TentativeRing.

(* ------------------------------------------------------------------ pointwise aggregates *)
(* the part of the lifting statement that holds by construction: the b unknowns of a
   pointwise node ip receive the ids b*pw_id(ip) + k, k = 0..b-1 (negative for removed nodes) *)
Lemma expand_ids_length b pwid : length (expand_ids b pwid) = (length pwid * b)%nat.
Proof.
  unfold expand_ids. induction pwid as [|a l IH]; simpl; [reflexivity|].
  rewrite app_length, map_length, seq_length, IH. lia.
Qed.

Lemma expand_ids_nth b pwid ip k : ip < length pwid -> k < b ->
  nth (ip * b + k) (expand_ids b pwid) removed = (Z.of_nat b * nth ip pwid removed + Z.of_nat k)%Z.
Proof.
  unfold expand_ids. revert ip; induction pwid as [|a l IH]; intros ip Hip Hk; simpl in *; [lia|].
  destruct ip as [|ip].
  - simpl. rewrite app_nth1 by (rewrite map_length, seq_length; exact Hk).
    rewrite (nth_indep _ removed ((fun k0 => (Z.of_nat b * a + Z.of_nat k0)%Z) 0%nat))
      by (rewrite map_length, seq_length; exact Hk).
    rewrite (map_nth (fun k0 => (Z.of_nat b * a + Z.of_nat k0)%Z)). rewrite seq_nth by exact Hk. reflexivity.
  - rewrite app_nth2 by (rewrite map_length, seq_length; simpl; lia).
    rewrite map_length, seq_length.
    replace (Datatypes.S ip * b + k - b)%nat with (ip * b + k)%nat by (simpl; lia).
    apply IH; lia.
Qed.

Lemma expand_ids_negative b pwid ip k : 0 < b -> ip < length pwid -> k < b ->
  ((nth ip pwid removed < 0)%Z <-> (nth (ip * b + k) (expand_ids b pwid) removed < 0)%Z).
Proof. intros Hb Hip Hk. rewrite expand_ids_nth by assumption. nia. Qed.

(* witnesses evaluated on the closed rational instance *)
From Amgcl Require Import QcInst.

Definition poisson1d_2 : crs QcS :=
  mkCrs 2 [[(0, qc 2 1); (1, qc (-1) 1)]; [(0, qc (-1) 1); (1, qc 2 1)]]%nat.

(* 1-D Poisson (x) I_2, block_size 2, eps_strong = 1/4: the scalar problem has the single
   aggregate {0,1} with both off-diagonal entries strong; the code, on the Kronecker product,
   removes node 0, flags the diagonal entries of node 1 as strong ... *)
Lemma pointwise_lifting_witness :
  pointwise_aggregates (qc 1 16) 2 0 (kron_id 2 poisson1d_2) (repeat (qc 0 1) 4)
    = AggOk 2 [-4; -3; 0; 1]%Z [[true; false]; [true; false]; [true; true]; [true; true]] /\
  lifted_aggregates 2 (plain_aggregates (qc 1 16) poisson1d_2 (repeat (qc 0 1) 2))
    = AggOk 2 [0; 1; 0; 1]%Z [[false; true]; [false; true]; [true; false]; [true; false]].
Proof. split; vm_compute; reflexivity. Qed.

Lemma pointwise_lifting_refuted :
  exists (A : crs QcS) (eps2 : QcS) (b : nat) (junk junk' : vec QcS),
    1 < b /\ wf A = true /\ ncols A = nrows A /\
    aggregates_eqb (pointwise_aggregates eps2 b 0 (kron_id b A) junk)
                   (lifted_aggregates b (plain_aggregates eps2 A junk')) = false.
Proof.
  exists poisson1d_2, (qc 1 16), 2%nat, (repeat (qc 0 1) 4), (repeat (qc 0 1) 2).
  vm_compute. repeat split; reflexivity.
Qed.

(* ------------------------------------------------------------------ Ruge-Stuben: truncation tie *)
(* symmetric weighted path 0 -1- 3 -1/2- 2 -1- 1 (graph Laplacian, all row sums zero) *)
Definition rs_tie_A : crs QcS :=
  mkCrs 4 [[(0, qc 1 1); (3, qc (-1) 1)];
           [(1, qc 1 1); (2, qc (-1) 1)];
           [(1, qc (-1) 1); (2, qc 3 2); (3, qc (-1) 2)];
           [(0, qc (-1) 1); (2, qc (-1) 2); (3, qc 3 2)]]%nat.
Definition no_junk (A : crs QcS) : flags := map (fun r => map (fun _ => false) r) (rows A).

(* eps_strong = 1/4, do_trunc, eps_trunc = 1/2: row 2 (zero row sum, strong C neighbours 1 and 3)
   interpolates with the single weight 2/3: the entry -1/2 = eps_trunc * (-1) lies ON the threshold,
   is dropped (Amin <= v) but not counted in d_neg (Amin < v), so no rescaling happens *)
Lemma rs_trunc_tie_refuted :
  is_symmetric rs_tie_A = true /\
  match rs_cf (qc 1 4) rs_tie_A (no_junk rs_tie_A), rs_transfer (qc 1 4) (qc 1 2) true rs_tie_A (no_junk rs_tie_A) with
  | Some (Sv, cf), TrOk P R =>
      rs_row_applicable rs_tie_A Sv cf 2 = true /\
      seqb (row_sum (nth 2 (rows P) [])) (qc 2 3) = true /\
      rs_rowsum_ok rs_tie_A Sv cf P = false
  | _, _ => False
  end.
Proof. vm_compute. repeat split; reflexivity. Qed.

(* the same matrix without truncation, and with a threshold that is not hit, is fine *)
Lemma rs_tie_A_no_trunc_ok :
  match rs_cf (qc 1 4) rs_tie_A (no_junk rs_tie_A), rs_transfer (qc 1 4) (qc 1 2) false rs_tie_A (no_junk rs_tie_A),
        rs_transfer (qc 1 4) (qc 1 4) true rs_tie_A (no_junk rs_tie_A) with
  | Some (Sv, cf), TrOk P _, TrOk P' _ => rs_rowsum_ok rs_tie_A Sv cf P = true /\ rs_rowsum_ok rs_tie_A Sv cf P' = true
  | _, _, _ => False
  end.
Proof. vm_compute. split; reflexivity. Qed.
