(* CoarsenProofs.v -- lemmas for C04 (Aggregates.v, Tentative.v, Coarsen.v). *)
From Coq Require Import ZifyBool.
From Amgcl Require Import Scalar Vec Crs Kernels MatOps MatOps2 Aggregates Tentative Coarsen.
Local Open Scope S_scope.

(* ------------------------------------------------------------------ list helpers *)
Lemma upd_nth_length {X} (l : list X) i x : length (upd_nth l i x) = length l.
Proof. revert i; induction l as [|a l IH]; intros [|i]; simpl; auto. Qed.

Lemma nth_upd_nth {X} (l : list X) i x k d :
  nth k (upd_nth l i x) d = if Nat.eqb k i && Nat.ltb i (length l) then x else nth k l d.
Proof.
  revert i k; induction l as [|a l IH]; intros i k.
  - simpl. rewrite andb_false_r. destruct i; reflexivity.
  - destruct i as [|i], k as [|k]; simpl; try reflexivity.
    rewrite IH. reflexivity.
Qed.

Lemma zget_upd (l : list Z) i x k :
  zget (upd_nth l i x) k = if Nat.eqb k i && Nat.ltb i (length l) then x else zget l k.
Proof. apply nth_upd_nth. Qed.

Lemma zget_in_range (l : list Z) i : zget l i <> removed -> i < length l.
Proof.
  intro H. destruct (Nat.ltb i (length l)) eqn:E; [lia|].
  exfalso. apply H. unfold zget. apply nth_overflow. lia.
Qed.

Lemma indexed_length {X} (l : list X) : length (indexed l) = length l.
Proof. unfold indexed. rewrite combine_length, seq_length. lia. Qed.

Lemma nth_indexed {X} (l : list X) i d : i < length l -> nth i (indexed l) (0%nat, d) = (i, nth i l d).
Proof.
  intro H. unfold indexed. rewrite combine_nth by (rewrite seq_length; reflexivity).
  rewrite seq_nth by assumption. reflexivity.
Qed.

(* ------------------------------------------------------------------ the greedy pass *)
(* every cell keeps its value or, if it was not [removed], receives [cur] *)
Definition writes (cur : Z) (id id' : list Z) : Prop :=
  length id' = length id /\
  forall p, zget id' p = zget id p \/ (zget id p <> removed /\ zget id' p = cur).

Lemma writes_refl cur id : writes cur id id.
Proof. split; auto. Qed.

Lemma writes_trans cur a b c : writes cur a b -> writes cur b c -> writes cur a c.
Proof.
  intros [L1 H1] [L2 H2]. split; [congruence|]. intro p.
  destruct (H2 p) as [E2|[N2 E2]]; destruct (H1 p) as [E1|[N1 E1]].
  - left; congruence.
  - right; split; congruence.
  - right; split; congruence.
  - right; split; congruence.
Qed.

Lemma writes_upd cur id c : zget id c <> removed -> writes cur id (upd_nth id c cur).
Proof.
  intro H. split; [apply upd_nth_length|]. intro p. rewrite zget_upd.
  destruct (Nat.eqb p c) eqn:E; simpl; auto.
  destruct (Nat.ltb c (length id)); auto.
  apply Nat.eqb_eq in E; subst. right; auto.
Qed.

Lemma claim_neib_writes cur acc e : writes cur (fst acc) (fst (claim_neib cur acc e)).
Proof.
  unfold claim_neib. destruct (snd e && negb (Z.eqb (zget (fst acc) (fst e)) removed)) eqn:E.
  - simpl. apply writes_upd. lia.
  - apply writes_refl.
Qed.

Lemma fold_claim_writes cur l acc : writes cur (fst acc) (fst (fold_left (claim_neib cur) l acc)).
Proof.
  revert acc; induction l as [|e l IH]; intro acc; simpl; [apply writes_refl|].
  eapply writes_trans; [apply claim_neib_writes | apply IH].
Qed.

Lemma mark_undef_writes cur id e : writes cur id (mark_undef cur id e).
Proof.
  unfold mark_undef. destruct (snd e && Z.eqb (zget id (fst e)) undefined) eqn:E.
  - apply writes_upd. unfold undefined, removed in *. lia.
  - apply writes_refl.
Qed.

Lemma fold_mark_writes cur l id : writes cur id (fold_left (mark_undef cur) l id).
Proof.
  revert id; induction l as [|e l IH]; intro id; simpl; [apply writes_refl|].
  eapply writes_trans; [apply mark_undef_writes | apply IH].
Qed.

Lemma mark_neibs_writes {S : Scalar} (A : crs S) st cur neib id : writes cur id (mark_neibs A st cur id neib).
Proof.
  unfold mark_neibs. revert id; induction neib as [|c l IH]; intro id; simpl; [apply writes_refl|].
  eapply writes_trans; [apply fold_mark_writes | apply IH].
Qed.

(* invariant of the pass after the first k rows *)
Definition pass_inv (id0 : list Z) (k : nat) (s : list Z * nat) : Prop :=
  length (fst s) = length id0 /\
  (forall p, zget (fst s) p = removed <-> zget id0 p = removed) /\
  (forall p, zget (fst s) p = removed \/ zget (fst s) p = undefined \/
             (0 <= zget (fst s) p < Z.of_nat (snd s))%Z) /\
  (forall p, p < k -> zget (fst s) p <> undefined).

Lemma agg_step_inv {S : Scalar} (A : crs S) st id0 k s :
  pass_inv id0 k s -> pass_inv id0 (Datatypes.S k) (agg_step A st s k).
Proof.
  intros (L & R & B & D). unfold agg_step.
  destruct (Z.eqb (zget (fst s) k) undefined) eqn:E.
  - set (cur := Z.of_nat (snd s)).
    assert (Hk : zget (fst s) k <> removed) by (unfold undefined, removed in *; lia).
    set (c := fold_left (claim_neib cur) (srow A st k) (upd_nth (fst s) k cur, [])).
    set (id3 := mark_neibs A st cur (fst c) (snd c)).
    assert (Wk : writes cur (upd_nth (fst s) k cur) id3).
    { eapply writes_trans; [|apply mark_neibs_writes].
      apply (fold_claim_writes cur (srow A st k) (upd_nth (fst s) k cur, [])). }
    assert (W : writes cur (fst s) id3).
    { eapply writes_trans; [apply writes_upd; exact Hk | exact Wk]. }
    destruct W as [WL W]. destruct Wk as [_ Wk].
    assert (Hcur : (0 <= cur)%Z) by (unfold cur; lia).
    unfold pass_inv. cbn [fst snd]. repeat split.
    + congruence.
    + intro H. apply R. destruct (W p) as [Ep|[Np Ep]]; [congruence|]. unfold removed in *; lia.
    + intro H. apply R in H. destruct (W p) as [Ep|[Np Ep]]; [congruence|]. contradiction.
    + intro p. destruct (W p) as [Ep|[Np Ep]].
      * rewrite Ep. destruct (B p) as [?|[?|?]]; auto. right; right. lia.
      * right; right. rewrite Ep. unfold cur. lia.
    + intros p Hp. destruct (Nat.eq_dec p k) as [->|Hne].
      * specialize (Wk k). rewrite zget_upd in Wk.
        assert (Hlen : k < length (fst s)) by (apply zget_in_range; exact Hk).
        replace (Nat.eqb k k && Nat.ltb k (length (fst s))) with true in Wk
          by (symmetry; apply andb_true_iff; split; [apply Nat.eqb_refl | apply Nat.ltb_lt; exact Hlen]).
        destruct Wk as [Ek|[_ Ek]]; rewrite Ek; unfold undefined; lia.
      * assert (p < k) by lia.
        destruct (W p) as [Ep|[Np Ep]]; [rewrite Ep; apply D; assumption|].
        rewrite Ep. unfold undefined; lia.
  - repeat split; auto.
    + apply R.
    + apply R.
    + intros p Hp. destruct (Nat.eq_dec p k) as [->|Hne]; [lia|]. apply D. lia.
Qed.

Lemma agg_fold_inv {S : Scalar} (A : crs S) st id0 m k s :
  pass_inv id0 k s -> pass_inv id0 (k + m) (fold_left (agg_step A st) (seq k m) s).
Proof.
  revert k s; induction m as [|m IH]; intros k s H; simpl.
  - replace (k + 0)%nat with k by lia. exact H.
  - replace (k + Datatypes.S m)%nat with (Datatypes.S k + m)%nat by lia.
    apply IH. apply agg_step_inv. exact H.
Qed.

Lemma init_id_length st : length (init_id st) = length st.
Proof. unfold init_id. apply map_length. Qed.

Lemma zget_init_id st p : p < length st ->
  zget (init_id st) p = if has_strong (nth p st []) then undefined else removed.
Proof.
  intro H. unfold zget, init_id.
  rewrite (nth_indep _ removed (if has_strong [] then undefined else removed)) by (rewrite map_length; exact H).
  rewrite (map_nth (fun fl => if has_strong fl then undefined else removed)). reflexivity.
Qed.

Lemma pass_inv_init st : pass_inv (init_id st) 0 (init_id st, 0%nat).
Proof.
  repeat split; simpl; auto; try lia.
  intro p. destruct (Nat.ltb p (length st)) eqn:E.
  - rewrite zget_init_id by lia. destruct (has_strong (nth p st [])); auto.
  - left. unfold zget. apply nth_overflow. rewrite init_id_length. lia.
Qed.

(* result of the pass: every cell is removed or a valid id, and removed <-> no strong entry *)
Lemma agg_pass_spec {S : Scalar} (A : crs S) st : length st = nrows A ->
  let r := agg_pass A st in
  length (fst r) = nrows A /\
  (forall p, p < nrows A -> (zget (fst r) p = removed <-> has_strong (nth p st []) = false)) /\
  (forall p, p < nrows A -> zget (fst r) p = removed \/ (0 <= zget (fst r) p < Z.of_nat (snd r))%Z).
Proof.
  intros Hst r.
  pose proof (agg_fold_inv A st (init_id st) (nrows A) 0 _ (pass_inv_init st)) as (L & R & B & D).
  fold (agg_pass A st) in L, R, B, D. fold r in L, R, B, D. simpl in D.
  rewrite init_id_length in L. split; [congruence|]. split.
  - intros p Hp. split.
    + intro H. apply R in H. rewrite zget_init_id in H by lia.
      destruct (has_strong (nth p st [])); [unfold undefined, removed in H; lia | reflexivity].
    + intro H. apply R. rewrite zget_init_id by lia. rewrite H. reflexivity.
  - intros p Hp. destruct (B p) as [?|[?|?]]; auto. exfalso. eapply D; eauto.
Qed.

(* ------------------------------------------------------------------ renumbering *)
Fixpoint lsum (l : list nat) : nat := match l with [] => 0 | x :: tl => x + lsum tl end.
Definition bits (l : list nat) : Prop := forall k, nth k l 0%nat <= 1.

Lemma bits_tl x l : bits (x :: l) -> bits l.
Proof. intros H k. apply (H (Datatypes.S k)). Qed.
Lemma bits_hd x l : bits (x :: l) -> x <= 1.
Proof. intros H. apply (H 0%nat). Qed.

Lemma psum_length acc l : length (psum_from acc l) = length l.
Proof. revert acc; induction l; intro acc; simpl; auto. Qed.

Lemma psum_last acc l d : l <> [] -> last (psum_from acc l) d = (acc + lsum l)%nat.
Proof.
  revert acc; induction l as [|x l IH]; intros acc H; [congruence|].
  destruct l as [|y l].
  - simpl. lia.
  - change (last (psum_from acc (x :: y :: l)) d) with (last (psum_from (acc + x) (y :: l)) d).
    rewrite IH by discriminate. simpl. lia.
Qed.

Lemma psum_nth_bounds acc l k : bits l -> k < length l -> nth k l 0%nat = 1%nat ->
  acc + 1 <= nth k (psum_from acc l) 0%nat <= acc + lsum l.
Proof.
  revert acc k; induction l as [|x l IH]; intros acc k Hb Hk H1; simpl in *; [lia|].
  destruct k as [|k].
  - subst x. lia.
  - specialize (IH (acc + x)%nat k (bits_tl _ _ Hb) ltac:(lia) H1). lia.
Qed.

Lemma psum_hits acc l t : bits l -> acc <= t < acc + lsum l ->
  exists k, k < length l /\ nth k l 0%nat = 1%nat /\ nth k (psum_from acc l) 0%nat = Datatypes.S t.
Proof.
  revert acc; induction l as [|x l IH]; intros acc Hb Ht; simpl in *; [lia|].
  pose proof (bits_hd _ _ Hb) as Hx.
  destruct (Nat.eq_dec x 1) as [->|Hx1].
  - destruct (Nat.eq_dec t acc) as [->|Hne].
    + exists 0%nat. repeat split; try lia.
    + destruct (IH (acc + 1)%nat (bits_tl _ _ Hb) ltac:(lia)) as (k & K1 & K2 & K3).
      exists (Datatypes.S k). repeat split; auto; lia.
  - assert (x = 0%nat) by lia. subst x.
    destruct (IH (acc + 0)%nat (bits_tl _ _ Hb) ltac:(lia)) as (k & K1 & K2 & K3).
    exists (Datatypes.S k). repeat split; auto; lia.
Qed.

Lemma lsum_le_length l : bits l -> lsum l <= length l.
Proof.
  induction l as [|x l IH]; intro Hb; simpl; [lia|].
  pose proof (bits_hd _ _ Hb). specialize (IH (bits_tl _ _ Hb)). lia.
Qed.

Lemma bits_full l : bits l -> length l <= lsum l -> forall k, k < length l -> nth k l 0%nat = 1%nat.
Proof.
  induction l as [|x l IH]; intros Hb Hs k Hk; simpl in *; [lia|].
  pose proof (bits_hd _ _ Hb) as Hx. pose proof (lsum_le_length l (bits_tl _ _ Hb)).
  destruct k as [|k]; [lia|]. apply IH; [eapply bits_tl; eauto | lia | lia].
Qed.

(* mark_used: cnt[k] = 1 iff some id equals k *)
Lemma mark_used_fold id : forall acc k, k < length acc ->
  nth k (fold_left (fun cnt a => if Z.leb 0 a then upd_nth cnt (Z.to_nat a) 1%nat else cnt) id acc) 0%nat
  = if existsb (Z.eqb (Z.of_nat k)) id then 1%nat else nth k acc 0%nat.
Proof.
  induction id as [|a id IH]; intros acc k Hk; simpl; [reflexivity|].
  destruct (Z.leb 0 a) eqn:Ea.
  - rewrite IH by (rewrite upd_nth_length; exact Hk).
    rewrite nth_upd_nth.
    destruct (existsb (Z.eqb (Z.of_nat k)) id); [rewrite orb_true_r; reflexivity|].
    rewrite orb_false_r.
    destruct (Z.eqb (Z.of_nat k) a) eqn:Ek.
    + replace (Nat.eqb k (Z.to_nat a)) with true by lia.
      replace (Nat.ltb (Z.to_nat a) (length acc)) with true by lia. reflexivity.
    + replace (Nat.eqb k (Z.to_nat a)) with false by lia. reflexivity.
  - rewrite IH by exact Hk. replace (Z.eqb (Z.of_nat k) a) with false by lia. reflexivity.
Qed.

Lemma fold_upd_length (id : list Z) : forall acc : list nat,
  length (fold_left (fun cnt a => if Z.leb 0 a then upd_nth cnt (Z.to_nat a) 1%nat else cnt) id acc) = length acc.
Proof.
  induction id as [|a id IH]; intro acc; simpl; [reflexivity|].
  destruct (Z.leb 0 a); rewrite IH; [apply upd_nth_length | reflexivity].
Qed.

Lemma mark_used_length id count : length (mark_used id count) = count.
Proof. unfold mark_used. rewrite fold_upd_length. apply repeat_length. Qed.

Lemma mark_used_nth id count k : k < count ->
  nth k (mark_used id count) 0%nat = if existsb (Z.eqb (Z.of_nat k)) id then 1%nat else 0%nat.
Proof.
  intro H. unfold mark_used. rewrite mark_used_fold by (rewrite repeat_length; exact H).
  rewrite nth_repeat. reflexivity.
Qed.

Lemma mark_used_bits id count : bits (mark_used id count).
Proof.
  intro k. destruct (Nat.ltb k count) eqn:E.
  - rewrite mark_used_nth by lia. destruct (existsb _ id); lia.
  - rewrite nth_overflow by (rewrite mark_used_length; lia). lia.
Qed.

Lemma existsb_zget (id : list Z) (v : Z) : v <> removed ->
  existsb (Z.eqb v) id = true <-> exists i, i < length id /\ zget id i = v.
Proof.
  intro Hv. rewrite existsb_exists. split.
  - intros (x & Hin & Hx). apply (In_nth _ _ removed) in Hin. destruct Hin as (i & Hi & Hn).
    exists i. split; [exact Hi|]. unfold zget. rewrite Hn. lia.
  - intros (i & Hi & Hz). exists (zget id i). split; [apply nth_In; exact Hi | lia].
Qed.

Definition partition_spec (n count : nat) (id : list Z) (st : flags) : Prop :=
  length id = n /\
  (forall i, i < n -> zget id i = removed \/ (0 <= zget id i < Z.of_nat count)%Z) /\
  (forall k, k < count -> exists i, i < n /\ zget id i = Z.of_nat k) /\
  (forall i, i < n -> ((0 <= zget id i)%Z <-> has_strong (nth i st []) = true)).

Lemma zget_map_renum (f : Z -> Z) (id : list Z) i : i < length id -> zget (map f id) i = f (zget id i).
Proof.
  intro H. unfold zget. rewrite (nth_indep _ removed (f removed)) by (rewrite map_length; exact H).
  apply map_nth.
Qed.

(* the renumbering lemma: whatever valid (id, count) the pass leaves, the result is onto 0..count'-1 *)
Lemma renumber_spec n count id st : 0 < count ->
  length id = n ->
  (forall i, i < n -> zget id i = removed \/ (0 <= zget id i < Z.of_nat count)%Z) ->
  (forall i, i < n -> (zget id i = removed <-> has_strong (nth i st []) = false)) ->
  partition_spec n (snd (renumber id count)) (fst (renumber id count)) st.
Proof.
  intros Hc L B R. unfold renumber.
  set (u := mark_used id count). set (cnt := psum_from 0 u).
  assert (Hu : u <> []) by (intro E; pose proof (mark_used_length id count) as H; fold u in H; rewrite E in H; simpl in H; lia).
  assert (Hlast : last cnt 0%nat = lsum u) by (unfold cnt; rewrite psum_last by exact Hu; lia).
  assert (Hb : bits u) by apply mark_used_bits.
  assert (Hlen : length u = count) by apply mark_used_length.
  assert (Hstrong : forall i, i < n -> ((0 <= zget id i)%Z <-> has_strong (nth i st []) = true)).
  { intros i Hi. specialize (R i Hi). destruct (B i Hi) as [E|E].
    - rewrite E. split; [unfold removed; lia|]. intro H. destruct R as [R _]. rewrite (R E) in H. discriminate.
    - split; [|lia]. intros _. destruct (has_strong (nth i st [])) eqn:Hs; auto.
      destruct R as [_ R]. specialize (R eq_refl). unfold removed in *. lia. }
  assert (Hused : forall i, i < n -> (0 <= zget id i)%Z -> nth (Z.to_nat (zget id i)) u 0%nat = 1%nat).
  { intros i Hi H0. destruct (B i Hi) as [E|E]; [unfold removed in *; lia|].
    unfold u. rewrite mark_used_nth by lia.
    replace (existsb _ id) with true; [reflexivity|]. symmetry.
    apply existsb_zget; [unfold removed; lia|]. exists i. split; [lia|]. lia. }
  rewrite Hlast.
  destruct (Nat.ltb (lsum u) count) eqn:Elt; simpl.
  - (* some aggregates vanished *)
    unfold partition_spec. split; [|split; [|split]].
    + rewrite map_length. exact L.
    + intros i Hi. rewrite zget_map_renum by lia.
      destruct (Z.leb 0 (zget id i)) eqn:E0.
      * right. destruct (B i Hi) as [E|E]; [unfold removed in *; lia|].
        pose proof (psum_nth_bounds 0 u (Z.to_nat (zget id i)) Hb ltac:(lia) (Hused i Hi ltac:(lia))) as Hbd.
        fold cnt in Hbd. lia.
      * left. destruct (B i Hi) as [E|E]; [exact E | lia].
    + intros k Hk.
      destruct (psum_hits 0 u k Hb ltac:(lia)) as (j & J1 & J2 & J3). fold cnt in J3.
      unfold u in J2. rewrite mark_used_nth in J2 by lia.
      destruct (existsb (Z.eqb (Z.of_nat j)) id) eqn:Ex; [|discriminate].
      apply existsb_zget in Ex; [|unfold removed; lia]. destruct Ex as (i & Hi & Hz).
      exists i. split; [lia|]. rewrite zget_map_renum by lia. rewrite Hz.
      replace (Z.leb 0 (Z.of_nat j)) with true by lia. rewrite Nat2Z.id. rewrite J3. lia.
    + intros i Hi. rewrite zget_map_renum by lia. rewrite <- (Hstrong i Hi).
      destruct (Z.leb 0 (zget id i)) eqn:E0; [|lia].
      destruct (B i Hi) as [E|E]; [unfold removed in *; lia|].
      pose proof (psum_nth_bounds 0 u (Z.to_nat (zget id i)) Hb ltac:(lia) (Hused i Hi ltac:(lia))) as Hbd.
      fold cnt in Hbd. lia.
  - (* nothing vanished: every id below count is in use *)
    unfold partition_spec. split; [exact L|]. split; [exact B|]. split; [|exact Hstrong].
    intros k Hk.
    pose proof (bits_full u Hb ltac:(lia) k ltac:(lia)) as H1.
    unfold u in H1. rewrite mark_used_nth in H1 by lia.
    destruct (existsb (Z.eqb (Z.of_nat k)) id) eqn:Ex; [|discriminate].
    apply existsb_zget in Ex; [|unfold removed; lia]. destruct Ex as (i & Hi & Hz).
    exists i. split; [lia | exact Hz].
Qed.

Lemma strong_connections_length {S : Scalar} eps2 (A : crs S) junk :
  length (strong_connections eps2 A junk) = nrows A.
Proof. unfold strong_connections. rewrite map_length, indexed_length. reflexivity. Qed.

(* Theorem 1 *)
Lemma plain_aggregates_partition {S : Scalar} eps2 (A : crs S) junk count id st :
  plain_aggregates eps2 A junk = AggOk count id st ->
  0 < count /\ st = strong_connections eps2 A junk /\ partition_spec (nrows A) count id st.
Proof.
  unfold plain_aggregates. set (st0 := strong_connections eps2 A junk).
  pose proof (agg_pass_spec A st0 (strong_connections_length eps2 A junk)) as (L & R & B).
  destruct (Nat.eqb (snd (agg_pass A st0)) 0) eqn:E0; [discriminate|].
  intro H. injection H as <- <- <-.
  assert (Hc : 0 < snd (agg_pass A st0)) by lia.
  pose proof (renumber_spec (nrows A) _ _ st0 Hc L B R) as P.
  split; [|split; [reflexivity | exact P]].
  clear P. unfold renumber. destruct (Nat.ltb _ _) eqn:El; simpl; [|lia].
  (* count' = number of used ids > 0 : the seed of aggregate 0 ... simply: some id is >= 0 *)
  set (u := mark_used (fst (agg_pass A st0)) (snd (agg_pass A st0))).
  assert (Hu : u <> []) by (intro E; pose proof (mark_used_length (fst (agg_pass A st0)) (snd (agg_pass A st0))) as H; fold u in H; rewrite E in H; simpl in H; lia).
  rewrite psum_last by exact Hu. simpl.
  destruct (Nat.eq_dec (lsum u) 0) as [Ez|]; [|lia].
  exfalso.
  (* count > 0 but no id in use: impossible, since ids < count come only from seeds; use: an aggregate
     counter is increased only when a cell receives that id, and ids never become negative again.
     We derive it from the invariant differently: if lsum u = 0 then all ids are removed, hence the
     pass never found an undefined cell, hence count = 0. *)
  clear El.
  assert (Hall : forall p, p < nrows A -> zget (fst (agg_pass A st0)) p = removed).
  { intros p Hp. destruct (B p Hp) as [?|Hr]; auto. exfalso.
    assert (H1 : nth (Z.to_nat (zget (fst (agg_pass A st0)) p)) u 0%nat = 1%nat).
    { unfold u. rewrite mark_used_nth by lia.
      replace (existsb _ _) with true; [reflexivity|]. symmetry.
      apply existsb_zget; [unfold removed; lia|]. exists p. split; [lia|]. lia. }
    assert (Hlt : Z.to_nat (zget (fst (agg_pass A st0)) p) < length u) by (unfold u; rewrite mark_used_length; lia).
    pose proof (psum_nth_bounds 0 u _ (mark_used_bits _ _) Hlt H1). lia. }
  (* all removed => every row has no strong entry => init all removed => count stays 0 *)
  assert (Hinit : forall p, p < nrows A -> has_strong (nth p st0 []) = false).
  { intros p Hp. apply R; auto. }
  assert (Hz : snd (agg_pass A st0) = 0%nat).
  { unfold agg_pass.
    assert (Hgen : forall m k s, snd s = 0%nat -> (forall p, zget (fst s) p = removed) ->
              snd (fold_left (agg_step A st0) (seq k m) s) = 0%nat).
    { induction m as [|m IHm]; intros k s Hs Hr; simpl; [exact Hs|].
      apply IHm; unfold agg_step; rewrite Hr; simpl; auto. }
    apply Hgen; [reflexivity|]. intro p. simpl.
    destruct (Nat.ltb p (length st0)) eqn:Ep.
    - rewrite zget_init_id by lia. rewrite Hinit; [reflexivity|].
      rewrite <- (strong_connections_length eps2 A junk). fold st0. lia.
    - unfold zget. apply nth_overflow. rewrite init_id_length. lia. }
  lia.
Qed.

(* empty_level <-> no row has a strong connection *)
Lemma plain_aggregates_empty {S : Scalar} eps2 (A : crs S) junk :
  plain_aggregates eps2 A junk = AggEmpty <->
  (forall i, i < nrows A -> has_strong (nth i (strong_connections eps2 A junk) []) = false).
Proof.
  unfold plain_aggregates. set (st0 := strong_connections eps2 A junk).
  pose proof (agg_pass_spec A st0 (strong_connections_length eps2 A junk)) as (L & R & B).
  split.
  - destruct (Nat.eqb (snd (agg_pass A st0)) 0) eqn:E0; [|discriminate]. intros _ i Hi.
    apply R; auto. destruct (B i Hi); auto. lia.
  - intro Hinit.
    assert (Hz : snd (agg_pass A st0) = 0%nat).
    { unfold agg_pass.
      assert (Hgen : forall m k s, snd s = 0%nat -> (forall p, zget (fst s) p = removed) ->
                snd (fold_left (agg_step A st0) (seq k m) s) = 0%nat).
      { induction m as [|m IHm]; intros k s Hs Hr; simpl; [exact Hs|].
        apply IHm; unfold agg_step; rewrite Hr; simpl; auto. }
      apply Hgen; [reflexivity|]. intro p. simpl.
      destruct (Nat.ltb p (length st0)) eqn:Ep.
      - rewrite zget_init_id by lia. rewrite Hinit; [reflexivity|].
        rewrite <- (strong_connections_length eps2 A junk). fold st0. lia.
      - unfold zget. apply nth_overflow. rewrite init_id_length. lia. }
    rewrite Hz. reflexivity.
Qed.

(* ------------------------------------------------------------------ tentative prolongation *)
Section TentativeAny.
Context {S : Scalar}.

Lemma tentative_nrows naggr id : nrows (tentative_prolongation (S:=S) naggr id) = length id.
Proof. unfold nrows, tentative_prolongation. simpl. apply map_length. Qed.

(* row i is the single unit entry (id i, 1) when id i >= 0 and empty otherwise *)
Lemma tentative_row_nth naggr id i :
  nth i (rows (tentative_prolongation (S:=S) naggr id)) [] = tentative_row (zget id i).
Proof.
  unfold tentative_prolongation. simpl.
  change (@nil (nat * S)) with (tentative_row (S:=S) removed). unfold zget. apply map_nth.
Qed.

Lemma tentative_mget_off naggr id i j :
  (zget id i < 0)%Z \/ j <> Z.to_nat (zget id i) ->
  mget (tentative_prolongation (S:=S) naggr id) i j = s0.
Proof.
  intro H. unfold mget. rewrite tentative_row_nth. unfold tentative_row.
  destruct (Z.leb 0 (zget id i)) eqn:E; [|reflexivity].
  destruct H as [H|H]; [lia|]. unfold rget. simpl.
  replace (Nat.eqb (Z.to_nat (zget id i)) j) with false by (symmetry; apply Nat.eqb_neq; auto).
  reflexivity.
Qed.

(* disjoint supports: a row has at most one column with a non-zero entry *)
Lemma tentative_disjoint naggr id i j1 j2 :
  mget (tentative_prolongation (S:=S) naggr id) i j1 <> s0 ->
  mget (tentative_prolongation (S:=S) naggr id) i j2 <> s0 -> j1 = j2.
Proof.
  intros H1 H2.
  destruct (Z_lt_dec (zget id i) 0) as [Hn|Hn]; [exfalso; apply H1; apply tentative_mget_off; auto|].
  destruct (Nat.eq_dec j1 (Z.to_nat (zget id i))) as [->|N1]; [|exfalso; apply H1; apply tentative_mget_off; auto].
  destruct (Nat.eq_dec j2 (Z.to_nat (zget id i))) as [->|N2]; [|exfalso; apply H2; apply tentative_mget_off; auto].
  reflexivity.
Qed.

(* removed rows are empty *)
Lemma tentative_removed_row naggr id i : (zget id i < 0)%Z ->
  nth i (rows (tentative_prolongation (S:=S) naggr id)) [] = [].
Proof.
  intro H. rewrite tentative_row_nth. unfold tentative_row.
  replace (Z.leb 0 (zget id i)) with false by lia. reflexivity.
Qed.
End TentativeAny.

Section TentativeRing.
Variable S : Scalar.
Hypothesis Srt : Sring S.
Add Ring SRing : Srt.

Lemma tentative_mget_on naggr id i : (0 <= zget id i)%Z ->
  mget (tentative_prolongation (S:=S) naggr id) i (Z.to_nat (zget id i)) = s1.
Proof.
  intro H. unfold mget. rewrite tentative_row_nth. unfold tentative_row.
  replace (Z.leb 0 (zget id i)) with true by lia. unfold rget. simpl. rewrite Nat.eqb_refl. ring.
Qed.

Lemma vget_repeat_one n k : k < n -> vget (repeat (@s1 S) n) k = s1.
Proof.
  revert k; induction n as [|n IH]; intros k H; [lia|].
  destruct k as [|k]; [reflexivity|]. unfold vget in *. simpl. apply IH. lia.
Qed.

(* P_tent * 1 = 1 on aggregated rows (and 0 on removed rows) *)
Lemma tentative_times_one naggr id i : (0 <= zget id i < Z.of_nat naggr)%Z ->
  dotrow (nth i (rows (tentative_prolongation (S:=S) naggr id)) []) (repeat s1 naggr) = s1.
Proof.
  intro H. rewrite tentative_row_nth. unfold tentative_row.
  replace (Z.leb 0 (zget id i)) with true by lia. unfold dotrow. simpl.
  rewrite vget_repeat_one by lia. ring.
Qed.

Lemma tentative_times_one_removed naggr id i x : (zget id i < 0)%Z ->
  dotrow (nth i (rows (tentative_prolongation (S:=S) naggr id)) []) x = s0.
Proof. intro H. rewrite tentative_removed_row by exact H. reflexivity. Qed.

Lemma sumn_zero (f : nat -> S) n : (forall i, i < n -> f i = s0) -> sumn f n = s0.
Proof.
  induction n as [|n IH]; intro H; simpl; [reflexivity|].
  rewrite IH by (intros; apply H; lia). rewrite H by lia. ring.
Qed.

(* columns are mutually orthogonal *)
Lemma tentative_orthogonal naggr id j1 j2 : j1 <> j2 ->
  sumn (fun i => mget (tentative_prolongation (S:=S) naggr id) i j1 *
                 mget (tentative_prolongation (S:=S) naggr id) i j2) (length id) = s0.
Proof.
  intro Hne. apply sumn_zero. intros i _.
  destruct (Z_lt_dec (zget id i) 0) as [Hn|Hn].
  - rewrite (tentative_mget_off naggr id i j1) by auto. ring.
  - destruct (Nat.eq_dec j1 (Z.to_nat (zget id i))) as [E1|N1].
    + rewrite (tentative_mget_off naggr id i j2) by (right; congruence). ring.
    + rewrite (tentative_mget_off naggr id i j1) by auto. ring.
Qed.
End TentativeRing.

(* ------------------------------------------------------------------ pointwise aggregates *)
(* the part of the lifting statement that holds by construction: the b unknowns of a
   pointwise node ip receive the ids b*pw_id(ip) + k, k = 0..b-1 (negative for removed nodes) *)
Lemma expand_ids_length b pwid : length (expand_ids b pwid) = (length pwid * b)%nat.
Proof.
  unfold expand_ids. induction pwid as [|a l IH]; simpl; [reflexivity|].
  rewrite app_length, map_length, seq_length, IH. lia.
Qed.

Lemma expand_ids_nth b pwid ip k : ip < length pwid -> k < b ->
  nth (ip * b + k) (expand_ids b pwid) removed = (Z.of_nat b * nth ip pwid removed + Z.of_nat k)%Z.
Proof.
  unfold expand_ids. revert ip; induction pwid as [|a l IH]; intros ip Hip Hk; simpl in *; [lia|].
  destruct ip as [|ip].
  - simpl. rewrite app_nth1 by (rewrite map_length, seq_length; exact Hk).
    rewrite (nth_indep _ removed ((fun k0 => (Z.of_nat b * a + Z.of_nat k0)%Z) 0%nat))
      by (rewrite map_length, seq_length; exact Hk).
    rewrite (map_nth (fun k0 => (Z.of_nat b * a + Z.of_nat k0)%Z)). rewrite seq_nth by exact Hk. reflexivity.
  - rewrite app_nth2 by (rewrite map_length, seq_length; simpl; lia).
    rewrite map_length, seq_length.
    replace (Datatypes.S ip * b + k - b)%nat with (ip * b + k)%nat by (simpl; lia).
    apply IH; lia.
Qed.

Lemma expand_ids_negative b pwid ip k : 0 < b -> ip < length pwid -> k < b ->
  ((nth ip pwid removed < 0)%Z <-> (nth (ip * b + k) (expand_ids b pwid) removed < 0)%Z).
Proof. intros Hb Hip Hk. rewrite expand_ids_nth by assumption. nia. Qed.

(* witnesses evaluated on the closed rational instance *)
From Amgcl Require Import QcInst.

Definition poisson1d_2 : crs QcS :=
  mkCrs 2 [[(0, qc 2 1); (1, qc (-1) 1)]; [(0, qc (-1) 1); (1, qc 2 1)]]%nat.

(* 1-D Poisson (x) I_2, block_size 2, eps_strong = 1/4 (the witness of the former finding
   C04-pointwise-lifting, fixed by /repo 0e81e11 + 09e5c12): the pointwise aggregates are now the
   lifted scalar ones *)
Lemma pointwise_lifting_poisson :
  pwm (kron_id 2 poisson1d_2) 2 = Some (mabs poisson1d_2) /\
  pointwise_aggregates (qc 1 16) 2 0 (kron_id 2 poisson1d_2) (repeat (qc 0 1) 4)
    = AggOk 2 [0; 1; 0; 1]%Z [[false; true]; [false; true]; [true; false]; [true; false]] /\
  lifted_aggregates 2 (plain_aggregates (qc 1 16) (mabs poisson1d_2) (repeat (qc 0 1) 2))
    = AggOk 2 [0; 1; 0; 1]%Z [[false; true]; [false; true]; [true; false]; [true; false]].
Proof. split; [|split]; vm_compute; reflexivity. Qed.

(* ------------------------------------------------------------------ Ruge-Stuben: truncation *)
(* symmetric weighted path 0 -1- 3 -1/2- 2 -1- 1 (graph Laplacian, all row sums zero); eps_strong = 1/4,
   eps_trunc = 1/2: the entry -1/2 = eps_trunc * (-1) of row 2 lies ON the threshold.  Witness of the former
   finding C04-rs-truncation-tie (fixed by /repo 241833b): the entry is dropped AND counted in the
   rescaling sum, the row of P sums to one again *)
Definition rs_tie_A : crs QcS :=
  mkCrs 4 [[(0, qc 1 1); (3, qc (-1) 1)];
           [(1, qc 1 1); (2, qc (-1) 1)];
           [(1, qc (-1) 1); (2, qc 3 2); (3, qc (-1) 2)];
           [(0, qc (-1) 1); (2, qc (-1) 2); (3, qc 3 2)]]%nat.
Definition no_junk (A : crs QcS) : flags := map (fun r => map (fun _ => false) r) (rows A).

Lemma rs_trunc_tie_rescaled :
  is_symmetric rs_tie_A = true /\
  match rs_cf (qc 1 4) rs_tie_A (no_junk rs_tie_A), rs_transfer (qc 1 4) (qc 1 2) true rs_tie_A (no_junk rs_tie_A) with
  | Some (Sv, cf), TrOk P R =>
      rs_row_applicable rs_tie_A Sv cf 2 = true /\
      length (nth 2 (rows P) []) = 1%nat /\
      seqb (row_sum (nth 2 (rows P) [])) (qc 1 1) = true /\
      rs_rowsum_ok true (qc 1 2) rs_tie_A Sv cf P = true
  | _, _ => False
  end.
Proof. vm_compute. repeat split; reflexivity. Qed.

(* ------------------------------------------------------------------ Ruge-Stuben: no uninitialised read
   (after /repo commit 7bd138f connect() writes every S.val cell) *)
Lemma rs_connect_junk_independent {S : Scalar} (eps eps_strong : S) (A : crs S) (j1 j2 : flags) :
  rs_connect eps eps_strong A j1 = rs_connect eps eps_strong A j2.
Proof. reflexivity. Qed.

Lemma rs_transfer_junk_independent {S : Scalar} (eps_strong eps_trunc : S) do_trunc (A : crs S) (j1 j2 : flags) :
  rs_transfer eps_strong eps_trunc do_trunc A j1 = rs_transfer eps_strong eps_trunc do_trunc A j2.
Proof. reflexivity. Qed.

(* ------------------------------------------------------------------ smoothed aggregation formula *)
From Amgcl Require Import KernelsProofs MatOpsProofs.

Section SAField.
Variable S : Scalar.
Hypothesis Sft : Sfield S.
Hypothesis Seqb : seqb_spec S.
Let Srt : Sring S := F_R Sft.
Add Field SField : Sft.

(* the kept entries of row i with their coefficients, as a sparse row *)
Definition sa_coef_row (omega dia : S) (i : nat) (zr : list (nat * S * bool)) : row S :=
  flat_map (fun e => let ca := fst (fst e) in
                     if negb (Nat.eqb ca i) && negb (snd e) then []
                     else [(ca, if Nat.eqb ca i then (s1 - omega) * s1 else dia * snd (fst e))]) zr.

Lemma sa_row_fold_rget (omega dia : S) (Pt : crs S) i zr : forall acc j,
  rget (fold_left (fun acc e =>
     let ca := fst (fst e) in
     if negb (Nat.eqb ca i) && negb (snd e) then acc else
     let va := if Nat.eqb ca i then (s1 - omega) * s1 else dia * snd (fst e) in
     fold_left (fun acc ep => row_add acc (fst ep) (va * snd ep)) (nth ca (rows Pt) []) acc) zr acc) j
  = rget acc j + row_lin (sa_coef_row omega dia i zr) Pt j.
Proof.
  induction zr as [|e zr IH]; intros acc j; simpl.
  - ring.
  - rewrite IH. destruct (negb (Nat.eqb (fst (fst e)) i) && negb (snd e)); simpl.
    + reflexivity.
    + rewrite (rget_fold_row_add Srt). ring.
Qed.

Lemma fold_acc_AF (k : nat) (zr : list (nat * S * bool)) : forall a,
  fold_left (fun a e => if Nat.eqb (fst (fst e)) k && snd e then a + snd (fst e) else a) zr a
  = a + fold_left (fun a e => if Nat.eqb (fst (fst e)) k && snd e then a + snd (fst e) else a) zr s0.
Proof.
  induction zr as [|e zr IH]; intro a; simpl; [ring|].
  rewrite IH. rewrite (IH (if Nat.eqb (fst (fst e)) k && snd e then s0 + snd (fst e) else s0)).
  destruct (Nat.eqb (fst (fst e)) k && snd e); ring.
Qed.

(* off-diagonal coefficient: dia * (sum of the strong entries in column k) *)
Lemma sa_coef_off (omega dia : S) i k zr : k <> i ->
  rget (sa_coef_row omega dia i zr) k
  = dia * fold_left (fun a e => if Nat.eqb (fst (fst e)) k && snd e then a + snd (fst e) else a) zr s0.
Proof.
  intro Hk. induction zr as [|e zr IH]; simpl.
  - rewrite rget_nil. ring.
  - rewrite fold_acc_AF.
    destruct (Nat.eqb_spec (fst (fst e)) i) as [Ei|Ei]; simpl.
    + rewrite (rget_cons Srt), IH. simpl.
      replace (Nat.eqb (fst (fst e)) k) with false by (symmetry; apply Nat.eqb_neq; congruence).
      simpl. ring.
    + destruct (snd e) eqn:Es; simpl.
      * rewrite (rget_cons Srt), IH. simpl. rewrite andb_true_r.
        destruct (Nat.eqb (fst (fst e)) k); ring.
      * rewrite IH. rewrite andb_false_r. ring.
Qed.

(* diagonal coefficient: (1 - omega) once per stored diagonal entry *)
Lemma sa_coef_diag0 (omega dia : S) i zr :
  length (filter (fun e : nat * S * bool => Nat.eqb (fst (fst e)) i) zr) = 0%nat ->
  rget (sa_coef_row omega dia i zr) i = s0.
Proof.
  induction zr as [|e zr IH]; simpl; intro H; [apply rget_nil|].
  destruct (Nat.eqb_spec (fst (fst e)) i) as [Ei|Ei]; simpl in *; [discriminate|].
  destruct (snd e); simpl.
  - rewrite (rget_cons Srt). simpl.
    replace (Nat.eqb (fst (fst e)) i) with false by (symmetry; apply Nat.eqb_neq; exact Ei).
    rewrite IH by exact H. ring.
  - apply IH; exact H.
Qed.

Lemma sa_coef_diag (omega dia : S) i zr :
  length (filter (fun e : nat * S * bool => Nat.eqb (fst (fst e)) i) zr) = 1%nat ->
  rget (sa_coef_row omega dia i zr) i = s1 - omega.
Proof.
  induction zr as [|e zr IH]; simpl; intro H; [discriminate|].
  destruct (Nat.eqb_spec (fst (fst e)) i) as [Ei|Ei]; simpl in *.
  - injection H as H. rewrite (rget_cons Srt). simpl. rewrite Ei, Nat.eqb_refl.
    rewrite sa_coef_diag0 by exact H. ring.
  - destruct (snd e); simpl.
    + rewrite (rget_cons Srt). simpl.
      replace (Nat.eqb (fst (fst e)) i) with false by (symmetry; apply Nat.eqb_neq; exact Ei).
      rewrite IH by exact H. ring.
    + apply IH; exact H.
Qed.

Lemma sa_coef_row_wf (omega dia : S) i m zr :
  (forall e, In e zr -> fst (fst e) < m) -> row_wf m (sa_coef_row omega dia i zr) = true.
Proof.
  induction zr as [|e zr IH]; intro H; simpl; [reflexivity|].
  unfold row_wf in *. rewrite forallb_app. rewrite IH by (intros; apply H; right; assumption).
  rewrite andb_true_r.
  destruct (negb (Nat.eqb (fst (fst e)) i) && negb (snd e)); simpl; [reflexivity|].
  rewrite andb_true_r. apply Nat.ltb_lt. apply H. left; reflexivity.
Qed.

Lemma nth_sa_smooth (omega : S) (A : crs S) st Pt i : i < nrows A ->
  nth i (rows (sa_smooth omega A st Pt)) []
  = sa_row omega Pt i (zip_row (nth i (rows A) []) (nth i st [])).
Proof.
  intro Hi. unfold sa_smooth. simpl.
  rewrite (nth_indep _ [] ((fun ir : nat * row S => sa_row omega Pt (fst ir) (zip_row (snd ir) (nth (fst ir) st []))) (0%nat, [])))
    by (rewrite map_length, indexed_length; exact Hi).
  rewrite (map_nth (fun ir : nat * row S => sa_row omega Pt (fst ir) (zip_row (snd ir) (nth (fst ir) st [])))).
  rewrite nth_indexed by exact Hi. reflexivity.
Qed.

(* Theorem 3:  dense P = (I - omega D^-1 A_F) dense P_tent, row by row *)
Lemma sa_formula_holds (omega : S) (A : crs S) st Pt i j :
  wf A = true -> ncols A = nrows A -> i < nrows A ->
  sa_row_regular A st i = true ->
  mget (sa_smooth omega A st Pt) i j = sa_formula omega A st Pt i j.
Proof.
  intros Hwf Hsq Hi Hreg.
  unfold sa_row_regular in Hreg. apply andb_prop in Hreg as [Hreg Hlen]. apply andb_prop in Hreg as [HD Hdiag].
  apply Nat.eqb_eq in Hdiag. apply Nat.eqb_eq in Hlen.
  set (zr := zip_row (nth i (rows A) []) (nth i st [])) in *.
  assert (HDne : sa_D A st i <> s0).
  { intro E. unfold is_zero in HD. rewrite E in HD.
    assert (seqb (@s0 S) s0 = true) by (apply Seqb; reflexivity). rewrite H in HD. discriminate. }
  unfold mget. rewrite nth_sa_smooth by exact Hi. fold zr. unfold sa_row.
  rewrite sa_row_fold_rget, rget_nil.
  set (dia := sa_scale omega (sa_dia i zr)).
  assert (Hdia : dia = (- omega) * sinv (sa_D A st i)).
  { unfold dia, sa_scale. fold (sa_D A st i) in *. unfold sa_D. fold zr.
    destruct (is_zero (sa_dia i zr)) eqn:Ez; [|reflexivity].
    exfalso. apply HDne. unfold sa_D. fold zr. apply (is_zero_true Seqb). exact Ez. }
  assert (Hcols : forall e, In e zr -> fst (fst e) < nrows A).
  { intros e He. unfold zr, zip_row in He. destruct e as [[c v] b]. apply in_combine_l in He. simpl.
    unfold wf in Hwf. rewrite forallb_forall in Hwf.
    assert (Hr : row_wf (ncols A) (nth i (rows A) []) = true) by (apply Hwf; apply nth_In; exact Hi).
    unfold row_wf in Hr. rewrite forallb_forall in Hr. specialize (Hr _ He). simpl in Hr.
    apply Nat.ltb_lt in Hr. lia. }
  rewrite (row_lin_dense Srt _ Pt j (nrows A)) by (apply sa_coef_row_wf; exact Hcols).
  unfold sa_formula. transitivity (sumn (fun k => sa_M omega A st i k * mget Pt k j) (nrows A)); [|reflexivity].
  rewrite (sumn_ext _ (fun k => sa_M omega A st i k * mget Pt k j)); [ring|].
  intros k Hk. f_equal. unfold sa_M, sa_AF.
  destruct (Nat.eqb_spec i k) as [<-|Hne].
  - rewrite sa_coef_diag by exact Hdiag. field. exact HDne.
  - rewrite sa_coef_off by congruence. fold zr. rewrite Hdia. ring.
Qed.

End SAField.

(* ------------------------------------------------------------------ the header comment of smoothed_aggregation.hpp
   documents  a_ii^F = a_ii - sum_{j != i} (a_ij - a_ij^F)  (weak entries SUBTRACTED from the diagonal; this is
   the formula printed in Vanek/Mandel/Brezina 1996), the code accumulates  dia += A.val[j]  for the weak
   entries (ADDED: the row sum of A_F equals the row sum of A).  The two differ as soon as a row has a weak
   connection; only the coded one makes rows of P sum to one. *)
Definition sa_D_doc {S : Scalar} (A : crs S) (st : flags) (i : nat) : S :=
  fold_left (fun d e => if Nat.eqb (fst (fst e)) i then d + snd (fst e)
                        else if negb (snd e) then d - snd (fst e) else d)
            (zip_row (nth i (rows A) []) (nth i st [])) s0.
Definition sa_M_doc {S : Scalar} (omega : S) (A : crs S) (st : flags) (i k : nat) : S :=
  (if Nat.eqb i k then s1 else s0)
  - omega * sinv (sa_D_doc A st i) * (if Nat.eqb i k then sa_D_doc A st i else sa_AF A st i k).
Definition sa_formula_doc {S : Scalar} (omega : S) (A : crs S) (st : flags) (Pt : crs S) (i j : nat) : S :=
  sumn (fun k => sa_M_doc omega A st i k * mget Pt k j) (nrows A).

Definition sa_doc_A : crs QcS :=
  mkCrs 3 [[(0, qc 2 1); (1, qc (-1) 1); (2, qc (-1) 4)];
           [(0, qc (-1) 1); (1, qc 2 1)];
           [(0, qc (-1) 4); (2, qc 2 1)]]%nat.

Lemma sa_documented_diagonal_refuted :
  match pointwise_aggregates (qc 1 16) 1 0 sa_doc_A (repeat (qc 0 1) 3) with
  | AggOk count id st =>
      let Pt := tentative_prolongation (S:=QcS) count id in
      let P := sa_smooth (qc 2 3) sa_doc_A st Pt in
      sa_row_regular sa_doc_A st 0 = true /\
      seqb (mget P 0 0) (sa_formula (qc 2 3) sa_doc_A st Pt 0 0) = true /\
      seqb (mget P 0 0) (qc 5 7) = true /\
      seqb (sa_formula_doc (qc 2 3) sa_doc_A st Pt 0 0) (qc 17 27) = true
  | _ => False
  end.
Proof. vm_compute. repeat split; reflexivity. Qed.

(* ------------------------------------------------------------------ structure of the transfer operators *)
Lemma sa_transfer_is_smoothing {S : Scalar} (eps2 relax c23 : S) bs (A : crs S) junk P R :
  sa_transfer eps2 relax c23 bs A junk = TrOk P R ->
  exists count id st, pointwise_aggregates eps2 bs 0 A junk = AggOk count id st /\
    P = sa_smooth (relax * c23) A st (tentative_prolongation count id) /\ R = transpose P.
Proof.
  unfold sa_transfer, sa_transfer_omega, sa_omega.
  destruct (pointwise_aggregates eps2 bs 0 A junk) as [| |count id st]; try discriminate.
  intro H. injection H as <- <-. exists count, id, st. repeat split.
Qed.

Lemma restriction_is_transpose {S : Scalar} (eps2 relax c23 eps_strong eps_trunc : S) bs dt (A : crs S) junk junkf P R :
  (aggregation_transfer eps2 bs A junk = TrOk P R -> R = transpose P) /\
  (sa_transfer eps2 relax c23 bs A junk = TrOk P R -> R = transpose P) /\
  (rs_transfer eps_strong eps_trunc dt A junkf = TrOk P R -> R = transpose P).
Proof.
  repeat split.
  - unfold aggregation_transfer. destruct (pointwise_aggregates eps2 bs 0 A junk); try discriminate.
    intro H; injection H as <- <-; reflexivity.
  - unfold sa_transfer, sa_transfer_omega. destruct (pointwise_aggregates eps2 bs 0 A junk); try discriminate.
    intro H; injection H as <- <-; reflexivity.
  - unfold rs_transfer. destruct (rs_cf eps_strong A junkf) as [[Sv cf]|]; try discriminate.
    unfold rs_interp. destruct (Nat.eqb (snd (rs_cidx cf)) 0); try discriminate.
    intro H; injection H as <- <-; reflexivity.
Qed.

(* ------------------------------------------------------------------ smoothed aggregation: row sums *)
(* structural symmetry: every stored entry has a stored mirror entry with the same value *)
Definition struct_sym {S : Scalar} (A : crs S) : Prop :=
  forall i c v, i < nrows A -> In (c, v) (nth i (rows A) []) -> In (i, v) (nth c (rows A) []).

Section SARowSum.
Variable S : Scalar.
Hypothesis Sft : Sfield S.
Hypothesis Seqb : seqb_spec S.
Let Srt : Sring S := F_R Sft.
Add Field SField4 : Sft.

Lemma row_sum_acc (r : row S) a : fold_left (fun a e => a + snd e) r a = a + row_sum r.
Proof.
  unfold row_sum. revert a; induction r as [|e r IH]; intro a; simpl; [ring|].
  rewrite IH, (IH (s0 + snd e)). ring.
Qed.
Lemma row_sum_cons (e : nat * S) r : row_sum (e :: r) = snd e + row_sum r.
Proof. unfold row_sum at 1. simpl. rewrite row_sum_acc. ring. Qed.
Lemma row_sum_nil : row_sum (@nil (nat * S)) = s0.
Proof. reflexivity. Qed.

Lemma row_sum_row_add (r : row S) c v : row_sum (row_add r c v) = row_sum r + v.
Proof.
  induction r as [|[c' v'] r IH]; simpl.
  - rewrite row_sum_cons, row_sum_nil. simpl. ring.
  - destruct (Nat.eqb c' c).
    + rewrite !row_sum_cons. simpl. ring.
    + rewrite !row_sum_cons, IH. simpl. ring.
Qed.

Lemma row_sum_fold_row_add (a : S) (rb acc : row S) :
  row_sum (fold_left (fun acc eb => row_add acc (fst eb) (a * snd eb)) rb acc) = row_sum acc + a * row_sum rb.
Proof.
  revert acc; induction rb as [|e rb IH]; intro acc; simpl.
  - rewrite row_sum_nil. ring.
  - rewrite IH, row_sum_row_add, row_sum_cons. ring.
Qed.

(* total of the kept coefficients times the row totals of P_tent *)
Definition sa_tot (omega dia : S) (Pt : crs S) (i : nat) (zr : list (nat * S * bool)) : S :=
  fold_right (fun e acc =>
     (let ca := fst (fst e) in
      if negb (Nat.eqb ca i) && negb (snd e) then s0
      else (if Nat.eqb ca i then (s1 - omega) * s1 else dia * snd (fst e)) * row_sum (nth ca (rows Pt) [])) + acc)
   s0 zr.

Lemma sa_row_fold_row_sum (omega dia : S) (Pt : crs S) i zr : forall acc,
  row_sum (fold_left (fun acc e =>
     let ca := fst (fst e) in
     if negb (Nat.eqb ca i) && negb (snd e) then acc else
     let va := if Nat.eqb ca i then (s1 - omega) * s1 else dia * snd (fst e) in
     fold_left (fun acc ep => row_add acc (fst ep) (va * snd ep)) (nth ca (rows Pt) []) acc) zr acc)
  = row_sum acc + sa_tot omega dia Pt i zr.
Proof.
  induction zr as [|e zr IH]; intro acc; simpl.
  - ring.
  - rewrite IH. destruct (negb (Nat.eqb (fst (fst e)) i) && negb (snd e)); simpl.
    + ring.
    + rewrite row_sum_fold_row_add. ring.
Qed.

Lemma tentative_row_sum naggr id c :
  row_sum (nth c (rows (tentative_prolongation (S:=S) naggr id)) []) = if Z.leb 0 (zget id c) then s1 else s0.
Proof.
  rewrite tentative_row_nth. unfold tentative_row. destruct (Z.leb 0 (zget id c)).
  - rewrite row_sum_cons, row_sum_nil. simpl. ring.
  - reflexivity.
Qed.

(* strong off-diagonal total and the lumped diagonal add up to the row total *)
Definition strong_tot (i : nat) (zr : list (nat * S * bool)) : S :=
  fold_right (fun e acc => (if negb (Nat.eqb (fst (fst e)) i) && snd e then snd (fst e) else s0) + acc) s0 zr.
Definition zr_tot (zr : list (nat * S * bool)) : S := fold_right (fun e acc => snd (fst e) + acc) s0 zr.

Lemma sa_dia_acc i (zr : list (nat * S * bool)) : forall a,
  fold_left (fun d e => if Nat.eqb (fst (fst e)) i || negb (snd e) then d + snd (fst e) else d) zr a
  = a + sa_dia i zr.
Proof.
  unfold sa_dia. induction zr as [|e zr IH]; intro a; simpl; [ring|].
  rewrite IH. rewrite (IH (if Nat.eqb (fst (fst e)) i || negb (snd e) then s0 + snd (fst e) else s0)).
  destruct (Nat.eqb (fst (fst e)) i || negb (snd e)); ring.
Qed.

Lemma dia_plus_strong i (zr : list (nat * S * bool)) : sa_dia i zr + strong_tot i zr = zr_tot zr.
Proof.
  induction zr as [|e zr IH]; simpl.
  - unfold sa_dia. simpl. ring.
  - unfold sa_dia at 1. simpl. rewrite sa_dia_acc. rewrite <- IH.
    destruct (Nat.eqb (fst (fst e)) i); destruct (snd e); simpl; ring.
Qed.

Lemma zr_tot_row (r : row S) fl : length (zip_row r fl) = length r -> zr_tot (zip_row r fl) = row_sum r.
Proof.
  unfold zip_row. revert fl; induction r as [|e r IH]; intros fl H; simpl.
  - reflexivity.
  - destruct fl as [|b fl]; simpl in *; [discriminate|].
    rewrite row_sum_cons, IH by lia. reflexivity.
Qed.

(* with every kept neighbour aggregated, the total is (1 - omega) * #diag + dia * strong_tot *)
Lemma sa_tot_aggregated0 (omega dia : S) (Pt : crs S) id i zr :
  (forall c, row_sum (nth c (rows Pt) []) = if Z.leb 0 (zget id c) then s1 else s0) ->
  (forall e, In e zr -> fst (fst e) <> i -> snd e = true -> (0 <= zget id (fst (fst e)))%Z) ->
  length (filter (fun e : nat * S * bool => Nat.eqb (fst (fst e)) i) zr) = 0%nat ->
  sa_tot omega dia Pt i zr = dia * strong_tot i zr.
Proof.
  intros HPt. induction zr as [|e zr IH]; simpl; intros Hnb H; [ring|].
  destruct (Nat.eqb_spec (fst (fst e)) i) as [Ei|Ei]; simpl in *; [discriminate|].
  rewrite IH by (auto; intros; apply Hnb; auto). destruct (snd e) eqn:Es; simpl.
  - rewrite HPt.
    replace (Z.leb 0 (zget id (fst (fst e)))) with true
      by (symmetry; apply Z.leb_le; apply Hnb; auto). ring.
  - ring.
Qed.

Lemma sa_tot_aggregated (omega dia : S) (Pt : crs S) id i zr :
  (forall c, row_sum (nth c (rows Pt) []) = if Z.leb 0 (zget id c) then s1 else s0) ->
  (0 <= zget id i)%Z ->
  (forall e, In e zr -> fst (fst e) <> i -> snd e = true -> (0 <= zget id (fst (fst e)))%Z) ->
  length (filter (fun e : nat * S * bool => Nat.eqb (fst (fst e)) i) zr) = 1%nat ->
  sa_tot omega dia Pt i zr = (s1 - omega) + dia * strong_tot i zr.
Proof.
  intros HPt Hi. induction zr as [|e zr IH]; simpl; intros Hnb H; [discriminate|].
  destruct (Nat.eqb_spec (fst (fst e)) i) as [Ei|Ei]; simpl in *.
  - injection H as H. rewrite (sa_tot_aggregated0 omega dia Pt id i zr HPt) by (auto; intros; apply Hnb; auto).
    rewrite HPt, Ei.
    replace (Z.leb 0 (zget id i)) with true by (symmetry; apply Z.leb_le; exact Hi). ring.
  - rewrite IH by (auto; intros; apply Hnb; auto). destruct (snd e) eqn:Es; simpl.
    + rewrite HPt.
      replace (Z.leb 0 (zget id (fst (fst e)))) with true
        by (symmetry; apply Z.leb_le; apply Hnb; auto). ring.
    + ring.
Qed.

Lemma in_combine_map {X} (f : X -> bool) (r : list X) x b :
  In (x, b) (combine r (map f r)) -> In x r /\ b = f x.
Proof.
  induction r as [|a r IH]; simpl; [tauto|]. intros [H|H].
  - injection H as <- <-. auto.
  - destruct (IH H). auto.
Qed.

Lemma nth_strong_connections eps2 (A : crs S) junk i : i < nrows A ->
  nth i (strong_connections eps2 A junk) [] = strong_row eps2 (diagonal A false junk) i (nth i (rows A) []).
Proof.
  intro Hi. unfold strong_connections.
  rewrite (nth_indep _ [] ((fun ir : nat * row S => strong_row eps2 (diagonal A false junk) (fst ir) (snd ir)) (0%nat, [])))
    by (rewrite map_length, indexed_length; exact Hi).
  rewrite (map_nth (fun ir : nat * row S => strong_row eps2 (diagonal A false junk) (fst ir) (snd ir))).
  rewrite nth_indexed by exact Hi. reflexivity.
Qed.

Lemma strong_mirror eps2 (dia : vec S) i c v (rc : row S) :
  c <> i -> sltb (eps2 * vget dia i * vget dia c) (v * v) = true -> In (i, v) rc ->
  has_strong (strong_row eps2 dia c rc) = true.
Proof.
  intros Hne Hs Hin. unfold has_strong, strong_row. apply existsb_exists.
  exists true. split; [|reflexivity]. apply in_map_iff. exists (i, v). split; [|exact Hin]. simpl.
  replace (Nat.eqb i c) with false by (symmetry; apply Nat.eqb_neq; congruence). simpl.
  replace (eps2 * vget dia c * vget dia i) with (eps2 * vget dia i * vget dia c) by ring. exact Hs.
Qed.

(* Theorem 4 (smoothed aggregation): structurally symmetric A, zero-row-sum row with a strong neighbour *)
Lemma sa_row_sum_one (eps2 omega : S) (A : crs S) junk count id st i :
  wf A = true -> ncols A = nrows A -> i < nrows A ->
  plain_aggregates eps2 A junk = AggOk count id st ->
  struct_sym A ->
  row_sum (nth i (rows A) []) = s0 ->
  has_strong (nth i st []) = true ->
  sa_row_regular A st i = true ->
  row_sum (nth i (rows (sa_smooth omega A st (tentative_prolongation count id))) []) = s1.
Proof.
  intros Hwf Hsq Hi Hagg Hsym Hzero Hstrong Hreg.
  destruct (plain_aggregates_partition eps2 A junk count id st Hagg) as (Hc & Hst & (HL & HB & HO & HS)).
  unfold sa_row_regular in Hreg. apply andb_prop in Hreg as [Hreg Hlen]. apply andb_prop in Hreg as [HD Hdiag].
  apply Nat.eqb_eq in Hdiag. apply Nat.eqb_eq in Hlen.
  set (zr := zip_row (nth i (rows A) []) (nth i st [])) in *.
  assert (HDne : sa_D A st i <> s0).
  { intro E. unfold is_zero in HD. rewrite E in HD.
    assert (H : seqb (@s0 S) s0 = true) by (apply Seqb; reflexivity). rewrite H in HD. discriminate. }
  rewrite nth_sa_smooth by exact Hi. fold zr. unfold sa_row.
  rewrite sa_row_fold_row_sum, row_sum_nil.
  set (dia := sa_scale omega (sa_dia i zr)).
  assert (Hdia : dia = (- omega) * sinv (sa_D A st i)).
  { unfold dia, sa_scale. unfold sa_D. fold zr.
    destruct (is_zero (sa_dia i zr)) eqn:Ez; [|reflexivity].
    exfalso. apply HDne. unfold sa_D. fold zr. apply (is_zero_true Seqb). exact Ez. }
  assert (Hidi : (0 <= zget id i)%Z) by (apply HS; assumption).
  assert (Hnb : forall e, In e zr -> fst (fst e) <> i -> snd e = true -> (0 <= zget id (fst (fst e)))%Z).
  { intros [[c v] b] He Hci Hb. simpl in *. subst b.
    unfold zr, zip_row in He. rewrite Hst in He. rewrite nth_strong_connections in He by exact Hi.
    unfold strong_row in He. apply in_combine_map in He. destruct He as [Hin Hflag]. simpl in Hflag.
    symmetry in Hflag. apply andb_prop in Hflag as [_ Hlt].
    assert (Hcn : c < nrows A).
    { unfold wf in Hwf. rewrite forallb_forall in Hwf.
      assert (Hr : row_wf (ncols A) (nth i (rows A) []) = true) by (apply Hwf; apply nth_In; exact Hi).
      unfold row_wf in Hr. rewrite forallb_forall in Hr. specialize (Hr _ Hin). simpl in Hr.
      apply Nat.ltb_lt in Hr. lia. }
    apply HS; [exact Hcn|]. rewrite Hst, nth_strong_connections by exact Hcn.
    apply (strong_mirror eps2 (diagonal A false junk) i c v); auto. }
  rewrite (sa_tot_aggregated omega dia _ id i zr (tentative_row_sum count id) Hidi Hnb Hdiag).
  assert (Hsum : sa_D A st i + strong_tot i zr = s0).
  { unfold sa_D. fold zr. rewrite dia_plus_strong. unfold zr. rewrite zr_tot_row by exact Hlen. exact Hzero. }
  assert (Hst' : strong_tot i zr = - sa_D A st i).
  { transitivity (sa_D A st i + strong_tot i zr - sa_D A st i); [ring|]. rewrite Hsum. ring. }
  rewrite Hst', Hdia. field. exact HDne.
Qed.

End SARowSum.

(* a concrete matrix meeting the hypotheses of the row-sum theorem *)
Definition lap3 : crs QcS :=
  mkCrs 3 [[(0, qc 1 1); (1, qc (-1) 1)]; [(0, qc (-1) 1); (1, qc 2 1); (2, qc (-1) 1)]; [(1, qc (-1) 1); (2, qc 1 1)]]%nat.
Lemma lap3_struct_sym : struct_sym lap3.
Proof.
  intros i c v Hi Hin.
  do 3 (destruct i as [|i]; [simpl in Hin; repeat (destruct Hin as [Hin|Hin]; [injection Hin as <- <-; simpl; auto|]); contradiction|]).
  unfold nrows in Hi. simpl in Hi. lia.
Qed.

(* ------------------------------------------------------------------ tentative prolongation with a near-null space,
   relative to a QR oracle *)
Section NullSpace.
Variable S : Scalar.
Hypothesis Srt : Sring S.
Add Ring SRingNS : Srt.
Variable qr : mat (S:=S) -> mat (S:=S) * mat (S:=S).

Lemma fold_right_seq_sumn (f : nat -> S) n :
  fold_right (fun jj acc => f jj + acc) s0 (seq 0 n) = sumn f n.
Proof.
  induction n as [|n IH]; [reflexivity|].
  rewrite seq_S, fold_right_app. simpl.
  assert (G : forall l a, fold_right (fun jj acc => f jj + acc) a l = fold_right (fun jj acc => f jj + acc) s0 l + a).
  { induction l as [|x l IHl]; intro a; simpl; [ring|]. rewrite IHl. ring. }
  rewrite G, IH. ring.
Qed.

Lemma fold_right_map' {X Y Z} (g : X -> Y) (f : Y -> Z -> Z) (l : list X) (a : Z) :
  fold_right f a (map g l) = fold_right (fun x acc => f (g x) acc) a l.
Proof. induction l as [|x l IH]; simpl; [reflexivity|]. rewrite IH. reflexivity. Qed.

Lemma index_of_spec k l : In k l -> index_of k l < length l /\ nth (index_of k l) l 0%nat = k.
Proof.
  induction l as [|x l IH]; simpl; [tauto|]. intro H.
  destruct (Nat.eqb_spec x k) as [->|Hne]; [split; [lia|reflexivity]|].
  destruct H as [H|H]; [congruence|]. destruct (IH H). split; [lia|assumption].
Qed.

Lemma members_in bs id k : k < length id -> (0 <= zget id k)%Z ->
  In k (members bs id (Nat.div (Z.to_nat (zget id k)) bs)).
Proof.
  intros Hk H0. unfold members. apply filter_In. split; [apply in_seq; lia|].
  apply andb_true_iff. split; [lia | apply Nat.eqb_refl].
Qed.

(* the coarse null space as one stacked (cols*nba) x cols matrix: row a*cols+jj = row jj of R_a *)
Definition bnew_entry (cols : nat) (Rs : list (mat (S:=S))) (col c : nat) : S :=
  mentry (nth (Nat.div col cols) Rs []) (Nat.modulo col cols) c.
(* (P * Bnew)[k][c] *)
Definition ns_apply (cols : nat) (Rs : list (mat (S:=S))) (r : row S) (c : nat) : S :=
  fold_right (fun e acc => snd e * bnew_entry cols Rs (fst e) c + acc) s0 r.

(* P_tent * B_coarse = B on aggregated rows, given Q R = B_aggr for the row's aggregate *)
Lemma tentative_ns_reproduces (bs cols naggr : nat) (id : list Z) (B : mat (S:=S)) k c :
  0 < cols -> k < length id -> (0 <= zget id k)%Z ->
  let i := Nat.div (Z.to_nat (zget id k)) bs in
  let mem := members bs id i in
  let QR := qr (map (mrow B) mem) in
  i < Nat.div naggr bs ->
  (forall ii, ii < length mem ->
     sumn (fun jj => mentry (fst QR) ii jj * mentry (snd QR) jj c) cols = mentry B (nth ii mem 0%nat) c) ->
  let PB := tentative_prolongation_ns qr bs cols naggr id B in
  ns_apply cols (snd PB) (nth k (rows (fst PB)) []) c = mentry B k c.
Proof.
  intros Hcols Hk H0 i mem QR Hi HQR PB.
  unfold PB, tentative_prolongation_ns. cbn [fst snd rows].
  set (facs := ns_factors qr bs (Nat.div naggr bs) id B).
  assert (Hrow : nth k (map (fun ka => tentative_ns_row bs cols facs (fst ka) (snd ka)) (indexed id)) []
                 = tentative_ns_row bs cols facs k (zget id k)).
  { rewrite (nth_indep _ [] ((fun ka : nat * Z => tentative_ns_row bs cols facs (fst ka) (snd ka)) (0%nat, removed)))
      by (rewrite map_length, indexed_length; exact Hk).
    rewrite (map_nth (fun ka : nat * Z => tentative_ns_row bs cols facs (fst ka) (snd ka))).
    rewrite nth_indexed by exact Hk. reflexivity. }
  rewrite Hrow. unfold tentative_ns_row. replace (Z.ltb (zget id k) 0) with false by lia. fold i.
  assert (Hf : nth i facs ([], ([], [])) = (mem, QR)).
  { unfold facs, ns_factors.
    rewrite (nth_indep _ _ ((fun i0 => (members bs id i0, qr (map (mrow B) (members bs id i0)))) 0%nat))
      by (rewrite map_length, seq_length; exact Hi).
    rewrite (map_nth (fun i0 => (members bs id i0, qr (map (mrow B) (members bs id i0))))).
    rewrite seq_nth by exact Hi. reflexivity. }
  rewrite Hf. cbn [fst snd].
  destruct (index_of_spec k mem (members_in bs id k Hk H0)) as [Hii Hnth].
  unfold ns_apply. rewrite fold_right_map'. cbn [fst snd].
  rewrite (fold_right_seq_sumn (fun jj => mentry (fst QR) (index_of k mem) jj * s1 *
             bnew_entry cols (map (fun f => snd (snd f)) facs) (i * cols + jj) c)).
  transitivity (mentry B (nth (index_of k mem) mem 0%nat) c); [|rewrite Hnth; reflexivity].
  rewrite <- (HQR _ Hii).
  apply sumn_ext. intros jj Hjj. unfold bnew_entry.
  replace (Nat.div (i * cols + jj) cols) with i by (apply Nat.div_unique with jj; [lia | ring]).
  replace (Nat.modulo (i * cols + jj) cols) with jj by (apply Nat.mod_unique with i; [lia | ring]).
  rewrite (nth_indep _ [] ((fun f : list nat * (mat (S:=S) * mat (S:=S)) => snd (snd f)) ([], ([], []))))
    by (rewrite map_length; unfold facs, ns_factors; rewrite map_length, seq_length; exact Hi).
  rewrite (map_nth (fun f : list nat * (mat (S:=S) * mat (S:=S)) => snd (snd f))). rewrite Hf. cbn [snd]. ring.
Qed.

End NullSpace.

(* ------------------------------------------------------------------ the oracle partition_ok decides partition_spec *)
Lemma forallb2_nth {X Y} (f : X -> Y -> bool) (l1 : list X) (l2 : list Y) d1 d2 :
  length l1 = length l2 ->
  (forall i, i < length l1 -> f (nth i l1 d1) (nth i l2 d2) = true) ->
  forallb2 f l1 l2 = true.
Proof.
  revert l2; induction l1 as [|a l1 IH]; intros [|b l2] HL H; simpl in *; try discriminate; [reflexivity|].
  rewrite (H 0%nat) by lia. simpl. apply IH; [lia|]. intros i Hi. apply (H (Datatypes.S i)). lia.
Qed.

Lemma partition_spec_ok n count id st : length st = n ->
  partition_spec n count id st -> partition_ok count id st = true.
Proof.
  intros Hst (HL & HB & HO & HS). unfold partition_ok.
  apply andb_true_iff; split; [apply andb_true_iff; split|].
  - unfold ids_in_range. apply forallb_forall. intros a Ha.
    apply (In_nth _ _ removed) in Ha. destruct Ha as (i & Hi & <-). fold (zget id i).
    destruct (HB i ltac:(lia)) as [E|E]; [rewrite E; unfold removed; lia | lia].
  - unfold ids_onto. apply forallb_forall. intros k Hk. apply in_seq in Hk.
    apply existsb_zget; [unfold removed; lia|]. destruct (HO k ltac:(lia)) as (i & Hi & Hz).
    exists i. split; [lia | exact Hz].
  - unfold ids_match_strong. apply (forallb2_nth _ id st removed []); [lia|].
    intros i Hi. fold (zget id i). specialize (HS i ltac:(lia)).
    destruct (has_strong (nth i st [])); destruct (Z.leb 0 (zget id i)) eqn:E; try reflexivity.
    + exfalso. assert (0 <= zget id i)%Z by (apply HS; reflexivity). lia.
    + exfalso. assert (false = true) by (apply HS; lia). discriminate.
Qed.

Lemma partition_oracle_complete {S : Scalar} eps2 (A : crs S) junk count id st :
  plain_aggregates eps2 A junk = AggOk count id st -> partition_ok count id st = true.
Proof.
  intro H. destruct (plain_aggregates_partition eps2 A junk count id st H) as (_ & Hst & P).
  apply (partition_spec_ok (nrows A)); [rewrite Hst; apply strong_connections_length | exact P].
Qed.

(* ------------------------------------------------------------------ lifting: A (x) I_b with block_size b *)
Section Lifting.
Context {S : Scalar}.

Definition kr (b : nat) (r : row S) : list (row S) := map (fun k => kron_row b k r) (seq 0 b).
Definition abs_row (r : row S) : row S := map (fun e => (fst e, sabs (snd e))) r.

Lemma kr_length b r : length (kr b r) = b.
Proof. unfold kr. rewrite map_length, seq_length. reflexivity. Qed.

Lemma smax_same (x : S) : smax x x = x.
Proof. unfold smax. destruct (sltb x x); reflexivity. Qed.

Lemma heads_cons (g : nat -> nat * S) (h : nat -> row S) ks cur :
  pwm_heads (map (fun k => g k :: h k) ks) cur = fold_left (fun cur k => pwm_upd cur (fst (g k))) ks cur.
Proof. unfold pwm_heads. revert cur; induction ks as [|k ks IH]; intro cur; simpl; auto. Qed.

Lemma upd_fold_some (f : nat -> nat) m0 : forall n s m, m <= m0 -> (forall k, m0 <= f k) ->
  fold_left (fun cur k => pwm_upd cur (f k)) (seq s n) (Some m) = Some m.
Proof.
  induction n as [|n IH]; intros s m Hm Hf; simpl; [reflexivity|].
  specialize (Hf s) as Hfs. replace (Nat.min m (f s)) with m by lia. apply IH; auto.
Qed.

Lemma pwm_heads_kr b c v (tl : row S) : 0 < b -> pwm_heads (kr b ((c, v) :: tl)) None = Some (c * b)%nat.
Proof.
  intro Hb. unfold kr.
  change (map (fun k => kron_row b k ((c, v) :: tl)) (seq 0 b))
    with (map (fun k => ((c * b + k)%nat, v) :: kron_row b k tl) (seq 0 b)).
  rewrite (heads_cons (fun k => ((c * b + k)%nat, v)) (fun k => kron_row b k tl)).
  destruct b as [|b]; [lia|]. change (seq 0 (Datatypes.S b)) with (0%nat :: seq 1 b). cbn [fold_left pwm_upd fst].
  rewrite (upd_fold_some _ (c * Datatypes.S b)%nat) by (intros; lia). f_equal. lia.
Qed.

Lemma pwm_heads_kr_nil b : pwm_heads (kr b (@nil (nat * S))) None = None.
Proof.
  unfold kr, pwm_heads. generalize (seq 0 b). intro l. induction l as [|k l IH]; simpl; auto.
Qed.

(* head column of the tail is larger *)
Definition tail_gt (c : nat) (tl : row S) : Prop :=
  match tl with [] => True | e :: _ => c < fst e end.

Lemma pwm_scan_kr b k c v (tl : row S) acc : k < b -> tail_gt c tl ->
  pwm_scan ((c + 1) * b) (kron_row b k ((c, v) :: tl)) acc
  = (kron_row b k tl, Some (match acc with None => sabs v | Some m => smax m (sabs v) end)).
Proof.
  intros Hk Ht. unfold kron_row. simpl.
  replace (Nat.leb ((c + 1) * b) (c * b + k)) with false by (symmetry; apply Nat.leb_gt; nia).
  destruct tl as [|[c1 v1] tl]; simpl; [reflexivity|].
  simpl in Ht. replace (Nat.leb ((c + 1) * b) (c1 * b + k)) with true by (symmetry; apply Nat.leb_le; nia).
  reflexivity.
Qed.

Lemma pwm_pass_kr b c v (tl : row S) : tail_gt c tl -> forall ks acc,
  (forall k, In k ks -> k < b) -> (acc = None \/ acc = Some (sabs v)) ->
  pwm_pass ((c + 1) * b) (map (fun k => kron_row b k ((c, v) :: tl)) ks) acc
  = (map (fun k => kron_row b k tl) ks, match ks with [] => acc | _ => Some (sabs v) end).
Proof.
  intros Ht ks. induction ks as [|k ks IH]; intros acc Hks Hacc; [reflexivity|].
  cbn [map pwm_pass]. rewrite pwm_scan_kr by (auto; apply Hks; left; reflexivity). cbn [fst snd].
  assert (Hacc' : Some (match acc with None => sabs v | Some m => smax m (sabs v) end) = Some (sabs v)).
  { destruct Hacc as [->| ->]; [reflexivity|]. rewrite smax_same. reflexivity. }
  rewrite Hacc'. rewrite IH by (auto; intros; apply Hks; right; assumption). cbn [fst snd].
  destruct ks; reflexivity.
Qed.

Lemma sorted_strict_tail c v (tl : row S) : sorted_strict ((c, v) :: tl) = true ->
  tail_gt c tl /\ sorted_strict tl = true.
Proof.
  destruct tl as [|e tl]; simpl; [auto|]. intro H. apply andb_prop in H as [H1 H2].
  split; [apply Nat.ltb_lt; exact H1 | exact H2].
Qed.

(* one block row of A (x) I_b reduces to the row of norms *)
Lemma pwm_loop_kr b : 0 < b -> forall (r : row S) fuel, sorted_strict r = true -> length r < fuel ->
  pwm_loop fuel b (pwm_heads (kr b r) None) (kr b r) = abs_row r.
Proof.
  intros Hb r. induction r as [|[c v] tl IH]; intros fuel Hs Hf.
  - rewrite pwm_heads_kr_nil. destruct fuel; reflexivity.
  - destruct fuel as [|fuel]; [simpl in Hf; lia|].
    rewrite pwm_heads_kr by exact Hb. cbn [pwm_loop].
    replace (Nat.div (c * b) b) with c by (symmetry; apply Nat.div_mul; lia).
    destruct (sorted_strict_tail c v tl Hs) as [Ht Hs'].
    assert (Hp : pwm_pass ((c + 1) * b) (kr b ((c, v) :: tl)) None
                 = (kr b tl, match seq 0 b with [] => None | _ => Some (sabs v) end)).
    { unfold kr. apply pwm_pass_kr; auto. intros k Hk; apply in_seq in Hk; lia. }
    rewrite Hp. cbn [fst snd]. rewrite IH by (auto; simpl in Hf; lia).
    destruct b as [|b]; [lia|]. reflexivity.
Qed.

Lemma pwm_fuel_kr b (r : row S) : length r < pwm_fuel (kr b r) \/ b = 0%nat.
Proof.
  destruct b as [|b]; [right; reflexivity|left].
  assert (G : forall (l : list (row S)) a, a <= fold_left (fun a r => a + length r)%nat l a).
  { induction l as [|x l IHl]; intro a; simpl; [lia|]. specialize (IHl (a + length x)%nat). lia. }
  unfold pwm_fuel, kr. change (seq 0 (Datatypes.S b)) with (0%nat :: seq 1 b). cbn [map fold_left].
  pose proof (G (map (fun k => kron_row (Datatypes.S b) k r) (seq 1 b)) (0 + length (kron_row (Datatypes.S b) 0 r))%nat) as HG.
  assert (HL : length (kron_row (Datatypes.S b) 0 r) = length r) by (unfold kron_row; apply map_length).
  lia.
Qed.

Lemma pwm_groups_kr b (l : list (row S)) : pwm_groups (length l) b (flat_map (kr b) l) = map (kr b) l.
Proof.
  induction l as [|r l IH]; [reflexivity|]. cbn [length pwm_groups flat_map map].
  rewrite firstn_app, skipn_app, kr_length, Nat.sub_diag. simpl.
  rewrite firstn_all2 by (rewrite kr_length; lia). rewrite skipn_all2 by (rewrite kr_length; lia).
  rewrite app_nil_r. simpl. rewrite IH. reflexivity.
Qed.

Lemma kron_rows b (A : crs S) : rows (kron_id b A) = flat_map (kr b) (rows A).
Proof. reflexivity. Qed.

Lemma flat_map_kr_length b (l : list (row S)) : length (flat_map (kr b) l) = (length l * b)%nat.
Proof. induction l as [|r l IH]; simpl; [reflexivity|]. rewrite app_length, kr_length, IH. lia. Qed.

(* pointwise_matrix (A (x) I_b, b) = the scalar pattern of A with the norms of its entries *)
Lemma pwm_kron b (A : crs S) : 0 < b -> forallb sorted_strict (rows A) = true ->
  pwm (kron_id b A) b = Some (mabs A).
Proof.
  intros Hb Hs. unfold pwm.
  replace (Nat.eqb b 0) with false by (symmetry; apply Nat.eqb_neq; lia).
  unfold nrows. rewrite kron_rows, flat_map_kr_length, Nat.div_mul by lia.
  rewrite Nat.eqb_refl. cbn [negb]. rewrite pwm_groups_kr.
  unfold mabs. f_equal. f_equal.
  - simpl. apply Nat.div_mul. lia.
  - rewrite map_map. apply map_ext_in. intros r Hr.
    unfold pwm_block_row. rewrite forallb_forall in Hs.
    destruct (pwm_fuel_kr b r) as [Hf|]; [|lia].
    apply pwm_loop_kr; auto.
Qed.

(* ---- expansion of the pointwise flags on A (x) I_b *)
Definition est (b : nat) (pre : list bool) (cols : list nat) : list (list bool * list nat) :=
  map (fun k => (pre, map (fun c => (c * b + k)%nat) cols)) (seq 0 b).
Definition flagf (ip : nat) (cf : nat * bool) : bool :=
  (Nat.eqb (fst cf) ip || snd cf) && negb (Nat.eqb (fst cf) ip).

Lemma combine_map_self {X Y} (g : X -> Y) (l : list X) : combine l (map g l) = map (fun x => (x, g x)) l.
Proof. induction l as [|x l IH]; simpl; [reflexivity|]. rewrite IH. reflexivity. Qed.

Lemma indexed_map_seq {X} (g : nat -> X) n : indexed (map g (seq 0 n)) = map (fun k => (k, g k)) (seq 0 n).
Proof. unfold indexed. rewrite map_length, seq_length. apply combine_map_self. Qed.

Definition cols_gt (c : nat) (tl : list nat) : Prop := match tl with [] => True | c1 :: _ => c < c1 end.

Lemma take_lt_kr b k c0 tl sp excl : k < b -> cols_gt c0 tl ->
  take_lt ((c0 + 1) * b) sp excl (map (fun c => (c * b + k)%nat) (c0 :: tl))
  = ([sp && negb (Nat.eqb (c0 * b + k) excl)], map (fun c => (c * b + k)%nat) tl).
Proof.
  intros Hk Ht. cbn [map take_lt].
  replace (Nat.ltb (c0 * b + k) ((c0 + 1) * b)) with true by (symmetry; apply Nat.ltb_lt; nia).
  destruct tl as [|c1 tl]; [reflexivity|]. cbn [map take_lt]. simpl in Ht.
  replace (Nat.ltb (c1 * b + k) ((c0 + 1) * b)) with false by (symmetry; apply Nat.ltb_ge; nia).
  reflexivity.
Qed.

Lemma expand_step_kr b ip pre c0 tl f : 0 < b -> cols_gt c0 tl ->
  expand_step b ip (est b pre (c0 :: tl)) (c0, f) = est b (pre ++ [flagf ip (c0, f)]) tl.
Proof.
  intros Hb Ht. unfold expand_step, est. rewrite indexed_map_seq, map_map.
  apply map_ext_in. intros k Hk. apply in_seq in Hk. cbn [fst snd].
  rewrite take_lt_kr by (auto; lia). cbn [fst snd]. unfold flagf. cbn [fst snd].
  replace (Nat.eqb (c0 * b + k) (ip * b + k)) with (Nat.eqb c0 ip); [reflexivity|].
  destruct (Nat.eqb_spec c0 ip) as [->|Hne]; symmetry; [apply Nat.eqb_refl | apply Nat.eqb_neq; nia].
Qed.

Lemma sorted_strict_cols c v (tl : row S) : sorted_strict ((c, v) :: tl) = true ->
  cols_gt c (map fst tl) /\ sorted_strict tl = true.
Proof.
  destruct tl as [|e tl]; simpl; [auto|]. intro H. apply andb_prop in H as [H1 H2].
  split; [apply Nat.ltb_lt; exact H1 | exact H2].
Qed.

Lemma expand_fold_kr b ip : 0 < b -> forall (r : row S) fl pre, sorted_strict r = true -> length fl = length r ->
  fold_left (expand_step b ip) (combine (map fst r) fl) (est b pre (map fst r))
  = est b (pre ++ map (flagf ip) (combine (map fst r) fl)) [].
Proof.
  intros Hb r. induction r as [|[c v] tl IH]; intros fl pre Hs Hl.
  - simpl. rewrite app_nil_r. reflexivity.
  - destruct fl as [|f fl]; [simpl in Hl; lia|]. cbn [map fst combine fold_left].
    destruct (sorted_strict_cols c v tl Hs) as [Ht Hs'].
    rewrite expand_step_kr by auto. rewrite IH by (auto; simpl in Hl; lia).
    rewrite <- app_assoc. reflexivity.
Qed.

Lemma expand_block_kr b ip (r : row S) fl : 0 < b -> sorted_strict r = true -> length fl = length r ->
  (forall c f, In (c, f) (combine (map fst r) fl) -> c = ip -> f = false) ->
  expand_block b ip (kr b r) (combine (map fst r) fl) = map (fun _ => fl) (seq 0 b).
Proof.
  intros Hb Hs Hl Hd. unfold expand_block.
  match goal with |- context [fold_left _ _ ?x] => replace x with (est b [] (map fst r)) end.
  2:{ unfold kr, est. rewrite map_map. apply map_ext. intro k. unfold kron_row. rewrite !map_map. reflexivity. }
  rewrite expand_fold_kr by auto. unfold est. rewrite map_map. apply map_ext. intro k. cbn [fst snd map length repeat].
  rewrite app_nil_r. cbn [app].
  revert fl Hl Hd. clear Hs. induction r as [|[c v] tl IH]; intros fl Hl Hd.
  - destruct fl; [reflexivity | simpl in Hl; lia].
  - destruct fl as [|f fl]; [simpl in Hl; lia|]. cbn [map fst combine]. f_equal.
    + unfold flagf. cbn [fst snd]. destruct (Nat.eqb_spec c ip) as [E|E]; simpl.
      * symmetry. apply (Hd c f); [left; reflexivity | exact E].
      * apply andb_true_r.
    + apply IH; [simpl in Hl; lia|]. intros c' f' Hin. apply Hd. right. exact Hin.
Qed.

(* ---- assembling the blocks *)
Lemma combine_map_r {X Y Z} (g : Y -> Z) (a : list X) (l : list Y) :
  combine a (map g l) = map (fun p => (fst p, g (snd p))) (combine a l).
Proof.
  revert l; induction a as [|x a IH]; intros [|y l]; simpl; try reflexivity. rewrite IH. reflexivity.
Qed.

Lemma indexed_map {X Y} (g : X -> Y) (l : list X) :
  indexed (map g l) = map (fun ir => (fst ir, g (snd ir))) (indexed l).
Proof. unfold indexed. rewrite map_length. apply combine_map_r. Qed.

Lemma in_combine_seq {X} (l : list X) d : forall s i x, In (i, x) (combine (seq s (length l)) l) ->
  s <= i < s + length l /\ x = nth (i - s) l d.
Proof.
  induction l as [|y l IH]; intros s i x H; simpl in H; [contradiction|].
  destruct H as [H|H].
  - injection H as <- <-. rewrite Nat.sub_diag. simpl. split; [lia | reflexivity].
  - destruct (IH _ _ _ H) as [H1 H2]. split; [simpl; lia|].
    replace (i - s)%nat with (Datatypes.S (i - Datatypes.S s)) by lia. exact H2.
Qed.

Lemma in_indexed {X} (l : list X) d i x : In (i, x) (indexed l) -> i < length l /\ x = nth i l d.
Proof.
  intro H. destruct (in_combine_seq l d 0 i x H) as [H1 H2]. rewrite Nat.sub_0_r in H2. split; [lia | exact H2].
Qed.

Lemma strong_row_diag_false eps2 (dia : vec S) i (r : row S) c f :
  In (c, f) (combine (map fst r) (strong_row eps2 dia i r)) -> c = i -> f = false.
Proof.
  unfold strong_row. induction r as [|e r IH]; simpl; [tauto|]. intros [H|H] Hc.
  - injection H as H1 H2. subst c. rewrite <- H2. rewrite Hc, Nat.eqb_refl. reflexivity.
  - apply IH; assumption.
Qed.

Lemma map_fst_abs_row (r : row S) : map fst (abs_row r) = map fst r.
Proof. unfold abs_row. rewrite map_map. apply map_ext. reflexivity. Qed.

(* Theorem 5: coarsening A (x) I_b with block_size b = lifted coarsening of the scalar problem *)
Lemma pointwise_lifting eps2 b (A : crs S) junk : 1 < b -> forallb sorted_strict (rows A) = true ->
  pointwise_aggregates eps2 b 0 (kron_id b A) junk
  = lifted_aggregates b (plain_aggregates eps2 (mabs A) junk).
Proof.
  intros Hb Hs. unfold pointwise_aggregates.
  replace (Nat.eqb b 1) with false by (symmetry; apply Nat.eqb_neq; lia).
  rewrite pwm_kron by (auto; lia).
  destruct (plain_aggregates eps2 (mabs A) junk) as [| |c id st] eqn:E; try reflexivity.
  destruct (plain_aggregates_partition eps2 (mabs A) junk c id st E) as (_ & Hst & _).
  unfold remove_small. cbn [Nat.leb fst snd lifted_aggregates]. f_equal.
  unfold lifted_flags.
  assert (Hn : nrows (mabs A) = length (rows A)) by (unfold nrows, mabs; simpl; apply map_length).
  rewrite Hn, kron_rows, pwm_groups_kr, indexed_map, map_map. cbn [fst snd].
  rewrite Hst. unfold strong_connections. set (dia := diagonal (mabs A) false junk).
  change (rows (mabs A)) with (map abs_row (rows A)). rewrite indexed_map, map_map. cbn [fst snd].
  rewrite flat_map_concat_map, map_map. f_equal. apply map_ext_in. intros [i r] Hin. cbn [fst snd].
  destruct (in_indexed (rows A) [] i r Hin) as [Hi Hr].
  assert (Hsr : sorted_strict r = true).
  { rewrite forallb_forall in Hs. apply Hs. rewrite Hr. apply nth_In. exact Hi. }
  assert (Hsrow : srow (mabs A)
             (map (fun ir => strong_row eps2 dia (fst ir) (abs_row (snd ir))) (indexed (rows A))) i
           = combine (map fst r) (strong_row eps2 dia i (abs_row r))).
  { unfold srow. change (rows (mabs A)) with (map abs_row (rows A)).
    change (@nil (nat * S)) with (abs_row []) at 1. rewrite (map_nth abs_row). rewrite <- Hr, map_fst_abs_row.
    f_equal.
    rewrite (nth_indep _ [] ((fun ir : nat * row S => strong_row eps2 dia (fst ir) (abs_row (snd ir))) (0%nat, [])))
      by (rewrite map_length, indexed_length; exact Hi).
    rewrite (map_nth (fun ir : nat * row S => strong_row eps2 dia (fst ir) (abs_row (snd ir)))).
    rewrite nth_indexed by exact Hi. cbn [fst snd]. rewrite <- Hr. reflexivity. }
  rewrite Hsrow. apply expand_block_kr; auto; try lia.
  - unfold strong_row, abs_row. rewrite !map_length. reflexivity.
  - intros c0 f Hc. rewrite <- map_fst_abs_row in Hc. apply (strong_row_diag_false eps2 dia i (abs_row r) c0 f Hc).
Qed.

End Lifting.

(* ------------------------------------------------------------------ lifting of the smoothed P for A (x) I_b *)
Section LiftingSA.
Context {S : Scalar}.

Lemma kron_row_add b k (r : row S) c v : 0 < b ->
  row_add (kron_row b k r) (c * b + k) v = kron_row b k (row_add r c v).
Proof.
  intro Hb. induction r as [|[c' v'] r IH]; [reflexivity|].
  change (kron_row b k ((c', v') :: r)) with (((c' * b + k)%nat, v') :: kron_row b k r).
  cbn [row_add].
  replace (Nat.eqb (c' * b + k) (c * b + k)) with (Nat.eqb c' c)
    by (destruct (Nat.eqb_spec c' c) as [->|Hne]; symmetry; [apply Nat.eqb_refl | apply Nat.eqb_neq; nia]).
  destruct (Nat.eqb c' c); [reflexivity|]. rewrite IH. reflexivity.
Qed.

Lemma kron_fold_row_add b k (va : S) (q acc : row S) : 0 < b ->
  fold_left (fun acc ep => row_add acc (fst ep) (va * snd ep)) (kron_row b k q) (kron_row b k acc)
  = kron_row b k (fold_left (fun acc ep => row_add acc (fst ep) (va * snd ep)) q acc).
Proof.
  intro Hb. revert acc; induction q as [|[c v] q IH]; intro acc; [reflexivity|].
  change (kron_row b k ((c, v) :: q)) with (((c * b + k)%nat, v) :: kron_row b k q).
  cbn [fold_left fst snd]. rewrite kron_row_add by exact Hb. apply IH.
Qed.

Lemma zip_kron_row b k (r : row S) fl :
  zip_row (kron_row b k r) fl = map (fun e => (((fst (fst e) * b + k)%nat, snd (fst e)), snd e)) (zip_row r fl).
Proof.
  unfold zip_row, kron_row. revert fl; induction r as [|e r IH]; intros [|f fl]; simpl; try reflexivity.
  rewrite IH. reflexivity.
Qed.

Lemma eqb_kron b k c i : 0 < b -> Nat.eqb (c * b + k) (i * b + k) = Nat.eqb c i.
Proof.
  intro Hb. destruct (Nat.eqb_spec c i) as [->|Hne]; [apply Nat.eqb_refl | apply Nat.eqb_neq; nia].
Qed.

Lemma sa_dia_kron b k i (zr : list (nat * S * bool)) : 0 < b ->
  sa_dia (i * b + k) (map (fun e => (((fst (fst e) * b + k)%nat, snd (fst e)), snd e)) zr) = sa_dia i zr.
Proof.
  intro Hb. unfold sa_dia. generalize (@s0 S). induction zr as [|e zr IH]; intro a; [reflexivity|].
  cbn [map fold_left fst snd]. rewrite eqb_kron by exact Hb. apply IH.
Qed.

(* tentative prolongation of the lifted ids: row c*b+k is the Kronecker image of row c *)
Lemma tentative_kron_row b k naggr (id : list Z) c : 0 < b -> k < b ->
  nth (c * b + k) (rows (tentative_prolongation (S:=S) (naggr * b) (expand_ids b id))) []
  = kron_row b k (nth c (rows (tentative_prolongation (S:=S) naggr id)) []).
Proof.
  intros Hb Hk. rewrite !tentative_row_nth.
  destruct (Nat.ltb c (length id)) eqn:Hc.
  - apply Nat.ltb_lt in Hc. unfold zget at 1. rewrite expand_ids_nth by assumption. fold (zget id c).
    unfold tentative_row. destruct (Z.leb 0 (zget id c)) eqn:E.
    + replace (Z.leb 0 (Z.of_nat b * zget id c + Z.of_nat k)) with true by nia.
      unfold kron_row. simpl. f_equal. f_equal. nia.
    + replace (Z.leb 0 (Z.of_nat b * zget id c + Z.of_nat k)) with false by nia. reflexivity.
  - apply Nat.ltb_ge in Hc.
    unfold zget. rewrite (nth_overflow id) by lia.
    rewrite nth_overflow by (rewrite expand_ids_length; nia). reflexivity.
Qed.

Lemma sa_row_kron_fold b k (omega dia : S) naggr (id : list Z) i (zr : list (nat * S * bool)) : 0 < b -> k < b ->
  forall acc : row S,
  fold_left (fun acc e =>
     let ca := fst (fst e) in
     if negb (Nat.eqb ca (i * b + k)) && negb (snd e) then acc else
     let va := if Nat.eqb ca (i * b + k) then (s1 - omega) * s1 else dia * snd (fst e) in
     fold_left (fun acc ep => row_add acc (fst ep) (va * snd ep))
               (nth ca (rows (tentative_prolongation (naggr * b) (expand_ids b id))) []) acc)
   (map (fun e => (((fst (fst e) * b + k)%nat, snd (fst e)), snd e)) zr) (kron_row b k acc)
  = kron_row b k (fold_left (fun acc e =>
     let ca := fst (fst e) in
     if negb (Nat.eqb ca i) && negb (snd e) then acc else
     let va := if Nat.eqb ca i then (s1 - omega) * s1 else dia * snd (fst e) in
     fold_left (fun acc ep => row_add acc (fst ep) (va * snd ep))
               (nth ca (rows (tentative_prolongation naggr id)) []) acc) zr acc).
Proof.
  intros Hb Hk. induction zr as [|e zr IH]; intro acc; [reflexivity|].
  cbn [map fold_left fst snd]. rewrite eqb_kron by exact Hb.
  destruct (negb (Nat.eqb (fst (fst e)) i) && negb (snd e)); [apply IH|].
  rewrite tentative_kron_row by assumption. rewrite kron_fold_row_add by exact Hb. apply IH.
Qed.

Lemma sa_row_kron b k omega naggr (id : list Z) i (r : row S) fl : 0 < b -> k < b ->
  sa_row omega (tentative_prolongation (naggr * b) (expand_ids b id)) (i * b + k) (zip_row (kron_row b k r) fl)
  = kron_row b k (sa_row omega (tentative_prolongation naggr id) i (zip_row r fl)).
Proof.
  intros Hb Hk. rewrite zip_kron_row. unfold sa_row. rewrite sa_dia_kron by exact Hb.
  apply (sa_row_kron_fold b k omega _ naggr id i (zip_row r fl) Hb Hk []).
Qed.

Lemma seq_shift_add m b : seq m b = map (fun k => (m + k)%nat) (seq 0 b).
Proof.
  revert m; induction b as [|b IH]; intro m; [reflexivity|].
  cbn [seq map]. f_equal; [lia|]. rewrite <- (seq_shift b 0), map_map, (IH (Datatypes.S m)).
  apply map_ext. intro. lia.
Qed.
Lemma seq_shift_mul s0 b : seq (s0 * b) b = map (fun k => (s0 * b + k)%nat) (seq 0 b).
Proof. apply seq_shift_add. Qed.

Lemma combine_map_l {X Y Z} (g : X -> Z) (a : list X) (l : list Y) :
  combine (map g a) l = map (fun p => (g (fst p), snd p)) (combine a l).
Proof. revert l; induction a as [|x a IH]; intros [|y l]; simpl; try reflexivity. rewrite IH. reflexivity. Qed.

Lemma combine_app' {X Y} (a1 a2 : list X) (l1 l2 : list Y) : length a1 = length l1 ->
  combine (a1 ++ a2) (l1 ++ l2) = combine a1 l1 ++ combine a2 l2.
Proof.
  revert l1; induction a1 as [|x a1 IH]; intros [|y l1] H; simpl in *; try discriminate; [reflexivity|].
  rewrite IH by lia. reflexivity.
Qed.

Lemma indexed_kron_gen b (l : list (row S)) : forall s0,
  combine (seq (s0 * b) (length (flat_map (kr b) l))) (flat_map (kr b) l)
  = flat_map (fun ir => map (fun k => ((fst ir * b + k)%nat, kron_row b k (snd ir))) (seq 0 b))
             (combine (seq s0 (length l)) l).
Proof.
  induction l as [|r l IH]; intro s0; [reflexivity|].
  cbn [flat_map length seq combine fst snd]. rewrite app_length, kr_length, seq_app.
  rewrite combine_app' by (rewrite seq_length, kr_length; reflexivity).
  f_equal.
  - rewrite seq_shift_mul. unfold kr. rewrite combine_map_l, combine_map_r, map_map.
    rewrite (combine_map_self (fun x => x) (seq 0 b)) at 1 || idtac.
    assert (Hc : combine (seq 0 b) (seq 0 b) = map (fun k => (k, k)) (seq 0 b)).
    { generalize (seq 0 b). intro q. induction q; simpl; [reflexivity|]. rewrite IHq. reflexivity. }
    rewrite Hc, map_map. reflexivity.
  - replace (s0 * b + b)%nat with (Datatypes.S s0 * b)%nat by lia. apply IH.
Qed.

Lemma indexed_kron b (l : list (row S)) :
  indexed (flat_map (kr b) l)
  = flat_map (fun ir => map (fun k => ((fst ir * b + k)%nat, kron_row b k (snd ir))) (seq 0 b)) (indexed l).
Proof. unfold indexed. apply (indexed_kron_gen b l 0). Qed.

Lemma nth_map_const {X Y} (x : Y) (l : list X) d k : k < length l -> nth k (map (fun _ => x) l) d = x.
Proof. revert k; induction l as [|a l IH]; intros [|k] H; simpl in *; try lia; auto. apply IH; lia. Qed.

Lemma nth_lifted_flags b (st : flags) i k : 0 < b -> k < b ->
  nth (i * b + k) (lifted_flags b st) [] = nth i st [].
Proof.
  intros Hb Hk. unfold lifted_flags. revert i; induction st as [|fl st IH]; intro i.
  - cbn [flat_map]. rewrite !nth_overflow by (simpl; lia). reflexivity.
  - cbn [flat_map]. destruct i as [|i].
    + cbn [Nat.mul Nat.add nth]. rewrite app_nth1 by (rewrite map_length, seq_length; exact Hk).
      apply nth_map_const. rewrite seq_length. exact Hk.
    + rewrite app_nth2 by (rewrite map_length, seq_length; simpl; lia).
      rewrite map_length, seq_length.
      replace (Datatypes.S i * b + k - b)%nat with (i * b + k)%nat by (simpl; lia).
      cbn [nth]. apply IH.
Qed.

(* smoothing the lifted tentative operator of A (x) I_b with the lifted flags = P (x) I_b *)
Lemma sa_smooth_kron b omega (A : crs S) st naggr (id : list Z) : 0 < b ->
  sa_smooth omega (kron_id b A) (lifted_flags b st) (tentative_prolongation (naggr * b) (expand_ids b id))
  = kron_id b (sa_smooth omega A st (tentative_prolongation naggr id)).
Proof.
  intro Hb. unfold sa_smooth, kron_id. cbn [ncols rows]. f_equal.
  change (flat_map (fun r => map (fun k => kron_row b k r) (seq 0 b)) (rows A)) with (flat_map (kr b) (rows A)).
  rewrite indexed_kron. rewrite flat_map_concat_map, concat_map, map_map.
  rewrite (flat_map_concat_map _ (map _ (indexed (rows A)))), map_map. f_equal.
  apply map_ext_in. intros [i r] _. cbn [fst snd]. rewrite map_map. apply map_ext_in. intros k Hk.
  apply in_seq in Hk. cbn [fst snd]. rewrite nth_lifted_flags by lia. apply sa_row_kron; lia.
Qed.

(* Theorem: smoothed_aggregation on A (x) I_b with block_size b returns P (x) I_b and its transpose *)
Lemma sa_transfer_kron eps2 omega b (A : crs S) junk : 1 < b -> forallb sorted_strict (rows A) = true ->
  sa_transfer_omega eps2 omega b (kron_id b A) junk = lifted_sa eps2 omega b A junk.
Proof.
  intros Hb Hs. unfold sa_transfer_omega, lifted_sa. rewrite pointwise_lifting by assumption.
  destruct (plain_aggregates eps2 (mabs A) junk) as [| |c id st]; try reflexivity.
  cbn [lifted_aggregates]. unfold lifted_ids. rewrite sa_smooth_kron by lia. reflexivity.
Qed.

End LiftingSA.

(* ------------------------------------------------------------------ Ruge-Stuben direct interpolation: row sums *)
Section RSRowSum.
Variable S : Scalar.
Hypothesis Sft : Sfield S.
Let Srt : Sring S := F_R Sft.
Add Field SFieldRS : Sft.

Notation entry := (nat * S * bool)%type.
Definition ent_val (e : entry) : S := snd (fst e).
Definition ent_col (e : entry) : nat := fst (fst e).
Definition fsum (p : entry -> bool) (r : list entry) : S :=
  fold_right (fun e acc => (if p e then ent_val e else s0) + acc) s0 r.


Lemma fsum_cons p (e : entry) r : fsum p (e :: r) = (if p e then ent_val e else s0) + fsum p r.
Proof. reflexivity. Qed.

(* ---- ordered field: hypotheses (the set of MatOps2Proofs.Gersh, with the defining equation of abs) *)
Hypothesis lt_irrefl : forall x : S, sltb x x = false.
Hypothesis lt_trans  : forall x y z : S, sltb x y = true -> sltb y z = true -> sltb x z = true.
Hypothesis lt_total  : forall x y : S, sltb x y = false -> sltb y x = false -> x = y.
Hypothesis lt_add : forall x y z : S, sltb x y = true -> sltb (x + z) (y + z) = true.
Hypothesis lt_mul : forall x y z : S, sltb s0 z = true -> sltb x y = true -> sltb (x * z) (y * z) = true.
Hypothesis abs_def : forall x : S, sabs x = if sltb x s0 then - x else x.

Definition lep (x y : T S) : Prop := @sltb S y x = false.

Lemma lt_asym (x y : S) : sltb x y = true -> sltb y x = false.
Proof.
  intro H. destruct (sltb y x) eqn:E; [|reflexivity].
  pose proof (lt_trans x y x H E) as C. rewrite lt_irrefl in C. discriminate.
Qed.
Lemma le_refl (x : S) : lep x x. Proof. apply lt_irrefl. Qed.
Lemma lt_le (x y : S) : sltb x y = true -> lep x y. Proof. apply lt_asym. Qed.
Lemma le_trans (x y z : S) : lep x y -> lep y z -> lep x z.
Proof.
  unfold lep. intros Hxy Hyz. destruct (sltb z x) eqn:Hzx; [|reflexivity].
  destruct (sltb x y) eqn:E.
  - rewrite (lt_trans z x y Hzx E) in Hyz. discriminate.
  - assert (x = y) by (apply lt_total; assumption). subst. congruence.
Qed.
Lemma lt_le_trans (x y z : S) : sltb x y = true -> lep y z -> sltb x z = true.
Proof.
  intros H1 H2. destruct (sltb x z) eqn:E; [reflexivity|]. exfalso.
  assert (Hzx : lep z x) by exact E.
  pose proof (le_trans y z x H2 Hzx) as C. unfold lep in C. congruence.
Qed.
Lemma le_lt_trans (x y z : S) : lep x y -> sltb y z = true -> sltb x z = true.
Proof.
  intros H1 H2. destruct (sltb x z) eqn:E; [reflexivity|]. exfalso.
  assert (Hzx : lep z x) by exact E.
  pose proof (le_trans z x y Hzx H1) as C. unfold lep in C. congruence.
Qed.
Lemma le_add (x y z : S) : lep x y -> lep (x + z) (y + z).
Proof.
  unfold lep. intro H. destruct (sltb (y + z) (x + z)) eqn:E; [|reflexivity].
  pose proof (lt_add _ _ (- z) E) as C.
  replace (y + z + - z) with y in C by ring. replace (x + z + - z) with x in C by ring. congruence.
Qed.
Lemma add_nonpos (a b : S) : lep a s0 -> lep b s0 -> lep (a + b) s0.
Proof.
  intros Ha Hb. apply (le_trans _ (s0 + b)); [apply le_add; exact Ha|].
  replace (s0 + b) with b by ring. exact Hb.
Qed.
Lemma add_nonneg (a b : S) : lep s0 a -> lep s0 b -> lep s0 (a + b).
Proof.
  intros Ha Hb. apply (le_trans _ (s0 + b)); [replace (s0 + b) with b by ring; exact Hb|].
  apply le_add. exact Ha.
Qed.
Lemma neg_nonneg (x : S) : lep x s0 -> lep s0 (- x).
Proof.
  unfold lep. intro H. destruct (sltb (- x) s0) eqn:E; [|reflexivity].
  pose proof (lt_add _ _ x E) as C. replace (- x + x) with (@s0 S) in C by ring.
  replace (s0 + x) with x in C by ring. congruence.
Qed.
Lemma neg_nonpos (x : S) : lep s0 x -> lep (- x) s0.
Proof.
  unfold lep. intro H. destruct (sltb s0 (- x)) eqn:E; [|reflexivity].
  pose proof (lt_add _ _ x E) as C. replace (- x + x) with (@s0 S) in C by ring.
  replace (s0 + x) with x in C by ring. congruence.
Qed.
Lemma abs_of_nonpos (x : S) : lep x s0 -> sabs x = - x.
Proof.
  intro H. rewrite abs_def. destruct (sltb x s0) eqn:E; [reflexivity|].
  assert (x = s0) by (apply lt_total; assumption). subst. ring.
Qed.
Lemma abs_of_nonneg (x : S) : lep s0 x -> sabs x = x.
Proof. intro H. rewrite abs_def. unfold lep in H. rewrite H. reflexivity. Qed.
Lemma mul_nonpos_nonneg (x z : S) : lep x s0 -> lep s0 z -> lep (x * z) s0.
Proof.
  intros Hx Hz. destruct (sltb s0 z) eqn:Ez.
  - destruct (sltb x s0) eqn:Ex.
    + pose proof (lt_mul x s0 z Ez Ex) as C. replace (s0 * z) with (@s0 S) in C by ring. apply lt_le. exact C.
    + assert (x = s0) by (apply lt_total; assumption). subst. replace (s0 * z) with (@s0 S) by ring. apply le_refl.
  - assert (z = s0) by (symmetry; apply lt_total; assumption). subst. replace (x * s0) with (@s0 S) by ring. apply le_refl.
Qed.
Lemma mul_nonneg_nonneg (x z : S) : lep s0 x -> lep s0 z -> lep s0 (x * z).
Proof.
  intros Hx Hz. pose proof (mul_nonpos_nonneg (- x) z (neg_nonpos x Hx) Hz) as C.
  apply neg_nonneg in C. replace (- (- x * z)) with (x * z) in C by ring. exact C.
Qed.
Lemma sle_le (x y : S) : sle x y = true <-> lep x y.
Proof. unfold sle, lep. destruct (sltb y x); simpl; split; congruence. Qed.

Lemma fsum_nonpos p (r : list entry) : (forall e, In e r -> p e = true -> lep (ent_val e) s0) -> lep (fsum p r) s0.
Proof.
  induction r as [|e r IH]; intro H; [apply le_refl|]. rewrite fsum_cons. apply add_nonpos.
  - destruct (p e) eqn:E; [apply H; [left; reflexivity | exact E] | apply le_refl].
  - apply IH. intros e' He'. apply H. right. exact He'.
Qed.
Lemma fsum_nonneg p (r : list entry) : (forall e, In e r -> p e = true -> lep s0 (ent_val e)) -> lep s0 (fsum p r).
Proof.
  induction r as [|e r IH]; intro H; [apply le_refl|]. rewrite fsum_cons. apply add_nonneg.
  - destruct (p e) eqn:E; [apply H; [left; reflexivity | exact E] | apply le_refl].
  - apply IH. intros e' He'. apply H. right. exact He'.
Qed.
Lemma fsum_zero p (r : list entry) : (forall e, In e r -> p e = false) -> fsum p r = s0.
Proof.
  induction r as [|e r IH]; intro H; [reflexivity|]. rewrite fsum_cons, (H e (or_introl eq_refl)), IH; [ring|].
  intros e' He'. apply H. right. exact He'.
Qed.
Lemma fsum_combine (f g h : entry -> bool) (r : list entry) :
  (forall e, In e r -> (if f e then ent_val e else s0) = (if g e then ent_val e else s0) - (if h e then ent_val e else s0)) ->
  fsum f r = fsum g r - fsum h r.
Proof.
  induction r as [|e r IH]; intro H; [cbn; ring|]. rewrite !fsum_cons, (H e (or_introl eq_refl)), IH; [ring|].
  intros e' He'. apply H. right. exact He'.
Qed.
Lemma fsum_split3 (f g h : entry -> bool) (r : list entry) :
  (forall e, In e r -> ent_val e = (if f e then ent_val e else s0) + (if g e then ent_val e else s0) + (if h e then ent_val e else s0)) ->
  fsum (fun _ => true) r = fsum f r + fsum g r + fsum h r.
Proof.
  induction r as [|e r IH]; intro H; [cbn; ring|]. rewrite !fsum_cons, IH by (intros e' He'; apply H; right; exact He').
  rewrite (H e (or_introl eq_refl)) at 1. ring.
Qed.

(* ---- the scalar algebra behind alpha, beta *)
Lemma lt_neq (x y : S) : sltb x y = true -> x <> y.
Proof. intros H E. subst. rewrite lt_irrefl in H. discriminate. Qed.
Lemma abs_gt_nonzero (eps x : S) : lep s0 eps -> sltb eps (sabs x) = true -> x <> s0.
Proof.
  intros He H E. subst. rewrite (abs_of_nonneg s0 (le_refl s0)) in H. unfold lep in He. congruence.
Qed.

Lemma neg_nz (x : S) : x <> s0 -> - x <> s0.
Proof. intros H E. apply H. transitivity (- - x); [ring | rewrite E; ring]. Qed.

Lemma rs_algebra (dia AN AD BN BD DN DP eps : S) (dt : bool) :
  sltb AN s0 = true -> lep AD s0 -> lep (AD - DN) s0 -> lep s0 BN -> lep s0 BD -> lep s0 (BD - DP) ->
  dia + AN + BN = s0 -> lep s0 eps ->
  sltb eps (sabs AD) = true ->
  (dt = true -> sltb eps (sabs (AD - DN)) = true) ->
  (dt = false -> DN = s0 /\ DP = s0) ->
  (sltb (sabs BD) eps = true \/
   (sltb eps (sabs BD) = true /\ (dt = true -> sltb eps (sabs (BD - DP)) = true) /\ sltb s0 dia = true)) ->
  fst (rs_coefs eps dt (dia, (AN, AD), (BN, BD), (DN, DP))) * (AD - DN)
  + snd (rs_coefs eps dt (dia, (AN, AD), (BN, BD), (DN, DP))) * (BD - DP) = s1.
Proof.
  intros hAN hAD hKN hBN hBD hKP hz heps h1 h2 h2' h3.
  assert (nAD : AD <> s0) by (apply (abs_gt_nonzero eps); assumption).
  assert (nAN : AN <> s0) by (apply lt_neq; exact hAN).
  assert (aAN : sabs AN = - AN) by (apply abs_of_nonpos; apply lt_le; exact hAN).
  assert (aAD : sabs AD = - AD) by (apply abs_of_nonpos; exact hAD).
  assert (aKN : sabs (AD - DN) = - (AD - DN)) by (apply abs_of_nonpos; exact hKN).
  assert (aBN : sabs BN = BN) by (apply abs_of_nonneg; exact hBN).
  assert (aBD : sabs BD = BD) by (apply abs_of_nonneg; exact hBD).
  assert (aKP : sabs (BD - DP) = BD - DP) by (apply abs_of_nonneg; exact hKP).
  assert (nKN : AD - DN <> s0).
  { destruct dt; [apply (abs_gt_nonzero eps); auto | destruct (h2' eq_refl) as [-> _]; replace (AD - s0) with AD by ring; exact nAD]. }
  unfold rs_coefs. cbn [fst snd]. rewrite h1.
  destruct h3 as [p1 | (p2 & p2' & hdia)].
  - (* no positive strong C part *)
    rewrite (lt_asym _ _ p1). rewrite p1, andb_true_r.
    assert (Hd : (if sltb s0 BN then dia + BN else dia) = - AN).
    { destruct (sltb s0 BN) eqn:Eb.
      - transitivity (dia + AN + BN - AN); [ring | rewrite hz; ring].
      - assert (BN = s0) by (symmetry; apply lt_total; assumption). subst BN.
        transitivity (dia + AN + s0 - AN); [ring | rewrite hz; ring]. }
    rewrite Hd. rewrite (abs_of_nonneg (- AN)) by (apply neg_nonneg; apply lt_le; exact hAN).
    rewrite aAN, aAD.
    destruct dt; cbn [andb].
    + rewrite (h2 eq_refl), aKN. field. repeat split; try apply neg_nz; assumption.
    + destruct (h2' eq_refl) as [-> ->]. field. repeat split; try apply neg_nz; assumption.
  - (* positive strong C part present *)
    rewrite p2. rewrite (lt_asym _ _ p2), andb_false_r.
    assert (nBD : BD <> s0) by (apply (abs_gt_nonzero eps); assumption).
    assert (ndia : dia <> s0) by (apply not_eq_sym; apply lt_neq; exact hdia).
    assert (adia : sabs dia = dia) by (apply abs_of_nonneg; apply lt_le; exact hdia).
    assert (nKP : BD - DP <> s0).
    { destruct dt; [apply (abs_gt_nonzero eps); auto | destruct (h2' eq_refl) as [_ ->]; replace (BD - s0) with BD by ring; exact nBD]. }
    assert (Hdia : dia = - AN - BN) by (transitivity (dia + AN + BN - AN - BN); [ring | rewrite hz; ring]).
    rewrite adia, aAN, aAD, aBN, aBD.
    destruct dt; cbn [andb].
    + rewrite (h2 eq_refl), (p2' eq_refl), aKN, aKP.
      transitivity ((- AN - BN) / dia); [field; repeat split; try apply neg_nz; assumption | rewrite <- Hdia; field; exact ndia].
    + destruct (h2' eq_refl) as [-> ->].
      transitivity ((- AN - BN) / dia); [field; repeat split; try apply neg_nz; assumption | rewrite <- Hdia; field; exact ndia].
Qed.


Section Row.
Variables (do_trunc : bool) (cf : list cfm) (i : nat) (Amin Amax : S).
Definition pDI (e : entry) : bool := Nat.eqb (ent_col e) i.
Definition pAN (e : entry) : bool := negb (pDI e) && sltb (ent_val e) s0.
Definition pAD (e : entry) : bool := pAN e && rs_strongC cf e.
Definition pBN (e : entry) : bool := negb (pDI e) && negb (sltb (ent_val e) s0).
Definition pBD (e : entry) : bool := pBN e && rs_strongC cf e.
Definition pDN (e : entry) : bool := pAD e && do_trunc && sle Amin (ent_val e).
Definition pDP (e : entry) : bool := pBD e && do_trunc && sle (ent_val e) Amax.
Definition lastd (r : list entry) (d0 : S) : S := fold_left (fun d e => if pDI e then ent_val e else d) r d0.

Lemma t7 (a b c d e f g a' b' c' d' e' f' g' : S) :
  a = a' -> b = b' -> c = c' -> d = d' -> e = e' -> f = f' -> g = g' ->
  (a, (b, c), (d, e), (f, g)) = (a', (b', c'), (d', e'), (f', g')).
Proof. intros; subst; reflexivity. Qed.

Lemma lastd_cons (e : entry) r d0 : lastd (e :: r) d0 = lastd r (if pDI e then ent_val e else d0).
Proof. reflexivity. Qed.

Lemma rs_sums_gen (r : list entry) : forall d0 an ad bn bd dn dp,
  fold_left (rs_sums_step do_trunc cf i Amin Amax) r (d0, (an, ad), (bn, bd), (dn, dp))
  = (lastd r d0, (an + fsum pAN r, ad + fsum pAD r), (bn + fsum pBN r, bd + fsum pBD r),
     (dn + fsum pDN r, dp + fsum pDP r)).
Proof.
  induction r as [|e r IH]; intros d0 an ad bn bd dn dp.
  - cbn. apply t7; ring.
  - cbn [fold_left]. rewrite !fsum_cons, lastd_cons.
    set (TAN := fsum pAN r) in *. set (TAD := fsum pAD r) in *. set (TBN := fsum pBN r) in *.
    set (TBD := fsum pBD r) in *. set (TDN := fsum pDN r) in *. set (TDP := fsum pDP r) in *.
    unfold rs_sums_step at 2.
    unfold pDN, pDP, pAD, pBD, pAN, pBN, pDI, ent_col, ent_val.
    destruct (Nat.eqb (fst (fst e)) i) eqn:E1; cbn [negb andb].
    + rewrite IH. apply t7; first [reflexivity | ring].
    + destruct (sltb (snd (fst e)) s0) eqn:E2; cbn [negb andb];
      destruct (rs_strongC cf e) eqn:E3; cbn [andb];
      destruct do_trunc eqn:E4; cbn [andb];
      try (destruct (sle Amin (snd (fst e))) eqn:E5); try (destruct (sle (snd (fst e)) Amax) eqn:E6);
      rewrite IH; apply t7; first [reflexivity | ring].
Qed.

Lemma rs_sums_eq (r : list entry) :
  rs_sums do_trunc cf i Amin Amax r
  = (lastd r s0, (fsum pAN r, fsum pAD r), (fsum pBN r, fsum pBD r), (fsum pDN r, fsum pDP r)).
Proof. unfold rs_sums. rewrite rs_sums_gen. apply t7; ring. Qed.


(* ---- the emitted row *)
Definition pK (e : entry) : bool := rs_strongC cf e && negb (do_trunc && sle Amin (ent_val e) && sle (ent_val e) Amax).
Definition pKN (e : entry) : bool := pK e && sltb (ent_val e) s0.
Definition pKP (e : entry) : bool := pK e && negb (sltb (ent_val e) s0).

Lemma row_sum_app (l1 l2 : row S) : row_sum (l1 ++ l2) = row_sum l1 + row_sum l2.
Proof.
  induction l1 as [|e l1 IH]; simpl.
  - rewrite (row_sum_nil S). ring.
  - rewrite !(row_sum_cons S Sft), IH. ring.
Qed.

Lemma rs_emit_row_sum cidx (alpha beta : S) (r : list entry) :
  row_sum (rs_emit do_trunc cf cidx Amin Amax alpha beta r) = alpha * fsum pKN r + beta * fsum pKP r.
Proof.
  unfold rs_emit. induction r as [|e r IH]; [cbn; ring|].
  cbn [flat_map]. rewrite row_sum_app, IH, !fsum_cons. unfold pKN, pKP, pK, ent_val.
  destruct (rs_strongC cf e); cbn [negb andb].
  - destruct (do_trunc && sle Amin (snd (fst e)) && sle (snd (fst e)) Amax); cbn [negb andb].
    + rewrite (row_sum_nil S). ring.
    + rewrite (row_sum_cons S Sft), (row_sum_nil S). cbn [snd]. destruct (sltb (snd (fst e)) s0); cbn [negb]; ring.
  - rewrite (row_sum_nil S). ring.
Qed.

(* ---- order facts about the row *)
Hypothesis cf_i : cfm_eqb (cfget cf i) CC = false.
Hypothesis Amin_le : lep Amin s0.
Hypothesis Amax_ge : lep s0 Amax.

Lemma strongC_offdiag (e : entry) : rs_strongC cf e = true -> pDI e = false.
Proof.
  unfold rs_strongC, pDI, ent_col. intro H. apply andb_prop in H as [_ H].
  destruct (Nat.eqb_spec (fst (fst e)) i) as [E|E]; [|reflexivity]. rewrite E in H. congruence.
Qed.
Lemma neg_below_Amax (e : entry) : sltb (ent_val e) s0 = true -> sle (ent_val e) Amax = true.
Proof. intro H. apply sle_le. apply lt_le. apply (lt_le_trans _ s0); assumption. Qed.
Lemma nonneg_above_Amin (e : entry) : sltb (ent_val e) s0 = false -> sle Amin (ent_val e) = true.
Proof. intro H. apply sle_le. apply (le_trans _ s0); [exact Amin_le | exact H]. Qed.

Lemma kept_neg (r : list entry) : fsum pKN r = fsum pAD r - fsum pDN r.
Proof.
  apply fsum_combine. intros e _. unfold pKN, pK, pDN, pAD, pAN.
  destruct (rs_strongC cf e) eqn:E3.
  - rewrite (strongC_offdiag e E3). cbn [negb andb].
    destruct (sltb (ent_val e) s0) eqn:E2; cbn [negb andb].
    + rewrite (neg_below_Amax e E2). destruct do_trunc; cbn [negb andb]; [|ring].
      destruct (sle Amin (ent_val e)); cbn [negb andb]; ring.
    + rewrite !andb_false_r. ring.
  - rewrite !andb_false_r. cbn [andb]. ring.
Qed.
Lemma kept_pos (r : list entry) : fsum pKP r = fsum pBD r - fsum pDP r.
Proof.
  apply fsum_combine. intros e _. unfold pKP, pK, pDP, pBD, pBN.
  destruct (rs_strongC cf e) eqn:E3.
  - rewrite (strongC_offdiag e E3). cbn [negb andb].
    destruct (sltb (ent_val e) s0) eqn:E2; cbn [negb andb].
    + rewrite !andb_false_r. ring.
    + rewrite (nonneg_above_Amin e E2). destruct do_trunc; cbn [negb andb]; [|ring].
      destruct (sle (ent_val e) Amax); cbn [negb andb]; ring.
  - rewrite !andb_false_r. cbn [andb]. ring.
Qed.

Lemma total_split (r : list entry) : fsum (fun _ => true) r = fsum pDI r + fsum pAN r + fsum pBN r.
Proof.
  apply fsum_split3. intros e _. unfold pAN, pBN. destruct (pDI e); cbn [negb andb]; [ring|].
  destruct (sltb (ent_val e) s0); cbn [negb]; ring.
Qed.

Lemma AN_nonpos r : lep (fsum pAN r) s0.
Proof. apply fsum_nonpos. intros e _ H. unfold pAN in H. apply andb_prop in H as [_ H]. apply lt_le. exact H. Qed.
Lemma AD_nonpos r : lep (fsum pAD r) s0.
Proof. apply fsum_nonpos. intros e _ H. unfold pAD, pAN in H. apply andb_prop in H as [H _]. apply andb_prop in H as [_ H]. apply lt_le. exact H. Qed.
Lemma KN_nonpos r : lep (fsum pKN r) s0.
Proof. apply fsum_nonpos. intros e _ H. unfold pKN in H. apply andb_prop in H as [_ H]. apply lt_le. exact H. Qed.
Lemma BN_nonneg r : lep s0 (fsum pBN r).
Proof. apply fsum_nonneg. intros e _ H. unfold pBN in H. apply andb_prop in H as [_ H]. apply negb_true_iff in H. exact H. Qed.
Lemma BD_nonneg r : lep s0 (fsum pBD r).
Proof. apply fsum_nonneg. intros e _ H. unfold pBD, pBN in H. apply andb_prop in H as [H _]. apply andb_prop in H as [_ H]. apply negb_true_iff in H. exact H. Qed.
Lemma KP_nonneg r : lep s0 (fsum pKP r).
Proof. apply fsum_nonneg. intros e _ H. unfold pKP in H. apply andb_prop in H as [_ H]. apply negb_true_iff in H. exact H. Qed.
(* a_num <= a_den : the difference collects the remaining negative entries *)
Lemma AN_le_AD r : lep (fsum pAN r) (fsum pAD r).
Proof.
  assert (H : fsum (fun e => pAN e && negb (rs_strongC cf e)) r = fsum pAN r - fsum pAD r).
  { apply fsum_combine. intros e _. unfold pAD. destruct (pAN e), (rs_strongC cf e); cbn [negb andb]; ring. }
  assert (Hn : lep (fsum (fun e => pAN e && negb (rs_strongC cf e)) r) s0).
  { apply fsum_nonpos. intros e _ He. apply andb_prop in He as [He _]. unfold pAN in He.
    apply andb_prop in He as [_ He]. apply lt_le. exact He. }
  rewrite H in Hn. pose proof (le_add _ _ (fsum pAD r) Hn) as C.
  replace (fsum pAN r - fsum pAD r + fsum pAD r) with (fsum pAN r) in C by ring.
  replace (s0 + fsum pAD r) with (fsum pAD r) in C by ring. exact C.
Qed.

(* ---- the row of P sums to one (Amin, Amax abstract) *)
Lemma row_sum_one_core (eps : S) cidx (r : list entry) :
  lep s0 eps ->
  fsum (fun _ => true) r = s0 ->
  fsum pDI r = lastd r s0 ->
  sltb eps (sabs (fsum pAD r)) = true ->
  (do_trunc = true -> sltb eps (sabs (fsum pAD r - fsum pDN r)) = true) ->
  (sltb (sabs (fsum pBD r)) eps = true \/
   (sltb eps (sabs (fsum pBD r)) = true /\
    (do_trunc = true -> sltb eps (sabs (fsum pBD r - fsum pDP r)) = true) /\
    sltb s0 (lastd r s0) = true)) ->
  row_sum (rs_emit do_trunc cf cidx Amin Amax
             (fst (rs_coefs eps do_trunc (rs_sums do_trunc cf i Amin Amax r)))
             (snd (rs_coefs eps do_trunc (rs_sums do_trunc cf i Amin Amax r))) r) = s1.
Proof.
  intros heps hzero hdiag h1 h2 h3.
  rewrite rs_emit_row_sum, kept_neg, kept_pos, rs_sums_eq.
  assert (nAD : fsum pAD r <> s0) by (apply (abs_gt_nonzero eps); assumption).
  assert (lAD : sltb (fsum pAD r) s0 = true).
  { destruct (sltb (fsum pAD r) s0) eqn:E; [reflexivity|]. exfalso. apply nAD. apply lt_total; [exact E | apply AD_nonpos]. }
  apply rs_algebra; auto.
  - apply (le_lt_trans _ (fsum pAD r)); [apply AN_le_AD | exact lAD].
  - apply AD_nonpos.
  - rewrite <- kept_neg. apply KN_nonpos.
  - apply BN_nonneg.
  - apply BD_nonneg.
  - rewrite <- kept_pos. apply KP_nonneg.
  - rewrite <- hdiag, <- total_split. exact hzero.
  - intro Hd. split; apply fsum_zero; intros e _; unfold pDN, pDP; rewrite Hd; rewrite andb_false_r; reflexivity.
Qed.

End Row.

(* ---- bounds of (amin, amax) *)
Lemma minmax_bounds cf (r : list entry) : forall m : S * S, lep (fst m) s0 -> lep s0 (snd m) ->
  lep (fst (fold_left (fun (m : S * S) e => if rs_strongC cf e then (smin (fst m) (snd (fst e)), smax (snd m) (snd (fst e))) else m) r m)) s0 /\
  lep s0 (snd (fold_left (fun (m : S * S) e => if rs_strongC cf e then (smin (fst m) (snd (fst e)), smax (snd m) (snd (fst e))) else m) r m)).
Proof.
  induction r as [|e r IH]; intros m H1 H2; [split; assumption|].
  cbn [fold_left]. apply IH; destruct (rs_strongC cf e); auto; cbn [fst snd].
  - unfold smin. destruct (sltb (snd (fst e)) (fst m)) eqn:E; [|exact H1].
    apply (le_trans _ (fst m)); [apply lt_le; exact E | exact H1].
  - unfold smax. destruct (sltb (snd m) (snd (fst e))) eqn:E; [|exact H2].
    apply (le_trans _ (snd m)); [exact H2 | apply lt_le; exact E].
Qed.

(* Theorem 4b: Ruge-Stuben direct interpolation, row of an F variable.
   Guards: the row's own cf is not 'C'; 0 <= eps, 0 <= eps_trunc; zero row sum; the diagonal is stored
   once (sum of the stored diagonal entries = the value the code keeps); the negative strong-C
   connections are visible (|a_den| > eps) and, with truncation, survive it (|a_den - d_neg| > eps);
   the positive strong-C part is either negligible (|b_den| < eps) or visible, surviving truncation,
   with a positive diagonal. *)
Theorem rs_interp_row_sum_one (eps et : S) (dt : bool) cf cidx i (r : list entry) :
  cfm_eqb (cfget cf i) CC = false -> lep s0 eps -> lep s0 et ->
  let Amin := fst (rs_minmax cf r) * et in
  let Amax := snd (rs_minmax cf r) * et in
  fsum (fun _ => true) r = s0 ->
  fsum (pDI i) r = lastd i r s0 ->
  sltb eps (sabs (fsum (pAD cf i) r)) = true ->
  (dt = true -> sltb eps (sabs (fsum (pAD cf i) r - fsum (pDN dt cf i Amin) r)) = true) ->
  (sltb (sabs (fsum (pBD cf i) r)) eps = true \/
   (sltb eps (sabs (fsum (pBD cf i) r)) = true /\
    (dt = true -> sltb eps (sabs (fsum (pBD cf i) r - fsum (pDP dt cf i Amax) r)) = true) /\
    sltb s0 (lastd i r s0) = true)) ->
  row_sum (rs_interp_row eps et dt cf cidx i r) = s1.
Proof.
  intros hcf heps het Amin Amax hz hd h1 h2 h3. unfold rs_interp_row. fold Amin Amax.
  destruct (minmax_bounds cf r (s0, s0) (le_refl s0) (le_refl s0)) as [Hmin Hmax].
  fold (rs_minmax cf r) in Hmin, Hmax.
  apply row_sum_one_core; auto.
  - apply mul_nonpos_nonneg; assumption.
  - apply mul_nonneg_nonneg; assumption.
Qed.

End RSRowSum.

(* the row of P built by rs_interp for a variable that is not 'C' *)
Lemma rs_interp_row_nth {S : Scalar} (eps et : S) dt (A : crs S) Sv cf P R i :
  rs_interp eps et dt A Sv cf = TrOk P R -> i < nrows A -> cfm_eqb (cfget cf i) CC = false ->
  nth i (rows P) [] = rs_interp_row eps et dt cf (fst (rs_cidx cf)) i (zip_row (nth i (rows A) []) (nth i Sv [])).
Proof.
  unfold rs_interp. destruct (Nat.eqb (snd (rs_cidx cf)) 0); [discriminate|].
  intros H Hi Hc. injection H as <- _. cbn [rows].
  set (F := fun ir : nat * row S => if cfm_eqb (cfget cf (fst ir)) CC then [(ng (fst (rs_cidx cf)) (fst ir), s1)]
            else rs_interp_row eps et dt cf (fst (rs_cidx cf)) (fst ir) (zip_row (snd ir) (nth (fst ir) Sv []))).
  change (nth i (map F (indexed (rows A))) [] = rs_interp_row eps et dt cf (fst (rs_cidx cf)) i (zip_row (nth i (rows A) []) (nth i Sv []))).
  rewrite (nth_indep _ [] (F (0%nat, []))) by (rewrite map_length, indexed_length; exact Hi).
  rewrite (map_nth F), nth_indexed by exact Hi. unfold F. cbn [fst snd]. rewrite Hc. reflexivity.
Qed.

(* closed at the rationals *)
From Coq Require Import QArith Qcanon.
From Amgcl Require Import MatOps2Proofs.
Lemma QcS_abs_def : forall x : QcS, sabs x = if sltb x s0 then - x else x.
Proof.
  intro x. unfold sabs, sltb, sopp, s0; simpl. unfold qc_abs, qc_ltb. simpl. rewrite Z.mul_1_r. reflexivity.
Qed.
Local Close Scope Qc_scope.
Local Close Scope Q_scope.
Local Open Scope nat_scope.
Local Open Scope S_scope.

(* ------------------------------------------------------------------ smoothed_aggr_emin: the filtered matrix *)
Section EminFilter.
Variable S : Scalar.
Hypothesis Sft : Sfield S.
Let Srt : Sring S := F_R Sft.
Add Field SFieldEM : Sft.

Definition emin_frow (i : nat) (D : S) (zr : list (nat * S * bool)) : row S :=
  flat_map (fun e => if Nat.eqb (fst (fst e)) i then [(i, D)] else if (snd e : bool) then [fst e] else []) zr.

Lemma emin_frow_off i D zr k : k <> i ->
  rget (emin_frow i D zr) k
  = fold_left (fun a e => if Nat.eqb (fst (fst e)) k && snd e then a + snd (fst e) else a) zr s0.
Proof.
  intro Hk. unfold emin_frow. induction zr as [|e zr IH]; [reflexivity|].
  cbn [flat_map fold_left]. rewrite (rget_app Srt), IH.
  destruct (Nat.eqb_spec (fst (fst e)) i) as [Ei|Ei].
  - rewrite (rget_single Srt). replace (Nat.eqb i k) with false by (symmetry; apply Nat.eqb_neq; congruence).
    replace (Nat.eqb (fst (fst e)) k) with false by (symmetry; apply Nat.eqb_neq; congruence). cbn [andb]. ring.
  - destruct e as [[c v] b]. cbn [fst snd] in *. destruct b; cbn [andb].
    + rewrite (rget_single Srt), andb_true_r. destruct (Nat.eqb c k).
      * rewrite (fold_acc_AF S Sft k zr (s0 + v)). ring.
      * ring.
    + rewrite rget_nil, andb_false_r. ring.
Qed.

Lemma emin_frow_diag0 i D zr :
  length (filter (fun e : nat * S * bool => Nat.eqb (fst (fst e)) i) zr) = 0%nat -> rget (emin_frow i D zr) i = s0.
Proof.
  unfold emin_frow. induction zr as [|e zr IH]; intro H; [reflexivity|]. cbn [flat_map filter] in *.
  destruct (Nat.eqb_spec (fst (fst e)) i) as [Ei|Ei]; [simpl in H; discriminate|].
  rewrite (rget_app Srt), IH by exact H. destruct (snd e).
  - destruct e as [[c v] b]. cbn [fst snd] in *. rewrite (rget_single Srt).
    replace (Nat.eqb c i) with false by (symmetry; apply Nat.eqb_neq; exact Ei). ring.
  - rewrite rget_nil. ring.
Qed.

Lemma emin_frow_diag i D zr :
  length (filter (fun e : nat * S * bool => Nat.eqb (fst (fst e)) i) zr) = 1%nat -> rget (emin_frow i D zr) i = D.
Proof.
  unfold emin_frow. induction zr as [|e zr IH]; intro H; [discriminate|]. cbn [flat_map filter] in *.
  destruct (Nat.eqb_spec (fst (fst e)) i) as [Ei|Ei].
  - simpl in H. injection H as H. rewrite (rget_app Srt), (rget_single Srt), Nat.eqb_refl.
    fold (emin_frow i D zr). rewrite emin_frow_diag0 by exact H. ring.
  - rewrite (rget_app Srt), IH by exact H. destruct (snd e).
    + destruct e as [[c v] b]. cbn [fst snd] in *. rewrite (rget_single Srt).
      replace (Nat.eqb c i) with false by (symmetry; apply Nat.eqb_neq; exact Ei). ring.
    + rewrite rget_nil. ring.
Qed.

(* dense semantics of the filtered matrix and of its diagonal vector: A_F of the SA formula *)
Lemma emin_filter_dense (A : crs S) st i k : i < nrows A ->
  length (filter (fun e : nat * S * bool => Nat.eqb (fst (fst e)) i) (zip_row (nth i (rows A) []) (nth i st []))) = 1%nat ->
  mget (fst (emin_filter A st)) i k = sa_AF A st i k /\ vget (snd (emin_filter A st)) i = sa_D A st i.
Proof.
  intros Hi Hd. unfold emin_filter. cbn [fst snd]. unfold mget, vget. cbn [rows].
  set (F := fun ir : nat * row S =>
     (flat_map (fun e : nat * S * bool => if Nat.eqb (fst (fst e)) (fst ir) then [(fst ir, sa_dia (fst ir) (zip_row (snd ir) (nth (fst ir) st [])))]
                 else if (snd e : bool) then [fst e] else []) (zip_row (snd ir) (nth (fst ir) st [])),
      sa_dia (fst ir) (zip_row (snd ir) (nth (fst ir) st [])))).
  change (rget (nth i (map fst (map F (indexed (rows A)))) []) k = sa_AF A st i k /\
          nth i (map snd (map F (indexed (rows A)))) s0 = sa_D A st i).
  rewrite !map_map.
  rewrite (nth_indep _ [] (fst (F (0%nat, [])))) by (rewrite map_length, indexed_length; exact Hi).
  rewrite (nth_indep (map (fun x => snd (F x)) _) s0 (snd (F (0%nat, [])))) by (rewrite map_length, indexed_length; exact Hi).
  rewrite (map_nth (fun x => fst (F x))), (map_nth (fun x => snd (F x))), nth_indexed by exact Hi.
  unfold F. cbn [fst snd]. split; [|reflexivity].
  fold (emin_frow i (sa_dia i (zip_row (nth i (rows A) []) (nth i st []))) (zip_row (nth i (rows A) []) (nth i st []))).
  unfold sa_AF. destruct (Nat.eqb_spec i k) as [<-|Hne].
  - rewrite emin_frow_diag by exact Hd. reflexivity.
  - rewrite emin_frow_off by congruence. reflexivity.
Qed.
End EminFilter.
