(* Junk.v -- C10-A1: inputs used by the junk-independence statements (DESIGN.md 1.2).
   The models of kernels that read possibly uninitialised memory carry that memory as an
   explicit `junk` argument (MatOps.diagonal, Relax.jacobi_setup, the `tmp`/`x` work vectors of
   the sweeps, ...).  This file only fixes the concrete witnesses of the refutations; the
   statements are in JunkProofs.v. *)
From Amgcl Require Import Scalar QcInst Vec Crs Kernels MatOps Relax.

(* "valid input" guard of diagonal(): every row stores an entry (i, i).  A matrix that
   violates it (row 1 has no diagonal entry): the output cell 1 is never written. *)
Definition nodiag_A : crs QcS :=
  mkCrs 2 [[(0, qc 2 1); (1, qc (-1) 1)]; [(0, qc (-1) 1)]]%nat.
Definition junk_a : vec QcS := [qc 0 1; qc 0 1].
Definition junk_b : vec QcS := [qc 0 1; qc 7 1].
