(* BlockRelaxProofsCheby.v -- Chebyshev smoother over a NON-COMMUTATIVE ring of values (block values):
   an exact solution of A x = b is a fixed point of the sweep, every degree, scale on/off, any workspace content.
   Port of the T7a part of ChebyProofs.v.  (At the block instance the coefficients alpha_k, beta_k, c, d are
   embedded base scalars c*I; the proof does not need that: they are opaque ring elements multiplying from the
   LEFT, as in the C++ axpby(alpha, r, beta, p).) *)
From Amgcl Require Import Scalar Vec Crs Kernels KernelsProofs MatOps Cheby NcRing NcKernels.
Local Open Scope S_scope.

Section NcCheby.
Context {S : Scalar}.
Local Notation vec := (vec S).
Local Notation crs := (crs S).
Hypothesis Hnc : ncring_theory S.
Hypothesis Seqb : seqb_spec S.
Local Instance ncch : NcRingInst S := ncring_inst Hnc.

(* ------------------------------------------------------------------ *)
(* small helpers *)

Lemma nch_vget_over (v : vec) i : length v <= i -> vget v i = s0.
Proof. intro H. unfold vget. apply nth_overflow. exact H. Qed.

Lemma nch_Ax_ext (A : crs) (x y : vec) n i :
  length x = n -> length y = n ->
  (forall j, j < n -> vget x j = vget y j) -> Ax A x i = Ax A y i.
Proof.
  intros Hx Hy H. unfold Ax. apply sumn_ext. intros j _.
  destruct (lt_dec j n) as [Hj|Hj].
  - rewrite (H j Hj). reflexivity.
  - rewrite !nch_vget_over by lia. reflexivity.
Qed.

(* the (optional) diagonal preconditioning of one residual entry:
   vmul(1, M, r, 0, r) when scale, identity otherwise *)
Definition nch_prec (M : option vec) (i : nat) (v : S) : S :=
  match M with Some m => s1 * vget m i * v + s0 * v | None => v end.

Lemma nch_prec_zero M i : nch_prec M i s0 = s0.
Proof. unfold nch_prec. destruct M; ncr. Qed.

Lemma nch_coef0 (two quarter c d alpha : S) :
  snd (cheby_coef two quarter c d 0 alpha) = s0.
Proof. reflexivity. Qed.

(* ------------------------------------------------------------------ *)
(* one step of solve(), pointwise *)
Lemma nch_step_spec (two quarter c d : S) M (A : crs) (b x p r : vec) (alpha : S) k :
  wf A = true ->
  length b = nrows A -> length x = nrows A -> length p = nrows A -> length r = nrows A ->
  (forall m, M = Some m -> length m = nrows A) ->
  exists x' p' r' : vec,
    cheby_step two quarter c d M A b (x, p, r, alpha) k
      = (x', p', r', fst (cheby_coef two quarter c d k alpha)) /\
    length x' = nrows A /\ length p' = nrows A /\ length r' = nrows A /\
    (forall i, i < nrows A ->
       vget p' i = fst (cheby_coef two quarter c d k alpha)
                     * nch_prec M i (vget b i - Ax A x i)
                   + snd (cheby_coef two quarter c d k alpha) * vget p i) /\
    (forall i, i < nrows A -> vget x' i = vget p' i + vget x i).
Proof.
  intros Hwf Hb Hx Hp Hr HM.
  unfold cheby_step.
  destruct (cheby_coef two quarter c d k alpha) as [al be]. cbn [fst snd].
  set (r1 := residual b A x r).
  assert (Lr1 : length r1 = nrows A) by (apply residual_length; assumption).
  assert (Gr1 : forall i, i < nrows A -> vget r1 i = vget b i - Ax A x i)
    by (intros i Hi; apply (nc_residual_spec Hnc); assumption).
  set (r2 := match M with Some m => vmul s1 m r1 s0 r1 | None => r1 end).
  assert (Lr2 : length r2 = nrows A).
  { subst r2. destruct M as [m|]; [|exact Lr1].
    pose proof (HM m eq_refl) as Hm. rewrite vmul_length; congruence. }
  assert (Gr2 : forall i, i < nrows A -> vget r2 i = nch_prec M i (vget b i - Ax A x i)).
  { intros i Hi. subst r2. unfold nch_prec. destruct M as [m|].
    - pose proof (HM m eq_refl) as Hm.
      rewrite (nc_vmul_spec Hnc Seqb) by congruence. rewrite (Gr1 i Hi). reflexivity.
    - apply Gr1; exact Hi. }
  set (p' := axpby al r2 be p).
  assert (Lp' : length p' = nrows A) by (subst p'; rewrite axpby_length; congruence).
  assert (Gp' : forall i, i < nrows A -> vget p' i = al * vget r2 i + be * vget p i)
    by (intros i Hi; subst p'; apply (nc_axpby_spec Hnc Seqb); congruence).
  exists (axpby s1 p' s1 x), p', r2.
  split; [reflexivity|].
  split; [rewrite axpby_length; congruence|].
  split; [exact Lp'|]. split; [exact Lr2|].
  split.
  - intros i Hi. rewrite (Gp' i Hi), (Gr2 i Hi). reflexivity.
  - intros i Hi. rewrite (nc_axpby_spec Hnc Seqb) by congruence. ncr.
Qed.

(* ------------------------------------------------------------------ *)
(* T7a: an exact solution is a fixed point *)

Lemma nch_fix_gen (two quarter c d : S) M (A : crs) (b x0 : vec) :
  wf A = true -> length b = nrows A -> length x0 = nrows A ->
  (forall m, M = Some m -> length m = nrows A) ->
  (forall i, i < nrows A -> Ax A x0 i = vget b i) ->
  forall len s (x p r : vec) alpha,
    length x = nrows A -> length p = nrows A -> length r = nrows A ->
    (forall i, i < nrows A -> vget x i = vget x0 i) ->
    (s = 0%nat \/ forall i, i < nrows A -> vget p i = s0) ->
    forall i, i < nrows A ->
      vget (fst (fst (fst (fold_left (cheby_step two quarter c d M A b) (seq s len)
                                     (x, p, r, alpha))))) i = vget x0 i.
Proof.
  intros Hwf Hb Hx0 HM Hfix.
  induction len as [|len IH]; intros s x p r alpha Hx Hp Hr Hxe Hpz i Hi.
  - simpl. apply Hxe; exact Hi.
  - cbn [seq fold_left].
    destruct (nch_step_spec two quarter c d M A b x p r alpha s Hwf Hb Hx Hp Hr HM)
      as (x' & p' & r' & E & Lx' & Lp' & Lr' & Gp' & Gx').
    rewrite E.
    assert (Pz : forall j, j < nrows A -> vget p' j = s0).
    { intros j Hj. rewrite (Gp' j Hj).
      rewrite (nch_Ax_ext A x x0 (nrows A) j Hx Hx0 Hxe), (Hfix j Hj).
      replace (vget b j - vget b j) with (@s0 S) by ncr.
      rewrite nch_prec_zero.
      destruct Hpz as [->|Hpz].
      - rewrite nch_coef0. ncr.
      - rewrite (Hpz j Hj). ncr. }
    apply IH; try assumption.
    + intros j Hj. rewrite (Gx' j Hj), (Pz j Hj), (Hxe j Hj). ncr.
    + right. exact Pz.
Qed.

Theorem nc_cheby_solve_fixed_point (two quarter c d : S) M degree (A : crs) (b x p r : vec) :
  wf A = true ->
  length b = nrows A -> length x = nrows A -> length p = nrows A -> length r = nrows A ->
  (forall m, M = Some m -> length m = nrows A) ->
  (forall i, i < nrows A -> Ax A x i = vget b i) ->
  forall i, i < nrows A ->
    vget (fst (fst (fst (cheby_solve two quarter c d M degree A b x p r)))) i = vget x i.
Proof.
  intros Hwf Hb Hx Hp Hr HM Hfix i Hi. unfold cheby_solve.
  apply (nch_fix_gen two quarter c d M A b x Hwf Hb Hx HM Hfix); auto.
Qed.

Lemma nch_sweep_solve (c d : S) M degree (A : crs) (b x p r : vec) :
  cheby_sweep (c, d, M) degree A b x p r
  = fst (fst (fst (cheby_solve c_two c_quarter c d M degree A b x p r))).
Proof.
  unfold cheby_sweep.
  destruct (cheby_solve c_two c_quarter c d M degree A b x p r) as [[[x' p'] r'] al].
  reflexivity.
Qed.

Theorem nc_cheby_sweep_fixed_point (c d : S) M degree (A : crs) (b x p r : vec) :
  wf A = true ->
  length b = nrows A -> length x = nrows A -> length p = nrows A -> length r = nrows A ->
  (forall m, M = Some m -> length m = nrows A) ->
  (forall i, i < nrows A -> Ax A x i = vget b i) ->
  forall i, i < nrows A ->
    vget (cheby_sweep (c, d, M) degree A b x p r) i = vget x i.
Proof.
  intros. rewrite nch_sweep_solve. apply nc_cheby_solve_fixed_point; assumption.
Qed.

End NcCheby.
