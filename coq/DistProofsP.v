(* DistProofsP.v -- C11-B: the distributed product (Dist.dist_product, the rank-by-rank model of
   amgcl::mpi::product incl. the rows obtained through remote_rows) assembles to the serial
   product spgemm_saad of the assembled matrices: every row has the same dense semantics
   (duplicate entries add up), for every compatible partition, in every commutative ring. *)
From Amgcl Require Import Scalar Vec Crs Kernels KernelsProofs MatOps MatOpsProofs Dist DistProofs.
Local Open Scope nat_scope.

Section Product.
Context {S : Scalar}.
Local Notation row := (row S).
Local Notation crs := (crs S).
Hypothesis Srt : Sring S.
Add Ring SRingP : Srt.
Local Open Scope S_scope.

(* two rows with the same dense semantics *)
Definition row_equiv (r1 r2 : row) : Prop := forall j, rget r1 j = rget r2 j.

(* a strip row in global numbering: local entries (shifted back) then remote entries *)
Definition reorder (b p : nat) (r : row) : row :=
  map (fun e => (fst e + b, snd e)%nat) (loc_row b p r) ++ rem_row b p r.

Lemma shift_unshift b (l : row) : (forall e, In e l -> (b <= fst e)%nat) ->
  map (fun e : nat * S => (fst e + b, snd e)%nat) (map (fun e : nat * S => (fst e - b, snd e)%nat) l) = l.
Proof.
  induction l as [|[c v] l IH]; intro H; simpl; [reflexivity|].
  rewrite IH by (intros; apply H; simpl; auto). f_equal. f_equal.
  specialize (H (c, v) (or_introl eq_refl)). simpl in H. lia.
Qed.

Lemma reorder_filter b p (r : row) :
  reorder b p r = filter (fun e => in_range b p (fst e)) r ++ filter (fun e => negb (in_range b p (fst e))) r.
Proof.
  unfold reorder, loc_row, rem_row. f_equal. apply shift_unshift.
  intros e He. apply filter_In in He. destruct He as [_ He].
  unfold in_range in He. apply andb_prop in He. destruct He as [He _]. apply Nat.leb_le in He. exact He.
Qed.

Lemma rget_filter_split (p : nat * S -> bool) (r : row) j :
  rget r j = rget (filter p r) j + rget (filter (fun e => negb (p e)) r) j.
Proof.
  induction r as [|e r IH]; simpl.
  - rewrite rget_nil. ring.
  - rewrite (rget_cons Srt). destruct (p e); simpl; rewrite (rget_cons Srt), IH; ring.
Qed.

Lemma rget_reorder b p (r : row) : row_equiv (reorder b p r) r.
Proof.
  intro j. rewrite reorder_filter, (rget_app Srt). symmetry. apply rget_filter_split.
Qed.

(* the marker accumulation keeps the dense semantics of the event list *)
Lemma rget_accumulate_acc (evs acc : row) j :
  rget (fold_left (fun a e => row_add a (fst e) (snd e)) evs acc) j = rget acc j + rget evs j.
Proof.
  revert acc; induction evs as [|e evs IH]; intro acc; simpl.
  - rewrite rget_nil. ring.
  - rewrite IH, (rget_row_add Srt), (rget_cons Srt). destruct (Nat.eqb (fst e) j); ring.
Qed.

Lemma rget_accumulate (evs : row) : row_equiv (accumulate evs) evs.
Proof. intro j. unfold accumulate. rewrite rget_accumulate_acc, rget_nil. ring. Qed.

(* local accumulator shifted back + remote accumulator = all events *)
Lemma rget_shift_map b (l : row) j :
  rget (map (fun e => (fst e + b, snd e)%nat) l) j = if Nat.leb b j then rget l (j - b)%nat else s0.
Proof.
  induction l as [|e l IH]; simpl.
  - rewrite !rget_nil. destruct (Nat.leb b j); reflexivity.
  - rewrite !(rget_cons Srt), IH. simpl.
    destruct (Nat.leb_spec b j).
    + destruct (Nat.eqb_spec (fst e + b) j), (Nat.eqb_spec (fst e) (j - b)%nat); try lia; ring.
    + destruct (Nat.eqb_spec (fst e + b) j); [lia | ring].
Qed.

Lemma rget_split_accumulate b p (evs : row) :
  row_equiv (map (fun e => (fst e + b, snd e)%nat) (accumulate (loc_row b p evs)) ++ accumulate (rem_row b p evs)) evs.
Proof.
  intro j. rewrite (rget_app Srt), rget_shift_map, (rget_accumulate (rem_row b p evs) j).
  rewrite <- (rget_reorder b p evs j). unfold reorder. rewrite (rget_app Srt), rget_shift_map.
  destruct (Nat.leb b j); [rewrite (rget_accumulate (loc_row b p evs) (j - b)%nat) |]; reflexivity.
Qed.

(* the events of one row: sum over the entries of the A-row of value * (B-row at column j) *)
Lemma rget_scale_left (a : S) (rb : row) j : rget (map (fun eb => (fst eb, a * snd eb)) rb) j = a * rget rb j.
Proof.
  induction rb as [|e rb IH]; simpl.
  - rewrite !rget_nil. ring.
  - rewrite !(rget_cons Srt), IH. simpl. destruct (Nat.eqb (fst e) j); ring.
Qed.

Lemma rget_prod_events (SB : list row) (ra : row) j :
  rget (prod_events SB ra) j = fold_right (fun e acc => snd e * rget (nth (fst e) SB []) j + acc) s0 ra.
Proof.
  unfold prod_events. induction ra as [|e ra IH]; simpl.
  - apply rget_nil.
  - rewrite (rget_app Srt), rget_scale_left, IH. reflexivity.
Qed.

Lemma lin_filter_split (SB : list row) (p : nat * S -> bool) (ra : row) j :
  fold_right (fun e acc => snd e * rget (nth (fst e) SB []) j + acc) s0 ra
  = fold_right (fun e acc => snd e * rget (nth (fst e) SB []) j + acc) s0 (filter p ra)
    + fold_right (fun e acc => snd e * rget (nth (fst e) SB []) j + acc) s0 (filter (fun e => negb (p e)) ra).
Proof.
  induction ra as [|e ra IH]; simpl; [ring|]. destruct (p e); simpl; rewrite IH; ring.
Qed.

Lemma lin_app (SB : list row) (r1 r2 : row) j :
  fold_right (fun e acc => snd e * rget (nth (fst e) SB []) j + acc) s0 (r1 ++ r2)
  = fold_right (fun e acc => snd e * rget (nth (fst e) SB []) j + acc) s0 r1
    + fold_right (fun e acc => snd e * rget (nth (fst e) SB []) j + acc) s0 r2.
Proof. induction r1 as [|e r1 IH]; simpl; [ring | rewrite IH; ring]. Qed.

Lemma lin_reorder (SB : list row) b p (ra : row) j :
  fold_right (fun e acc => snd e * rget (nth (fst e) SB []) j + acc) s0 (reorder b p ra)
  = fold_right (fun e acc => snd e * rget (nth (fst e) SB []) j + acc) s0 ra.
Proof. rewrite reorder_filter, lin_app. symmetry. apply lin_filter_split. Qed.

Lemma lin_ext (SB SB' : list row) (ra : row) j :
  (forall c, rget (nth c SB []) j = rget (nth c SB' []) j) ->
  fold_right (fun e acc => snd e * rget (nth (fst e) SB []) j + acc) s0 ra
  = fold_right (fun e acc => snd e * rget (nth (fst e) SB' []) j + acc) s0 ra.
Proof. intro H. induction ra as [|e ra IH]; simpl; [reflexivity | rewrite IH, H; reflexivity]. Qed.

(* ---- Forall2 over blocks ---- *)
Lemma Forall2_concat_map {X Y Z} (R : Y -> Z -> Prop) (f : X -> list Y) (g : X -> list Z) (l : list X) :
  (forall x, In x l -> Forall2 R (f x) (g x)) -> Forall2 R (concat (map f l)) (concat (map g l)).
Proof.
  induction l as [|a l IH]; intro H; simpl; [constructor|].
  apply Forall2_app; [apply H; simpl; auto | apply IH; intros; apply H; simpl; auto].
Qed.

Lemma Forall2_map_same {X Y Z} (R : Y -> Z -> Prop) (f : X -> Y) (g : X -> Z) (l : list X) :
  (forall x, In x l -> R (f x) (g x)) -> Forall2 R (map f l) (map g l).
Proof. induction l as [|a l IH]; intro H; simpl; constructor; [apply H; simpl; auto | apply IH; intros; apply H; simpl; auto]. Qed.

Lemma Forall2_nth_equiv (L1 L2 : list row) c : Forall2 row_equiv L1 L2 -> row_equiv (nth c L1 []) (nth c L2 []).
Proof.
  intro H. revert c. induction H as [|a b L1 L2 Hab HF IH]; intros [|c]; simpl; try (intro j; reflexivity); auto.
Qed.

Lemma map2_map_map {X Y Z W} (f : Y -> Z -> W) (g : X -> Y) (h : X -> Z) (l : list X) :
  map2 f (map g l) (map h l) = map (fun x => f (g x) (h x)) l.
Proof. induction l; simpl; [reflexivity | f_equal; assumption]. Qed.

(* the strips of a split matrix are the rows of the matrix, block by block, reordered *)
Lemma strips_split (M : crs) (rp cp : list nat) : length rp = length cp ->
  strips (split M rp cp) =
  map (fun r => map (reorder (pbeg cp r) (psize cp r)) (nth r (chunks rp (rows M)) [])) (seq 0 (length cp)).
Proof.
  intro H. unfold strips. simpl dm_cparts. apply map_ext_in. intros r Hr. apply in_seq in Hr.
  unfold split. simpl dm_ranks. rewrite (nth_map_seq (split_rank M rp cp) (length cp) r dflt_rank) by lia.
  unfold split_rank, split_rows, strip_rows. simpl. rewrite map2_map_map. reflexivity.
Qed.

Lemma rows_as_blocks (M : crs) (rp : list nat) n : length rp = n -> psum rp = nrows M ->
  rows M = concat (map (fun r => nth r (chunks rp (rows M)) []) (seq 0 n)).
Proof.
  intros Hn Hs. rewrite <- (chunks_length rp (rows M)) in Hn. subst n.
  rewrite map_nth_seq. symmetry. apply concat_chunks. unfold nrows in Hs. lia.
Qed.

(* the assembled strips of B have, row by row, the semantics of B's rows *)
Lemma strips_equiv (M : crs) (rp cp : list nat) : length rp = length cp -> psum rp = nrows M ->
  Forall2 row_equiv (concat (strips (split M rp cp))) (rows M).
Proof.
  intros H Hs. rewrite strips_split by exact H.
  pose proof (rows_as_blocks M rp (length cp) H Hs) as E.
  remember (chunks rp (rows M)) as Ls eqn:ELs. rewrite E. clear E ELs.
  apply Forall2_concat_map. intros r _.
  rewrite <- (map_id (nth r Ls [])) at 2.
  apply Forall2_map_same. intros x _. apply rget_reorder.
Qed.

(* ---- the theorem ---- *)
Variables A B : crs.
Variables rpA cpA cpB : list nat.
Hypothesis HlenA : length rpA = length cpA.
Hypothesis HlenB : length cpA = length cpB.
Hypothesis HrowsA : psum rpA = nrows A.
Hypothesis HrowsB : psum cpA = nrows B.      (* B's rows are distributed like A's columns *)
Local Notation n := (length cpA).
Local Notation DA := (split A rpA cpA).
Local Notation DB := (split B cpA cpB).
Local Notation C := (dist_product DA DB).

Lemma C_strips :
  strips C = map (fun r => map (fun ra =>
                   let evs := prod_events (concat (strips DB)) (reorder (pbeg cpA r) (psize cpA r) ra) in
                   map (fun e => (fst e + pbeg cpB r, snd e)%nat) (accumulate (loc_row (pbeg cpB r) (psize cpB r) evs))
                   ++ accumulate (rem_row (pbeg cpB r) (psize cpB r) evs))
                 (nth r (chunks rpA (rows A)) [])) (seq 0 n).
Proof.
  remember (concat (strips DB)) as SB eqn:ESB.
  unfold strips. change (dm_cparts C) with cpB. rewrite <- HlenB.
  apply map_ext_in. intros r Hr. apply in_seq in Hr.
  unfold dist_product. cbn [dm_ranks dm_cparts]. rewrite <- ESB.
  change (dm_cparts DB) with cpB. change (dm_cparts DA) with cpA.
  rewrite (nth_map_seq _ n r dflt_rank) by lia.
  unfold strip_rows at 1. cbn [rm_loc rm_rem rows].
  rewrite map2_map_map.
  unfold split. cbn [dm_ranks]. rewrite (nth_map_seq (split_rank A rpA cpA) n r dflt_rank) by lia.
  unfold split_rank, split_rows, strip_rows. cbn [rm_loc rm_rem rows].
  rewrite map2_map_map, map_map. reflexivity.
Qed.

Theorem dist_product_assembled :
  ncols (assemble C) = psum cpB /\
  Forall2 row_equiv (rows (assemble C)) (rows (spgemm_saad A B false)).
Proof.
  split; [reflexivity|].
  unfold assemble. cbn [rows]. rewrite C_strips.
  unfold spgemm_saad. cbn [rows].
  pose proof (rows_as_blocks A rpA n HlenA HrowsA) as E.
  remember (chunks rpA (rows A)) as La eqn:ELa. rewrite E. clear E ELa.
  rewrite concat_map, map_map.
  apply Forall2_concat_map. intros r _.
  apply Forall2_map_same. intros ra _. intro j. cbv zeta.
  rewrite (rget_split_accumulate (pbeg cpB r) (psize cpB r) _ j).
  rewrite rget_prod_events, lin_reorder.
  rewrite (rget_spgemm_row Srt). unfold row_lin.
  apply lin_ext. intro c.
  apply (Forall2_nth_equiv _ _ c (strips_equiv B cpA cpB HlenB HrowsB)).
Qed.

Lemma Forall2_len {X Y} (R : X -> Y -> Prop) (l1 : list X) (l2 : list Y) : Forall2 R l1 l2 -> length l1 = length l2.
Proof. induction 1; simpl; [reflexivity | f_equal; assumption]. Qed.

Corollary dist_product_rows : length (rows (assemble C)) = length (rows (spgemm_saad A B false)).
Proof. exact (Forall2_len _ _ _ (proj2 dist_product_assembled)). Qed.

Corollary dist_product_dense i j :
  mget (assemble C) i j = mget (spgemm_saad A B false) i j.
Proof. unfold mget. apply (Forall2_nth_equiv _ _ i (proj2 dist_product_assembled)). Qed.

End Product.
