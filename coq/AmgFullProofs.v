(* AmgFullProofs.v -- a hierarchy built entirely inside the model is a [build] hierarchy for the
   transfer operators the coarsening model chooses; hence every C03 theorem about [build] holds
   for [build_full] with no reference to supplied transfer operators. *)
From Amgcl Require Import Scalar Vec Crs Kernels MatOps MatOps2 Aggregates Tentative Coarsen Amg AmgExec AmgProofs AmgFull.
Local Open Scope S_scope.

Section FullProofs.
Context {S : Scalar}.
Local Notation vec := (vec S).
Local Notation crs := (crs S).
Variable ce : nat.
Variable dc : bool.
Variable nt : nat.
Variable cop : crs -> crs -> crs -> crs.
Variable junk : nat -> vec.
Variable junkf : nat -> flags.
Variable prep : crs -> option crs.

Local Notation build_full := (build_full ce dc nt cop junk junkf prep).
Local Notation full_transfers := (full_transfers ce nt cop junk junkf prep).
Local Notation full_chain := (full_chain nt junk junkf prep).

(* the key fact: build_full = build with the model's own transfer operators;
   max_levels = lev + k + 1 where lev levels are already pushed and k more step_downs are allowed *)
Theorem build_full_is_build k : forall pol A lev ls,
  build_full k pol A lev = FullOk ls ->
  ls = build ce dc (lev + Datatypes.S k) cop (full_transfers k pol A lev) A lev.
Proof.
  induction k as [|k IH]; intros pol A lev ls H.
  - cbn [AmgFull.build_full AmgFull.full_transfers] in *. rewrite build_unfold.
    destruct (Nat.leb (nrows A) ce); [injection H as <-; reflexivity|].
    replace (Nat.leb (lev + 1) (Datatypes.S lev)) with true by (symmetry; apply Nat.leb_le; lia).
    injection H as <-. reflexivity.
  - cbn [AmgFull.build_full AmgFull.full_transfers] in *. rewrite build_unfold.
    destruct (Nat.leb (nrows A) ce); [injection H as <-; reflexivity|].
    replace (Nat.leb (lev + Datatypes.S (Datatypes.S k)) (Datatypes.S lev)) with false
      by (symmetry; apply Nat.leb_gt; lia).
    destruct (coarsen_step nt pol A (junk lev) (junkf lev)) as [| | |P R Ac pol'];
      try discriminate; try (injection H as <-; reflexivity).
    destruct (prep P) as [Pc|]; [|discriminate]. destruct (prep R) as [Rc|]; [|discriminate].
    cbv zeta in H.
    destruct (build_full k pol' (sort_rows (cop A (sort_rows Pc) (sort_rows Rc))) (Datatypes.S lev)) as [tl| |] eqn:E;
      try discriminate.
    injection H as <-. f_equal.
    rewrite (IH _ _ _ _ E). f_equal. lia.
Qed.

(* ... and its levels carry exactly what the coarsening model returns for them *)
Theorem build_full_chain k : forall pol A lev ls,
  build_full k pol A lev = FullOk ls -> full_chain pol lev ls.
Proof.
  induction k as [|k IH]; intros pol A lev ls H.
  - cbn [AmgFull.build_full] in H. destruct (Nat.leb (nrows A) ce); injection H as <-.
    + destruct dc; reflexivity.
    + reflexivity.
  - cbn [AmgFull.build_full] in H. destruct (Nat.leb (nrows A) ce).
    { injection H as <-. destruct dc; reflexivity. }
    destruct (coarsen_step nt pol A (junk lev) (junkf lev)) as [| | |P R Ac pol'] eqn:Es;
      try discriminate; try (injection H as <-; reflexivity).
    destruct (prep P) as [Pc|] eqn:EP; [|discriminate]. destruct (prep R) as [Rc|] eqn:ER; [|discriminate].
    cbv zeta in H.
    destruct (build_full k pol' (sort_rows (cop A (sort_rows Pc) (sort_rows Rc))) (Datatypes.S lev)) as [tl| |] eqn:E;
      try discriminate.
    injection H as <-. cbn [AmgFull.full_chain].
    exists P, R, Ac, pol', Pc, Rc. repeat split; try assumption. exact (IH _ _ _ _ E).
Qed.

(* the first matrix of the result is the input *)
Theorem build_full_head k pol A lev ls : build_full k pol A lev = FullOk ls -> head_A ls A.
Proof. intro H. rewrite (build_full_is_build k pol A lev ls H). apply build_head. Qed.

(* C03 T1 for build_full: Galerkin chain *)
Theorem build_full_galerkin_chain k pol A lev ls :
  build_full k pol A lev = FullOk ls -> chain cop ls /\ head_A ls A.
Proof.
  intro H. split; [|exact (build_full_head k pol A lev ls H)].
  rewrite (build_full_is_build k pol A lev ls H). apply build_chain.
Qed.

(* C03 T4 for build_full: last-level rule, number of levels *)
Theorem build_full_last_rule k pol A lev ls d :
  build_full k pol A lev = FullOk ls ->
  match last ls d with
  | LSolve A' => nrows A' <= ce /\ dc = true
  | LLast A' => nrows A' <= ce -> dc = false
  | LMid _ _ _ => False
  end.
Proof. intro H. rewrite (build_full_is_build k pol A lev ls H). apply build_last_rule. Qed.

Theorem build_full_length k pol A lev ls :
  build_full k pol A lev = FullOk ls -> length ls <= Datatypes.S k.
Proof.
  intro H. rewrite (build_full_is_build k pol A lev ls H).
  pose proof (build_length ce dc (lev + Datatypes.S k) cop (full_transfers k pol A lev) A lev). lia.
Qed.

(* C03 T2/T3 for build_full: rebuild keeps the chain and the transfer operators; it is the fresh
   build for the new matrix with the same (stored) transfer operators; restoring the matrix
   restores the hierarchy *)
Theorem build_full_rebuild_chain k pol A ls M' :
  build_full k pol A 0 = FullOk ls ->
  chain cop (amg_rebuild cop ls M') /\ head_A (amg_rebuild cop ls M') (sort_rows M') /\
  transfers_of (amg_rebuild cop ls M') = transfers_of ls.
Proof.
  intro H. apply amg_rebuild_chain. exact (proj1 (build_full_galerkin_chain k pol A 0 ls H)).
Qed.

End FullProofs.

(* ------------------------------------------------------------------ *)
(* the whole constructor amg(M, prm) *)
Section InitFull.
Context {S : Scalar}.
Local Notation vec := (vec S).
Local Notation crs := (crs S).
Variable ce : nat.
Variable dc : bool.
Variable ml nt : nat.
Variable junk : nat -> vec.
Variable junkf : nat -> flags.
Variable prep : crs -> option crs.

(* max_levels = 0 behaves like 1: the first level is pushed before the test *)
Definition eff_levels : nat := Datatypes.S (ml - 1).
Definition init_transfers (pol : @policy S) (M : crs) : list (option (crs * crs)) :=
  full_transfers ce nt (policy_cop pol) junk junkf prep (ml - 1) pol (sort_rows M) 0.

Lemma policy_cop_shape (pol : @policy S) : coarse_shape (policy_cop pol).
Proof.
  unfold policy_cop. destruct (policy_scale pol) as [s|]; [apply scaled_galerkin_shape|apply galerkin_shape].
Qed.

Theorem amg_init_full_is_amg_init pol M ls :
  amg_init_full ce dc ml nt junk junkf prep pol M = FullOk ls ->
  ls = amg_init ce dc eff_levels (policy_cop pol) (init_transfers pol M) M.
Proof. intro H. exact (build_full_is_build ce dc nt _ junk junkf prep _ _ _ _ _ H). Qed.

Theorem amg_init_full_chain pol M ls :
  amg_init_full ce dc ml nt junk junkf prep pol M = FullOk ls ->
  chain (policy_cop pol) ls /\ head_A ls (sort_rows M) /\ full_chain nt junk junkf prep pol 0 ls.
Proof.
  intro H. destruct (build_full_galerkin_chain ce dc nt _ junk junkf prep _ _ _ _ _ H) as [H1 H2].
  repeat split; try assumption. exact (build_full_chain ce dc nt _ junk junkf prep _ _ _ _ _ H).
Qed.

Theorem amg_init_full_levels pol M ls :
  amg_init_full ce dc ml nt junk junkf prep pol M = FullOk ls -> length ls <= Nat.max ml 1.
Proof.
  intro H. pose proof (build_full_length ce dc nt _ junk junkf prep _ _ _ _ _ H). lia.
Qed.

Theorem amg_init_full_last_rule pol M ls d :
  amg_init_full ce dc ml nt junk junkf prep pol M = FullOk ls ->
  match last ls d with
  | LSolve A' => nrows A' <= ce /\ dc = true
  | LLast A' => nrows A' <= ce -> dc = false
  | LMid _ _ _ => False
  end.
Proof. intro H. exact (build_full_last_rule ce dc nt _ junk junkf prep _ _ _ _ _ d H). Qed.

(* rebuild(M') = the hierarchy the constructor would assemble for M' from the transfer operators
   the coarsening chose for M *)
Theorem amg_init_full_rebuild_fresh pol M M' ls :
  amg_init_full ce dc ml nt junk junkf prep pol M = FullOk ls -> nrows M' = nrows M ->
  amg_rebuild (policy_cop pol) ls M' =
  amg_init ce dc eff_levels (policy_cop pol) (init_transfers pol M) M'.
Proof.
  intros H Hn. rewrite (amg_init_full_is_amg_init pol M ls H).
  apply amg_rebuild_init; [apply policy_cop_shape|exact Hn].
Qed.

Theorem amg_init_full_rebuild_stored pol M M' ls :
  amg_init_full ce dc ml nt junk junkf prep pol M = FullOk ls -> nrows M' = nrows M ->
  amg_rebuild (policy_cop pol) ls M' =
  amg_init ce dc eff_levels (policy_cop pol) (transfers_of ls) M'.
Proof.
  intros H Hn. rewrite (amg_init_full_is_amg_init pol M ls H).
  apply amg_rebuild_stored; [apply policy_cop_shape|exact Hn].
Qed.

Theorem amg_init_full_rebuild_restore pol M M' ls :
  amg_init_full ce dc ml nt junk junkf prep pol M = FullOk ls -> nrows M' = nrows M ->
  amg_rebuild (policy_cop pol) (amg_rebuild (policy_cop pol) ls M') M = ls.
Proof.
  intros H Hn. rewrite (amg_init_full_is_amg_init pol M ls H).
  apply amg_rebuild_restore; [apply policy_cop_shape|exact Hn].
Qed.

Theorem amg_init_full_rebuild_history pol M (Ms : list crs) M' ls :
  amg_init_full ce dc ml nt junk junkf prep pol M = FullOk ls ->
  Forall (fun X => nrows X = nrows M) Ms -> nrows M' = nrows M ->
  amg_rebuild (policy_cop pol) (fold_left (amg_rebuild (policy_cop pol)) Ms ls) M' =
  amg_init ce dc eff_levels (policy_cop pol) (init_transfers pol M) M'.
Proof.
  intros H HMs Hn. rewrite (amg_init_full_is_amg_init pol M ls H).
  apply amg_rebuild_history; [apply policy_cop_shape|exact HMs|exact Hn].
Qed.

End InitFull.

(* ------------------------------------------------------------------ *)
(* R = transpose P for aggregation / smoothed aggregation / Ruge-Stuben, by construction *)
Section Adjoint.
Context {S : Scalar}.
Local Notation crs := (crs S).

Definition policy_adjoint (pol : @policy S) : bool :=
  match pol with PolEmin _ _ => false | _ => true end.

Lemma coarsen_step_transpose nt (pol : @policy S) (A : crs) junk junkf P R Ac pol' :
  policy_adjoint pol = true ->
  coarsen_step nt pol A junk junkf = StepOk P R Ac pol' -> R = transpose P.
Proof.
  intros Ha H. destruct pol as [eps2 bs s|eps2s bs relax c23|eps2s bs relax c43|eps2s bs|es et dt];
    try discriminate Ha; cbn [coarsen_step] in H.
  - unfold aggregation_transfer in H. destruct (pointwise_aggregates eps2 bs 0 A junk); try discriminate.
    cbn [with_coarse] in H. injection H as <- <- _ _. reflexivity.
  - unfold sa_transfer, sa_transfer_omega in H.
    destruct (pointwise_aggregates (nth 0 eps2s s0) bs 0 A junk); try discriminate.
    cbn [with_coarse] in H. injection H as <- <- _ _. reflexivity.
  - unfold sa_transfer_gersh, sa_transfer_omega in H.
    destruct (pointwise_aggregates (nth 0 eps2s s0) bs 0 A junk); try discriminate.
    cbn [with_coarse] in H. injection H as <- <- _ _. reflexivity.
  - unfold rs_transfer in H. destruct (rs_cf es A junkf) as [[Sv cf]|]; try discriminate.
    unfold rs_interp in H. destruct (Nat.eqb (snd (rs_cidx cf)) 0); try discriminate.
    cbn [with_coarse] in H. injection H as <- <- _ _. reflexivity.
Qed.

(* the policy keeps its kind (and its scaling) from level to level *)
Lemma coarsen_step_next nt (pol : @policy S) (A : crs) junk junkf P R Ac pol' :
  coarsen_step nt pol A junk junkf = StepOk P R Ac pol' ->
  policy_adjoint pol' = policy_adjoint pol /\ policy_scale pol' = policy_scale pol.
Proof.
  intro H. destruct pol; cbn [coarsen_step] in H;
  match type of H with with_coarse ?t _ _ = _ => destruct t; try discriminate end;
  cbn [with_coarse] in H; injection H as _ _ _ <-; split; reflexivity.
Qed.

(* every level with transfer operators of a hierarchy built inside the model carries the wrapped,
   row-sorted images of some P0 and of transpose P0 *)
Theorem full_chain_adjoint nt junk junkf prep : forall (ls : list (@ldesc S)) (pol : @policy S) lev,
  policy_adjoint pol = true -> full_chain nt junk junkf prep pol lev ls ->
  forall n A P R, nth_error ls n = Some (LMid A P R) ->
  exists P0 Pc Rc, prep P0 = Some Pc /\ prep (transpose P0) = Some Rc /\
                   P = sort_rows Pc /\ R = sort_rows Rc.
Proof.
  induction ls as [|l tl IH]; intros pol lev Ha Hc n A P R Hn; [destruct n; discriminate|].
  destruct l as [A0 P0' R0'|A0|A0].
  - cbn [full_chain] in Hc. destruct Hc as (P0 & R0 & Ac & pol' & Pc & Rc & Es & EPc & ERc & EP & ER & Hc').
    destruct n as [|n].
    + injection Hn as <- <- <-. exists P0, Pc, Rc.
      rewrite <- (coarsen_step_transpose nt pol _ _ _ _ _ _ _ Ha Es). repeat split; assumption.
    + apply (IH pol' (Datatypes.S lev)) with (n := n) (A := A); try assumption.
      rewrite (proj1 (coarsen_step_next nt pol _ _ _ _ _ _ _ Es)). exact Ha.
  - cbn [full_chain] in Hc. subst tl. destruct n as [|[|n]]; discriminate.
  - cbn [full_chain] in Hc. subst tl. destruct n as [|[|n]]; discriminate.
Qed.

(* a coarsening class used directly (prep = Some): R = transpose P up to the row sorting of step_down *)
Corollary full_chain_adjoint_direct nt junk junkf : forall (ls : list (@ldesc S)) (pol : @policy S) lev,
  policy_adjoint pol = true -> full_chain nt junk junkf (@Some crs) pol lev ls ->
  forall n A P R, nth_error ls n = Some (LMid A P R) ->
  exists P0, P = sort_rows P0 /\ R = sort_rows (transpose P0).
Proof.
  intros ls pol lev Ha Hc n A P R Hn.
  destruct (full_chain_adjoint nt junk junkf _ ls pol lev Ha Hc n A P R Hn) as (P0 & Pc & Rc & E1 & E2 & E3 & E4).
  injection E1 as <-. injection E2 as <-. exists P0. split; assumption.
Qed.

End Adjoint.

(* ------------------------------------------------------------------ *)
(* dense form: every coarse matrix of a hierarchy built inside the model is (R (A P)) [* s] *)
Section FullDense.
Context {S : Scalar}.
Local Notation crs := (crs S).
Hypothesis Srt : Sring S.

Theorem amg_init_full_dense ce dc ml nt junk junkf prep (pol : @policy S) (M : crs) ls :
  amg_init_full ce dc ml nt junk junkf prep pol M = FullOk ls ->
  forall n A P R next i j,
  nth_error ls n = Some (LMid A P R) -> nth_error ls (Datatypes.S n) = Some next ->
  wf A = true -> wf R = true ->
  mget (ld_A next) i j =
  match policy_scale pol with
  | Some s => sumn (fun k => mget R i k * sumn (fun l => mget A k l * mget P l j) (ncols A)) (ncols R) * s
  | None => sumn (fun k => mget R i k * sumn (fun l => mget A k l * mget P l j) (ncols A)) (ncols R)
  end.
Proof.
  intros H n A P R next i j H1 H2 HA HR.
  destruct (amg_init_full_chain ce dc ml nt junk junkf prep pol M ls H) as (Hc & _ & _).
  unfold policy_cop in Hc. destruct (policy_scale pol) as [s|]; cbn [coarse_op_of] in Hc.
  - exact (chain_scaled_galerkin_dense Srt s ls Hc n A P R next i j H1 H2 HA HR).
  - exact (chain_galerkin_dense Srt ls Hc n A P R next i j H1 H2 HA HR).
Qed.

End FullDense.
