(* IoProofsBin.v -- proofs about the model of amgcl/io/binary.hpp (BinFormat.v). *)
From Coq Require Import List ZArith Lia Bool ZifyBool Permutation.
From Amgcl Require Import MMFormat BinFormat.
Import ListNotations.
Local Open Scope Z_scope.

(* ================================================================== B0: basics *)

Lemma two64_pow : 256 ^ Z.of_nat 8 = two64.
Proof. reflexivity. Qed.

Lemma s64_small : forall x, - two63 <= x < two63 -> s64 x = x.
Proof.
  intros x H. unfold s64. unfold two63, two64 in *.
  destruct (x mod 18446744073709551616 <? 9223372036854775808) eqn:E;
    Z.div_mod_to_equations; lia.
Qed.

Lemma u64_small : forall x, 0 <= x < two64 -> u64 x = x.
Proof. intros x H. unfold u64. apply Z.mod_small; assumption. Qed.

Lemma s64_range : forall x, - two63 <= s64 x < two63.
Proof.
  intros x. unfold s64. unfold two63, two64 in *.
  destruct (x mod 18446744073709551616 <? 9223372036854775808) eqn:E;
    Z.div_mod_to_equations; lia.
Qed.

Lemma s64_mod : forall x, s64 (x mod two64) = s64 x.
Proof. intros x. unfold s64. rewrite Z.mod_mod; [reflexivity|]. unfold two64; lia. Qed.

Lemma s64_u64 : forall x, s64 (u64 x) = s64 x.
Proof. intros. unfold u64. apply s64_mod. Qed.

Lemma s64_u64_small : forall x, - two63 <= x < two63 -> s64 (u64 x) = x.
Proof. intros. rewrite s64_u64. apply s64_small; assumption. Qed.

Lemma decode_encode : forall k x, decode_le (encode_le k x) = x mod 256 ^ Z.of_nat k.
Proof.
  induction k; intros x.
  - simpl. rewrite Z.mod_1_r. reflexivity.
  - rewrite Nat2Z.inj_succ, Z.pow_succ_r by lia.
    cbn [encode_le decode_le]. rewrite IHk.
    rewrite Z.mod_mod by lia.
    rewrite Z.rem_mul_r; [reflexivity | lia | ].
    apply Z.pow_pos_nonneg; lia.
Qed.

Lemma length_encode_le : forall k x, length (encode_le k x) = k.
Proof. induction k; intros; simpl; [reflexivity | rewrite IHk; reflexivity]. Qed.

Lemma length_enc8 : forall x, length (enc8 x) = 8%nat.
Proof. intros. apply length_encode_le. Qed.

Lemma udec_enc8 : forall x, 0 <= x < two64 -> udec (enc8 x) = x.
Proof.
  intros. unfold udec, enc8. rewrite decode_encode, two64_pow.
  apply Z.mod_small; assumption.
Qed.

Lemma sdec_enc8 : forall x, - two63 <= x < two63 -> sdec (enc8 x) = x.
Proof.
  intros. unfold sdec, enc8. rewrite decode_encode, two64_pow.
  rewrite s64_mod. apply s64_small; assumption.
Qed.

Lemma sdec_range : forall bs, - two63 <= sdec bs < two63.
Proof. intros. apply s64_range. Qed.

(* ---- list helpers *)
Lemma skipn_app_len : forall {A} (a r : list A), skipn (length a) (a ++ r) = r.
Proof. induction a; intros; simpl; auto. Qed.

Lemma firstn_app_len : forall {A} (a r : list A), firstn (length a) (a ++ r) = a.
Proof. induction a; intros; simpl; [reflexivity | rewrite IHa; reflexivity]. Qed.

Lemma sub_bytes_app : forall a b c,
  Z.of_nat (length a) < two63 ->
  sub_bytes (a ++ b ++ c) (Z.of_nat (length a)) (Z.of_nat (length b)) = Some b.
Proof.
  intros a b c Ha. unfold sub_bytes.
  rewrite s64_small by (unfold two63 in *; lia).
  destruct (Z.of_nat (length a) <? 0) eqn:E1; [lia|].
  destruct (Z.of_nat (length b) <=? 0) eqn:E2.
  - destruct b; [reflexivity | simpl in E2; lia].
  - rewrite !app_length.
    destruct (Z.of_nat (length a) + Z.of_nat (length b) <=?
              Z.of_nat (length a + (length b + length c))) eqn:E3; [|lia].
    rewrite !Nat2Z.id. rewrite skipn_app_len, firstn_app_len. reflexivity.
Qed.

Lemma chunks_concat : forall w (l : list (list Z)),
  Forall (fun g => length g = w) l -> chunks w (length l) (concat l) = l.
Proof.
  induction l; intros H; simpl; [reflexivity|].
  inversion H; subst. rewrite firstn_app_len, skipn_app_len, IHl by assumption. reflexivity.
Qed.

Lemma length_chunks : forall w k bs, length (chunks w k bs) = k.
Proof. induction k; intros; simpl; [reflexivity | rewrite IHk; reflexivity]. Qed.

Lemma chunks_enc8 : forall l k,
  Forall (fun x => - two63 <= x < two63) l -> k = length l ->
  map sdec (chunks 8 k (flat_map enc8 l)) = l.
Proof.
  intros l k H ->. rewrite flat_map_concat_map.
  replace (length l) with (length (map enc8 l)) by apply map_length.
  rewrite chunks_concat.
  - rewrite map_map. induction H; simpl; [reflexivity|].
    rewrite sdec_enc8 by assumption. f_equal. assumption.
  - apply Forall_forall. intros g Hg. apply in_map_iff in Hg. destruct Hg as [x [<- _]].
    apply length_enc8.
Qed.

Lemma length_flat_map_enc8 : forall l, length (flat_map enc8 l) = (8 * length l)%nat.
Proof.
  induction l; cbn [flat_map length]; [reflexivity|]. rewrite app_length, IHl, length_enc8. lia.
Qed.

Lemma length_concat_w : forall w (l : list (list Z)),
  Forall (fun g => length g = w) l -> length (concat l) = (w * length l)%nat.
Proof.
  induction l; intros H; simpl; [lia|]. inversion H; subst.
  rewrite app_length, IHl by assumption. lia.
Qed.

(* ================================================================== sort_row / sort_all facts *)
Lemma ins_left_perm : forall {V} (x : Z * V) racc, Permutation (ins_left x racc) (x :: racc).
Proof.
  induction racc as [|y ys IH]; simpl; [apply Permutation_refl|].
  destruct (fst y >? fst x).
  - eapply perm_trans; [apply perm_skip, IH | apply perm_swap].
  - apply Permutation_refl.
Qed.

Lemma fold_ins_perm : forall {V} (l acc : list (Z * V)),
  Permutation (fold_left (fun racc x => ins_left x racc) l acc) (l ++ acc).
Proof.
  induction l; simpl; intros; [apply Permutation_refl|].
  eapply perm_trans; [apply IHl|].
  eapply perm_trans; [apply Permutation_app_head, ins_left_perm|].
  apply Permutation_sym, Permutation_middle.
Qed.

Lemma sort_row_perm : forall {V} (l : list (Z * V)), Permutation (sort_row l) l.
Proof.
  intros. unfold sort_row.
  eapply perm_trans; [apply Permutation_sym, Permutation_rev|].
  eapply perm_trans; [apply fold_ins_perm|]. rewrite app_nil_r. apply Permutation_refl.
Qed.

Lemma sort_row_length : forall {V} (l : list (Z * V)), length (sort_row l) = length l.
Proof. intros. apply Permutation_length, sort_row_perm. Qed.

Lemma sort_row_short : forall {V} (l : list (Z * V)), (length l < 2)%nat -> sort_row l = l.
Proof.
  intros V l H. destruct l as [|x [|y l]]; try reflexivity. simpl in H. lia.
Qed.

Lemma s32_small : forall x, 0 <= x < 2147483648 -> s32 x = x.
Proof.
  intros x H. unfold s32. rewrite Z.mod_small by lia.
  destruct (x <? 2147483648) eqn:E; lia.
Qed.

Lemma sort_slice_app : forall pre mid post,
  sort_slice (pre ++ mid ++ post) (Z.of_nat (length pre)) (Z.of_nat (length mid))
  = Ok (pre ++ sort_row mid ++ post).
Proof.
  intros. unfold sort_slice.
  destruct (Z.of_nat (length mid) <? 2) eqn:E.
  - rewrite sort_row_short by lia. reflexivity.
  - rewrite !app_length.
    destruct ((0 <=? Z.of_nat (length pre)) &&
              (Z.of_nat (length pre) + Z.of_nat (length mid) <=?
               Z.of_nat (length pre + (length mid + length post)))) eqn:E2; [|lia].
    rewrite !Nat2Z.id.
    replace (skipn (length pre + length mid) (pre ++ mid ++ post)) with post
      by (rewrite app_assoc, <- app_length, skipn_app_len; reflexivity).
    rewrite skipn_app_len, !firstn_app_len. reflexivity.
Qed.

Lemma split3 : forall {A} (cv : list A) b l, (b + l <= length cv)%nat ->
  exists pre mid post, cv = pre ++ mid ++ post /\ length pre = b /\ length mid = l.
Proof.
  intros A cv b l H.
  exists (firstn b cv), (firstn l (skipn b cv)), (skipn l (skipn b cv)).
  rewrite !firstn_skipn. split; [reflexivity|].
  split; rewrite firstn_length_le; try reflexivity; try lia.
  rewrite skipn_length. lia.
Qed.

Lemma sort_slice_ok : forall cv beg len,
  0 <= beg -> 0 <= len -> beg + len <= Z.of_nat (length cv) ->
  exists cv', sort_slice cv beg len = Ok cv' /\ Permutation cv' cv.
Proof.
  intros cv beg len H0 H1 H2.
  destruct (split3 cv (Z.to_nat beg) (Z.to_nat len)) as [pre [mid [post [-> [Hp Hm]]]]]; [lia|].
  replace beg with (Z.of_nat (length pre)) by lia.
  replace len with (Z.of_nat (length mid)) by lia.
  rewrite sort_slice_app. eexists; split; [reflexivity|].
  apply Permutation_app_head, Permutation_app_tail, sort_row_perm.
Qed.

Lemma monotone_cons2 : forall a b tl, monotone (a :: b :: tl) = ((a <=? b) && monotone (b :: tl)).
Proof. reflexivity. Qed.

Lemma sort_all_cons2 : forall a b tl cv,
  sort_all (a :: b :: tl) cv = bind (sort_slice cv a (s32 (b - a))) (fun cv' => sort_all (b :: tl) cv').
Proof. reflexivity. Qed.

Lemma sort_all_ok : forall ptr cv,
  monotone ptr = true ->
  (forall x, In x ptr -> 0 <= x <= Z.of_nat (length cv)) ->
  Z.of_nat (length cv) < 2147483648 ->
  exists cv', sort_all ptr cv = Ok cv' /\ Permutation cv' cv.
Proof.
  induction ptr as [|beg tl IH]; intros cv Hm Hin Hlen.
  - exists cv; split; [reflexivity | apply Permutation_refl].
  - destruct tl as [|en tl].
    + exists cv; split; [reflexivity | apply Permutation_refl].
    + rewrite monotone_cons2 in Hm. apply andb_prop in Hm. destruct Hm as [Hle Hm].
      assert (Hb := Hin beg (or_introl eq_refl)).
      assert (He := Hin en (or_intror (or_introl eq_refl))).
      rewrite sort_all_cons2. rewrite s32_small by lia.
      destruct (sort_slice_ok cv beg (en - beg)) as [cv1 [E1 P1]]; try lia.
      rewrite E1. cbn [bind].
      assert (L1 : length cv1 = length cv) by (apply Permutation_length; assumption).
      destruct (IH cv1 Hm) as [cv2 [E2 P2]].
      * intros x Hx. rewrite L1. apply Hin. right; assumption.
      * rewrite L1; assumption.
      * exists cv2. split; [assumption|]. eapply perm_trans; eassumption.
Qed.

(* ---- monotone lists *)
Lemma monotone_ge : forall l a, monotone (a :: l) = true -> forall x, In x (a :: l) -> a <= x.
Proof.
  induction l as [|b l IH]; intros a Hm x Hx.
  - destruct Hx as [<-|[]]. lia.
  - rewrite monotone_cons2 in Hm. apply andb_prop in Hm. destruct Hm as [Hle Hm].
    destruct Hx as [<-|Hx]; [lia|]. specialize (IH b Hm x Hx). lia.
Qed.

Lemma last_in : forall (l : list Z) a d, In (last (a :: l) d) (a :: l).
Proof.
  induction l as [|b l IH]; intros a d.
  - left; reflexivity.
  - right. change (last (a :: b :: l) d) with (last (b :: l) d). apply IH.
Qed.

Lemma monotone_le_last : forall l a, monotone (a :: l) = true ->
  forall x, In x (a :: l) -> x <= last (a :: l) 0.
Proof.
  induction l as [|b l IH]; intros a Hm x Hx.
  - destruct Hx as [<-|[]]. simpl. lia.
  - change (last (a :: b :: l) 0) with (last (b :: l) 0).
    rewrite monotone_cons2 in Hm. apply andb_prop in Hm. destruct Hm as [Hle Hm].
    destruct Hx as [<-|Hx].
    + specialize (IH b Hm b (or_introl eq_refl)). lia.
    + apply IH; assumption.
Qed.

Lemma monotone_map_sub : forall l c, monotone (map (fun p => p - c) l) = monotone l.
Proof.
  induction l as [|a l IH]; intros c; [reflexivity|].
  destruct l as [|b l]; [reflexivity|].
  change (map (fun p => p - c) (a :: b :: l)) with ((a - c) :: map (fun p => p - c) (b :: l)).
  change (map (fun p => p - c) (b :: l)) with ((b - c) :: map (fun p => p - c) l) at 1.
  rewrite !monotone_cons2. change ((b - c) :: map (fun p => p - c) l) with (map (fun p => p - c) (b :: l)).
  rewrite IH. f_equal. lia.
Qed.

Lemma last_map_ne : forall {A B} (f : A -> B) l a d d', last (map f (a :: l)) d = f (last (a :: l) d').
Proof.
  induction l as [|b l IH]; intros a d d'; [reflexivity|].
  change (last (map f (a :: b :: l)) d) with (last (map f (b :: l)) d).
  change (last (a :: b :: l) d') with (last (b :: l) d'). apply IH.
Qed.

(* ================================================================== A5: the checked reader is safe *)
Definition in_s64 (x : Z) : Prop := - two63 <= x < two63.

Lemma read_words_some : forall f off c l, read_words f off c = Some l ->
  length l = Z.to_nat c /\ Forall in_s64 l.
Proof.
  intros f off c l H. unfold read_words in H.
  destruct (sub_bytes f off (c * 8)) as [bs|]; [|discriminate].
  inversion H; subst. split.
  - rewrite map_length, length_chunks. reflexivity.
  - apply Forall_forall. intros x Hx. apply in_map_iff in Hx. destruct Hx as [b [<- _]].
    apply sdec_range.
Qed.

Lemma read_vals_some : forall vw f off c l, read_vals vw f off c = Some l -> length l = Z.to_nat c.
Proof.
  intros vw f off c l H. unfold read_vals in H.
  destruct (sub_bytes f off (c * vw)) as [bs|]; [|discriminate].
  inversion H; subst. apply length_chunks.
Qed.

Lemma alloc_ok_8 : forall c, alloc_ok c 8 = true -> 0 <= c <= 33554432.
Proof. intros c H. unfold alloc_ok, alloc_cap in H. lia. Qed.

(* rebasing a monotone, non-negative, in-range ptr *)
Lemma rebase_facts : forall p0 rest,
  0 <= p0 -> monotone (p0 :: rest) = true -> Forall in_s64 (p0 :: rest) ->
  let ptr := p0 :: rest in
  let ptr' := map (fun p => s64 (p - p0)) ptr in
  ptr' = map (fun p => p - p0) ptr /\
  monotone ptr' = true /\
  last ptr' 0 = last ptr 0 - p0 /\
  (forall x, In x ptr' -> 0 <= x <= last ptr 0 - p0).
Proof.
  intros p0 rest H0 Hm Hr ptr ptr'.
  assert (E : ptr' = map (fun p => p - p0) ptr).
  { unfold ptr'. apply map_ext_in. intros a Ha.
    assert (p0 <= a) by (eapply monotone_ge; eassumption).
    rewrite Forall_forall in Hr. specialize (Hr a Ha). unfold in_s64 in Hr.
    apply s64_small. unfold two63 in *. lia. }
  split; [exact E|]. rewrite E. split; [|split].
  - rewrite monotone_map_sub. exact Hm.
  - unfold ptr. exact (last_map_ne (fun p => p - p0) rest p0 0 0).
  - intros x Hx. apply in_map_iff in Hx. destruct Hx as [a [<- Ha]].
    assert (p0 <= a) by (eapply monotone_ge; eassumption).
    assert (a <= last ptr 0) by (apply monotone_le_last; assumption).
    lia.
Qed.

Theorem bin_read_checked_safe : forall n_signed vw f r0 r1, 0 < vw ->
  match read_crs true n_signed vw f r0 r1 with
  | Ok A => wf_flat A = true
  | Error e => e <> EOOB
  end.
Proof.
  intros ns vw f r0 r1 Hvw. unfold read_crs.
  destruct (sub_bytes f 0 8) as [nb|]; cbn [of_opt bind]; [|discriminate].
  cbv zeta.
  set (n := dec_size ns nb).
  set (R0 := if r0 <? 0 then 0 else r0). set (R1 := if r1 <? 0 then s64 n else r1).
  destruct ((0 <=? R0) && (R1 <=? s64 n)) eqn:G1; cbn [guard bind]; [|discriminate].
  cbn [negb orb].
  destruct (R0 <=? R1) eqn:G2; cbn [guard bind]; [|discriminate].
  destruct (alloc_ok (R1 - R0 + 1) 8) eqn:G3; cbn [guard bind]; [|discriminate].
  destruct (read_words f (u64 (8 + R0 * 8)) (R1 - R0 + 1)) as [ptr|] eqn:Ep;
    cbn [of_opt bind]; [|discriminate].
  destruct (sub_bytes f (u64 (8 + n * 8)) 8) as [nzb|]; cbn [of_opt bind]; [|discriminate].
  apply read_words_some in Ep. destruct Ep as [Lp Rp].
  destruct ptr as [|p0 rest].
  { exfalso. simpl in Lp. lia. }
  destruct ((0 <=? p0) && monotone (p0 :: rest) && (last (p0 :: rest) 0 <=? sdec nzb)) eqn:G4;
    cbn [guard bind]; [|discriminate].
  apply andb_prop in G4. destruct G4 as [G4 G4c]. apply andb_prop in G4. destruct G4 as [G4a G4b].
  destruct (rebase_facts p0 rest) as [E [Hm' [Hl' Hin']]]; [lia | assumption | assumption |].
  cbv zeta in E, Hm', Hl', Hin'.
  set (ptr' := map (fun p => s64 (p - p0)) (p0 :: rest)) in *.
  set (back := last ptr' 0) in *.
  destruct (alloc_ok back 8 && alloc_ok back vw) eqn:G5; cbn [guard bind]; [|discriminate].
  apply andb_prop in G5. destruct G5 as [G5a G5b]. apply alloc_ok_8 in G5a.
  match goal with |- context [read_words f ?o back] =>
    destruct (read_words f o back) as [col|] eqn:Ec; cbn [of_opt bind]; [|discriminate] end.
  match goal with |- context [read_vals vw f ?o back] =>
    destruct (read_vals vw f o back) as [val|] eqn:Ev; cbn [of_opt bind]; [|discriminate] end.
  apply read_words_some in Ec. destruct Ec as [Lc _]. apply read_vals_some in Ev.
  assert (Lcv : Z.of_nat (length (combine col val)) = back).
  { rewrite combine_length, Lc, Ev. lia. }
  destruct (sort_all_ok ptr' (combine col val)) as [cv' [Es Ps]].
  - assumption.
  - intros x Hx. rewrite Lcv. rewrite Hl'. apply Hin'. assumption.
  - lia.
  - rewrite Es. cbn [bind]. unfold wf_flat. cbn [f_ptr f_cv].
    assert (Lcv' : Z.of_nat (length cv') = back).
    { rewrite (Permutation_length Ps). assumption. }
    rewrite Lcv'. fold back. rewrite Hm'.
    assert (Hhd : exists t, ptr' = 0 :: t).
    { unfold ptr'. cbn [map]. rewrite Z.sub_diag. rewrite s64_small by (unfold two63; lia).
      eexists; reflexivity. }
    destruct Hhd as [t Ht]. rewrite Ht. lia.
Qed.

Theorem bin_readd_checked_safe : forall checked n_signed vw f r0 r1,
  read_dense checked n_signed vw f r0 r1 <> Error EOOB.
Proof.
  intros. unfold read_dense.
  destruct (sub_bytes f 0 8); cbn [of_opt bind]; [|discriminate].
  destruct (sub_bytes f 8 8); cbn [of_opt bind]; [|discriminate].
  cbv zeta.
  match goal with |- context [guard ?b ERange] => destruct b; cbn [guard bind]; [|discriminate] end.
  match goal with |- context [guard ?b ERange] => destruct b; cbn [guard bind]; [|discriminate] end.
  match goal with |- context [guard ?b EAlloc] => destruct b; cbn [guard bind]; [|discriminate] end.
  match goal with |- context [of_opt ?b EIO] => destruct b; cbn [of_opt bind]; discriminate end.
Qed.

(* ---- the reader as it is (checked = false): refutations by computation *)
Definition wit_vals : list (Z * list Z) := [(0, enc8 1); (1, enc8 2); (2, enc8 3)].
(* ptr = [0;1000;2;3]: sort_row(&col[0], &val[0], 1000) on 3-element vectors
   (AddressSanitizer: heap-buffer-overflow in the real code) *)
Definition wit_oob : list Z := write_crs (mkFlat 3 [0; 1000; 2; 3] wit_vals).
(* ptr = [0;2;1;3]: non-monotone ptr accepted silently *)
Definition wit_invalid : list Z := write_crs (mkFlat 3 [0; 2; 1; 3] wit_vals).
(* n = 1, row_beg = 2 > row_end = n = 1: chunk + 1 = 0, ptr.front() of an empty vector *)
Definition wit_range : list Z := write_crs (mkFlat 1 [0; 1] [(0, enc8 1)]).

Theorem bin_read_safe_refuted : exists f, read_crs false false 8 f (-1) (-1) = Error EOOB.
Proof. exists wit_oob. vm_compute. reflexivity. Qed.

Theorem bin_read_safe_refuted_checked_rejects :
  read_crs true false 8 wit_oob (-1) (-1) = Error EFormat.
Proof. vm_compute. reflexivity. Qed.

Theorem bin_read_invalid_refuted :
  exists f A, read_crs false false 8 f (-1) (-1) = Ok A /\ wf_flat A = false.
Proof.
  exists wit_invalid. eexists. split; [vm_compute; reflexivity | vm_compute; reflexivity].
Qed.

(* row_beg > row_end passes the only range precondition of the code (row_beg >= 0 &&
   row_end <= n); with row_end = row_beg - 1 the ptr vector is empty and ptr.front() is an
   out-of-bounds access; with row_end < row_beg - 1 resize(chunk + 1) throws (EAlloc). *)
Theorem bin_read_range_oob_refuted :
  exists f, read_crs false true 8 f 2 (-1) = Error EOOB /\
            read_crs false false 8 f 2 (-1) = Error EOOB /\
            read_crs false true 8 f 2 1 = Error EOOB /\
            read_crs false true 8 f 3 1 = Error EAlloc /\
            read_crs true true 8 f 2 (-1) = Error ERange.
Proof. exists wit_range. repeat split; vm_compute; reflexivity. Qed.

(* ================================================================== written files: infrastructure *)
Lemma monotone_tail : forall a l, monotone (a :: l) = true -> monotone l = true.
Proof.
  intros a [|b l] H; [reflexivity|]. rewrite monotone_cons2 in H. apply andb_prop in H. tauto.
Qed.

Lemma monotone_app : forall a b, monotone (a ++ b) = true -> monotone a = true /\ monotone b = true.
Proof.
  induction a as [|x a IH]; intros b H.
  - split; [reflexivity | exact H].
  - destruct a as [|y a].
    + split; [reflexivity|]. simpl app in H. eapply monotone_tail; eassumption.
    + change ((x :: y :: a) ++ b) with (x :: y :: (a ++ b)) in H.
      rewrite monotone_cons2 in H. apply andb_prop in H. destruct H as [Hxy H].
      change (y :: a ++ b) with ((y :: a) ++ b) in H.
      destruct (IH b H) as [H1 H2]. split; [|assumption].
      rewrite monotone_cons2, Hxy, H1. reflexivity.
Qed.

Lemma last_nth : forall (l : list Z) d, last l d = nth (pred (length l)) l d.
Proof.
  induction l as [|a l IH]; intros d; [reflexivity|].
  destruct l as [|b l]; [reflexivity|].
  change (last (a :: b :: l) d) with (last (b :: l) d). rewrite IH. reflexivity.
Qed.

Lemma ptr_split : forall (l : list Z) i j, (i <= j < length l)%nat ->
  let pb := firstn (S (j - i)) (skipn i l) in
  exists pa pc tl, l = pa ++ pb ++ pc /\ length pa = i /\ length pb = S (j - i) /\
                   pb = nth i l 0 :: tl /\ last pb 0 = nth j l 0.
Proof.
  intros l i j H pb.
  exists (firstn i l), (skipn (S (j - i)) (skipn i l)).
  assert (E : l = firstn i l ++ pb ++ skipn (S (j - i)) (skipn i l)).
  { unfold pb. rewrite !firstn_skipn. reflexivity. }
  assert (La : length (firstn i l) = i) by (rewrite firstn_length_le; lia).
  assert (Lb : length pb = S (j - i)).
  { unfold pb. rewrite firstn_length_le; [reflexivity|]. rewrite skipn_length. lia. }
  assert (Ni : nth i l 0 = nth 0 pb 0).
  { rewrite E at 1. rewrite app_nth2 by lia. rewrite La, Nat.sub_diag.
    rewrite app_nth1 by lia. reflexivity. }
  assert (Nj : nth j l 0 = nth (j - i) pb 0).
  { rewrite E at 1. rewrite app_nth2 by lia. rewrite La.
    rewrite app_nth1 by lia. reflexivity. }
  destruct pb as [|x tl] eqn:Epb; [simpl in Lb; lia|].
  exists tl. split; [exact E|]. split; [exact La|]. split; [exact Lb|]. split.
  - simpl in Ni. rewrite Ni. reflexivity.
  - rewrite last_nth, Nj, Lb. reflexivity.
Qed.

(* hypotheses on a matrix that is written to a file *)
Record written_ok (vw : Z) (A : flat) : Prop := mkWO {
  wo_wf  : wf_flat A = true;
  wo_n   : f_n A = Z.of_nat (length (f_ptr A)) - 1;
  wo_vw  : Forall (fun e => length (snd e) = Z.to_nat vw) (f_cv A);
  wo_col : Forall (fun e => in_s64 (fst e)) (f_cv A);
  wo_a1  : alloc_ok (f_n A + 1) 8 = true;
  wo_a2  : alloc_ok (Z.of_nat (length (f_cv A))) 8 = true;
  wo_a3  : alloc_ok (Z.of_nat (length (f_cv A))) vw = true
}.

Lemma wf_flat_facts : forall A, wf_flat A = true ->
  exists tl, f_ptr A = 0 :: tl /\ monotone (f_ptr A) = true /\
             last (f_ptr A) 0 = Z.of_nat (length (f_cv A)) /\
             (forall x, In x (f_ptr A) -> 0 <= x <= Z.of_nat (length (f_cv A))).
Proof.
  intros A H. unfold wf_flat in H. destruct (f_ptr A) as [|p0 tl] eqn:E; [discriminate|].
  apply andb_prop in H. destruct H as [H H3]. apply andb_prop in H. destruct H as [H1 H2].
  assert (p0 = 0) by lia. subst p0.
  exists tl. split; [reflexivity|]. split; [assumption|]. split; [lia|].
  intros x Hx. split.
  - eapply monotone_ge; eassumption.
  - assert (x <= last (0 :: tl) 0) by (apply monotone_le_last; assumption). lia.
Qed.

Definition wcols (cv : list (Z * list Z)) : list Z := flat_map (fun e => enc8 (fst e)) cv.
Definition wvals (cv : list (Z * list Z)) : list Z := flat_map snd cv.

Lemma wcols_app : forall a b, wcols (a ++ b) = wcols a ++ wcols b.
Proof. intros. apply flat_map_app. Qed.
Lemma wvals_app : forall a b, wvals (a ++ b) = wvals a ++ wvals b.
Proof. intros. apply flat_map_app. Qed.
Lemma wcols_eq : forall cv, wcols cv = flat_map enc8 (map fst cv).
Proof.
  induction cv; [reflexivity|]. unfold wcols in *. cbn [flat_map map]. rewrite IHcv. reflexivity.
Qed.
Lemma wvals_eq : forall cv, wvals cv = concat (map snd cv).
Proof. intros. unfold wvals. apply flat_map_concat_map. Qed.
Lemma length_wcols : forall cv, length (wcols cv) = (8 * length cv)%nat.
Proof. intros. rewrite wcols_eq, length_flat_map_enc8, map_length. reflexivity. Qed.
Lemma length_wvals : forall w cv, Forall (fun e => length (snd e) = w) cv ->
  length (wvals cv) = (w * length cv)%nat.
Proof.
  intros w cv H. rewrite wvals_eq, (length_concat_w w), map_length; [reflexivity|].
  apply Forall_forall. intros g Hg. apply in_map_iff in Hg. destruct Hg as [e [<- He]].
  rewrite Forall_forall in H. apply H; assumption.
Qed.

Lemma combine_fst_snd : forall {A B} (l : list (A * B)), combine (map fst l) (map snd l) = l.
Proof. induction l as [|[a b] l IH]; simpl; [reflexivity | rewrite IH; reflexivity]. Qed.

Lemma read_words_app : forall a l c,
  Z.of_nat (length a) < two63 -> Forall in_s64 l ->
  read_words (a ++ flat_map enc8 l ++ c) (Z.of_nat (length a)) (Z.of_nat (length l)) = Some l.
Proof.
  intros a l c Ha Hl. unfold read_words.
  replace (Z.of_nat (length l) * 8) with (Z.of_nat (length (flat_map enc8 l)))
    by (rewrite length_flat_map_enc8; lia).
  rewrite sub_bytes_app by assumption.
  rewrite chunks_enc8; [reflexivity | exact Hl | lia].
Qed.

Lemma read_wcols_app : forall a l c,
  Z.of_nat (length a) < two63 -> Forall (fun e => in_s64 (fst e)) l ->
  read_words (a ++ wcols l ++ c) (Z.of_nat (length a)) (Z.of_nat (length l)) = Some (map fst l).
Proof.
  intros a l c Ha Hl. rewrite wcols_eq.
  replace (length l) with (length (map fst l)) by apply map_length.
  apply read_words_app; [assumption|].
  apply Forall_forall. intros x Hx. apply in_map_iff in Hx. destruct Hx as [e [<- He]].
  rewrite Forall_forall in Hl. apply Hl; assumption.
Qed.

Lemma read_wvals_app : forall vw a l c,
  0 < vw -> Z.of_nat (length a) < two63 ->
  Forall (fun e => length (snd e) = Z.to_nat vw) l ->
  read_vals vw (a ++ wvals l ++ c) (Z.of_nat (length a)) (Z.of_nat (length l)) = Some (map snd l).
Proof.
  intros vw a l c Hvw Ha Hl. unfold read_vals.
  replace (Z.of_nat (length l) * vw) with (Z.of_nat (length (wvals l)))
    by (rewrite (length_wvals (Z.to_nat vw)) by assumption; lia).
  rewrite sub_bytes_app by assumption.
  rewrite wvals_eq, Nat2Z.id.
  replace (length l) with (length (map snd l)) by apply map_length.
  rewrite chunks_concat; [reflexivity|].
  apply Forall_forall. intros g Hg. apply in_map_iff in Hg. destruct Hg as [e [<- He]].
  rewrite Forall_forall in Hl. apply Hl; assumption.
Qed.

(* ---- header stage of read_crs on a file that starts with a written n and ptr *)
Lemma alloc_ok_le : forall c c' w, alloc_ok c w = true -> 0 <= c' <= c -> 0 < w -> alloc_ok c' w = true.
Proof.
  unfold alloc_ok. intros c c' w H H1 H2. assert (c' * w <= c * w) by nia. lia.
Qed.

Lemma dec_size_enc8 : forall ns x, 0 <= x < two63 -> dec_size ns (enc8 x) = x.
Proof.
  intros ns x H. destruct ns; simpl dec_size.
  - apply sdec_enc8. unfold two63 in *; lia.
  - apply udec_enc8. unfold two63, two64 in *; lia.
Qed.

Lemma sub_bytes_head : forall x rest, sub_bytes (enc8 x ++ rest) 0 8 = Some (enc8 x).
Proof.
  intros. assert (H := sub_bytes_app [] (enc8 x) rest).
  rewrite length_enc8 in H. apply H. unfold two63; simpl; lia.
Qed.

Lemma read_crs_header : forall checked ns vw A rest rb re r0 r1,
  0 < vw -> written_ok vw A ->
  (if rb <? 0 then 0 else rb) = r0 -> (if re <? 0 then f_n A else re) = r1 ->
  0 <= r0 <= r1 -> r1 <= f_n A ->
  let f := enc8 (f_n A) ++ flat_map enc8 (f_ptr A) ++ rest in
  let Sl := slice_flat r0 r1 A in
  let b := nth (Z.to_nat r0) (f_ptr A) 0 in
  let cnt := nth (Z.to_nat r1) (f_ptr A) 0 - b in
  let nnz := Z.of_nat (length (f_cv A)) in
  0 <= b /\ 0 <= cnt /\ b + cnt <= nnz /\
  read_crs checked ns vw f rb re =
    bind (of_opt (read_words f (8 + (f_n A + 1) * 8 + b * 8) cnt) EIO) (fun col =>
    bind (of_opt (read_vals vw f (8 + (f_n A + 1) * 8 + nnz * 8 + b * vw) cnt) EIO) (fun val =>
    bind (sort_all (f_ptr Sl) (combine col val)) (fun cv => Ok (mkFlat (f_n A) (f_ptr Sl) cv)))).
Proof.
  intros checked ns vw A rest rb re r0 r1 Hvw [Hwf Hn Hvwf Hcol Ha1 Ha2 Ha3] Hr0 Hr1 Hr Hrn f Sl b cnt nnz.
  destruct (wf_flat_facts A Hwf) as [tl0 [Eptr [Hmono [Hlast Hin]]]].
  fold nnz in Hlast, Hin, Ha2, Ha3.
  assert (Hnb := alloc_ok_8 _ Ha1). assert (Hnnzb := alloc_ok_8 _ Ha2).
  remember (f_ptr A) as ptr eqn:Hptr. remember (f_n A) as n eqn:Hnn.
  destruct (ptr_split ptr (Z.to_nat r0) (Z.to_nat r1)) as [pa [pc [tl [Esplit [La [Lb [Epb Hlastpb]]]]]]]; [lia|].
  fold b in Epb. 
  remember (firstn (S (Z.to_nat r1 - Z.to_nat r0)) (skipn (Z.to_nat r0) ptr)) as pb eqn:Hpb.
  assert (Hinpb : forall x, In x pb -> 0 <= x <= nnz).
  { intros x Hx. apply Hin. rewrite Esplit. apply in_or_app. right. apply in_or_app. left. exact Hx. }
  assert (Hmpb : monotone pb = true).
  { rewrite Esplit in Hmono. apply monotone_app in Hmono. destruct Hmono as [_ Hm].
    apply monotone_app in Hm. tauto. }
  assert (He : nth (Z.to_nat r1) ptr 0 = last pb 0) by (symmetry; exact Hlastpb).
  assert (Hb0 : 0 <= b <= nnz) by (apply Hinpb; rewrite Epb; left; reflexivity).
  assert (Hbe : b <= last pb 0 <= nnz).
  { split.
    - rewrite Epb. eapply monotone_ge; [rewrite <- Epb; exact Hmpb | apply last_in].
    - apply Hinpb. rewrite Epb. apply last_in. }
  assert (Hcnt : cnt = last pb 0 - b) by (unfold cnt; rewrite He; reflexivity).
  split; [lia|]. split; [lia|]. split; [lia|].
  assert (R1 : sub_bytes f 0 8 = Some (enc8 n)) by apply sub_bytes_head.
  assert (R2 : read_words f (u64 (8 + r0 * 8)) (r1 - r0 + 1) = Some pb).
  { assert (Ef : f = (enc8 n ++ flat_map enc8 pa) ++ flat_map enc8 pb ++ (flat_map enc8 pc ++ rest)).
    { unfold f. rewrite Esplit at 1. rewrite !flat_map_app, <- !app_assoc. reflexivity. }
    rewrite Ef. rewrite u64_small by (unfold two64; lia).
    replace (8 + r0 * 8) with (Z.of_nat (length (enc8 n ++ flat_map enc8 pa)))
      by (rewrite app_length, length_enc8, length_flat_map_enc8; lia).
    replace (r1 - r0 + 1) with (Z.of_nat (length pb)) by lia.
    apply read_words_app.
    - rewrite app_length, length_enc8, length_flat_map_enc8. unfold two63; lia.
    - apply Forall_forall. intros x Hx. apply Hinpb in Hx. unfold in_s64, two63. lia. }
  assert (R3 : sub_bytes f (u64 (8 + n * 8)) 8 = Some (enc8 nnz)).
  { remember (removelast ptr) as rl eqn:Hrl.
    assert (Eptr2 : ptr = rl ++ [nnz]).
    { rewrite Hrl. rewrite <- Hlast. apply app_removelast_last. rewrite Eptr; discriminate. }
    assert (Lrl : length rl = Z.to_nat n).
    { assert (E := f_equal (@length Z) Eptr2). rewrite app_length in E. simpl in E. lia. }
    assert (Ef : f = (enc8 n ++ flat_map enc8 rl) ++ enc8 nnz ++ rest).
    { unfold f. rewrite Eptr2 at 1. rewrite flat_map_app. cbn [flat_map]. rewrite app_nil_r, <- !app_assoc.
      reflexivity. }
    rewrite Ef. rewrite u64_small by (unfold two64; lia).
    replace (8 + n * 8) with (Z.of_nat (length (enc8 n ++ flat_map enc8 rl)))
      by (rewrite app_length, length_enc8, length_flat_map_enc8; lia).
    replace 8 with (Z.of_nat (length (enc8 nnz))) at 2 by (rewrite length_enc8; reflexivity).
    apply sub_bytes_app. rewrite app_length, length_enc8, length_flat_map_enc8. unfold two63; lia. }
  match goal with |- _ = ?R => set (RHS := R) end.
  unfold read_crs. rewrite R1. cbn [of_opt bind]. cbv zeta.
  rewrite dec_size_enc8 by (unfold two63; lia).
  rewrite Hr0. rewrite (s64_small n) by (unfold two63; lia). rewrite Hr1.
  replace ((0 <=? r0) && (r1 <=? n)) with true by lia. cbn [guard bind].
  replace (negb checked || (r0 <=? r1)) with true by (destruct checked; simpl; lia). cbn [guard bind].
  rewrite (alloc_ok_le (n + 1) (r1 - r0 + 1) 8) by (assumption || lia). cbn [guard bind].
  rewrite R2, R3. cbn [of_opt bind].
  rewrite sdec_enc8 by (unfold two63; lia).
  assert (Hrb : Forall in_s64 (b :: tl)).
  { rewrite <- Epb. apply Forall_forall. intros x Hx. apply Hinpb in Hx. unfold in_s64, two63. lia. }
  assert (Hmb : monotone (b :: tl) = true) by (rewrite <- Epb; exact Hmpb).
  destruct (rebase_facts b tl) as [E [Hm' [Hl' Hin']]]; [lia | assumption | assumption |].
  cbv zeta in E, Hm', Hl', Hin'. rewrite <- Epb in E, Hm', Hl', Hin'.
  rewrite Epb at 1. cbv beta iota.
  rewrite Hl', E, <- Hcnt.
  replace (negb checked || (0 <=? b) && monotone pb && (last pb 0 <=? nnz)) with true
    by (rewrite Hmpb; destruct checked; simpl; lia).
  cbn [guard bind].
  rewrite (alloc_ok_le nnz cnt 8), (alloc_ok_le nnz cnt vw) by (assumption || lia).
  cbn [andb guard bind].
  replace (if ns then b else u64 b) with b
    by (destruct ns; [reflexivity | symmetry; apply u64_small; unfold two64; lia]).
  assert (0 <= b * vw <= nnz * vw) by nia.
  assert (Hvb : nnz * vw <= 268435456) by (unfold alloc_ok, alloc_cap in Ha3; lia).
  rewrite !u64_small by (unfold two64; lia).
  unfold RHS.
  assert (ESl : f_ptr Sl = map (fun p => p - b) pb).
  { unfold Sl, slice_flat. cbn [f_ptr]. rewrite <- Hptr. fold b.
    replace (Z.to_nat (r1 - r0 + 1)) with (S (Z.to_nat r1 - Z.to_nat r0)) by lia.
    rewrite <- Hpb. reflexivity. }
  rewrite ESl. reflexivity.
Qed.

(* ---- read_crs on a written file: any row range *)
Lemma read_crs_written : forall checked ns vw A rb re r0 r1,
  0 < vw -> written_ok vw A ->
  (if rb <? 0 then 0 else rb) = r0 -> (if re <? 0 then f_n A else re) = r1 ->
  0 <= r0 <= r1 -> r1 <= f_n A ->
  let Sl := slice_flat r0 r1 A in
  read_crs checked ns vw (write_crs A) rb re =
    bind (sort_all (f_ptr Sl) (f_cv Sl)) (fun cv => Ok (mkFlat (f_n A) (f_ptr Sl) cv)).
Proof.
  intros checked ns vw A rb re r0 r1 Hvw HW Hr0 Hr1 Hr Hrn Sl.
  destruct (read_crs_header checked ns vw A (wcols (f_cv A) ++ wvals (f_cv A)) rb re r0 r1
              Hvw HW Hr0 Hr1 Hr Hrn) as [Hb [Hc [Hbc Heq]]].
  change (write_crs A) with
    (enc8 (f_n A) ++ flat_map enc8 (f_ptr A) ++ wcols (f_cv A) ++ wvals (f_cv A)).
  rewrite Heq. clear Heq. fold Sl.
  destruct HW as [Hwf Hn Hvwf Hcol Ha1 Ha2 Ha3].
  assert (Hnb := alloc_ok_8 _ Ha1). assert (Hnnzb := alloc_ok_8 _ Ha2).
  assert (Hvb : Z.of_nat (length (f_cv A)) * vw <= 268435456)
    by (unfold alloc_ok, alloc_cap in Ha3; lia).
  set (b := nth (Z.to_nat r0) (f_ptr A) 0) in *.
  set (cnt := nth (Z.to_nat r1) (f_ptr A) 0 - b) in *.
  remember (f_cv A) as cv eqn:Hcv. remember (f_ptr A) as ptr eqn:Hptr. remember (f_n A) as n eqn:Hnn.
  destruct (split3 cv (Z.to_nat b) (Z.to_nat cnt)) as [ca [cb [cc [Ecv [La Lb]]]]]; [lia|].
  assert (ESl : f_cv Sl = cb).
  { unfold Sl, slice_flat. cbn [f_cv]. rewrite <- Hptr, <- Hcv. fold b. fold cnt.
    rewrite Ecv, <- La, skipn_app_len, <- Lb, firstn_app_len. reflexivity. }
  rewrite ESl.
  rewrite Ecv in Hvwf, Hcol. apply Forall_app in Hvwf, Hcol.
  destruct Hvwf as [Hvwa Hvwf]. destruct Hcol as [_ Hcol].
  apply Forall_app in Hvwf, Hcol. destruct Hvwf as [Hvwb _]. destruct Hcol as [Hcolb _].
  assert (0 <= b * vw <= Z.of_nat (length cv) * vw) by nia.
  set (F := enc8 n ++ flat_map enc8 ptr ++ wcols cv ++ wvals cv).
  assert (R4 : read_words F (8 + (n + 1) * 8 + b * 8) cnt = Some (map fst cb)).
  { assert (Ef : F = (enc8 n ++ flat_map enc8 ptr ++ wcols ca) ++ wcols cb ++ (wcols cc ++ wvals cv)).
    { unfold F. rewrite Ecv at 1. rewrite !wcols_app, <- !app_assoc. reflexivity. }
    rewrite Ef.
    replace (8 + (n + 1) * 8 + b * 8) with (Z.of_nat (length (enc8 n ++ flat_map enc8 ptr ++ wcols ca)))
      by (rewrite !app_length, length_enc8, length_flat_map_enc8, length_wcols; lia).
    replace cnt with (Z.of_nat (length cb)) by lia.
    apply read_wcols_app; [|assumption].
    rewrite !app_length, length_enc8, length_flat_map_enc8, length_wcols. unfold two63; lia. }
  assert (R5 : read_vals vw F (8 + (n + 1) * 8 + Z.of_nat (length cv) * 8 + b * vw) cnt = Some (map snd cb)).
  { assert (Ef : F = (enc8 n ++ flat_map enc8 ptr ++ wcols cv ++ wvals ca) ++ wvals cb ++ wvals cc).
    { unfold F. rewrite Ecv at 2. rewrite !wvals_app, <- !app_assoc. reflexivity. }
    rewrite Ef.
    replace (8 + (n + 1) * 8 + Z.of_nat (length cv) * 8 + b * vw)
      with (Z.of_nat (length (enc8 n ++ flat_map enc8 ptr ++ wcols cv ++ wvals ca)))
      by (rewrite !app_length, length_enc8, length_flat_map_enc8, length_wcols,
            (length_wvals (Z.to_nat vw)) by assumption; nia).
    replace cnt with (Z.of_nat (length cb)) by lia.
    apply read_wvals_app; [assumption | | assumption].
    rewrite !app_length, length_enc8, length_flat_map_enc8, length_wcols,
      (length_wvals (Z.to_nat vw)) by assumption.
    unfold two63. nia. }
  rewrite R4, R5. cbn [of_opt bind]. rewrite combine_fst_snd. reflexivity.
Qed.

(* ================================================================== A1: write -> read round trip *)
Lemma slice_flat_full : forall vw A, written_ok vw A ->
  f_ptr (slice_flat 0 (f_n A) A) = f_ptr A /\ f_cv (slice_flat 0 (f_n A) A) = f_cv A.
Proof.
  intros vw A [Hwf Hn _ _ _ _ _].
  destruct (wf_flat_facts A Hwf) as [tl0 [Eptr [Hmono [Hlast Hin]]]].
  unfold slice_flat. cbn [f_ptr f_cv].
  change (Z.to_nat 0) with 0%nat. cbn [skipn].
  assert (Hb : nth 0 (f_ptr A) 0 = 0) by (rewrite Eptr; reflexivity).
  assert (He : nth (Z.to_nat (f_n A)) (f_ptr A) 0 = Z.of_nat (length (f_cv A))).
  { rewrite <- Hlast, last_nth. f_equal. lia. }
  rewrite Hb, He. split.
  - replace (Z.to_nat (f_n A - 0 + 1)) with (length (f_ptr A)) by lia.
    rewrite firstn_all. rewrite <- (map_id (f_ptr A)) at 2. apply map_ext. intros; lia.
  - replace (Z.to_nat (Z.of_nat (length (f_cv A)) - 0)) with (length (f_cv A)) by lia.
    apply firstn_all.
Qed.

Lemma sort_all_written : forall vw A, written_ok vw A ->
  exists cv', sort_all (f_ptr A) (f_cv A) = Ok cv' /\ Permutation cv' (f_cv A).
Proof.
  intros vw A [Hwf Hn _ _ _ Ha2 _].
  destruct (wf_flat_facts A Hwf) as [tl0 [Eptr [Hmono [Hlast Hin]]]].
  apply alloc_ok_8 in Ha2.
  apply sort_all_ok; [assumption | assumption | lia].
Qed.

Theorem bin_read_write_roundtrip : forall checked n_signed vw A,
  0 < vw ->
  wf_flat A = true ->
  f_n A = Z.of_nat (length (f_ptr A)) - 1 ->
  Forall (fun e => length (snd e) = Z.to_nat vw) (f_cv A) ->
  Forall (fun e => - two63 <= fst e < two63) (f_cv A) ->
  alloc_ok (f_n A + 1) 8 = true ->
  alloc_ok (Z.of_nat (length (f_cv A))) 8 = true ->
  alloc_ok (Z.of_nat (length (f_cv A))) vw = true ->
  exists cv', sort_all (f_ptr A) (f_cv A) = Ok cv' /\
    read_crs checked n_signed vw (write_crs A) (-1) (-1) = Ok (mkFlat (f_n A) (f_ptr A) cv').
Proof.
  intros checked ns vw A Hvw H1 H2 H3 H4 H5 H6 H7.
  assert (HW : written_ok vw A) by (constructor; assumption).
  destruct (sort_all_written vw A HW) as [cv' [Es _]].
  exists cv'. split; [exact Es|].
  assert (Hn0 : 0 <= f_n A).
  { destruct (wf_flat_facts A H1) as [tl0 [Eptr _]]. rewrite H2, Eptr. simpl length. lia. }
  rewrite (read_crs_written checked ns vw A (-1) (-1) 0 (f_n A)); try assumption; try reflexivity; try lia.
  destruct (slice_flat_full vw A HW) as [Ep Ec]. rewrite Ep, Ec, Es. reflexivity.
Qed.

Theorem bin_read_write_roundtrip_sorted : forall checked n_signed vw A,
  0 < vw ->
  wf_flat A = true ->
  f_n A = Z.of_nat (length (f_ptr A)) - 1 ->
  Forall (fun e => length (snd e) = Z.to_nat vw) (f_cv A) ->
  Forall (fun e => - two63 <= fst e < two63) (f_cv A) ->
  alloc_ok (f_n A + 1) 8 = true ->
  alloc_ok (Z.of_nat (length (f_cv A))) 8 = true ->
  alloc_ok (Z.of_nat (length (f_cv A))) vw = true ->
  sort_all (f_ptr A) (f_cv A) = Ok (f_cv A) ->
  read_crs checked n_signed vw (write_crs A) (-1) (-1) = Ok A.
Proof.
  intros checked ns vw A Hvw H1 H2 H3 H4 H5 H6 H7 Hs.
  destruct (bin_read_write_roundtrip checked ns vw A Hvw H1 H2 H3 H4 H5 H6 H7) as [cv' [Es Er]].
  rewrite Hs in Es. inversion Es; subst cv'. rewrite Er. destruct A; reflexivity.
Qed.

(* ================================================================== dense: round trip and row ranges *)
Lemma read_vals_app : forall vw a l c,
  0 < vw -> Z.of_nat (length a) < two63 ->
  Forall (fun g => length g = Z.to_nat vw) l ->
  read_vals vw (a ++ concat l ++ c) (Z.of_nat (length a)) (Z.of_nat (length l)) = Some l.
Proof.
  intros vw a l c Hvw Ha Hl. unfold read_vals.
  replace (Z.of_nat (length l) * vw) with (Z.of_nat (length (concat l)))
    by (rewrite (length_concat_w (Z.to_nat vw)) by assumption; lia).
  rewrite sub_bytes_app by assumption.
  rewrite Nat2Z.id. rewrite chunks_concat; [reflexivity | assumption].
Qed.

Lemma read_dense_written : forall checked ns vw n m v rb re r0 r1,
  0 < vw -> 0 <= n < two63 -> 0 <= m < two63 ->
  length v = Z.to_nat (n * m) ->
  Forall (fun g => length g = Z.to_nat vw) v ->
  alloc_ok (n * m) vw = true ->
  (if rb <? 0 then 0 else rb) = r0 -> (if re <? 0 then n else re) = r1 ->
  0 <= r0 <= r1 -> r1 <= n ->
  read_dense checked ns vw (write_dense n m v) rb re =
    Ok (mkBDense n m (firstn (Z.to_nat ((r1 - r0) * m)) (skipn (Z.to_nat (r0 * m)) v))).
Proof.
  intros checked ns vw n m v rb re r0 r1 Hvw Hn Hm Hlen Hw Ha Hr0 Hr1 Hr Hrn.
  assert (Hnm : 0 <= n * m /\ n * m * vw <= 268435456) by (unfold alloc_ok, alloc_cap in Ha; lia).
  assert (Hnm2 : n * m <= 268435456) by nia.
  assert (Hc1 : 0 <= r0 * m <= n * m) by nia.
  assert (Hc2 : 0 <= (r1 - r0) * m /\ r0 * m + (r1 - r0) * m <= n * m) by nia.
  assert (Hc3 : 0 <= r0 * m * vw <= n * m * vw) by nia.
  assert (Hc4 : 0 <= (r1 - r0) * m * vw <= n * m * vw) by nia.
  destruct (split3 v (Z.to_nat (r0 * m)) (Z.to_nat ((r1 - r0) * m))) as [va [vb [vc [Ev [La Lb]]]]]; [lia|].
  assert (Eres : firstn (Z.to_nat ((r1 - r0) * m)) (skipn (Z.to_nat (r0 * m)) v) = vb).
  { rewrite Ev, <- La, skipn_app_len, <- Lb, firstn_app_len. reflexivity. }
  rewrite Eres.
  assert (Hwb : Forall (fun g => length g = Z.to_nat vw) vb /\ Forall (fun g => length g = Z.to_nat vw) va).
  { rewrite Ev in Hw. apply Forall_app in Hw. destruct Hw as [Hwa Hw]. apply Forall_app in Hw. tauto. }
  destruct Hwb as [Hwb Hwa].
  unfold write_dense.
  set (F := enc8 n ++ enc8 m ++ concat v).
  assert (R1 : sub_bytes F 0 8 = Some (enc8 n)) by apply sub_bytes_head.
  assert (R2 : sub_bytes F 8 8 = Some (enc8 m)).
  { assert (H := sub_bytes_app (enc8 n) (enc8 m) (concat v)).
    rewrite !length_enc8 in H. apply H. unfold two63; simpl; lia. }
  assert (R3 : read_vals vw F (16 + r0 * m * vw) ((r1 - r0) * m) = Some vb).
  { assert (Ef : F = (enc8 n ++ enc8 m ++ concat va) ++ concat vb ++ concat vc).
    { unfold F. rewrite Ev. rewrite !concat_app, <- !app_assoc. reflexivity. }
    rewrite Ef.
    replace (16 + r0 * m * vw) with (Z.of_nat (length (enc8 n ++ enc8 m ++ concat va)))
      by (rewrite !app_length, !length_enc8, (length_concat_w (Z.to_nat vw)) by assumption; nia).
    replace ((r1 - r0) * m) with (Z.of_nat (length vb)) by lia.
    apply read_vals_app; [assumption | | assumption].
    rewrite !app_length, !length_enc8, (length_concat_w (Z.to_nat vw)) by assumption.
    unfold two63. nia. }
  unfold read_dense. rewrite R1, R2. cbn [of_opt bind]. cbv zeta.
  rewrite !dec_size_enc8 by lia.
  rewrite Hr0. rewrite (s64_small n) by (unfold two63 in *; lia). rewrite Hr1.
  replace ((0 <=? r0) && (r1 <=? n)) with true by lia. cbn [guard bind].
  replace (negb checked || (r0 <=? r1)) with true by (destruct checked; simpl; lia). cbn [guard bind].
  replace (if ns then s64 ((r1 - r0) * m) else u64 ((r1 - r0) * m)) with ((r1 - r0) * m)
    by (destruct ns; [rewrite s64_small | rewrite u64_small]; unfold two63, two64 in *; lia).
  rewrite (alloc_ok_le (n * m) ((r1 - r0) * m) vw) by (assumption || lia). cbn [guard bind].
  rewrite u64_small by (unfold two64; lia).
  rewrite R3. reflexivity.
Qed.

Theorem bin_readd_range_is_slice : forall checked n_signed vw n m v r0 r1,
  0 < vw -> 0 <= n < two63 -> 0 <= m < two63 ->
  length v = Z.to_nat (n * m) ->
  Forall (fun g => length g = Z.to_nat vw) v ->
  alloc_ok (n * m) vw = true ->
  0 <= r0 <= r1 -> r1 <= n ->
  read_dense checked n_signed vw (write_dense n m v) r0 r1 =
    Ok (mkBDense n m (firstn (Z.to_nat ((r1 - r0) * m)) (skipn (Z.to_nat (r0 * m)) v))).
Proof.
  intros. apply read_dense_written; try assumption.
  - destruct (r0 <? 0) eqn:E; lia.
  - destruct (r1 <? 0) eqn:E; lia.
Qed.

Theorem bin_readd_write_roundtrip : forall checked n_signed vw n m v,
  0 < vw -> 0 <= n < two63 -> 0 <= m < two63 ->
  length v = Z.to_nat (n * m) ->
  Forall (fun g => length g = Z.to_nat vw) v ->
  alloc_ok (n * m) vw = true ->
  read_dense checked n_signed vw (write_dense n m v) (-1) (-1) = Ok (mkBDense n m v).
Proof.
  intros checked ns vw n m v Hvw Hn Hm Hlen Hw Ha.
  rewrite (read_dense_written checked ns vw n m v (-1) (-1) 0 n); try assumption; try reflexivity; try lia.
  replace (0 * m) with 0 by lia. change (Z.to_nat 0) with 0%nat. cbn [skipn].
  replace (Z.to_nat ((n - 0) * m)) with (length v) by (rewrite Hlen; f_equal; lia).
  rewrite firstn_all. reflexivity.
Qed.

(* ================================================================== A4: truncated files *)
Lemma sub_bytes_short : forall f off len,
  0 < len -> Z.of_nat (length f) < s64 off + len -> sub_bytes f off len = None.
Proof.
  intros f off len Hl Hs. unfold sub_bytes.
  destruct (s64 off <? 0); [reflexivity|].
  destruct (len <=? 0) eqn:E; [lia|].
  destruct (s64 off + len <=? Z.of_nat (length f)) eqn:E2; [lia | reflexivity].
Qed.

Lemma firstn_app_ge : forall {A} (a r : list A) k, (length a <= k)%nat ->
  firstn k (a ++ r) = a ++ firstn (k - length a) r.
Proof. intros. rewrite firstn_app, firstn_all2 by assumption. reflexivity. Qed.

Lemma length_write_crs : forall vw A, written_ok vw A -> 0 < vw ->
  Z.of_nat (length (write_crs A)) =
  8 + 8 * (f_n A + 1) + 8 * Z.of_nat (length (f_cv A)) + vw * Z.of_nat (length (f_cv A)).
Proof.
  intros vw A [Hwf Hn Hvwf Hcol Ha1 Ha2 Ha3] Hvw.
  change (write_crs A) with
    (enc8 (f_n A) ++ flat_map enc8 (f_ptr A) ++ wcols (f_cv A) ++ wvals (f_cv A)).
  rewrite !app_length, length_enc8, length_flat_map_enc8, length_wcols,
    (length_wvals (Z.to_nat vw)) by assumption.
  nia.
Qed.

Theorem bin_truncated_is_error : forall checked n_signed vw A (k : nat),
  0 < vw ->
  wf_flat A = true ->
  f_n A = Z.of_nat (length (f_ptr A)) - 1 ->
  Forall (fun e => length (snd e) = Z.to_nat vw) (f_cv A) ->
  Forall (fun e => - two63 <= fst e < two63) (f_cv A) ->
  alloc_ok (f_n A + 1) 8 = true ->
  alloc_ok (Z.of_nat (length (f_cv A))) 8 = true ->
  alloc_ok (Z.of_nat (length (f_cv A))) vw = true ->
  (k < length (write_crs A))%nat ->
  is_exception (read_crs checked n_signed vw (firstn k (write_crs A)) (-1) (-1)) = true.
Proof.
  intros checked ns vw A k Hvw H1 H2 H3 H4 H5 H6 H7 Hk.
  assert (HW : written_ok vw A) by (constructor; assumption).
  assert (HL := length_write_crs vw A HW Hvw).
  assert (Hn0 : 0 <= f_n A).
  { destruct (wf_flat_facts A H1) as [tl0 [Eptr _]]. rewrite H2, Eptr. simpl length. lia. }
  assert (Hnb := alloc_ok_8 _ H5). assert (Hnnzb := alloc_ok_8 _ H6).
  assert (Hvb : Z.of_nat (length (f_cv A)) * vw <= 268435456)
    by (unfold alloc_ok, alloc_cap in H7; lia).
  assert (Lf : length (firstn k (write_crs A)) = k) by (apply firstn_length_le; lia).
  set (nnz := Z.of_nat (length (f_cv A))) in *.
  set (n := f_n A) in *.
  destruct (Z_lt_le_dec (Z.of_nat k) 8) as [C1|C1].
  { (* inside n *)
    unfold read_crs. rewrite sub_bytes_short; [reflexivity | lia |].
    rewrite Lf. rewrite s64_small by (unfold two63; lia). lia. }
  change (write_crs A) with
    (enc8 n ++ flat_map enc8 (f_ptr A) ++ wcols (f_cv A) ++ wvals (f_cv A)) in *.
  destruct (Z_lt_le_dec (Z.of_nat k) (8 + 8 * (n + 1))) as [C2|C2].
  { (* inside ptr *)
    rewrite firstn_app_ge in * by (rewrite length_enc8; lia).
    unfold read_crs. rewrite sub_bytes_head. cbn [of_opt bind]. cbv zeta.
    rewrite dec_size_enc8 by (unfold two63; lia).
    change (-1 <? 0) with true. cbv iota.
    rewrite (s64_small n) by (unfold two63; lia).
    replace ((0 <=? 0) && (n <=? n)) with true by lia. cbn [guard bind].
    replace (negb checked || (0 <=? n)) with true by (destruct checked; simpl; lia). cbn [guard bind].
    replace (n - 0 + 1) with (n + 1) by lia. rewrite H5. cbn [guard bind].
    unfold read_words at 1. rewrite sub_bytes_short; [reflexivity | lia |].
    rewrite Lf. rewrite s64_u64_small by (unfold two63; lia). lia. }
  (* n and ptr are complete *)
  rewrite firstn_app_ge in * by (rewrite length_enc8; lia).
  rewrite firstn_app_ge in * by (rewrite length_enc8, length_flat_map_enc8; lia).
  match goal with |- context [firstn ?j (wcols _ ++ _)] => set (rest := firstn j (wcols (f_cv A) ++ wvals (f_cv A))) in * end.
  destruct (read_crs_header checked ns vw A rest (-1) (-1) 0 n Hvw HW) as [Hb [Hc [Hbc Heq]]];
    try reflexivity; try lia.
  fold n in Heq. rewrite Heq. clear Heq.
  assert (Eb : nth (Z.to_nat 0) (f_ptr A) 0 = 0).
  { destruct (wf_flat_facts A H1) as [tl0 [Eptr _]]. rewrite Eptr. reflexivity. }
  assert (Ee : nth (Z.to_nat n) (f_ptr A) 0 = nnz).
  { destruct (wf_flat_facts A H1) as [tl0 [_ [_ [Hlast _]]]]. fold nnz in Hlast.
    rewrite <- Hlast, last_nth. f_equal. lia. }
  rewrite Eb, Ee. replace (nnz - 0) with nnz by lia.
  assert (Hnnz : 0 < nnz) by lia.
  set (F := enc8 n ++ flat_map enc8 (f_ptr A) ++ rest) in *.
  destruct (Z_lt_le_dec (Z.of_nat k) (8 + 8 * (n + 1) + 8 * nnz)) as [C3|C3].
  { (* inside col *)
    unfold read_words at 1. rewrite sub_bytes_short; [reflexivity | lia |].
    rewrite Lf. rewrite s64_small by (unfold two63; lia). lia. }
  destruct (read_words F (8 + (n + 1) * 8 + 0 * 8) nnz) as [col|]; cbn [of_opt bind]; [|reflexivity].
  unfold read_vals at 1. rewrite sub_bytes_short; [reflexivity | nia |].
  rewrite Lf. rewrite s64_small by (unfold two63; nia). nia.
Qed.

(* ================================================================== A2: a row-range read is the slice of the full read *)
Lemma sort_slice_frame : forall pre cv post beg len,
  0 <= beg -> 0 <= len -> beg + len <= Z.of_nat (length cv) ->
  exists c, sort_slice cv beg len = Ok c /\ length c = length cv /\
            sort_slice (pre ++ cv ++ post) (Z.of_nat (length pre) + beg) len = Ok (pre ++ c ++ post).
Proof.
  intros pre cv post beg len H0 H1 H2.
  destruct (split3 cv (Z.to_nat beg) (Z.to_nat len)) as [x [y [z [-> [Lx Ly]]]]]; [lia|].
  exists (x ++ sort_row y ++ z).
  replace beg with (Z.of_nat (length x)) by lia.
  replace len with (Z.of_nat (length y)) by lia.
  split; [apply sort_slice_app|]. split.
  - rewrite !app_length, sort_row_length. reflexivity.
  - replace (pre ++ (x ++ y ++ z) ++ post) with ((pre ++ x) ++ y ++ (z ++ post))
      by (rewrite <- !app_assoc; reflexivity).
    replace (Z.of_nat (length pre) + Z.of_nat (length x)) with (Z.of_nat (length (pre ++ x)))
      by (rewrite app_length; lia).
    rewrite sort_slice_app. rewrite <- !app_assoc. reflexivity.
Qed.

Lemma sort_all_frame : forall ptr pre cv post,
  monotone ptr = true ->
  (forall x, In x ptr -> Z.of_nat (length pre) <= x <= Z.of_nat (length pre) + Z.of_nat (length cv)) ->
  Z.of_nat (length cv) < 2147483648 ->
  exists c, sort_all (map (fun x => x - Z.of_nat (length pre)) ptr) cv = Ok c /\
            length c = length cv /\
            sort_all ptr (pre ++ cv ++ post) = Ok (pre ++ c ++ post).
Proof.
  induction ptr as [|beg tl IH]; intros pre cv post Hm Hin Hlen.
  - exists cv. repeat split; reflexivity.
  - destruct tl as [|en tl].
    + exists cv. repeat split; reflexivity.
    + rewrite monotone_cons2 in Hm. apply andb_prop in Hm. destruct Hm as [Hle Hm].
      assert (Hb := Hin beg (or_introl eq_refl)).
      assert (He := Hin en (or_intror (or_introl eq_refl))).
      set (d := Z.of_nat (length pre)) in *.
      change (map (fun x => x - d) (beg :: en :: tl))
        with ((beg - d) :: (en - d) :: map (fun x => x - d) tl).
      rewrite !sort_all_cons2.
      replace (en - d - (beg - d)) with (en - beg) by lia.
      rewrite s32_small by lia.
      destruct (sort_slice_frame pre cv post (beg - d) (en - beg)) as [c1 [E1 [L1 F1]]]; try lia.
      fold d in F1. replace (d + (beg - d)) with beg in F1 by lia.
      rewrite E1, F1. cbn [bind].
      change ((en - d) :: map (fun x => x - d) tl) with (map (fun x => x - d) (en :: tl)).
      destruct (IH pre c1 post Hm) as [c2 [E2 [L2 F2]]].
      * intros x Hx. rewrite L1. apply Hin. right; exact Hx.
      * rewrite L1. exact Hlen.
      * exists c2. split; [exact E2|]. split; [congruence | exact F2].
Qed.

Lemma sort_all_split : forall pa x pc cv,
  sort_all (pa ++ x :: pc) cv = bind (sort_all (pa ++ [x]) cv) (fun c => sort_all (x :: pc) c).
Proof.
  induction pa as [|a pa IH]; intros x pc cv.
  - reflexivity.
  - destruct pa as [|a2 pa].
    + change (([a] ++ x :: pc)) with (a :: x :: pc). change ([a] ++ [x]) with [a; x].
      rewrite !sort_all_cons2. destruct (sort_slice cv a (s32 (x - a))); reflexivity.
    + change ((a :: a2 :: pa) ++ x :: pc) with (a :: a2 :: (pa ++ x :: pc)).
      change ((a :: a2 :: pa) ++ [x]) with (a :: a2 :: (pa ++ [x])).
      rewrite !sort_all_cons2. destruct (sort_slice cv a (s32 (a2 - a))) as [c1|]; [|reflexivity].
      cbn [bind]. apply (IH x pc c1).
Qed.

Lemma monotone_le_last' : forall l, monotone l = true -> forall x, In x l -> x <= last l 0.
Proof. intros [|a l] H x Hx; [destruct Hx | apply monotone_le_last; assumption]. Qed.

Lemma sort_all_range : forall ptr cv pa pb pc b tl,
  ptr = pa ++ pb ++ pc -> pb = b :: tl ->
  monotone ptr = true ->
  (forall x, In x ptr -> 0 <= x <= Z.of_nat (length cv)) ->
  Z.of_nat (length cv) < 2147483648 ->
  let e := last pb 0 in
  exists cvf cb', sort_all ptr cv = Ok cvf /\
    sort_all (map (fun x => x - b) pb) (firstn (Z.to_nat (e - b)) (skipn (Z.to_nat b) cv)) = Ok cb' /\
    firstn (Z.to_nat (e - b)) (skipn (Z.to_nat b) cvf) = cb'.
Proof.
  intros ptr cv pa pb pc b tl Eptr Epb Hm Hin Hlen e.
  assert (Eq : pb = removelast pb ++ [e]).
  { apply app_removelast_last. rewrite Epb; discriminate. }
  remember (removelast pb) as q eqn:Hq. clear Hq.
  (* monotonicity of the three parts *)
  assert (M2 : monotone pb = true).
  { rewrite Eptr in Hm. apply monotone_app in Hm. destruct Hm as [_ Hm].
    apply monotone_app in Hm. tauto. }
  assert (M1 : monotone (pa ++ [b]) = true).
  { rewrite Eptr, Epb in Hm.
    replace (pa ++ (b :: tl) ++ pc) with ((pa ++ [b]) ++ (tl ++ pc)) in Hm
      by (rewrite <- app_assoc; reflexivity).
    apply monotone_app in Hm. tauto. }
  assert (M3 : monotone (e :: pc) = true).
  { rewrite Eptr, Eq in Hm.
    replace (pa ++ (q ++ [e]) ++ pc) with ((pa ++ q) ++ (e :: pc)) in Hm
      by (rewrite <- !app_assoc; reflexivity).
    apply monotone_app in Hm. tauto. }
  assert (Hinb : In b pb) by (rewrite Epb; left; reflexivity).
  assert (Hine : In e pb) by (unfold e; rewrite Epb; apply last_in).
  assert (Hpb_in : forall x, In x pb -> In x ptr).
  { intros x Hx. rewrite Eptr. apply in_or_app. right. apply in_or_app. left. exact Hx. }
  assert (Hb := Hin b (Hpb_in b Hinb)). assert (He := Hin e (Hpb_in e Hine)).
  assert (Hbe : b <= e).
  { eapply monotone_ge; [rewrite <- Epb; exact M2 | rewrite <- Epb; exact Hine]. }
  destruct (split3 cv (Z.to_nat b) (Z.to_nat (e - b))) as [ca [cb [cc [Ecv [La Lb]]]]]; [lia|].
  assert (Ecb : firstn (Z.to_nat (e - b)) (skipn (Z.to_nat b) cv) = cb).
  { rewrite Ecv, <- La, skipn_app_len, <- Lb, firstn_app_len. reflexivity. }
  rewrite Ecb.
  assert (Lcv : length cv = (length ca + (length cb + length cc))%nat)
    by (rewrite Ecv, !app_length; reflexivity).
  (* phase 1: rows before the range touch only ca *)
  destruct (sort_all_frame (pa ++ [b]) [] ca (cb ++ cc) M1) as [ca1 [_ [L1 F1]]].
  { intros x Hx. cbn [length]. 
    assert (x <= last (pa ++ [b]) 0) by (apply monotone_le_last'; assumption).
    rewrite last_last in H.
    assert (In x ptr).
    { rewrite Eptr, Epb. apply in_app_or in Hx. destruct Hx as [Hx|[<-|[]]].
      - apply in_or_app. left. exact Hx.
      - apply in_or_app. right. left. reflexivity. }
    apply Hin in H0. lia. }
  { lia. }
  cbn [app] in F1.
  (* phase 2: rows of the range touch only cb *)
  destruct (sort_all_frame pb ca1 cb cc M2) as [cb' [E2 [L2 F2]]].
  { intros x Hx.
    assert (b <= x) by (eapply monotone_ge; [rewrite <- Epb; exact M2 | rewrite <- Epb; exact Hx]).
    assert (x <= e) by (apply monotone_le_last'; assumption).
    lia. }
  { lia. }
  replace (Z.of_nat (length ca1)) with b in E2 by lia.
  (* phase 3: rows after the range touch only cc *)
  destruct (sort_all_frame (e :: pc) (ca1 ++ cb') cc [] M3) as [cc' [_ [L3 F3]]].
  { intros x Hx. rewrite app_length.
    assert (e <= x) by (eapply monotone_ge; eassumption).
    assert (In x ptr).
    { rewrite Eptr, Eq. destruct Hx as [<-|Hx].
      - apply in_or_app. right. apply in_or_app. left. apply in_or_app. right. left. reflexivity.
      - apply in_or_app. right. apply in_or_app. right. exact Hx. }
    apply Hin in H0. lia. }
  { lia. }
  rewrite !app_nil_r, <- !app_assoc in F3.
  exists (ca1 ++ cb' ++ cc'), cb'. split; [|split].
  - rewrite Eptr, Epb.
    change (pa ++ (b :: tl) ++ pc) with (pa ++ b :: (tl ++ pc)).
    rewrite sort_all_split. rewrite Ecv, F1. cbn [bind].
    change (b :: tl ++ pc) with ((b :: tl) ++ pc). rewrite <- Epb. rewrite Eq at 1.
    rewrite <- app_assoc. cbn [app]. rewrite sort_all_split, <- Eq, F2. cbn [bind].
    exact F3.
  - exact E2.
  - replace (Z.to_nat b) with (length ca1) by lia.
    rewrite skipn_app_len. replace (Z.to_nat (e - b)) with (length cb') by lia.
    apply firstn_app_len.
Qed.

Theorem bin_read_range_is_slice : forall checked n_signed vw A r0 r1,
  0 < vw ->
  wf_flat A = true ->
  f_n A = Z.of_nat (length (f_ptr A)) - 1 ->
  Forall (fun e => length (snd e) = Z.to_nat vw) (f_cv A) ->
  Forall (fun e => - two63 <= fst e < two63) (f_cv A) ->
  alloc_ok (f_n A + 1) 8 = true ->
  alloc_ok (Z.of_nat (length (f_cv A))) 8 = true ->
  alloc_ok (Z.of_nat (length (f_cv A))) vw = true ->
  0 <= r0 <= r1 -> r1 <= f_n A ->
  exists cvf cvr,
    sort_all (f_ptr A) (f_cv A) = Ok cvf /\
    read_crs checked n_signed vw (write_crs A) r0 r1
      = Ok (mkFlat (f_n A) (f_ptr (slice_flat r0 r1 A)) cvr) /\
    cvr = f_cv (slice_flat r0 r1 (mkFlat (f_n A) (f_ptr A) cvf)).
Proof.
  intros checked ns vw A r0 r1 Hvw H1 H2 H3 H4 H5 H6 H7 Hr Hrn.
  assert (HW : written_ok vw A) by (constructor; assumption).
  destruct (wf_flat_facts A H1) as [tl0 [Eptr [Hmono [Hlast Hin]]]].
  assert (Hnnzb := alloc_ok_8 _ H6).
  rewrite (read_crs_written checked ns vw A r0 r1 r0 r1); try assumption;
    [| destruct (r0 <? 0) eqn:E; lia | destruct (r1 <? 0) eqn:E; lia].
  unfold slice_flat. cbn [f_ptr f_cv f_n].
  destruct (ptr_split (f_ptr A) (Z.to_nat r0) (Z.to_nat r1)) as [pa [pc [tl [Esplit [La [Lb [Epb Hl]]]]]]]; [lia|].
  replace (Z.to_nat (r1 - r0 + 1)) with (S (Z.to_nat r1 - Z.to_nat r0)) by lia.
  remember (firstn (S (Z.to_nat r1 - Z.to_nat r0)) (skipn (Z.to_nat r0) (f_ptr A))) as pb eqn:Hpb.
  remember (nth (Z.to_nat r0) (f_ptr A) 0) as b eqn:Hb.
  destruct (sort_all_range (f_ptr A) (f_cv A) pa pb pc b tl Esplit Epb Hmono Hin) as [cvf [cb' [Ef [Er Es]]]];
    [lia|].
  rewrite Hl in Er, Es.
  exists cvf, cb'. split; [exact Ef|]. split.
  - rewrite Er. reflexivity.
  - symmetry. exact Es.
Qed.

Theorem bin_readd_truncated_is_error : forall checked n_signed vw n m v (k : nat),
  0 < vw -> 0 <= n < two63 -> 0 <= m < two63 ->
  length v = Z.to_nat (n * m) ->
  Forall (fun g => length g = Z.to_nat vw) v ->
  alloc_ok (n * m) vw = true ->
  (k < length (write_dense n m v))%nat ->
  is_exception (read_dense checked n_signed vw (firstn k (write_dense n m v)) (-1) (-1)) = true.
Proof.
  intros checked ns vw n m v k Hvw Hn Hm Hlen Hw Ha Hk.
  assert (Hnm : 0 <= n * m /\ n * m * vw <= 268435456) by (unfold alloc_ok, alloc_cap in Ha; lia).
  assert (Hnm2 : n * m <= 268435456) by nia.
  unfold write_dense in *.
  assert (HL : Z.of_nat (length (enc8 n ++ enc8 m ++ concat v)) = 16 + vw * (n * m)).
  { rewrite !app_length, !length_enc8, (length_concat_w (Z.to_nat vw)) by assumption. nia. }
  assert (Lf : length (firstn k (enc8 n ++ enc8 m ++ concat v)) = k) by (apply firstn_length_le; lia).
  destruct (Z_lt_le_dec (Z.of_nat k) 8) as [C1|C1].
  { unfold read_dense. rewrite sub_bytes_short; [reflexivity | lia |].
    rewrite Lf. rewrite s64_small by (unfold two63; lia). lia. }
  rewrite firstn_app_ge in * by (rewrite length_enc8; lia).
  destruct (Z_lt_le_dec (Z.of_nat k) 16) as [C2|C2].
  { unfold read_dense. rewrite sub_bytes_head. cbn [of_opt bind].
    rewrite sub_bytes_short; [reflexivity | lia |].
    rewrite Lf. rewrite s64_small by (unfold two63; lia). lia. }
  rewrite firstn_app_ge in * by (rewrite !length_enc8; lia).
  match goal with |- context [firstn ?j (concat v)] => set (rest := firstn j (concat v)) in * end.
  unfold read_dense. rewrite sub_bytes_head. cbn [of_opt bind].
  assert (R2 : sub_bytes (enc8 n ++ enc8 m ++ rest) 8 8 = Some (enc8 m)).
  { assert (H := sub_bytes_app (enc8 n) (enc8 m) rest).
    rewrite !length_enc8 in H. apply H. unfold two63; simpl; lia. }
  rewrite R2. cbn [of_opt bind]. cbv zeta.
  rewrite !dec_size_enc8 by lia.
  change (-1 <? 0) with true. cbv iota.
  rewrite (s64_small n) by (unfold two63 in *; lia).
  replace ((0 <=? 0) && (n <=? n)) with true by lia. cbn [guard bind].
  replace (negb checked || (0 <=? n)) with true by (destruct checked; simpl; lia). cbn [guard bind].
  replace (n - 0) with n by lia.
  replace (if ns then s64 (n * m) else u64 (n * m)) with (n * m)
    by (destruct ns; [rewrite s64_small | rewrite u64_small]; unfold two63, two64 in *; lia).
  rewrite Ha. cbn [guard bind].
  unfold read_vals. rewrite sub_bytes_short; [reflexivity | nia |].
  rewrite Lf. replace (0 * m * vw) with 0 by lia. rewrite s64_u64_small by (unfold two63; lia). nia.
Qed.

(* ================================================================== checked = false on inputs the repaired reader accepts *)
(* the reader as it is agrees with the repaired reader on every input the repaired reader accepts *)
Theorem bin_read_current_wf_input_safe : forall n_signed vw f r0 r1 A,
  read_crs true n_signed vw f r0 r1 = Ok A -> read_crs false n_signed vw f r0 r1 = Ok A.
Proof.
  intros ns vw f r0 r1 A H. unfold read_crs in *. cbn [negb orb] in *.
  destruct (sub_bytes f 0 8) as [nb|]; cbn [of_opt bind] in *; [|discriminate].
  cbv zeta in *.
  repeat first
    [ match type of H with context [guard ?b ?e] =>
        destruct b eqn:?; cbn [guard bind] in *; [|discriminate] end
    | match type of H with context [of_opt ?o ?e] =>
        destruct o eqn:?; cbn [of_opt bind] in *; [|discriminate] end
    | match type of H with context [match ?l with [] => _ | _ :: _ => _ end] =>
        destruct l; [discriminate|] end ].
  exact H.
Qed.

Corollary bin_read_current_wf_input_safe_wf : forall n_signed vw f r0 r1 A,
  0 < vw -> read_crs true n_signed vw f r0 r1 = Ok A ->
  read_crs false n_signed vw f r0 r1 = Ok A /\ wf_flat A = true.
Proof.
  intros ns vw f r0 r1 A Hvw H. split.
  - apply bin_read_current_wf_input_safe; exact H.
  - assert (S := bin_read_checked_safe ns vw f r0 r1 Hvw). rewrite H in S. exact S.
Qed.
