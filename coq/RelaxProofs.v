(* RelaxProofs.v -- proofs about the simple smoothers of Relax.v
   (damped Jacobi, SPAI-0, serial Gauss-Seidel), for every field.
   Dense semantics: [mget A i j] (duplicates add), [Ax A x i] (KernelsProofs). *)
From Amgcl Require Import Scalar Vec Crs Kernels KernelsProofs MatOps Relax.
From Coq Require Import ZifyBool.
Local Open Scope S_scope.

Section RelaxProofs.
Context {S : Scalar}.
Local Notation vec := (vec S).
Local Notation row := (row S).
Local Notation crs := (crs S).
Hypothesis Sft : Sfield S.
Hypothesis Seqb : seqb_spec S.
Add Field SField : Sft.
Local Notation Srt := (F_R Sft).

(* ------------------------------------------------------------------ *)
(* Helper definitions used in the statements                           *)

(* row i of A has exactly one stored entry with column i *)
Definition diag_unique (A : crs) (i : nat) : Prop :=
  length (filter (fun e : nat * S => Nat.eqb (fst e) i) (nth i (rows A) [])) = 1.

(* sum_j |a_ij|^2 over the stored entries of a row, left to right from zero *)
Definition row_norm2 (r : row) : S :=
  fold_left (fun acc e => acc + sabs (snd e) * sabs (snd e)) r s0.

(* ------------------------------------------------------------------ *)
(* indexed rows                                                        *)

Lemma indexed_length {X} (l : list X) : length (indexed l) = length l.
Proof. unfold indexed. rewrite combine_length, seq_length. lia. Qed.

Lemma indexed_nth {X} (l : list X) i d : i < length l ->
  nth i (indexed l) (0, d) = (i, nth i l d).
Proof.
  intros Hi. unfold indexed. rewrite combine_nth by apply seq_length.
  rewrite seq_nth by exact Hi. reflexivity.
Qed.

Lemma map_indexed_get (f : nat * row -> S) (l : list row) i : i < length l ->
  vget (map f (indexed l)) i = f (i, nth i l []).
Proof.
  intros Hi. unfold vget.
  rewrite (nth_indep _ s0 (f (0, []))) by (rewrite map_length, indexed_length; exact Hi).
  rewrite map_nth. rewrite indexed_nth by exact Hi. reflexivity.
Qed.

Lemma row_wf_nth (A : crs) i : wf A = true -> i < nrows A ->
  row_wf (ncols A) (nth i (rows A) []) = true.
Proof. intros Hwf Hi. apply forallb_nth; assumption. Qed.

(* ------------------------------------------------------------------ *)
(* the diagonal                                                        *)

Lemma rget_nofilter (r : row) i :
  length (filter (fun e : nat * S => Nat.eqb (fst e) i) r) = 0 -> rget r i = s0.
Proof.
  induction r as [|e r IH]; simpl; intro H; [reflexivity|].
  rewrite (rget_cons Srt). destruct (Nat.eqb (fst e) i); simpl in H; [discriminate|].
  rewrite IH by exact H. ring.
Qed.

Lemma first_col_unique (r : row) i :
  length (filter (fun e : nat * S => Nat.eqb (fst e) i) r) = 1 ->
  first_col r i = Some (rget r i).
Proof.
  induction r as [|[c v] r IH]; simpl; intro H; [discriminate|].
  rewrite (rget_cons Srt). simpl. destruct (Nat.eqb c i); simpl in H.
  - injection H as H. rewrite rget_nofilter by exact H. f_equal. ring.
  - rewrite IH by exact H. f_equal. ring.
Qed.

Lemma jacobi_setup_length (A : crs) (junk : vec) : length (jacobi_setup A junk) = nrows A.
Proof. unfold jacobi_setup, diagonal. rewrite map_length, indexed_length. reflexivity. Qed.

Lemma jacobi_setup_get (A : crs) (junk : vec) i :
  i < nrows A -> diag_unique A i -> mget A i i <> s0 ->
  vget (jacobi_setup A junk) i = sinv (mget A i i).
Proof.
  intros Hi Hu Hnz. unfold jacobi_setup, diagonal.
  rewrite map_indexed_get by exact Hi. cbn [fst snd].
  rewrite first_col_unique by exact Hu. unfold diag_val. fold (mget A i i).
  destruct (is_zero (mget A i i)) eqn:E; [|reflexivity].
  apply (is_zero_true Seqb) in E. contradiction.
Qed.

(* ------------------------------------------------------------------ *)
(* T1a: damped Jacobi                                                  *)

Lemma jacobi_sweep_gen (w : S) (dia : vec) (A : crs) (rhs x tmp : vec) i :
  wf A = true -> length dia = nrows A ->
  length rhs = nrows A -> length x = nrows A -> length tmp = nrows A -> i < nrows A ->
  vget (fst (jacobi_sweep w dia A rhs x tmp)) i =
  w * vget dia i * (vget rhs i - Ax A x i) + vget x i.
Proof.
  intros Hwf Hd Hr Hx Ht Hi. unfold jacobi_sweep. cbn [fst].
  rewrite (vmul_spec Srt Seqb) by (rewrite ?residual_length; congruence).
  rewrite (residual_spec Srt) by assumption. ring.
Qed.

Theorem jacobi_sweep_spec (w : S) (A : crs) (junk rhs x tmp : vec) i :
  wf A = true ->
  length rhs = nrows A -> length x = nrows A -> length tmp = nrows A -> i < nrows A ->
  diag_unique A i -> mget A i i <> s0 ->
  vget (fst (jacobi_sweep w (jacobi_setup A junk) A rhs x tmp)) i =
  vget x i + w * sinv (mget A i i) * (vget rhs i - Ax A x i).
Proof.
  intros Hwf Hr Hx Ht Hi Hu Hnz.
  rewrite jacobi_sweep_gen by (try apply jacobi_setup_length; assumption).
  rewrite jacobi_setup_get by assumption. ring.
Qed.

(* ------------------------------------------------------------------ *)
(* T1b: SPAI-0                                                         *)

(* After the repair of finding C06-spai0-no-conj spai0.hpp accumulates math::adjoint(a.value()) over the stored
   entries of row i with column i.  [rget_adj r j] is that sum as coded (no law of sadj needed); if sadj is additive
   and fixes zero it is sadj (rget r j) = the adjoint of the dense entry ([rget_adj_sadj]); for real value types
   (sadj = id) it is the dense entry itself ([rget_adj_id]). *)
Definition rget_adj (r : row) (j : nat) : S :=
  fold_left (fun acc (e : nat * S) => if Nat.eqb (fst e) j then acc + sadj (snd e) else acc) r s0.
Definition mget_adj (A : crs) (i j : nat) : S := rget_adj (nth i (rows A) []) j.

Lemma rget_adj_map (r : row) j : rget_adj r j = rget (map (fun e : nat * S => (fst e, sadj (snd e))) r) j.
Proof.
  unfold rget_adj, rget. generalize (@s0 S). induction r as [|e r IH]; intro a; simpl; [reflexivity|].
  apply IH.
Qed.

Lemma rget_adj_sadj (r : row) j :
  (forall a b : S, sadj (a + b) = sadj a + sadj b) -> sadj (@s0 S) = s0 ->
  rget_adj r j = sadj (rget r j).
Proof.
  intros Hadd H0. rewrite rget_adj_map. induction r as [|e r IH].
  - simpl. rewrite rget_nil. symmetry. exact H0.
  - cbn [map]. rewrite !(rget_cons Srt), Hadd, IH. cbn [fst snd].
    destruct (Nat.eqb (fst e) j); [reflexivity|]. rewrite H0. reflexivity.
Qed.

Lemma rget_adj_id (r : row) j : (forall a : S, sadj a = a) -> rget_adj r j = rget r j.
Proof.
  intro Hid. rewrite rget_adj_map. f_equal. rewrite <- (map_id r) at 2. apply map_ext.
  intros [c v]. cbn [fst snd]. rewrite Hid. reflexivity.
Qed.

Lemma spai0_fold i (r : row) (n d : S) :
  fold_left (fun (nd : S * S) (e : nat * S) =>
        let nv := sabs (snd e) in
        (if Nat.eqb (fst e) i then fst nd + sadj (snd e) else fst nd, snd nd + nv * nv)) r (n, d)
  = (fold_left (fun acc (e : nat * S) => if Nat.eqb (fst e) i then acc + sadj (snd e) else acc) r n,
     fold_left (fun acc (e : nat * S) => acc + sabs (snd e) * sabs (snd e)) r d).
Proof.
  revert n d; induction r as [|e r IH]; intros n d; simpl; [reflexivity|].
  rewrite IH. reflexivity.
Qed.

(* HISTORICAL: the formula of spai0.hpp before the repair (`num += v`, Relax.spai0_row_old) *)
Lemma spai0_fold_old i (r : row) (n d : S) :
  fold_left (fun (nd : S * S) (e : nat * S) =>
        let nv := sabs (snd e) in
        (if Nat.eqb (fst e) i then fst nd + snd e else fst nd, snd nd + nv * nv)) r (n, d)
  = (fold_left (fun acc (e : nat * S) => if Nat.eqb (fst e) i then acc + snd e else acc) r n,
     fold_left (fun acc (e : nat * S) => acc + sabs (snd e) * sabs (snd e)) r d).
Proof.
  revert n d; induction r as [|e r IH]; intros n d; simpl; [reflexivity|].
  rewrite IH. reflexivity.
Qed.

Lemma spai0_row_old_eq i (r : row) : spai0_row_old i r = sinv (row_norm2 r) * rget r i.
Proof. unfold spai0_row_old. rewrite spai0_fold_old. reflexivity. Qed.

(* as coded: no law of sadj *)
Lemma spai0_row_eq i (r : row) : spai0_row i r = sinv (row_norm2 r) * rget_adj r i.
Proof. unfold spai0_row. rewrite spai0_fold. reflexivity. Qed.

(* sadj additive, sadj 0 = 0 (complex numbers, blocks, reals): the adjoint of the dense diagonal entry *)
Lemma spai0_row_eq_sadj i (r : row) :
  (forall a b : S, sadj (a + b) = sadj a + sadj b) -> sadj (@s0 S) = s0 ->
  spai0_row i r = sinv (row_norm2 r) * sadj (rget r i).
Proof. intros Hadd H0. rewrite spai0_row_eq, (rget_adj_sadj r i Hadd H0). reflexivity. Qed.

(* real value types (sadj = id): unchanged by the repair *)
Lemma spai0_row_eq_id i (r : row) : (forall a : S, sadj a = a) ->
  spai0_row i r = sinv (row_norm2 r) * rget r i.
Proof. intro Hid. rewrite spai0_row_eq, (rget_adj_id r i Hid). reflexivity. Qed.

Lemma spai0_row_old_id i (r : row) : (forall a : S, sadj a = a) -> spai0_row i r = spai0_row_old i r.
Proof. intro Hid. rewrite (spai0_row_eq_id i r Hid), spai0_row_old_eq. reflexivity. Qed.

Lemma spai0_setup_length (A : crs) : length (spai0_setup A) = nrows A.
Proof. unfold spai0_setup. rewrite map_length, indexed_length. reflexivity. Qed.

Lemma spai0_setup_get (A : crs) i : i < nrows A ->
  vget (spai0_setup A) i = sinv (row_norm2 (nth i (rows A) [])) * mget_adj A i i.
Proof.
  intros Hi. unfold spai0_setup. rewrite map_indexed_get by exact Hi. cbn [fst snd].
  apply spai0_row_eq.
Qed.

Lemma spai0_setup_get_sadj (A : crs) i :
  (forall a b : S, sadj (a + b) = sadj a + sadj b) -> sadj (@s0 S) = s0 -> i < nrows A ->
  vget (spai0_setup A) i = sinv (row_norm2 (nth i (rows A) [])) * sadj (mget A i i).
Proof.
  intros Hadd H0 Hi. rewrite (spai0_setup_get A i Hi). unfold mget_adj, mget.
  rewrite (rget_adj_sadj _ i Hadd H0). reflexivity.
Qed.

Lemma spai0_setup_get_id (A : crs) i : (forall a : S, sadj a = a) -> i < nrows A ->
  vget (spai0_setup A) i = sinv (row_norm2 (nth i (rows A) [])) * mget A i i.
Proof.
  intros Hid Hi. rewrite (spai0_setup_get A i Hi). unfold mget_adj, mget.
  rewrite (rget_adj_id _ i Hid). reflexivity.
Qed.

Lemma spai0_sweep_gen (M : vec) (A : crs) (rhs x tmp : vec) i :
  wf A = true -> length M = nrows A ->
  length rhs = nrows A -> length x = nrows A -> length tmp = nrows A -> i < nrows A ->
  vget (fst (spai0_sweep M A rhs x tmp)) i =
  vget M i * (vget rhs i - Ax A x i) + vget x i.
Proof.
  intros Hwf Hd Hr Hx Ht Hi. unfold spai0_sweep. cbn [fst].
  rewrite (vmul_spec Srt Seqb) by (rewrite ?residual_length; congruence).
  rewrite (residual_spec Srt) by assumption. ring.
Qed.

Theorem spai0_sweep_spec (A : crs) (rhs x tmp : vec) i :
  wf A = true ->
  length rhs = nrows A -> length x = nrows A -> length tmp = nrows A -> i < nrows A ->
  vget (fst (spai0_sweep (spai0_setup A) A rhs x tmp)) i =
  vget x i + sinv (row_norm2 (nth i (rows A) [])) * mget_adj A i i * (vget rhs i - Ax A x i).
Proof.
  intros Hwf Hr Hx Ht Hi.
  rewrite spai0_sweep_gen by (try apply spai0_setup_length; assumption).
  rewrite spai0_setup_get by assumption. ring.
Qed.

Theorem spai0_sweep_spec_sadj (A : crs) (rhs x tmp : vec) i :
  (forall a b : S, sadj (a + b) = sadj a + sadj b) -> sadj (@s0 S) = s0 ->
  wf A = true ->
  length rhs = nrows A -> length x = nrows A -> length tmp = nrows A -> i < nrows A ->
  vget (fst (spai0_sweep (spai0_setup A) A rhs x tmp)) i =
  vget x i + sinv (row_norm2 (nth i (rows A) [])) * sadj (mget A i i) * (vget rhs i - Ax A x i).
Proof.
  intros Hadd H0 Hwf Hr Hx Ht Hi. rewrite (spai0_sweep_spec A rhs x tmp i Hwf Hr Hx Ht Hi).
  unfold mget_adj, mget. rewrite (rget_adj_sadj _ i Hadd H0). reflexivity.
Qed.

Theorem spai0_sweep_spec_id (A : crs) (rhs x tmp : vec) i :
  (forall a : S, sadj a = a) ->
  wf A = true ->
  length rhs = nrows A -> length x = nrows A -> length tmp = nrows A -> i < nrows A ->
  vget (fst (spai0_sweep (spai0_setup A) A rhs x tmp)) i =
  vget x i + sinv (row_norm2 (nth i (rows A) [])) * mget A i i * (vget rhs i - Ax A x i).
Proof.
  intros Hid Hwf Hr Hx Ht Hi. rewrite (spai0_sweep_spec A rhs x tmp i Hwf Hr Hx Ht Hi).
  unfold mget_adj, mget. rewrite (rget_adj_id _ i Hid). reflexivity.
Qed.

(* ------------------------------------------------------------------ *)
(* T1c: fixed points (no hypothesis on the diagonal)                   *)

Theorem jacobi_sweep_fixed_gen (w : S) (dia : vec) (A : crs) (rhs x tmp : vec) :
  wf A = true -> length dia = nrows A ->
  length rhs = nrows A -> length x = nrows A -> length tmp = nrows A ->
  (forall i, i < nrows A -> Ax A x i = vget rhs i) ->
  forall i, i < nrows A -> vget (fst (jacobi_sweep w dia A rhs x tmp)) i = vget x i.
Proof.
  intros Hwf Hd Hr Hx Ht Hfix i Hi.
  rewrite jacobi_sweep_gen by assumption. rewrite Hfix by exact Hi. ring.
Qed.

Theorem jacobi_sweep_fixed (w : S) (A : crs) (junk rhs x tmp : vec) :
  wf A = true ->
  length rhs = nrows A -> length x = nrows A -> length tmp = nrows A ->
  (forall i, i < nrows A -> Ax A x i = vget rhs i) ->
  forall i, i < nrows A ->
  vget (fst (jacobi_sweep w (jacobi_setup A junk) A rhs x tmp)) i = vget x i.
Proof.
  intros Hwf Hr Hx Ht Hfix i Hi.
  apply jacobi_sweep_fixed_gen; try assumption. apply jacobi_setup_length.
Qed.

Theorem spai0_sweep_fixed_gen (M : vec) (A : crs) (rhs x tmp : vec) :
  wf A = true -> length M = nrows A ->
  length rhs = nrows A -> length x = nrows A -> length tmp = nrows A ->
  (forall i, i < nrows A -> Ax A x i = vget rhs i) ->
  forall i, i < nrows A -> vget (fst (spai0_sweep M A rhs x tmp)) i = vget x i.
Proof.
  intros Hwf Hd Hr Hx Ht Hfix i Hi.
  rewrite spai0_sweep_gen by assumption. rewrite Hfix by exact Hi. ring.
Qed.

Theorem spai0_sweep_fixed (A : crs) (rhs x tmp : vec) :
  wf A = true ->
  length rhs = nrows A -> length x = nrows A -> length tmp = nrows A ->
  (forall i, i < nrows A -> Ax A x i = vget rhs i) ->
  forall i, i < nrows A ->
  vget (fst (spai0_sweep (spai0_setup A) A rhs x tmp)) i = vget x i.
Proof.
  intros Hwf Hr Hx Ht Hfix i Hi.
  apply spai0_sweep_fixed_gen; try assumption. apply spai0_setup_length.
Qed.

(* ------------------------------------------------------------------ *)
(* set_nth                                                             *)

Lemma set_nth_length (x : vec) i v : length (set_nth x i v) = length x.
Proof.
  revert i; induction x as [|a x IH]; intros [|i]; simpl; try reflexivity.
  rewrite IH. reflexivity.
Qed.

Lemma set_nth_get_same (x : vec) i v : i < length x -> vget (set_nth x i v) i = v.
Proof.
  unfold vget. revert i; induction x as [|a x IH]; intros [|i] Hi; simpl in *; try lia.
  - reflexivity.
  - apply IH. lia.
Qed.

Lemma set_nth_get_other (x : vec) i v j : j <> i -> vget (set_nth x i v) j = vget x j.
Proof.
  unfold vget. revert i j; induction x as [|a x IH]; intros [|i] [|j] Hne; simpl;
    try reflexivity; try congruence.
  apply IH. congruence.
Qed.

Lemma set_nth_get (x : vec) i v j : i < length x ->
  vget (set_nth x i v) j = if Nat.eqb j i then v else vget x j.
Proof.
  intros Hi. destruct (Nat.eqb_spec j i) as [->|Hne].
  - apply set_nth_get_same; exact Hi.
  - apply set_nth_get_other; exact Hne.
Qed.

Lemma set_nth_same (x : vec) i : i < length x -> set_nth x i (vget x i) = x.
Proof.
  unfold vget. revert i; induction x as [|a x IH]; intros [|i] Hi; simpl in *; try lia.
  - reflexivity.
  - f_equal. apply IH. lia.
Qed.

(* ------------------------------------------------------------------ *)
(* one Gauss-Seidel row                                                *)

Local Notation gs_step i x :=
  (fun (dx : S * S) (e : nat * S) =>
     if Nat.eqb (fst e) i then (snd e, snd dx)
     else (fst dx, snd dx - snd e * vget x (fst e))).

Lemma gs_fold_snd i (x : vec) (r : row) (D X : S) :
  snd (fold_left (gs_step i x) r (D, X)) = X - (dotrow r x - rget r i * vget x i).
Proof.
  revert D X; induction r as [|[c v] r IH]; intros D X.
  - unfold dotrow, rget; simpl. ring.
  - cbn [fold_left fst snd]. rewrite (dotrow_cons Srt), (rget_cons Srt). cbn [fst snd].
    destruct (Nat.eqb_spec c i) as [->|Hne]; rewrite IH; ring.
Qed.

Lemma gs_fold_fst0 i (x : vec) (r : row) (D X : S) :
  length (filter (fun e : nat * S => Nat.eqb (fst e) i) r) = 0 ->
  fst (fold_left (gs_step i x) r (D, X)) = D.
Proof.
  revert D X; induction r as [|[c v] r IH]; intros D X H; [reflexivity|].
  cbn [fold_left fst snd]. simpl in H.
  destruct (Nat.eqb c i); simpl in H; [discriminate|]. apply IH; exact H.
Qed.

Lemma gs_fold_fst1 i (x : vec) (r : row) (D X : S) :
  length (filter (fun e : nat * S => Nat.eqb (fst e) i) r) = 1 ->
  fst (fold_left (gs_step i x) r (D, X)) = rget r i.
Proof.
  revert D X; induction r as [|[c v] r IH]; intros D X H; [discriminate|].
  cbn [fold_left fst snd]. simpl in H. rewrite (rget_cons Srt). cbn [fst snd].
  destruct (Nat.eqb c i); simpl in H.
  - injection H as H. rewrite gs_fold_fst0 by exact H.
    rewrite rget_nofilter by exact H. ring.
  - rewrite IH by exact H. ring.
Qed.

Lemma gs_row_shape i (r : row) (rhs x : vec) : exists v, gs_row i r rhs x = set_nth x i v.
Proof.
  unfold gs_row. destruct (fold_left _ r (s1, vget rhs i)) as [D X].
  eexists; reflexivity.
Qed.

Lemma gs_row_eq i (r : row) (rhs x : vec) :
  length (filter (fun e : nat * S => Nat.eqb (fst e) i) r) = 1 ->
  gs_row i r rhs x =
  set_nth x i (sinv (rget r i) * (vget rhs i - (dotrow r x - rget r i * vget x i))).
Proof.
  intros H. unfold gs_row.
  pose proof (gs_fold_snd i x r s1 (vget rhs i)) as H2.
  pose proof (gs_fold_fst1 i x r s1 (vget rhs i) H) as H1.
  destruct (fold_left _ r (s1, vget rhs i)) as [D X]. cbn [fst snd] in *.
  subst D X. reflexivity.
Qed.

(* the value Gauss-Seidel writes into cell i, given the current iterate y *)
Definition gs_val (A : crs) (rhs y : vec) (i : nat) : S :=
  sinv (mget A i i) * (vget rhs i - (Ax A y i - mget A i i * vget y i)).

Lemma gs_row_A (A : crs) (rhs x : vec) i :
  wf A = true -> i < nrows A -> diag_unique A i ->
  gs_row i (nth i (rows A) []) rhs x = set_nth x i (gs_val A rhs x i).
Proof.
  intros Hwf Hi Hu. rewrite gs_row_eq by exact Hu.
  rewrite (dotrow_spec Srt _ x (ncols A)) by (apply row_wf_nth; assumption).
  reflexivity.
Qed.

(* ------------------------------------------------------------------ *)
(* a sweep over an arbitrary order list                                *)

Definition gs_run (A : crs) (rhs : vec) (l : list nat) (x : vec) : vec :=
  fold_left (fun x i => gs_row i (nth i (rows A) []) rhs x) l x.

Lemma gs_sweep_run (A : crs) (rhs x : vec) (b : bool) :
  gs_sweep A rhs x b =
  gs_run A rhs (if b then seq 0 (nrows A) else rev (seq 0 (nrows A))) x.
Proof. reflexivity. Qed.

Lemma gs_row_length i (r : row) (rhs x : vec) : length (gs_row i r rhs x) = length x.
Proof. destruct (gs_row_shape i r rhs x) as [v ->]. apply set_nth_length. Qed.

Lemma gs_row_other i (r : row) (rhs x : vec) j : j <> i ->
  vget (gs_row i r rhs x) j = vget x j.
Proof. intros H. destruct (gs_row_shape i r rhs x) as [v ->]. apply set_nth_get_other; exact H. Qed.

Lemma gs_run_length (A : crs) (rhs : vec) l (x : vec) : length (gs_run A rhs l x) = length x.
Proof.
  unfold gs_run. revert x; induction l as [|i l IH]; intro x; simpl; [reflexivity|].
  rewrite IH. apply gs_row_length.
Qed.

Lemma gs_run_notin (A : crs) (rhs : vec) l (x : vec) j : ~ In j l ->
  vget (gs_run A rhs l x) j = vget x j.
Proof.
  unfold gs_run. revert x; induction l as [|i l IH]; intros x H; simpl; [reflexivity|].
  rewrite IH by (intro; apply H; right; assumption).
  apply gs_row_other. intro; apply H; left; congruence.
Qed.

Lemma gs_run_app (A : crs) (rhs : vec) l1 l2 (x : vec) :
  gs_run A rhs (l1 ++ l2) x = gs_run A rhs l2 (gs_run A rhs l1 x).
Proof. unfold gs_run. apply fold_left_app. Qed.

(* cell i after the whole sweep = the value computed when i was processed,
   from the iterate y reached after the indices l1 that precede i; the cells of y
   agree with the final iterate on l1 and with the start vector elsewhere *)
Lemma gs_order_spec (A : crs) (rhs x : vec) l1 i l2 :
  wf A = true -> length x = nrows A -> i < nrows A -> diag_unique A i ->
  NoDup (l1 ++ i :: l2) ->
  let x' := gs_run A rhs (l1 ++ i :: l2) x in
  let y := gs_run A rhs l1 x in
  vget x' i = gs_val A rhs y i
  /\ (forall j, In j l1 -> vget y j = vget x' j)
  /\ (forall j, ~ In j l1 -> vget y j = vget x j).
Proof.
  intros Hwf Hx Hi Hu Hnd x' y.
  assert (Hx' : x' = gs_run A rhs l2 (set_nth y i (gs_val A rhs y i))).
  { unfold x'. rewrite gs_run_app. fold y. unfold gs_run at 1. cbn [fold_left].
    rewrite gs_row_A by assumption. reflexivity. }
  apply NoDup_remove in Hnd as [Hnd Hnin].
  assert (Hi2 : ~ In i l2) by (intro; apply Hnin; apply in_or_app; right; assumption).
  split; [|split].
  - rewrite Hx'. rewrite gs_run_notin by exact Hi2.
    apply set_nth_get_same. unfold y. rewrite gs_run_length. lia.
  - intros j Hj. rewrite Hx'.
    assert (Hj2 : ~ In j l2).
    { intro Hj2. clear - Hnd Hj Hj2. induction l1 as [|a l1 IH]; [contradiction|].
      simpl in Hnd. inversion Hnd as [|? ? Ha Hnd']; subst.
      destruct Hj as [->|Hj].
      - apply Ha. apply in_or_app; right; exact Hj2.
      - apply IH; assumption. }
    rewrite gs_run_notin by exact Hj2.
    rewrite set_nth_get_other; [reflexivity|].
    intros ->. apply Hnin. apply in_or_app; left; exact Hj.
  - intros j Hj. unfold y. apply gs_run_notin; exact Hj.
Qed.

(* splitting a full sum into "processed", diagonal, "not yet processed" *)
Lemma gs_sum_core (A : crs) (rhs x x' y : vec) i (p q : nat -> bool) :
  ncols A = nrows A -> i < nrows A -> mget A i i <> s0 ->
  vget x' i = gs_val A rhs y i ->
  (forall j, j < nrows A -> j <> i ->
     (p j = true /\ q j = false /\ vget y j = vget x' j) \/
     (p j = false /\ q j = true /\ vget y j = vget x j)) ->
  p i = false -> q i = false ->
  mget A i i * vget x' i =
  vget rhs i
  - sumn (fun j => if p j then mget A i j * vget x' j else s0) (nrows A)
  - sumn (fun j => if q j then mget A i j * vget x j else s0) (nrows A).
Proof.
  intros Hsq Hi Hnz Hv Hpq Hpi Hqi. rewrite Hv. unfold gs_val, Ax. rewrite Hsq.
  rewrite (sumn_ext (fun j => mget A i j * vget y j)
     (fun j => ((if p j then mget A i j * vget x' j else s0)
                + (if Nat.eqb i j then mget A i i * vget y i else s0))
               + (if q j then mget A i j * vget x j else s0))).
  - rewrite !(sumn_add Srt), (sumn_delta Srt).
    replace (i <? nrows A)%nat with true by (symmetry; apply Nat.ltb_lt; exact Hi).
    field. exact Hnz.
  - intros j Hj. destruct (Nat.eqb_spec i j) as [<-|Hne].
    + rewrite Hpi, Hqi. ring.
    + destruct (Hpq j Hj) as [(-> & -> & ->)|(-> & -> & ->)]; try congruence; ring.
Qed.

Lemma seq_split i n : i < n -> seq 0 n = seq 0 i ++ i :: seq (i + 1) (n - i - 1).
Proof.
  intros Hi. replace n with (i + Datatypes.S (n - i - 1))%nat at 1 by lia.
  rewrite seq_app. simpl. replace (i + 1)%nat with (Datatypes.S i) by lia. reflexivity.
Qed.

Lemma rev_seq_split i n : i < n ->
  rev (seq 0 n) = rev (seq (i + 1) (n - i - 1)) ++ i :: rev (seq 0 i).
Proof.
  intros Hi. rewrite (seq_split i n Hi) at 1. rewrite rev_app_distr. simpl.
  rewrite <- app_assoc. reflexivity.
Qed.

(* ------------------------------------------------------------------ *)
(* T2: Gauss-Seidel, forward and backward                              *)

Theorem gs_forward_spec (A : crs) (rhs x : vec) :
  wf A = true -> ncols A = nrows A -> length rhs = nrows A -> length x = nrows A ->
  (forall k, k < nrows A -> diag_unique A k) ->
  forall i, i < nrows A -> mget A i i <> s0 ->
  let x' := gs_sweep A rhs x true in
  mget A i i * vget x' i =
  vget rhs i
  - sumn (fun j => if Nat.ltb j i then mget A i j * vget x' j else s0) (nrows A)
  - sumn (fun j => if Nat.ltb i j then mget A i j * vget x j else s0) (nrows A).
Proof.
  intros Hwf Hsq Hr Hx Hu i Hi Hnz x'.
  assert (Hnd : NoDup (seq 0 i ++ i :: seq (i + 1) (nrows A - i - 1))).
  { rewrite <- seq_split by exact Hi. apply seq_NoDup. }
  destruct (gs_order_spec A rhs x _ i _ Hwf Hx Hi (Hu i Hi) Hnd) as (H1 & H2 & H3).
  rewrite <- seq_split in H1, H2 by exact Hi.
  change (gs_run A rhs (seq 0 (nrows A)) x) with x' in H1, H2.
  apply (gs_sum_core A rhs x x' (gs_run A rhs (seq 0 i) x) i
           (fun j => Nat.ltb j i) (fun j => Nat.ltb i j)); try assumption.
  - intros j Hj Hne. destruct (Nat.ltb_spec j i) as [Hlt|Hge].
    + left. split; [reflexivity|]. split; [apply Nat.ltb_ge; lia|].
      apply H2. apply in_seq. lia.
    + right. split; [reflexivity|]. split; [apply Nat.ltb_lt; lia|].
      apply H3. rewrite in_seq. lia.
  - apply Nat.ltb_irrefl.
  - apply Nat.ltb_irrefl.
Qed.

Theorem gs_backward_spec (A : crs) (rhs x : vec) :
  wf A = true -> ncols A = nrows A -> length rhs = nrows A -> length x = nrows A ->
  (forall k, k < nrows A -> diag_unique A k) ->
  forall i, i < nrows A -> mget A i i <> s0 ->
  let x'' := gs_sweep A rhs x false in
  mget A i i * vget x'' i =
  vget rhs i
  - sumn (fun j => if Nat.ltb i j then mget A i j * vget x'' j else s0) (nrows A)
  - sumn (fun j => if Nat.ltb j i then mget A i j * vget x j else s0) (nrows A).
Proof.
  intros Hwf Hsq Hr Hx Hu i Hi Hnz x''.
  assert (Hnd : NoDup (rev (seq (i + 1) (nrows A - i - 1)) ++ i :: rev (seq 0 i))).
  { rewrite <- rev_seq_split by exact Hi. apply NoDup_rev, seq_NoDup. }
  destruct (gs_order_spec A rhs x _ i _ Hwf Hx Hi (Hu i Hi) Hnd) as (H1 & H2 & H3).
  rewrite <- rev_seq_split in H1, H2 by exact Hi.
  change (gs_run A rhs (rev (seq 0 (nrows A))) x) with x'' in H1, H2.
  apply (gs_sum_core A rhs x x'' (gs_run A rhs (rev (seq (i + 1) (nrows A - i - 1))) x) i
           (fun j => Nat.ltb i j) (fun j => Nat.ltb j i)); try assumption.
  - intros j Hj Hne. destruct (Nat.ltb_spec i j) as [Hlt|Hge].
    + left. split; [reflexivity|]. split; [apply Nat.ltb_ge; lia|].
      apply H2. apply in_rev. rewrite rev_involutive. apply in_seq. lia.
    + right. split; [reflexivity|]. split; [apply Nat.ltb_lt; lia|].
      apply H3. rewrite <- in_rev. rewrite in_seq. lia.
  - apply Nat.ltb_irrefl.
  - apply Nat.ltb_irrefl.
Qed.

(* ------------------------------------------------------------------ *)
(* T3: the solution is a fixed point of both sweeps (as lists)         *)

Lemma gs_run_fixed (A : crs) (rhs x : vec) l :
  wf A = true -> length x = nrows A ->
  (forall i, i < nrows A -> Ax A x i = vget rhs i) ->
  (forall k, k < nrows A -> diag_unique A k) ->
  (forall k, k < nrows A -> mget A k k <> s0) ->
  (forall i, In i l -> i < nrows A) ->
  gs_run A rhs l x = x.
Proof.
  intros Hwf Hx Hfix Hu Hnz. unfold gs_run.
  induction l as [|i l IH]; intro Hl; simpl; [reflexivity|].
  assert (Hi : i < nrows A) by (apply Hl; left; reflexivity).
  rewrite gs_row_A by auto.
  replace (gs_val A rhs x i) with (vget x i).
  - rewrite set_nth_same by lia. apply IH. intros; apply Hl; right; assumption.
  - unfold gs_val. rewrite Hfix by exact Hi. field. apply Hnz; exact Hi.
Qed.

Theorem gs_fixed_point (A : crs) (rhs x : vec) (b : bool) :
  wf A = true -> length x = nrows A ->
  (forall i, i < nrows A -> Ax A x i = vget rhs i) ->
  (forall k, k < nrows A -> diag_unique A k) ->
  (forall k, k < nrows A -> mget A k k <> s0) ->
  gs_sweep A rhs x b = x.
Proof.
  intros Hwf Hx Hfix Hu Hnz. rewrite gs_sweep_run.
  apply gs_run_fixed; try assumption.
  intros i Hin. destruct b.
  - apply in_seq in Hin. lia.
  - apply in_rev in Hin. apply in_seq in Hin. lia.
Qed.

End RelaxProofs.
