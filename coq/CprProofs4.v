(* CprProofs4.v -- C18-A3 (block input): CPR on a scalar matrix with block_size B and on its
   B x B block view (adapter::block_matrix) build the same transfer operators (term equality) and
   dense-equal pressure matrices, hence the same two-stage operator (commutative ring, real
   value type: adjoint = identity; rows strictly sorted; every diagonal block present). *)
From Coq Require Import ZifyBool.
From Amgcl Require Import Scalar Vec Crs Kernels KernelsProofs MatOps MatOpsProofs Adapters AdaptersProofs BlockProofs
  Composite Cpr CprProofs CprProofs2.
From Amgcl Require Import DirectUtil.

Section Ring.
Context {S : Scalar}.
Local Notation row := (row S).
Local Notation vec := (vec S).
Hypothesis Srt : Sring S.
Add Ring SRingCpr4 : Srt.
Local Open Scope S_scope.

(* ---- the block that block_matrix produces for block column ip of a block row ---- *)
Lemma heads_min_ge B (rs : list row) c lo : 0 < B -> heads_min B rs = Some c -> rows_ge (lo * B) rs -> lo <= c.
Proof.
  intros HB H G. destruct (heads_min_some B rs c H) as [_ E].
  apply Exists_exists in E as [r [Hr P]]. destruct r as [|x tl]; [contradiction|].
  unfold rows_ge in G. rewrite Forall_forall in G. specialize (G _ Hr).
  apply Forall_cons_iff in G as [G _]. subst c. apply Nat.div_le_lower_bound; lia.
Qed.

Lemma taken_in_block_all B (rs : list row) c : 0 < B ->
  Forall (fun r => sorted_strict r = true) rs -> heads_min B rs = Some c ->
  Forall (fun r => Forall (fun x : nat * S => c * B <= fst x < (c + 1) * B) (fst (span_lt ((c + 1) * B) r))) rs.
Proof.
  intros HB Hs Hm. destruct (heads_min_some B rs c Hm) as [F _].
  apply Forall_forall. intros r Hr. rewrite Forall_forall in F, Hs. specialize (F r Hr). specialize (Hs r Hr).
  apply Forall_forall. intros x Hx. split.
  - assert (Flo : Forall (fun y => c * B <= fst y) r).
    { apply sorted_lower; [exact Hs|]. destruct r as [|y tl]; [exact I|]. apply div_lower; assumption. }
    rewrite Forall_forall in Flo. apply Flo. rewrite (span_lt_app ((c + 1) * B) r). apply in_or_app. left. exact Hx.
  - pose proof (span_lt_taken ((c + 1) * B) r) as Ft. rewrite Forall_forall in Ft. apply Ft. exact Hx.
Qed.

Lemma total_len_step_all B (rs : list row) c : 0 < B -> heads_min B rs = Some c ->
  total_len (map snd (map (span_lt ((c + 1) * B)) rs)) < total_len rs.
Proof.
  intros HB H. rewrite map_map. destruct (heads_min_some B rs c H) as [_ E].
  apply total_len_map_lt; [intro; apply span_lt_len|].
  apply Exists_exists. apply Exists_exists in E as [r [Hr P]].
  exists r. split; [exact Hr|]. destruct r as [|x tl]; [contradiction|].
  apply span_lt_progress. rewrite <- P. apply div_upper; exact HB.
Qed.

Lemma block_row_diag B ip : 0 < B -> forall fuel (rs : list row),
  Forall (fun r => sorted_strict r = true) rs -> total_len rs <= fuel ->
  forall lo, lo <= ip -> rows_ge (lo * B) rs -> has_block B ip rs ->
  exists v, bfirst_col (block_row fuel B rs) ip = Some v /\
            forall i j, i < length rs -> j < B -> bget v i j = rget (nth i rs []) (ip * B + j).
Proof.
  intros HB. induction fuel as [|k IH]; intros rs Hs Hlen lo Hlo Hge Hblk.
  - exfalso. unfold has_block in Hblk. apply Exists_exists in Hblk as [r [Hr Hx]].
    apply Exists_exists in Hx as [x [Hx _]].
    destruct (In_nth rs r [] Hr) as [i [Hi E]]. rewrite (total_len_zero rs i) in E by lia. subst r. contradiction.
  - simpl.
    assert (Hact : exists r h tl, In r rs /\ r = h :: tl /\ fst h < (ip + 1) * B).
    { unfold has_block in Hblk. apply Exists_exists in Hblk as [r [Hr Hx]].
      apply Exists_exists in Hx as [x [Hx Hb]]. unfold in_block in Hb.
      destruct r as [|h tl]; [contradiction|]. exists (h :: tl), h, tl. split; [exact Hr|]. split; [reflexivity|].
      rewrite Forall_forall in Hs. specialize (Hs _ Hr). destruct (sorted_strict_cons h tl Hs) as [F _].
      destruct Hx as [->|Hx]; [lia|]. rewrite Forall_forall in F. specialize (F x Hx). lia. }
    destruct Hact as (r & h & tl & Hr & Er & Hh).
    destruct (heads_min B rs) as [c|] eqn:Hm.
    + pose proof (heads_min_ge B rs c lo HB Hm Hge) as Hc1.
      assert (Hc2 : c <= ip).
      { destruct (heads_min_some B rs c Hm) as [F _]. rewrite Forall_forall in F. specialize (F r Hr).
        subst r. assert (fst h / B <= ip) by (apply Nat.lt_succ_r; apply Nat.div_lt_upper_bound; lia). lia. }
      pose proof (taken_in_block_all B rs c HB Hs Hm) as Ftk.
      pose proof (strict_all_weak rs Hs) as Hw.
      destruct (rows_ge_step ((c + 1) * B) rs Hw) as [_ Hge'].
      cbn [bfirst_col fst snd].
      destruct (Nat.eqb_spec c ip) as [->|Hne].
      * eexists. split; [reflexivity|]. intros i j Hi Hj.
        rewrite bget_blk_of by (rewrite ?map_length; assumption).
        rewrite nth_map_fst_span. set (rw := nth i rs []).
        assert (Hin : In rw rs) by (apply nth_In; exact Hi).
        rewrite Forall_forall in Hs, Ftk. specialize (Hs rw Hin). specialize (Ftk rw Hin).
        destruct (span_lt_sorted ((ip + 1) * B) rw Hs) as (St & _ & Fr).
        rewrite (blk_entry_rget Srt B ip _ j HB Hj St Ftk).
        rewrite (span_lt_app ((ip + 1) * B) rw) at 2. rewrite (rget_app Srt).
        assert (Z : rget (snd (span_lt ((ip + 1) * B) rw)) (ip * B + j) = s0).
        { apply (rget_notin Srt). eapply Forall_impl; [|exact Fr]. simpl. intros x Hx. nia. }
        rewrite Z. ring.
      * pose proof (total_len_step_all B rs c HB Hm) as L.
        destruct (IH (map snd (map (span_lt ((c + 1) * B)) rs))) with (lo := (c + 1)%nat) as [v [Ev Gv]].
        -- apply strict_step. exact Hs.
        -- lia.
        -- lia.
        -- exact Hge'.
        -- apply has_block_step; [nia|exact Hblk].
        -- exists v. split; [exact Ev|]. intros i j Hi Hj.
           rewrite (Gv i j) by (rewrite ?map_length; assumption).
           rewrite nth_map_snd_span. set (rw := nth i rs []).
           assert (Hin : In rw rs) by (apply nth_In; exact Hi).
           rewrite Forall_forall in Ftk. specialize (Ftk rw Hin).
           rewrite (span_lt_app ((c + 1) * B) rw) at 2. rewrite (rget_app Srt).
           assert (Z : rget (fst (span_lt ((c + 1) * B) rw)) (ip * B + j) = s0).
           { apply (rget_notin Srt). eapply Forall_impl; [|exact Ftk]. simpl. intros x Hx Ex. apply Hne.
             apply (blk_in_range B c ip j Hj). lia. }
           rewrite Z. ring.
    + exfalso. pose proof (heads_min_none B rs Hm) as Fn. rewrite Forall_forall in Fn.
      specialize (Fn r Hr). subst r. discriminate.
Qed.


(* ---- the weights ---- *)
Lemma flat_map_const_length {X Y} (f : X -> list Y) (l : list X) b : (forall x, length (f x) = b) ->
  length (flat_map f l) = (length l * b)%nat.
Proof. intro H. induction l as [|x l IH]; [reflexivity|]. simpl. rewrite app_length, IH, H. lia. Qed.

Lemma blk_adjoint_flat_spec B (v : @block S) : 0 < B ->
  length (blk_adjoint_flat B v) = (B * B)%nat /\
  forall r c, r < B -> c < B -> vget (blk_adjoint_flat B v) (r * B + c) = sadj (bget v c r).
Proof.
  intro HB. unfold blk_adjoint_flat. split.
  - rewrite (flat_map_const_length _ _ B) by (intro; rewrite map_length, seq_length; reflexivity).
    rewrite seq_length. reflexivity.
  - intros r c Hr Hc. unfold vget.
    rewrite (nth_flat_map_const _ _ B r c 0%nat) by (try (intro; rewrite map_length, seq_length; reflexivity); rewrite ?seq_length; assumption).
    rewrite seq_nth by exact Hr. rewrite nth_map_seq by exact Hc. reflexivity.
Qed.

Hypothesis sadj_id : forall x : S, sadj x = x.

Lemma cprb_weights_eq B np (K : crs S) (junk : vec) ip : 0 < B -> ip < np ->
  Forall (fun r => sorted_strict r = true) (rows K) ->
  has_block B ip (cpr_block_rows B K ip) ->
  let rs := cpr_block_rows B K ip in
  cprb_weights B (block_row (total_len rs) B rs) ip junk = cpr_weights B (np * B) K true junk ip.
Proof.
  intros HB Hip Hs Hblk rs.
  assert (Hrs : Forall (fun r => sorted_strict r = true) rs).
  { unfold rs, cpr_block_rows. apply Forall_forall. intros r Hr. apply in_map_iff in Hr as [j [<- _]].
    destruct (Nat.lt_ge_cases (ip * B + j) (length (rows K))) as [Hlt|Hge].
    - rewrite Forall_forall in Hs. apply Hs. apply nth_In. exact Hlt.
    - rewrite nth_overflow by exact Hge. reflexivity. }
  assert (Hge0 : rows_ge (0 * B) rs).
  { unfold rows_ge. apply Forall_forall. intros r _. apply Forall_forall. intros x _. lia. }
  destruct (block_row_diag B ip HB (total_len rs) rs Hrs (le_n _) 0%nat ltac:(lia) Hge0 Hblk) as [v [Ev Gv]].
  unfold cprb_weights. rewrite Ev. unfold cpr_weights. fold rs.
  rewrite (cpr_pass1_spec Srt B np ip HB Hip (total_len rs) rs _ (block_rows_length B K ip) Hrs (le_n _) 0%nat ltac:(lia) Hge0 Hblk).
  f_equal. destruct (blk_adjoint_flat_spec B v HB) as [L G].
  apply (vec_ext_BB B); [exact HB|exact L|unfold dense_diagT; apply tabulate_length|].
  intros r c Hr Hc. rewrite (G r c Hr Hc), sadj_id, dense_diagT_get by assumption.
  apply Gv; [unfold rs; rewrite block_rows_length; exact Hc|exact Hr].
Qed.

(* ---- the pressure matrix of the block variant, densely ---- *)
Lemma fold_seq_sumn (g : nat -> S) n : fold_left (fun a k => a + g k) (seq 0 n) s0 = sumn g n.
Proof.
  induction n as [|n IH]; [reflexivity|]. rewrite seq_S, fold_left_app, IH. reflexivity.
Qed.

Lemma cprb_app_row_dense B (d : vec) (br : grow (@block S)) J :
  rget (map (fun cv => (fst cv, cprb_app_val B d (snd cv))) br) J
  = sumn (fun k => vget d k * brget br J k 0) B.
Proof.
  induction br as [|[c v] br IH].
  - simpl. rewrite rget_nil. symmetry. rewrite (sumn_ext _ (fun _ => s0)); [apply (sumn_zero Srt)|]. intros; ring.
  - simpl map. rewrite (rget_cons Srt), IH. cbn [fst snd].
    unfold cprb_app_val. rewrite (fold_seq_sumn (fun k => vget d k * bget v k 0) B).
    rewrite (sumn_ext (fun k => vget d k * brget ((c, v) :: br) J k 0)
                      (fun k => (if Nat.eqb c J then vget d k * bget v k 0 else s0) + vget d k * brget br J k 0)).
    2:{ intros k _. cbn [brget fold_right fst snd]. fold (brget br J k 0). destruct (Nat.eqb c J); ring. }
    rewrite (sumn_add Srt). destruct (Nat.eqb c J); [reflexivity|]. rewrite (sumn_zero Srt). reflexivity.
Qed.

(* ---- the theorem ---- *)
Section Agree.
Variables (B nb : nat) (K : crs S) (junk : vec).
Hypothesis HB : 0 < B.
Hypothesis Hn : nrows K = (nb * B)%nat.
Hypothesis Hs : Forall (fun r => sorted_strict r = true) (rows K).
Hypothesis Hdiag : forall ip, ip < nb -> has_block B ip (cpr_block_rows B K ip).
Let Kb := to_gcrs (block_adapter B (crs_view K)).

Lemma Kb_rows : grows Kb = map (fun i => let rs := cpr_block_rows B K i in block_row (total_len rs) B rs) (seq 0 nb).
Proof.
  unfold Kb, to_gcrs. cbn [grows block_adapter a_rows a_row crs_view]. rewrite Hn, Nat.div_mul by lia. reflexivity.
Qed.
Lemma Kb_len : length (grows Kb) = nb.
Proof. rewrite Kb_rows, map_length, seq_length. reflexivity. Qed.
Lemma Kb_nth i : i < nb -> nth i (grows Kb) [] = let rs := cpr_block_rows B K i in block_row (total_len rs) B rs.
Proof. intro Hi. rewrite Kb_rows. rewrite nth_map_seq by exact Hi. reflexivity. Qed.

Theorem cpr_block_scalar_fpp : c_fpp (cprb_setup B 0 Kb junk) = c_fpp (cpr_setup B 0 K junk).
Proof.
  unfold cprb_setup, cpr_setup. cbn [c_fpp]. rewrite Kb_len. unfold cpr_N. simpl Nat.eqb. cbv iota.
  rewrite Hn. unfold cpr_fpp. rewrite Nat.div_mul by lia. f_equal.
  apply map_ext_in. intros ip Hip. apply in_seq in Hip. cbv zeta.
  rewrite Kb_nth by lia. cbv zeta.
  rewrite (cprb_weights_eq B nb K junk ip HB ltac:(lia) Hs (Hdiag ip ltac:(lia))). reflexivity.
Qed.

Theorem cpr_block_scalar_scatter : c_scatter (cprb_setup B 0 Kb junk) = c_scatter (cpr_setup B 0 K junk).
Proof.
  unfold cprb_setup, cpr_setup. cbn [c_scatter]. rewrite Kb_len. unfold cpr_N. simpl Nat.eqb. cbv iota.
  rewrite Hn. unfold cpr_scatter. rewrite Nat.div_mul by lia. f_equal.
  apply map_ext_in. intros i Hi. apply in_seq in Hi.
  replace (Nat.ltb i (nb * B)) with true by (symmetry; apply Nat.ltb_lt; lia). reflexivity.
Qed.

Theorem cpr_block_scalar_app :
  nrows (c_app (cprb_setup B 0 Kb junk)) = nrows (c_app (cpr_setup B 0 K junk)) /\
  ncols (c_app (cprb_setup B 0 Kb junk)) = ncols (c_app (cpr_setup B 0 K junk)) /\
  forall ip jp, ip < nb -> jp < nb ->
    mget (c_app (cprb_setup B 0 Kb junk)) ip jp = mget (c_app (cpr_setup B 0 K junk)) ip jp.
Proof.
  unfold cprb_setup, cpr_setup. cbn [c_app]. rewrite Kb_len. unfold cpr_N. simpl Nat.eqb. cbv iota. rewrite Hn.
  split; [|split].
  - unfold nrows, cpr_App. cbn [rows]. rewrite !map_length, !seq_length, Nat.div_mul by lia. reflexivity.
  - unfold cpr_App. cbn [ncols]. rewrite Nat.div_mul by lia. reflexivity.
  - intros ip jp Hip Hjp.
    rewrite (cpr_App_dense Srt B nb K junk ip jp HB (strict_all_weak _ Hs) Hip Hjp).
    unfold mget. cbn [rows]. rewrite nth_map_seq by exact Hip. cbv zeta.
    rewrite Kb_nth by exact Hip. cbv zeta.
    rewrite cprb_app_row_dense.
    rewrite (cprb_weights_eq B nb K junk ip HB Hip Hs (Hdiag ip Hip)).
    apply sumn_ext. intros k Hk. f_equal.
    rewrite (block_row_dense Srt B HB).
    + rewrite block_rows_nth by exact Hk. rewrite Nat.add_0_r. reflexivity.
    + unfold cpr_block_rows. apply Forall_forall. intros r Hr. apply in_map_iff in Hr as [j [<- _]].
      destruct (Nat.lt_ge_cases (ip * B + j) (length (rows K))) as [Hlt|Hge].
      * rewrite Forall_forall in Hs. apply Hs. apply nth_In. exact Hlt.
      * rewrite nth_overflow by exact Hge. reflexivity.
    + apply le_n.
    + rewrite block_rows_length. exact Hk.
    + exact HB.
Qed.
End Agree.

End Ring.
