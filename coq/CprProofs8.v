(* CprProofs8.v -- C18-A3, the repaired block-valued set-up (Cpr.cprb_setup_f, CprDrs.drsb_setup_f:
   entries of the active rows in inactive block columns are skipped) coincides with the original
   one whenever no such entry exists -- in particular for the block view of a well-formed square
   matrix with all rows active -- so the agreement theorem (CprProofs4/5) holds for it as well;
   the repaired cpr_drs::partial_update with the unchanged matrix is the identity. *)
From Coq Require Import ZifyBool.
From Amgcl Require Import Scalar Vec Crs Kernels KernelsProofs MatOps MatOpsProofs Adapters AdaptersProofs BlockProofs
  Composite Cpr CprDrs CprProofs CprProofs2 CprProofs4.

Section Repaired.
Context {S : Scalar}.
Local Notation row := (row S).
Local Notation vec := (vec S).

Lemma filter_lt_id {X} np (br : grow X) : Forall (fun cv => fst cv < np) br ->
  filter (fun cv => Nat.ltb (fst cv) np) br = br.
Proof.
  induction 1 as [|cv br H _ IH]; [reflexivity|]. simpl.
  replace (Nat.ltb (fst cv) np) with true by (symmetry; apply Nat.ltb_lt; exact H). rewrite IH. reflexivity.
Qed.

Theorem cprb_setup_f_eq B active (Kb : gcrs (@block S)) (junk : vec) :
  (forall i, i < cpr_N (length (grows Kb)) active ->
     Forall (fun cv => fst cv < cpr_N (length (grows Kb)) active) (nth i (grows Kb) [])) ->
  cprb_setup_f B active Kb junk = cprb_setup B active Kb junk.
Proof.
  intro H. unfold cprb_setup_f, cprb_setup. cbn [c_fpp c_scatter]. f_equal. f_equal.
  apply map_ext_in. intros i Hi. apply in_seq in Hi. cbv zeta. rewrite filter_lt_id by (apply H; lia). reflexivity.
Qed.

Theorem drsb_setup_f_eq B active (Kb : gcrs (@block S)) (eps_dd eps_ps : S) (weights : vec) :
  (forall i, i < cpr_N (length (grows Kb)) active ->
     Forall (fun cv => fst cv < cpr_N (length (grows Kb)) active) (nth i (grows Kb) [])) ->
  drsb_setup_f B active Kb eps_dd eps_ps weights = drsb_setup B active Kb eps_dd eps_ps weights.
Proof.
  intro H. unfold drsb_setup_f, drsb_setup. f_equal; f_equal;
    apply map_ext_in; intros i Hi; apply in_seq in Hi; cbv zeta; rewrite filter_lt_id by (apply H; lia); reflexivity.
Qed.

(* block columns produced by block_matrix stay below ncols / B *)
Lemma block_row_cols_lt B nb : 0 < B -> forall fuel (rs : list row),
  Forall (fun r => Forall (fun x : nat * S => fst x < nb * B) r) rs ->
  Forall (fun cv : nat * @block S => fst cv < nb) (block_row fuel B rs).
Proof.
  intros HB. induction fuel as [|k IH]; intros rs H; [constructor|].
  simpl. destruct (heads_min B rs) as [c|] eqn:Hm; [|constructor].
  constructor.
  - cbn [fst]. destruct (heads_min_some B rs c Hm) as [_ E]. apply Exists_exists in E as [r [Hr P]].
    destruct r as [|x tl]; [contradiction|]. rewrite Forall_forall in H. specialize (H _ Hr).
    apply Forall_cons_iff in H as [Hx _]. subst c. apply Nat.div_lt_upper_bound; lia.
  - apply IH. rewrite map_map. apply Forall_forall. intros r Hr. apply in_map_iff in Hr as [r0 [<- Hr0]].
    rewrite Forall_forall in H. specialize (H _ Hr0). apply Forall_forall. intros x Hx.
    rewrite Forall_forall in H. apply H. rewrite (span_lt_app ((c + 1) * B) r0). apply in_or_app. right. exact Hx.
Qed.

Theorem cprb_setup_f_block_view B nb (K : crs S) (junk : vec) : 0 < B ->
  wf K = true -> nrows K = (nb * B)%nat -> ncols K = (nb * B)%nat ->
  let Kb := to_gcrs (block_adapter B (crs_view K)) in
  cprb_setup_f B 0 Kb junk = cprb_setup B 0 Kb junk.
Proof.
  intros HB Hwf Hn Hc Kb. apply cprb_setup_f_eq.
  assert (EL : length (grows Kb) = nb).
  { unfold Kb, to_gcrs. cbn [grows block_adapter a_rows crs_view]. rewrite map_length, seq_length, Hn, Nat.div_mul by lia. reflexivity. }
  rewrite EL. unfold cpr_N. simpl. intros i Hi.
  unfold Kb, to_gcrs. cbn [grows block_adapter a_rows a_row crs_view]. rewrite Hn, Nat.div_mul by lia.
  rewrite nth_map_seq by exact Hi.
  apply (block_row_cols_lt B nb HB).
  apply Forall_forall. intros r Hr. apply in_map_iff in Hr as [j [<- _]].
  destruct (Nat.lt_ge_cases (i * B + j) (length (rows K))) as [Hlt|Hge].
  - unfold wf in Hwf. rewrite forallb_forall in Hwf. specialize (Hwf _ (nth_In _ [] Hlt)).
    apply row_wf_iff in Hwf. rewrite Hc in Hwf. exact Hwf.
  - rewrite nth_overflow by exact Hge. constructor.
Qed.

(* the repaired cpr_drs::partial_update(K, true) with the matrix the preconditioner was built from *)
Theorem drs_partial_update_same B active (K : crs S) (eps_dd eps_ps : S) (weights : vec) :
  drs_partial_update B active (drs_make B active K eps_dd eps_ps weights) K eps_dd eps_ps weights true
  = drs_make B active K eps_dd eps_ps weights.
Proof. unfold drs_partial_update. destruct (drs_make B active K eps_dd eps_ps weights). reflexivity. Qed.

End Repaired.
