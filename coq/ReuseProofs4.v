(* ReuseProofs4.v -- property C15 (objects): packaging lemmas for Properties_C15.v (conjunctions of
   theorems of ReuseProofs.v / ReuseProofs2.v / ReuseProofs3.v) and a concrete non-vacuity instance
   over the exact rationals: make_solver<amg, cg> on the 3-level hierarchy of AmgExampleData.v
   (1D Laplacian n = 4, damped Jacobi, direct coarse solve), a call after a history of two other
   calls started from a junk-filled object vs the same call on a fresh object. *)
From Amgcl Require Import Scalar QcInst Vec Crs Kernels KernelsProofs MatOps Krylov Cheby Amg AmgExec AmgProofs AmgProofs2 AmgProofs3
  AmgExampleData AmgExamples ReuseProofs ReuseProofs2 ReuseProofs3.
Local Open Scope S_scope.

Section Packaging.
Context {S : Scalar}.
Local Notation vec := (vec S).

Lemma cheby_call_state_independent_and_ok (Z : is_zero (@s0 S) = true) (c d : S) (M : option vec)
  (degree : nat) (A : crs S) (st1 st2 : vec * vec) (b x : vec) :
  (forall m, M = Some m -> length m = nrows A) -> length b = nrows A -> length x = nrows A ->
  cheby_state_ok A st1 -> cheby_state_ok A st2 ->
  fst (cheby_call (c, d, M) degree A st1 b x) = fst (cheby_call (c, d, M) degree A st2 b x) /\
  cheby_state_ok A (snd (cheby_call (c, d, M) degree A st1 b x)).
Proof.
  intros HM Lb Lx H1 H2. split.
  - exact (cheby_call_state_independent Z c d M degree A st1 st2 b x HM Lb Lx H1 H2).
  - exact (cheby_call_state_ok c d M degree A st1 b x HM Lb Lx H1).
Qed.

Lemma all_sp_stateless (A P : vec -> vec) prm (f x0 : vec) :
  (forall ws u, cg_sp A (fun (_ : unit) r _ => (P r, tt)) prm f x0 ws u = (cg A P prm f x0 ws, tt)) /\
  (forall ws u, richardson_sp A (fun (_ : unit) r _ => (P r, tt)) prm f x0 ws u = (richardson A P prm f x0 ws, tt)) /\
  (forall ws u, bicgstab_sp A (fun (_ : unit) r _ => (P r, tt)) prm f x0 ws u = (bicgstab A P prm f x0 ws, tt)) /\
  (forall ws u, gmres_sp A (fun (_ : unit) r _ => (P r, tt)) prm f x0 ws u = (gmres A P prm f x0 ws, tt)) /\
  (forall ws u, fgmres_sp A (fun (_ : unit) r _ => (P r, tt)) prm f x0 ws u = (fgmres A P prm f x0 ws, tt)).
Proof.
  repeat split; intros ws u.
  - exact (cg_sp_stateless A P prm f x0 ws u).
  - exact (richardson_sp_stateless A P prm f x0 ws u).
  - exact (bicgstab_sp_stateless A P prm f x0 ws u).
  - exact (gmres_sp_stateless A P prm f x0 ws u).
  - exact (fgmres_sp_stateless A P prm f x0 ws u).
Qed.
End Packaging.

(* ------------------------------------------------------------------ *)
(* concrete instance over Qc *)
Definition exA15 : vec QcS -> vec QcS := fun v => spmv s1 (sort_rows exM) v s0 v.
Definition exPrm15 : @kprm QcS := mkPrm 2 (qc 0 1) (qc 0 1) false false 1 false (qc 1 1) 1 true 2 (qc 0 1) true.
Definition exZ15 : vec QcS := [exq 0; exq 0; exq 0; exq 0].
Definition exJunk15 : vec QcS := [exq 9; exq (-9); exq 7; exq 5].
Definition exJunkWs15 : @cg_ws QcS := mkCgWs exJunk15 exJunk15 exJunk15 exJunk15.
Definition exFreshWs15 : @cg_ws QcS := mkCgWs exZ15 exZ15 exZ15 exZ15.
Definition exCall15 (f x : vec QcS) : @kcall QcS := mkKCall exA15 exPrm15 f x.
Definition exSp15 := amg_sp 1 1 1 1 exLvls.

(* the hypotheses of make_solver_amg_cg_reuse hold for this object and these calls ... *)
Lemma ex15_hypotheses :
  hier_wf exLvls /\ exLvls <> [] /\ top_n exLvls = 4 /\
  Forall (call_ok 4) [exCall15 exG exF; exCall15 exF exG] /\ call_ok 4 (exCall15 exF exZ15) /\
  cg_sized 4 exJunkWs15 /\ scratch_wf exLvls exDirty /\ cg_sized 4 exFreshWs15 /\ scratch_wf exLvls exScr0.
Proof.
  destruct (std_levels_wf exJac (@galerkin QcS) exH galerkin_shape
              (proj1 (amg_init_chain 1 true 10 (@galerkin QcS) exTs exM))) as (H1 & H2 & H3).
  assert (HA : forall v : vec QcS, length v = 4 -> length (exA15 v) = 4).
  { intros v Lv. unfold exA15. rewrite spmv_length_any. exact Lv. }
  assert (Hc : forall f x : vec QcS, length f = 4 -> length x = 4 -> call_ok 4 (exCall15 f x)).
  { intros f x Lf Lx. split; [exact HA|]. split; assumption. }
  split; [exact H1|]. split; [exact H2|]. split; [reflexivity|].
  split; [repeat constructor; try (apply Hc; reflexivity)|].
  split; [apply Hc; reflexivity|].
  split; [repeat split|]. split; [apply std_scratch_check; vm_compute; reflexivity|].
  split; [repeat split|]. exact H3.
Qed.

(* ... and the run really iterates: two CG iterations with two V-cycles each, after two earlier solves that
   started from a junk-filled workspace and dirty scratch vectors, give the iterate of the fresh object *)
Lemma ex15_concrete :
  match fst (cg_obj_call exSp15 (exCall15 exF exZ15)
               (cg_obj_history exSp15 [exCall15 exG exF; exCall15 exF exG] (exJunkWs15, exDirty))),
        fst (cg_obj_call exSp15 (exCall15 exF exZ15) (exFreshWs15, exScr0)) with
  | KOk r1, KOk r2 => k_it r1 = 2 /\ k_it r2 = 2 /\ vec_eqb (k_x r1) (k_x r2) = true /\ vec_eqb (k_x r1) exZ15 = false
  | _, _ => False
  end.
Proof. vm_compute. repeat split. Qed.

(* ------------------------------------------------------------------ *)
(* relaxation::as_preconditioner<Backend, chebyshev> (as_preconditioner.hpp:87-90: S->apply(A, rhs, x);
   chebyshev.hpp:160-165: clear(x); solve(A, rhs, x)) is a simulated stateful preconditioner too:
   state = the members (p, r), invariant = their allocated length.  Hence make_solver<as_preconditioner<
   chebyshev>, S> is reusable for the state-passing solvers (law-free, NaN included). *)
Section ChebyPrecond.
Context {S : Scalar}.
Local Notation vec := (vec S).
Hypothesis Z : is_zero (@s0 S) = true.
Variables (c d : S) (M : option vec) (degree : nat) (A : crs S).
Hypothesis HM : forall m, M = Some m -> length m = nrows A.

Lemma vzero_len n : length (@vzero S n) = n.
Proof. unfold vzero. apply repeat_length. Qed.

Definition cheby_sp : @sprecond S (vec * vec) :=
  fun st r x => cheby_call (c, d, M) degree A st r (vclear x).

Lemma cheby_simulates (st0 : vec * vec) : cheby_state_ok A st0 ->
  simulates (nrows A) (cheby_state_ok A) cheby_sp
            (fun r => fst (cheby_call (c, d, M) degree A st0 r (vclear (vzero (nrows A))))).
Proof.
  intro H0. split.
  - intros r Lr. apply cheby_call_result_length; try assumption.
    rewrite vclear_length. apply vzero_len.
  - intros st r x Hst Lr Lx. split.
    + unfold cheby_sp. apply (cheby_apply_reuse Z c d M degree A st st0 r x (vzero (nrows A))); try assumption.
      apply vzero_len.
    + unfold cheby_sp. apply cheby_call_state_ok; try assumption. rewrite vclear_length. exact Lx.
Qed.

Theorem make_solver_cheby_cg_reuse (hist : list (@kcall S)) (c0 : @kcall S) (ws0 wsf : @cg_ws S) (st0 stf : vec * vec) :
  Forall (call_ok (nrows A)) hist -> call_ok (nrows A) c0 ->
  cg_sized (nrows A) ws0 -> cheby_state_ok A st0 -> cg_sized (nrows A) wsf -> cheby_state_ok A stf ->
  fst (cg_obj_call cheby_sp c0 (cg_obj_history cheby_sp hist (ws0, st0))) = fst (cg_obj_call cheby_sp c0 (wsf, stf)).
Proof.
  intros HH Hc W0 S0 Wf Sf.
  exact (cg_object_reuse (nrows A) (cheby_state_ok A) cheby_sp _ hist c0 ws0 wsf st0 stf (cheby_simulates st0 S0) HH Hc W0 S0 Wf Sf).
Qed.

Theorem make_solver_cheby_bicgstab_reuse (hist : list (@kcall S)) (c0 : @kcall S) (ws0 wsf : @bs_ws S) (st0 stf : vec * vec) :
  Forall (call_ok (nrows A)) hist -> call_ok (nrows A) c0 ->
  bs_sized (nrows A) ws0 -> cheby_state_ok A st0 -> bs_sized (nrows A) wsf -> cheby_state_ok A stf ->
  fst (bs_obj_call cheby_sp c0 (bs_obj_history cheby_sp hist (ws0, st0))) = fst (bs_obj_call cheby_sp c0 (wsf, stf)).
Proof.
  intros HH Hc W0 S0 Wf Sf.
  exact (bicgstab_object_reuse (nrows A) (cheby_state_ok A) cheby_sp _ hist c0 ws0 wsf st0 stf Z (cheby_simulates st0 S0) HH Hc W0 S0 Wf Sf).
Qed.
End ChebyPrecond.
