(* Cpr.v -- preconditioner::cpr set-up (amgcl/preconditioner/cpr.hpp), definitions only.
   first_scalar_pass 190-288, init (scalar value type) 291-393, init (block value type) 402-474,
   update_transfer 395-399 / 476-511, invert 515-545, partial_update 158-176.
   The apply formula is Composite.cpr_apply.  Proofs: CprProofs*.v.
   Rows are consumed by B row iterators k[i] exactly as coded: the prefix of every row with
   column < (cur_col+1)*B is taken in each step (Adapters.span_lt), cur_col is the minimum of
   col/B over the current heads with col < N (N = active_rows or n). *)
From Amgcl Require Import Scalar Vec Crs Kernels MatOps Adapters Composite.
From Amgcl Require Import DirectUtil.
Local Open Scope S_scope.

Section Cpr.
Context {S : Scalar}.
Local Notation vec := (vec S).
Local Notation row := (row S).
Local Notation crs := (crs S).

(* if (k[i] && k[i].col() < N) : the iterator takes part in the search for the next column *)
Definition active_head (N : nat) (r : row) : row :=
  match r with
  | e :: _ => if Nat.ltb (fst e) N then r else []
  | [] => []
  end.
Definition cpr_heads_min (B N : nat) (rs : list row) : option nat := heads_min B (map (active_head N) rs).

(* v(i,j) = 0;  for(i) for(; k[i] && k[i].col() < end; ++k[i]) v(k[i].col() % B, i) = k[i].value()
   -- the TRANSPOSED diagonal block, row major B x B; assignment: the last entry written wins *)
Definition cpr_diag_block (B : nat) (takens : list row) : vec :=
  fold_left (fun v (it : nat * row) =>
               fold_left (fun v e => lset v ((fst e mod B) * B + fst it)%nat (snd e)) (snd it) v)
            (indexed takens) (repeat s0 (B * B)).

(* invert(A, y): in-place LU without pivoting (assert(!is_zero(d)) is the only check), then
   L z = e_0 and U y = z in place: y = first column of A^-1.  y0 = the (uninitialised) target *)
Definition cpr_lu (B : nat) (A : vec) : vec :=
  for_loop 0 B (fun k A =>
    let d := vget A (k * B + k) in
    for_loop (k + 1) (B - (k + 1)) (fun i A =>
      let A1 := lset A (i * B + k) (vget A (i * B + k) / d) in
      for_loop (k + 1) (B - (k + 1)) (fun j A =>
        lset A (i * B + j) (vget A (i * B + j) - vget A (i * B + k) * vget A (k * B + j))) A1) A) A.
Definition cpr_lower (B : nat) (A y0 : vec) : vec :=
  for_loop 0 B (fun i y =>
    let b := for_loop 0 i (fun j b => b - vget A (i * B + j) * vget y j) (if Nat.eqb i 0 then s1 else s0) in
    lset y i b) y0.
Definition cpr_upper (B : nat) (A y1 : vec) : vec :=
  for_down 0 B (fun i y =>
    let y' := for_loop (i + 1) (B - (i + 1)) (fun j y => lset y i (vget y i - vget A (i * B + j) * vget y j)) y in
    lset y' i (vget y' i / vget A (i * B + i))) y1.
Definition cpr_invert (B : nat) (A y0 : vec) : vec :=
  let LU := cpr_lu B A in cpr_upper B LU (cpr_lower B LU y0).

(* first_scalar_pass, one block row ip: the values fpp->val[ik .. ik+B) (d = their initial,
   uninitialised content).  get_app = false (update_transfer) leaves the loop after the
   diagonal block.  fuel: every step consumes at least one entry *)
Fixpoint cpr_pass1 (fuel B N ip : nat) (get_app : bool) (rs : list row) (d : vec) : vec :=
  match fuel with
  | O => d
  | Datatypes.S k =>
    match cpr_heads_min B N rs with
    | None => d
    | Some c =>
      let sp := map (span_lt ((c + 1) * B)) rs in
      if Nat.eqb c ip then
        let d' := cpr_invert B (cpr_diag_block B (map fst sp)) d in
        if get_app then cpr_pass1 k B N ip get_app (map snd sp) d' else d'
      else cpr_pass1 k B N ip get_app (map snd sp) d
    end
  end.

(* init(), second traversal of block row ip: app = 0; app += d[i] * value for the consumed
   entries with col % B == 0; one App entry (cur_col, app) per step *)
Definition cpr_app_val (B : nat) (d : vec) (takens : list row) : S :=
  fold_left (fun a (it : nat * row) =>
               fold_left (fun a e => if Nat.eqb (fst e mod B) 0 then a + vget d (fst it) * snd e else a) (snd it) a)
            (indexed takens) s0.
Fixpoint cpr_pass2 (fuel B N : nat) (rs : list row) (d : vec) : row :=
  match fuel with
  | O => []
  | Datatypes.S k =>
    match cpr_heads_min B N rs with
    | None => []
    | Some c =>
      let sp := map (span_lt ((c + 1) * B)) rs in
      (c, cpr_app_val B d (map fst sp)) :: cpr_pass2 k B N (map snd sp) d
    end
  end.

Definition cpr_N (n active : nat) : nat := if Nat.eqb active 0 then n else active.
Definition cpr_block_rows (B : nat) (K : crs) (ip : nat) : list row :=
  map (fun i => nth (ip * B + i) (rows K) []) (seq 0 B).
(* the weights of block row ip (junk = the uninitialised fpp->val array, N values) *)
Definition cpr_weights (B N : nat) (K : crs) (get_app : bool) (junk : vec) (ip : nat) : vec :=
  let rs := cpr_block_rows B K ip in
  cpr_pass1 (total_len rs) B N ip get_app rs (firstn B (skipn (ip * B) junk)).

(* fpp: np x N, row ip = (ik + i, d[i]), i < B *)
Definition cpr_fpp (B N : nat) (K : crs) (get_app : bool) (junk : vec) : crs :=
  mkCrs N (map (fun ip => let d := cpr_weights B N K get_app junk ip in
                          map (fun i => ((ip * B + i)%nat, vget d i)) (seq 0 B))
               (seq 0 (N / B))).
Definition cpr_App (B N : nat) (K : crs) (junk : vec) : crs :=
  mkCrs (N / B) (map (fun ip => let rs := cpr_block_rows B K ip in
                                cpr_pass2 (total_len rs) B N rs (cpr_weights B N K true junk ip))
                     (seq 0 (N / B))).
(* scatter: n x np, row ip*B = (ip, 1), every other row empty (rows >= N: empty) *)
Definition cpr_scatter (B n N : nat) : crs :=
  mkCrs (N / B) (map (fun i => if (Nat.ltb i (N / B * B) && Nat.eqb (i mod B) 0)%bool
                               then [((i / B)%nat, s1)] else [])
                     (seq 0 n)).

Record cpr_ops := mkCprOps { c_fpp : crs; c_scatter : crs; c_app : crs }.
(* init(), scalar value type *)
Definition cpr_setup (B active : nat) (K : crs) (junk : vec) : cpr_ops :=
  let n := nrows K in let N := cpr_N n active in
  mkCprOps (cpr_fpp B N K true junk) (cpr_scatter B n N) (cpr_App B N K junk).
(* the template constructor cpr(const Matrix &K, ...) copies the user matrix and sorts its rows
   (backend::sort_rows) before init(); the shared_ptr constructor calls init() directly *)
Definition cpr_make (B active : nat) (K : crs) (junk : vec) : cpr_ops := cpr_setup B active (sort_rows K) junk.
(* partial_update(K', update_transfer_ops): the copy of K' is sorted; S is rebuilt from it by the
   caller of this model; Fpp is recomputed by first_scalar_pass(K', get_app = false); Scatter and
   the pressure preconditioner (built from App) are kept *)
Definition cpr_partial_update (B active : nat) (ops : cpr_ops) (K' : crs) (update_transfer : bool) (junk : vec) : cpr_ops :=
  if update_transfer
  then mkCprOps (cpr_fpp B (cpr_N (nrows K') active) (sort_rows K') false junk) (c_scatter ops) (c_app ops)
  else ops.

(* apply(): as Composite.cpr_apply, with the last step  spmv(one, Scatter, xp, one, x)  as the
   backend performs it: only the first nrows(Scatter) entries of x are updated (with a
   block-valued matrix and active_rows < n the scatter matrix is shorter than x) *)
Definition cpr_apply_keep (A Fpp Scatter : crs) (sprecond pprecond : vec -> vec) (f : vec) : vec :=
  let x := sprecond f in
  let rs := vsub f (mv A x) in
  let xp := pprecond (mv Fpp rs) in
  upd2 (fun s xi => xi + s) (mv Scatter xp) x.
(* the two-stage operator with the components of a set-up (pprecond is built from c_app) *)
Definition cpr_operator (K : crs) (ops : cpr_ops) (sprecond : vec -> vec) (pprecond : crs -> vec -> vec) (f : vec) : vec :=
  cpr_apply_keep K (c_fpp ops) (c_scatter ops) sprecond (pprecond (c_app ops)) f.

(* ---- block value type (static_matrix<B,B> entries): init(..., std::false_type) ---- *)
(* v = math::adjoint(K->val[j]) as a row-major array *)
Definition blk_adjoint_flat (B : nat) (v : @block S) : vec :=
  flat_map (fun r => map (fun c => sadj (bget v c r)) (seq 0 B)) (seq 0 B).
Fixpoint bfirst_col (br : grow (@block S)) (i : nat) : option (@block S) :=
  match br with
  | [] => None
  | (c, v) :: tl => if Nat.eqb c i then Some v else bfirst_col tl i
  end.
Definition cprb_weights (B : nat) (br : grow (@block S)) (i : nat) (junk : vec) : vec :=
  match bfirst_col br i with
  | Some v => cpr_invert B (blk_adjoint_flat B v) (firstn B (skipn (i * B) junk))
  | None => firstn B (skipn (i * B) junk)
  end.
(* app = 0; for(k < B) app += d[k] * K->val[j](k,0) *)
Definition cprb_app_val (B : nat) (d : vec) (v : @block S) : S :=
  fold_left (fun a k => a + vget d k * bget v k 0) (seq 0 B) s0.
Definition cprb_setup (B active : nat) (Kb : gcrs (@block S)) (junk : vec) : cpr_ops :=
  let n := length (grows Kb) in let np := cpr_N n active in
  mkCprOps
    (mkCrs (np * B) (map (fun i => let d := cprb_weights B (nth i (grows Kb) []) i junk in
                                   map (fun k => ((i * B + k)%nat, vget d k)) (seq 0 B))
                         (seq 0 np)))
    (mkCrs np (map (fun i => if Nat.eqb (i mod B) 0 then [((i / B)%nat, s1)] else []) (seq 0 (np * B))))
    (mkCrs np (map (fun i => let br := nth i (grows Kb) [] in
                             let d := cprb_weights B br i junk in
                             map (fun cv => (fst cv, cprb_app_val B d (snd cv))) br)
                   (seq 0 np))).


(* init(..., std::false_type) as REPAIRED (fix: entries of the active rows in inactive block columns,
   col >= np, are skipped when App is sized and filled, as the scalar variant does): the model the
   harness compares with when the repaired code is present in the tree under test *)
Definition cprb_setup_f (B active : nat) (Kb : gcrs (@block S)) (junk : vec) : cpr_ops :=
  let n := length (grows Kb) in let np := cpr_N n active in
  let o := cprb_setup B active Kb junk in
  mkCprOps (c_fpp o) (c_scatter o)
    (mkCrs np (map (fun i => let br := nth i (grows Kb) [] in
                             let d := cprb_weights B br i junk in
                             map (fun cv => (fst cv, cprb_app_val B d (snd cv)))
                                 (filter (fun cv => Nat.ltb (fst cv) np) br))
                   (seq 0 np))).

(* sort_rows on a block-valued matrix (detail::sort_row is generic in the value type) *)
Fixpoint gins_right {X} (e : nat * X) (r : grow X) : grow X :=
  match r with
  | [] => [e]
  | e' :: tl => if Nat.leb (fst e') (fst e) then e' :: gins_right e tl else e :: e' :: tl
  end.
Definition gsort_row {X} (r : grow X) : grow X := fold_left (fun acc e => gins_right e acc) r [].
Definition cprb_make (B active : nat) (Kb : gcrs (@block S)) (junk : vec) : cpr_ops :=
  cprb_setup B active (mkG (gncols Kb) (map gsort_row (grows Kb))) junk.
Definition cprb_make_f (B active : nat) (Kb : gcrs (@block S)) (junk : vec) : cpr_ops :=
  cprb_setup_f B active (mkG (gncols Kb) (map gsort_row (grows Kb))) junk.

End Cpr.
