(* CompositeProofs4.v -- C18-A4: deflated_solver::project leaves a residual orthogonal to the
   deflation vectors when E^-1 is a right inverse of E = Z^T A Z (commutative ring); the
   deflated solve hands the ORIGINAL system to the iterative solver. *)
From Coq Require Import ZifyBool.
From Amgcl Require Import Scalar Vec Crs Kernels KernelsProofs MatOps Adapters Composite CompositeProofs.
Local Open Scope S_scope.

Section Ring.
Context {S : Scalar}.
Local Notation vec := (vec S).
Hypothesis Srt : Sring S.
Add Ring SRingK4 : Srt.

(* dense matrix (list of rows) times vector, as project() accumulates d = E^-1 f *)
Definition matvec (M : list vec) (v : vec) : vec := map (fun r => dotv r v) M.

Lemma fold_acc {X} (h : X -> S) (l : list X) (a : S) :
  fold_left (fun acc e => acc + h e) l a = a + fold_left (fun acc e => acc + h e) l s0.
Proof.
  revert a; induction l as [|e l IH]; intro a; simpl; [ring|].
  rewrite IH. rewrite (IH (s0 + _)). ring.
Qed.
Lemma dotv_acc (l : list (S * S)) (a : S) :
  fold_left (fun acc xy => acc + fst xy * snd xy) l a = a + fold_left (fun acc xy => acc + fst xy * snd xy) l s0.
Proof.
  revert a; induction l as [|e l IH]; intro a; simpl; [ring|].
  rewrite IH. rewrite (IH (s0 + _)). ring.
Qed.
Lemma dotv_cons (a b : S) (x y : vec) : dotv (a :: x) (b :: y) = a * b + dotv x y.
Proof. unfold dotv. simpl. rewrite dotv_acc. ring. Qed.
Lemma dotv_nil_l (y : vec) : dotv [] y = s0.
Proof. reflexivity. Qed.
Lemma dotv_nil_r (x : vec) : dotv x [] = s0.
Proof. destruct x; reflexivity. Qed.

Lemma dotv_comm (x y : vec) : dotv x y = dotv y x.
Proof.
  revert y; induction x as [|a x IH]; intros [|b y]; try reflexivity.
  rewrite !dotv_cons, IH. ring.
Qed.

Lemma dotv_vsub_r (z a b : vec) : length a = length b -> dotv z (vsub a b) = dotv z a - dotv z b.
Proof.
  revert a b; induction z as [|c z IH]; intros [|a0 a] [|b0 b] H; simpl in H; try lia;
    try (unfold vsub; simpl; rewrite ?dotv_nil_l, ?dotv_nil_r; ring).
  unfold vsub. simpl. fold (vsub a b). rewrite !dotv_cons, IH by lia. ring.
Qed.
Lemma dotv_vadd_r (z a b : vec) : length a = length b -> dotv z (vadd a b) = dotv z a + dotv z b.
Proof.
  revert a b; induction z as [|c z IH]; intros [|a0 a] [|b0 b] H; simpl in H; try lia;
    try (unfold vadd; simpl; rewrite ?dotv_nil_l, ?dotv_nil_r; ring).
  unfold vadd. simpl. fold (vadd a b). rewrite !dotv_cons, IH by lia. ring.
Qed.
Lemma dotv_scale_r (z a : vec) (c : S) : dotv z (map (fun v => c * v) a) = c * dotv z a.
Proof.
  revert a; induction z as [|c0 z IH]; intros [|a0 a]; simpl; rewrite ?dotv_nil_l, ?dotv_nil_r; try ring.
  rewrite !dotv_cons, IH. ring.
Qed.

(* matrix-vector products are additive and homogeneous (no shape condition beyond equal lengths) *)
Lemma vget_scale (a : vec) (c : S) i : vget (map (fun v => c * v) a) i = c * vget a i.
Proof.
  unfold vget. revert i; induction a as [|a0 a IH]; intros [|i]; simpl; try ring. apply IH.
Qed.
Lemma vget_vadd (a b : vec) i : length a = length b -> vget (vadd a b) i = vget a i + vget b i.
Proof.
  unfold vget, vadd. revert b i; induction a as [|a0 a IH]; intros [|b0 b] [|i] H; simpl in *; try lia; try ring.
  apply IH. lia.
Qed.
Lemma dotrow_scale (r : row S) (a : vec) (c : S) : dotrow r (map (fun v => c * v) a) = c * dotrow r a.
Proof.
  induction r as [|e r IH]; [unfold dotrow; simpl; ring|].
  rewrite !(dotrow_cons Srt), IH, vget_scale. ring.
Qed.
Lemma dotrow_vadd (r : row S) (a b : vec) : length a = length b -> dotrow r (vadd a b) = dotrow r a + dotrow r b.
Proof.
  intro H. induction r as [|e r IH]; [unfold dotrow; simpl; ring|].
  rewrite !(dotrow_cons Srt), IH, vget_vadd by exact H. ring.
Qed.
Lemma mv_scale (A : crs S) (a : vec) (c : S) : mv A (map (fun v => c * v) a) = map (fun v => c * v) (mv A a).
Proof. unfold mv. rewrite map_map. apply map_ext. intro r. apply dotrow_scale. Qed.
Lemma mv_vadd (A : crs S) (a b : vec) : length a = length b -> mv A (vadd a b) = vadd (mv A a) (mv A b).
Proof.
  intro H. unfold mv, vadd at 2. induction (rows A) as [|r rs IH]; [reflexivity|].
  simpl. rewrite IH, dotrow_vadd by exact H. reflexivity.
Qed.

(* ---- the projection ---- *)
Section Project.
Variables (A : crs S) (n : nat) (b : vec).
Hypothesis Hb : length b = nrows A.

Definition lin_step (acc : vec) (dz : S * vec) : vec := vadd acc (map (fun z => fst dz * z) (snd dz)).

Lemma proj_residual (z : vec) : forall (dZ : list (S * vec)) (x : vec),
  Forall (fun dz => length (snd dz) = n) dZ -> length x = n ->
  dotv z (vsub b (mv A (fold_left lin_step dZ x)))
  = dotv z (vsub b (mv A x)) - fold_left (fun acc dz => acc + fst dz * dotv z (mv A (snd dz))) dZ s0.
Proof.
  induction dZ as [|[d zj] dZ IH]; intros x HZ Hx; simpl; [ring|].
  apply Forall_cons_iff in HZ as [Hzj HZ']. simpl in Hzj.
  rewrite IH; [|exact HZ'|unfold lin_step; rewrite vadd_length; simpl; rewrite ?map_length; congruence].
  rewrite (fold_acc (fun dz : S * vec => fst dz * dotv z (mv A (snd dz))) dZ (s0 + _)).
  unfold lin_step at 1. simpl. rewrite mv_vadd by (rewrite map_length; congruence).
  rewrite mv_scale.
  rewrite !dotv_vsub_r by (rewrite ?vadd_length; rewrite ?map_length, ?mv_length; congruence).
  rewrite dotv_vadd_r by (rewrite map_length, !mv_length; reflexivity).
  rewrite dotv_scale_r. ring.
Qed.

Lemma fold_combine_map {X} (g : X -> S) (Z : list X) : forall (d : vec) (a : S),
  fold_left (fun acc dz => acc + fst dz * g (snd dz)) (combine d Z) a
  = fold_left (fun acc xy => acc + fst xy * snd xy) (combine d (map g Z)) a.
Proof. induction Z as [|z Z IH]; intros [|d0 d] a; simpl; try reflexivity. apply IH. Qed.

Lemma Forall_combine_snd {X Y} (P : Y -> Prop) (l1 : list X) (l2 : list Y) :
  Forall P l2 -> Forall (fun xy => P (snd xy)) (combine l1 l2).
Proof.
  revert l1; induction l2 as [|y l2 IH]; intros [|x l1] H; simpl; try constructor.
  - apply Forall_cons_iff in H as [H _]. exact H.
  - apply IH. apply Forall_cons_iff in H as [_ H]. exact H.
Qed.

(* A4: after project(), Z^T (b - A x) = 0, given that E^-1 is a right inverse of E on Z^T r *)
Theorem deflate_project_orthogonal (Z Einv : list vec) (x : vec) :
  Forall (fun z => length z = n) Z -> length x = n ->
  let fz := map (fun z => dotv z (vsub b (mv A x))) Z in
  matvec (deflate_E A Z) (matvec Einv fz) = fz ->
  forall z, In z Z -> dotv z (vsub b (mv A (deflate_project A Z Einv b x))) = s0.
Proof.
  intros HZ Hx fz Hinv z Hz.
  unfold deflate_project, lin_add. fold fz. fold (matvec Einv fz).
  change (fold_left (fun acc dz => vadd acc (map (fun z0 => fst dz * z0) (snd dz))) (combine (matvec Einv fz) Z) x)
    with (fold_left lin_step (combine (matvec Einv fz) Z) x).
  rewrite proj_residual; [|apply (Forall_combine_snd (fun z0 : vec => length z0 = n)); exact HZ|exact Hx].
  rewrite (fold_combine_map (fun zj => dotv z (mv A zj)) Z (matvec Einv fz) s0).
  fold (dotv (matvec Einv fz) (map (fun zj => dotv z (mv A zj)) Z)).
  unfold matvec at 1 in Hinv. unfold deflate_E in Hinv. rewrite map_map in Hinv. unfold fz at 2 in Hinv.
  pose proof (ext_in_map Hinv z Hz) as E. cbv beta in E.
  rewrite (dotv_comm (matvec Einv fz)), E. ring.
Qed.
End Project.

(* entrywise E Einv = I  ==>  E (Einv v) = v *)
Lemma sumn_swap (f : nat -> nat -> S) n m :
  sumn (fun i => sumn (fun j => f i j) m) n = sumn (fun j => sumn (fun i => f i j) n) m.
Proof.
  induction n as [|n IH]; simpl.
  - induction m as [|m IHm]; simpl; [reflexivity|]. rewrite <- IHm. ring.
  - rewrite IH. rewrite <- (sumn_add Srt). reflexivity.
Qed.

Lemma sumn_shift (f : nat -> S) n : sumn f (Datatypes.S n) = f 0%nat + sumn (fun k => f (Datatypes.S k)) n.
Proof. induction n as [|n IH]; [simpl; ring|]. simpl in *. rewrite IH. ring. Qed.

Lemma dotv_sumn (a w : vec) n : length a = n -> length w = n ->
  dotv a w = sumn (fun k => vget a k * vget w k) n.
Proof.
  revert a w; induction n as [|n IH]; intros [|a0 a] [|w0 w] Ha Hw; simpl in Ha, Hw; try lia; [reflexivity|].
  rewrite dotv_cons, sumn_shift. rewrite (IH a w) by lia. reflexivity.
Qed.

Theorem matvec_inverse (E Einv : list vec) (nv : nat) :
  length E = nv -> length Einv = nv ->
  Forall (fun r => length r = nv) E -> Forall (fun r => length r = nv) Einv ->
  (forall i j, i < nv -> j < nv ->
     sumn (fun k => vget (nth i E []) k * vget (nth k Einv []) j) nv = if Nat.eqb i j then s1 else s0) ->
  forall v, length v = nv -> matvec E (matvec Einv v) = v.
Proof.
  intros HE HI HEr HIr H v Hv. apply vec_ext; [unfold matvec; rewrite map_length; congruence|].
  intros i Hi. unfold matvec at 1 in Hi. rewrite map_length, HE in Hi.
  assert (G : forall (M : list vec) w k, k < length M -> vget (matvec M w) k = dotv (nth k M []) w).
  { intros M w k Hk. unfold vget, matvec. rewrite (nth_indep _ s0 (dotv [] w)) by (rewrite map_length; exact Hk).
    rewrite (map_nth (fun r => dotv r w)). reflexivity. }
  rewrite G by lia.
  assert (Lr : forall (M : list vec) k, Forall (fun r => length r = nv) M -> k < length M -> length (nth k M []) = nv).
  { intros M k HM Hk. rewrite Forall_forall in HM. apply HM. apply nth_In. exact Hk. }
  rewrite (dotv_sumn _ _ nv) by (try apply Lr; try (unfold matvec; rewrite map_length); congruence || lia).
  rewrite (sumn_ext _ (fun k => sumn (fun j => (vget (nth i E []) k * vget (nth k Einv []) j) * vget v j) nv)).
  2:{ intros k Hk. rewrite G by lia. rewrite (dotv_sumn _ _ nv) by (try apply Lr; congruence || lia).
      rewrite <- (sumn_scal Srt). apply sumn_ext. intros; ring. }
  rewrite sumn_swap.
  rewrite (sumn_ext _ (fun j => if Nat.eqb i j then vget v i else s0)).
  2:{ intros j Hj. rewrite (sumn_ext _ (fun k => vget v j * (vget (nth i E []) k * vget (nth k Einv []) j))) by (intros; ring).
      rewrite (sumn_scal Srt), H by lia. destruct (Nat.eqb_spec i j) as [->|]; ring. }
  rewrite (sumn_delta Srt). replace (Nat.ltb i nv) with true by (symmetry; apply Nat.ltb_lt; exact Hi). reflexivity.
Qed.

(* ---- the deflated solve: project(rhs, x); S(A, deflated preconditioner, rhs, x) ----
   iter A M rhs x0 : the iterative solver (matrix action, preconditioner action, rhs, start) *)
Definition deflated_precond (A : crs S) (Z Einv : list vec) (P : vec -> vec) (r : vec) : vec :=
  deflate_project A Z Einv r (P r).
Definition deflated_solve (iter : (vec -> vec) -> (vec -> vec) -> vec -> vec -> vec)
    (A : crs S) (Z Einv : list vec) (P : vec -> vec) (rhs x : vec) : vec :=
  iter (mv A) (deflated_precond A Z Einv P) rhs (deflate_project A Z Einv rhs x).

(* the matrix handed to the iterative solver is the original one: a converged inner solve is a
   solution of the original system (no post-processing is needed or done) *)
Theorem deflated_solve_solves iter (A : crs S) (Z Einv : list vec) (P : vec -> vec) (rhs x : vec) :
  (forall op M f x0, op (iter op M f x0) = f) ->
  mv A (deflated_solve iter A Z Einv P rhs x) = rhs.
Proof. intro H. unfold deflated_solve. apply H. Qed.

(* and the deflated preconditioner's output always has a residual orthogonal to Z *)
Theorem deflated_precond_orthogonal (A : crs S) (n : nat) (Z Einv : list vec) (P : vec -> vec) (r : vec) :
  length r = nrows A -> Forall (fun z => length z = n) Z -> length (P r) = n ->
  (forall v, length v = length Z -> matvec (deflate_E A Z) (matvec Einv v) = v) ->
  forall z, In z Z -> dotv z (vsub r (mv A (deflated_precond A Z Einv P r))) = s0.
Proof.
  intros Hr HZ HP Hinv z Hz. unfold deflated_precond.
  apply (deflate_project_orthogonal A n r Hr Z Einv (P r) HZ HP); [|exact Hz].
  apply Hinv. rewrite map_length. reflexivity.
Qed.

End Ring.
