(* Spai0Min.v -- SPAI-0 (amgcl/relaxation/spai0.hpp after the repair of finding C06-spai0-no-conj:
   `num += math::adjoint(v)`) is the row-wise least-squares minimiser for COMPLEX values.

   Value type: ComplexS S0 = std::complex<T> over an ordered field S0 (ComplexInst.v).  For a stored row r of A
   (dense semantics a_j = rget r j, duplicates-free, columns < n) and the unit vector e_i the squared residual of
   row i of I - M A with M = diag(m) is
        res2 n i r m = sum_{j<n} | delta_ij - m * a_j |^2          (an element of S0; |z|^2 = re^2 + im^2)
   and Relax.spai0_row i r = inverse(sum |a_j|^2) * adjoint(a_i) minimises it over ALL complex m:
        res2 n i r (spai0_row i r) <= res2 n i r m                  [spai0_row_minimises]
   (no hypothesis that the row is non-zero: for a zero row every m gives res2 = 1).
   math::norm of a complex number is a square root; the hypothesis [sqrt_exact_on r] says that it is exact on the
   stored entries (ssqrt(|v|^2)^2 = |v|^2: true in a real closed field, and for Gaussian rationals with a rational
   modulus -- the exact instance QcS has a pseudo-root, QcInst.qc_sqrt, exact on squares).

   HISTORICAL (the refuted clause, kept): the formula before the repair, Relax.spai0_row_old = inverse(sum|a_j|^2) * a_i,
   is NOT the minimiser for a non-real diagonal: [spai0_row_old_not_minimiser] exhibits the row (3+4i, 5+12i),
   i = 0, where the old formula gives res2 = 233/194 > 1 and the repaired one 169/194 (Spai0MinQc.v). *)
From Coq Require Import QArith Qcanon.
From Amgcl Require Import Scalar QcInst Vec Crs Kernels KernelsProofs MatOps MatOpsProofs Relax RelaxProofs
  ComplexInst AmgOrder NcRing NcKernels BlockRelaxProofs.
Local Close Scope Q_scope. Local Close Scope Qc_scope.
Local Open Scope S_scope.

Section Spai0MinComplex.
Variable S0 : Scalar.
Hypothesis Sft0 : Sfield S0.
Hypothesis Ord : ordered S0.
Let Srt0 : Sring S0 := F_R Sft0.
Add Ring SRingSpm : Srt0.
Add Field SFieldSpm : Sft0.
Local Notation C := (ComplexS S0).
Let CR : Sring C := ComplexS_ring S0 Srt0.
Let Cnc : ncring_theory C := ncring_of_ring C CR.

Definition cn2 (z : C) : S0 := c_norm2 S0 z.
Definition cdelta (i j : nat) : C := if Nat.eqb i j then s1 else s0.
(* squared Euclidean norm of row i of I - diag(m) A, restricted to row r of A *)
Definition spai0_res2 (n i : nat) (r : row C) (m : C) : S0 :=
  sumn (fun j => cn2 (cdelta i j - m * rget r j)) n.
(* dense squared row norm *)
Definition dn2 (n : nat) (r : row C) : S0 := sumn (fun j => cn2 (rget r j)) n.
(* math::norm is exact on the stored entries of the row *)
Definition sqrt_exact_on (r : row C) : Prop :=
  forall e, In e r -> ssqrt (cn2 (snd e)) * ssqrt (cn2 (snd e)) = cn2 (snd e).

(* ------------------------------------------------------------------ *)
(* order helpers (local copies: keeps the C06 closure small)           *)
Lemma cn2_nonneg (z : C) : ole s0 (cn2 z).
Proof.
  unfold cn2, c_norm2. replace (@s0 S0) with (@s0 S0 + s0) by ring.
  apply (ole_add Srt0 Ord); apply (sq_nonneg Srt0 Ord).
Qed.

Lemma nonneg_sum_zero (a b : S0) : ole s0 a -> ole s0 b -> a + b = s0 -> a = s0 /\ b = s0.
Proof.
  intros Ha Hb E.
  assert (Ea : a = s0).
  { apply (o_total S0 Ord); [exact Ha|]. change (ole a s0). replace a with (sopp b).
    - apply (proj1 (ole_opp Srt0 Ord _)). exact Hb.
    - transitivity (sopp b + (a + b)); [rewrite E; ring|ring]. }
  split; [exact Ea|]. rewrite Ea in E. rewrite <- E. ring.
Qed.

Lemma sumn_zero_each0 (f : nat -> S0) n : (forall i, i < n -> ole s0 (f i)) -> sumn f n = s0 ->
  forall i, i < n -> f i = s0.
Proof.
  induction n as [|n IH]; intros Hnn Hz i Hi; [lia|]. simpl in Hz.
  destruct (nonneg_sum_zero (sumn f n) (f n)) as [E1 E2];
    [apply (sumn_nonneg Srt0 Ord); intros; apply Hnn; lia|apply Hnn; lia|exact Hz|].
  destruct (Nat.eq_dec i n) as [->|Hne]; [exact E2|].
  apply IH; [intros; apply Hnn; lia|exact E1|lia].
Qed.

Lemma sq_zero0 (x : S0) : x * x = s0 -> x = s0.
Proof.
  intro H. destruct (olt_or_ole (S := S0) s0 (x * x)) as [P|_].
  - rewrite H in P. unfold olt in P. rewrite (o_irrefl S0 Ord) in P. discriminate.
  - (* classical-free: x <> 0 would give x * x > 0 *)
    destruct (olt_or_ole (S := S0) s0 x) as [Px|Nx].
    + pose proof (mul_pos Srt0 Ord x x Px Px) as P. rewrite H in P. unfold olt in P.
      rewrite (o_irrefl S0 Ord) in P. discriminate.
    + destruct (ole_cases Ord x s0 Nx) as [L|E]; [|exact E].
      assert (Po : olt s0 (sopp x)).
      { apply (proj2 (olt_opp Srt0 Ord (sopp x))). replace (sopp (sopp x)) with x by ring. exact L. }
      pose proof (mul_pos Srt0 Ord _ _ Po Po) as P. replace (sopp x * sopp x) with (x * x) in P by ring.
      rewrite H in P. unfold olt in P. rewrite (o_irrefl S0 Ord) in P. discriminate.
Qed.

Lemma cn2_zero (z : C) : cn2 z = s0 -> c_re z = s0 /\ c_im z = s0.
Proof.
  unfold cn2, c_norm2. intro E.
  destruct (nonneg_sum_zero _ _ (sq_nonneg Srt0 Ord (c_re z)) (sq_nonneg Srt0 Ord (c_im z)) E) as [E1 E2].
  split; apply sq_zero0; assumption.
Qed.

Lemma pos_ne0 (a : S0) : olt s0 a -> a <> s0.
Proof. intros H E. rewrite E in H. unfold olt in H. rewrite (o_irrefl S0 Ord) in H. discriminate. Qed.

Lemma sinv_pos0 (d : S0) : olt s0 d -> olt s0 (sinv d).
Proof.
  intro Hd. pose proof (pos_ne0 d Hd) as Hne.
  destruct (olt_or_ole (S := S0) s0 (sinv d)) as [P|N]; [exact P|exfalso].
  (* sinv d <= 0 and d > 0 give 1 = sinv d * d <= 0 *)
  assert (H1 : ole (sinv d * d) (s0 * d)) by (apply (ole_mul_pos Ord); assumption).
  replace (sinv d * d) with (@s1 S0) in H1 by (field; exact Hne).
  replace (s0 * d) with (@s0 S0) in H1 by ring.
  (* 1 = 1 * 1 >= 0, and 1 <> 0 *)
  destruct (ole_cases Ord _ _ H1) as [L|E].
  - pose proof (sq_nonneg Srt0 Ord (@s1 S0)) as Q. replace (@s1 S0 * s1) with (@s1 S0) in Q by ring.
    exact (olt_not_ole _ _ L Q).
  - exact (F_1_neq_0 Sft0 E).
Qed.

(* ------------------------------------------------------------------ *)
(* the residual in closed form                                         *)
Lemma cn2_term (d p q x y : S0) :
  cn2 (@ssub C (d, s0) (@smul C (p, q) (x, y)))
  = d * d - (d + d) * (p * x - q * y) + (p * p + q * q) * (x * x + y * y).
Proof. unfold cn2, c_norm2. cbn. ring. Qed.

Lemma res2_closed n i (r : row C) (p q : S0) : i < n ->
  spai0_res2 n i r (p, q)
  = s1 - (s1 + s1) * (p * c_re (rget r i) - q * c_im (rget r i)) + (p * p + q * q) * dn2 n r.
Proof.
  intro Hi. unfold spai0_res2, dn2.
  rewrite (sumn_ext _ (fun j => (if Nat.eqb i j
                                 then s1 - (s1 + s1) * (p * c_re (rget r i) - q * c_im (rget r i)) else s0)
                                + (p * p + q * q) * cn2 (rget r j))).
  - rewrite (sumn_add Srt0), (sumn_delta Srt0), (sumn_scal Srt0).
    replace (i <? n)%nat with true by (symmetry; apply Nat.ltb_lt; exact Hi). reflexivity.
  - intros j _. unfold cdelta. destruct (rget r j) as [x y] eqn:Ej.
    destruct (Nat.eqb_spec i j) as [->|Hne].
    + rewrite Ej. change (@s1 C) with ((s1, s0) : S0 * S0). rewrite cn2_term. unfold cn2, c_norm2. cbn. ring.
    + change (@s0 C) with ((s0, s0) : S0 * S0). rewrite cn2_term. unfold cn2, c_norm2. cbn. ring.
Qed.

(* ------------------------------------------------------------------ *)
(* the denominator of spai0_row is the (embedded) dense squared norm   *)
Lemma row_norm2_acc_c (r : row C) (a : C) :
  fold_left (fun acc (e : nat * C) => acc + sabs (snd e) * sabs (snd e)) r a = a + row_norm2 r.
Proof.
  unfold row_norm2. revert a; induction r as [|e r IH]; intro a; cbn [fold_left].
  - rewrite (Radd_comm CR), (Radd_0_l CR). reflexivity.
  - rewrite IH, (IH (s0 + _)). rewrite (Radd_0_l CR). symmetry. apply (Radd_assoc CR).
Qed.

Lemma cre_sq (x : S0) : @smul C (c_of_re S0 x) (c_of_re S0 x) = c_of_re S0 (x * x).
Proof. symmetry. apply (c_of_re_mul S0 Srt0). Qed.

Lemma row_norm2_dense_c (r : row C) n : NoDup (map fst r) -> row_wf n r = true -> sqrt_exact_on r ->
  row_norm2 r = c_of_re S0 (dn2 n r).
Proof.
  induction r as [|e r IH]; intros Hnd Hwf Hsq.
  - unfold row_norm2, dn2. cbn [fold_left]. rewrite (sumn_ext _ (fun _ => s0)); [rewrite (sumn_zero Srt0); reflexivity|].
    intros j _. rewrite rget_nil. unfold cn2, c_norm2. cbn. ring.
  - simpl in Hwf. apply andb_prop in Hwf as [He Hr]. cbn [map] in Hnd. inversion Hnd as [|? ? Hnin Hnd']; subst.
    unfold row_norm2 at 1. cbn [fold_left]. rewrite row_norm2_acc_c, (Radd_0_l CR).
    rewrite (IH Hnd' Hr) by (intros e' He'; apply Hsq; right; exact He').
    change (sabs (snd e)) with (c_of_re S0 (ssqrt (cn2 (snd e)))). rewrite cre_sq.
    rewrite (Hsq e (or_introl eq_refl)). rewrite <- (c_of_re_add S0 Srt0). f_equal.
    unfold dn2.
    rewrite (sumn_ext (fun j => cn2 (rget (e :: r) j))
               (fun j => (if Nat.eqb (fst e) j then cn2 (snd e) else s0) + cn2 (rget r j))).
    + rewrite (sumn_add Srt0), (sumn_delta Srt0).
      match goal with |- context [if ?b then _ else _] => replace b with true by (symmetry; exact He) end. reflexivity.
    + intros j _. rewrite (rget_cons CR). destruct (Nat.eqb_spec (fst e) j) as [<-|].
      * rewrite (rget_notin CR r (fst e) Hnin). rewrite (Radd_comm CR), (Radd_0_l CR).
        unfold cn2, c_norm2. cbn. ring.
      * rewrite (Radd_0_l CR). ring.
Qed.

(* the numerator: conj of the dense diagonal entry *)
Lemma spai0_row_complex i (r : row C) n : NoDup (map fst r) -> row_wf n r = true -> sqrt_exact_on r ->
  spai0_row i r = @smul C (@sinv C (c_of_re S0 (dn2 n r))) (@sadj C (rget r i)).
Proof.
  intros Hnd Hwf Hsq. rewrite spai0_row_eq, (row_norm2_dense_c r n Hnd Hwf Hsq).
  rewrite (nc_rget_adj_sadj Cnc r i (conj_add S0 Srt0) (conj_0 S0 Srt0)). reflexivity.
Qed.

(* ------------------------------------------------------------------ *)
(* the theorem                                                         *)
Theorem spai0_row_minimises n i (r : row C) (m : C) :
  i < n -> NoDup (map fst r) -> row_wf n r = true -> sqrt_exact_on r ->
  ole (spai0_res2 n i r (spai0_row i r)) (spai0_res2 n i r m).
Proof.
  intros Hi Hnd Hwf Hsq. rewrite (spai0_row_complex i r n Hnd Hwf Hsq).
  set (D := dn2 n r). destruct (rget r i) as [x y] eqn:Ea. destruct m as [p q].
  assert (HD : ole s0 D) by (apply (sumn_nonneg Srt0 Ord); intros; apply cn2_nonneg).
  destruct (ole_cases Ord s0 D HD) as [Dpos|Dz].
  - (* D > 0 *)
    pose proof (pos_ne0 D Dpos) as Dne.
    assert (Em : @smul C (@sinv C (c_of_re S0 D)) (@sadj C ((x, y) : T C))
                 = ((x / D, (- y) / D) : S0 * S0)).
    { apply cplx_ext; cbn; unfold c_norm2; cbn; field; (split || idtac); try exact Dne;
        intro E; apply Dne; apply sq_zero0; rewrite <- E; ring. }
    rewrite Em. rewrite !(res2_closed n i r _ _ Hi), Ea. fold D. cbn [c_re c_im fst snd].
    apply (proj2 (ole_0_sub Srt0 Ord _ _)).
    match goal with |- ole s0 ?g =>
      replace g with (((p * D - x) * (p * D - x) + (q * D + y) * (q * D + y)) * sinv D) by (field; exact Dne) end.
    apply (mul_nonneg Srt0 Ord).
    + replace (@s0 S0) with (@s0 S0 + s0) by ring. apply (ole_add Srt0 Ord); apply (sq_nonneg Srt0 Ord).
    + apply (olt_ole Ord), sinv_pos0, Dpos.
  - (* D = 0: every stored entry vanishes, the residual is 1 for every m *)
    assert (Ez : cn2 (rget r i) = s0).
    { apply (sumn_zero_each0 (fun j => cn2 (rget r j)) n); [intros; apply cn2_nonneg|symmetry; exact Dz|exact Hi]. }
    rewrite Ea in Ez. apply cn2_zero in Ez. cbn [c_re c_im fst snd] in Ez. destruct Ez as [-> ->].
    destruct (@smul C (@sinv C (c_of_re S0 D)) (@sadj C ((s0, s0) : T C))) as [p' q'].
    rewrite !(res2_closed n i r _ _ Hi), Ea. fold D. rewrite <- Dz. cbn [c_re c_im fst snd].
    match goal with |- ole ?a ?b => replace a with b by ring end. apply (ole_refl Ord).
Qed.

End Spai0MinComplex.

(* ------------------------------------------------------------------ *)
(* REAL value types (an ordered field with math::norm^2 = v^2 and math::adjoint = id): the base clause.
        rres2 n i r m = sum_{j<n} (delta_ij - m * a_j)^2   is minimal at   m = spai0_row i r = a_i / sum_j a_j^2 . *)
Section Spai0MinReal.
Context {S : Scalar}.
Hypothesis Sft : Sfield S.
Hypothesis Ord : ordered S.
Hypothesis Habs2 : forall v : S, sabs v * sabs v = v * v.
Hypothesis Hadj : forall v : S, sadj v = v.
Let Srt : Sring S := F_R Sft.
Add Ring SRingSpr : Srt.
Add Field SFieldSpr : Sft.

Definition rdelta (i j : nat) : S := if Nat.eqb i j then s1 else s0.
Definition spai0_rres2 (n i : nat) (r : row S) (m : S) : S :=
  sumn (fun j => (rdelta i j - m * rget r j) * (rdelta i j - m * rget r j)) n.
Definition rn2 (n : nat) (r : row S) : S := sumn (fun j => rget r j * rget r j) n.

Lemma row_norm2_acc_r (r : row S) (a : S) :
  fold_left (fun acc (e : nat * S) => acc + sabs (snd e) * sabs (snd e)) r a = a + row_norm2 r.
Proof.
  unfold row_norm2. revert a; induction r as [|e r IH]; intro a; simpl; [ring|].
  rewrite IH, (IH (s0 + _)). ring.
Qed.

Lemma row_norm2_dense_r (r : row S) n : NoDup (map fst r) -> row_wf n r = true -> row_norm2 r = rn2 n r.
Proof.
  induction r as [|e r IH]; intros Hnd Hwf.
  - unfold row_norm2, rn2. simpl. rewrite (sumn_ext _ (fun _ => s0)); [symmetry; apply (sumn_zero Srt)|].
    intros j _. rewrite rget_nil. ring.
  - simpl in Hwf. apply andb_prop in Hwf as [He Hr]. cbn [map] in Hnd. inversion Hnd as [|? ? Hnin Hnd']; subst.
    unfold row_norm2 at 1. cbn [fold_left]. rewrite row_norm2_acc_r, Habs2, (IH Hnd' Hr). unfold rn2.
    rewrite (sumn_ext (fun j => rget (e :: r) j * rget (e :: r) j)
               (fun j => (if Nat.eqb (fst e) j then snd e * snd e else s0) + rget r j * rget r j)).
    + rewrite (sumn_add Srt), (sumn_delta Srt), He. ring.
    + intros j _. rewrite (rget_cons Srt). destruct (Nat.eqb_spec (fst e) j) as [<-|]; [|ring].
      rewrite (rget_notin Srt r (fst e) Hnin). ring.
Qed.

Lemma rres2_closed n i (r : row S) (m : S) : i < n ->
  spai0_rres2 n i r m = s1 - (s1 + s1) * (m * rget r i) + (m * m) * rn2 n r.
Proof.
  intro Hi. unfold spai0_rres2, rn2.
  rewrite (sumn_ext _ (fun j => (if Nat.eqb i j then s1 - (s1 + s1) * (m * rget r i) else s0)
                                + (m * m) * (rget r j * rget r j))).
  - rewrite (sumn_add Srt), (sumn_delta Srt), (sumn_scal Srt).
    replace (i <? n)%nat with true by (symmetry; apply Nat.ltb_lt; exact Hi). reflexivity.
  - intros j _. unfold rdelta. destruct (Nat.eqb_spec i j) as [->|Hne]; ring.
Qed.

Theorem spai0_row_minimises_real n i (r : row S) (m : S) :
  i < n -> NoDup (map fst r) -> row_wf n r = true ->
  ole (spai0_rres2 n i r (spai0_row i r)) (spai0_rres2 n i r m).
Proof.
  intros Hi Hnd Hwf. rewrite (spai0_row_eq_id i r Hadj), (row_norm2_dense_r r n Hnd Hwf).
  rewrite !(rres2_closed n i r _ Hi). set (D := rn2 n r). set (a := rget r i).
  assert (HD : ole s0 D) by (apply (sumn_nonneg Srt Ord); intros; apply (sq_nonneg Srt Ord)).
  destruct (ole_cases Ord s0 D HD) as [Dpos|Dz].
  - pose proof (pos_ne0 S Ord D Dpos) as Dne.
    apply (proj2 (ole_0_sub Srt Ord _ _)).
    match goal with |- ole s0 ?g =>
      replace g with (((m * D - a) * (m * D - a)) * sinv D) by (field; exact Dne) end.
    apply (mul_nonneg Srt Ord); [apply (sq_nonneg Srt Ord)|apply (olt_ole Ord), (sinv_pos0 S Sft Ord), Dpos].
  - assert (Ez : a * a = s0).
    { apply (sumn_zero_each0 S Sft Ord (fun j => rget r j * rget r j) n);
        [intros; apply (sq_nonneg Srt Ord)|symmetry; exact Dz|exact Hi]. }
    apply (sq_zero0 S Sft Ord) in Ez. rewrite Ez, <- Dz.
    match goal with |- ole ?x ?y => replace x with y by ring end. apply (ole_refl Ord).
Qed.

End Spai0MinReal.
