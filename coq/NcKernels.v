(* NcKernels.v -- the algebraic characterisations of the backend primitives (KernelsProofs.v, part 2)
   re-proved WITHOUT commutativity of the product: for every [ncring_theory S], in particular for
   block values [BlockS S0 b].  The statements are literally those of KernelsProofs.v -- the models
   keep the operand order of the C++ (matrix entry on the LEFT of the vector entry, coefficient on the
   left of everything), and so do the specifications:
       dotrow r x      = sum_j r_j * x_j
       spmv            y_i' = alpha * (A x)_i + beta * y_i
       residual        r_i  = f_i - (A x)_i
       axpby, axpbypcz, vmul  (z_i' = a * x_i * y_i + b * z_i : (a * M_i) * y_i)                     *)
From Amgcl Require Import Scalar Vec Crs Kernels KernelsProofs NcRing.
Local Open Scope S_scope.

Section NcKernels.
Context {S : Scalar}.
Local Notation vec := (vec S).
Hypothesis Hnc : ncring_theory S.
Hypothesis Seqb : seqb_spec S.
Local Instance nck : NcRingInst S := ncring_inst Hnc.

Lemma nc_is_zero_true (b : S) : is_zero b = true -> b = s0.
Proof. unfold is_zero. apply Seqb. Qed.

Lemma nc_rget_acc (r : row S) j (a : S) :
  fold_left (fun acc e => if Nat.eqb (fst e) j then acc + snd e else acc) r a = a + rget r j.
Proof.
  unfold rget. revert a; induction r as [|e r IH]; intro a; simpl; [ncr|].
  rewrite IH. rewrite (IH (if Nat.eqb (fst e) j then s0 + snd e else s0)).
  destruct (Nat.eqb (fst e) j); ncr.
Qed.

Lemma nc_rget_cons (e : nat * S) (r : row S) j :
  rget (e :: r) j = (if Nat.eqb (fst e) j then snd e else s0) + rget r j.
Proof.
  unfold rget at 1; simpl. rewrite nc_rget_acc. destruct (Nat.eqb (fst e) j); ncr.
Qed.

Lemma nc_rget_nil j : rget (@nil (nat * S)) j = s0.
Proof. reflexivity. Qed.

Lemma nc_rget_app (r1 r2 : row S) j : rget (r1 ++ r2) j = rget r1 j + rget r2 j.
Proof.
  induction r1 as [|e r1 IH]; simpl.
  - rewrite nc_rget_nil. ncr.
  - rewrite !nc_rget_cons, IH. ncr.
Qed.

Lemma nc_dotrow_acc (r : row S) (x : vec) (a : S) :
  fold_left (fun acc e => acc + snd e * vget x (fst e)) r a = a + dotrow r x.
Proof.
  unfold dotrow. revert a; induction r as [|e r IH]; intro a; simpl; [ncr|].
  rewrite IH. rewrite (IH (s0 + _)). ncr.
Qed.

Lemma nc_dotrow_cons (e : nat * S) (r : row S) (x : vec) :
  dotrow (e :: r) x = snd e * vget x (fst e) + dotrow r x.
Proof. unfold dotrow at 1; simpl. rewrite nc_dotrow_acc. ncr. Qed.

(* dotrow = sum over all columns of (dense entry) * x_j : entry on the LEFT *)
Lemma nc_dotrow_spec (r : row S) (x : vec) m : row_wf m r = true ->
  dotrow r x = sumn (fun j => rget r j * vget x j) m.
Proof.
  induction r as [|e r IH]; intro Hwf.
  - unfold dotrow; simpl. rewrite (sumn_ext _ (fun _ => s0)).
    + symmetry; apply (ncsumn_zero Hnc).
    + intros; rewrite nc_rget_nil; ncr.
  - simpl in Hwf. apply andb_prop in Hwf as [He Hr].
    rewrite nc_dotrow_cons, IH by exact Hr.
    rewrite (sumn_ext (fun j => rget (e :: r) j * vget x j)
               (fun j => (if Nat.eqb j (fst e) then snd e * vget x (fst e) else s0) + rget r j * vget x j)).
    + rewrite (ncsumn_add Hnc), (ncsumn_delta Hnc). rewrite He. reflexivity.
    + intros j _. rewrite nc_rget_cons. rewrite (Nat.eqb_sym j).
      destruct (Nat.eqb_spec (fst e) j) as [->|]; ncr.
Qed.

Lemma nc_dotrows_get (A : crs S) (x : vec) i : wf A = true -> i < nrows A ->
  vget (map (fun r => dotrow r x) (rows A)) i = Ax A x i.
Proof.
  intros Hwf Hi. unfold vget, Ax, mget.
  rewrite (nth_indep _ s0 (dotrow [] x)) by (rewrite map_length; exact Hi).
  rewrite (map_nth (fun r => dotrow r x)).
  apply nc_dotrow_spec. apply forallb_nth; assumption.
Qed.

Theorem nc_spmv_spec alpha (A : crs S) (x : vec) beta (y : vec) i :
  wf A = true -> length y = nrows A -> i < nrows A ->
  vget (spmv alpha A x beta y) i = alpha * Ax A x i + beta * vget y i.
Proof.
  intros Hwf Hy Hi. unfold spmv.
  destruct (is_zero beta) eqn:Hb.
  - rewrite upd2_get by (rewrite ?map_dotrow_length; congruence).
    rewrite nc_dotrows_get by assumption. apply nc_is_zero_true in Hb. subst beta. ncr.
  - rewrite upd2_get by (rewrite ?map_dotrow_length; congruence).
    rewrite nc_dotrows_get by assumption. ncr.
Qed.

Theorem nc_residual_spec (f : vec) (A : crs S) (x r : vec) i :
  wf A = true -> length f = nrows A -> length r = nrows A -> i < nrows A ->
  vget (residual f A x r) i = vget f i - Ax A x i.
Proof.
  intros Hwf Hf Hr Hi. unfold residual.
  rewrite upd3_get by (rewrite ?map_dotrow_length; congruence).
  rewrite nc_dotrows_get by assumption. reflexivity.
Qed.

Theorem nc_axpby_spec a (x : vec) b (y : vec) i : length y = length x -> i < length x ->
  vget (axpby a x b y) i = a * vget x i + b * vget y i.
Proof.
  intros Hy Hi. unfold axpby. destruct (is_zero b) eqn:Hb.
  - rewrite upd2_get by congruence. apply nc_is_zero_true in Hb; subst b; ncr.
  - rewrite upd2_get by congruence. reflexivity.
Qed.

Theorem nc_axpbypcz_spec a (x : vec) b (y : vec) c (z : vec) i :
  length y = length x -> length z = length x -> i < length x ->
  vget (axpbypcz a x b y c z) i = a * vget x i + b * vget y i + c * vget z i.
Proof.
  intros Hy Hz Hi. unfold axpbypcz. destruct (is_zero c) eqn:Hc.
  - rewrite upd3_get by congruence. apply nc_is_zero_true in Hc; subst c; ncr.
  - rewrite upd3_get by congruence. reflexivity.
Qed.

Theorem nc_vmul_spec a (x y : vec) b (z : vec) i :
  length y = length x -> length z = length x -> i < length x ->
  vget (vmul a x y b z) i = a * vget x i * vget y i + b * vget z i.
Proof.
  intros Hy Hz Hi. unfold vmul. destruct (is_zero b) eqn:Hb.
  - rewrite upd3_get by congruence. apply nc_is_zero_true in Hb; subst b; ncr.
  - rewrite upd3_get by congruence. reflexivity.
Qed.

(* A (x + y), A (c-scaled from the RIGHT): the dense action is additive and right-linear *)
Lemma nc_Ax_add (A : crs S) (x y z : vec) i :
  (forall j, vget z j = vget x j + vget y j) -> Ax A z i = Ax A x i + Ax A y i.
Proof.
  intro H. unfold Ax. rewrite <- (ncsumn_add Hnc). apply sumn_ext. intros j _. rewrite H. ncr.
Qed.

End NcKernels.
