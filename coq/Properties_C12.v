(* placeholder until DistSolveProofs.v is ready *)
From Amgcl Require Import Scalar Vec Crs Kernels Dist DistSolve.
Theorem C12_placeholder : True. Proof. exact I. Qed.
