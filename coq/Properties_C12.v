(* Properties_C12.v -- C12: the distributed solve is truthful and rank-consistent for any rank
   count.  Statements only; proofs live in DistSolveProofs.v (+ DistProofs.v, KrylovProofs.v).

   Model (DistSolve.v): every rank of a world runs its own copy of the CG of
   amgcl/solver/cg.hpp (the serial model is Krylov.cg, the object of C01/C05) on its slices of
   the vectors, with its PRIVATE copies of all scalars (rho, alpha, residual norm, iteration
   counter, eps, norm_rhs).  The ranks are coupled only through the distributed operator,
   the distributed preconditioner and mpi::inner_product (local sum + MPI_Allreduce, which
   hands every rank its own copy of the result).  Every rank evaluates the loop condition
   and the prologue branch on its own copies; if the ranks disagreed, some would enter a
   collective the others never call -- the model then returns None.

   A world vector has shape [parts] (one slice per rank, slice r of length parts_r, zero
   allowed).  The distributed operator [Aw] and preconditioner [Pw] enter through what
   C11-A1 proves for the distributed matrix: on world vectors of the right shape they act
   as the serial [Aser]/[Pser] act on the assembled vector.

   TRUSTED, NOT PROVED: the MPI runtime realises the collective model (progress, no
   deadlock, arrival order); the distributed preconditioners of amgcl (smoothing of P,
   repartitioning, consolidated coarse solve; block relaxations) are NOT modelled -- they
   enter as [Pw] with the assumption HP, and are covered by the oracle runs of bin/check C12
   only.  Other Krylov methods: rank-consistency oracle only.

   C12-B (end of this file): the distributed PMIS aggregation of mpi/coarsening/pmis.hpp
   (block_size 1, no near-null space) IS modelled (Pmis.v: a global round-based state machine
   over the world of ranks, tied exactly to the implementation by bin/check C12): termination
   within the fuel and the partition invariant across rank boundaries are proved. *)
From Amgcl Require Import Scalar QcInst Vec Crs Kernels KernelsProofs MatOps Dist DistProofs Krylov KrylovProofs
                          DistSolve DistSolveProofs DistSolveTruth Pmis PmisProofs PmisPartition PmisOracle.
From Coq Require Import QArith_base Qcanon.
Local Close Scope Q_scope.
Local Close Scope Qc_scope.
Local Open Scope nat_scope.

Section Ring.
Variable S : Scalar.
Hypothesis Srt : Sring S.
Hypothesis Seqb : seqb_spec S.

(* C12-A1: for every rank count >= 1 and every partition (empty ranks included), the rank-lifted
   CG never gets stuck (all ranks take the same branch of the prologue and leave the loop in
   the same iteration), every rank reports the SAME iteration count and residual -- those of
   the serial CG on the assembled system with the assembled preconditioner -- and the ranks'
   slices of x assemble to the serial solution. *)
Theorem C12_rank_lifted_cg (parts : list nat) (Aw Pw : list (vec S) -> list (vec S)) (Aser Pser : vec S -> vec S)
        prm (Fs Xs0 : list (vec S)) (junk : wcg) (sjunk : cg_ws) :
  0 < length parts ->
  (forall Xs, shape parts Xs -> shape parts (Aw Xs) /\ concat (Aw Xs) = Aser (concat Xs)) ->
  (forall Xs, shape parts Xs -> shape parts (Pw Xs) /\ concat (Pw Xs) = Pser (concat Xs)) ->
  shape parts Fs -> shape parts Xs0 ->
  shape parts (w_s junk) -> shape parts (w_p junk) -> shape parts (w_q junk) ->
  concat (w_s junk) = cg_s sjunk -> concat (w_p junk) = cg_p sjunk -> concat (w_q junk) = cg_q sjunk ->
  exists r res,
    fst (cg Aser Pser prm (concat Fs) (concat Xs0) sjunk) = KOk r /\
    wcg_run Aw Pw prm Fs Xs0 junk = Some res /\
    map (@k_it S) res = repeat (k_it r) (length parts) /\
    map (@k_res S) res = repeat (k_res r) (length parts) /\
    shape parts (map (@k_x S) res) /\
    concat (map (@k_x S) res) = k_x r.
Proof.
  intros Hn HA HP. exact (wcg_run_spec Srt parts Hn Aw Pw Aser Pser HA HP prm Fs Xs0 junk sjunk).
Qed.

(* the same for the rank-lifted Richardson iteration (amgcl/solver/richardson.hpp) *)
Theorem C12_rank_lifted_richardson (parts : list nat) (Aw Pw : list (vec S) -> list (vec S)) (Aser Pser : vec S -> vec S)
        prm (Fs Xs0 junk_s : list (vec S)) (sjunk : @ri_ws S) :
  0 < length parts ->
  (forall Xs, shape parts Xs -> shape parts (Aw Xs) /\ concat (Aw Xs) = Aser (concat Xs)) ->
  (forall Xs, shape parts Xs -> shape parts (Pw Xs) /\ concat (Pw Xs) = Pser (concat Xs)) ->
  shape parts Fs -> shape parts Xs0 ->
  exists r res,
    fst (richardson Aser Pser prm (concat Fs) (concat Xs0) sjunk) = KOk r /\
    wri_run Aw Pw prm Fs Xs0 junk_s = Some res /\
    map (@k_it S) res = repeat (k_it r) (length parts) /\
    map (@k_res S) res = repeat (k_res r) (length parts) /\
    shape parts (map (@k_x S) res) /\
    concat (map (@k_x S) res) = k_x r.
Proof.
  intros Hn HA HP. exact (wri_run_spec Srt parts Hn Aw Pw Aser Pser HA HP prm Fs Xs0 junk_s sjunk).
Qed.

(* truthfulness of the rank-lifted Richardson: on every rank the reported residual is the true relative
   residual of the assembled iterate (C01 richardson_residual_truthful: the residual is recomputed) *)
Theorem C12_distributed_richardson_truthful (A : crs S) (parts : list nat)
        (Pw : list (vec S) -> list (vec S)) (Pser : vec S -> vec S)
        prm (Fs Xs0 junk_s : list (vec S)) (sjunk : @ri_ws S) nr :
  0 < length parts ->
  wf A = true -> psum parts = nrows A -> psum parts = ncols A ->
  (forall Xs, shape parts Xs -> shape parts (Pw Xs) /\ concat (Pw Xs) = Pser (concat Xs)) ->
  shape parts Fs -> shape parts Xs0 ->
  k_prologue norm_a prm (concat Fs) = Go nr ->
  exists res,
    wri_run (dist_op A parts) Pw prm Fs Xs0 junk_s = Some res /\
    forall k, In k res ->
      k_res k = (true_res norm_a (serial_op A) Pser false (concat Fs) (concat (map (@k_x S) res)) / nr)%S.
Proof. exact (distributed_richardson_truthful S Srt Seqb A parts Pw Pser prm Fs Xs0 junk_s sjunk nr). Qed.

(* the distributed matrix of C11 satisfies the operator hypothesis, for every partition *)
Theorem C12_distributed_matrix_is_world_operator (A : crs S) (parts : list nat) :
  wf A = true -> psum parts = nrows A -> psum parts = ncols A ->
  forall Xs, shape parts Xs ->
    shape parts (dist_op A parts Xs) /\ concat (dist_op A parts Xs) = serial_op A (concat Xs).
Proof. exact (dist_op_is_world_op Srt Seqb A parts). Qed.

(* C12-A1 + A2 for the distributed matrix: with mpi::distributed_matrix as operator, on every
   rank the reported (iters, residual) are those of the serial CG on the assembled matrix, and
   the reported residual is the TRUE relative residual of the assembled solution
   (true_res = || f - A x ||, from C01-A1 cg_residual_truthful and C11-A1). *)
Theorem C12_distributed_cg_truthful (A : crs S) (parts : list nat)
        (Pw : list (vec S) -> list (vec S)) (Pser : vec S -> vec S)
        prm (Fs Xs0 : list (vec S)) (junk : wcg) (sjunk : cg_ws) nr :
  0 < length parts ->
  wf A = true -> psum parts = nrows A -> ncols A = nrows A ->
  (forall Xs, shape parts Xs -> shape parts (Pw Xs) /\ concat (Pw Xs) = Pser (concat Xs)) ->
  (forall v, length v = nrows A -> length (Pser v) = nrows A) ->
  shape parts Fs -> shape parts Xs0 ->
  shape parts (w_s junk) -> shape parts (w_p junk) -> shape parts (w_q junk) ->
  concat (w_s junk) = cg_s sjunk -> concat (w_p junk) = cg_p sjunk -> concat (w_q junk) = cg_q sjunk ->
  k_prologue norm_a prm (concat Fs) = Go nr ->
  exists res,
    wcg_run (dist_op A parts) Pw prm Fs Xs0 junk = Some res /\
    length res = length parts /\
    forall k, In k res ->
      k_res k = (true_res norm_a (serial_op A) Pser false (concat Fs) (concat (map (@k_x S) res)) / nr)%S /\
      k_it k <= p_maxiter prm.
Proof. exact (distributed_cg_truthful S Srt Seqb A parts Pw Pser prm Fs Xs0 junk sjunk nr). Qed.
End Ring.
Print Assumptions C12_rank_lifted_cg.
Print Assumptions C12_distributed_cg_truthful.
Print Assumptions C12_rank_lifted_richardson.
Print Assumptions C12_distributed_richardson_truthful.

(* closed instance at the exact rationals *)
Theorem C12_rank_lifted_cg_Qc (parts : list nat) (Aw Pw : list (vec QcS) -> list (vec QcS)) (Aser Pser : vec QcS -> vec QcS)
        prm (Fs Xs0 : list (vec QcS)) (junk : wcg) (sjunk : cg_ws) :
  0 < length parts ->
  (forall Xs, shape parts Xs -> shape parts (Aw Xs) /\ concat (Aw Xs) = Aser (concat Xs)) ->
  (forall Xs, shape parts Xs -> shape parts (Pw Xs) /\ concat (Pw Xs) = Pser (concat Xs)) ->
  shape parts Fs -> shape parts Xs0 ->
  shape parts (w_s junk) -> shape parts (w_p junk) -> shape parts (w_q junk) ->
  concat (w_s junk) = cg_s sjunk -> concat (w_p junk) = cg_p sjunk -> concat (w_q junk) = cg_q sjunk ->
  exists r res,
    fst (cg Aser Pser prm (concat Fs) (concat Xs0) sjunk) = KOk r /\
    wcg_run Aw Pw prm Fs Xs0 junk = Some res /\
    map (@k_it QcS) res = repeat (k_it r) (length parts) /\
    map (@k_res QcS) res = repeat (k_res r) (length parts) /\
    shape parts (map (@k_x QcS) res) /\
    concat (map (@k_x QcS) res) = k_x r.
Proof. exact (C12_rank_lifted_cg QcS QcS_ring parts Aw Pw Aser Pser prm Fs Xs0 junk sjunk). Qed.
Print Assumptions C12_rank_lifted_cg_Qc.

Theorem C12_distributed_matrix_is_world_operator_Qc (A : crs QcS) (parts : list nat) :
  wf A = true -> psum parts = nrows A -> psum parts = ncols A ->
  forall Xs, shape parts Xs ->
    shape parts (dist_op A parts Xs) /\ concat (dist_op A parts Xs) = serial_op A (concat Xs).
Proof. exact (C12_distributed_matrix_is_world_operator QcS QcS_ring QcS_eqb A parts). Qed.
Print Assumptions C12_distributed_matrix_is_world_operator_Qc.

(* non-vacuity: a 3-rank world with an empty rank, a distributed Jacobi preconditioner (a
   rank-local diagonal scaling satisfies HP), two CG iterations: the rank-lifted run exists,
   all ranks report the serial (iters, residual), the slices assemble to the serial x *)
(* values are compared through their canonical fractions (the canonicity proofs inside Qc are irrelevant) *)
Definition qval (q : QcS) : QArith_base.Q := Qcanon.this q.
Definition ex_A : crs QcS := mkCrs 4 [[(0, qc 2 1); (1, qc (-1) 1)]; [(0, qc (-1) 1); (1, qc 2 1); (2, qc (-1) 1)];
                                      [(1, qc (-1) 1); (2, qc 2 1); (3, qc (-1) 1)]; [(2, qc (-1) 1); (3, qc 2 1)]].
Definition ex_parts := [2; 0; 2].
Definition ex_Pw (Xs : list (vec QcS)) : list (vec QcS) := map (map (fun v => (qc 1 2 * v)%S)) Xs.
Definition ex_Pser (x : vec QcS) : vec QcS := map (fun v => (qc 1 2 * v)%S) x.
Definition ex_prm : @kprm QcS :=
  {| p_maxiter := 2; p_tol := qc 1 1000000; p_abstol := qc 0 1; p_ns := false; p_ca := false; p_M := 30;
     p_left := false; p_damping := qc 1 1; p_K := 3; p_areset := true; p_L := 2; p_delta := qc 0 1; p_convex := true |}.
Definition ex_junk : @wcg QcS := mkWcg [] [] [[qc 0 1; qc 0 1]; []; [qc 0 1; qc 0 1]] [[qc 0 1; qc 0 1]; []; [qc 0 1; qc 0 1]]
                                       [[qc 0 1; qc 0 1]; []; [qc 0 1; qc 0 1]] [] [] [] [].
Example C12_nonvacuous :
  let Fs := [[qc 1 1; qc 0 1]; []; [qc 0 1; qc 1 1]] in
  let Xs0 := [[qc 0 1; qc 0 1]; []; [qc 0 1; qc 0 1]] in
  match wcg_run (dist_op ex_A ex_parts) ex_Pw ex_prm Fs Xs0 ex_junk,
        fst (cg (serial_op ex_A) ex_Pser ex_prm (concat Fs) (concat Xs0) (mkCgWs [] [] [] [])) with
  | Some res, KOk r => map (@k_it QcS) res = [k_it r; k_it r; k_it r] /\ k_it r = 2 /\
                       map qval (concat (map (@k_x QcS) res)) = map qval (k_x r) /\
                       map qval (k_x r) = [(1 # 1)%Q; (1 # 1)%Q; (1 # 1)%Q; (1 # 1)%Q] /\
                       map qval (map (@k_res QcS) res) = [(0 # 1)%Q; (0 # 1)%Q; (0 # 1)%Q]
  | _, _ => False
  end.
Proof. vm_compute. repeat split; reflexivity. Qed.


(* ====================================================================================================
   C12-B: the distributed PMIS aggregation (amgcl/mpi/coarsening/pmis.hpp, aggregates(), block_size = 1).

   Model (Pmis.v): the world state is one list indexed by the global unknown (what the owner holds in
   loc_state/loc_owner); in a round every rank sweeps over its own unknowns -- it reads the other ranks' unknowns
   as they were at the beginning of the round (rem_state after Sp.exchange) plus its own claims of this round --,
   selects roots (an undecided boundary unknown is selectable when no undecided S-neighbour lives on a HIGHER
   rank: the priority is the rank number, there are no random weights), claims neighbours, and the claims of
   remote unknowns are delivered in the order of the neighbour lists; rounds are repeated until the Allreduce of
   the undecided counts is 0; then ids without members are dropped and the rest renumbered (ranks see their own
   unknowns and their S-ghosts).  [parts] = list of the ranks' sizes (zeros allowed), [G] = the strength pattern
   (rows of global columns, Pmis.conn computes it from the matrix).  All statements hold for EVERY rank count and
   EVERY contiguous partition, structurally symmetric or not.
   Trusted: the MPI runtime delivers the point-to-point messages completely and in neighbour-list order. *)

(* every round decides at least one undecided unknown (the last undecided unknown of the world is on the highest
   rank that still has one, so it is selectable or already taken when its rank's sweep reaches it) *)
Theorem C12_pmis_round_progress (parts : list nat) (G : list (list nat)) (w : Pmis.world) :
  length (w_st w) = psum parts -> any_undone (w_st w) = true ->
  count_undone (w_st (round parts G w)) < count_undone (w_st w).
Proof. exact (round_progress parts G w). Qed.

(* termination within the fuel (number of initially undecided unknowns + 1 for the do-while), for every world;
   nothing decided becomes undecided or deleted again *)
Theorem C12_pmis_terminates (parts : list nat) (G : list (list nat)) :
  exists w, rounds parts G (pmis_fuel parts G) (init_world parts G) = Some w /\
            any_undone (w_st w) = false /\ mono (init_state parts G) (w_st w).
Proof. exact (pmis_rounds_terminate parts G). Qed.

(* the partition invariant across rank boundaries: with the diagonal in every strength row (conn_strength keeps
   c == i), the aggregation returns a world in which every unknown is either left out or in exactly one aggregate
   (id below its owner rank's count), every unknown with a strong connection ("not lonely": more than the diagonal
   in its row of the strength matrix / squared interface) is aggregated, and no aggregate is empty: the ids of every
   rank are exactly 0..naggr-1 *)
Theorem C12_pmis_partition (parts : list nat) (G : list (list nat)) :
  (forall i, i < psum parts -> In i (grow G i)) ->
  exists w, pmis parts G = Some w /\
    (forall c, c < psum parts ->
       getn (w_st w) c = mkNode Deleted None \/
       exists o id, getn (w_st w) c = mkNode (Agg id) (Some o) /\ o < length parts /\ id < nth o (w_na w) 0) /\
    (forall c, c < psum parts -> lonely parts G c = false -> exists o id, getn (w_st w) c = mkNode (Agg id) (Some o)) /\
    (forall o id, o < length parts -> id < nth o (w_na w) 0 ->
       exists c, c < psum parts /\ getn (w_st w) c = mkNode (Agg id) (Some o)).
Proof. exact (pmis_partition parts G). Qed.

(* the same for the columns of the tentative prolongation (column = id + exclusive_sum(naggr)[owner], what the tie
   compares with P_tent): global numbering without gaps, every coarse column hit, every non-lonely unknown has one *)
Theorem C12_pmis_columns_partition (parts : list nat) (G : list (list nat)) :
  (forall i, i < psum parts -> In i (grow G i)) ->
  exists cols nas, pmis_columns parts G = Some (cols, nas) /\ length cols = psum parts /\ length nas = length parts /\
    (forall c j, c < psum parts -> nth c cols None = Some j -> j < psum nas) /\
    (forall j, j < psum nas -> exists c, c < psum parts /\ nth c cols None = Some j) /\
    (forall c, c < psum parts -> lonely parts G c = false -> nth c cols None <> None).
Proof. exact (pmis_columns_partition parts G). Qed.

(* the oracle that bin/check C12 evaluates on the IMPLEMENTATION's gathered P_tent (DistSolve.partition_ok: at most one
   unit entry per row, every coarse column hit) is met by the model's P_tent, for every world *)
Theorem C12_pmis_model_passes_partition_oracle (S : Scalar) (Seqb : seqb_spec S) (parts : list nat) (G : list (list nat)) :
  (forall i, i < psum parts -> In i (grow G i)) ->
  exists cols nas, pmis_columns parts G = Some (cols, nas) /\ partition_ok (ptent_of S cols (psum nas)) = true.
Proof. exact (pmis_model_passes_partition_oracle S Seqb parts G). Qed.
Theorem C12_pmis_model_passes_partition_oracle_Qc (parts : list nat) (G : list (list nat)) :
  (forall i, i < psum parts -> In i (grow G i)) ->
  exists cols nas, pmis_columns parts G = Some (cols, nas) /\ partition_ok (ptent_of QcS cols (psum nas)) = true.
Proof. exact (C12_pmis_model_passes_partition_oracle QcS QcS_eqb parts G). Qed.

(* what "lonely" (removed before the rounds, never aggregated in a structurally symmetric world) means: the row of the
   strength matrix holds nothing but the diagonal; so C12_pmis_partition says: every unknown with a strong connection to
   another unknown -- on whichever rank -- is in exactly one aggregate *)
Theorem C12_pmis_lonely_iff_isolated (parts : list nat) (G : list (list nat)) (i : nat) :
  NoDup (grow G i) -> In i (grow G i) ->
  (lonely parts G i = false <-> exists c, In c (grow G i) /\ c <> i).
Proof. exact (lonely_spec parts G i). Qed.

(* rank-count independence does NOT hold (the property allows that): the same graph is aggregated differently under
   different partitions -- path 0-1-2-3: one rank {0,1} {2,3}; ranks [2;2]: {0,1,2,3} *)
Theorem C12_pmis_depends_on_partition :
  pmis_columns [4] ex_path4 = Some ([Some 0; Some 0; Some 1; Some 1], [2]) /\
  pmis_columns [2; 2] ex_path4 = Some ([Some 0; Some 0; Some 0; Some 0], [0; 1]) /\
  pmis_columns [1; 1; 1; 1] ex_path4 = Some ([Some 0; Some 0; Some 1; Some 1], [1; 0; 0; 1]).
Proof. exact pmis_depends_on_partition. Qed.
Print Assumptions C12_pmis_round_progress.
Print Assumptions C12_pmis_terminates.
Print Assumptions C12_pmis_partition.
Print Assumptions C12_pmis_columns_partition.
Print Assumptions C12_pmis_model_passes_partition_oracle.
Print Assumptions C12_pmis_model_passes_partition_oracle_Qc.
Print Assumptions C12_pmis_lonely_iff_isolated.
Print Assumptions C12_pmis_depends_on_partition.


(* ====================================================================================================
   C12-C: the transfer operators of the DISTRIBUTED smoothed aggregation (amgcl/mpi/coarsening/smoothed_aggregation.hpp).

   Model (DistSa.v): every rank computes the strength flags of its strip with its own diagonal and the ghost diagonals it
   receives through the exchange of the communication pattern (pmis::conn_strength), lumps the weak entries of the LOCAL and
   of the REMOTE part of a row into the filtered diagonal, scales the strong entries from the LEFT by -omega * inverse(dia_f)
   (no zero guard in the distributed code), puts (1 - omega) on the diagonal; P = mpi::product(Af, P_tent) (Dist.dist_product,
   the object of C11), R = mpi::transpose(P); P_tent rank by rank from the PMIS model (own aggregate: local column, aggregate
   of another rank: remote column id + exclusive_sum(naggr)[owner]); eps_strong halved per call (dsa_eps), omega =
   relax * 2/3 resp. relax * (4/3) / rho (dsa_omega, dsa_omega_rho).  Tied exactly to the implementation by bin/check C12
   (ops sa / bsa vs m.dsa, scalar and 2x2 block values).
   Proofs: DistSaProofs.v, DistSaPtent.v (+ C11 exchange_spec / dist_product_dense, C04 sa_formula_holds). *)
From Amgcl Require Import Aggregates Coarsen DistSa DistSaPtent DistSaProofs.

(* the distributed filtered matrix is, rank by rank, the constructor's split of the filtered matrix I - omega Df^-1 A_f of the
   ASSEMBLED matrix (strength test with the global diagonal) -- for every rank count and every contiguous partition, empty
   ranks included.  Ring laws only (the sum "local weak entries, then remote weak entries" is the sum over the row). *)
Theorem C12_dist_sa_filtered_every_partition (S : Scalar) (Srt : Sring S) (A : crs S) (parts : list nat) :
  psum parts = nrows A -> ncols A = nrows A -> wf A = true ->
  forall junk eps2 omega : S,
  dist_sa_filtered junk eps2 omega (Dist.split A parts parts)
  = Dist.split (sa_glob_filtered omega A (strong_entry junk A eps2)) parts parts.
Proof. exact (dist_sa_filtered_split Srt A parts). Qed.

(* the rank-by-rank P_tent of the model is the split of the global P_tent of the PMIS model *)
Theorem C12_dist_ptent_is_split (S : Scalar) (parts : list nat) (w : Pmis.world) :
  length (w_na w) = length parts ->
  (forall c, c < psum parts ->
     getn (w_st w) c = mkNode Deleted None \/
     exists o id, getn (w_st w) c = mkNode (Agg id) (Some o) /\ o < length parts /\ id < nth o (w_na w) 0) ->
  dist_ptent (S:=S) parts w
  = Dist.split (ptent_of S (map (column w) (seq 0 (psum parts))) (psum (w_na w))) parts (w_na w).
Proof. exact (dist_ptent_is_split S parts w). Qed.

Section FieldSa.
Variable S : Scalar.
Hypothesis Sft : Sfield S.
Hypothesis Seqb : seqb_spec S.

(* assembling the per-rank P of the model = the SERIAL smoothed-aggregation formula (C04_sa_formula:
   P = (I - omega Df^-1 A_f) P_tent, densely) of the assembled matrix with the assembled P_tent, on every regular row (non-zero
   filtered diagonal, one stored diagonal entry), for every partition of the rows and every column partition of P_tent *)
Theorem C12_dist_sa_smooth_every_partition (junk eps2 omega : S) (A Pt : crs S) (parts cparts : list nat) :
  psum parts = nrows A -> ncols A = nrows A -> wf A = true ->
  length parts = length cparts -> psum parts = nrows Pt ->
  forall i j, i < nrows A -> sa_row_regular A (conn_flags S junk A eps2) i = true ->
    mget (assemble (dist_sa_smooth junk eps2 omega (Dist.split A parts parts) (Dist.split Pt parts cparts))) i j
    = sa_formula omega A (conn_flags S junk A eps2) Pt i j.
Proof. exact (dist_sa_smooth_every_partition S Sft Seqb junk eps2 omega A Pt parts cparts). Qed.

(* one call of transfer_operators with the PMIS model for P_tent: defined for every rank count and partition (the aggregation
   terminates), P_tent is the split of the global P_tent, R = transpose(P) by construction, and the assembled P is the serial
   formula.  Hypothesis as in C12_pmis_partition: every strength row contains the diagonal. *)
Theorem C12_dist_sa_transfer_every_partition (junk eps2 omega : S) (A : crs S) (parts : list nat) :
  psum parts = nrows A -> ncols A = nrows A -> wf A = true ->
  (forall i, i < psum parts -> In i (grow (conn junk A eps2) i)) ->
  exists w Pt P R,
    pmis parts (conn junk A eps2) = Some w /\
    dist_sa_transfer junk eps2 omega A parts = Some (Pt, P, R) /\
    let PtG := ptent_of S (map (column w) (seq 0 (psum parts))) (psum (w_na w)) in
    Pt = Dist.split PtG parts (w_na w) /\
    R = dist_transpose P parts /\
    forall i j, i < nrows A -> sa_row_regular A (conn_flags S junk A eps2) i = true ->
      mget (assemble P) i j = sa_formula omega A (conn_flags S junk A eps2) PtG i j.
Proof. exact (dist_sa_transfer_every_partition S Sft Seqb junk eps2 omega A parts). Qed.
End FieldSa.

Theorem C12_dist_sa_filtered_every_partition_Qc (A : crs QcS) (parts : list nat) :
  psum parts = nrows A -> ncols A = nrows A -> wf A = true ->
  forall junk eps2 omega : QcS,
  dist_sa_filtered junk eps2 omega (Dist.split A parts parts)
  = Dist.split (sa_glob_filtered omega A (strong_entry junk A eps2)) parts parts.
Proof. exact (C12_dist_sa_filtered_every_partition QcS QcS_ring A parts). Qed.

Theorem C12_dist_sa_transfer_every_partition_Qc (junk eps2 omega : QcS) (A : crs QcS) (parts : list nat) :
  psum parts = nrows A -> ncols A = nrows A -> wf A = true ->
  (forall i, i < psum parts -> In i (grow (conn junk A eps2) i)) ->
  exists w Pt P R,
    pmis parts (conn junk A eps2) = Some w /\
    dist_sa_transfer junk eps2 omega A parts = Some (Pt, P, R) /\
    let PtG := ptent_of QcS (map (column w) (seq 0 (psum parts))) (psum (w_na w)) in
    Pt = Dist.split PtG parts (w_na w) /\
    R = dist_transpose P parts /\
    forall i j, i < nrows A -> sa_row_regular A (conn_flags QcS junk A eps2) i = true ->
      mget (assemble P) i j = sa_formula omega A (conn_flags QcS junk A eps2) PtG i j.
Proof. exact (C12_dist_sa_transfer_every_partition QcS QcS_field QcS_eqb junk eps2 omega A parts). Qed.
Print Assumptions C12_dist_sa_filtered_every_partition.
Print Assumptions C12_dist_ptent_is_split.
Print Assumptions C12_dist_sa_smooth_every_partition.
Print Assumptions C12_dist_sa_transfer_every_partition.
Print Assumptions C12_dist_sa_filtered_every_partition_Qc.
Print Assumptions C12_dist_sa_transfer_every_partition_Qc.

(* non-vacuity: path 0-1-2-3 (diagonal 4, off-diagonals -2), eps_strong = 1/4, omega = 1/2, ranks [2;0;2] (an empty rank):
   the hypotheses hold, every row is regular, the call is defined and the assembled P is (3/4, 1, 1, 3/4)^T *)
Definition sa_ex_A : crs QcS := mkCrs 4 [[(0, qc 4 1); (1, qc (-2) 1)]; [(0, qc (-2) 1); (1, qc 4 1); (2, qc (-2) 1)];
                                         [(1, qc (-2) 1); (2, qc 4 1); (3, qc (-2) 1)]; [(2, qc (-2) 1); (3, qc 4 1)]].
Example C12_dist_sa_nonvacuous :
  let parts := [2; 0; 2] in let eps2 := qc 1 16 in let omega := qc 1 2 in let junk := qc 0 1 in
  psum parts = nrows sa_ex_A /\ ncols sa_ex_A = nrows sa_ex_A /\ wf sa_ex_A = true /\
  forallb (fun i => memb i (grow (conn junk sa_ex_A eps2) i)) (seq 0 4) = true /\
  forallb (fun i => sa_row_regular sa_ex_A (conn_flags QcS junk sa_ex_A eps2) i) (seq 0 4) = true /\
  match dist_sa_transfer junk eps2 omega sa_ex_A parts with
  | Some (_, P, _) => map (fun i => qval (mget (assemble P) i 0)) (seq 0 4) = [(3 # 4)%Q; (1 # 1)%Q; (1 # 1)%Q; (3 # 4)%Q]
  | None => False
  end.
Proof. vm_compute. repeat split; reflexivity. Qed.

(* ------------------------------------------------------------------------------------------------------------------------ *)
(* C12-D: the smoothers under MPI, as amgcl::runtime::mpi::relaxation::wrapper builds and applies them (DistRelax.v; tied to
   amgcl/mpi/relaxation/runtime.hpp operator by operator by the ops relax / brelax of bin/check C12).

   spai0, damped_jacobi and chebyshev do not depend on the partition: for EVERY contiguous partition (empty ranks, one-row
   ranks, ...) every rank holds its slice of what the SERIAL smoother (Relax.v / Cheby.v, the objects of C06/C08) computes on
   the assembled matrix -- the constructor's data (M; the inverted diagonal; the Gershgorin bound, the same on every rank,
   hence the same polynomial coefficients) and the result of apply_pre / apply_post (= sweep) and apply.  A world vector is
   [chunks parts v].  Hypotheses: ring laws, seqb decides equality, A well formed and square w.r.t. the partition, the
   vectors have the length of the system; for chebyshev operator< is a strict total order (std::max / MPI_MAX).
   gauss_seidel, ilu0/k/p/t and spai1 are built from the local diagonal block and DO depend on the partition (block smoothers);
   they are tied to the code by the model only (gauss_seidel ignores the remote part altogether: known finding). *)
From Amgcl Require Import Relax Cheby DistProofsG DistRelax DistRelaxProofsSetup DistRelaxProofs.

(* every rank's distributed residual (ghost exchange + remote part) is its slice of the serial residual *)
Theorem C12_dist_residual_every_rank (S : Scalar) :
  Sring S -> seqb_spec S ->
  forall (A : crs S) (parts : list nat),
  psum parts = nrows A -> psum parts = ncols A -> wf A = true ->
  forall f x res : vec S, length f = nrows A -> length res = nrows A ->
  dist_residual (chunks parts f) (Dist.split A parts parts) (chunks parts x) (chunks parts res)
  = chunks parts (residual f A x res).
Proof. exact (@dist_residual_pieces S). Qed.
Print Assumptions C12_dist_residual_every_rank.

Theorem C12_dist_jacobi_every_partition (S : Scalar) :
  Sring S -> seqb_spec S ->
  forall (A : crs S) (parts : list nat),
  psum parts = nrows A -> psum parts = ncols A -> wf A = true ->
  forall (w : S) (junk f x tmp : vec S),
  length f = nrows A -> length x = nrows A -> length tmp = nrows A ->
  let D := Dist.split A parts parts in
  let dias := dist_jacobi_setup D (chunks parts junk) in
  dias = chunks parts (jacobi_setup A junk) /\
  dist_jacobi_sweep w dias D (chunks parts f) (chunks parts x) (chunks parts tmp)
    = chunks parts (fst (jacobi_sweep w (jacobi_setup A junk) A f x tmp)) /\
  dist_jacobi_apply dias D (chunks parts f) (chunks parts x) = chunks parts (jacobi_apply (jacobi_setup A junk) f x).
Proof. exact (@dist_jacobi_every_partition S). Qed.
Print Assumptions C12_dist_jacobi_every_partition.

Theorem C12_dist_spai0_every_partition (S : Scalar) :
  Sring S -> seqb_spec S ->
  forall (A : crs S) (parts : list nat),
  psum parts = nrows A -> psum parts = ncols A -> wf A = true ->
  forall f x tmp : vec S,
  length f = nrows A -> length x = nrows A -> length tmp = nrows A ->
  let D := Dist.split A parts parts in
  let Ms := dist_spai0_setup D in
  Ms = chunks parts (spai0_setup A) /\
  dist_spai0_sweep Ms D (chunks parts f) (chunks parts x) (chunks parts tmp)
    = chunks parts (fst (spai0_sweep (spai0_setup A) A f x tmp)) /\
  dist_spai0_apply Ms D (chunks parts f) (chunks parts x) = chunks parts (spai0_apply (spai0_setup A) f x).
Proof. exact (@dist_spai0_every_partition S). Qed.
Print Assumptions C12_dist_spai0_every_partition.

(* chebyshev (power_iters = 0): every rank holds the serial Gershgorin bound of the assembled matrix, hence the same (c, d)
   (spread_cdm: the same pair on every rank, M = the rank's slice of the inverted diagonal when scale); all `degree` steps,
   each with a distributed residual, produce the slices of the serial iterate; p, r: the workspaces (any contents) *)
Theorem C12_dist_chebyshev_every_partition (S : Scalar) :
  Sring S -> seqb_spec S ->
  (forall a : S, sltb a a = false) ->
  (forall a b c : S, sltb a b = true -> sltb b c = true -> sltb a c = true) ->
  (forall a b : S, sltb a b = false -> sltb b a = false -> a = b) ->
  forall (A : crs S) (parts : list nat),
  psum parts = nrows A -> psum parts = ncols A -> wf A = true ->
  forall (scale : bool) (lower higher : S) (degree : nat) (junk f x p r : vec S),
  length f = nrows A -> length x = nrows A -> length p = nrows A -> length r = nrows A ->
  let D := Dist.split A parts parts in
  let his := dist_cheby_rho scale D in
  let cdMs := dist_cheby_setup scale D his lower higher (chunks parts junk) in
  let cdM := cheby_setup scale A (gershgorin scale A) lower higher junk in
  his = repeat (gershgorin scale A) (length parts) /\
  cdMs = spread_cdm parts cdM /\
  dist_cheby_sweep cdMs degree D (chunks parts f) (chunks parts x) (chunks parts p) (chunks parts r)
    = chunks parts (cheby_sweep cdM degree A f x p r) /\
  dist_cheby_apply cdMs degree D (chunks parts f) (chunks parts x) (chunks parts p) (chunks parts r)
    = chunks parts (cheby_apply cdM degree A f x p r).
Proof. exact (@dist_chebyshev_every_partition S). Qed.
Print Assumptions C12_dist_chebyshev_every_partition.

Theorem C12_dist_chebyshev_every_partition_Qc (A : crs QcS) (parts : list nat) :
  psum parts = nrows A -> psum parts = ncols A -> wf A = true ->
  forall (scale : bool) (lower higher : QcS) (degree : nat) (junk f x p r : vec QcS),
  length f = nrows A -> length x = nrows A -> length p = nrows A -> length r = nrows A ->
  let D := Dist.split A parts parts in
  let his := dist_cheby_rho scale D in
  let cdMs := dist_cheby_setup scale D his lower higher (chunks parts junk) in
  let cdM := cheby_setup scale A (gershgorin scale A) lower higher junk in
  his = repeat (gershgorin scale A) (length parts) /\
  cdMs = spread_cdm parts cdM /\
  dist_cheby_sweep cdMs degree D (chunks parts f) (chunks parts x) (chunks parts p) (chunks parts r)
    = chunks parts (cheby_sweep cdM degree A f x p r) /\
  dist_cheby_apply cdMs degree D (chunks parts f) (chunks parts x) (chunks parts p) (chunks parts r)
    = chunks parts (cheby_apply cdM degree A f x p r).
Proof. exact (C12_dist_chebyshev_every_partition QcS QcS_ring QcS_eqb QcS_lt_irr' QcS_lt_trans' QcS_lt_tri' A parts). Qed.
Print Assumptions C12_dist_chebyshev_every_partition_Qc.

(* Model of a regression (seeded C12 r9): the wrapper builds chebyshev from the rank's diagonal block like the other serial
   smoothers -- every rank runs the serial Gershgorin estimate on its own block, without the remote entries and without
   MPI_MAX (DistRelaxProofs.local_block_rho).  Path 0-1-2-3 with rows (4 -2), (-2 4 -2), (-2 4 -2), (-2 6): the bound is 8
   (row 3; rows 1, 2 give 8 as well).  Ranks [1; 2; 1] (thin ranks): the local blocks give 4, 6, 6 -- three ranks, none
   holds the bound of the operator the polynomial is applied to, and they disagree with each other; the distributed
   estimate gives 8 on every rank. *)
Definition relax_ex_A : crs QcS := mkCrs 4 [[(0, qc 4 1); (1, qc (-2) 1)]; [(0, qc (-2) 1); (1, qc 4 1); (2, qc (-2) 1)];
                                            [(1, qc (-2) 1); (2, qc 4 1); (3, qc (-2) 1)]; [(2, qc (-2) 1); (3, qc 6 1)]].
Example C12_dist_chebyshev_local_block_rho_refuted :
  let D := Dist.split relax_ex_A [1; 2; 1] [1; 2; 1] in
  map qval (local_block_rho false D) = [(4 # 1)%Q; (6 # 1)%Q; (6 # 1)%Q] /\
  map qval (dist_cheby_rho false D) = [(8 # 1)%Q; (8 # 1)%Q; (8 # 1)%Q] /\
  qval (gershgorin false relax_ex_A) = (8 # 1)%Q.
Proof. vm_compute. repeat split; reflexivity. Qed.

(* non-vacuity: the hypotheses of the three theorems hold for this system and partition [1; 0; 2; 1] (an empty rank, one-row
   ranks); one Chebyshev sweep of degree 2 on the world gives the slices of the serial one (computed on both sides) *)
Example C12_dist_relax_nonvacuous :
  let parts := [1; 0; 2; 1] in let A := relax_ex_A in
  let f := [qc 1 1; qc 0 1; qc (-1) 1; qc 2 1] in let x := [qc 0 1; qc 1 1; qc 0 1; qc 0 1] in let z := [qc 0 1; qc 0 1; qc 0 1; qc 0 1] in
  psum parts = nrows A /\ psum parts = ncols A /\ wf A = true /\
  let D := Dist.split A parts parts in
  let cdMs := dist_cheby_setup true D (dist_cheby_rho true D) (qc 1 4) (qc 1 1) (chunks parts z) in
  map (map qval) (dist_cheby_sweep cdMs 2 D (chunks parts f) (chunks parts x) (chunks parts z) (chunks parts z))
  = map (map qval) (chunks parts (cheby_sweep (cheby_setup true A (gershgorin true A) (qc 1 4) (qc 1 1) z) 2 A f x z z)).
Proof. vm_compute. repeat split; reflexivity. Qed.

(* ------------------------------------------------------------------------------------------------------------------------ *)
(* C12-E: the distributed smoothed aggregation at NON-COMMUTATIVE value types (static_matrix blocks under MPI), the strength
   pattern of the ranks, and R = P^T on the assembled operators (DistSaNc.v, DistSaNcConn.v, DistSaR.v).

   The theorems C12_dist_sa_* above assume a field (commutative).  amgcl instantiates mpi::coarsening::smoothed_aggregation
   with static_matrix<T,b,b> values, whose product does not commute: there the ORDER of the operands in
   smoothed_aggregation.hpp:164-178 (dia_f = -omega * inverse(dia_f);  dia_f * A.val[j]) and in mpi::product (entry of the
   filtered matrix on the LEFT of the entry of P_tent) is part of the meaning of  P = (I - omega Df^-1 A_f) P_tent.
   [sa_formula omega A st Pt i j] = sum_k (delta_ik - (omega * sinv D_i) * (A_f)_ik) * (P_tent)_kj keeps exactly that order. *)
From Amgcl Require Import NcRing BlockInst NcRingBlock DistSaNcConn DistSaNc.

(* the strength pattern: every rank evaluates pmis::conn_strength with its own diagonal slice and the ghost diagonal values it
   received; row by row this is the strength pattern of the ASSEMBLED matrix (Pmis.conn: what the PMIS model aggregates and
   what the filtered matrix of the serial specification uses), with the columns owned by the rank of the row listed first
   (S_loc, then S_rem) -- for every rank count and contiguous partition, empty ranks included; no algebraic law is needed *)
Theorem C12_dist_strength_pattern_is_global (S : Scalar) (A : crs S) (parts : list nat) :
  psum parts = nrows A -> ncols A = nrows A -> wf A = true ->
  forall junk eps2 : S,
  dist_conn junk eps2 (Dist.split A parts parts) = conn_reordered parts (conn junk A eps2) /\
  length (dist_conn junk eps2 (Dist.split A parts parts)) = nrows A /\
  forall i, i < nrows A ->
    let r := owner parts i in
    nth i (dist_conn junk eps2 (Dist.split A parts parts)) []
      = reorder_cols (pbeg parts r) (psize parts r) (nth i (conn junk A eps2) []) /\
    Permutation.Permutation (nth i (dist_conn junk eps2 (Dist.split A parts parts)) []) (nth i (conn junk A eps2) []) /\
    (forall c, In c (nth i (dist_conn junk eps2 (Dist.split A parts parts)) []) <-> In c (nth i (conn junk A eps2) [])).
Proof.
  intros H1 H2 H3 junk eps2.
  exact (conj (dist_conn_global A parts H1 H2 H3 junk eps2) (dist_conn_rows A parts H1 H2 H3 junk eps2)).
Qed.
Print Assumptions C12_dist_strength_pattern_is_global.

(* ... and the literal list equality dist_conn = Pmis.conn is FALSE of the model already for sorted rows (2 x 2, ranks [1;1]:
   rank 1 lists its own column 1 before the remote column 0): the statement above is the strongest true one *)
Theorem C12_dist_strength_pattern_literal_equality_refuted :
  exists (A : crs QcS) (parts : list nat) (junk eps2 : QcS),
    psum parts = nrows A /\ ncols A = nrows A /\ wf A = true /\
    dist_conn junk eps2 (Dist.split A parts parts) <> conn junk A eps2.
Proof.
  exists connw_A, [1; 1], (qc 0 1), (qc 1 16).
  destruct dist_conn_storage_order_differs as [H1 [H2 [H3 [H4 H5]]]].
  split; [exact H1|]. split; [exact H2|]. split; [exact H3|]. rewrite H4, H5. discriminate.
Qed.
Print Assumptions C12_dist_strength_pattern_literal_equality_refuted.

(* non-vacuity: path 0-1-2-3 on the ranks [2; 0; 2] (an empty rank): hypotheses hold; the ranks' pattern and the global one *)
Example C12_dist_strength_pattern_nonvacuous :
  let parts := [2; 0; 2] in let eps2 := qc 1 16 in let junk := qc 0 1 in
  psum parts = nrows sa_ex_A /\ ncols sa_ex_A = nrows sa_ex_A /\ wf sa_ex_A = true /\
  conn junk sa_ex_A eps2 = [[0; 1]; [0; 1; 2]; [1; 2; 3]; [2; 3]] /\
  dist_conn junk eps2 (Dist.split sa_ex_A parts parts) = [[0; 1]; [0; 1; 2]; [2; 3; 1]; [2; 3]].
Proof. vm_compute. repeat split; reflexivity. Qed.

Section NcSa.
Variable S : Scalar.
Hypothesis Hnc : ncring_theory S.

(* the distributed filtered matrix is the split of the filtered matrix of the assembled matrix without commutativity *)
Theorem C12_nc_dist_sa_filtered_every_partition (A : crs S) (parts : list nat) :
  psum parts = nrows A -> ncols A = nrows A -> wf A = true ->
  forall junk eps2 omega : S,
  dist_sa_filtered junk eps2 omega (Dist.split A parts parts)
  = Dist.split (sa_glob_filtered omega A (strong_entry junk A eps2)) parts parts.
Proof. exact (nc_dist_sa_filtered_split Hnc A parts). Qed.

(* assembling the ranks' P gives (I - omega Df^-1 A_f) P_tent with the products in the order of the code, for every partition
   of the rows and every column partition of P_tent, on every row with one stored diagonal entry whose filtered diagonal D_i
   has the LEFT inverse sinv D_i (the only inverse law used; over a field: D_i <> 0) *)
Theorem C12_nc_dist_sa_smooth_every_partition (junk eps2 omega : S) (A Pt : crs S) (parts cparts : list nat) :
  psum parts = nrows A -> ncols A = nrows A -> wf A = true ->
  length parts = length cparts -> psum parts = nrows Pt ->
  forall i j, i < nrows A ->
    diag_count i (nth i (rows A) []) = 1 ->
    (sinv (sa_D A (conn_flags S junk A eps2) i) * sa_D A (conn_flags S junk A eps2) i)%S = s1 ->
    mget (assemble (dist_sa_smooth junk eps2 omega (Dist.split A parts parts) (Dist.split Pt parts cparts))) i j
    = sa_formula omega A (conn_flags S junk A eps2) Pt i j.
Proof. exact (nc_dist_sa_smooth_every_partition S Hnc junk eps2 omega A Pt parts cparts). Qed.

(* one call of transfer_operators with the PMIS model for P_tent *)
Theorem C12_nc_dist_sa_transfer_every_partition (junk eps2 omega : S) (A : crs S) (parts : list nat) :
  psum parts = nrows A -> ncols A = nrows A -> wf A = true ->
  (forall i, i < psum parts -> In i (Pmis.grow (conn junk A eps2) i)) ->
  exists w Pt P R,
    pmis parts (conn junk A eps2) = Some w /\
    dist_sa_transfer junk eps2 omega A parts = Some (Pt, P, R) /\
    let PtG := ptent_of S (map (column w) (seq 0 (psum parts))) (psum (w_na w)) in
    Pt = Dist.split PtG parts (w_na w) /\
    R = dist_transpose P parts /\
    forall i j, i < nrows A ->
      diag_count i (nth i (rows A) []) = 1 ->
      (sinv (sa_D A (conn_flags S junk A eps2) i) * sa_D A (conn_flags S junk A eps2) i)%S = s1 ->
      mget (assemble P) i j = sa_formula omega A (conn_flags S junk A eps2) PtG i j.
Proof. exact (nc_dist_sa_transfer_every_partition S Hnc junk eps2 omega A parts). Qed.
End NcSa.
Print Assumptions C12_nc_dist_sa_filtered_every_partition.
Print Assumptions C12_nc_dist_sa_smooth_every_partition.
Print Assumptions C12_nc_dist_sa_transfer_every_partition.

(* closed at static_matrix<Q,b,b> for EVERY block size b; the left-inverse law is discharged by "math::inverse passes its
   assertion on D_i and on its result" (NcRingBlockInv.BlockS_inv_two_sided) *)
Theorem C12_nc_dist_sa_smooth_every_partition_BlockQc (b : nat) (junk eps2 omega : BlockS QcS b)
  (A Pt : crs (BlockS QcS b)) (parts cparts : list nat) :
  psum parts = nrows A -> ncols A = nrows A -> wf A = true ->
  length parts = length cparts -> psum parts = nrows Pt ->
  forall i j, i < nrows A ->
    diag_count i (nth i (rows A) []) = 1 ->
    sinv (sa_D A (conn_flags _ junk A eps2) i) <> s0 ->
    sinv (sinv (sa_D A (conn_flags _ junk A eps2) i)) <> s0 ->
    mget (assemble (dist_sa_smooth junk eps2 omega (Dist.split A parts parts) (Dist.split Pt parts cparts))) i j
    = sa_formula omega A (conn_flags _ junk A eps2) Pt i j.
Proof. exact (nc_dist_sa_smooth_every_partition_BlockQc b junk eps2 omega A Pt parts cparts). Qed.
Print Assumptions C12_nc_dist_sa_smooth_every_partition_BlockQc.

(* converse witnesses = the class of the seeded regression C12-4 inside smoothed_aggregation.hpp: the model with
   A.val[j] * dia_f instead of dia_f * A.val[j] (DistSaNc.dist_sa_smooth_sw swl swr: in the local loop 166-172, in the remote
   loop 174-178, or in both).  At 2 x 2 blocks on the ranks [2; 0; 1] (rank 1 empty),
        A = [ D a a ; . D . ; . . D ],  D = [2 1; 0 2],  a = [0 0; 1 1],  P_tent = I,  omega = 1/2,  eps_strong = 0,
   every hypothesis of C12_nc_dist_sa_smooth_every_partition holds on row 0 and the assembled P of each swapped model differs
   from the formula (entry (0,1) for the local loop, (0,2) for the remote loop) ... *)
Theorem C12_nc_dist_sa_smooth_swapped_operands_refuted :
  exists (A Pt : crs (BlockS QcS 2)) (parts cparts : list nat) (junk eps2 omega : BlockS QcS 2) (i : nat),
    psum parts = nrows A /\ ncols A = nrows A /\ wf A = true /\
    length parts = length cparts /\ psum parts = nrows Pt /\ i < nrows A /\
    diag_count i (nth i (rows A) []) = 1 /\
    (sinv (sa_D A (conn_flags _ junk A eps2) i) * sa_D A (conn_flags _ junk A eps2) i)%S = s1 /\
    (exists j, mget (assemble (dist_sa_smooth_sw true false junk eps2 omega (Dist.split A parts parts) (Dist.split Pt parts cparts))) i j
               <> sa_formula omega A (conn_flags _ junk A eps2) Pt i j) /\
    (exists j, mget (assemble (dist_sa_smooth_sw false true junk eps2 omega (Dist.split A parts parts) (Dist.split Pt parts cparts))) i j
               <> sa_formula omega A (conn_flags _ junk A eps2) Pt i j) /\
    (exists j, mget (assemble (dist_sa_smooth_sw true true junk eps2 omega (Dist.split A parts parts) (Dist.split Pt parts cparts))) i j
               <> sa_formula omega A (conn_flags _ junk A eps2) Pt i j).
Proof.
  exists sw_A, sw_Pt, sw_parts, sw_parts, sw_0, sw_0, sw_omega, 0.
  destruct sw_hypotheses as [H1 [H2 [H3 [H4 [H5 [H6 [H7 H8]]]]]]].
  repeat (split; [assumption|]).
  split; [exists 1; exact swapped_local_operands_refuted|].
  split; [exists 2; exact swapped_remote_operands_refuted|].
  exists 1; exact swapped_both_operands_refuted.
Qed.
Print Assumptions C12_nc_dist_sa_smooth_swapped_operands_refuted.

(* ... while in every COMMUTATIVE ring the swapped models are the same function: the regression is invisible to
   C12_dist_sa_smooth_every_partition and to every scalar-valued run; only the non-commutative theorem excludes it *)
Theorem C12_nc_dist_sa_smooth_swapped_operands_commutative_noop (S : Scalar) (Srt : Sring S) (swl swr : bool)
  (junk eps2 omega : S) (D Pt : dmat S) :
  dist_sa_smooth_sw swl swr junk eps2 omega D Pt = dist_sa_smooth junk eps2 omega D Pt.
Proof. exact (dist_sa_smooth_sw_comm Srt swl swr junk eps2 omega D Pt). Qed.
Print Assumptions C12_nc_dist_sa_smooth_swapped_operands_commutative_noop.

(* non-vacuity of the non-commutative theorem: on the witness (ranks [2; 0; 1], an empty rank) the hypotheses hold and the
   unswapped model gives the formula on row 0 (computed on both sides); entry (0,1) is the block (-1/2) D^-1 a *)
Example C12_nc_dist_sa_nonvacuous :
  psum sw_parts = nrows sw_A /\ ncols sw_A = nrows sw_A /\ wf sw_A = true /\
  length sw_parts = length sw_parts /\ psum sw_parts = nrows sw_Pt /\ 0 < nrows sw_A /\
  diag_count 0 (nth 0 (rows sw_A) []) = 1 /\
  (sinv (sa_D sw_A (conn_flags _ sw_0 sw_A sw_0) 0) * sa_D sw_A (conn_flags _ sw_0 sw_A sw_0) 0)%S = s1 /\
  forallb (fun j => seqb (mget (assemble (dist_sa_smooth sw_0 sw_0 sw_omega (Dist.split sw_A sw_parts sw_parts)
                                                         (Dist.split sw_Pt sw_parts sw_parts))) 0 j)
                         (sa_formula sw_omega sw_A (conn_flags _ sw_0 sw_A sw_0) sw_Pt 0 j)) [0; 1; 2] = true.
Proof.
  destruct sw_hypotheses as [H1 [H2 [H3 [H4 [H5 [H6 [H7 H8]]]]]]].
  repeat (split; [assumption|]). exact (proj1 unswapped_agrees_on_witness).
Qed.

(* R = P^T on the ASSEMBLED operators.  In the model R = dist_transpose P by construction (C12_dist_sa_transfer_every_partition);
   C11's transpose theorem speaks about matrices of the form split(..), and P = mpi::product(Af, P_tent) is not syntactically
   one.  DistSaR.v: every dist_product of two splits IS the split of its own assembly (law-free), hence for every partition
   (empty ranks included) assemble(R) is, row by row, a permutation of the serial transpose of assemble(P) -- the rank that
   owns a coarse column lists its own block first -- and has the same dense entries. *)
From Amgcl Require Import DistSaR DistSaRNc BlockMatOpsProofs.

(* law-free core: the distributed product of two constructor splits is the constructor's split of its assembly *)
Theorem C12_dist_product_is_split_of_its_assembly (S : Scalar) (A B : crs S) (rpA cpA cpB : list nat) :
  length rpA = length cpA -> length cpA = length cpB -> psum rpA = nrows A ->
  let P := dist_product (Dist.split A rpA cpA) (Dist.split B cpA cpB) in
  Dist.split (assemble P) rpA cpB = P.
Proof. exact (dist_product_is_split A B rpA cpA cpB). Qed.
Print Assumptions C12_dist_product_is_split_of_its_assembly.

Section NcSaR.
Variable S : Scalar.
Hypothesis Hnc : ncring_theory S.

(* for every distributed P_tent (non-commutative ring laws only: the filtered matrix must be identified, and the dense
   entries of a row do not depend on the storage order because ADDITION commutes) *)
Theorem C12_dist_sa_restriction_is_transpose_of_assembled_P_any_ptent (junk eps2 omega : S) (A Pt : crs S)
  (parts cparts : list nat) :
  psum parts = nrows A -> ncols A = nrows A -> wf A = true -> length parts = length cparts ->
  let P := dist_sa_smooth junk eps2 omega (Dist.split A parts parts) (Dist.split Pt parts cparts) in
  let R := dist_transpose P parts in
  ncols (assemble R) = nrows A /\ nrows (assemble P) = nrows A /\ ncols (assemble P) = psum cparts /\
  (forall j, j < psum cparts ->
     Permutation.Permutation (nth j (rows (assemble R)) []) (nth j (rows (transpose (assemble P))) [])) /\
  (forall i j, j < psum cparts -> mget (assemble R) j i = mget (transpose (assemble P)) j i).
Proof. exact (nc_dist_sa_smooth_restriction Hnc junk eps2 omega A Pt parts cparts). Qed.

(* for the P produced by the model (one call of transfer_operators with the PMIS model), every rank count and partition *)
Theorem C12_dist_sa_restriction_is_transpose_of_assembled_P (junk eps2 omega : S) (A : crs S) (parts : list nat) :
  psum parts = nrows A -> ncols A = nrows A -> wf A = true ->
  (forall i, i < psum parts -> In i (Pmis.grow (conn junk A eps2) i)) ->
  exists w Pt P R,
    pmis parts (conn junk A eps2) = Some w /\ dist_sa_transfer junk eps2 omega A parts = Some (Pt, P, R) /\
    ncols (assemble R) = nrows A /\ nrows (assemble P) = nrows A /\ ncols (assemble P) = psum (w_na w) /\
    (forall j, j < psum (w_na w) ->
       Permutation.Permutation (nth j (rows (assemble R)) []) (nth j (rows (transpose (assemble P))) [])) /\
    (forall i j, j < psum (w_na w) -> mget (assemble R) j i = mget (transpose (assemble P)) j i).
Proof. exact (nc_dist_sa_restriction_is_transpose Hnc junk eps2 omega A parts). Qed.

(* entry by entry with an additive adjoint (blocks: conjugate transpose of every block): R_ji = adjoint(P_ij) *)
Hypothesis sadj_add : forall a b : S, sadj (a + b)%S = (sadj a + sadj b)%S.
Hypothesis sadj_0 : sadj (@s0 S) = s0.
Theorem C12_dist_sa_restriction_adjoint_entries (junk eps2 omega : S) (A Pt : crs S) (parts cparts : list nat) :
  psum parts = nrows A -> ncols A = nrows A -> wf A = true -> length parts = length cparts ->
  let P := dist_sa_smooth junk eps2 omega (Dist.split A parts parts) (Dist.split Pt parts cparts) in
  let R := dist_transpose P parts in
  forall i j, j < psum cparts -> mget (assemble R) j i = sadj (mget (assemble P) i j).
Proof. exact (nc_dist_sa_restriction_adjoint_entries Hnc sadj_add sadj_0 junk eps2 omega A Pt parts cparts). Qed.
End NcSaR.
Print Assumptions C12_dist_sa_restriction_is_transpose_of_assembled_P_any_ptent.
Print Assumptions C12_dist_sa_restriction_is_transpose_of_assembled_P.
Print Assumptions C12_dist_sa_restriction_adjoint_entries.

(* closed instances: Qc (scalar values) and static_matrix<Q,b,b> for every block size *)
Theorem C12_dist_sa_restriction_is_transpose_of_assembled_P_Qc (junk eps2 omega : QcS) (A : crs QcS) (parts : list nat) :
  psum parts = nrows A -> ncols A = nrows A -> wf A = true ->
  (forall i, i < psum parts -> In i (Pmis.grow (conn junk A eps2) i)) ->
  exists w Pt P R,
    pmis parts (conn junk A eps2) = Some w /\ dist_sa_transfer junk eps2 omega A parts = Some (Pt, P, R) /\
    ncols (assemble R) = nrows A /\ nrows (assemble P) = nrows A /\ ncols (assemble P) = psum (w_na w) /\
    (forall j, j < psum (w_na w) ->
       Permutation.Permutation (nth j (rows (assemble R)) []) (nth j (rows (transpose (assemble P))) [])) /\
    (forall i j, j < psum (w_na w) -> mget (assemble R) j i = mget (transpose (assemble P)) j i).
Proof. exact (C12_dist_sa_restriction_is_transpose_of_assembled_P QcS (ncring_of_ring QcS QcS_ring) junk eps2 omega A parts). Qed.
Print Assumptions C12_dist_sa_restriction_is_transpose_of_assembled_P_Qc.

Theorem C12_dist_sa_restriction_adjoint_entries_BlockQc (b : nat) (junk eps2 omega : BlockS QcS b)
  (A Pt : crs (BlockS QcS b)) (parts cparts : list nat) :
  psum parts = nrows A -> ncols A = nrows A -> wf A = true -> length parts = length cparts ->
  let P := dist_sa_smooth junk eps2 omega (Dist.split A parts parts) (Dist.split Pt parts cparts) in
  let R := dist_transpose P parts in
  forall i j, j < psum cparts -> mget (assemble R) j i = sadj (mget (assemble P) i j).
Proof.
  exact (C12_dist_sa_restriction_adjoint_entries (BlockS QcS b) (BlockS_ncring QcS b QcS_ring)
           (BlockS_adj_add QcS b (fun _ _ => eq_refl)) (BlockS_adj_0 QcS b QcS_ring (fun _ _ => eq_refl))
           junk eps2 omega A Pt parts cparts).
Qed.
Print Assumptions C12_dist_sa_restriction_adjoint_entries_BlockQc.

(* the literal equality  assemble (dist_transpose P) = transpose (assemble P)  is FALSE of the model: storage order.  Path
   0-1-2-3 on the ranks [2; 0; 2] (an empty rank; the hypotheses of the theorem hold): one aggregate, owned by rank 2, so row 0
   of R lists the columns 2,3 (own block) before 0,1 -- a permutation of the serial transpose, not the same list *)
Theorem C12_dist_sa_restriction_literal_equality_refuted :
  exists (A : crs QcS) (parts : list nat) (junk eps2 omega : QcS) Pt P R,
    psum parts = nrows A /\ ncols A = nrows A /\ wf A = true /\
    dist_sa_transfer junk eps2 omega A parts = Some (Pt, P, R) /\
    (forall j, j < nrows (assemble R) ->
       Permutation.Permutation (nth j (rows (assemble R)) []) (nth j (rows (transpose (assemble P))) [])) /\
    rows (assemble R) <> rows (transpose (assemble P)).
Proof.
  destruct dist_sa_restriction_storage_order_differs as [Pt [P [R [H1 [H2 [H3 [_ [_ H6]]]]]]]].
  exists sar_ex_A, [2; 0; 2], (qc 0 1), (qc 1 16), (qc 1 2), Pt, P, R.
  split; [reflexivity|]. split; [reflexivity|]. split; [reflexivity|]. split; [exact H1|].
  split; [rewrite H2; exact H3 | exact H6].
Qed.
Print Assumptions C12_dist_sa_restriction_literal_equality_refuted.

(* non-vacuity (an empty rank): on that world the hypotheses of C12_dist_sa_restriction_is_transpose_of_assembled_P hold and
   R, P^T have the stated shapes and orders *)
Example C12_dist_sa_restriction_nonvacuous :
  let parts := [2; 0; 2] in let eps2 := qc 1 16 in let omega := qc 1 2 in let junk := qc 0 1 in
  psum parts = nrows sar_ex_A /\ ncols sar_ex_A = nrows sar_ex_A /\ wf sar_ex_A = true /\
  forallb (fun i => memb i (Pmis.grow (conn junk sar_ex_A eps2) i)) (seq 0 4) = true /\
  match dist_sa_transfer junk eps2 omega sar_ex_A parts with
  | Some (_, P, R) => map (map fst) (rows (assemble R)) = [[2; 3; 0; 1]] /\
                      map (map fst) (rows (transpose (assemble P))) = [[0; 1; 2; 3]] /\
                      map (fun i => qval (mget (assemble R) 0 i)) (seq 0 4) = map (fun i => qval (mget (assemble P) i 0)) (seq 0 4)
  | None => False
  end.
Proof. vm_compute. repeat split; reflexivity. Qed.

(* C12-E, ONE run-time condition on math::inverse (InverseTwoSided.v, InverseTwoSidedUses.v).  Over a field a right inverse of
   a b x b block is a left inverse (C16_inverse_two_sided), so "math::inverse also succeeds on its own result" is redundant:
   the only hypothesis about the filtered diagonal D_i that remains is the run-time condition of the C++ -- math::inverse passed
   its assertion on D_i.  SUPERSEDES C12_nc_dist_sa_smooth_every_partition_BlockQc (which is kept): the hypothesis
   sinv (sinv D_i) <> 0  is dropped. *)
From Amgcl Require Import InverseTwoSidedUses OneInverseExamples.

Theorem C12_nc_dist_sa_smooth_every_partition_BlockQc_one_inverse (b : nat) (junk eps2 omega : BlockS QcS b)
  (A Pt : crs (BlockS QcS b)) (parts cparts : list nat) :
  psum parts = nrows A -> ncols A = nrows A -> wf A = true ->
  length parts = length cparts -> psum parts = nrows Pt ->
  forall i j, i < nrows A ->
    diag_count i (nth i (rows A) []) = 1 ->
    sinv (sa_D A (conn_flags _ junk A eps2) i) <> s0 ->
    mget (assemble (dist_sa_smooth junk eps2 omega (Dist.split A parts parts) (Dist.split Pt parts cparts))) i j
    = sa_formula omega A (conn_flags _ junk A eps2) Pt i j.
Proof. exact (nc_dist_sa_smooth_every_partition_BlockQc_one_inverse b junk eps2 omega A Pt parts cparts). Qed.
Print Assumptions C12_nc_dist_sa_smooth_every_partition_BlockQc_one_inverse.

(* non-vacuity (OneInverseExamples.v), the 3 x 3-block analogue of the witness of C12_nc_dist_sa_nonvacuous on the ranks
   [2; 0; 1] (rank 1 empty):  A = [X a c; . X .; . . X],  P_tent = I,  omega = 1/2,  eps_strong = 0, where X is the NON-SYMMETRIC
   block [[0,2,1],[1,1,0],[3,0,1]] of C16_inverse_two_sided_nonvacuous: X_00 = 0 and the pivot search of column 0 selects row 2,
   so math::inverse exchanges rows.  The filtered diagonal of row 0 is X, every hypothesis of the theorem above holds with the
   single condition  inverse(D_0) <> 0,  and the model agrees with the formula on row 0 (computed on both sides): entry (0,1),
   a LOCAL column, is -(1/2) X^-1 a; entry (0,2), a REMOTE column, is -(1/2) X^-1 c and not -(1/2) c X^-1 *)
Example C12_nc_dist_sa_one_inverse_nonvacuous :
  (Inverse.find_pivot 3 (blk_list oi_X) (seq 0 3) 0 = 2 /\ seqb (sadj oi_X) oi_X = false /\ sinv oi_X <> s0) /\
  psum oi_parts = nrows oi_A /\ ncols oi_A = nrows oi_A /\ wf oi_A = true /\
  length oi_parts = length oi_parts /\ psum oi_parts = nrows oi_Pt /\ 0 < nrows oi_A /\
  diag_count 0 (nth 0 (rows oi_A) []) = 1 /\
  sa_D oi_A (conn_flags _ oi_0 oi_A oi_0) 0 = oi_X /\
  Inverse.find_pivot 3 (blk_list (sa_D oi_A (conn_flags _ oi_0 oi_A oi_0) 0)) (seq 0 3) 0 = 2 /\
  sinv (sa_D oi_A (conn_flags _ oi_0 oi_A oi_0) 0) <> s0 /\
  forallb (fun j => seqb (mget (assemble (dist_sa_smooth oi_0 oi_0 oi_omega (Dist.split oi_A oi_parts oi_parts)
                                                         (Dist.split oi_Pt oi_parts oi_parts))) 0 j)
                         (sa_formula oi_omega oi_A (conn_flags _ oi_0 oi_A oi_0) oi_Pt 0 j)) [0; 1; 2] = true /\
  seqb (mget (assemble (dist_sa_smooth oi_0 oi_0 oi_omega (Dist.split oi_A oi_parts oi_parts) (Dist.split oi_Pt oi_parts oi_parts))) 0 1)
       (s0 - oi_omega * (sinv oi_X * oi_a))%S = true /\
  seqb (mget (assemble (dist_sa_smooth oi_0 oi_0 oi_omega (Dist.split oi_A oi_parts oi_parts) (Dist.split oi_Pt oi_parts oi_parts))) 0 2)
       (s0 - oi_omega * (oi_c * sinv oi_X))%S = false.
Proof. exact (conj oi_X_row_swap_nonsymmetric oi_dist_sa_one_inverse_nonvacuous). Qed.
