(* Inverse.v -- detail::inverse(n, A, t, p) as coded (amgcl/detail/inverse.hpp:44-97):
   in-place LU with partial pivoting through the index vector p (rows are never
   moved), then n pairs of triangular solves into the scratch array t, then
   copy(t, A).  A and t are row-major n*n arrays; t is UNINITIALISED in the callers
   (static_matrix inverse: std::array<T,N*N> buf) and therefore an explicit junk input.
   [assert(!math::is_zero(d))] is the only singularity check: result None.
   Definitions only; proofs in InverseProofs.v. *)
From Amgcl Require Import Scalar Vec DirectUtil.
Local Open Scope S_scope.
Local Open Scope nat_scope.

Section Inverse.
Context {S : Scalar}.
Local Notation vec := (vec S).

Definition swap_idx (p : list nat) (i j : nat) : list nat :=
  let a := nth i p 0 in let b := nth j p 0 in lset (lset p i b) j a.

(* pivot search: mag > pivot_mag, strict, first maximum wins; start (col, zero) *)
Definition find_pivot (n : nat) (A : vec) (p : list nat) (col : nat) : nat :=
  fst (for_loop col (n - col) (fun i (pm : nat * S) =>
         let mag := sabs (vget A (nth i p 0 * n + col)) in
         if sltb (snd pm) mag then (i, mag) else pm) (col, s0)).

(* elimination of one row: A[row*n+col] *= d; for(j > col) A[row*n+j] -= A[row*n+col]*A[prow*n+j] *)
Definition elim_row (n col prow : nat) (d : S) (row : nat) (A : vec) : vec :=
  let A1 := lset A (row * n + col) (vget A (row * n + col) * d)%S in
  for_loop (col + 1) (n - (col + 1)) (fun j A =>
    lset A (row * n + j) (vget A (row * n + j) - vget A (row * n + col) * vget A (prow * n + j))%S) A1.

(* one column of the factorisation; None = assertion failed *)
Definition lu_col (n col : nat) (Ap : vec * list nat) : option (vec * list nat) :=
  let '(A, p) := Ap in
  let p' := swap_idx p col (find_pivot n A p col) in
  let prow := nth col p' 0 in
  let d := sinv (vget A (prow * n + col)) in
  if is_zero d then None else
  let A' := for_loop (col + 1) (n - (col + 1)) (fun i A => elim_row n col prow d (nth i p' 0) A) A in
  Some (lset A' (prow * n + col) d, p').

Definition lu_factor (n : nat) (A : vec) : option (vec * list nat) :=
  for_loop 0 n (fun col o => match o with None => None | Some Ap => lu_col n col Ap end)
           (Some (A, seq 0 n)).

(* column k of the inverse *)
Definition solve_col (n : nat) (A : vec) (p : list nat) (k : nat) (t : vec) : vec :=
  let t1 := for_loop 0 n (fun i t =>
      let row := nth i p 0 in
      let b0 := if Nat.eqb row k then s1 else s0 in
      let b := for_loop 0 i (fun j b => (b - vget A (row * n + j) * vget t (j * n + k))%S) b0 in
      lset t (i * n + k) b) t in
  for_down 0 n (fun i t =>
      let row := nth i p 0 in
      let t' := for_loop (i + 1) (n - (i + 1)) (fun j t =>
                  lset t (i * n + k) (vget t (i * n + k) - vget A (row * n + j) * vget t (j * n + k))%S) t in
      lset t' (i * n + k) (vget t' (i * n + k) * vget A (row * n + i))%S) t1.

Definition inverse (n : nat) (A t : vec) : option vec :=
  match lu_factor n A with
  | None => None
  | Some (A', p) => Some (for_loop 0 n (fun k t => solve_col n A' p k t) t)
  end.

(* dense row-major helpers *)
Definition mat_get (n : nat) (A : vec) (i j : nat) : S := vget A (i * n + j).
Definition mat_mul_get (n : nat) (A B : vec) (i j : nat) : S :=
  sumn (fun k => (mat_get n A i k * mat_get n B k j)%S) n.

End Inverse.
