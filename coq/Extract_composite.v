(* Extract_composite.v -- extraction of the composite-preconditioner models (C18) to OCaml:
   Composite.v (Schur pressure correction, deflation), Cpr.v / CprDrs.v (CPR set-up), Inverse.v
   (detail::inverse, used by deflated_solver::init) and the init() wrapper of
   CompositeProofs5.v.  Directives: ExtractCommon.v (trusted base). *)
From Amgcl Require Import ExtractCommon.
From Coq Require Import QArith Qcanon.
From Amgcl Require Import Scalar QcInst Vec Crs Kernels KernelsProofs MatOps Relax Adapters Composite Cpr CprDrs
  DirectUtil Inverse CompositeProofs4 CompositeProofs5.
Separate Extraction
  QcInst.QcS Scalar.is_zero Scalar.smax Scalar.smin
  Vec Crs Kernels KernelsProofs.Ax MatOps Relax Adapters Composite Cpr CprDrs Inverse
  CompositeProofs4.matvec CompositeProofs4.deflated_precond CompositeProofs4.deflated_solve
  CompositeProofs5.unflatten CompositeProofs5.deflate_init.
