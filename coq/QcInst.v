(* QcInst.v -- the exact executable instance: canonical rationals.
   x/0 = 0 (Qcinv 0 = 0); pseudo square root on the 2^-64 grid:
   ssqrt q = Z.sqrt (floor (q * 2^128)) / 2^64   (0 for q <= 0). *)
From Coq Require Import QArith Qcanon.
From Amgcl Require Import Scalar.
Local Open Scope Z_scope.

Definition Qfloor' (q : Q) : Z := Z.div (Qnum q) (Zpos (Qden q)).
Definition two64 : Z := 2 ^ 64.
Definition two128 : Z := 2 ^ 128.
Definition qc_sqrt (q : Qc) : Qc :=
  let q' := this q in
  if Z.leb (Qnum q') 0 then Q2Qc 0
  else Q2Qc (Qmake (Z.sqrt (Qfloor' (Qmult q' (inject_Z two128)))) (Z.to_pos two64)).
Definition qc_abs (q : Qc) : Qc := if Z.ltb (Qnum (this q)) 0 then Qcopp q else q.
Definition qc_eqb (a b : Qc) : bool := Qeq_bool (this a) (this b).
Definition qc_ltb (a b : Qc) : bool :=
  Z.ltb (Qnum (this a) * Zpos (Qden (this b))) (Qnum (this b) * Zpos (Qden (this a))).
Definition qc_eps : Qc := Q2Qc (Qmake 1 (Z.to_pos (2 ^ 52))).

Definition QcS : Scalar :=
  mkScalar Qc (Q2Qc 0) (Q2Qc 1) Qcplus Qcmult Qcminus Qcopp Qcdiv Qcinv
           (fun x => x) qc_abs qc_sqrt qc_eqb qc_ltb qc_eps Q2Qc.

Lemma QcS_ring : Sring QcS.
Proof. exact Qcrt. Qed.
Lemma QcS_field : Sfield QcS.
Proof. exact Qcft. Qed.
Lemma QcS_eqb : seqb_spec QcS.
Proof.
  intros x y; unfold seqb, QcS, qc_eqb; split.
  - intro H. apply Qc_is_canon. apply Qeq_bool_iff. exact H.
  - intros ->. apply Qeq_bool_iff. reflexivity.
Qed.

(* literal helper: qc n d = n/d *)
Definition qc (n : Z) (d : positive) : T QcS := Q2Qc (Qmake n d).
