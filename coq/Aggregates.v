(* Aggregates.v -- plain_aggregates (amgcl/coarsening/plain_aggregates.hpp:118-205) and
   pointwise_aggregates (amgcl/coarsening/pointwise_aggregates.hpp:90-192), as coded.
   Definitions only; proofs: CoarsenProofs.v.

   ids are signed: undefined = -1, removed = -2 (as in the code).
   The flat array strong_connection[nnz] is kept per row (list (list bool), same
   shape as the rows of A); drivers print it flattened.
   Uninitialised memory: diagonal(A) leaves cells of rows without a diagonal entry
   unwritten -> explicit [junk] input (MatOps.diagonal).
   pointwise_matrix: modelled HERE (prefix pwm_), following the current code (/repo 0e81e11: the entry
   that ends the scan of a block column is no longer consumed).  coq/MatOps2.v of the matops
   group still described the pre-fix code when this was written. *)
From Amgcl Require Import Scalar Vec Crs Kernels MatOps.
Local Open Scope S_scope.

Definition undefined : Z := (-1)%Z.
Definition removed   : Z := (-2)%Z.

Fixpoint upd_nth {X} (l : list X) (i : nat) (x : X) : list X :=
  match l, i with
  | [], _ => []
  | _ :: tl, O => x :: tl
  | a :: tl, Datatypes.S k => a :: upd_nth tl k x
  end.

(* id[i]; reading outside the array does not happen for well-formed square A *)
Definition zget (l : list Z) (i : nat) : Z := nth i l removed.

Definition flags := list (list bool).

Inductive aggregates :=
| AggEmpty                                             (* throw error::empty_level() *)
| AggPrecond                                           (* precondition(...) failed (pointwise_matrix) *)
| AggOk (count : nat) (id : list Z) (strong : flags).


(* ---- backend::pointwise_matrix (builtin.hpp:500-665), current code.
   One cursor per scalar row of the block row (the remaining suffix of the row).  A round:
   cur_col /= block_size; col_end = (cur_col+1)*block_size; every cursor advances over the
   entries with c < col_end (their norms enter the maximum) and STOPS AT (does not consume) the
   first entry with c >= col_end, which competes for the next cur_col. *)
Definition pwm_upd (cur : option nat) (c : nat) : option nat :=
  match cur with None => Some c | Some c0 => Some (Nat.min c0 c) end.

Section PointwiseMatrix.
Context {S : Scalar}.

Definition pwm_heads (js : list (row S)) (cur : option nat) : option nat :=
  fold_left (fun cur r => match r with [] => cur | e :: _ => pwm_upd cur (fst e) end) js cur.

Fixpoint pwm_scan (col_end : nat) (r : row S) (acc : option S) : row S * option S :=
  match r with
  | [] => ([], acc)
  | (c, v) :: tl =>
    if Nat.leb col_end c then (r, acc)
    else pwm_scan col_end tl (Some (match acc with None => sabs v | Some m => smax m (sabs v) end))
  end.

Fixpoint pwm_pass (col_end : nat) (js : list (row S)) (acc : option S) : list (row S) * option S :=
  match js with
  | [] => ([], acc)
  | r :: rest =>
    let p := pwm_scan col_end r acc in
    let q := pwm_pass col_end rest (snd p) in
    (fst p :: fst q, snd q)
  end.

(* while(!done); every round consumes at least one entry: fuel = #entries + 1 *)
Fixpoint pwm_loop (fuel bs : nat) (cur : option nat) (js : list (row S)) : row S :=
  match fuel with
  | O => []
  | Datatypes.S f =>
    match cur with
    | None => []
    | Some c0 =>
      let cc := Nat.div c0 bs in
      let p := pwm_pass ((cc + 1) * bs) js None in
      (cc, match snd p with None => s0 | Some m => m end) :: pwm_loop f bs (pwm_heads (fst p) None) (fst p)
    end
  end.

Definition pwm_fuel (js : list (row S)) : nat :=
  Datatypes.S (fold_left (fun a r => a + length r)%nat js 0%nat).
Definition pwm_block_row (bs : nat) (js : list (row S)) : row S :=
  pwm_loop (pwm_fuel js) bs (pwm_heads js None) js.

Fixpoint pwm_groups {X} (np bs : nat) (l : list X) : list (list X) :=
  match np with
  | O => []
  | Datatypes.S k => firstn bs l :: pwm_groups k bs (skipn bs l)
  end.

(* None = precondition "Matrix size should be divisible by block_size" *)
Definition pwm (A : crs S) (bs : nat) : option (crs S) :=
  if Nat.eqb bs 0 then None else
  let np := Nat.div (nrows A) bs in
  if negb (Nat.eqb (np * bs) (nrows A)) then None else
  Some (mkCrs (Nat.div (ncols A) bs) (map (pwm_block_row bs) (pwm_groups np bs (rows A)))).
End PointwiseMatrix.

Section Aggregates.
Context {S : Scalar}.
Local Notation vec := (vec S).
Local Notation row := (row S).
Local Notation crs := (crs S).

(* ---- 1. strong connections:
   strong[j] = (c != i) && (eps_squared * dia[i] * dia[c] < v * v) *)
Definition strong_row (eps2 : S) (dia : vec) (i : nat) (r : row) : list bool :=
  let eps_dia_i := eps2 * vget dia i in
  map (fun e => negb (Nat.eqb (fst e) i) && sltb (eps_dia_i * vget dia (fst e)) (snd e * snd e)) r.

Definition strong_connections (eps2 : S) (A : crs) (junk : vec) : flags :=
  let dia := diagonal A false junk in
  map (fun ir => strong_row eps2 dia (fst ir) (snd ir)) (indexed (rows A)).

(* ---- 2. "remove lonely nodes": state = removed unless the row has a strong entry *)
Definition has_strong (fl : list bool) : bool := existsb (fun b => b) fl.
Definition init_id (st : flags) : list Z :=
  map (fun fl => if has_strong fl then undefined else removed) st.

(* (column, flag) pairs of row i *)
Definition srow (A : crs) (st : flags) (i : nat) : list (nat * bool) :=
  combine (map fst (nth i (rows A) [])) (nth i st []).

(* step (star): if (strong[j] && id[c] != removed) { id[c] = cur_id; neib.push_back(c); } *)
Definition claim_neib (cur : Z) (acc : list Z * list nat) (e : nat * bool) : list Z * list nat :=
  if snd e && negb (Z.eqb (zget (fst acc) (fst e)) removed)
  then (upd_nth (fst acc) (fst e) cur, snd acc ++ [fst e]) else acc.

(* if (strong[j] && id[cc] == undefined) id[cc] = cur_id; *)
Definition mark_undef (cur : Z) (id : list Z) (e : nat * bool) : list Z :=
  if snd e && Z.eqb (zget id (fst e)) undefined then upd_nth id (fst e) cur else id.

Definition mark_neibs (A : crs) (st : flags) (cur : Z) (id : list Z) (neib : list nat) : list Z :=
  fold_left (fun id c => fold_left (mark_undef cur) (srow A st c) id) neib id.

Definition agg_step (A : crs) (st : flags) (s : list Z * nat) (i : nat) : list Z * nat :=
  if Z.eqb (zget (fst s) i) undefined then
    let cur := Z.of_nat (snd s) in
    let id1 := upd_nth (fst s) i cur in
    let c := fold_left (claim_neib cur) (srow A st i) (id1, []) in
    (mark_neibs A st cur (fst c) (snd c), Datatypes.S (snd s))
  else s.

Definition agg_pass (A : crs) (st : flags) : list Z * nat :=
  fold_left (agg_step A st) (seq 0 (nrows A)) (init_id st, 0%nat).

(* ---- renumbering of vanished aggregates:
   cnt(count, 0); for (i : id) if (i >= 0) cnt[i] = 1; partial_sum(cnt);
   if (count > cnt.back()) { count = cnt.back(); id[i] = cnt[id[i]] - 1 (id[i] >= 0) } *)
Fixpoint psum_from (acc : nat) (l : list nat) : list nat :=
  match l with [] => [] | x :: tl => (acc + x)%nat :: psum_from (acc + x)%nat tl end.

Definition mark_used (id : list Z) (count : nat) : list nat :=
  fold_left (fun cnt a => if Z.leb 0 a then upd_nth cnt (Z.to_nat a) 1%nat else cnt) id (repeat 0%nat count).

Definition renumber (id : list Z) (count : nat) : list Z * nat :=
  let cnt := psum_from 0 (mark_used id count) in
  let back := last cnt 0%nat in
  if Nat.ltb back count
  then (map (fun a => if Z.leb 0 a then (Z.of_nat (nth (Z.to_nat a) cnt 0%nat) - 1)%Z else a) id, back)
  else (id, count).

Definition plain_aggregates (eps2 : S) (A : crs) (junk : vec) : aggregates :=
  let st := strong_connections eps2 A junk in
  let p := agg_pass A st in
  if Nat.eqb (snd p) 0 then AggEmpty
  else let r := renumber (fst p) (snd p) in AggOk (snd r) (fst r) st.

(* ---- remove_small_aggregates(n, block_size, min_aggregate, aggr) *)
Definition count_members (id : list Z) (count : nat) : list nat :=
  fold_left (fun cnt a => if Z.eqb a removed then cnt
                          else upd_nth cnt (Z.to_nat a) (Datatypes.S (nth (Z.to_nat a) cnt 0%nat)))
            id (repeat 0%nat count).

Definition small_map (bs min_aggr : nat) (cnt : list nat) : list Z * nat :=
  fold_left (fun (am : list Z * nat) c =>
               if Nat.ltb (bs * c) min_aggr then (fst am ++ [removed], snd am)
               else (fst am ++ [Z.of_nat (snd am)], Datatypes.S (snd am)))
            cnt ([], 0%nat).

Definition remove_small (bs min_aggr : nat) (count : nat) (id : list Z) : nat * list Z :=
  if Nat.leb min_aggr 1 then (count, id) else
  let nm := small_map bs min_aggr (count_members id count) in
  (snd nm, map (fun a => if Z.eqb a removed then a else nth (Z.to_nat a) (fst nm) removed) id).

(* ---- pointwise_aggregates, block_size > 1: expansion of the pointwise flags to A.
   For block row ip the code keeps one cursor j[k] per scalar row ia+k, ia = ip*bs; for every
   entry (cp, sp0) of Ap's row it advances each cursor while A.col[beg] < (cp+1)*bs and writes
       strong[beg] = sp && A.col[beg] != (ia + k),     sp = (cp == ip) || sp0
   (since /repo 09e5c12 ia is no longer advanced by the id loop: ia + k is the row's own
   diagonal).  Entries never reached keep the 0 of vector::resize. *)
Fixpoint take_lt (col_end : nat) (sp : bool) (excl : nat) (r : list nat) : list bool * list nat :=
  match r with
  | [] => ([], [])
  | c :: tl =>
    if Nat.ltb c col_end
    then let p := take_lt col_end sp excl tl in ((sp && negb (Nat.eqb c excl)) :: fst p, snd p)
    else ([], r)
  end.

Definition expand_step (bs ip : nat) (st : list (list bool * list nat)) (e : nat * bool)
  : list (list bool * list nat) :=
  let cp := fst e in
  let sp := Nat.eqb cp ip || snd e in
  let col_end := ((cp + 1) * bs)%nat in
  map (fun ks => let p := take_lt col_end sp (ip * bs + fst ks)%nat (snd (snd ks)) in
                 (fst (snd ks) ++ fst p, snd p))
      (indexed st).

Definition expand_block (bs ip : nat) (rs : list row) (aprow : list (nat * bool)) : flags :=
  let st := fold_left (expand_step bs ip) aprow (map (fun r => ([], map fst r)) rs) in
  map (fun fr => fst fr ++ repeat false (length (snd fr))) st.

Definition expand_ids (bs : nat) (pwid : list Z) : list Z :=
  flat_map (fun a => map (fun k => (Z.of_nat bs * a + Z.of_nat k)%Z) (seq 0 bs)) pwid.

Definition pointwise_aggregates (eps2 : S) (bs min_aggr : nat) (A : crs) (junk : vec) : aggregates :=
  if Nat.eqb bs 1 then
    match plain_aggregates eps2 A junk with
    | AggOk c id st => let r := remove_small 1 min_aggr c id in AggOk (fst r) (snd r) st
    | r => r
    end
  else
    match pwm A bs with
    | None => AggPrecond
    | Some Ap =>
      match plain_aggregates eps2 Ap junk with
      | AggOk c id st =>
        let r := remove_small bs min_aggr c id in
        AggOk (fst r * bs) (expand_ids bs (snd r))
              (concat (map (fun ig => expand_block bs (fst ig) (snd ig) (srow Ap st (fst ig)))
                           (indexed (pwm_groups (nrows Ap) bs (rows A)))))
      | r => r
      end
    end.

End Aggregates.
