(* Extract_sched.v -- extraction of the schedule model (C09) to OCaml.
   Directives: see ExtractCommon.v (ExtrOcamlBasic, ExtrOcamlNatInt, ExtrOcamlZBigInt, Z.ggcd). *)
From Amgcl Require Import ExtractCommon.
From Coq Require Import QArith Qcanon.
From Amgcl Require Import Scalar QcInst Vec Crs Kernels MatOps Relax Sched GsSched IluSched SchedTeam.
Separate Extraction
  QcInst.QcS Scalar.is_zero Scalar.smax Scalar.smin
  Vec Crs Kernels MatOps Relax Sched GsSched IluSched
  SchedTeam.team_trunc SchedTeam.team_cyclic
  SchedTeam.sptr_solve_team_trunc SchedTeam.ilu_parallel_solve_team_trunc SchedTeam.gs_par_sweep_team_trunc
  SchedTeam.sptr_solve_team_cyclic SchedTeam.ilu_parallel_solve_team_cyclic SchedTeam.gs_par_sweep_team_cyclic.
