(* Extract_sched.v -- extraction of the schedule model (C09) to OCaml.
   Directives: ExtrOcamlBasic, ExtrOcamlNatInt (nat -> int), ExtrOcamlZBigInt. *)
From Coq Require Import Extraction ExtrOcamlBasic ExtrOcamlNatInt ExtrOcamlZBigInt.
From Coq Require Import QArith Qcanon.
From Amgcl Require Import Scalar QcInst Vec Crs Kernels MatOps Relax Sched GsSched IluSched.
Extraction Blacklist List String Int Nat.
Set Extraction Optimize.
Separate Extraction
  QcInst.QcS Scalar.is_zero Scalar.smax Scalar.smin
  Vec Crs Kernels MatOps Relax Sched GsSched IluSched.
