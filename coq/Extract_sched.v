(* Extract_sched.v -- extraction of the schedule model (C09) to OCaml.
   Directives: see ExtractCommon.v (ExtrOcamlBasic, ExtrOcamlNatInt, ExtrOcamlZBigInt, Z.ggcd). *)
From Amgcl Require Import ExtractCommon.
From Coq Require Import QArith Qcanon.
From Amgcl Require Import Scalar QcInst Vec Crs Kernels MatOps Relax Sched GsSched IluSched.
Separate Extraction
  QcInst.QcS Scalar.is_zero Scalar.smax Scalar.smin
  Vec Crs Kernels MatOps Relax Sched GsSched IluSched.
