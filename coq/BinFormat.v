(* BinFormat.v -- model of amgcl/io/binary.hpp over a list of BYTES (Z, taken mod 256).

   File layout (as written by examples/mm2bin.cpp with io::write):
     CRS  :  n : SizeT(8) | ptr : (n+1) x Ptr(8) | col : nnz x Col(8) | val : nnz x Val(vw)
     dense:  n : SizeT(8) | m : SizeT(8) | data : n*m x Val(vw)   (row-major)
   SizeT is size_t or ptrdiff_t ([n_signed]); Ptr = Col = ptrdiff_t; values are opaque
   groups of [vw] bytes (no text conversion: the round trip is byte-exact).

   Modelled faithfully, including what is NOT checked by read_crs (binary.hpp:69-122):
   `ptr` and `nnz` are taken from the file as they are; seeks are computed in size_t
   arithmetic (mod 2^64) and converted to a signed stream offset (negative -> the seek
   fails and every later read fails); a read that hits the end of the file fails (EIO);
   a zero-length read succeeds; resize with a negative/absurd count throws (EAlloc);
   sort_row receives `(int)(ptr[i+1] - ptr[i])` (32-bit truncation) and touches
   col/val[beg .. beg+len) when len >= 2 -- through BOUNDS-CHECKED accessors here, so an
   out-of-range slice is the explicit result [Error EOOB].
   [checked = true] is the reader AS IT IS since the repairs 7c1d34c (row_beg <= row_end) and
   3c662b9 (ptr.front() >= 0, ptr non-decreasing, ptr.back() <= nnz) in /repo -- the model the
   correspondence harness runs; [checked = false] is the reader BEFORE those repairs, kept
   only as the subject of the historical refutation theorems. *)
From Coq Require Import List ZArith Lia Bool.
From Amgcl Require Import MMFormat.
Import ListNotations.
Local Open Scope Z_scope.

(* ------------------------------------------------------------------ bytes and words *)
Fixpoint decode_le (bs : list Z) : Z :=
  match bs with [] => 0 | b :: bs' => b mod 256 + 256 * decode_le bs' end.
Fixpoint encode_le (k : nat) (x : Z) : list Z :=
  match k with O => [] | S k' => x mod 256 :: encode_le k' (x / 256) end.
Definition udec (bs : list Z) : Z := decode_le bs.                 (* size_t    *)
Definition sdec (bs : list Z) : Z := s64 (decode_le bs).           (* ptrdiff_t *)
Definition enc8 (x : Z) : list Z := encode_le 8 x.

(* f.seekg(off); f.read(buf, len): [off] is the size_t value of the offset expression *)
Definition sub_bytes (f : list Z) (off len : Z) : option (list Z) :=
  let o := s64 off in
  if o <? 0 then None                                   (* seek failed: stream is bad *)
  else if len <=? 0 then Some []                        (* zero-length read succeeds  *)
  else if o + len <=? Z.of_nat (length f) then Some (firstn (Z.to_nat len) (skipn (Z.to_nat o) f))
  else None.                                            (* short read: failbit        *)

(* split into groups of w bytes *)
Fixpoint chunks (w : nat) (k : nat) (bs : list Z) : list (list Z) :=
  match k with O => [] | S k' => firstn w bs :: chunks w k' (skipn w bs) end.

Definition read_words (f : list Z) (off count : Z) : option (list Z) :=
  match sub_bytes f off (count * 8) with
  | Some bs => Some (map sdec (chunks 8 (Z.to_nat count) bs))
  | None => None
  end.
Definition read_vals (vw : Z) (f : list Z) (off count : Z) : option (list (list Z)) :=
  match sub_bytes f off (count * vw) with
  | Some bs => Some (chunks (Z.to_nat vw) (Z.to_nat count) bs)
  | None => None
  end.

(* ------------------------------------------------------------------ flat CRS *)
Record flat := mkFlat { f_n : Z; f_ptr : list Z; f_cv : list (Z * list Z) (* (col, value bytes) *) }.

Fixpoint monotone (l : list Z) : bool :=
  match l with
  | a :: ((b :: _) as tl) => (a <=? b) && monotone tl
  | _ => true
  end.
(* ptr = chunk+1 entries, starts at 0, non-decreasing, ends at the number of stored entries.
   (The binary CRS format does not store the number of columns, so column indices cannot be
   validated by the reader; that is a property of the format, not of read_crs.) *)
Definition wf_flat (A : flat) : bool :=
  match f_ptr A with
  | [] => false
  | p0 :: _ => (p0 =? 0) && monotone (f_ptr A) && (last (f_ptr A) 0 =? Z.of_nat (length (f_cv A)))
  end.

Definition s32 (x : Z) : Z := let y := x mod 4294967296 in if y <? 2147483648 then y else y - 4294967296.

(* sort_row(&col[beg], &val[beg], len) with checked accesses *)
Definition sort_slice (cv : list (Z * list Z)) (beg len : Z) : result (list (Z * list Z)) :=
  if len <? 2 then Ok cv                                 (* loop body never runs *)
  else if (0 <=? beg) && (beg + len <=? Z.of_nat (length cv)) then
    let b := Z.to_nat beg in let l := Z.to_nat len in
    Ok (firstn b cv ++ sort_row (firstn l (skipn b cv)) ++ skipn (b + l) cv)
  else Error EOOB.

Fixpoint sort_all (ptr : list Z) (cv : list (Z * list Z)) : result (list (Z * list Z)) :=
  match ptr with
  | beg :: ((en :: _) as tl) =>
      cv' <- sort_slice cv beg (s32 (en - beg)) ;; sort_all tl cv'
  | _ => Ok cv
  end.

Definition dec_size (n_signed : bool) (bs : list Z) : Z := if n_signed then sdec bs else udec bs.

(* crs_size<IndexType>(fname) *)
Definition crs_size (n_signed : bool) (f : list Z) : result Z :=
  nb <- of_opt (sub_bytes f 0 8) EIO ;; Ok (dec_size n_signed nb).

(* read_crs(fname, n, ptr, col, val, row_beg, row_end) *)
Definition read_crs (checked n_signed : bool) (vw : Z) (f : list Z) (row_beg row_end : Z) : result flat :=
  nb <- of_opt (sub_bytes f 0 8) EIO ;;
  let n := dec_size n_signed nb in
  let r0 := if row_beg <? 0 then 0 else row_beg in
  let r1 := if row_end <? 0 then s64 n else row_end in
  _ <- guard ((0 <=? r0) && (r1 <=? s64 n)) ERange ;;
  _ <- guard (negb checked || (r0 <=? r1)) ERange ;;
  let chunk := r1 - r0 in
  _ <- guard (alloc_ok (chunk + 1) 8) EAlloc ;;                       (* ptr.resize(chunk + 1) *)
  ptr <- of_opt (read_words f (u64 (8 + r0 * 8)) (chunk + 1)) EIO ;;
  nzb <- of_opt (sub_bytes f (u64 (8 + n * 8)) 8) EIO ;;
  let nz := sdec nzb in
  match ptr with
  | [] => Error EOOB                                                   (* ptr.front() of an empty vector *)
  | p0 :: _ =>
      _ <- guard (negb checked || ((0 <=? p0) && monotone ptr && (last ptr 0 <=? nz))) EFormat ;;
      let nnz_beg := if n_signed then p0 else u64 p0 in               (* SizeT nnz_beg = ptr.front() *)
      let ptr' := map (fun p => s64 (p - p0)) ptr in
      let back := last ptr' 0 in
      _ <- guard (alloc_ok back 8 && alloc_ok back vw) EAlloc ;;      (* col/val.resize(ptr.back()) *)
      let col_beg := 8 + (n + 1) * 8 in
      col <- of_opt (read_words f (u64 (col_beg + nnz_beg * 8)) back) EIO ;;
      val <- of_opt (read_vals vw f (u64 (col_beg + nz * 8 + nnz_beg * vw)) back) EIO ;;
      cv <- sort_all ptr' (combine col val) ;;
      Ok (mkFlat n ptr' cv)
  end.

Record bdense := mkBDense { bd_n : Z; bd_m : Z; bd_val : list (list Z) }.

(* read_dense(fname, n, m, v, row_beg, row_end) *)
Definition read_dense (checked n_signed : bool) (vw : Z) (f : list Z) (row_beg row_end : Z) : result bdense :=
  nb <- of_opt (sub_bytes f 0 8) EIO ;;
  mb <- of_opt (sub_bytes f 8 8) EIO ;;
  let n := dec_size n_signed nb in let m := dec_size n_signed mb in
  let r0 := if row_beg <? 0 then 0 else row_beg in
  let r1 := if row_end <? 0 then s64 n else row_end in
  _ <- guard ((0 <=? r0) && (r1 <=? s64 n)) ERange ;;
  _ <- guard (negb checked || (r0 <=? r1)) ERange ;;
  let chunk := r1 - r0 in
  let count := if n_signed then s64 (chunk * m) else u64 (chunk * m) in
  _ <- guard (alloc_ok count vw) EAlloc ;;                             (* v.resize(chunk * m) *)
  v <- of_opt (read_vals vw f (u64 (16 + r0 * m * vw)) count) EIO ;;
  Ok (mkBDense n m v).

(* ------------------------------------------------------------------ writers (mm2bin.cpp) *)
Definition write_crs (A : flat) : list Z :=
  enc8 (f_n A) ++ flat_map enc8 (f_ptr A) ++ flat_map (fun e => enc8 (fst e)) (f_cv A)
  ++ flat_map snd (f_cv A).
Definition write_dense (n m : Z) (v : list (list Z)) : list Z :=
  enc8 n ++ enc8 m ++ concat v.

(* reference operations on flat matrices for the theorems *)
Definition slice_flat (r0 r1 : Z) (A : flat) : flat :=
  let p := firstn (Z.to_nat (r1 - r0 + 1)) (skipn (Z.to_nat r0) (f_ptr A)) in
  let b := nth (Z.to_nat r0) (f_ptr A) 0 in let e := nth (Z.to_nat r1) (f_ptr A) 0 in
  mkFlat (f_n A) (map (fun x => x - b) p) (firstn (Z.to_nat (e - b)) (skipn (Z.to_nat b) (f_cv A))).
