(* DistBlock.v -- C11 for NON-COMMUTATIVE value types (ncring_theory: static_matrix blocks under MPI), part 1:
   the distributed matrix-vector product and residual (Dist.dist_spmv / dist_residual) assemble to the serial
   kernels for EVERY contiguous row / column partition WITHOUT commutativity of the product.  The proofs of
   DistProofs.v (Section DistRing) are re-done with the operand order of the model kept: the matrix entry is
   the LEFT factor of every product a_ij * x_j, the coefficients alpha, beta multiply from the left. *)
From Amgcl Require Import Scalar Vec Crs Kernels KernelsProofs MatOps Dist DistProofs NcRing NcKernels.
Local Open Scope nat_scope.

Section DistNc.
Context {S : Scalar}.
Local Notation vec := (vec S).
Local Notation row := (row S).
Local Notation crs := (crs S).
Hypothesis Hnc : ncring_theory S.
Hypothesis Seqb : seqb_spec S.
Local Instance ncd : NcRingInst S := ncring_inst Hnc.
Local Open Scope S_scope.

Lemma nc_spmv_map2 alpha (A : crs) (x : vec) beta (y : vec) : length y = nrows A ->
  spmv alpha A x beta y = map2 (fun r yi => alpha * dotrow r x + beta * yi) (rows A) y.
Proof.
  intro H. unfold spmv. destruct (is_zero beta) eqn:Hb.
  - rewrite upd2_map2 by exact H. apply map2_ext_in. intros a b _.
    apply (nc_is_zero_true Seqb) in Hb. subst beta. ncr.
  - rewrite upd2_map2 by exact H. reflexivity.
Qed.

Lemma nc_residual_map2 (f : vec) (A : crs) (x res : vec) : length f = nrows A -> length res = nrows A ->
  residual f A x res = map2 (fun r fi => fi - dotrow r x) (rows A) f.
Proof.
  intros H1 H2. unfold residual.
  rewrite (upd3_map2 (fun s fi => fi - s)) by assumption. reflexivity.
Qed.

(* ---- one row: local + remote parts (only ADDITION is commuted) ---- *)
Lemma nc_dotrow_filter_split (p : nat * S -> bool) (r : row) (x : vec) :
  dotrow r x = dotrow (filter p r) x + dotrow (filter (fun e => negb (p e)) r) x.
Proof.
  induction r as [|e r IH]; simpl.
  - rewrite dotrow_nil. ncr.
  - rewrite (nc_dotrow_cons Hnc). destruct (p e); simpl; rewrite (nc_dotrow_cons Hnc), IH; ncr.
Qed.

Lemma nc_dotrow_reindex (f : nat -> nat) (l : row) (x x' : vec) :
  (forall e, In e l -> vget x' (f (fst e)) = vget x (fst e)) ->
  dotrow (map (fun e => (f (fst e), snd e)) l) x' = dotrow l x.
Proof.
  induction l as [|e l IH]; intro H; simpl; [reflexivity|].
  rewrite !(nc_dotrow_cons Hnc). simpl. rewrite (H e) by (simpl; auto).
  rewrite IH by (intros; apply H; simpl; auto). reflexivity.
Qed.

Lemma nc_row_split_dot (b p : nat) (rw : row) (x xl : vec) (rc : list nat) :
  (forall c, (b <= c < b + p)%nat -> vget xl (c - b) = vget x c) ->
  (forall e, In e (rem_row b p rw) -> In (fst e) rc) ->
  dotrow (loc_row b p rw) xl
  + dotrow (map (fun e => (index_of (fst e) rc, snd e)) (rem_row b p rw)) (map (fun c => vget x c) rc)
  = dotrow rw x.
Proof.
  intros Hloc Hrem.
  rewrite (nc_dotrow_filter_split (fun e => in_range b p (fst e)) rw x).
  f_equal.
  - unfold loc_row. apply (nc_dotrow_reindex (fun c => (c - b)%nat)).
    intros e He. apply filter_In in He. destruct He as [_ He].
    unfold in_range in He. apply andb_prop in He. destruct He as [H1 H2].
    apply Nat.leb_le in H1. apply Nat.ltb_lt in H2. apply Hloc. lia.
  - unfold rem_row in *. apply (nc_dotrow_reindex (fun c => index_of c rc)).
    intros e He. apply vget_ghost. apply Hrem. exact He.
Qed.

(* ---- one rank ---- *)
Lemma nc_rank_spmv_spec alpha (b p gc : nat) (rws : list row) (x xl : vec) beta (yl : vec) :
  let M := split_rows b p gc rws in
  (forall c, (b <= c < b + p)%nat -> vget xl (c - b) = vget x c) ->
  length yl = length rws ->
  rank_spmv alpha M (rem_cols M) (map (fun c => vget x c) (rem_cols M)) xl beta yl
  = map2 (fun rw yi => alpha * dotrow rw x + beta * yi) rws yl.
Proof.
  intros M Hloc Hlen. unfold rank_spmv.
  assert (Hl1 : length yl = nrows (rm_loc M)) by (unfold M, split_rows, nrows; simpl; rewrite map_length; exact Hlen).
  rewrite (nc_spmv_map2 alpha (rm_loc M)) by exact Hl1.
  destruct (is_nil (rem_cols M)) eqn:Hnil.
  - assert (Hrows : forall rw, In rw rws -> rem_row b p rw = []).
    { intros rw Hrw. destruct (rem_row b p rw) as [|e t] eqn:E; [reflexivity|].
      exfalso. pose proof (rem_cols_In b p gc rws rw e Hrw) as HIn.
      rewrite E in HIn. specialize (HIn (or_introl eq_refl)).
      fold M in HIn. destruct (rem_cols M); [inversion HIn | discriminate]. }
    unfold M, split_rows. simpl. rewrite map2_map_l.
    apply map2_ext_in. intros rw yi Hrw.
    pose proof (nc_row_split_dot b p rw x xl [] Hloc) as Hd.
    rewrite (Hrows rw Hrw) in Hd. simpl in Hd.
    rewrite <- Hd by (intros e []). rewrite dotrow_nil. ncr.
  - set (rc := rem_cols M) in *.
    assert (Hl2 : length (map2 (fun r yi => alpha * dotrow r xl + beta * yi) (rows (rm_loc M)) yl)
                  = nrows (renumber rc (rm_rem M))).
    { rewrite map2_length; unfold M, split_rows, renumber, nrows; simpl; rewrite !map_length; [reflexivity | lia]. }
    rewrite (nc_spmv_map2 alpha (renumber rc (rm_rem M))) by exact Hl2.
    unfold M, split_rows, renumber. simpl. rewrite map_map.
    rewrite map2_map_fuse.
    apply map2_ext_in. intros rw yi Hrw.
    rewrite <- (nc_row_split_dot b p rw x xl rc Hloc).
    + ncr.
    + intros e He. unfold rc, M. apply (rem_cols_In b p gc rws rw e Hrw He).
Qed.

Lemma nc_rank_residual_spec (b p gc : nat) (rws : list row) (x xl fl resl : vec) :
  let M := split_rows b p gc rws in
  (forall c, (b <= c < b + p)%nat -> vget xl (c - b) = vget x c) ->
  length fl = length rws -> length resl = length rws ->
  rank_residual fl M (rem_cols M) (map (fun c => vget x c) (rem_cols M)) xl resl
  = map2 (fun rw fi => fi - dotrow rw x) rws fl.
Proof.
  intros M Hloc Hlen Hlen2. unfold rank_residual.
  assert (Hl1 : length fl = nrows (rm_loc M)) by (unfold M, split_rows, nrows; simpl; rewrite map_length; exact Hlen).
  assert (Hl1' : length resl = nrows (rm_loc M)) by (unfold M, split_rows, nrows; simpl; rewrite map_length; exact Hlen2).
  rewrite (nc_residual_map2 fl (rm_loc M)) by assumption.
  destruct (is_nil (rem_cols M)) eqn:Hnil.
  - assert (Hrows : forall rw, In rw rws -> rem_row b p rw = []).
    { intros rw Hrw. destruct (rem_row b p rw) as [|e t] eqn:E; [reflexivity|].
      exfalso. pose proof (rem_cols_In b p gc rws rw e Hrw) as HIn.
      rewrite E in HIn. specialize (HIn (or_introl eq_refl)).
      fold M in HIn. destruct (rem_cols M); [inversion HIn | discriminate]. }
    unfold M, split_rows. simpl. rewrite map2_map_l.
    apply map2_ext_in. intros rw fi Hrw.
    pose proof (nc_row_split_dot b p rw x xl [] Hloc) as Hd.
    rewrite (Hrows rw Hrw) in Hd. simpl in Hd.
    rewrite <- Hd by (intros e []). rewrite dotrow_nil. ncr.
  - set (rc := rem_cols M) in *.
    assert (Hl2 : length (map2 (fun r fi => fi - dotrow r xl) (rows (rm_loc M)) fl)
                  = nrows (renumber rc (rm_rem M))).
    { rewrite map2_length; unfold M, split_rows, renumber, nrows; simpl; rewrite !map_length; [reflexivity | lia]. }
    rewrite (nc_spmv_map2 (- s1) (renumber rc (rm_rem M))) by exact Hl2.
    unfold M, split_rows, renumber. simpl. rewrite map_map.
    rewrite map2_map_fuse.
    apply map2_ext_in. intros rw fi Hrw.
    rewrite <- (nc_row_split_dot b p rw x xl rc Hloc).
    + ncr.
    + intros e He. unfold rc, M. apply (rem_cols_In b p gc rws rw e Hrw He).
Qed.

(* ---- the whole world ---- *)
Section World.
Variable A : crs.
Variables rparts cparts : list nat.
Hypothesis Hparts : length rparts = length cparts.
Hypothesis Hrows : psum rparts = nrows A.
Hypothesis Hcols : psum cparts = ncols A.
Hypothesis Hwf : wf A = true.
Local Notation n := (length cparts).
Local Notation D := (split A rparts cparts).
Local Notation rcs := (map rem_cols (dm_ranks D)).

Lemma nc_dist_spmv_pieces alpha (x : vec) beta (y : vec) : length y = nrows A ->
  dist_spmv alpha D (chunks cparts x) beta (chunks rparts y)
  = map2 (map2 (fun rw yi => alpha * dotrow rw x + beta * yi)) (chunks rparts (rows A)) (chunks rparts y).
Proof.
  intro Hy. unfold dist_spmv. change (dm_cparts D) with cparts.
  rewrite (map_ext_in _ (fun r => map2 (fun rw yi => alpha * dotrow rw x + beta * yi)
                                       (nth r (chunks rparts (rows A)) []) (nth r (chunks rparts y) []))).
  - apply (map_seq_nth2 (map2 (fun rw yi => alpha * dotrow rw x + beta * yi))
                        (chunks rparts (rows A)) (chunks rparts y) [] [] n);
      rewrite chunks_length; exact Hparts.
  - intros r Hr. apply in_seq in Hr. destruct Hr as [_ Hr]. simpl in Hr.
    rewrite (cp_rc_nth A rparts cparts) by exact Hr. rewrite (nth_rank A rparts cparts) by exact Hr.
    rewrite (nth_rcs A rparts cparts) by exact Hr.
    unfold dm_pattern. change (dm_cparts D) with cparts.
    rewrite (exchange_spec cparts rcs (rcs_len A rparts cparts) (rcs_ok A rparts cparts Hparts Hrows Hcols Hwf) x r Hr).
    rewrite (nth_rcs A rparts cparts) by exact Hr.
    unfold split_rank.
    apply (nc_rank_spmv_spec alpha (pbeg cparts r) (psize cparts r) (ncols A)
                          (nth r (chunks rparts (rows A)) []) x (nth r (chunks cparts x) []) beta
                          (nth r (chunks rparts y) [])).
    + intros c Hc. apply vget_chunk; assumption.
    + apply chunk_lengths_eq; [lia | exact Hy].
Qed.

Theorem nc_dist_spmv_assembled alpha (x : vec) beta (y : vec) : length y = nrows A ->
  concat (dist_spmv alpha D (chunks cparts x) beta (chunks rparts y)) = spmv alpha A x beta y.
Proof.
  intro Hy. rewrite nc_dist_spmv_pieces by exact Hy.
  rewrite concat_map2_chunks by (unfold nrows in Hrows; lia).
  symmetry. apply nc_spmv_map2. exact Hy.
Qed.

(* entry form: the matrix entry is the LEFT factor of every product *)
Theorem nc_dist_spmv_entries alpha (x : vec) beta (y : vec) i : length y = nrows A -> i < nrows A ->
  vget (concat (dist_spmv alpha D (chunks cparts x) beta (chunks rparts y))) i
  = alpha * sumn (fun j => mget A i j * vget x j) (ncols A) + beta * vget y i.
Proof.
  intros Hy Hi. rewrite nc_dist_spmv_assembled by exact Hy.
  exact (nc_spmv_spec Hnc Seqb alpha A x beta y i Hwf Hy Hi).
Qed.

Theorem nc_dist_residual_assembled (f x res : vec) : length f = nrows A -> length res = nrows A ->
  concat (dist_residual (chunks rparts f) D (chunks cparts x) (chunks rparts res)) = residual f A x res.
Proof.
  intros Hf Hres. unfold dist_residual. change (dm_cparts D) with cparts.
  rewrite (map_ext_in _ (fun r => map2 (fun rw fi => fi - dotrow rw x)
                                       (nth r (chunks rparts (rows A)) []) (nth r (chunks rparts f) []))).
  - rewrite (map_seq_nth2 (map2 (fun rw fi => fi - dotrow rw x))
                          (chunks rparts (rows A)) (chunks rparts f) [] [] n)
      by (rewrite chunks_length; exact Hparts).
    rewrite concat_map2_chunks by (unfold nrows in Hrows; lia).
    symmetry. apply nc_residual_map2; assumption.
  - intros r Hr. apply in_seq in Hr. destruct Hr as [_ Hr]. simpl in Hr.
    rewrite (cp_rc_nth A rparts cparts) by exact Hr. rewrite (nth_rank A rparts cparts) by exact Hr.
    rewrite (nth_rcs A rparts cparts) by exact Hr.
    unfold dm_pattern. change (dm_cparts D) with cparts.
    rewrite (exchange_spec cparts rcs (rcs_len A rparts cparts) (rcs_ok A rparts cparts Hparts Hrows Hcols Hwf) x r Hr).
    rewrite (nth_rcs A rparts cparts) by exact Hr.
    unfold split_rank.
    apply (nc_rank_residual_spec (pbeg cparts r) (psize cparts r) (ncols A)
                              (nth r (chunks rparts (rows A)) []) x (nth r (chunks cparts x) [])
                              (nth r (chunks rparts f) []) (nth r (chunks rparts res) [])).
    + intros c Hc. apply vget_chunk; assumption.
    + apply chunk_lengths_eq; [lia | exact Hf].
    + apply chunk_lengths_eq; [lia | exact Hres].
Qed.

Theorem nc_dist_residual_entries (f x res : vec) i : length f = nrows A -> length res = nrows A -> i < nrows A ->
  vget (concat (dist_residual (chunks rparts f) D (chunks cparts x) (chunks rparts res))) i
  = vget f i - sumn (fun j => mget A i j * vget x j) (ncols A).
Proof.
  intros Hf Hres Hi. rewrite nc_dist_residual_assembled by assumption.
  exact (nc_residual_spec Hnc f A x res i Hwf Hf Hres Hi).
Qed.
End World.

End DistNc.
