(* AdaptersProofs3.v -- C17, round 2:
   (1) the positive row-order chain: every preconditioner class whose template constructor is
       "copy the user matrix, sort_rows, init" (amg.hpp:198-208, relaxation/as_preconditioner.hpp:59-70
       since 71caa28, preconditioner/cpr.hpp:111-122 and cpr_drs.hpp:135-146 since f6202e0) builds, from
       ANY listing order of the entries, exactly what it builds from the sorted matrix;
       classes that only FORWARD the user matrix to such a class (make_solver, deflated_solver,
       runtime::preconditioner, schur_pressure_correction's sub-solvers) inherit it;
   (2) the negative part: make_block_solver applies adapter::block_matrix to the USER rows
       (make_block_solver.hpp:53-60); the adapter's merge (minimum over the row heads, consume while
       col < end) silently produces a different block matrix for an unsorted listing: refuted;
   (3) zero-copy: adapter::zero_copy is a BORROW in the ownership model of C10 (Own.v): creating the
       view allocates nothing, and no sequence of later operations on any object -- copies, moves,
       assignments, destruction of the view or of everything -- frees the user's arrays. *)
From Coq Require Import Permutation.
From Amgcl Require Import Scalar Vec Crs Kernels KernelsProofs MatOps Relax Ilu Amg Adapters AdaptersProofs AdaptersProofs2
  Own OwnProofs.

(* ================================================================ (1) entry points that sort *)
Section Entry.
Context {S : Scalar}.
Local Notation crs := (crs S).

(* amg(const Matrix &M, prm): A = make_shared<build_matrix>(M); sort_rows( *A ); do_init(A):
   the model's entry point Amg.amg_init applied to the generic copy of the adapter *)
Definition amg_entry (ce : nat) (dc : bool) (ml : nat) (cop : crs -> crs -> crs -> crs)
           (ts : list (option (crs * crs))) (A : adapter S) : list ldesc :=
  amg_init ce dc ml cop ts (to_crs A).
(* relaxation::as_preconditioner<Backend, Relax>(const Matrix &M): copy, sort_rows, init (the
   smoother's set-up on the sorted copy) *)
Definition asp_entry {Y} (setup : crs -> Y) (A : adapter S) : Y := sorting_entry setup A.
(* preconditioner::cpr / cpr_drs (const Matrix &K): K_ptr = make_shared<build_matrix>(K);
   sort_rows( *K_ptr ); init(K_ptr): whatever first_scalar_pass / init compute *)
Definition cpr_entry {Y} (init : crs -> Y) (A : adapter S) : Y := sorting_entry init A.
Definition cpr_drs_entry {Y} (init : crs -> Y) (A : adapter S) : Y := sorting_entry init A.
(* a class whose template constructor passes the user matrix on to an inner class (make_solver:
   P(A, prm.precond); deflated_solver: P(A, ...); runtime::preconditioner: new Precond(A, ...)) *)
Definition forwarding_entry {Y Z} (inner : adapter S -> Y) (wrap : Y -> Z) (A : adapter S) : Z := wrap (inner A).

Lemma amg_entry_sorts ce dc ml cop ts (A : adapter S) :
  amg_entry ce dc ml cop ts A = sorting_entry (fun M => build ce dc ml cop ts M 0) A.
Proof. reflexivity. Qed.

(* the object built from any listing equals the one built from the SORTED matrix handed to an entry
   point that does not sort *)
Theorem sorting_entry_is_sorted_input {Y} (build : crs -> Y) (A B : adapter S) :
  rows_perm (to_crs A) (to_crs B) -> distinct_cols (to_crs A) ->
  sorting_entry build A = plain_entry build (crs_view (sort_rows (to_crs B))).
Proof.
  intros H1 H2. unfold sorting_entry, plain_entry. rewrite to_crs_crs_view. f_equal.
  apply sort_rows_canonical; assumption.
Qed.

Theorem amg_entry_order_independent ce dc ml cop ts (A B : adapter S) :
  rows_perm (to_crs A) (to_crs B) -> distinct_cols (to_crs A) ->
  amg_entry ce dc ml cop ts A = amg_entry ce dc ml cop ts B.
Proof. intros H1 H2. rewrite !amg_entry_sorts. apply sorting_entry_order_independent; assumption. Qed.

Theorem asp_entry_order_independent {Y} (setup : crs -> Y) (A B : adapter S) :
  rows_perm (to_crs A) (to_crs B) -> distinct_cols (to_crs A) ->
  asp_entry setup A = asp_entry setup B.
Proof. apply sorting_entry_order_independent. Qed.

Theorem cpr_entry_order_independent {Y} (init : crs -> Y) (A B : adapter S) :
  rows_perm (to_crs A) (to_crs B) -> distinct_cols (to_crs A) ->
  cpr_entry init A = cpr_entry init B /\ cpr_drs_entry init A = cpr_drs_entry init B.
Proof. intros H1 H2. split; apply sorting_entry_order_independent; assumption. Qed.

Theorem forwarding_entry_order_independent {Y Z} (inner : adapter S -> Y) (wrap : Y -> Z) (A B : adapter S) :
  inner A = inner B -> forwarding_entry inner wrap A = forwarding_entry inner wrap B.
Proof. intro H. unfold forwarding_entry. rewrite H. reflexivity. Qed.

(* the order-sensitive smoother of C17_unsorted_ilu0_scan_refuted behind the repaired entry point:
   as_preconditioner<Backend, ilu0> on any listing = ILU(0) of the sorted matrix *)
Theorem asp_ilu0_order_independent (junk : vec S) (A B : adapter S) :
  rows_perm (to_crs A) (to_crs B) -> distinct_cols (to_crs A) ->
  asp_entry (fun M => ilu0 M junk) A = ilu0 (sort_rows (to_crs B)) junk.
Proof.
  intros H1 H2. unfold asp_entry. rewrite (sorting_entry_is_sorted_input _ A B H1 H2).
  unfold plain_entry. rewrite to_crs_crs_view. reflexivity.
Qed.

(* shuffling the entries inside the rows of a matrix with distinct columns is exactly the relation
   the theorems quantify over (the generator of tools/props/C17.py: gen.shuffle_rows) *)
Theorem shuffled_listing_rows_perm (M M' : crs) :
  ncols M = ncols M' -> Forall2 (fun r r' => Permutation r r') (rows M) (rows M') ->
  rows_perm (to_crs (crs_view M)) (to_crs (crs_view M')).
Proof. intros Hc HF. rewrite !to_crs_crs_view. split; assumption. Qed.

End Entry.

(* ================================================================ (2) make_block_solver *)
Section BlockSolverEntry.
Context {S : Scalar}.

(* make_block_solver(const Matrix &A): S = make_shared<Solver>(adapter::block_matrix<value_type>(A), ...):
   the block adapter runs on the user's listing; only afterwards does the inner amg sort (block) rows *)
Definition block_solver_entry {Y} (b : nat) (build : gcrs (@Adapters.block S) -> Y) (A : adapter S) : Y :=
  build (to_gcrs (block_adapter b A)).

(* Witness: one 2x2 block row  [ a . | . c ]  listed as ((0,a)) / ((3,c)) and with row 0 reversed
                               [ . d | . . ]             ((1,d))
   is fine; but  row 0 = ((3,c),(0,a))  makes the iterator start at block column 1 and fold the entry
   of column 0 into it: one block (column 1) instead of two, a different operator. *)
Definition bs_sorted (a c d : S) : crs S := mkCrs 4 [[(0, a); (3, c)]; [(1, d)]]%nat.
Definition bs_shuffled (a c d : S) : crs S := mkCrs 4 [[(3, c); (0, a)]; [(1, d)]]%nat.

Theorem block_solver_entry_order_dependent_refuted (a c d : S) :
  rows_perm (bs_shuffled a c d) (bs_sorted a c d) /\ distinct_cols (bs_shuffled a c d) /\
  block_solver_entry 2 (fun G => G) (crs_view (bs_sorted a c d))
    = mkG 2 [[(0, [[a; s0]; [s0; d]]); (1, [[s0; c]; [s0; s0]])]]%nat /\
  block_solver_entry 2 (fun G => G) (crs_view (bs_shuffled a c d))
    = mkG 2 [[(0, [[s0; s0]; [s0; d]]); (1, [[a; c]; [s0; s0]])]]%nat.
Proof.
  split; [|split; [|split]].
  - split; [reflexivity|]. simpl. constructor; [apply perm_swap|]. constructor; [apply Permutation_refl|constructor].
  - unfold distinct_cols. simpl. repeat constructor; simpl; intuition discriminate.
  - reflexivity.
  - reflexivity.
Qed.

End BlockSolverEntry.

(* ================================================================ (3) zero-copy is a borrow *)
(* adapter::zero_copy(n, ptr, col, val) = Own.NewView k u (own_data = false, arrays = the user's block u).
   What the view SHOWS is AdaptersProofs.zero_copy_view (to_crs of it = the source matrix); what it
   OWNS is nothing: *)
Lemma fold_step_run ops ops' : fold_left step ops' (run ops) = run (ops ++ ops').
Proof. unfold run, run_gen. rewrite fold_left_app. reflexivity. Qed.

Theorem zero_copy_view_is_borrow (ops ops' : list op) (k u : nat) :
  find k (run ops) = None ->
  let w  := run ops in
  let w1 := step w (NewView k u) in
  let w2 := fold_left step ops' w1 in
  (* the view: not owning, pointing at the user's arrays *)
  find k w1 = Some (mkObj false (Some (Usr u))) /\
  (* nothing was allocated or copied *)
  heap w1 = heap w /\ next w1 = next w /\
  (* whatever happens next, no delete[] ever reaches a user block, nothing is freed twice ... *)
  ufree w2 = 0 /\ dfree w2 = 0 /\
  (* ... and when every object is gone nothing has leaked and the user's arrays are still the user's *)
  leaks (destroy_all w2) = 0 /\ ufree (destroy_all w2) = 0 /\
  (* destroying the view itself changes neither the heap nor the counters *)
  heap (step w1 (Destroy k)) = heap w /\ ufree (step w1 (Destroy k)) = 0.
Proof.
  intro Hk. cbv zeta.
  assert (E1 : step (run ops) (NewView k u) = set_obj k (mkObj false (Some (Usr u))) (run ops)).
  { unfold step. cbn [step_gen]. rewrite Hk. reflexivity. }
  assert (F1 : find k (step (run ops) (NewView k u)) = Some (mkObj false (Some (Usr u)))).
  { rewrite E1, find_set_obj, Nat.eqb_refl. reflexivity. }
  assert (R1 : step (run ops) (NewView k u) = run (ops ++ [NewView k u])).
  { rewrite <- fold_step_run. reflexivity. }
  assert (R2 : fold_left step ops' (step (run ops) (NewView k u)) = run ((ops ++ [NewView k u]) ++ ops')).
  { rewrite R1. apply fold_step_run. }
  split; [exact F1|]. split; [rewrite E1; reflexivity|]. split; [rewrite E1; reflexivity|].
  rewrite R2.
  destruct (reachable_no_error ((ops ++ [NewView k u]) ++ ops')) as [Hd Hu].
  destruct (no_leak_no_bad_free ((ops ++ [NewView k u]) ++ ops')) as (_ & L & _ & U & _).
  split; [exact Hu|]. split; [exact Hd|]. split; [exact L|]. split; [exact U|].
  unfold step at 1 3. cbn [step_gen]. rewrite F1. unfold free_data. cbn [own].
  rewrite E1. cbn [del_obj set_obj heap ufree objs].
  split; [reflexivity|]. apply (proj2 (reachable_no_error ops)).
Qed.
