(* DistMsgProofs.v -- proofs about the message-passing model DistMsg.v (property C11, "any message
   arrival order").
   Part A: a world whose rank traces satisfy the request discipline delivers the same values under every
           admissible schedule (capture points of the sends, clobbering of receive buffers) as under the
           atomic one.
   Part B: sequential composition of closed, balanced worlds.
   Part C: the ghost exchange of amgcl (exch_round) is disciplined, balanced, and delivers Dist.exchange;
           hence so do k consecutive exchanges, under every admissible schedule. *)
From Amgcl Require Import Scalar Vec Crs Kernels MatOps Dist DistProofs DistMsg.
Local Open Scope nat_scope.

(* ------------------------------------------------------------------ *)
Section ListM.
Context {X : Type}.

Lemma nth_error_indexed_from (b : nat) (l : list X) i :
  nth_error (combine (seq b (length l)) l) i = option_map (fun x => (b + i, x)) (nth_error l i).
Proof.
  revert b i; induction l as [|a l IH]; intros b i; simpl.
  - destruct i; reflexivity.
  - destruct i; simpl.
    + rewrite Nat.add_0_r. reflexivity.
    + rewrite IH. destruct (nth_error l i); simpl; [do 2 f_equal; lia|reflexivity].
Qed.

Lemma nth_error_indexed (l : list X) i : nth_error (indexed l) i = option_map (fun x => (i, x)) (nth_error l i).
Proof. unfold indexed. rewrite nth_error_indexed_from. reflexivity. Qed.

Lemma In_indexed (l : list X) i x : In (i, x) (indexed l) <-> nth_error l i = Some x.
Proof.
  split.
  - intro H. apply In_nth_error in H. destruct H as [k H]. rewrite nth_error_indexed in H.
    destruct (nth_error l k) eqn:E; simpl in H; [|discriminate]. injection H as <- <-. exact E.
  - intro H. apply (nth_error_In _ i). rewrite nth_error_indexed, H. reflexivity.
Qed.

Lemma forallb_indexed (F : nat * X -> bool) (l : list X) :
  forallb F (indexed l) = true <-> (forall i x, nth_error l i = Some x -> F (i, x) = true).
Proof.
  rewrite forallb_forall. split.
  - intros H i x Hx. apply H. apply In_indexed. exact Hx.
  - intros H [i x] Hx. apply H. apply In_indexed. exact Hx.
Qed.

Lemma nth_error_app_l (l1 l2 : list X) i : i < length l1 -> nth_error (l1 ++ l2) i = nth_error l1 i.
Proof. intro H. apply nth_error_app1. exact H. Qed.

Lemma nth_error_app_r (l1 l2 : list X) i : nth_error (l1 ++ l2) (length l1 + i) = nth_error l2 i.
Proof. rewrite nth_error_app2 by lia. f_equal. lia. Qed.

Lemma firstn_app_l (l1 l2 : list X) c : c <= length l1 -> firstn c (l1 ++ l2) = firstn c l1.
Proof. intro H. rewrite firstn_app. replace (c - length l1) with 0 by lia. simpl. apply app_nil_r. Qed.

Lemma firstn_app_r (l1 l2 : list X) c : firstn (length l1 + c) (l1 ++ l2) = l1 ++ firstn c l2.
Proof. rewrite firstn_app. rewrite firstn_all2 by lia. f_equal. f_equal. lia. Qed.

Lemma skipn_app_l (l1 l2 : list X) c : c <= length l1 -> skipn c (l1 ++ l2) = skipn c l1 ++ l2.
Proof. intro H. rewrite skipn_app. replace (c - length l1) with 0 by lia. reflexivity. Qed.

Lemma skipn_app_r (l1 l2 : list X) c : skipn (length l1 + c) (l1 ++ l2) = skipn c l2.
Proof. rewrite skipn_app. rewrite skipn_all2 by lia. simpl. f_equal. lia. Qed.

Lemma existsb_firstn_le (f : X -> bool) (l : list X) a b : a <= b ->
  existsb f (firstn b l) = false -> existsb f (firstn a l) = false.
Proof.
  revert a b; induction l as [|x l IH]; intros a b Hab H.
  - rewrite firstn_nil. reflexivity.
  - destruct a as [|a]; [reflexivity|]. destruct b as [|b]; [lia|]. simpl in *.
    apply Bool.orb_false_iff in H as [H1 H2]. rewrite H1. simpl. apply (IH a b); [lia|exact H2].
Qed.

Lemma firstn_split (l : list X) c1 c2 : c1 <= c2 -> firstn c2 l = firstn c1 l ++ firstn (c2 - c1) (skipn c1 l).
Proof.
  revert c1 c2; induction l as [|x l IH]; intros c1 c2 H.
  - rewrite skipn_nil, !firstn_nil. reflexivity.
  - destruct c1 as [|c1]; simpl.
    + rewrite Nat.sub_0_r. reflexivity.
    + destruct c2 as [|c2]; [lia|]. simpl. f_equal. apply IH. lia.
Qed.

End ListM.

(* ------------------------------------------------------------------ *)
(* Part A                                                              *)
Section Determinism.
Variable V : Type.
Local Notation ev := (ev V).
Local Notation prog := (prog V).
Local Notation world := (world V).

Lemma mem_fold_nowrite (b : nat) (l : list ev) (m : option V) :
  existsb (is_write_to V b) l = false -> fold_left (mem_step V b) l m = m.
Proof.
  revert m; induction l as [|e l IH]; intros m H; simpl in *; [reflexivity|].
  apply Bool.orb_false_iff in H as [H1 H2]. rewrite IH by exact H2.
  destruct e; simpl in *; try reflexivity. rewrite H1. reflexivity.
Qed.

Lemma mem_at_stable (p : prog) (c1 c2 b : nat) : c1 <= c2 ->
  existsb (is_write_to V b) (firstn (c2 - c1) (skipn c1 p)) = false ->
  mem_at V p c2 b = mem_at V p c1 b.
Proof.
  intros Hc H. unfold mem_at.
  assert (E := firstn_split p c1 c2 Hc).
  rewrite E, fold_left_app. apply mem_fold_nowrite. exact H.
Qed.

(* a send from a stable buffer carries the content at the time of the MPI_Isend, whenever it is read *)
Lemma send_stable_capture (p : prog) ps h b r t c :
  send_stable V p = true -> nth_error p ps = Some (Isend h b r t) ->
  S ps <= c <= limit V p ps h -> mem_at V p c b = mem_at V p (S ps) b.
Proof.
  intros Hs He Hc. unfold send_stable in Hs. rewrite forallb_indexed in Hs.
  specialize (Hs ps _ He). simpl in Hs. apply Bool.negb_true_iff in Hs.
  apply mem_at_stable; [lia|].
  apply (existsb_firstn_le _ _ (c - S ps) (limit V p ps h - S ps)); [lia|exact Hs].
Qed.

Lemma recvs_exclusive_iff (same : ev -> ev -> bool) (p : prog) :
  recvs_exclusive V same p = true <->
  (forall pos pos' e e' h h', nth_error p pos = Some e -> nth_error p pos' = Some e' ->
     recv_handle V e = Some h -> recv_handle V e' = Some h' -> same e e' = true ->
     pending_overlap V p pos h pos' h' = false).
Proof.
  unfold recvs_exclusive. rewrite forallb_indexed. split.
  - intros H pos pos' e e' h h' H1 H2 R1 R2 Hs. specialize (H pos _ H1). cbn [fst snd] in H.
    rewrite forallb_indexed in H. specialize (H pos' _ H2). cbn [fst snd] in H. rewrite R1, R2, Hs in H.
    apply Bool.negb_true_iff in H. exact H.
  - intros H pos e He. cbn [fst snd]. rewrite forallb_indexed. intros pos' e' He'. cbn [fst snd].
    destruct (recv_handle V e) as [h|] eqn:R1; [|reflexivity].
    destruct (recv_handle V e') as [h'|] eqn:R2; [|reflexivity].
    destruct (same e e') eqn:Hs; [|reflexivity].
    rewrite (H pos pos' e e' h h' He He' R1 R2 Hs). reflexivity.
Qed.

Lemma slots_exclusive_no_clobber (p : prog) pos pos' h s q t h' q' t' :
  slots_exclusive V p = true ->
  nth_error p pos = Some (Irecv h s q t) -> nth_error p pos' = Some (Irecv h' s q' t') ->
  pos <> pos' -> pos' < limit V p pos h -> pos < limit V p pos' h' -> False.
Proof.
  intros Hx H1 H2 Hne Hl1 Hl2. unfold slots_exclusive in Hx. rewrite recvs_exclusive_iff in Hx.
  assert (Q := Hx pos pos' _ _ h h' H1 H2 eq_refl eq_refl (Nat.eqb_refl s)).
  unfold pending_overlap in Q.
  apply Nat.eqb_neq in Hne. rewrite Hne in Q. simpl in Q.
  apply Nat.ltb_lt in Hl1. apply Nat.ltb_lt in Hl2. rewrite Hl1, Hl2 in Q. discriminate.
Qed.

Theorem msg_deterministic (W : world) :
  (forall r, send_stable V (nth r W []) = true) ->
  (forall r, slots_exclusive V (nth r W []) = true) ->
  forall cap clob, cap_admissible V W cap -> clob_admissible V W clob ->
  forall r pos, obs V W cap clob r pos = obs V W (cap_atomic) (clob_none) r pos.
Proof.
  intros Hs Hx cap clob Hcap Hclob r pos. unfold obs.
  assert (Hrv : forall pos, recv_val V W cap r pos = recv_val V W cap_atomic r pos).
  { intro p0. unfold recv_val. destruct (nth_error (nth r W []) p0) as [[h b q t|h s q t|hs|b v]|]; try reflexivity.
    destruct (nth_error (positions V (is_send_to V r t) (nth q W [])) _) as [ps|]; [|reflexivity].
    destruct (nth_error (nth q W []) ps) as [[h' b' r' t'|? ? ? ?|?|? ?]|] eqn:E; try reflexivity.
    unfold cap_atomic. apply (send_stable_capture (nth q W []) ps h' b' r' t'); [apply Hs|exact E|].
    apply (Hcap q ps h' b' r' t' E). }
  destruct (clob r pos) as [pos'|] eqn:E; unfold clob_none; [|apply Hrv].
  exfalso. destruct (Hclob r pos pos' E) as (h & s & q & t & h' & q' & t' & H1 & H2 & Hne & Hl1 & Hl2).
  exact (slots_exclusive_no_clobber (nth r W []) pos pos' h s q t h' q' t' (Hx r) H1 H2 Hne Hl1 Hl2).
Qed.

End Determinism.

(* ------------------------------------------------------------------ *)
(* the converse: a send that is never completed and whose buffer is written again *)
Section Refuted.
Variable V : Type.
Variables v1 v2 : V.
Hypothesis v12 : v1 <> v2.

(* rank 0: x1 -> buffer, Isend, (no completion call), x2 -> the same buffer, Isend through the same request
   variable; rank 1: two receive/wait rounds *)
Definition bad_world : world V :=
  [ [Write 0 v1; Isend 0 0 1 7; Write 0 v2; Isend 0 0 1 7];
    [Irecv 0 0 0 7; Wait [0]; Irecv 0 0 0 7; Wait [0]] ].
Definition late_capture : capture := fun q ps => if Nat.eqb q 0 && Nat.eqb ps 1 then 4 else S ps.

Lemma bad_world_admissible (cap : capture) :
  (cap = cap_atomic \/ cap = late_capture) -> cap_admissible V bad_world cap.
Proof.
  intros Hc q ps h b r t He.
  destruct q as [|[|q]]; simpl in He.
  - destruct ps as [|[|[|[|ps]]]]; simpl in He; try discriminate.
    + injection He as <- <- <- <-. destruct Hc as [-> | ->]; vm_compute; lia.
    + injection He as <- <- <- <-. destruct Hc as [-> | ->]; vm_compute; lia.
    + destruct ps; discriminate.
  - destruct ps as [|[|[|[|ps]]]]; simpl in He; try discriminate. destruct ps; discriminate.
  - destruct q; destruct ps; discriminate.
Qed.

Theorem msg_unwaited_send_refuted :
  all_waited V (nth 0 bad_world []) = false /\
  cap_admissible V bad_world cap_atomic /\ cap_admissible V bad_world late_capture /\
  clob_admissible V bad_world clob_none /\
  obs V bad_world cap_atomic clob_none 1 0 = Some v1 /\
  obs V bad_world late_capture clob_none 1 0 = Some v2 /\
  obs V bad_world cap_atomic clob_none 1 0 <> obs V bad_world late_capture clob_none 1 0.
Proof.
  split; [reflexivity|]. split; [apply bad_world_admissible; left; reflexivity|].
  split; [apply bad_world_admissible; right; reflexivity|].
  split; [intros r pos pos' H; discriminate|].
  split; [reflexivity|]. split; [reflexivity|].
  change (Some v1 <> Some v2). intro H. injection H as H. exact (v12 H).
Qed.

End Refuted.

(* ------------------------------------------------------------------ *)
(* Part B: sequential composition                                      *)
Section Compose.
Variable V : Type.
Local Notation ev := (ev V).
Local Notation prog := (prog V).
Local Notation world := (world V).

Lemma positions_from_app f b (l1 l2 : prog) :
  positions_from V f b (l1 ++ l2) = positions_from V f b l1 ++ positions_from V f (b + length l1) l2.
Proof.
  revert b; induction l1 as [|e l1 IH]; intro b; simpl.
  - rewrite Nat.add_0_r. reflexivity.
  - rewrite IH. replace (S b + length l1) with (b + S (length l1)) by lia.
    destruct (f e); reflexivity.
Qed.

Lemma positions_from_shift f b (l : prog) :
  positions_from V f b l = map (Nat.add b) (positions_from V f 0 l).
Proof.
  revert b; induction l as [|e l IH]; intro b; simpl; [reflexivity|].
  rewrite (IH (S b)), (IH 1).
  destruct (f e); simpl; rewrite map_map; [rewrite Nat.add_0_r; f_equal|]; apply map_ext; intro; lia.
Qed.

Lemma positions_from_length f b (l : prog) : length (positions_from V f b l) = count V f l.
Proof.
  unfold count. revert b; induction l as [|e l IH]; intro b; simpl; [reflexivity|].
  destruct (f e); simpl; rewrite IH; reflexivity.
Qed.

Lemma positions_from_spec f b (l : prog) ps :
  In ps (positions_from V f b l) -> exists e, nth_error l (ps - b) = Some e /\ f e = true /\ b <= ps.
Proof.
  revert b; induction l as [|e l IH]; intros b H; simpl in H; [contradiction|].
  destruct (f e) eqn:E.
  - destruct H as [<-|H].
    + exists e. rewrite Nat.sub_diag. auto.
    + destruct (IH _ H) as [e' [H1 [H2 H3]]]. exists e'. replace (ps - b) with (S (ps - S b)) by lia. simpl. split; [exact H1|split; [exact H2|lia]].
  - destruct (IH _ H) as [e' [H1 [H2 H3]]]. exists e'. replace (ps - b) with (S (ps - S b)) by lia. simpl. split; [exact H1|split; [exact H2|lia]].
Qed.

Lemma count_app f (l1 l2 : prog) : count V f (l1 ++ l2) = count V f l1 + count V f l2.
Proof. unfold count. rewrite filter_app, app_length. reflexivity. Qed.

Lemma until_done_app_some h (l1 l2 : prog) k : until_done V h l1 = Some k -> until_done V h (l1 ++ l2) = Some k.
Proof.
  revert k; induction l1 as [|e l1 IH]; intros k H; simpl in *; [discriminate|].
  destruct (waits V h e); [exact H|]. destruct (starts V h e); [discriminate|].
  destruct (until_done V h l1) as [k'|]; [|discriminate]. rewrite (IH k' eq_refl). exact H.
Qed.

Lemma until_done_lt h (l : prog) k : until_done V h l = Some k -> k < length l.
Proof.
  revert k; induction l as [|e l IH]; intros k H; simpl in *; [discriminate|].
  destruct (waits V h e); [injection H as <-; lia|]. destruct (starts V h e); [discriminate|].
  destruct (until_done V h l) as [k'|]; [|discriminate]. injection H as <-. specialize (IH k' eq_refl). lia.
Qed.

Lemma limit_le_length (p : prog) pos h : pos < length p -> limit V p pos h <= length p.
Proof.
  intro H. unfold limit. destruct (until_done V h (skipn (S pos) p)) as [k|] eqn:E; [|lia].
  apply until_done_lt in E. rewrite skipn_length in E. lia.
Qed.

Lemma limit_gt (p : prog) pos h : pos < length p -> pos < limit V p pos h.
Proof. intro H. unfold limit. destruct (until_done V h (skipn (S pos) p)); lia. Qed.

Lemma limit_app_l (p1 p2 : prog) pos h : pos < length p1 ->
  until_done V h (skipn (S pos) p1) <> None -> limit V (p1 ++ p2) pos h = limit V p1 pos h.
Proof.
  intros Hp Hd. unfold limit. rewrite skipn_app_l by lia.
  destruct (until_done V h (skipn (S pos) p1)) as [k|] eqn:E; [|congruence].
  rewrite (until_done_app_some h _ p2 k E). reflexivity.
Qed.

Lemma limit_app_r (p1 p2 : prog) pos h : limit V (p1 ++ p2) (length p1 + pos) h = length p1 + limit V p2 pos h.
Proof.
  unfold limit. replace (S (length p1 + pos)) with (length p1 + S pos) by lia. rewrite skipn_app_r.
  destruct (until_done V h (skipn (S pos) p2)); [lia|]. rewrite app_length. reflexivity.
Qed.

(* semantic forms of the checks *)
Lemma all_waited_iff (p : prog) :
  all_waited V p = true <->
  (forall pos e h, nth_error p pos = Some e -> handle_of V e = Some h -> until_done V h (skipn (S pos) p) <> None).
Proof.
  unfold all_waited. rewrite forallb_indexed. split.
  - intros H pos e h He Hh. specialize (H pos e He). cbn [fst snd] in H. rewrite Hh in H.
    intro K. rewrite K in H. discriminate H.
  - intros H pos e He. cbn [fst snd]. destruct (handle_of V e) as [h|] eqn:Hh; [|reflexivity].
    specialize (H pos e h He Hh). destruct (until_done V h (skipn (S pos) p)); [reflexivity|congruence].
Qed.

Lemma send_stable_iff (p : prog) :
  send_stable V p = true <->
  (forall pos h b r t, nth_error p pos = Some (Isend h b r t) ->
     existsb (is_write_to V b) (firstn (limit V p pos h - S pos) (skipn (S pos) p)) = false).
Proof.
  unfold send_stable. rewrite forallb_indexed. split.
  - intros H pos h b r t He. specialize (H pos _ He). simpl in H. apply Bool.negb_true_iff in H. exact H.
  - intros H pos e He. simpl. destruct e; try reflexivity. apply Bool.negb_true_iff. exact (H pos _ _ _ _ He).
Qed.

Lemma nth_error_split (p1 p2 : prog) pos e : nth_error (p1 ++ p2) pos = Some e ->
  (pos < length p1 /\ nth_error p1 pos = Some e) \/ (exists i, pos = length p1 + i /\ nth_error p2 i = Some e).
Proof.
  intro H. destruct (Nat.lt_ge_cases pos (length p1)) as [L|G].
  - left. rewrite nth_error_app1 in H by exact L. auto.
  - right. exists (pos - length p1). rewrite nth_error_app2 in H by exact G. split; [lia|exact H].
Qed.

Lemma all_waited_app (p1 p2 : prog) : all_waited V p1 = true -> all_waited V p2 = true -> all_waited V (p1 ++ p2) = true.
Proof.
  rewrite !all_waited_iff. intros H1 H2 pos e h He Hh.
  destruct (nth_error_split _ _ _ _ He) as [[L E]|[i [-> E]]].
  - rewrite skipn_app_l by lia. specialize (H1 pos e h E Hh).
    destruct (until_done V h (skipn (S pos) p1)) as [k|] eqn:K; [|congruence].
    rewrite (until_done_app_some h _ p2 k K). discriminate.
  - replace (S (length p1 + i)) with (length p1 + S i) by lia. rewrite skipn_app_r. exact (H2 i e h E Hh).
Qed.

Lemma send_stable_app (p1 p2 : prog) :
  all_waited V p1 = true -> send_stable V p1 = true -> send_stable V p2 = true -> send_stable V (p1 ++ p2) = true.
Proof.
  rewrite all_waited_iff, !send_stable_iff. intros Hw H1 H2 pos h b r t He.
  destruct (nth_error_split _ _ _ _ He) as [[L E]|[i [-> E]]].
  - rewrite (limit_app_l p1 p2 pos h L (Hw pos _ h E eq_refl)).
    rewrite skipn_app_l by lia. rewrite firstn_app_l.
    + exact (H1 pos h b r t E).
    + rewrite skipn_length. assert (B := limit_le_length p1 pos h L). lia.
  - rewrite limit_app_r. replace (S (length p1 + i)) with (length p1 + S i) by lia. rewrite skipn_app_r.
    replace (length p1 + limit V p2 i h - (length p1 + S i)) with (limit V p2 i h - S i) by lia.
    exact (H2 i h b r t E).
Qed.

Lemma recvs_exclusive_app (same : ev -> ev -> bool) (p1 p2 : prog) :
  all_waited V p1 = true -> recvs_exclusive V same p1 = true -> recvs_exclusive V same p2 = true ->
  recvs_exclusive V same (p1 ++ p2) = true.
Proof.
  rewrite all_waited_iff, !recvs_exclusive_iff. intros Hw H1 H2 pos pos' e e' h h' He He' R R' Hs.
  assert (HH : forall e h, recv_handle V e = Some h -> handle_of V e = Some h) by (intros [] ? Q; simpl in *; congruence).
  unfold pending_overlap.
  destruct (nth_error_split _ _ _ _ He) as [[L E]|[i [-> E]]];
  destruct (nth_error_split _ _ _ _ He') as [[L' E']|[i' [-> E']]].
  - rewrite (limit_app_l p1 p2 pos h L (Hw _ _ _ E (HH _ _ R))).
    rewrite (limit_app_l p1 p2 pos' h' L' (Hw _ _ _ E' (HH _ _ R'))).
    exact (H1 pos pos' e e' h h' E E' R R' Hs).
  - rewrite (limit_app_l p1 p2 pos h L (Hw _ _ _ E (HH _ _ R))).
    assert (B := limit_le_length p1 pos h L).
    assert (Q : Nat.ltb (length p1 + i') (limit V p1 pos h) = false) by (apply Nat.ltb_ge; lia).
    rewrite Q, Bool.andb_false_r. reflexivity.
  - rewrite (limit_app_l p1 p2 pos' h' L' (Hw _ _ _ E' (HH _ _ R'))).
    assert (B := limit_le_length p1 pos' h' L').
    assert (Q : Nat.ltb (length p1 + i) (limit V p1 pos' h') = false) by (apply Nat.ltb_ge; lia).
    rewrite Q, Bool.andb_false_r. reflexivity.
  - rewrite !limit_app_r. specialize (H2 i i' e e' h h' E E' R R' Hs). unfold pending_overlap in H2.
    replace (Nat.eqb (length p1 + i) (length p1 + i')) with (Nat.eqb i i')
      by (destruct (Nat.eqb_spec i i'); [subst; symmetry; apply Nat.eqb_refl|symmetry; apply Nat.eqb_neq; lia]).
    replace (Nat.ltb (length p1 + i') (length p1 + limit V p2 i h)) with (Nat.ltb i' (limit V p2 i h))
      by (destruct (Nat.ltb_spec i' (limit V p2 i h)); [symmetry; apply Nat.ltb_lt; lia|symmetry; apply Nat.ltb_ge; lia]).
    replace (Nat.ltb (length p1 + i) (length p1 + limit V p2 i' h')) with (Nat.ltb i (limit V p2 i' h'))
      by (destruct (Nat.ltb_spec i (limit V p2 i' h')); [symmetry; apply Nat.ltb_lt; lia|symmetry; apply Nat.ltb_ge; lia]).
    exact H2.
Qed.

Lemma disciplined_app (p1 p2 : prog) : disciplined V p1 = true -> disciplined V p2 = true -> disciplined V (p1 ++ p2) = true.
Proof.
  unfold disciplined. rewrite !Bool.andb_true_iff. intros [[[A1 B1] C1] D1] [[[A2 B2] C2] D2].
  repeat split.
  - apply all_waited_app; assumption.
  - apply send_stable_app; assumption.
  - apply recvs_exclusive_app; assumption.
  - apply recvs_exclusive_app; assumption.
Qed.

End Compose.

Section ComposeWorld.
Variable V : Type.
Local Notation ev := (ev V).
Local Notation prog := (prog V).
Local Notation world := (world V).

Lemma nth_wapp (W1 W2 : world) r : length W1 = length W2 ->
  nth r (wapp V W1 W2) [] = nth r W1 [] ++ nth r W2 [].
Proof.
  unfold wapp. revert W2 r; induction W1 as [|p1 W1 IH]; intros [|p2 W2] r H; simpl in *; try discriminate.
  - destruct r; reflexivity.
  - destruct r; [reflexivity|]. apply IH. lia.
Qed.

Lemma wapp_length (W1 W2 : world) : length W1 = length W2 -> length (wapp V W1 W2) = length W1.
Proof. intro H. unfold wapp. apply map2_length. exact H. Qed.

Lemma mem_fold_default (b : nat) (l : list ev) (m : option V) :
  fold_left (mem_step V b) l m = match fold_left (mem_step V b) l None with Some v => Some v | None => m end.
Proof.
  revert m; induction l as [|e l IH]; intro m; simpl; [reflexivity|].
  rewrite (IH (mem_step V b m e)), (IH (mem_step V b None e)).
  destruct (fold_left (mem_step V b) l None); [reflexivity|].
  destruct e; simpl; try reflexivity. destruct (Nat.eqb buf b); reflexivity.
Qed.

Lemma mem_at_app_l (p1 p2 : prog) c b : c <= length p1 -> mem_at V (p1 ++ p2) c b = mem_at V p1 c b.
Proof. intro H. unfold mem_at. rewrite firstn_app_l by exact H. reflexivity. Qed.

Lemma mem_at_app_r_some (p1 p2 : prog) c b v : mem_at V p2 c b = Some v ->
  mem_at V (p1 ++ p2) (length p1 + c) b = Some v.
Proof.
  unfold mem_at. intro H. rewrite firstn_app_r, fold_left_app, mem_fold_default, H. reflexivity.
Qed.

Lemma positions_lt f (p : prog) ps : In ps (positions V f p) -> ps < length p.
Proof.
  intro H. destruct (positions_from_spec V f 0 p ps H) as [e [H1 _]]. rewrite Nat.sub_0_r in H1.
  apply nth_error_Some. congruence.
Qed.

Lemma balanced_count (W : world) :
  balanced V W <-> (forall q r t, count V (is_send_to V r t) (nth q W []) = count V (is_recv_from V q t) (nth r W [])).
Proof. unfold balanced, positions. split; intros H q r t; specialize (H q r t); rewrite positions_from_length in *; exact H. Qed.

Lemma balanced_wapp (W1 W2 : world) : length W1 = length W2 -> balanced V W1 -> balanced V W2 -> balanced V (wapp V W1 W2).
Proof.
  intro L. rewrite !balanced_count. intros H1 H2 q r t. rewrite !nth_wapp by exact L. rewrite !count_app.
  rewrite H1, H2. reflexivity.
Qed.

Lemma recv_val_wapp_l (W1 W2 : world) r pos v : length W1 = length W2 ->
  recv_val V W1 cap_atomic r pos = Some v -> recv_val V (wapp V W1 W2) cap_atomic r pos = Some v.
Proof.
  intros L H. unfold recv_val in *. rewrite nth_wapp by exact L.
  destruct (nth_error (nth r W1 []) pos) as [e|] eqn:E; [|discriminate].
  assert (Hp : pos < length (nth r W1 [])) by (apply nth_error_Some; congruence).
  rewrite nth_error_app1 by exact Hp. rewrite E.
  destruct e as [|h s q t| |]; try discriminate.
  rewrite firstn_app_l by lia. rewrite nth_wapp by exact L.
  unfold positions in *. rewrite positions_from_app.
  destruct (nth_error (positions_from V (is_send_to V r t) 0 (nth q W1 [])) _) as [ps|] eqn:K; [|discriminate].
  assert (Hk : count V (is_recv_from V q t) (firstn pos (nth r W1 [])) < length (positions_from V (is_send_to V r t) 0 (nth q W1 []))) by (apply nth_error_Some; congruence).
  rewrite nth_error_app1 by exact Hk. rewrite K.
  assert (Hps : ps < length (nth q W1 [])) by (apply (positions_lt (is_send_to V r t)); eapply nth_error_In; exact K).
  rewrite nth_error_app1 by exact Hps.
  destruct (nth_error (nth q W1 []) ps) as [[h' b r' t'| | |]|]; try discriminate.
  unfold cap_atomic in *. rewrite mem_at_app_l by lia. exact H.
Qed.

Lemma recv_val_wapp_r (W1 W2 : world) r pos v : length W1 = length W2 -> balanced V W1 ->
  recv_val V W2 cap_atomic r pos = Some v ->
  recv_val V (wapp V W1 W2) cap_atomic r (length (nth r W1 []) + pos) = Some v.
Proof.
  intros L B H. unfold recv_val in *. rewrite nth_wapp by exact L.
  rewrite nth_error_app_r.
  destruct (nth_error (nth r W2 []) pos) as [e|] eqn:E; [|discriminate].
  destruct e as [|h s q t| |]; try discriminate.
  rewrite firstn_app_r, count_app. rewrite nth_wapp by exact L.
  unfold positions in *. rewrite positions_from_app. simpl.
  rewrite <- (B q r t). unfold positions.
  rewrite nth_error_app_r. rewrite positions_from_shift.
  destruct (nth_error (positions_from V (is_send_to V r t) 0 (nth q W2 [])) _) as [ps|] eqn:K; [|discriminate].
  rewrite (map_nth_error _ _ _ K). rewrite nth_error_app_r.
  destruct (nth_error (nth q W2 []) ps) as [[h' b r' t'| | |]|]; try discriminate.
  unfold cap_atomic in *. replace (S (length (nth q W1 []) + ps)) with (length (nth q W1 []) + S ps) by lia.
  apply mem_at_app_r_some. exact H.
Qed.

End ComposeWorld.

(* ------------------------------------------------------------------ *)
(* Part C: the ghost exchange                                          *)
Section Mapi.
Context {X Y : Type}.

Lemma mapi_from_length (f : nat -> X -> Y) b l : length (mapi_from f b l) = length l.
Proof. revert b; induction l as [|x l IH]; intro b; simpl; [reflexivity|rewrite IH; reflexivity]. Qed.

Lemma nth_error_mapi_from (f : nat -> X -> Y) b l i :
  nth_error (mapi_from f b l) i = option_map (f (b + i)) (nth_error l i).
Proof.
  revert b i; induction l as [|x l IH]; intros b i; simpl.
  - destruct i; reflexivity.
  - destruct i; simpl; [rewrite Nat.add_0_r; reflexivity|]. rewrite IH. replace (S b + i) with (b + S i) by lia. reflexivity.
Qed.

Lemma In_mapi_from (f : nat -> X -> Y) b l y :
  In y (mapi_from f b l) -> exists i x, nth_error l i = Some x /\ y = f (b + i) x.
Proof.
  intro H. apply In_nth_error in H. destruct H as [i H]. rewrite nth_error_mapi_from in H.
  destruct (nth_error l i) as [x|] eqn:E; simpl in H; [|discriminate]. injection H as <-. eauto.
Qed.

Lemma firstn_mapi_from (f : nat -> X -> Y) b l c : firstn c (mapi_from f b l) = mapi_from f b (firstn c l).
Proof.
  revert b c; induction l as [|x l IH]; intros b c; simpl.
  - rewrite !firstn_nil. reflexivity.
  - destruct c; simpl; [reflexivity|]. rewrite IH. reflexivity.
Qed.

Lemma skipn_mapi_from (f : nat -> X -> Y) b l c : skipn c (mapi_from f b l) = mapi_from f (b + c) (skipn c l).
Proof.
  revert b c; induction l as [|x l IH]; intros b c; simpl.
  - rewrite !skipn_nil. reflexivity.
  - destruct c; simpl; [rewrite Nat.add_0_r; reflexivity|]. rewrite IH. f_equal. lia.
Qed.

End Mapi.

Lemma existsb_false_forall {X} (f : X -> bool) (l : list X) : (forall x, In x l -> f x = false) -> existsb f l = false.
Proof.
  intro H. induction l as [|x l IH]; simpl; [reflexivity|].
  rewrite (H x (or_introl eq_refl)). simpl. apply IH. intros y Hy. apply H. right. exact Hy.
Qed.

Lemma nodup_filter_eq (l : list nat) (r : nat) : NoDup l ->
  length (filter (fun d => Nat.eqb d r) l) = if existsb (fun d => Nat.eqb d r) l then 1 else 0.
Proof.
  induction 1 as [|x l Hx Hn IH]; simpl; [reflexivity|].
  destruct (Nat.eqb_spec x r) as [->|N]; simpl.
  - rewrite IH. assert (E : existsb (fun d => Nat.eqb d r) l = false).
    { apply existsb_false_forall. intros y Hy. apply Nat.eqb_neq. intro. subst. contradiction. }
    rewrite E. reflexivity.
  - exact IH.
Qed.

Lemma existsb_eqb_In (l : list nat) r : existsb (fun d => Nat.eqb d r) l = true <-> In r l.
Proof.
  rewrite existsb_exists. split.
  - intros [x [H1 H2]]. apply Nat.eqb_eq in H2. subst. exact H1.
  - intro H. exists r. split; [exact H|apply Nat.eqb_refl].
Qed.

Lemma nbrs_NoDup (T : list (list nat)) : NoDup (nbrs T).
Proof. unfold nbrs. apply NoDup_filter. apply seq_NoDup. Qed.

Lemma nbrs_In (T : list (list nat)) d : In d (nbrs T) <-> d < length T /\ nth d T [] <> [].
Proof.
  unfold nbrs. rewrite filter_In, in_seq. split.
  - intros [H1 H2]. split; [lia|]. intro E. rewrite E in H2. discriminate.
  - intros [H1 H2]. split; [lia|]. destruct (nth d T []); [congruence|reflexivity].
Qed.

(* closed traces: a body without completion calls whose request variables are distinct, followed by
   completion calls that cover them *)
Section Closed.
Variable V : Type.
Local Notation ev := (ev V).
Local Notation prog := (prog V).

Definition handles (l : list ev) : list nat :=
  flat_map (fun e => match handle_of V e with Some h => [h] | None => [] end) l.

Lemma handles_app l1 l2 : handles (l1 ++ l2) = handles l1 ++ handles l2.
Proof. unfold handles. apply flat_map_app. Qed.

Lemma starts_handles h (l : list ev) e : In e l -> starts V h e = true -> In h (handles l).
Proof.
  intros Hi Hs. unfold handles. apply in_flat_map. exists e. split; [exact Hi|].
  destruct e; simpl in *; try discriminate; apply Nat.eqb_eq in Hs; subst; left; reflexivity.
Qed.

Lemma until_done_skip h (l1 l2 : list ev) :
  (forall e, In e l1 -> waits V h e = false /\ starts V h e = false) ->
  until_done V h (l1 ++ l2) = option_map (Nat.add (length l1)) (until_done V h l2).
Proof.
  induction l1 as [|e l1 IH]; intro H; simpl.
  - destruct (until_done V h l2); reflexivity.
  - destruct (H e (or_introl eq_refl)) as [-> ->]. rewrite IH by (intros e' He'; apply H; right; exact He').
    destruct (until_done V h l2); reflexivity.
Qed.

Lemma until_done_tail h (tail : list ev) :
  (forall e, In e tail -> starts V h e = false) -> existsb (waits V h) tail = true ->
  until_done V h tail <> None.
Proof.
  induction tail as [|e tail IH]; intros Hs Hw; simpl in *; [discriminate|].
  destruct (waits V h e) eqn:W; [discriminate|]. simpl in Hw.
  rewrite (Hs e (or_introl eq_refl)).
  specialize (IH (fun e' He' => Hs e' (or_intror He')) Hw).
  destruct (until_done V h tail); [discriminate|congruence].
Qed.

Lemma all_waited_closed (body tail : list ev) :
  (forall e h, In e body -> waits V h e = false) ->
  NoDup (handles body) ->
  (forall e, In e tail -> handle_of V e = None) ->
  (forall h, In h (handles body) -> existsb (waits V h) tail = true) ->
  all_waited V (body ++ tail) = true.
Proof.
  intros Hnw Hnd Htl Hcov. apply (all_waited_iff V). intros pos e h He Hh.
  destruct (nth_error_split V _ _ _ _ He) as [[L E]|[i [-> E]]].
  - rewrite skipn_app_l by lia.
    assert (Hsplit : body = firstn pos body ++ e :: skipn (S pos) body).
    { rewrite <- (firstn_skipn pos body) at 1. f_equal.
      clear -E. revert body E; induction pos as [|pos IH]; intros [|a body] E; simpl in *; try discriminate.
      - injection E as ->. reflexivity.
      - apply IH. exact E. }
    assert (Hin : In h (handles body)).
    { rewrite Hsplit, handles_app. apply in_or_app. right. simpl. rewrite Hh. left. reflexivity. }
    rewrite until_done_skip.
    + assert (T := until_done_tail h tail).
      destruct (until_done V h tail); [discriminate|].
      exfalso. apply T; [|apply Hcov; exact Hin|reflexivity].
      intros e' He'. specialize (Htl e' He'). destruct e'; simpl in *; try reflexivity; discriminate.
    + intros e' He'. split; [apply (Hnw e' h); eapply in_skipn'; exact He'|].
      destruct (starts V h e') eqn:St; [|reflexivity]. exfalso.
      assert (Hin' := starts_handles h _ e' He' St).
      rewrite Hsplit in Hnd. rewrite handles_app in Hnd. simpl in Hnd. rewrite Hh in Hnd. simpl in Hnd.
      apply NoDup_remove_2 in Hnd. apply Hnd. apply in_or_app. right. exact Hin'.
  - apply nth_error_In in E. apply Htl in E. congruence.
Qed.

End Closed.

Section ClosedMore.
Variable V : Type.
Local Notation ev := (ev V).
Local Notation prog := (prog V).

(* all writes before all sends *)
Lemma send_stable_split (X Y : list ev) :
  (forall e, In e X -> match e with Isend _ _ _ _ => False | _ => True end) ->
  (forall e, In e Y -> match e with Write _ _ => False | _ => True end) ->
  send_stable V (X ++ Y) = true.
Proof.
  intros HX HY. apply (send_stable_iff V). intros pos h b r t He.
  destruct (nth_error_split V _ _ _ _ He) as [[L E]|[i [-> E]]].
  - apply nth_error_In in E. apply HX in E. contradiction.
  - replace (S (length X + i)) with (length X + S i) by lia. rewrite skipn_app_r.
    apply existsb_false_forall. intros e Hin. apply in_firstn' in Hin. apply in_skipn' in Hin.
    apply HY in Hin. destruct e; simpl; try reflexivity. contradiction.
Qed.

Lemma existsb_eqb_seq h a n : a <= h < a + n -> existsb (Nat.eqb h) (seq a n) = true.
Proof. intro H. apply existsb_exists. exists h. split; [apply in_seq; lia|apply Nat.eqb_refl]. Qed.

End ClosedMore.

Section Round.
Context {S : Scalar}.
Local Notation vec := (vec S).
Variable tag : nat.
Variable P : cpat.
Variable x : vec.
Local Notation rn := (nbrs (cp_recv P)).
Local Notation sn := (nbrs (cp_send P)).
Local Notation nr := (length (nbrs (cp_recv P))).
Local Notation ns := (length (nbrs (cp_send P))).
Local Notation RA := (mapi_from (fun i d => @Irecv vec i i d tag) 0 rn).
Local Notation RB := (mapi_from (fun j d => @Write vec j (gather x (nth d (cp_send P) []))) 0 sn).
Local Notation RC := (mapi_from (fun j d => @Isend vec (nr + j) j d tag) 0 sn).
Local Notation RT := ([@Wait vec (seq 0 nr); @Wait vec (seq nr ns)]).

Lemma round_eq : exch_round tag P x = RA ++ RB ++ RC ++ RT.
Proof. reflexivity. Qed.

Lemma round_length : length (exch_round tag P x) = round_len P.
Proof. rewrite round_eq. rewrite !app_length, !mapi_from_length. unfold round_len. simpl. lia. Qed.

Lemma handles_recvs b (l : list nat) : handles vec (mapi_from (fun i d => @Irecv vec i i d tag) b l) = seq b (length l).
Proof. revert b; induction l as [|d l IH]; intro b; simpl; [reflexivity|]. f_equal. apply IH. Qed.
Lemma handles_writes (g : nat -> vec) b (l : list nat) : handles vec (mapi_from (fun j d => @Write vec j (g d)) b l) = [].
Proof. revert b; induction l as [|d l IH]; intro b; simpl; [reflexivity|]. apply IH. Qed.
Lemma handles_sends k b (l : list nat) : handles vec (mapi_from (fun j d => @Isend vec (k + j) j d tag) b l) = seq (k + b) (length l).
Proof.
  revert b; induction l as [|d l IH]; intro b; simpl; [reflexivity|]. f_equal. rewrite IH. f_equal. lia.
Qed.

Lemma round_all_waited : all_waited vec (exch_round tag P x) = true.
Proof.
  rewrite round_eq. replace (RA ++ RB ++ RC ++ RT) with ((RA ++ RB ++ RC) ++ RT) by (rewrite <- !app_assoc; reflexivity).
  apply all_waited_closed.
  - intros e h He. apply in_app_or in He. destruct He as [He|He]; [|apply in_app_or in He; destruct He as [He|He]];
      apply In_mapi_from in He; destruct He as (i & d & _ & ->); reflexivity.
  - rewrite !handles_app, handles_recvs, handles_writes, handles_sends. simpl.
    rewrite Nat.add_0_r. rewrite <- seq_app. apply seq_NoDup.
  - intros e [<-|[<-|[]]]; reflexivity.
  - intros h Hh. rewrite !handles_app, handles_recvs, handles_writes, handles_sends in Hh. simpl in Hh.
    rewrite Nat.add_0_r in Hh. simpl. apply in_app_or in Hh. destruct Hh as [Hh|Hh]; apply in_seq in Hh.
    + rewrite existsb_eqb_seq by lia. reflexivity.
    + rewrite (existsb_eqb_seq h nr ns) by lia. apply Bool.orb_true_r.
Qed.

Lemma round_send_stable : send_stable vec (exch_round tag P x) = true.
Proof.
  rewrite round_eq. replace (RA ++ RB ++ RC ++ RT) with ((RA ++ RB) ++ (RC ++ RT)) by (rewrite <- !app_assoc; reflexivity).
  apply send_stable_split.
  - intros e He. apply in_app_or in He. destruct He as [He|He]; apply In_mapi_from in He; destruct He as (i & d & _ & ->); exact I.
  - intros e He. apply in_app_or in He. destruct He as [He|He].
    + apply In_mapi_from in He. destruct He as (i & d & _ & ->). exact I.
    + destruct He as [<-|[<-|[]]]; exact I.
Qed.

(* the only receives are the first nr events: event i receives from the i-th neighbour into slice i *)
Lemma round_recv_inv pos e h : nth_error (exch_round tag P x) pos = Some e -> recv_handle vec e = Some h ->
  exists d, nth_error rn pos = Some d /\ e = Irecv pos pos d tag /\ h = pos.
Proof.
  rewrite round_eq. intros He Hh.
  destruct (nth_error_split vec _ _ _ _ He) as [[L E]|[i [-> E]]].
  - rewrite nth_error_mapi_from in E. destruct (nth_error rn pos) as [d|]; simpl in E; [|discriminate].
    injection E as <-. simpl in Hh. injection Hh as <-. exists d. auto.
  - exfalso. destruct (nth_error_split vec _ _ _ _ E) as [[L2 E2]|[i2 [-> E2]]].
    + apply nth_error_In, In_mapi_from in E2. destruct E2 as (j & d & _ & ->). discriminate.
    + destruct (nth_error_split vec _ _ _ _ E2) as [[L3 E3]|[i3 [-> E3]]].
      * apply nth_error_In, In_mapi_from in E3. destruct E3 as (j & d & _ & ->). discriminate.
      * apply nth_error_In in E3. destruct E3 as [<-|[<-|[]]]; discriminate.
Qed.

Lemma round_recv_at i d : nth_error rn i = Some d -> nth_error (exch_round tag P x) i = Some (Irecv i i d tag).
Proof.
  intro H. rewrite round_eq. rewrite nth_error_app1.
  - rewrite nth_error_mapi_from, H. reflexivity.
  - rewrite mapi_from_length. apply nth_error_Some. congruence.
Qed.

Lemma round_slots_exclusive : slots_exclusive vec (exch_round tag P x) = true.
Proof.
  apply (recvs_exclusive_iff vec). intros pos pos' e e' h h' He He' R R' Hs.
  destruct (round_recv_inv pos e h He R) as (d & Hd & -> & ->).
  destruct (round_recv_inv pos' e' h' He' R') as (d' & Hd' & -> & ->).
  simpl in Hs. unfold pending_overlap. rewrite Hs. reflexivity.
Qed.

Lemma round_chans_exclusive : chans_exclusive vec (exch_round tag P x) = true.
Proof.
  apply (recvs_exclusive_iff vec). intros pos pos' e e' h h' He He' R R' Hs.
  destruct (round_recv_inv pos e h He R) as (d & Hd & -> & ->).
  destruct (round_recv_inv pos' e' h' He' R') as (d' & Hd' & -> & ->).
  simpl in Hs. apply Bool.andb_true_iff in Hs as [Hs _]. apply Nat.eqb_eq in Hs. subst d'.
  assert (pos = pos').
  { apply (proj1 (NoDup_nth_error rn) (nbrs_NoDup _)); [apply nth_error_Some; congruence|congruence]. }
  subst. unfold pending_overlap. rewrite Nat.eqb_refl. reflexivity.
Qed.

Theorem round_disciplined : disciplined vec (exch_round tag P x) = true.
Proof.
  unfold disciplined. rewrite round_all_waited, round_send_stable, round_slots_exclusive, round_chans_exclusive. reflexivity.
Qed.

End Round.

Section Round2.
Context {S : Scalar}.
Local Notation vec := (vec S).
Variable tag : nat.

Lemma positions_nil (f : ev vec -> bool) b (l : list (ev vec)) : (forall e, In e l -> f e = false) -> positions_from vec f b l = [].
Proof.
  revert b; induction l as [|e l IH]; intros b H; simpl; [reflexivity|].
  rewrite (H e (or_introl eq_refl)). apply IH. intros e' He'. apply H. right. exact He'.
Qed.

Lemma count_nil (f : ev vec -> bool) (l : list (ev vec)) : (forall e, In e l -> f e = false) -> count vec f l = 0.
Proof.
  intro H. unfold count. induction l as [|e l IH]; simpl; [reflexivity|].
  rewrite (H e (or_introl eq_refl)). apply IH. intros e' He'. apply H. right. exact He'.
Qed.

Lemma count_recvs_mapi q t b (l : list nat) :
  count vec (is_recv_from vec q t) (mapi_from (fun i d => @Irecv vec i i d tag) b l)
  = if Nat.eqb tag t then length (filter (fun d => Nat.eqb d q) l) else 0.
Proof.
  unfold count. revert b; induction l as [|d l IH]; intro b; simpl.
  - destruct (Nat.eqb tag t); reflexivity.
  - specialize (IH (Datatypes.S b)). destruct (Nat.eqb d q); destruct (Nat.eqb tag t); simpl in *; rewrite ?IH; reflexivity.
Qed.

Lemma count_sends_mapi r t k b (l : list nat) :
  count vec (is_send_to vec r t) (mapi_from (fun j d => @Isend vec (k + j) j d tag) b l)
  = if Nat.eqb tag t then length (filter (fun d => Nat.eqb d r) l) else 0.
Proof.
  unfold count. revert b; induction l as [|d l IH]; intro b; simpl.
  - destruct (Nat.eqb tag t); reflexivity.
  - specialize (IH (Datatypes.S b)). destruct (Nat.eqb d r); destruct (Nat.eqb tag t); simpl in *; rewrite ?IH; reflexivity.
Qed.

Lemma positions_sends_unique r k (l : list nat) : forall b c j, NoDup l -> nth_error l j = Some r ->
  positions_from vec (is_send_to vec r tag) b (mapi_from (fun j d => @Isend vec (k + j) j d tag) c l) = [b + j].
Proof.
  induction l as [|d l IH]; intros b c j Hnd Hj; [destruct j; discriminate|].
  inversion Hnd as [|? ? Hnotin Hnd']; subst. destruct j as [|j]; simpl in *.
  - injection Hj as ->. rewrite !Nat.eqb_refl. simpl. rewrite Nat.add_0_r. f_equal.
    apply positions_nil. intros e He. apply In_mapi_from in He. destruct He as (i & d & Hd & ->). simpl.
    apply nth_error_In in Hd. destruct (Nat.eqb_spec d r); [subst; contradiction|reflexivity].
  - assert (d <> r) by (intro; subst; apply Hnotin; eapply nth_error_In; exact Hj).
    apply Nat.eqb_neq in H. rewrite H. simpl. rewrite (IH (Datatypes.S b) (Datatypes.S c) j Hnd' Hj). f_equal. lia.
Qed.

Lemma nowrite_recvs j b (l : list nat) : existsb (is_write_to vec j) (mapi_from (fun i d => @Irecv vec i i d tag) b l) = false.
Proof. apply existsb_false_forall. intros e He. apply In_mapi_from in He. destruct He as (i & d & _ & ->). reflexivity. Qed.
Lemma nowrite_sends j k b (l : list nat) : existsb (is_write_to vec j) (mapi_from (fun j d => @Isend vec (k + j) j d tag) b l) = false.
Proof. apply existsb_false_forall. intros e He. apply In_mapi_from in He. destruct He as (i & d & _ & ->). reflexivity. Qed.

Lemma mem_fold_writes (G : nat -> vec) (l : list nat) : forall c m j d, c <= j -> nth_error l (j - c) = Some d ->
  fold_left (mem_step vec j) (mapi_from (fun j' d' => @Write vec j' (G d')) c l) m = Some (G d).
Proof.
  induction l as [|d0 l IH]; intros c m j d Hc Hj; [destruct (j - c); discriminate|].
  simpl. destruct (Nat.eqb_spec c j) as [->|N].
  - rewrite Nat.sub_diag in Hj. simpl in Hj. injection Hj as ->.
    apply mem_fold_nowrite. apply existsb_false_forall. intros e He. apply In_mapi_from in He.
    destruct He as (i & d' & _ & ->). unfold is_write_to. apply Nat.eqb_neq. lia.
  - apply IH; [lia|]. replace (j - c) with (Datatypes.S (j - Datatypes.S c)) in Hj by lia. exact Hj.
Qed.

Variable P : cpat.
Variable x : vec.
Local Notation rn := (nbrs (cp_recv P)).
Local Notation sn := (nbrs (cp_send P)).
Local Notation nr := (length (nbrs (cp_recv P))).
Local Notation ns := (length (nbrs (cp_send P))).
Local Notation RA := (mapi_from (fun i d => @Irecv vec i i d tag) 0 rn).
Local Notation RB := (mapi_from (fun j d => @Write vec j (gather x (nth d (cp_send P) []))) 0 sn).
Local Notation RC := (mapi_from (fun j d => @Isend vec (nr + j) j d tag) 0 sn).
Local Notation RT := ([@Wait vec (seq 0 nr); @Wait vec (seq nr ns)]).

Lemma round_count_recvs q t :
  count vec (is_recv_from vec q t) (exch_round tag P x) = if Nat.eqb tag t && existsb (fun d => Nat.eqb d q) rn then 1 else 0.
Proof.
  rewrite round_eq, !count_app, count_recvs_mapi.
  rewrite (count_nil _ RB), (count_nil _ RC), (count_nil _ RT).
  - rewrite nodup_filter_eq by apply nbrs_NoDup. destruct (Nat.eqb tag t), (existsb _ rn); reflexivity.
  - intros e [<-|[<-|[]]]; reflexivity.
  - intros e He. apply In_mapi_from in He. destruct He as (i & d & _ & ->). reflexivity.
  - intros e He. apply In_mapi_from in He. destruct He as (i & d & _ & ->). reflexivity.
Qed.

Lemma round_count_sends r t :
  count vec (is_send_to vec r t) (exch_round tag P x) = if Nat.eqb tag t && existsb (fun d => Nat.eqb d r) sn then 1 else 0.
Proof.
  rewrite round_eq, !count_app, count_sends_mapi.
  rewrite (count_nil _ RA), (count_nil _ RB), (count_nil _ RT).
  - rewrite nodup_filter_eq by apply nbrs_NoDup. destruct (Nat.eqb tag t), (existsb _ sn); reflexivity.
  - intros e [<-|[<-|[]]]; reflexivity.
  - intros e He. apply In_mapi_from in He. destruct He as (i & d & _ & ->). reflexivity.
  - intros e He. apply In_mapi_from in He. destruct He as (i & d & _ & ->). reflexivity.
Qed.

Lemma round_positions_send r j : nth_error sn j = Some r ->
  positions vec (is_send_to vec r tag) (exch_round tag P x) = [nr + ns + j].
Proof.
  intro Hj. unfold positions. rewrite round_eq, !positions_from_app, !mapi_from_length.
  rewrite (positions_nil _ 0 RA), (positions_nil _ _ RB), (positions_nil _ _ RT).
  - simpl. rewrite (positions_sends_unique r nr sn _ 0 j (nbrs_NoDup _) Hj). rewrite app_nil_r. reflexivity.
  - intros e [<-|[<-|[]]]; reflexivity.
  - intros e He. apply In_mapi_from in He. destruct He as (i & d & _ & ->). reflexivity.
  - intros e He. apply In_mapi_from in He. destruct He as (i & d & _ & ->). reflexivity.
Qed.

Lemma round_send_at r j : nth_error sn j = Some r ->
  nth_error (exch_round tag P x) (nr + ns + j) = Some (Isend (nr + j) j r tag).
Proof.
  intro Hj. rewrite round_eq.
  replace (nr + ns + j) with (length RA + (length RB + j)) by (rewrite !mapi_from_length; lia).
  rewrite !nth_error_app_r. rewrite nth_error_app1.
  - rewrite nth_error_mapi_from, Hj. reflexivity.
  - rewrite mapi_from_length. apply nth_error_Some. congruence.
Qed.

Lemma round_mem r j : nth_error sn j = Some r ->
  mem_at vec (exch_round tag P x) (Datatypes.S (nr + ns + j)) j = Some (gather x (nth r (cp_send P) [])).
Proof.
  intro Hj. unfold mem_at. rewrite round_eq.
  assert (Hjl : j < ns) by (apply nth_error_Some; congruence).
  replace (Datatypes.S (nr + ns + j)) with (length RA + (length RB + Datatypes.S j)) by (rewrite !mapi_from_length; lia).
  rewrite !firstn_app_r. rewrite firstn_app_l by (rewrite mapi_from_length; lia).
  rewrite !fold_left_app.
  rewrite (mem_fold_nowrite vec j RA) by apply nowrite_recvs.
  rewrite (mem_fold_writes (fun d => gather x (nth d (cp_send P) [])) sn 0 None j r) by (try lia; rewrite Nat.sub_0_r; exact Hj).
  apply mem_fold_nowrite. rewrite firstn_mapi_from. apply nowrite_sends.
Qed.

End Round2.

Section ExchWorld.
Context {S : Scalar}.
Local Notation vec := (vec S).
Variable tag : nat.
Variable pats : list cpat.
Local Notation Pn r := (nth r pats dflt_cpat).
Local Notation n := (length pats).
(* mutual consistency of the patterns, as far as the neighbour lists go (C11_patterns_mutually_consistent) *)
Hypothesis Hcons : forall q r, In r (nbrs (cp_send (Pn q))) <-> In q (nbrs (cp_recv (Pn r))).
Hypothesis Hbound : forall q r, In r (nbrs (cp_send (Pn q))) -> q < n /\ r < n.

Lemma exch_world_length (xs : list vec) : length (exch_world tag pats xs) = n.
Proof. unfold exch_world. rewrite map_length, seq_length. reflexivity. Qed.

Lemma nth_exch_world (xs : list vec) r : r < n -> nth r (exch_world tag pats xs) [] = exch_round tag (Pn r) (nth r xs []).
Proof. intro H. unfold exch_world. exact (nth_map_seq (fun r => exch_round tag (Pn r) (nth r xs [])) n r [] H). Qed.

Lemma nth_exch_world_out (xs : list vec) r : n <= r -> nth r (exch_world tag pats xs) [] = [].
Proof. intro H. apply nth_overflow. rewrite exch_world_length. exact H. Qed.

Lemma exch_world_rank_length (xs : list vec) r : r < n -> length (nth r (exch_world tag pats xs) []) = round_len (Pn r).
Proof. intro H. rewrite nth_exch_world by exact H. apply round_length. Qed.

Lemma memb_cons q r :
  existsb (fun d => Nat.eqb d r) (nbrs (cp_send (Pn q))) = existsb (fun d => Nat.eqb d q) (nbrs (cp_recv (Pn r))).
Proof.
  destruct (existsb (fun d => Nat.eqb d q) (nbrs (cp_recv (Pn r)))) eqn:E.
  - apply existsb_eqb_In. apply Hcons. apply existsb_eqb_In. exact E.
  - destruct (existsb (fun d => Nat.eqb d r) (nbrs (cp_send (Pn q)))) eqn:E2; [|reflexivity].
    apply existsb_eqb_In in E2. apply Hcons in E2. apply existsb_eqb_In in E2. congruence.
Qed.

Lemma exch_world_balanced (xs : list vec) : balanced vec (exch_world tag pats xs).
Proof.
  apply balanced_count. intros q r t.
  destruct (Nat.lt_ge_cases q n) as [Hq|Hq]; destruct (Nat.lt_ge_cases r n) as [Hr|Hr].
  - rewrite !nth_exch_world by assumption. rewrite round_count_sends, round_count_recvs, memb_cons. reflexivity.
  - rewrite nth_exch_world by assumption. rewrite (nth_exch_world_out xs r Hr). rewrite round_count_sends.
    destruct (existsb (fun d => Nat.eqb d r) (nbrs (cp_send (Pn q)))) eqn:E.
    + apply existsb_eqb_In in E. apply Hbound in E. lia.
    + rewrite Bool.andb_false_r. reflexivity.
  - rewrite (nth_exch_world_out xs q Hq). rewrite nth_exch_world by assumption. rewrite round_count_recvs.
    destruct (existsb (fun d => Nat.eqb d q) (nbrs (cp_recv (Pn r)))) eqn:E.
    + apply existsb_eqb_In in E. apply Hcons in E. apply Hbound in E. lia.
    + rewrite Bool.andb_false_r. reflexivity.
  - rewrite !nth_exch_world_out by assumption. reflexivity.
Qed.

Lemma exch_world_disciplined (xs : list vec) r : disciplined vec (nth r (exch_world tag pats xs) []) = true.
Proof.
  destruct (Nat.lt_ge_cases r n) as [Hr|Hr].
  - rewrite nth_exch_world by exact Hr. apply round_disciplined.
  - rewrite nth_exch_world_out by exact Hr. reflexivity.
Qed.

(* one exchange, atomic schedule: the i-th receive of rank r delivers the slice its i-th neighbour gathered *)
Lemma exch_world_recv_val (xs : list vec) r i d : r < n -> nth_error (nbrs (cp_recv (Pn r))) i = Some d ->
  recv_val vec (exch_world tag pats xs) cap_atomic r i = Some (gather (nth d xs []) (nth r (cp_send (Pn d)) [])).
Proof.
  intros Hr Hi. unfold recv_val. rewrite nth_exch_world by exact Hr.
  rewrite (round_recv_at tag (Pn r) (nth r xs []) i d Hi).
  assert (Hin : In d (nbrs (cp_recv (Pn r)))) by (eapply nth_error_In; exact Hi).
  assert (Hin2 : In r (nbrs (cp_send (Pn d)))) by (apply Hcons; exact Hin).
  destruct (Hbound d r Hin2) as [Hd _].
  destruct (In_nth_error _ _ Hin2) as [j Hj].
  (* no earlier receive from d *)
  assert (K : count vec (is_recv_from vec d tag) (firstn i (exch_round tag (Pn r) (nth r xs []))) = 0).
  { rewrite round_eq. rewrite firstn_app_l.
    - rewrite firstn_mapi_from, count_recvs_mapi, Nat.eqb_refl.
      assert (Hnd := nbrs_NoDup (cp_recv (Pn r))).
      assert (Hs : nbrs (cp_recv (Pn r)) = firstn i (nbrs (cp_recv (Pn r))) ++ d :: skipn (Datatypes.S i) (nbrs (cp_recv (Pn r)))).
      { rewrite <- (firstn_skipn i (nbrs (cp_recv (Pn r)))) at 1. f_equal.
        generalize (nbrs (cp_recv (Pn r))) i Hi. clear. intros l i; revert l; induction i as [|i IH]; intros [|a l] H; simpl in *; try discriminate.
        - injection H as ->. reflexivity.
        - apply IH. exact H. }
      rewrite Hs in Hnd. apply NoDup_remove_2 in Hnd.
      destruct (filter (fun d0 => Nat.eqb d0 d) (firstn i (nbrs (cp_recv (Pn r))))) as [|y l] eqn:F; [reflexivity|].
      exfalso. assert (Hy : In y (y :: l)) by (left; reflexivity). rewrite <- F in Hy. apply filter_In in Hy.
      destruct Hy as [Hy1 Hy2]. apply Nat.eqb_eq in Hy2. subst y. apply Hnd. apply in_or_app. left. exact Hy1.
    - rewrite mapi_from_length. apply Nat.lt_le_incl. apply nth_error_Some. congruence. }
  rewrite K. rewrite nth_exch_world by exact Hd.
  rewrite (round_positions_send tag (Pn d) (nth d xs []) r j Hj). simpl.
  rewrite (round_send_at tag (Pn d) (nth d xs []) r j Hj).
  unfold cap_atomic. apply round_mem. exact Hj.
Qed.

(* ---- k consecutive exchanges ---- *)
Lemma exch_rounds_length (xss : list (list vec)) : length (exch_rounds tag pats xss) = n.
Proof.
  induction xss as [|xs xss IH]; simpl; [apply map_length|].
  rewrite wapp_length; rewrite exch_world_length; [reflexivity|]. symmetry. exact IH.
Qed.

Lemma nth_empty_world r : nth r (map (fun _ : cpat => @nil (ev vec)) pats) [] = [].
Proof.
  destruct (Nat.lt_ge_cases r n) as [H|H].
  - rewrite (nth_map_lt (fun _ : cpat => @nil (ev vec)) pats r dflt_cpat []) by exact H. reflexivity.
  - apply nth_overflow. rewrite map_length. exact H.
Qed.

Theorem exch_rounds_disciplined (xss : list (list vec)) r : disciplined vec (nth r (exch_rounds tag pats xss) []) = true.
Proof.
  induction xss as [|xs xss IH]; simpl.
  - rewrite nth_empty_world. reflexivity.
  - rewrite nth_wapp by (rewrite exch_world_length, exch_rounds_length; reflexivity).
    apply disciplined_app; [apply exch_world_disciplined|exact IH].
Qed.

Lemma exch_rounds_recv_val (xss : list (list vec)) : forall m r i d, m < length xss -> r < n ->
  nth_error (nbrs (cp_recv (Pn r))) i = Some d ->
  recv_val vec (exch_rounds tag pats xss) cap_atomic r (m * round_len (Pn r) + i)
  = Some (gather (nth d (nth m xss []) []) (nth r (cp_send (Pn d)) [])).
Proof.
  induction xss as [|xs xss IH]; intros m r i d Hm Hr Hi; simpl in Hm; [lia|].
  assert (L : length (exch_world tag pats xs) = length (exch_rounds tag pats xss))
    by (rewrite exch_world_length, exch_rounds_length; reflexivity).
  destruct m as [|m]; cbn [exch_rounds fold_right nth].
  - simpl. apply recv_val_wapp_l; [exact L|]. apply exch_world_recv_val; assumption.
  - replace (Datatypes.S m * round_len (Pn r) + i) with (length (nth r (exch_world tag pats xs) []) + (m * round_len (Pn r) + i))
      by (rewrite exch_world_rank_length by exact Hr; lia).
    apply recv_val_wapp_r; [exact L|apply exch_world_balanced|].
    apply IH; [lia|exact Hr|exact Hi].
Qed.

(* THE THEOREM: for every admissible capture schedule of the sends and every admissible clobbering of the
   receive buffers, what rank r reads from recv.val after round m is, neighbour by neighbour, the slice the
   neighbour gathered from ITS vector of round m -- i.e. Dist.exchange, the atomic exchange of the model *)
Theorem exch_rounds_any_order (xss : list (list vec)) cap clob :
  cap_admissible vec (exch_rounds tag pats xss) cap -> clob_admissible vec (exch_rounds tag pats xss) clob ->
  forall m r, m < length xss -> r < n ->
  round_obs (exch_rounds tag pats xss) cap clob (Pn r) r m
  = map (fun d => Some (gather (nth d (nth m xss []) []) (nth r (cp_send (Pn d)) []))) (nbrs (cp_recv (Pn r))).
Proof.
  intros Hcap Hclob m r Hm Hr. unfold round_obs.
  rewrite <- (map_nth_seq (nbrs (cp_recv (Pn r))) 0) at 2. rewrite map_map.
  apply map_ext_in. intros i Hin. apply in_seq in Hin.
  rewrite (msg_deterministic vec (exch_rounds tag pats xss)) with (cap := cap) (clob := clob); try assumption.
  - unfold obs, clob_none. apply exch_rounds_recv_val; [exact Hm|exact Hr|].
    apply nth_error_nth'. lia.
  - intro r0. assert (D := exch_rounds_disciplined xss r0). unfold disciplined in D.
    rewrite !Bool.andb_true_iff in D. apply D.
  - intro r0. assert (D := exch_rounds_disciplined xss r0). unfold disciplined in D.
    rewrite !Bool.andb_true_iff in D. apply D.
Qed.

Corollary exch_rounds_exchange (xss : list (list vec)) cap clob :
  cap_admissible vec (exch_rounds tag pats xss) cap -> clob_admissible vec (exch_rounds tag pats xss) clob ->
  forall m r, m < length xss -> r < n ->
  exists slices : list vec,
    round_obs (exch_rounds tag pats xss) cap clob (Pn r) r m = map Some slices /\
    concat slices = exchange pats (nth m xss []) r.
Proof.
  intros Hcap Hclob m r Hm Hr.
  exists (map (fun d => gather (nth d (nth m xss []) []) (nth r (cp_send (Pn d)) [])) (nbrs (cp_recv (Pn r)))).
  split.
  - rewrite map_map. apply exch_rounds_any_order; assumption.
  - unfold exchange. rewrite flat_map_concat_map. reflexivity.
Qed.

End ExchWorld.

(* the patterns computed by the constructor are consistent *)
Lemma comm_pattern_consistent (cparts : list nat) (rcs : list (list nat)) : length rcs = length cparts ->
  let pats := comm_pattern cparts rcs in
  (forall q r, In r (nbrs (cp_send (nth q pats dflt_cpat))) <-> In q (nbrs (cp_recv (nth r pats dflt_cpat)))) /\
  (forall q r, In r (nbrs (cp_send (nth q pats dflt_cpat))) -> q < length pats /\ r < length pats).
Proof.
  intros Hl pats.
  assert (PL : length pats = length cparts) by apply pattern_length.
  assert (Hout : forall q, length cparts <= q -> nth q pats dflt_cpat = dflt_cpat)
    by (intros q Hq; apply nth_overflow; lia).
  assert (Hsl : forall q, q < length cparts -> length (cp_send (nth q pats dflt_cpat)) = length cparts).
  { intros q Hq. unfold pats. rewrite (nth_pattern cparts rcs Hl q Hq). simpl. rewrite map_length, seq_length. reflexivity. }
  assert (Hrl : forall r, r < length cparts -> length (cp_recv (nth r pats dflt_cpat)) = length cparts).
  { intros r Hr. unfold pats. rewrite (nth_pattern cparts rcs Hl r Hr). simpl. apply recv_table_length. }
  assert (Hb : forall q r, In r (nbrs (cp_send (nth q pats dflt_cpat))) -> q < length cparts /\ r < length cparts).
  { intros q r H. apply nbrs_In in H. destruct H as [H1 H2].
    destruct (Nat.lt_ge_cases q (length cparts)) as [Hq|Hq].
    - rewrite Hsl in H1 by exact Hq. auto.
    - rewrite Hout in H1 by exact Hq. simpl in H1. lia. }
  assert (Hb2 : forall q r, In q (nbrs (cp_recv (nth r pats dflt_cpat))) -> q < length cparts /\ r < length cparts).
  { intros q r H. apply nbrs_In in H. destruct H as [H1 H2].
    destruct (Nat.lt_ge_cases r (length cparts)) as [Hr|Hr].
    - rewrite Hrl in H1 by exact Hr. auto.
    - rewrite Hout in H1 by exact Hr. simpl in H1. lia. }
  split; [|intros q r H; rewrite PL; apply Hb; exact H].
  intros q r. split; intro H.
  - destruct (Hb q r H) as [Hq Hr]. apply nbrs_In in H. destruct H as [_ H2]. apply nbrs_In.
    split; [rewrite Hrl by exact Hr; exact Hq|].
    unfold pats in *. rewrite (send_recv_consistent cparts rcs Hl q r Hq Hr) in H2.
    intro E. rewrite E in H2. apply H2. reflexivity.
  - destruct (Hb2 q r H) as [Hq Hr]. apply nbrs_In in H. destruct H as [_ H2]. apply nbrs_In.
    split; [rewrite Hsl by exact Hq; exact Hr|].
    unfold pats in *. rewrite (send_recv_consistent cparts rcs Hl q r Hq Hr).
    intro E. apply H2. destruct (nth q (cp_recv (nth r (comm_pattern cparts rcs) dflt_cpat)) []); [reflexivity|discriminate].
Qed.

(* ------------------------------------------------------------------ *)
(* the constructor's patterns, global vectors cut along the column partition: every round delivers, on every
   rank, exactly x[global column] for the rank's remote columns in idx order -- for every admissible schedule *)
Theorem ghost_exchange_any_arrival_order {S : Scalar} (cparts : list nat) (rcs : list (list nat)) (tag : nat)
        (xs : list (vec S)) :
  length rcs = length cparts ->
  (forall r, r < length cparts -> rc_ok cparts (nth r rcs [])) ->
  let pats := comm_pattern cparts rcs in
  let W := exch_rounds tag pats (map (chunks cparts) xs) in
  (forall r, disciplined (vec S) (nth r W []) = true) /\
  forall cap clob, cap_admissible (vec S) W cap -> clob_admissible (vec S) W clob ->
  forall m r, m < length xs -> r < length cparts ->
  exists slices : list (vec S),
    round_obs W cap clob (nth r pats dflt_cpat) r m = map Some slices /\
    concat slices = map (fun c => vget (nth m xs []) c) (nth r rcs []).
Proof.
  intros Hl Hok pats W.
  destruct (comm_pattern_consistent cparts rcs Hl) as [Hcons Hbound].
  split; [intro r; apply exch_rounds_disciplined|].
  intros cap clob Hcap Hclob m r Hm Hr.
  assert (PL : length pats = length cparts) by apply pattern_length.
  destruct (exch_rounds_exchange tag pats Hcons Hbound (map (chunks cparts) xs) cap clob Hcap Hclob m r) as [sl [H1 H2]].
  - rewrite map_length. exact Hm.
  - lia.
  - exists sl. split; [exact H1|]. rewrite H2.
    transitivity (exchange pats (chunks cparts (nth m xs [])) r).
    + f_equal. apply nth_map_lt. exact Hm.
    + apply (exchange_spec cparts rcs Hl Hok). exact Hr.
Qed.

(* ------------------------------------------------------------------ *)
(* the seeded regression (finish_exchange returns before MPI_Waitall when the rank expects no ghost values):
   two ranks, rank 1 needs column 0 of rank 0, rank 0 needs nothing; two consecutive products.  Rank 0's first
   MPI_Isend is never completed; if the runtime reads its buffer after the second gather, rank 1 receives the
   ghost value of the SECOND vector for the FIRST product. *)
Section EarlyReturn.
Context {S : Scalar}.
Variables x0 x1 y0 y1 : vec S.
Hypothesis differ : vget x0 0 <> vget y0 0.

Definition er_pats : list cpat := comm_pattern [1; 1] [[]; [0]].
Definition er_world : world (vec S) := exch_rounds_early_return 1003 er_pats [[x0; x1]; [y0; y1]].
Definition er_late : capture := fun q ps => if Nat.eqb q 0 && Nat.eqb ps 1 then 4 else Datatypes.S ps.

Lemma er_world_eq : er_world =
  [ [Write 0 [vget x0 0]; Isend 0 0 1 1003; Write 0 [vget y0 0]; Isend 0 0 1 1003];
    [Irecv 0 0 0 1003; Wait [0]; Wait []; Irecv 0 0 0 1003; Wait [0]; Wait []] ].
Proof. reflexivity. Qed.

Lemma er_admissible (cap : capture) : (cap = cap_atomic \/ cap = er_late) -> cap_admissible (vec S) er_world cap.
Proof.
  rewrite er_world_eq. intros Hc q ps h b r t He.
  destruct q as [|[|q]]; simpl in He.
  - destruct ps as [|[|[|[|ps]]]]; simpl in He; try discriminate.
    + injection He as <- <- <- <-. destruct Hc as [-> | ->]; vm_compute; lia.
    + injection He as <- <- <- <-. destruct Hc as [-> | ->]; vm_compute; lia.
    + destruct ps; discriminate.
  - destruct ps as [|[|[|[|[|[|ps]]]]]]; simpl in He; try discriminate. destruct ps; discriminate.
  - destruct q; destruct ps; discriminate.
Qed.

Theorem early_return_refuted :
  all_waited (vec S) (nth 0 er_world []) = false /\
  cap_admissible (vec S) er_world cap_atomic /\ cap_admissible (vec S) er_world er_late /\
  clob_admissible (vec S) er_world clob_none /\
  obs (vec S) er_world cap_atomic clob_none 1 0 = Some [vget x0 0] /\
  obs (vec S) er_world er_late clob_none 1 0 = Some [vget y0 0] /\
  obs (vec S) er_world cap_atomic clob_none 1 0 <> obs (vec S) er_world er_late clob_none 1 0.
Proof.
  split; [reflexivity|]. split; [apply er_admissible; left; reflexivity|].
  split; [apply er_admissible; right; reflexivity|].
  split; [intros r pos pos' H; discriminate|].
  split; [reflexivity|]. split; [reflexivity|].
  change (Some [vget x0 0] <> Some [vget y0 0]). intro H. injection H as H. exact (differ H).
Qed.

(* the unmodified code on the same data: disciplined *)
Lemma er_correct_world_disciplined r :
  disciplined (vec S) (nth r (exch_rounds 1003 er_pats [[x0; x1]; [y0; y1]]) []) = true.
Proof.
  destruct (comm_pattern_consistent [1; 1] [[]; [0]] eq_refl) as [Hcons Hbound].
  apply (exch_rounds_disciplined 1003 er_pats).
Qed.

End EarlyReturn.
