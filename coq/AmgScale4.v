(* AmgScale4.v -- C02-B2: boolean checkers (with soundness) for the side conditions of the scaling
   theorems, and the facts about the exact rationals (|v|^2 = v^2, c <> 0). *)
From Coq Require Import QArith Qcanon.
From Amgcl Require Import Scalar QcInst Vec Crs Kernels KernelsProofs MatOps MatOpsProofs Relax RelaxProofs DenseSolve
  Amg AmgExec AmgProofs AmgProofs2 AmgProofs3 AmgProofs4 AmgScale AmgScale2 AmgScale3.
Local Close Scope Qc_scope.
Local Close Scope Q_scope.
Local Open Scope S_scope.

Section Checkers.
Context {S : Scalar}.
Local Notation crs := (crs S).
Hypothesis Seqb : seqb_spec S.

Lemma negb_seqb_ne (d : S) : negb (seqb d s0) = true -> d <> s0.
Proof.
  intros H E. subst d. rewrite (proj2 (Seqb s0 s0) eq_refl) in H. discriminate.
Qed.

Definition jacobi_scalableb (A : crs) : bool :=
  forallb (fun i => match first_col (nth i (rows A) []) i with
                    | Some d => negb (seqb d s0) | None => false end) (seq 0 (nrows A)).

Lemma jacobi_scalableb_ok A : jacobi_scalableb A = true -> jacobi_scalable A.
Proof.
  intros H i Hi. unfold jacobi_scalableb in H. rewrite forallb_forall in H.
  assert (Hi' : In i (seq 0 (nrows A))) by (apply in_seq; lia). specialize (H i Hi').
  destruct (first_col (nth i (rows A) []) i) as [d|]; [|discriminate].
  exists d. split; [reflexivity|apply negb_seqb_ne, H].
Qed.

Definition spai0_scalableb (A : crs) : bool :=
  forallb (fun i => negb (seqb (row_norm2 (nth i (rows A) [])) s0)) (seq 0 (nrows A)).

Lemma spai0_scalableb_ok A : spai0_scalableb A = true -> spai0_scalable A.
Proof.
  intros H i Hi. unfold spai0_scalableb in H. rewrite forallb_forall in H.
  apply negb_seqb_ne, H. apply in_seq; lia.
Qed.

Definition gs_scalableb (A : crs) : bool :=
  forallb (fun i => existsb (fun e => Nat.eqb (fst e) i) (nth i (rows A) []) &&
                    negb (seqb (gsD i (nth i (rows A) []) s1) s0)) (seq 0 (nrows A)).

Lemma gs_scalableb_ok A : gs_scalableb A = true -> gs_scalable A.
Proof.
  intros H i Hi. unfold gs_scalableb in H. rewrite forallb_forall in H.
  assert (Hi' : In i (seq 0 (nrows A))) by (apply in_seq; lia). specialize (H i Hi').
  apply andb_prop in H as [H1 H2]. split; [|apply negb_seqb_ne, H2].
  apply existsb_exists in H1 as (e & He & Ee). apply Nat.eqb_eq in Ee. subst i.
  apply in_map, He.
Qed.

Definition kind_scalableb (k : @relax_kind S) (A : crs) : bool :=
  match k with
  | RJacobi _ => jacobi_scalableb A
  | RSpai0 => spai0_scalableb A
  | RGS => gs_scalableb A
  end.

Lemma kind_scalableb_ok k A : kind_scalableb k A = true -> kind_scalable k A.
Proof.
  destruct k; cbn [kind_scalableb kind_scalable];
    [apply jacobi_scalableb_ok|apply spai0_scalableb_ok|apply gs_scalableb_ok].
Qed.

Fixpoint descs_scalableb (k : @relax_kind S) (ls : list (@ldesc S)) : bool :=
  match ls with
  | [] => true
  | LMid A P R :: tl => wf A && kind_scalableb k A && wf R && descs_scalableb k tl
  | LLast A :: tl => wf A && kind_scalableb k A && descs_scalableb k tl
  | LSolve A :: tl => wf A && descs_scalableb k tl
  end.

Lemma descs_scalableb_ok k ls : descs_scalableb k ls = true -> descs_scalable k ls.
Proof.
  induction ls as [|l tl IH]; intro H; [exact I|].
  destruct l as [A P R|A|A]; cbn [descs_scalableb descs_scalable] in *.
  - apply andb_prop in H as [H H4]. apply andb_prop in H as [H H3]. apply andb_prop in H as [H1 H2].
    auto using kind_scalableb_ok.
  - apply andb_prop in H as [H H3]. apply andb_prop in H as [H1 H2]. auto using kind_scalableb_ok.
  - apply andb_prop in H as [H1 H2]. auto.
Qed.

End Checkers.

(* the exact rationals *)
Lemma QcS_abs2 (v : T QcS) : smul (sabs v) (sabs v) = smul v v.
Proof.
  change (@sabs QcS v) with (qc_abs v). unfold qc_abs.
  destruct (Z.ltb (Qnum (this v)) 0); [|reflexivity].
  change (Qcmult (Qcopp v) (Qcopp v) = Qcmult v v). ring.
Qed.

(* math::adjoint of a real number is the number itself *)
Lemma QcS_sadj_id (v : T QcS) : sadj v = v.
Proof. reflexivity. Qed.
