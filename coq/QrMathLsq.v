(* QrMathLsq.v -- why the normal equations / orthogonality to the kernel are "least squares" /
   "minimum norm": Pythagoras identities over any commutative ring (function-level matrices).
     normal equations  =>  |A z - b|^2 = |A x - b|^2 + |A (z - x)|^2   for every z
     A x = b, x _|_ ker A  =>  |z|^2 = |x|^2 + |z - x|^2             for every z with A z = b
   In an ordered field the last summand is >= 0 (instance R in QrMathR.v).   (C16 / A6-B) *)
From Amgcl Require Import Scalar Vec KernelsProofs StaticMatProofs DirectUtil.
Local Open Scope S_scope.

Section Lsq.
Context {S : Scalar}.
Hypothesis Srt : Sring S.
Add Ring SRingLsq : Srt.

Variables m n : nat.
Variable a : nat -> nat -> S.

Definition mulv (x : nat -> S) (r : nat) : S := sumn (fun j => a r j * x j) n.
Definition nrm2 (k : nat) (e : nat -> S) : S := sumn (fun r => e r * e r) k.

Lemma mulv_sub (z x : nat -> S) r : mulv (fun j => z j - x j) r = mulv z r - mulv x r.
Proof. unfold mulv. rewrite <- (sumn_sub Srt). apply sumn_ext. intros; ring. Qed.

Theorem lsq_pythagoras (x b : nat -> S) :
  (forall c, (c < n)%nat -> sumn (fun r => a r c * (mulv x r - b r)) m = s0) ->
  forall z : nat -> S,
    nrm2 m (fun r => mulv z r - b r) =
    nrm2 m (fun r => mulv x r - b r) + nrm2 m (fun r => mulv (fun j => z j - x j) r).
Proof.
  intros Hne z. unfold nrm2.
  assert (Hcross : sumn (fun r => (mulv x r - b r) * mulv (fun j => z j - x j) r) m = s0).
  { unfold mulv at 2.
    transitivity (sumn (fun r => sumn (fun j => (z j - x j) * (a r j * (mulv x r - b r))) n) m).
    { apply sumn_ext. intros r _. rewrite <- (sumn_scal Srt). apply sumn_ext. intros; ring. }
    rewrite (sumn_swap Srt).
    transitivity (sumn (fun _ : nat => @s0 S) n); [|apply (sumn_zero Srt)].
    apply sumn_ext. intros j Hj. rewrite (sumn_scal Srt), (Hne j Hj). ring. }
  transitivity (sumn (fun r => (mulv x r - b r) * (mulv x r - b r)
                               + mulv (fun j => z j - x j) r * mulv (fun j => z j - x j) r
                               + ((mulv x r - b r) * mulv (fun j => z j - x j) r
                                  + (mulv x r - b r) * mulv (fun j => z j - x j) r)) m).
  { apply sumn_ext. intros r _. rewrite mulv_sub. ring. }
  rewrite !(sumn_add Srt), Hcross. ring.
Qed.

Theorem minnorm_pythagoras (x b : nat -> S) :
  (forall r, (r < m)%nat -> mulv x r = b r) ->
  (forall w : nat -> S, (forall r, (r < m)%nat -> mulv w r = s0) -> sumn (fun c => x c * w c) n = s0) ->
  forall z : nat -> S, (forall r, (r < m)%nat -> mulv z r = b r) ->
    nrm2 n z = nrm2 n x + nrm2 n (fun c => z c - x c).
Proof.
  intros Hx Hker z Hz. unfold nrm2.
  assert (Hcross : sumn (fun c => x c * (z c - x c)) n = s0).
  { apply Hker. intros r Hr. rewrite mulv_sub, Hx, Hz by assumption. ring. }
  transitivity (sumn (fun c => x c * x c + (z c - x c) * (z c - x c) + (x c * (z c - x c) + x c * (z c - x c))) n).
  { apply sumn_ext. intros; ring. }
  rewrite !(sumn_add Srt), Hcross. ring.
Qed.

End Lsq.
