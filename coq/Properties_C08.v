(* Properties_C08.v -- C08: sparse matrix kernels equal their dense definitions.
   Statements only; proofs live in MatOpsProofs.v and MatOps2Proofs.v.
   Models: MatOps.v (sort_row, spgemm_saad, transpose, msum, mscale, diagonal) and
   MatOps2.v (spgemm_rmerge, backend::product dispatch, pointwise_matrix, spectral_radius,
   crs constructors), tied to the C++ by tools/props/C08.py.
   "any S": every Scalar record (hence IEEE floats incl. NaN); "ring": every commutative
   ring; "ordered field": hypotheses listed in Section OrderedField; closed at Qc.
   Dense semantics: mget A i j = sum of the stored entries (i,j) (duplicates add up).
   Section 6: block values (non-commutative ring, BlockMatOpsProofs.v) and complex values.
   Section 7 (end of file): the two spectral-radius clauses (power method <= largest singular value; Gershgorin bound
   for block values), SpecRad*.v. *)
From Coq Require Import Sorting.Sorted Sorting.Permutation QArith_base Qcanon.
Local Close Scope Qc_scope.
Local Close Scope Q_scope.
From Amgcl Require Import NcRing BlockInst NcRingBlock BlockMatOpsProofs BlockGershProofs ComplexInst.   (* before MatOps2: its [blk] must stay visible *)
From Amgcl Require Import Scalar QcInst Vec Crs Kernels KernelsProofs MatOps MatOpsProofs MatOps2 MatOps2Proofs.
Local Open Scope S_scope.

(* ================================================================== *)
(* 1. Structure (any S): well-formed CRS, no duplicate columns, order  *)

(* transpose: well-formed for EVERY input, shape swapped, rows list row indices increasingly *)
Theorem C08_transpose_wf (S : Scalar) (A : crs S) :
  wf (transpose A) = true /\ nrows (transpose A) = ncols A /\ ncols (transpose A) = nrows A /\
  Forall (fun r => sorted_weak r = true) (rows (transpose A)).
Proof.
  exact (conj (transpose_wf A) (conj (proj1 (transpose_shape A)) (conj (proj2 (transpose_shape A)) (transpose_sorted A)))).
Qed.
Print Assumptions C08_transpose_wf.

(* marker-based product: in-range columns only need wf B *)
Theorem C08_product_saad_wf (S : Scalar) (A B : crs S) sort : wf B = true ->
  wf (spgemm_saad A B sort) = true /\ nrows (spgemm_saad A B sort) = nrows A /\ ncols (spgemm_saad A B sort) = ncols B.
Proof. intro H. exact (conj (spgemm_saad_wf A B sort H) (spgemm_saad_shape A B sort)). Qed.
Print Assumptions C08_product_saad_wf.

(* a product row never contains a column twice -- for ALL inputs (unsorted, duplicates);
   with sort = true the rows are strictly increasing *)
Theorem C08_product_saad_no_duplicate_columns (S : Scalar) (A B : crs S) sort :
  Forall (fun r => NoDup (map fst r)) (rows (spgemm_saad A B sort)) /\
  Forall (fun r => sorted_strict r = true) (rows (spgemm_saad A B true)).
Proof. exact (conj (spgemm_saad_nodup A B sort) (spgemm_saad_sorted A B)). Qed.
Print Assumptions C08_product_saad_no_duplicate_columns.

(* row-merge product: the symbolic pass (row pointers) fits the numeric pass for ALL inputs;
   well-formed; rows of B sorted without duplicates => rows of C sorted without duplicates *)
Theorem C08_product_rmerge_passes_agree (S : Scalar) (A B : crs S) :
  rmerge_widths A B = map (@length _) (rows (spgemm_rmerge A B)).
Proof. exact (Rmerge.rmerge_widths_correct A B). Qed.
Print Assumptions C08_product_rmerge_passes_agree.

Theorem C08_product_rmerge_wf (S : Scalar) (A B : crs S) : wf B = true ->
  wf (spgemm_rmerge A B) = true /\ nrows (spgemm_rmerge A B) = nrows A /\ ncols (spgemm_rmerge A B) = ncols B.
Proof.
  intro H. exact (conj (Rmerge.spgemm_rmerge_wf A B H) (conj (Rmerge.spgemm_rmerge_nrows A B) (Rmerge.spgemm_rmerge_ncols A B))).
Qed.
Print Assumptions C08_product_rmerge_wf.

Theorem C08_product_rmerge_sorted_distinct (S : Scalar) (A B : crs S) :
  forallb sorted_strict (rows B) = true ->
  forallb sorted_strict (rows (spgemm_rmerge A B)) = true /\
  (forall r, In r (rows (spgemm_rmerge A B)) -> NoDup (map fst r)).
Proof.
  intro H. exact (conj (Rmerge.spgemm_rmerge_sorted_strict A B H) (Rmerge.spgemm_rmerge_NoDup A B H)).
Qed.
Print Assumptions C08_product_rmerge_sorted_distinct.

(* weighted sum *)
Theorem C08_sum_wf (S : Scalar) alpha (A : crs S) beta (B : crs S) sort :
  wf A = true -> wf B = true -> ncols B = ncols A -> nrows A = nrows B ->
  wf (msum alpha A beta B sort) = true /\
  nrows (msum alpha A beta B sort) = nrows A /\ ncols (msum alpha A beta B sort) = ncols A.
Proof. intros HA HB Hc Hn. exact (conj (msum_wf alpha A beta B sort HA HB Hc) (msum_shape alpha A beta B sort Hn)). Qed.
Print Assumptions C08_sum_wf.

Theorem C08_sum_no_duplicate_columns (S : Scalar) alpha (A : crs S) beta (B : crs S) sort :
  Forall (fun r => NoDup (map fst r)) (rows (msum alpha A beta B sort)) /\
  Forall (fun r => sorted_strict r = true) (rows (msum alpha A beta B true)).
Proof. exact (conj (msum_nodup alpha A beta B sort) (msum_sorted alpha A beta B)). Qed.
Print Assumptions C08_sum_no_duplicate_columns.

(* scale keeps the pattern *)
Theorem C08_scale_wf (S : Scalar) (A : crs S) s : wf A = true ->
  wf (mscale A s) = true /\ map (map fst) (rows (mscale A s)) = map (map fst) (rows A) /\ ncols (mscale A s) = ncols A.
Proof. intro H. exact (conj (mscale_wf A s H) (mscale_pattern A s)). Qed.
Print Assumptions C08_scale_wf.

(* detail::sort_row is a stable insertion sort: a permutation, sorted, equal columns keep
   their relative order *)
Theorem C08_sort_row_stable_sort (S : Scalar) (r : row S) :
  Permutation (sort_row r) r /\ sorted_weak (sort_row r) = true /\
  (forall c, filter (fun x => Nat.eqb (fst x) c) (sort_row r) = filter (fun x => Nat.eqb (fst x) c) r).
Proof. exact (conj (sort_row_perm r) (conj (sort_row_sorted r) (sort_row_stable r))). Qed.
Print Assumptions C08_sort_row_stable_sort.

Theorem C08_sort_rows_wf (S : Scalar) (A : crs S) : wf A = true ->
  wf (sort_rows A) = true /\ nrows (sort_rows A) = nrows A /\ ncols (sort_rows A) = ncols A /\
  Forall (fun r => sorted_weak r = true) (rows (sort_rows A)).
Proof.
  intro H. exact (conj (sort_rows_wf A H) (conj (proj1 (sort_rows_shape A)) (conj (proj2 (sort_rows_shape A)) (sort_rows_sorted A)))).
Qed.
Print Assumptions C08_sort_rows_wf.

(* diagonal(A, invert): entry i is the FIRST stored entry (i, d) of row i -- not the dense sum
   when the diagonal is stored more than once, see C08_diagonal_dense below --, inverted with
   identity for d == 0; a row without diagonal entry keeps the uninitialised cell [junk i];
   with a diagonal in every row the result does not depend on that memory *)
Theorem C08_diagonal_first_entry (S : Scalar) (A : crs S) invert (junk : vec S) i : i < nrows A ->
  length (diagonal A invert junk) = nrows A /\
  vget (diagonal A invert junk) i =
    match first_col (nth i (rows A) []) i with
    | Some d => if invert then (if is_zero d then s1 else sinv d) else d
    | None => vget junk i
    end.
Proof. intro H. exact (conj (diagonal_length A invert junk) (diagonal_spec A invert junk i H)). Qed.
Print Assumptions C08_diagonal_first_entry.

Theorem C08_diagonal_junk_independent (S : Scalar) (A : crs S) invert (junk1 junk2 : vec S) :
  has_diag A = true -> diagonal A invert junk1 = diagonal A invert junk2.
Proof. exact (diagonal_junk_independent A invert junk1 junk2). Qed.
Print Assumptions C08_diagonal_junk_independent.

(* pointwise_matrix (current code, after /repo 0e81e11): the counting pass fits the fill pass;
   the while(!done) loop of the model never stops for lack of fuel (all inputs, also unsorted); well-formed result when block_size divides the number of
   columns (the C++ only checks the rows; without it a column index = ncols/bs is produced) *)
Theorem C08_pointwise_passes_agree (S : Scalar) (A C : crs S) bs :
  pointwise_matrix A bs = Some C -> pointwise_counts A bs = map (@length _) (rows C).
Proof. exact (PwNew.pointwise_counts_correct A C bs). Qed.
Print Assumptions C08_pointwise_passes_agree.

Theorem C08_pointwise_fuel_sufficient (S : Scalar) bs (js : list (row S)) k : (0 < bs)%nat ->
  pw_block_row bs js = pw_loop (pw_fuel js + k)%nat bs (pw_init js) js.
Proof. exact (PwNew.pw_block_row_fuel bs js k). Qed.
Print Assumptions C08_pointwise_fuel_sufficient.

Theorem C08_pointwise_wf (S : Scalar) (A C : crs S) bs :
  wf A = true -> 0 < bs -> ncols A = (ncols A / bs * bs)%nat -> pointwise_matrix A bs = Some C ->
  wf C = true /\ nrows C = (nrows A / bs)%nat /\ ncols C = (ncols A / bs)%nat.
Proof. exact (PwNew.pointwise_matrix_wf A C bs). Qed.
Print Assumptions C08_pointwise_wf.

Theorem C08_pointwise_wf_needs_column_divisibility (S : Scalar) :
  exists A C : crs S, wf A = true /\ pointwise_matrix A 2 = Some C /\ wf C = false.
Proof. exact PwNew.pointwise_matrix_wf_needs_div. Qed.

(* constructors: copying through the flat (ptr, col, val) view is the identity; the range
   constructor accepts exactly the consistent sizes *)
Theorem C08_copy_constructor_identity (S : Scalar) (A : crs S) :
  crs_copy A = A /\
  crs_of_ranges (nrows A) (ncols A) (flat_ptr A) (flat_col A) (flat_val A) = Some A.
Proof. exact (conj (PwCopy.crs_copy_id A) (PwCopy.crs_of_ranges_flat A)). Qed.
Print Assumptions C08_copy_constructor_identity.

Theorem C08_range_constructor_precondition (S : Scalar) n m (ptr col : list nat) (val : vec S) :
  length ptr <> (n + 1)%nat \/ length col <> nth n ptr 0 \/ length val <> nth n ptr 0 ->
  crs_of_ranges n m ptr col val = None.
Proof. exact (PwCopy.crs_of_ranges_precond n m ptr col val). Qed.

(* adapter::block_matrix -> crs<static_matrix<V,b,b>> (any S): shapes, in-range block columns, every
   stored block is b x b; the iterator of the model never stops for lack of fuel *)
Theorem C08_block_matrix_wf (S : Scalar) (A : crs S) bs (B : bcrs) :
  wf A = true -> block_matrix A bs = Some B ->
  length (brows B) = (nrows A / bs)%nat /\ bncols B = (ncols A / bs)%nat /\
  Forall (Forall (fun cb : nat * blk => (fst cb < bncols B)%nat /\ length (snd cb) = bs /\
                                        Forall (fun v => length v = bs) (snd cb))) (brows B).
Proof. exact (Blk.block_matrix_wf A bs B). Qed.
Print Assumptions C08_block_matrix_wf.

Theorem C08_block_matrix_fuel_sufficient (S : Scalar) bs (js : list (row S)) k : (0 < bs)%nat ->
  bm_block_row bs js = bm_loop (pw_fuel js + k)%nat bs js.
Proof. exact (Blk.bm_block_row_fuel bs js k). Qed.

(* ================================================================== *)
(* 2. Dense characterisations (commutative ring)                       *)
Section Ring.
Variable S : Scalar.
Hypothesis Srt : Sring S.

(* marker-based product = dense product; rows of A and B may be unsorted and may contain
   duplicate entries.  ([ncols A = nrows B] is what the C++ needs to index B.ptr; the
   model reads an empty row beyond nrows B, so the identity does not depend on it.) *)
Theorem C08_product_saad_dense (A B : crs S) (sort : bool) i j :
  wf A = true -> ncols A = nrows B -> i < nrows A ->
  mget (spgemm_saad A B sort) i j = sumn (fun k => mget A i k * mget B k j) (ncols A).
Proof. intros H _ Hi. exact (spgemm_saad_dense Srt A B sort i j H Hi). Qed.

(* row-merge product = dense product (dense semantics hold for every B; sortedness of B is
   needed for the structure of the result only, C08_product_rmerge_sorted_distinct) *)
Theorem C08_product_rmerge_dense (A B : crs S) i j :
  wf A = true -> ncols A = nrows B -> i < nrows A ->
  mget (spgemm_rmerge A B) i j = sumn (fun k => mget A i k * mget B k j) (ncols A).
Proof. intros H _ Hi. exact (Rmerge.spgemm_rmerge_dense Srt A B i j H Hi). Qed.

(* backend::product for EVERY thread count (nt > 16 selects the row-merge algorithm) *)
Theorem C08_product_dense_all_thread_counts (nt : nat) (A B : crs S) (sort : bool) i j :
  wf A = true -> ncols A = nrows B -> i < nrows A ->
  mget (product nt A B sort) i j = sumn (fun k => mget A i k * mget B k j) (ncols A).
Proof. intros H _ Hi. exact (Rmerge.product_dense Srt nt A B sort i j H Hi). Qed.

Theorem C08_product_algorithms_agree (A B : crs S) (sort : bool) i j :
  mget (spgemm_rmerge A B) i j = mget (spgemm_saad A B sort) i j.
Proof. exact (Rmerge.rmerge_eq_saad_dense_all Srt A B sort i j). Qed.

(* key lemma of the marker logic *)
Theorem C08_row_add_dense (r : row S) c v j :
  rget (row_add r c v) j = rget r j + (if Nat.eqb c j then v else s0).
Proof. exact (rget_row_add Srt r c v j). Qed.

(* transpose: entry (j,i) = adjoint of entry (i,j); needs an additive adjoint *)
Theorem C08_transpose_dense
  (sadj_add : forall a b : S, sadj (a + b) = sadj a + sadj b) (sadj_0 : sadj (@s0 S) = s0)
  (A : crs S) i j : j < ncols A ->
  mget (transpose A) j i = sadj (mget A i j).
Proof. exact (transpose_dense Srt sadj_add sadj_0 A i j). Qed.

Theorem C08_sum_dense alpha (A : crs S) beta (B : crs S) (sort : bool) i j :
  nrows A = nrows B -> i < nrows A ->
  mget (msum alpha A beta B sort) i j = alpha * mget A i j + beta * mget B i j.
Proof. exact (msum_dense Srt alpha A beta B sort i j). Qed.

Theorem C08_scale_dense (A : crs S) (s : S) i j : mget (mscale A s) i j = mget A i j * s.
Proof. exact (mscale_dense Srt A s i j). Qed.

Theorem C08_sort_rows_dense (A : crs S) i j : mget (sort_rows A) i j = mget A i j.
Proof. exact (sort_rows_dense Srt A i j). Qed.

(* diagonal vs dense entry: equal when the columns of the row are distinct (or the row has no
   diagonal: dense entry 0); with duplicates the FIRST stored diagonal entry is returned and
   the dense entry is that one plus the later ones *)
Theorem C08_diagonal_dense (r : row S) i :
  (forall d, NoDup (map fst r) -> first_col r i = Some d -> rget r i = d) /\
  (first_col r i = None -> rget r i = s0) /\
  (forall d, first_col r i = Some d ->
     exists r1 r2, r = r1 ++ (i, d) :: r2 /\ ~ In i (map fst r1) /\ rget r i = d + rget r2 i).
Proof.
  exact (conj (fun d => first_col_some_dense Srt r i d)
        (conj (first_col_none_dense Srt r i) (fun d => first_col_some_split Srt r i d))).
Qed.
(* scalar -> block conversion: the stored blocks are exactly the blocks of A that contain a stored
   entry, in increasing block-column order, and block (I,J) holds the dense b x b values of A
   (0 at positions A does not store) -- for rows sorted by column without duplicates (the
   iterator OVERWRITES, it does not add) and sizes divisible by the block size *)
Theorem C08_block_matrix_spec (A : crs S) bs :
  bs <> 0%nat -> (nrows A / bs * bs)%nat = nrows A -> (ncols A / bs * bs)%nat = ncols A ->
  forallb sorted_strict (rows A) = true -> wf A = true ->
  block_matrix A bs = Some (block_spec A bs).
Proof. exact (Blk.block_matrix_spec Srt A bs). Qed.

(* unblock (block A) = A densely *)
Theorem C08_unblock_block_dense (A : crs S) bs (B : bcrs) i j :
  forallb sorted_strict (rows A) = true -> wf A = true -> block_matrix A bs = Some B ->
  i < nrows A -> j < ncols A ->
  mget (unblock_matrix bs B) i j = mget A i j /\
  nrows (unblock_matrix bs B) = (length (brows B) * bs)%nat /\ ncols (unblock_matrix bs B) = (bncols B * bs)%nat.
Proof.
  intros H1 H2 H3 Hi Hj.
  exact (conj (Blk.unblock_block_dense Srt A bs B i j H1 H2 H3 Hi Hj)
              (conj (Blk.unblock_nrows bs B) (Blk.unblock_ncols bs B))).
Qed.
End Ring.

(* ================================================================== *)
(* 3. Gershgorin (ordered field)                                       *)
Section OrderedField.
Variable S : Scalar.
Hypothesis lt_irrefl : forall x : S, sltb x x = false.
Hypothesis lt_trans  : forall x y z : S, sltb x y = true -> sltb y z = true -> sltb x z = true.
Hypothesis lt_total  : forall x y : S, sltb x y = false -> sltb y x = false -> x = y.
Hypothesis Srt : Sring S.
Hypothesis lt_add : forall x y z : S, sltb x y = true -> sltb (x + z) (y + z) = true.
Hypothesis lt_mul : forall x y z : S, sltb s0 z = true -> sltb x y = true -> sltb (x * z) (y * z) = true.
Hypothesis abs_nonneg : forall x : S, sltb (sabs x) s0 = false.
Hypothesis abs_0 : sabs (@s0 S) = s0.
Hypothesis abs_zero : forall x : S, sabs x = s0 -> x = s0.
Hypothesis abs_mul : forall x y : S, sabs (x * y) = sabs x * sabs y.
Hypothesis abs_tri : forall x y : S, sltb (sabs x + sabs y) (sabs (x + y)) = false.
Hypothesis Sft : Sfield S.

(* the value computed by spectral_radius<false>(A, 0) is max(0, max_i sum_j |a_ij|) over the
   STORED entries, for every static chunking of the rows over the threads *)
Theorem C08_gershgorin_value (lens : list nat) (A : crs S) :
  nrows A <= fold_right Nat.add 0 lens ->
  spectral_radius_gersh false lens A = gersh_spec false A.
Proof. exact (Gersh.gersh_value_unscaled lt_irrefl lt_trans lt_total lens A). Qed.

(* scaled variant: max_i |1/d_i| sum_j |a_ij| with d_i the LAST stored diagonal entry of row i
   (the identity when row i stores none: [dia] is reset for every row since /repo 519d545),
   again for every chunking *)
Theorem C08_gershgorin_value_scaled (lens : list nat) (A : crs S) :
  nrows A <= fold_right Nat.add 0 lens ->
  spectral_radius_gersh true lens A = gersh_spec true A.
Proof. exact (Gersh.gersh_value_scaled lt_irrefl lt_trans lt_total lens A). Qed.

(* upper bound of the spectral radius: every eigenvalue of A (resp. of D^-1 A) is bounded *)
Theorem C08_gershgorin_bound (A : crs S) (v : vec S) (lam : S) :
  wf A = true -> nrows A = ncols A ->
  (forall i, i < nrows A -> Ax A v i = lam * vget v i) ->
  (exists i, i < nrows A /\ vget v i <> s0) ->
  sltb (gersh_spec false A) (sabs lam) = false.
Proof.
  exact (Gersh.gersh_bound_unscaled lt_irrefl lt_trans lt_total Srt lt_add lt_mul abs_nonneg abs_0
           abs_zero abs_mul abs_tri A v lam).
Qed.

Theorem C08_gershgorin_bound_scaled (A : crs S) (v : vec S) (lam : S) :
  wf A = true -> nrows A = ncols A ->
  (forall i, i < nrows A -> Gersh.last_diag A i <> s0) ->
  (forall i, i < nrows A -> Ax A v i = lam * Gersh.last_diag A i * vget v i) ->
  (exists i, i < nrows A /\ vget v i <> s0) ->
  sltb (gersh_spec true A) (sabs lam) = false.
Proof.
  exact (Gersh.gersh_bound_scaled lt_irrefl lt_trans lt_total Srt lt_add lt_mul abs_nonneg abs_0
           abs_zero abs_mul abs_tri Sft A v lam).
Qed.
End OrderedField.

(* Power method: the full statement ("the estimate never exceeds the largest singular value", every iteration
   count, every start vector, both variants) is PROVED in section 7a below (C08_power_method_bound in squared form
   for every ordered field, C08_power_method_le_sigma_R at the reals with the true square root).  In QcS ssqrt is
   the 2^-64 floor root, so the iterate is only approximately normalised: C08_power_method_bound_any_root is what
   holds there, and what the exact oracle of the tie checks. *)
(* proved part (any S): one sweep of the unscaled iteration forms b1 = A b0, accumulates
   ||b1||^2 as sum_i |s_i s_i| and returns the estimate sum_i |s_i b0_i|, s = A b0 *)
Theorem C08_power_iteration_partial (S : Scalar) (A : crs S) (b0 : vec S) :
  pm_iter false A b0 =
  (fold_left (fun a s => a + sabs (s * s)) (map (fun r => dotrow r b0) (rows A)) s0,
   fold_left (fun a (p : nat * S) => a + sabs (snd p * vget b0 (fst p)))
             (indexed (map (fun r => dotrow r b0) (rows A))) s0,
   map (fun r => dotrow r b0) (rows A)).
Proof. exact (pm_iter_unscaled A b0). Qed.
Print Assumptions C08_power_iteration_partial.

(* ================================================================== *)
(* 4. pointwise_matrix = block maximum (current code); refuted for the pre-fix code *)

(* entry (I,J) = largest norm of the stored entries of block (I,J), pattern = blocks with a stored
   entry, block columns increasing -- for row-sorted input (duplicates allowed), sizes divisible
   by the block size; any Scalar (the code folds max over the same values in the same order) *)
Theorem C08_pointwise_block_maximum (S : Scalar) (A : crs S) bs :
  bs <> 0%nat -> (nrows A / bs * bs)%nat = nrows A ->
  Forall (fun r => sorted_weak r = true) (rows A) ->
  wf A = true -> ncols A = (ncols A / bs * bs)%nat ->
  pointwise_matrix A bs = Some (pointwise_spec A bs).
Proof. exact (PwSpec.pointwise_matrix_spec A bs). Qed.
Print Assumptions C08_pointwise_block_maximum.

(* per block row, with the in-range condition spelled out *)
Theorem C08_pointwise_block_row (S : Scalar) bs mp (js : list (row S)) :
  (0 < bs)%nat -> Forall (fun r => sorted_weak r = true) js ->
  Forall (Forall (fun e => (fst e / bs < mp)%nat)) js ->
  pw_block_row bs js = pw_spec_row bs mp js.
Proof. exact (PwSpec.pw_block_row_spec bs mp js). Qed.

(* HISTORICAL, about the scan as it was BEFORE /repo commit 0e81e11 (definitions *_old in
   MatOps2.v; finding F-C08-pointwise-terminator, fixed): the same specification was violated,
   in value and in pattern, on well-formed row-sorted duplicate-free input. *)
Theorem C08_pointwise_old_refuted :
  exists (A : crs QcS) (bs : nat) (C : crs QcS),
    pw_input_ok A bs = true /\ pointwise_matrix_old A bs = Some C /\
    crs_eqb C (pointwise_spec A bs) = false /\ C <> pointwise_spec A bs.
Proof. exact pointwise_old_refuted. Qed.
Print Assumptions C08_pointwise_old_refuted.

Theorem C08_pointwise_old_refuted_pattern :
  exists (A : crs QcS) (bs : nat) (C : crs QcS),
    pw_input_ok A bs = true /\ pointwise_matrix_old A bs = Some C /\
    map (map fst) (rows C) <> map (map fst) (rows (pointwise_spec A bs)).
Proof. exact pointwise_old_refuted_pattern. Qed.
Print Assumptions C08_pointwise_old_refuted_pattern.

(* the old witnesses under the CURRENT scan: [1 1] with bs = 1 and 1D Poisson (x) I_2 with bs = 2
   (the case pointwise aggregation uses) now reduce to what the definition prescribes *)
Example C08_pointwise_witnesses_now :
  pointwise_matrix pw_wit1 1 = Some (pointwise_spec pw_wit1 1) /\
  pointwise_matrix pw_wit2 2 = Some (pointwise_spec pw_wit2 2) /\
  pointwise_matrix pw_wit3 2 = Some (pointwise_spec pw_wit3 2) /\
  qrows_of (pointwise_spec pw_wit3 2) = [[(0, (2#1)%Q); (1, (1#1)%Q)]; [(0, (1#1)%Q); (1, (2#1)%Q)]].
Proof.
  repeat split; try (apply PwSpec.pointwise_matrix_spec; vm_compute;
                     first [discriminate | reflexivity | repeat constructor]).
Qed.

(* ================================================================== *)
(* 5. Closed instances at the exact rationals: no hypotheses left      *)
Theorem C08_product_dense_all_thread_counts_Qc (nt : nat) (A B : crs QcS) (sort : bool) i j :
  wf A = true -> ncols A = nrows B -> i < nrows A ->
  mget (product nt A B sort) i j = sumn (fun k => mget A i k * mget B k j) (ncols A).
Proof. exact (C08_product_dense_all_thread_counts QcS QcS_ring nt A B sort i j). Qed.
Print Assumptions C08_product_dense_all_thread_counts_Qc.

Theorem C08_block_matrix_spec_Qc (A : crs QcS) bs :
  bs <> 0%nat -> (nrows A / bs * bs)%nat = nrows A -> (ncols A / bs * bs)%nat = ncols A ->
  forallb sorted_strict (rows A) = true -> wf A = true ->
  block_matrix A bs = Some (block_spec A bs).
Proof. exact (C08_block_matrix_spec QcS QcS_ring A bs). Qed.
Print Assumptions C08_block_matrix_spec_Qc.

Theorem C08_transpose_dense_Qc (A : crs QcS) i j : j < ncols A ->
  mget (transpose A) j i = mget A i j.
Proof. exact (C08_transpose_dense QcS QcS_ring (fun a b => eq_refl) eq_refl A i j). Qed.
Print Assumptions C08_transpose_dense_Qc.

Theorem C08_sum_dense_Qc alpha (A : crs QcS) beta (B : crs QcS) (sort : bool) i j :
  nrows A = nrows B -> i < nrows A ->
  mget (msum alpha A beta B sort) i j = alpha * mget A i j + beta * mget B i j.
Proof. exact (C08_sum_dense QcS QcS_ring alpha A beta B sort i j). Qed.
Print Assumptions C08_sum_dense_Qc.

(* the number spectral_radius<false>(A,0) returns bounds every eigenvalue, for every chunking *)
Theorem C08_gershgorin_upper_bound_Qc lens (A : crs QcS) (v : vec QcS) (lam : QcS) :
  nrows A <= fold_right Nat.add 0 lens -> wf A = true -> nrows A = ncols A ->
  (forall i, i < nrows A -> Ax A v i = lam * vget v i) ->
  (exists i, i < nrows A /\ vget v i <> s0) ->
  sltb (spectral_radius_gersh false lens A) (sabs lam) = false.
Proof. exact (Gersh.spectral_radius_gersh_bound_Qc lens A v lam). Qed.
Print Assumptions C08_gershgorin_upper_bound_Qc.

Theorem C08_gershgorin_upper_bound_scaled_Qc lens (A : crs QcS) (v : vec QcS) (lam : QcS) :
  nrows A <= fold_right Nat.add 0 lens -> wf A = true -> nrows A = ncols A ->
  (forall i, i < nrows A -> Gersh.last_diag A i <> s0) ->
  (forall i, i < nrows A -> Ax A v i = lam * Gersh.last_diag A i * vget v i) ->
  (exists i, i < nrows A /\ vget v i <> s0) ->
  sltb (spectral_radius_gersh true lens A) (sabs lam) = false.
Proof. exact (Gersh.spectral_radius_gersh_scaled_bound_Qc lens A v lam). Qed.
Print Assumptions C08_gershgorin_upper_bound_scaled_Qc.

(* complex rationals: the adjoint (conjugation) is additive, so C08_transpose_dense applies to
   the instance used by the complex correspondence cases as soon as it is a ring *)
Example C08_complex_adjoint_additive :
  (forall a b : CqS, sadj (a + b) = sadj a + sadj b) /\ sadj (@s0 CqS) = s0.
Proof.
  split.
  - intros [a1 a2] [b1 b2]. unfold sadj, sadd, CqS, cq_conj, cq_add; simpl. f_equal. ring.
  - reflexivity.
Qed.

(* a matrix with a row without diagonal entry: the value no longer depends on the chunking *)
Example C08_gershgorin_chunk_independent :
  spectral_radius_gersh true [2] Gersh.exC = spectral_radius_gersh true [1; 1] Gersh.exC.
Proof. exact (proj1 (proj2 Gersh.exC_chunk_independent)). Qed.

Example C08_nonvacuous :
  let A : crs QcS := mkCrs 3 [[(1, qc 1 1); (0, qc 1 2); (1, qc 2 1)]; [(2, qc 3 1)]]%nat in
  let B : crs QcS := mkCrs 2 [[(1, qc 1 1)]; [(0, qc 5 1); (1, qc (-1) 1)]; []]%nat in
  wf A = true /\ ncols A = nrows B /\
  qrows_of (spgemm_saad A B false) = [[(0, (15#1)%Q); (1, ((-5)#2)%Q)]; []] /\
  qrows_of (spgemm_rmerge A B) = [[(0, (15#1)%Q); (1, ((-5)#2)%Q)]; []].
Proof. vm_compute. repeat split; reflexivity. Qed.

(* ================================================================== *)
(* 6. Block and complex value types.
   "nc ring": every NON-commutative ring (ncring_theory, NcRing.v) -- in particular static_matrix<T,b,b> blocks
   (BlockS T b).  The statements keep the operand order of the C++: (A B)_ij = sum_k a_ik * b_kj with the entry of
   A on the LEFT, alpha * a_ij, a_ij * s; the transpose takes the adjoint of every value, and when the adjoint is an
   anti-automorphism (blocks: conjugate transpose) transposition reverses products. *)
Section NcRing.
Variable S : Scalar.
Hypothesis Hnc : ncring_theory S.

Theorem C08_nc_product_saad_dense (A B : crs S) (sort : bool) i j :
  wf A = true -> ncols A = nrows B -> i < nrows A ->
  mget (spgemm_saad A B sort) i j = sumn (fun k => mget A i k * mget B k j) (ncols A).
Proof. intros H _ Hi. exact (nc_spgemm_saad_dense Hnc A B sort i j H Hi). Qed.

Theorem C08_nc_product_rmerge_dense (A B : crs S) i j :
  wf A = true -> ncols A = nrows B -> i < nrows A ->
  mget (spgemm_rmerge A B) i j = sumn (fun k => mget A i k * mget B k j) (ncols A).
Proof. intros H _ Hi. exact (nc_spgemm_rmerge_dense Hnc A B i j H Hi). Qed.

Theorem C08_nc_product_dense_all_thread_counts (nt : nat) (A B : crs S) (sort : bool) i j :
  wf A = true -> ncols A = nrows B -> i < nrows A ->
  mget (product nt A B sort) i j = sumn (fun k => mget A i k * mget B k j) (ncols A).
Proof. intros H _ Hi. exact (nc_product_dense Hnc nt A B sort i j H Hi). Qed.

Theorem C08_nc_product_algorithms_agree (A B : crs S) (sort : bool) i j :
  mget (spgemm_rmerge A B) i j = mget (spgemm_saad A B sort) i j.
Proof. exact (nc_rmerge_eq_saad_dense_all Hnc A B sort i j). Qed.

Theorem C08_nc_row_add_dense (r : row S) c v j :
  rget (row_add r c v) j = rget r j + (if Nat.eqb c j then v else s0).
Proof. exact (nc_rget_row_add Hnc r c v j). Qed.

Theorem C08_nc_sum_dense alpha (A : crs S) beta (B : crs S) (sort : bool) i j :
  nrows A = nrows B -> i < nrows A ->
  mget (msum alpha A beta B sort) i j = alpha * mget A i j + beta * mget B i j.
Proof. exact (nc_msum_dense Hnc alpha A beta B sort i j). Qed.

Theorem C08_nc_scale_dense (A : crs S) (s : S) i j : mget (mscale A s) i j = mget A i j * s.
Proof. exact (nc_mscale_dense Hnc A s i j). Qed.

Theorem C08_nc_sort_rows_dense (A : crs S) i j : mget (sort_rows A) i j = mget A i j.
Proof. exact (nc_sort_rows_dense Hnc A i j). Qed.

(* transpose: entry (j,i) = adjoint of entry (i,j), for an additive adjoint *)
Theorem C08_nc_transpose_dense
  (sadj_add : forall a b : S, sadj (a + b) = sadj a + sadj b) (sadj_0 : sadj (@s0 S) = s0)
  (A : crs S) i j : j < ncols A ->
  mget (transpose A) j i = sadj (mget A i j).
Proof. exact (nc_transpose_dense Hnc sadj_add sadj_0 A i j). Qed.

(* adjoint an anti-automorphism => transposition reverses products *)
Theorem C08_nc_transpose_of_product
  (sadj_add : forall a b : S, sadj (a + b) = sadj a + sadj b) (sadj_0 : sadj (@s0 S) = s0)
  (sadj_mul : forall a b : S, sadj (a * b) = sadj b * sadj a)
  (A B : crs S) (sort : bool) i j :
  wf A = true -> i < nrows A -> j < ncols B ->
  mget (transpose (spgemm_saad A B sort)) j i =
  sumn (fun k => mget (transpose B) j k * mget (transpose A) k i) (ncols A).
Proof. exact (nc_transpose_product Hnc sadj_add sadj_0 sadj_mul A B sort i j). Qed.

Theorem C08_nc_diagonal_dense (r : row S) i :
  (forall d, NoDup (map fst r) -> first_col r i = Some d -> rget r i = d) /\
  (first_col r i = None -> rget r i = s0).
Proof. exact (conj (fun d => nc_first_col_some_dense Hnc r i d) (nc_first_col_none_dense Hnc r i)). Qed.
End NcRing.
Print Assumptions C08_nc_product_saad_dense.
Print Assumptions C08_nc_product_rmerge_dense.
Print Assumptions C08_nc_product_dense_all_thread_counts.
Print Assumptions C08_nc_product_algorithms_agree.
Print Assumptions C08_nc_row_add_dense.
Print Assumptions C08_nc_sum_dense.
Print Assumptions C08_nc_scale_dense.
Print Assumptions C08_nc_sort_rows_dense.
Print Assumptions C08_nc_transpose_dense.
Print Assumptions C08_nc_transpose_of_product.
Print Assumptions C08_nc_diagonal_dense.

(* static_matrix<T,b,b> with math::adjoint = conjugate transpose of the block: a non-commutative ring whose
   adjoint is an additive, involutive ANTI-automorphism (T a commutative ring with an additive, multiplicative,
   involutive adjoint: identity for real T, conjugation for complex T) *)
Theorem C08_block_adjoint_antiautomorphism (S0 : Scalar) (b : nat) (Srt : Sring S0)
  (sadj_add0 : forall x y : S0, sadj (x + y) = sadj x + sadj y)
  (sadj_mul0 : forall x y : S0, sadj (x * y) = sadj x * sadj y)
  (sadj_invol0 : forall x : S0, sadj (sadj x) = x) :
  ncring_theory (BlockS S0 b) /\
  (forall x y : BlockS S0 b, sadj (x + y) = sadj x + sadj y) /\
  (forall x y : BlockS S0 b, sadj (x * y) = sadj y * sadj x) /\
  (forall x : BlockS S0 b, sadj (sadj x) = x) /\
  sadj (@s0 (BlockS S0 b)) = s0 /\
  (forall (x : BlockS S0 b) i j, i < b -> j < b -> blk_get (sadj x : BlockS S0 b) i j = sadj (blk_get x j i)).
Proof.
  exact (conj (BlockS_ncring S0 b Srt) (conj (BlockS_adj_add S0 b sadj_add0)
        (conj (BlockS_adj_mul S0 b Srt sadj_add0 sadj_mul0) (conj (BlockS_adj_invol S0 b sadj_invol0)
        (conj (BlockS_adj_0 S0 b Srt sadj_add0) (BlockS_adj_get S0 b)))))).
Qed.
Print Assumptions C08_block_adjoint_antiautomorphism.

(* closed at static_matrix<Q,b,b> for EVERY b: no hypotheses left *)
Theorem C08_block_product_dense_all_thread_counts_Qc (b nt : nat) (A B : crs (BlockS QcS b)) (sort : bool) i j :
  wf A = true -> ncols A = nrows B -> i < nrows A ->
  mget (product nt A B sort) i j = sumn (fun k => mget A i k * mget B k j) (ncols A).
Proof. exact (C08_nc_product_dense_all_thread_counts (BlockS QcS b) (BlockS_ncring QcS b QcS_ring) nt A B sort i j). Qed.
Print Assumptions C08_block_product_dense_all_thread_counts_Qc.

Theorem C08_block_transpose_dense_Qc (b : nat) (A : crs (BlockS QcS b)) i j : j < ncols A ->
  mget (transpose A) j i = sadj (mget A i j).
Proof.
  exact (C08_nc_transpose_dense (BlockS QcS b) (BlockS_ncring QcS b QcS_ring)
           (BlockS_adj_add QcS b (fun _ _ => eq_refl)) (BlockS_adj_0 QcS b QcS_ring (fun _ _ => eq_refl)) A i j).
Qed.
Print Assumptions C08_block_transpose_dense_Qc.

Theorem C08_block_transpose_of_product_Qc (b : nat) (A B : crs (BlockS QcS b)) (sort : bool) i j :
  wf A = true -> i < nrows A -> j < ncols B ->
  mget (transpose (spgemm_saad A B sort)) j i =
  sumn (fun k => mget (transpose B) j k * mget (transpose A) k i) (ncols A).
Proof.
  exact (C08_nc_transpose_of_product (BlockS QcS b) (BlockS_ncring QcS b QcS_ring)
           (BlockS_adj_add QcS b (fun _ _ => eq_refl)) (BlockS_adj_0 QcS b QcS_ring (fun _ _ => eq_refl))
           (BlockS_adj_mul QcS b QcS_ring (fun _ _ => eq_refl) (fun _ _ => eq_refl)) A B sort i j).
Qed.
Print Assumptions C08_block_transpose_of_product_Qc.

Theorem C08_block_sum_dense_Qc (b : nat) alpha (A : crs (BlockS QcS b)) beta (B : crs (BlockS QcS b)) (sort : bool) i j :
  nrows A = nrows B -> i < nrows A ->
  mget (msum alpha A beta B sort) i j = alpha * mget A i j + beta * mget B i j.
Proof. exact (C08_nc_sum_dense (BlockS QcS b) (BlockS_ncring QcS b QcS_ring) alpha A beta B sort i j). Qed.
Print Assumptions C08_block_sum_dense_Qc.

(* complex values: ComplexS T is a COMMUTATIVE ring whose adjoint (conjugation) is additive, so the ring theorems
   of section 2 apply as they stand; closed at the Gaussian rationals *)
Theorem C08_complex_transpose_dense_Qc (A : crs CQcS) i j : j < ncols A ->
  mget (transpose A) j i = sadj (mget A i j).
Proof. exact (C08_transpose_dense CQcS CQcS_ring (conj_add QcS QcS_ring) (conj_0 QcS QcS_ring) A i j). Qed.
Print Assumptions C08_complex_transpose_dense_Qc.

Theorem C08_complex_product_dense_all_thread_counts_Qc (nt : nat) (A B : crs CQcS) (sort : bool) i j :
  wf A = true -> ncols A = nrows B -> i < nrows A ->
  mget (product nt A B sort) i j = sumn (fun k => mget A i k * mget B k j) (ncols A).
Proof. exact (C08_product_dense_all_thread_counts CQcS CQcS_ring nt A B sort i j). Qed.
Print Assumptions C08_complex_product_dense_all_thread_counts_Qc.

Theorem C08_complex_sum_scale_dense_Qc alpha (A : crs CQcS) beta (B : crs CQcS) (sort : bool) (s : CQcS) i j :
  nrows A = nrows B -> i < nrows A ->
  mget (msum alpha A beta B sort) i j = alpha * mget A i j + beta * mget B i j /\
  mget (mscale A s) i j = mget A i j * s.
Proof.
  intros H Hi. exact (conj (C08_sum_dense CQcS CQcS_ring alpha A beta B sort i j H Hi) (C08_scale_dense CQcS CQcS_ring A s i j)).
Qed.
Print Assumptions C08_complex_sum_scale_dense_Qc.

(* spectral_radius (Gershgorin branch) at block values: math::norm of a block is a base scalar, so the estimate is
   a base scalar (carried embedded as c*I by the model): it is computed by the same loop on base scalars
   (BlockGershProofs.gersh_n: row sums of the Frobenius norms, times the norm of the inverted diagonal block when
   scaled), and the unscaled estimate is max(0, max_i sum_j ||a_ij||_F) over the stored blocks -- the scalar
   Gershgorin value of the matrix of norms -- for every chunking of the rows over the threads *)
Theorem C08_block_gershgorin_is_base_scalar_Qc (b : nat) (scale : bool) (lens : list nat) (A : crs (BlockS QcS b)) :
  0 < b ->
  spectral_radius_gersh scale lens A = blk_embed QcS b (gersh_n QcS (BlockS QcS b) (bnorm b) scale lens A).
Proof. intro Hb. exact (block_gersh_is_scalar_Qc b Hb scale lens A). Qed.
Print Assumptions C08_block_gershgorin_is_base_scalar_Qc.

Theorem C08_block_gershgorin_value_Qc (b : nat) (lens : list nat) (A : crs (BlockS QcS b)) :
  0 < b -> nrows A <= fold_right Nat.add 0 lens ->
  spectral_radius_gersh false lens A =
  blk_embed QcS b (gersh_spec false (norm_matrix QcS (BlockS QcS b) (bnorm b) A)).
Proof. intro Hb. exact (block_gersh_value_Qc b Hb lens A). Qed.
Print Assumptions C08_block_gershgorin_value_Qc.

(* non-vacuity: with non-commuting 2 x 2 blocks the product with the operands of every value product swapped
   (what `vb * va` in spgemm_saad would compute) is a DIFFERENT matrix, and the adjoint of a block is its transpose *)
Example C08_block_operand_order_matters :
  let a : BlockS QcS 2 := blk_of_list QcS 2 [qc 0 1; qc 1 1; qc 0 1; qc 0 1] in
  let c : BlockS QcS 2 := blk_of_list QcS 2 [qc 0 1; qc 0 1; qc 1 1; qc 0 1] in
  let A : crs (BlockS QcS 2) := mkCrs 1 [[(0%nat, a)]] in
  let B : crs (BlockS QcS 2) := mkCrs 1 [[(0%nat, c)]] in
  seqb (mget (spgemm_saad A B false) 0 0) (a * c) = true /\ seqb (a * c) (c * a) = false /\
  seqb (mget (transpose A) 0 0) c = true.
Proof. vm_compute. repeat split; reflexivity. Qed.

(* ================================================================== *)
(* 7. The two spectral-radius clauses of the property, at full strength.
   "ordered field": the record's operator< is a strict total order compatible with + and with * by positive
   elements, sabs is non-negative with sabs x * sabs x = x * x, field laws -- NOTHING about ssqrt: a theorem that
   meets a square root names the values it must be good at.   Proofs: SpecRadOrd.v (Cauchy-Schwarz in squared
   form, by Lagrange's identity), SpecRadPower.v, SpecRadBlock.v; closed at Qc (SpecRadQc.v) and at the reals with
   the true square root (SpecRadR.v; there every root hypothesis holds and the axioms of Reals are listed). *)
From Coq Require Import Reals.
From Amgcl Require Import SpecRadOrd SpecRadPower SpecRadBlock SpecRadSpec SpecRadQc SpecRadGrid SpecRadR.

Section SpectralRadius.
Variable S : Scalar.
Hypothesis lt_irrefl : forall x : S, sltb x x = false.
Hypothesis lt_trans  : forall x y z : S, sltb x y = true -> sltb y z = true -> sltb x z = true.
Hypothesis lt_total  : forall x y : S, sltb x y = false -> sltb y x = false -> x = y.
Hypothesis Srt : Sring S.
Hypothesis lt_add : forall x y z : S, sltb x y = true -> sltb (x + z) (y + z) = true.
Hypothesis lt_mul : forall x y z : S, sltb s0 z = true -> sltb x y = true -> sltb (x * z) (y * z) = true.
Hypothesis abs_nonneg : forall x : S, sltb (sabs x) s0 = false.
Hypothesis abs_sqr : forall x : S, sabs x * sabs x = x * x.
Hypothesis Sft : Sfield S.
Local Notation Hof := (mk_ordfield S lt_irrefl lt_trans lt_total Srt lt_add lt_mul abs_nonneg abs_sqr Sft).

(* Cauchy-Schwarz without roots or division: (sum x_i y_i)^2 <= (sum x_i^2)(sum y_i^2) *)
Theorem C08_cauchy_schwarz (x y : nat -> S) n :
  sltb (sumn (fun i => x i * x i) n * sumn (fun i => y i * y i) n)
       (sumn (fun i => x i * y i) n * sumn (fun i => x i * y i) n) = false.
Proof. exact (cauchy_schwarz Hof x y n). Qed.

(* --- 7a. power method (builtin.hpp spectral_radius, power_iters > 0) --- *)

(* one sweep, both variants, as the code computes it: b1 = T b0 (T = pm_op: A, or row i of A times the inverse of
   the thread-private [dia]), b1_norm = |b1|^2, radius = sum_i |b1_i * b0_i|  -- absolute values term by term *)
Theorem C08_power_sweep (scale : bool) (A : crs S) (b0 : vec S) :
  pm_iter scale A b0 =
  (vsq (pm_op scale A b0), sumn (fun i => sabs (vget (pm_op scale A b0) i * vget b0 i)) (nrows A), pm_op scale A b0) /\
  length (pm_op scale A b0) = nrows A.
Proof.
  exact (conj (proj1 (pm_iter_sums Hof scale A b0)) (proj2 (proj2 (pm_iter_sums Hof scale A b0)))).
Qed.

(* the operator, densely: (T x)_i = c_i (A x)_i with c_i = 1, resp. the inverse of [dia] at row i; when every row
   stores a diagonal entry [dia] at row i is the last stored diagonal entry of row i: T = D^-1 A *)
Theorem C08_power_operator_dense (scale : bool) (A : crs S) (x : vec S) i : wf A = true -> i < nrows A ->
  vget (pm_op scale A x) i = pm_coef scale A i * Ax A x i /\
  (Gersh.has_last_diag A = true -> pm_dia A i = Gersh.last_diag A i).
Proof.
  intros Hwf Hi. exact (conj (pm_op_get Hof scale A x i Hwf Hi) (fun Hd => pm_dia_last_diag A i Hd Hi)).
Qed.

(* one sweep: 0 <= radius and radius^2 <= M |b0|^4 for every M with |T x|^2 <= M |x|^2 (Cauchy-Schwarz) *)
Theorem C08_power_sweep_bound (scale : bool) (A : crs S) (M : S) (b0 : vec S) nrm rad b1 :
  (forall x : vec S, length x = nrows A -> sltb (M * vsq x) (vsq (pm_op scale A x)) = false) ->
  length b0 = nrows A -> pm_iter scale A b0 = (nrm, rad, b1) ->
  sltb rad s0 = false /\ sltb (M * (vsq b0 * vsq b0)) (rad * rad) = false.
Proof. exact (pm_iter_bound Hof scale A M b0 nrm rad b1). Qed.

(* THE CLAUSE (squared form): for every iteration count and every start vector the returned estimate r satisfies
   0 <= r and r^2 <= M, for every M >= 0 bounding the squared singular values of T (|T x|^2 <= M |x|^2 for all x),
   provided the root is not UNDER-estimated at the norms the run meets (x <= ssqrt x * ssqrt x for x in
   power_norms = |start|^2 and b1_norm of every sweep but the last; an exact root qualifies).
   (iters = 0 is the Gershgorin branch in the C++; the model then returns 0.) *)
Theorem C08_power_method_bound (scale : bool) (A : crs S) (M : S) (iters : nat) (start : vec S) :
  sltb M s0 = false ->
  (forall x : vec S, length x = nrows A -> sltb (M * vsq x) (vsq (pm_op scale A x)) = false) ->
  length start = nrows A ->
  Forall (fun x => sltb (ssqrt x * ssqrt x) x = false) (power_norms scale A iters start) ->
  let r := spectral_radius_power scale A iters start in
  sltb r s0 = false /\ sltb M (r * r) = false.
Proof. exact (power_bound Hof scale A M iters start). Qed.

(* the same with the operator written densely (scaled: every row stores a diagonal entry, D = the last ones) *)
Theorem C08_power_method_bound_dense (scale : bool) (A : crs S) (M : S) (iters : nat) (start : vec S) :
  wf A = true -> (scale = true -> Gersh.has_last_diag A = true) -> sltb M s0 = false ->
  (forall x : vec S, length x = nrows A ->
     sltb (M * vsq x) (sumn (fun i => DinvA scale A x i * DinvA scale A x i) (nrows A)) = false) ->
  length start = nrows A ->
  Forall (fun x => sltb (ssqrt x * ssqrt x) x = false) (power_norms scale A iters start) ->
  let r := spectral_radius_power scale A iters start in
  sltb r s0 = false /\ sltb M (r * r) = false.
Proof. exact (power_bound_dense Hof scale A M iters start). Qed.

(* with NO hypothesis on ssqrt: r^2 <= M t^2, t = |last (approximately normalised) iterate|^2 *)
Theorem C08_power_method_bound_any_root (scale : bool) (A : crs S) (M : S) (iters : nat) (start : vec S) :
  (forall x : vec S, length x = nrows A -> sltb (M * vsq x) (vsq (pm_op scale A x)) = false) ->
  0 < iters -> length start = nrows A ->
  let r := spectral_radius_power scale A iters start in
  let t := vsq (power_last scale A iters start) in
  sltb r s0 = false /\ sltb (M * (t * t)) (r * r) = false.
Proof. exact (power_bound_always Hof scale A M iters start). Qed.

(* a concrete M: the dense Frobenius norm (scaled: row i weighted by c_i^2); rows may be unsorted / store a column twice *)
Theorem C08_power_frobenius_operator_bound (scale : bool) (A : crs S) (x : vec S) :
  wf A = true -> nrows A = ncols A -> length x = nrows A ->
  sltb (frob2 scale A * vsq x) (vsq (pm_op scale A x)) = false.
Proof. intros Hwf Hsq. exact (op_bound_frob Hof scale A Hwf Hsq x). Qed.

Theorem C08_power_method_le_frobenius (scale : bool) (A : crs S) (iters : nat) (start : vec S) :
  wf A = true -> nrows A = ncols A -> length start = nrows A ->
  Forall (fun x => sltb (ssqrt x * ssqrt x) x = false) (power_norms scale A iters start) ->
  let r := spectral_radius_power scale A iters start in
  sltb r s0 = false /\ sltb (frob2 scale A) (r * r) = false.
Proof. exact (power_le_frobenius Hof scale A iters start). Qed.

(* the exact-arithmetic oracle of the tie (r^2 <= ||A||_F^2 t^2, 0 <= r) accepts the model's value for ANY ssqrt *)
Theorem C08_power_oracle_accepts_model (scale : bool) (A : crs S) (iters : nat) (start : vec S) :
  wf A = true -> nrows A = ncols A -> 0 < iters -> length start = nrows A ->
  power_oracle scale A iters start (spectral_radius_power scale A iters start) = true.
Proof. exact (power_oracle_sound Hof scale A iters start). Qed.

(* --- 7b. Gershgorin with Frobenius block norms (value_type = static_matrix<S,b,b>) --- *)
Variable b : nat.
Hypothesis Hb : 0 < b.
Hypothesis adj_id : forall x : S, sadj x = x.        (* real base scalars *)

(* the Frobenius inner product <x,y> = sum_kl x_kl y_kl of blocks: Cauchy-Schwarz and sub-multiplicativity, and
   math::norm of a block is the root of <a,a> *)
Theorem C08_block_frobenius (a x y : BlockS S b) (c : S) :
  sltb (bip S b x x * bip S b y y) (bip S b x y * bip S b x y) = false /\
  sltb (bip S b a a * bip S b x x) (bip S b (a * x) (a * x)) = false /\
  bip S b ((blk_embed S b c : BlockS S b) * x) ((blk_embed S b c : BlockS S b) * x) = c * c * bip S b x x /\
  bnrm S b a = ssqrt (bip S b a a) /\ (sabs a : BlockS S b) = blk_embed S b (bnrm S b a).
Proof.
  exact (conj (bip_cs S b Hb Hof x y) (conj (bip_submult S b Hof a x) (conj (bip_emb S b Hof c x)
        (conj (bnrm_sqrt S b Hb Hof adj_id a) eq_refl)))).
Qed.

(* what spectral_radius<scale>(A, 0) returns at block values, for every thread chunking: the embedded base scalar
   max(0, max_i sum_j ||A_ij||) (scaled: times ||inverse(D_i)||, D_i the last stored diagonal block, identity if none) *)
Theorem C08_block_gershgorin_value (scale : bool) (lens : list nat) (A : crs (BlockS S b)) :
  nrows A <= fold_right Nat.add 0 lens ->
  spectral_radius_gersh scale lens A = blk_embed S b (bgersh_spec S (BlockS S b) (bnrm S b) scale A).
Proof. exact (block_gersh_value S b Hb Hof scale lens A). Qed.

(* THE CLAUSE for block values: a block eigenpair sum_j A_ij v_j = lam v_i (v_i blocks, e.g. b x 1 columns embedded
   by blk_col; lam a base scalar), v <> 0, has |lam| <= the estimate -- provided the root is non-negative and not
   under-estimated at <a,a> for the stored blocks a (blocks_sqrt_ok) *)
Theorem C08_block_gershgorin_bound (A : crs (BlockS S b)) (v : vec (BlockS S b)) (lam : S) :
  wf A = true -> nrows A = ncols A ->
  (forall r e, In r (rows A) -> In e r ->
     sltb (ssqrt (bip S b (snd e) (snd e))) s0 = false /\
     sltb (ssqrt (bip S b (snd e) (snd e)) * ssqrt (bip S b (snd e) (snd e))) (bip S b (snd e) (snd e)) = false) ->
  (forall i, i < nrows A -> Ax A v i = (blk_embed S b lam : BlockS S b) * vget v i) ->
  (exists i, i < nrows A /\ vget v i <> s0) ->
  sltb (bgersh_spec S (BlockS S b) (bnrm S b) false A) (sabs lam) = false.
Proof. exact (block_gersh_bound S b Hb Hof adj_id A v lam). Qed.

(* scaled: eigenpairs of D^-1 A, inverse(D_i) D_i = I, the root also good at <inverse(D_i), inverse(D_i)> *)
Theorem C08_block_gershgorin_bound_scaled (A : crs (BlockS S b)) (v : vec (BlockS S b)) (lam : S) :
  wf A = true -> nrows A = ncols A -> blocks_sqrt_ok S b A ->
  (forall i, i < nrows A -> sinv (Gersh.last_diag A i) * Gersh.last_diag A i = s1 /\
                            sqrt_ok2 S (bip S b (sinv (Gersh.last_diag A i)) (sinv (Gersh.last_diag A i)))) ->
  (forall i, i < nrows A -> Ax A v i = Gersh.last_diag A i * ((blk_embed S b lam : BlockS S b) * vget v i)) ->
  (exists i, i < nrows A /\ vget v i <> s0) ->
  sltb (bgersh_spec S (BlockS S b) (bnrm S b) true A) (sabs lam) = false.
Proof. exact (block_gersh_bound_scaled S b Hb Hof adj_id A v lam). Qed.
End SpectralRadius.
Print Assumptions C08_cauchy_schwarz.
Print Assumptions C08_power_sweep.
Print Assumptions C08_power_operator_dense.
Print Assumptions C08_power_sweep_bound.
Print Assumptions C08_power_method_bound.
Print Assumptions C08_power_method_bound_dense.
Print Assumptions C08_power_method_bound_any_root.
Print Assumptions C08_power_frobenius_operator_bound.
Print Assumptions C08_power_method_le_frobenius.
Print Assumptions C08_power_oracle_accepts_model.
Print Assumptions C08_block_frobenius.
Print Assumptions C08_block_gershgorin_value.
Print Assumptions C08_block_gershgorin_bound.
Print Assumptions C08_block_gershgorin_bound_scaled.

(* the abstract form behind 7b: any non-commutative ring B with a symmetric bilinear positive inner product into an
   ordered field that satisfies Cauchy-Schwarz, is sub-multiplicative and scales with embedded base scalars;
   n = nrm a only has to satisfy 0 <= n and <a,a> <= n^2 on the stored entries *)
Theorem C08_normed_gershgorin_bound (S0 B : Scalar) (Hof : ordfield_theory S0) (Hnc : ncring_theory B)
  (ip : B -> B -> S0) (emb : S0 -> B) (nrm : B -> S0)
  (ip_add_l : forall x y z : B, ip (x + y) z = ip x z + ip y z) (ip_sym : forall x y : B, ip x y = ip y x)
  (ip_nonneg : forall x : B, sle s0 (ip x x)) (ip_zero : forall x : B, ip x x = s0 -> x = s0)
  (ip_cs : forall x y : B, sle (ip x y * ip x y) (ip x x * ip y y))
  (ip_submult : forall a x : B, sle (ip (a * x) (a * x)) (ip a a * ip x x))
  (ip_emb : forall (c : S0) (x : B), ip (emb c * x) (emb c * x) = c * c * ip x x)
  (A : crs B) (v : vec B) (lam : S0) :
  wf A = true -> nrows A = ncols A -> stored_ok S0 B ip nrm A ->
  (forall i, i < nrows A -> Ax A v i = emb lam * vget v i) ->
  (exists i, i < nrows A /\ vget v i <> s0) ->
  sle (sabs lam) (bgersh_spec S0 B nrm false A).
Proof. exact (bgersh_bound S0 B Hof Hnc ip emb nrm ip_add_l ip_sym ip_nonneg ip_zero ip_cs ip_submult ip_emb A v lam). Qed.
Print Assumptions C08_normed_gershgorin_bound.

(* --- closed instances at the exact rationals --- *)
Theorem C08_power_method_bound_Qc (scale : bool) (A : crs QcS) (M : QcS) (iters : nat) (start : vec QcS) :
  sle s0 M -> op_bound scale A M -> length start = nrows A ->
  Forall sqrt_ok (power_norms scale A iters start) ->
  let r := spectral_radius_power scale A iters start in sle s0 r /\ sle (r * r) M.
Proof. exact (power_bound_Qc scale A M iters start). Qed.
Print Assumptions C08_power_method_bound_Qc.

Theorem C08_power_oracle_accepts_model_Qc (scale : bool) (A : crs QcS) (iters : nat) (start : vec QcS) :
  wf A = true -> nrows A = ncols A -> 0 < iters -> length start = nrows A ->
  power_oracle scale A iters start (spectral_radius_power scale A iters start) = true.
Proof. exact (power_oracle_sound_Qc scale A iters start). Qed.
Print Assumptions C08_power_oracle_accepts_model_Qc.

(* the eigenpair oracles of the tie: a generated pair that passes the boolean eigenpair check is bounded by the
   specification value (= the model's value by C08_gershgorin_value(_scaled), = the implementation's by the tie) *)
Theorem C08_gershgorin_eigenpair_oracle_Qc (A : crs QcS) (v : vec QcS) (lam : QcS) :
  wf A = true -> nrows A = ncols A ->
  (eig_check A v lam = true -> bound_check (gersh_spec false A) lam = true) /\
  (eig_check_scaled A v lam = true -> bound_check (gersh_spec true A) lam = true).
Proof.
  intros Hwf Hsq. exact (conj (gersh_eig_oracle_Qc A v lam Hwf Hsq) (gersh_eig_oracle_scaled_Qc A v lam Hwf Hsq)).
Qed.
Print Assumptions C08_gershgorin_eigenpair_oracle_Qc.

(* the boolean block eigenpair checks decide the hypotheses of C08_block_gershgorin_bound(_scaled) *)
Theorem C08_block_eigenpair_check_sound (bs : nat) (A : crs (BlockS QcS bs)) (v : vec (BlockS QcS bs)) (lam : QcS) :
  (beig_check QcS (BlockS QcS bs) (blk_embed QcS bs) A v lam = true ->
     (forall i, i < nrows A -> Ax A v i = (blk_embed QcS bs lam : BlockS QcS bs) * vget v i) /\
     (exists i, i < nrows A /\ vget v i <> s0)) /\
  (beig_check_scaled QcS (BlockS QcS bs) (blk_embed QcS bs) A v lam = true ->
     (forall i, i < nrows A -> sinv (Gersh.last_diag A i) * Gersh.last_diag A i = s1) /\
     (forall i, i < nrows A -> Ax A v i = Gersh.last_diag A i * ((blk_embed QcS bs lam : BlockS QcS bs) * vget v i)) /\
     (exists i, i < nrows A /\ vget v i <> s0)).
Proof.
  exact (conj (beig_check_sound QcS (BlockS QcS bs) (blk_embed QcS bs) (BlockS_eqb QcS bs QcS_eqb) A v lam)
              (beig_check_scaled_sound QcS (BlockS QcS bs) (blk_embed QcS bs) (BlockS_eqb QcS bs QcS_eqb) A v lam)).
Qed.
Print Assumptions C08_block_eigenpair_check_sound.

Theorem C08_block_gershgorin_bound_Qc (bs : nat) (A : crs (BlockS QcS bs)) (v : vec (BlockS QcS bs)) (lam : QcS) :
  0 < bs -> wf A = true -> nrows A = ncols A -> blocks_sqrt_ok QcS bs A ->
  (forall i, i < nrows A -> Ax A v i = (blk_embed QcS bs lam : BlockS QcS bs) * vget v i) ->
  (exists i, i < nrows A /\ vget v i <> s0) ->
  forall lens, nrows A <= fold_right Nat.add 0 lens ->
  exists g : QcS, spectral_radius_gersh false lens A = blk_embed QcS bs g /\ sle (sabs lam) g.
Proof.
  intros Hb Hwf Hsq Hok Heig Hnz lens Hl. exists (bgersh_spec QcS (BlockS QcS bs) (bnrm QcS bs) false A).
  exact (conj (block_gersh_value_Qc' bs Hb false lens A Hl) (block_gersh_bound_Qc bs Hb A v lam Hwf Hsq Hok Heig Hnz)).
Qed.
Print Assumptions C08_block_gershgorin_bound_Qc.

(* QcS without ANY hypothesis about roots: the pseudo root (floor root on the 2^-64 grid, shared with vq::Q) is
   non-negative and below the true root by less than 2^-64, so the bound holds for the estimate computed with
   ||a|| + 2^-64 in place of the pseudo norm ||a|| (bnrm_up) -- the inequality the oracle sr.o.bgeig checks *)
Theorem C08_qc_sqrt_grid (x : Qc) : Qcle (Q2Qc 0) x ->
  Qcle (Q2Qc 0) (qc_sqrt x) /\ Qcle x (Qcmult (Qcplus (qc_sqrt x) eps64) (Qcplus (qc_sqrt x) eps64)).
Proof. intro H. exact (conj (qc_sqrt_nonneg x) (qc_sqrt_grid x H)). Qed.
Print Assumptions C08_qc_sqrt_grid.

Theorem C08_block_gershgorin_bound_grid_Qc (bs : nat) (A : crs (BlockS QcS bs)) (v : vec (BlockS QcS bs)) (lam : QcS) :
  0 < bs -> wf A = true -> nrows A = ncols A ->
  ((forall i, i < nrows A -> Ax A v i = (blk_embed QcS bs lam : BlockS QcS bs) * vget v i) ->
   (exists i, i < nrows A /\ vget v i <> s0) ->
   sle (sabs lam) (bgersh_spec QcS (BlockS QcS bs) (bnrm_up bs) false A)) /\
  ((forall i, i < nrows A -> sinv (Gersh.last_diag A i) * Gersh.last_diag A i = s1) ->
   (forall i, i < nrows A -> Ax A v i = Gersh.last_diag A i * ((blk_embed QcS bs lam : BlockS QcS bs) * vget v i)) ->
   (exists i, i < nrows A /\ vget v i <> s0) ->
   sle (sabs lam) (bgersh_spec QcS (BlockS QcS bs) (bnrm_up bs) true A)).
Proof.
  intros Hb Hwf Hsq.
  exact (conj (block_gersh_bound_grid_Qc bs Hb A v lam Hwf Hsq) (block_gersh_bound_grid_scaled_Qc bs Hb A v lam Hwf Hsq)).
Qed.
Print Assumptions C08_block_gershgorin_bound_grid_Qc.

(* --- closed at the real numbers: the statements of the property, with the true square root --- *)
(* "the power-method estimate never exceeds the largest singular value": 0 <= r <= sqrt M for every M >= 0 with
   |T x|^2 <= M |x|^2 for all x; every iteration count, every start vector, both variants *)
Theorem C08_power_method_le_sigma_R (scale : bool) (A : crs RS) (M : R) (iters : nat) (start : vec RS) :
  (0 <= M)%R -> (forall x : vec RS, length x = nrows A -> (vsq (pm_op scale A x) <= M * vsq x)%R) ->
  length start = nrows A ->
  (0 <= spectral_radius_power scale A iters start <= sqrt M)%R.
Proof. exact (power_le_sigma_R scale A M iters start). Qed.
Print Assumptions C08_power_method_le_sigma_R.

Theorem C08_power_method_le_sigma_dense_R (scale : bool) (A : crs RS) (M : R) (iters : nat) (start : vec RS) :
  wf A = true -> (scale = true -> Gersh.has_last_diag A = true) -> (0 <= M)%R ->
  (forall x : vec RS, length x = nrows A ->
     (sumn (fun i => (DinvA scale A x i * DinvA scale A x i)%S) (nrows A) <= M * vsq x)%R) ->
  length start = nrows A ->
  (0 <= spectral_radius_power scale A iters start <= sqrt M)%R.
Proof. exact (power_le_sigma_dense_R scale A M iters start). Qed.
Print Assumptions C08_power_method_le_sigma_dense_R.

Theorem C08_power_method_le_frobenius_R (scale : bool) (A : crs RS) (iters : nat) (start : vec RS) :
  wf A = true -> nrows A = ncols A -> length start = nrows A ->
  (0 <= spectral_radius_power scale A iters start <= sqrt (frob2 scale A))%R.
Proof. exact (power_le_frobenius_R scale A iters start). Qed.
Print Assumptions C08_power_method_le_frobenius_R.

(* "the Gershgorin estimate is an upper bound of the true spectral radius", block values, Frobenius norms *)
Theorem C08_block_gershgorin_bound_R (bs : nat) (A : crs (BlockS RS bs)) (v : vec (BlockS RS bs)) (lam : R) :
  0 < bs -> wf A = true -> nrows A = ncols A ->
  (forall i, i < nrows A -> Ax A v i = (blk_embed RS bs lam : BlockS RS bs) * vget v i) ->
  (exists i, i < nrows A /\ vget v i <> s0) ->
  forall lens, nrows A <= fold_right Nat.add 0 lens ->
  exists g : R, spectral_radius_gersh false lens A = blk_embed RS bs g /\ (Rabs lam <= g)%R.
Proof.
  intros Hb Hwf Hsq Heig Hnz lens Hl. exists (bgersh_spec RS (BlockS RS bs) (bnrm RS bs) false A).
  exact (conj (block_gersh_value_R bs Hb false lens A Hl) (block_gersh_bound_R bs Hb A v lam Hwf Hsq Heig Hnz)).
Qed.
Print Assumptions C08_block_gershgorin_bound_R.

Theorem C08_block_gershgorin_bound_scaled_R (bs : nat) (A : crs (BlockS RS bs)) (v : vec (BlockS RS bs)) (lam : R) :
  0 < bs -> wf A = true -> nrows A = ncols A ->
  (forall i, i < nrows A -> sinv (Gersh.last_diag A i) * Gersh.last_diag A i = s1) ->
  (forall i, i < nrows A -> Ax A v i = Gersh.last_diag A i * ((blk_embed RS bs lam : BlockS RS bs) * vget v i)) ->
  (exists i, i < nrows A /\ vget v i <> s0) ->
  forall lens, nrows A <= fold_right Nat.add 0 lens ->
  exists g : R, spectral_radius_gersh true lens A = blk_embed RS bs g /\ (Rabs lam <= g)%R.
Proof.
  intros Hb Hwf Hsq Hd Heig Hnz lens Hl. exists (bgersh_spec RS (BlockS RS bs) (bnrm RS bs) true A).
  exact (conj (block_gersh_value_R bs Hb true lens A Hl) (block_gersh_bound_scaled_R bs Hb A v lam Hwf Hsq Hd Heig Hnz)).
Qed.
Print Assumptions C08_block_gershgorin_bound_scaled_R.

(* --- non-vacuity: all hypotheses, including the ones on square roots, hold in QcS on perfect dyadic squares --- *)
(* A = 5 x reflection: start (3,4), three sweeps, norms met 25, 25, 25; estimate 3 <= 5 = largest singular value *)
Example C08_power_example :
  (wf exP = true /\ nrows exP = ncols exP /\ length exStart = nrows exP /\
   Forall sqrt_ok (power_norms false exP 3 exStart) /\
   map this (power_norms false exP 3 exStart) = [(25#1)%Q; (25#1)%Q; (25#1)%Q] /\
   spectral_radius_power false exP 3 exStart = qc 3 1 /\ frob2 false exP = qc 50 1) /\
  (op_bound false exP (qc 25 1) /\
   (let r := spectral_radius_power false exP 3 exStart in sle s0 r /\ sle (r * r) (qc 25 1))).
Proof. exact (conj power_example_unscaled power_example_sigma). Qed.

(* scaled: D = diag(4,8), D^-1 A = 5/4 x rotation; norms met 25, 25/16, 25/16 *)
Example C08_power_example_scaled :
  wf exPs = true /\ nrows exPs = ncols exPs /\ length exStart = nrows exPs /\ Gersh.has_last_diag exPs = true /\
  Forall sqrt_ok (power_norms true exPs 3 exStart) /\
  map this (power_norms true exPs 3 exStart) = [(25#1)%Q; (25#16)%Q; (25#16)%Q] /\
  frob2 true exPs = qc 25 8.
Proof. exact power_example_scaled. Qed.

(* 2 x 2 blocks with Frobenius norms 5, 10, 5: block eigenpair (3, (col(3,4), 0)), estimate 15 *)
Example C08_block_gershgorin_example :
  wf exB = true /\ nrows exB = ncols exB /\ blocks_sqrt_ok QcS 2 exB /\
  beig_check QcS (BlockS QcS 2) (blk_embed QcS 2) exB exBv (qc 3 1) = true /\
  bgersh_spec QcS (BlockS QcS 2) (bnrm QcS 2) false exB = qc 15 1 /\
  sle (sabs (qc 3 1 : QcS)) (bgersh_spec QcS (BlockS QcS 2) (bnrm QcS 2) false exB).
Proof. exact block_gersh_example. Qed.
