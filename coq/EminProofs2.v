(* EminProofs2.v -- C04: the dense formulas of smoothed_aggr_emin, proved for the model
   (Coarsen.emin_filter / emin_interpolation / emin_restriction / emin_transfer):
     Omega_j = <(A_F P_t)_j, (A_F D^-1 A_F P_t)_j> / <(A_F D^-1 A_F P_t)_j, (A_F D^-1 A_F P_t)_j>
     P = P_t - D^-1 A_F P_t Omega        R = P_t^T - Omega P_t^T A_F D^-1
   for every tentative operator P_t with strictly sorted rows (the piecewise constant one and the
   near-null-space one), every flag array, under the guards the code relies on: every row of A stores
   its diagonal entry exactly once and the flags cover the row (emin_regular); adjoint = identity (real
   scalars); product() in its spgemm_saad branch (at most 16 threads).
   Only ring laws are used: math::inverse is an uninterpreted function here, so the statement also
   covers zero denominators (x/0 = 0 in the exact build). *)
From Coq Require Import Sorting.Sorted Sorting.Permutation.
From Amgcl Require Import Scalar Vec Crs Kernels KernelsProofs MatOps MatOpsProofs MatOps2 Aggregates Tentative
     Coarsen CoarsenProofs EminProofs.
Local Open Scope S_scope.

Lemma fold_left_map' {X Y Z} (f : Z -> Y -> Z) (g : X -> Y) (l : list X) (a : Z) :
  fold_left f (map g l) a = fold_left (fun a x => f a (g x)) l a.
Proof. revert a. induction l as [|x l IH]; intro a; simpl; [reflexivity|]. apply IH. Qed.

Lemma filter_nil_notin {X} (p : X -> bool) (l : list X) : (forall x, In x l -> p x = false) -> filter p l = [].
Proof.
  induction l as [|a l IH]; intro H; simpl; [reflexivity|].
  rewrite (H a (or_introl eq_refl)). apply IH. intros x Hx. apply H. right. exact Hx.
Qed.

Section Emin.
Variable S : Scalar.
Hypothesis Sft : Sfield S.
Hypothesis Hadj : forall x : S, sadj x = x.
Let Srt : Sring S := F_R Sft.
Add Ring SRingEmin2 : Srt.
Local Notation row := (row S).
Local Notation vec := (vec S).
Local Notation crs := (crs S).

(* ---------------------------------------------------------------- rows of a transpose have distinct columns *)
Lemma filter_col_le1 (r : row) j : NoDup (map fst r) -> length (filter (fun e : nat * S => Nat.eqb (fst e) j) r) <= 1.
Proof.
  induction r as [|e r IH]; intro H; simpl; [lia|]. inversion H as [|? ? Hx Hl]; subst.
  destruct (Nat.eqb_spec (fst e) j) as [E|E]; [|apply IH; exact Hl].
  rewrite filter_nil_notin; [simpl; lia|].
  intros x Hx'. apply Nat.eqb_neq. intro E'. apply Hx. rewrite E, <- E'. apply in_map. exact Hx'.
Qed.

Lemma tr_row_nodup (l : list row) k j : (forall r, In r l -> NoDup (map fst r)) ->
  NoDup (map fst (flat_map (fun ir : nat * row => map (fun e => (fst ir, sadj (snd e)))
                                  (filter (fun e => Nat.eqb (fst e) j) (snd ir)))
                           (combine (seq k (length l)) l))).
Proof.
  revert k. induction l as [|r l IH]; intros k H; simpl; [constructor|].
  pose proof (proj2 (tr_row_sorted l (Datatypes.S k) j)) as HF.
  set (tl := flat_map _ (combine (seq (Datatypes.S k) (length l)) l)) in *.
  assert (Hk : ~ In k (map fst tl)).
  { intro Hin. apply in_map_iff in Hin as (x & Hx & Hin). rewrite Forall_forall in HF. specialize (HF x Hin). lia. }
  assert (Htl : NoDup (map fst tl)) by (apply IH; intros r' Hr'; apply H; right; exact Hr').
  pose proof (filter_col_le1 r j (H r (or_introl eq_refl))) as Hle.
  destruct (filter (fun e : nat * S => Nat.eqb (fst e) j) r) as [|e [|e2 p]]; simpl in *.
  - exact Htl.
  - constructor; assumption.
  - lia.
Qed.

Lemma transpose_rows_nodup (P : crs) j : (forall r, In r (rows P) -> NoDup (map fst r)) ->
  NoDup (map fst (nth j (rows (transpose P)) [])).
Proof.
  intro H. destruct (Nat.ltb_spec j (ncols P)) as [Hj|Hj].
  - unfold transpose. cbn [rows]. rewrite nth_map_seq by exact Hj. apply (tr_row_nodup (rows P) 0 j H).
  - rewrite nth_overflow; [constructor|]. unfold transpose. cbn [rows]. rewrite map_length, seq_length. exact Hj.
Qed.

(* ---------------------------------------------------------------- the setting *)
Variables (nt : nat) (A : crs) (st : flags) (Pt : crs).
Hypothesis Hnt : nt <= 16.
Hypothesis HwfA : wf A = true.
Hypothesis Hsq : ncols A = nrows A.
Hypothesis Hreg : emin_regular A st = true.
Hypothesis HnP : nrows Pt = nrows A.
Hypothesis HsP : forallb sorted_strict (rows Pt) = true.

Let n := nrows A.
Let nc := ncols Pt.
Let Af := fst (emin_filter A st).
Let dia := snd (emin_filter A st).
Let zr (i : nat) := zip_row (nth i (rows A) []) (nth i st []).

Lemma product_saad (X Y : crs) sort : product nt X Y sort = spgemm_saad X Y sort.
Proof. unfold product. replace (Nat.ltb 16 nt) with false by (symmetry; apply Nat.ltb_ge; exact Hnt). reflexivity. Qed.

Lemma reg_row i : i < n ->
  length (filter (fun e : nat * S * bool => Nat.eqb (fst (fst e)) i) (zr i)) = 1%nat /\
  length (zr i) = length (nth i (rows A) []).
Proof.
  intro Hi. unfold emin_regular in Hreg. rewrite forallb_forall in Hreg.
  specialize (Hreg i ltac:(apply in_seq; unfold n in Hi; lia)). cbv zeta in Hreg.
  apply andb_prop in Hreg as [H1 H2]. apply Nat.eqb_eq in H1. apply Nat.eqb_eq in H2. split; assumption.
Qed.

(* --- the filtered matrix *)
Lemma Af_row i : i < n -> nth i (rows Af) [] = emin_frow S i (sa_D A st i) (zr i).
Proof.
  intro Hi. unfold Af, emin_filter. cbn [fst rows].
  set (F := fun ir : nat * row =>
     (flat_map (fun e : nat * S * bool => if Nat.eqb (fst (fst e)) (fst ir) then [(fst ir, sa_dia (fst ir) (zip_row (snd ir) (nth (fst ir) st [])))]
                 else if (snd e : bool) then [fst e] else []) (zip_row (snd ir) (nth (fst ir) st [])),
      sa_dia (fst ir) (zip_row (snd ir) (nth (fst ir) st [])))).
  change (nth i (map fst (map F (indexed (rows A)))) [] = emin_frow S i (sa_D A st i) (zr i)).
  rewrite map_map.
  rewrite (nth_indep _ [] (fst (F (0%nat, [])))) by (rewrite map_length, indexed_length; exact Hi).
  rewrite (map_nth (fun x => fst (F x))), nth_indexed by exact Hi. reflexivity.
Qed.

Lemma Af_nrows : nrows Af = n.
Proof. unfold Af, emin_filter, nrows. cbn [fst rows]. rewrite !map_length. apply indexed_length. Qed.

Lemma Af_ncols : ncols Af = n.
Proof. unfold Af, emin_filter. cbn [fst ncols]. exact Hsq. Qed.

Lemma dia_length : length dia = n.
Proof. unfold dia, emin_filter. cbn [snd]. rewrite !map_length. apply indexed_length. Qed.

Lemma zr_cols i e : i < n -> In e (zr i) -> fst (fst e) < n.
Proof.
  intros Hi He. unfold zr, zip_row in He. destruct e as [[c v] b]. apply in_combine_l in He. cbn [fst].
  unfold wf in HwfA. rewrite forallb_forall in HwfA.
  assert (Hr : row_wf (ncols A) (nth i (rows A) []) = true) by (apply HwfA; apply nth_In; exact Hi).
  unfold row_wf in Hr. rewrite forallb_forall in Hr. specialize (Hr _ He). cbn [fst] in Hr.
  apply Nat.ltb_lt in Hr. unfold n. lia.
Qed.

Lemma Af_row_wf i : i < n -> row_wf n (nth i (rows Af) []) = true.
Proof.
  intro Hi. rewrite Af_row by exact Hi. unfold emin_frow, row_wf. apply forallb_forall. intros x Hx.
  apply in_flat_map in Hx as (e & He & Hx). apply Nat.ltb_lt.
  destruct (Nat.eqb (fst (fst e)) i).
  - destruct Hx as [<-|[]]. exact Hi.
  - destruct (snd e); [|destruct Hx]. destruct Hx as [<-|[]]. apply (zr_cols i e Hi He).
Qed.

Lemma Af_wf : wf Af = true.
Proof.
  unfold wf. apply forallb_forall. intros r Hr. apply (In_nth _ _ []) in Hr as (i & Hi & <-).
  rewrite Af_ncols. apply Af_row_wf. rewrite <- Af_nrows. exact Hi.
Qed.

Lemma Af_diag_in i : i < n -> In i (map fst (nth i (rows Af) [])).
Proof.
  intro Hi. rewrite Af_row by exact Hi. destruct (reg_row i Hi) as [H1 _].
  destruct (filter (fun e : nat * S * bool => Nat.eqb (fst (fst e)) i) (zr i)) as [|e l] eqn:E; [discriminate|].
  assert (He : In e (filter (fun e : nat * S * bool => Nat.eqb (fst (fst e)) i) (zr i))) by (rewrite E; left; reflexivity).
  apply filter_In in He as [He1 He2].
  apply in_map_iff. exists (i, sa_D A st i). split; [reflexivity|].
  unfold emin_frow. apply in_flat_map. exists e. split; [exact He1|]. rewrite He2. left. reflexivity.
Qed.

Lemma Af_dense i k : i < n -> mget Af i k = sa_AF A st i k.
Proof. intro Hi. exact (proj1 (emin_filter_dense S Sft A st i k Hi (proj1 (reg_row i Hi)))). Qed.

Lemma dia_dense i : i < n -> vget dia i = sa_D A st i.
Proof. intro Hi. exact (proj2 (emin_filter_dense S Sft A st i 0%nat Hi (proj1 (reg_row i Hi)))). Qed.

(* --- a sorted product X * Y (saad, sort = true) *)
Lemma prod_row (X Y : crs) i : nth i (rows (product nt X Y true)) [] = sort_row (spgemm_row (nth i (rows X) []) Y).
Proof.
  rewrite product_saad. unfold spgemm_saad. cbn [rows].
  apply (nth_map_nil (fun ra => sort_row (spgemm_row ra Y))). reflexivity.
Qed.

Lemma prod_row_sorted (X Y : crs) i : sorted_strict (nth i (rows (product nt X Y true)) []) = true.
Proof. rewrite prod_row. apply (out_row_sorted (spgemm_row (nth i (rows X) []) Y)). apply spgemm_row_nodup. Qed.

Lemma prod_dense (X Y : crs) i j : wf X = true -> i < nrows X ->
  mget (product nt X Y true) i j = sumn (fun k => mget X i k * mget Y k j) (ncols X).
Proof. intros HX Hi. rewrite product_saad. apply (spgemm_saad_dense Srt); assumption. Qed.

Lemma prod_pattern (X Y : crs) i k c :
  In k (map fst (nth i (rows X) [])) -> In c (map fst (nth k (rows Y) [])) ->
  In c (map fst (nth i (rows (product nt X Y true)) [])).
Proof.
  intros Hk Hc. rewrite prod_row. apply In_sort_row. apply in_map_iff in Hk as (e & <- & He).
  exact (In_spgemm_row S (nth i (rows X) []) Y e c He Hc).
Qed.

(* --- AP = A_F * P_t *)
Let AP := product nt Af Pt true.

Lemma AP_dense i j : i < n -> mget AP i j = emin_AP A st Pt i j.
Proof.
  intro Hi. unfold AP. rewrite prod_dense by (try apply Af_wf; rewrite Af_nrows; exact Hi).
  rewrite Af_ncols. unfold emin_AP. fold n. apply sumn_ext. intros k Hk. rewrite Af_dense by exact Hi. reflexivity.
Qed.

Lemma AP_shape : nrows AP = n /\ ncols AP = nc.
Proof. unfold AP. rewrite product_saad. destruct (spgemm_saad_shape Af Pt true) as [H1 H2]. rewrite H1, H2, Af_nrows. auto. Qed.

Lemma Pt_row_sorted k : sorted_strict (nth k (rows Pt) []) = true.
Proof.
  destruct (Nat.ltb_spec k (length (rows Pt))) as [H|H].
  - apply (forallb_nth sorted_strict (rows Pt) k [] HsP H).
  - rewrite nth_overflow by exact H. reflexivity.
Qed.

(* --- rows of A_F D^-1 AP *)
Definition adap_coef (ia : nat) : row := map (fun a => (fst a, sinv (vget dia (fst a)) * snd a)) (nth ia (rows Af) []).

Lemma adap_row_eq ia : emin_adap_row Af dia AP ia = sort_row (spgemm_row (adap_coef ia) AP).
Proof.
  unfold emin_adap_row, spgemm_row, adap_coef. f_equal.
  rewrite fold_left_map'. reflexivity.
Qed.

Lemma adap_sorted ia : sorted_strict (emin_adap_row Af dia AP ia) = true.
Proof. rewrite adap_row_eq. apply (out_row_sorted (spgemm_row (adap_coef ia) AP)). apply spgemm_row_nodup. Qed.

Lemma adap_dense ia c : ia < n -> rget (emin_adap_row Af dia AP ia) c = emin_ADAP A st Pt ia c.
Proof.
  intro Hi. rewrite adap_row_eq, (rget_sort_row Srt), (rget_spgemm_row Srt).
  rewrite (row_lin_dense Srt _ AP c n).
  2:{ unfold adap_coef. pose proof (Af_row_wf ia Hi) as Hw. unfold row_wf in *. rewrite forallb_forall in *.
      intros x Hx. apply in_map_iff in Hx as (a & <- & Ha). cbn [fst]. apply Hw. exact Ha. }
  unfold emin_ADAP. fold n. apply sumn_ext. intros k Hk.
  unfold adap_coef. rewrite (rget_map_colscale S Srt (fun c => sinv (vget dia c))).
  fold (mget Af ia k). rewrite Af_dense by exact Hi. rewrite dia_dense by exact Hk. rewrite AP_dense by exact Hk. ring.
Qed.

(* --- omega *)
Definition sq_row (r : row) : row := map (fun e => (fst e, snd e * snd e)) r.

Lemma rget_sq_row (r : row) c : NoDup (map fst r) -> rget (sq_row r) c = rget r c * rget r c.
Proof.
  intro Hnd. unfold sq_row. destruct (in_dec Nat.eq_dec c (map fst r)) as [Hin|Hin].
  - exact (rget_map_in S Srt (fun _ v => v * v) r c Hnd Hin).
  - rewrite (rget_map_notin S Srt (fun _ v => v * v) r c Hin), (rget_notin Srt r c Hin). ring.
Qed.

Lemma fold_sq_rows (R : nat -> row) (l : list nat) (v : vec) :
  fold_left (fun d ia => fold_left (fun d e => vadd_at d (fst e) (snd e * snd e)) (R ia) d) l v
  = fold_left (fun d ia => fold_left (fun d e => vadd_at d (fst e) (snd e)) (sq_row (R ia)) d) l v.
Proof.
  revert v. induction l as [|ia l IH]; intro v; simpl; [reflexivity|]. rewrite IH. f_equal.
  unfold sq_row. rewrite fold_left_map'. reflexivity.
Qed.

Let omega := emin_omega Af dia AP (nrows Pt) (ncols Pt).

Lemma omega_dense j : j < nc -> vget omega j = emin_omega_spec A st Pt j.
Proof.
  intro Hj. unfold omega, emin_omega.
  rewrite (fold_pair (fun ia om => fold_left (fun om e => vadd_at om (fst e) (snd e)) (join_prod (nth ia (rows AP) []) (emin_adap_row Af dia AP ia)) om)
                     (fun ia d => fold_left (fun d e => vadd_at d (fst e) (snd e * snd e)) (emin_adap_row Af dia AP ia) d)).
  cbn [fst snd].
  rewrite (fold_sq_rows (fun ia => emin_adap_row Af dia AP ia)).
  assert (Hz : j < length (vzero (ncols Pt) : vec)) by (unfold vzero; rewrite repeat_length; exact Hj).
  rewrite vget_map2 by (rewrite (fold_rows_vadd_length S); exact Hz).
  rewrite !(vget_fold_rows_vadd S Srt) by exact Hz. rewrite !(vget_vzero S). rewrite HnP. fold n.
  unfold emin_omega_spec. fold n.
  assert (E1 : s0 + sumn (fun ia => rget (sq_row (emin_adap_row Af dia AP ia)) j) n
               = sumn (fun i => emin_ADAP A st Pt i j * emin_ADAP A st Pt i j) n).
  { transitivity (sumn (fun ia => rget (sq_row (emin_adap_row Af dia AP ia)) j) n); [ring|].
    apply sumn_ext. intros ia Hia. rewrite rget_sq_row by (apply (sorted_strict_NoDup S), adap_sorted).
    rewrite adap_dense by exact Hia. reflexivity. }
  assert (E2 : s0 + sumn (fun ia => rget (join_prod (nth ia (rows AP) []) (emin_adap_row Af dia AP ia)) j) n
               = sumn (fun i => emin_AP A st Pt i j * emin_ADAP A st Pt i j) n).
  { transitivity (sumn (fun ia => rget (join_prod (nth ia (rows AP) []) (emin_adap_row Af dia AP ia)) j) n); [ring|].
    apply sumn_ext. intros ia Hia.
    rewrite (rget_join_prod S Srt) by (try apply adap_sorted; unfold AP; apply prod_row_sorted).
    rewrite adap_dense by exact Hia. fold (mget AP ia j). rewrite AP_dense by exact Hia. reflexivity. }
  rewrite E1, E2. reflexivity.
Qed.

(* --- P = P_t - D^-1 A_F P_t Omega *)
Theorem emin_P_formula i j : i < n -> j < nc ->
  mget (fst (emin_interpolation nt Af dia Pt)) i j = emin_P_spec A st Pt i j.
Proof.
  intros Hi Hj. unfold emin_interpolation. cbv zeta. cbn [fst]. fold AP. fold omega.
  unfold mget at 1. cbn [rows].
  rewrite (nth_indep _ [] ((fun ir : nat * row => emin_upd_row (fun ca v => (- sinv (vget dia (fst ir))) * v * vget omega ca) (snd ir)
                              (nth (fst ir) (rows Pt) [])) (0%nat, [])))
    by (rewrite map_length, indexed_length; fold (nrows AP); rewrite (proj1 AP_shape); exact Hi).
  rewrite (map_nth (fun ir : nat * row => emin_upd_row (fun ca v => (- sinv (vget dia (fst ir))) * v * vget omega ca) (snd ir)
                              (nth (fst ir) (rows Pt) []))).
  rewrite nth_indexed by (fold (nrows AP); rewrite (proj1 AP_shape); exact Hi). cbn [fst snd].
  rewrite (rget_emin_upd_row S Srt) by (try apply Pt_row_sorted; unfold AP; apply prod_row_sorted).
  unfold emin_P_spec. rewrite <- (AP_dense i j Hi). rewrite <- (omega_dense j Hj). rewrite <- (dia_dense i Hi).
  destruct (existsb (Nat.eqb j) (map fst (nth i (rows AP) []))) eqn:E.
  - fold (mget AP i j). fold (mget Pt i j). reflexivity.
  - assert (Hn : ~ In j (map fst (nth i (rows AP) []))).
    { intro Hin. assert (existsb (Nat.eqb j) (map fst (nth i (rows AP) [])) = true)
        by (apply existsb_exists; exists j; split; [exact Hin|apply Nat.eqb_refl]). congruence. }
    assert (Hp : ~ In j (map fst (nth i (rows Pt) []))).
    { intro Hin. apply Hn. unfold AP. apply (prod_pattern Af Pt i i j); [apply Af_diag_in; exact Hi|exact Hin]. }
    unfold mget. rewrite (rget_notin Srt _ j Hn), (rget_notin Srt _ j Hp). ring.
Qed.

(* --- R = P_t^T - Omega P_t^T A_F D^-1 *)
Let Rt := sort_rows (transpose Pt).
Let RA := product nt Rt Af true.

Lemma Rt_shape : nrows Rt = nc /\ ncols Rt = n.
Proof.
  unfold Rt. destruct (sort_rows_shape (transpose Pt)) as [H1 H2]. destruct (transpose_shape Pt) as [H3 H4].
  rewrite H1, H2, H3, H4. split; [reflexivity|exact HnP].
Qed.

Lemma Rt_wf : wf Rt = true.
Proof. unfold Rt. apply sort_rows_wf. apply transpose_wf. Qed.

Lemma Rt_row_sorted j : sorted_strict (nth j (rows Rt) []) = true.
Proof.
  change (sorted_strict (nth j (map sort_row (rows (transpose Pt))) []) = true).
  rewrite (nth_map_nil (X:=nat * S) sort_row) by reflexivity.
  apply SS_nodup_sorted_strict; [apply sort_row_SS|]. apply sort_row_nodup. apply transpose_rows_nodup.
  intros r Hr. apply (sorted_strict_NoDup S). rewrite forallb_forall in HsP. apply HsP. exact Hr.
Qed.

Lemma Rt_dense j k : j < nc -> mget Rt j k = mget Pt k j.
Proof.
  intro Hj. unfold Rt. rewrite (sort_rows_dense Srt).
  rewrite (transpose_dense Srt) by (try exact Hj; intros; rewrite !Hadj; reflexivity). apply Hadj.
Qed.

Lemma RA_dense j i : j < nc -> mget RA j i = emin_RA A st Pt j i.
Proof.
  intro Hj. unfold RA. rewrite prod_dense by (try apply Rt_wf; rewrite (proj1 Rt_shape); exact Hj).
  rewrite (proj2 Rt_shape). unfold emin_RA. fold n. apply sumn_ext. intros k Hk.
  rewrite Rt_dense by exact Hj. rewrite Af_dense by exact Hk. reflexivity.
Qed.

Lemma RA_shape : nrows RA = nc /\ ncols RA = n.
Proof.
  unfold RA. rewrite product_saad. destruct (spgemm_saad_shape Rt Af true) as [H1 H2].
  rewrite H1, H2, (proj1 Rt_shape), Af_ncols. auto.
Qed.

Theorem emin_R_formula j i : j < nc -> i < n ->
  mget (emin_restriction nt Af dia Pt omega) j i = emin_R_spec A st Pt j i.
Proof.
  intros Hj Hi. unfold emin_restriction. cbv zeta. fold Rt. fold RA.
  unfold mget at 1. cbn [rows].
  rewrite (nth_indep _ [] ((fun ir : nat * row => emin_upd_row (fun ca v => (- vget omega (fst ir)) * sinv (vget dia ca) * v) (snd ir)
                              (nth (fst ir) (rows Rt) [])) (0%nat, [])))
    by (rewrite map_length, indexed_length; fold (nrows RA); rewrite (proj1 RA_shape); exact Hj).
  rewrite (map_nth (fun ir : nat * row => emin_upd_row (fun ca v => (- vget omega (fst ir)) * sinv (vget dia ca) * v) (snd ir)
                              (nth (fst ir) (rows Rt) []))).
  rewrite nth_indexed by (fold (nrows RA); rewrite (proj1 RA_shape); exact Hj). cbn [fst snd].
  rewrite (rget_emin_upd_row S Srt) by (try apply Rt_row_sorted; unfold RA; apply prod_row_sorted).
  unfold emin_R_spec. rewrite <- (RA_dense j i Hj). rewrite <- (omega_dense j Hj). rewrite <- (dia_dense i Hi).
  rewrite <- (Rt_dense j i Hj).
  destruct (existsb (Nat.eqb i) (map fst (nth j (rows RA) []))) eqn:E.
  - fold (mget RA j i). fold (mget Rt j i). reflexivity.
  - assert (Hn : ~ In i (map fst (nth j (rows RA) []))).
    { intro Hin. assert (existsb (Nat.eqb i) (map fst (nth j (rows RA) [])) = true)
        by (apply existsb_exists; exists i; split; [exact Hin|apply Nat.eqb_refl]). congruence. }
    assert (Hp : ~ In i (map fst (nth j (rows Rt) []))).
    { intro Hin. apply Hn. unfold RA. apply (prod_pattern Rt Af j i i); [exact Hin|apply Af_diag_in; exact Hi]. }
    unfold mget. rewrite (rget_notin Srt _ i Hn), (rget_notin Srt _ i Hp). ring.
Qed.

End Emin.

(* ---------------------------------------------------------------- the policy: transfer_operators() *)
Section EminTransfer.
Variable S : Scalar.
Hypothesis Sft : Sfield S.
Hypothesis Seqb : seqb_spec S.
Hypothesis Hadj : forall x : S, sadj x = x.

Lemma tentative_rows_sorted naggr id : forallb sorted_strict (rows (tentative_prolongation (S:=S) naggr id)) = true.
Proof.
  unfold tentative_prolongation. cbn [rows]. apply forallb_forall. intros r Hr.
  apply in_map_iff in Hr as (a & <- & _). unfold tentative_row. destruct (Z.leb 0 a); reflexivity.
Qed.

Lemma tentative_wf naggr id : (forall a, In a id -> (a < Z.of_nat naggr)%Z) -> wf (tentative_prolongation (S:=S) naggr id) = true.
Proof.
  intro H. unfold wf, tentative_prolongation. cbn [rows ncols]. apply forallb_forall. intros r Hr.
  apply in_map_iff in Hr as (a & <- & Ha). unfold tentative_row.
  destruct (Z.leb_spec 0 a); [|reflexivity]. simpl. rewrite andb_true_r. apply Nat.ltb_lt. specialize (H a Ha). lia.
Qed.

(* for every P_t with strictly sorted rows *)
Theorem emin_formulas_hold nt (A : crs S) (st : flags) (Pt : crs S) :
  nt <= 16 -> wf A = true -> ncols A = nrows A -> emin_regular A st = true ->
  nrows Pt = nrows A -> forallb sorted_strict (rows Pt) = true ->
  let fd := emin_filter A st in
  let po := emin_interpolation nt (fst fd) (snd fd) Pt in
  let P := fst po in
  let R := emin_restriction nt (fst fd) (snd fd) Pt (snd po) in
  forall i j, i < nrows A -> j < ncols Pt ->
    mget P i j = emin_P_spec A st Pt i j /\ mget R j i = emin_R_spec A st Pt j i.
Proof.
  intros Hnt HwfA Hsq Hreg HnP HsP fd po P R i j Hi Hj. split.
  - exact (emin_P_formula S Sft nt A st Pt Hnt HwfA Hsq Hreg HnP HsP i j Hi Hj).
  - exact (emin_R_formula S Sft Hadj nt A st Pt Hnt HwfA Hsq Hreg HnP HsP j i Hj Hi).
Qed.

(* the boolean oracle evaluated on the implementation's outputs is implied by the formulas *)
Theorem emin_oracle_complete nt (A : crs S) (st : flags) (Pt : crs S) :
  nt <= 16 -> wf A = true -> ncols A = nrows A ->
  nrows Pt = nrows A -> forallb sorted_strict (rows Pt) = true ->
  let fd := emin_filter A st in
  let po := emin_interpolation nt (fst fd) (snd fd) Pt in
  emin_formula_ok A st Pt (fst po) (emin_restriction nt (fst fd) (snd fd) Pt (snd po)) = true.
Proof.
  intros Hnt HwfA Hsq HnP HsP fd po. unfold emin_formula_ok.
  destruct (emin_regular A st) eqn:Hreg; [|reflexivity]. cbn [negb orb].
  apply forallb_forall. intros i Hi. apply in_seq in Hi. apply forallb_forall. intros j Hj. apply in_seq in Hj.
  destruct (emin_formulas_hold nt A st Pt Hnt HwfA Hsq Hreg HnP HsP i j ltac:(lia) ltac:(lia)) as [E1 E2].
  apply andb_true_iff. split; apply Seqb; assumption.
Qed.

(* transfer_operators(): P and R of the policy satisfy the formulas with P_t = the tentative prolongation of
   the aggregates the policy computed *)
Theorem emin_transfer_formulas nt (eps2 : S) bs (A : crs S) junk P R :
  emin_transfer nt eps2 bs A junk = TrOk P R ->
  exists count id st,
    pointwise_aggregates eps2 bs 0 A junk = AggOk count id st /\
    (nt <= 16 -> wf A = true -> ncols A = nrows A -> emin_regular A st = true -> length id = nrows A ->
     let Pt := tentative_prolongation count id in
     forall i j, i < nrows A -> j < count ->
       mget P i j = emin_P_spec A st Pt i j /\ mget R j i = emin_R_spec A st Pt j i).
Proof.
  unfold emin_transfer. destruct (pointwise_aggregates eps2 bs 0 A junk) as [| |count id st] eqn:E; try discriminate.
  intro H. injection H as <- <-. exists count, id, st. split; [reflexivity|].
  intros Hnt HwfA Hsq Hreg HL i j Hi Hj.
  apply (emin_formulas_hold nt A st (tentative_prolongation count id) Hnt HwfA Hsq Hreg); try assumption.
  - rewrite tentative_nrows. exact HL.
  - apply tentative_rows_sorted.
Qed.

(* block_size = 1: the aggregates are those of plain_aggregates; no side condition on the ids is left *)
Theorem emin_transfer_formulas_scalar nt (eps2 : S) (A : crs S) junk P R :
  emin_transfer nt eps2 1 A junk = TrOk P R ->
  exists count id st,
    plain_aggregates eps2 A junk = AggOk count id st /\
    (nt <= 16 -> wf A = true -> ncols A = nrows A -> emin_regular A st = true ->
     let Pt := tentative_prolongation count id in
     forall i j, i < nrows A -> j < count ->
       mget P i j = emin_P_spec A st Pt i j /\ mget R j i = emin_R_spec A st Pt j i).
Proof.
  intro H. destruct (emin_transfer_formulas nt eps2 1 A junk P R H) as (count & id & st & E & HF).
  unfold pointwise_aggregates in E. cbn [Nat.eqb] in E.
  destruct (plain_aggregates eps2 A junk) as [| |c0 id0 st0] eqn:EP; try discriminate.
  unfold remove_small in E. cbn [Nat.leb fst snd] in E. injection E as <- <- <-.
  exists c0, id0, st0. split; [reflexivity|].
  intros Hnt HwfA Hsq Hreg. apply HF; try assumption.
  destruct (plain_aggregates_partition eps2 A junk c0 id0 st0 EP) as (_ & _ & (HL & _)). exact HL.
Qed.

End EminTransfer.
