(* Ilu0Exact.v -- "ILU(0) reproduces A on the pattern of A" for the executable
   model [ilu0] of Ilu.v (amgcl/relaxation/ilu0.hpp:92-207).

   Architecture.
   1. generic row lemmas: on a row with pairwise distinct columns the pointer
      semantics ([get_last]/[upd_last]) coincides with the dense semantics [rget];
   2. flat view of the work row: [x0_wflat i w = wL w ++ (i, wd w) :: wU w]; every
      [wupd] is an [upd_last] on the flat row, so the elimination of row i is a
      fold of [x0_fstep] over the strictly-lower entries of the row;
   3. row invariant [x0_Inv m fl] ("all pivot columns < m are eliminated");
   4. row result [x0_row_spec]; 5. induction over the rows [x0_rows_inv]. *)
From Coq Require Import ZifyBool.
From Amgcl Require Import Scalar Vec Crs Kernels KernelsProofs MatOps Relax Ilu.
Local Open Scope S_scope.

Section Exact.
Context {S : Scalar}.
Hypothesis Sft : Sfield S.
Hypothesis Seqb : seqb_spec S.
Add Field SField : Sft.
Local Notation Srt := (F_R Sft).
Local Notation row := (row S).
Local Notation vec := (vec S).
Local Notation crs := (crs S).

(* ------------------------------------------------------------------ *)
(* field facts                                                         *)
Lemma x0_inv_neq0 (x : S) : x <> s0 -> sinv x <> s0.
Proof.
  intros Hx E. pose proof (Finv_l Sft x Hx) as H1. rewrite E in H1.
  apply (F_1_neq_0 Sft). rewrite <- H1. ring.
Qed.

Lemma x0_inv_inv (x : S) : x <> s0 -> sinv (sinv x) = x.
Proof.
  intros Hx. pose proof (Finv_l Sft x Hx) as H1.
  pose proof (Finv_l Sft _ (x0_inv_neq0 x Hx)) as H3.
  transitivity (sinv (sinv x) * (sinv x * x)); [rewrite H1; ring|].
  replace (sinv (sinv x) * (sinv x * x)) with ((sinv (sinv x) * sinv x) * x) by ring.
  rewrite H3. ring.
Qed.

Lemma x0_is_zero_false (x : S) : is_zero x = false -> x <> s0.
Proof.
  intros H E. unfold is_zero in H. apply (Seqb x s0) in E. congruence.
Qed.

(* ------------------------------------------------------------------ *)
(* 1. generic row lemmas                                               *)
Lemma x0_has_col_cons c (e : nat * S) (r : row) :
  has_col c (e :: r) = (fst e =? c) || has_col c r.
Proof. reflexivity. Qed.

Lemma x0_has_col_app c (r1 r2 : row) : has_col c (r1 ++ r2) = has_col c r1 || has_col c r2.
Proof. apply existsb_app. Qed.

Lemma x0_has_col_map c (r1 : row) : forall r2 : row,
  map fst r1 = map fst r2 -> has_col c r1 = has_col c r2.
Proof.
  induction r1 as [|e r1 IH]; intros [|e2 r2] H; simpl in H; try discriminate; auto.
  inversion H as [[H1 H2]]. rewrite !x0_has_col_cons, H1. f_equal. auto.
Qed.

Lemma x0_has_col_In c (r : row) : has_col c r = true <-> In c (map fst r).
Proof.
  induction r as [|e r IH]; simpl; [split; [discriminate|tauto]|].
  fold (has_col c r). rewrite orb_true_iff, IH, Nat.eqb_eq. tauto.
Qed.

Lemma x0_has_col_false c (r : row) : (forall e, In e r -> fst e <> c) -> has_col c r = false.
Proof.
  intro H. destruct (has_col c r) eqn:E; auto.
  apply x0_has_col_In, in_map_iff in E as (e & E1 & E2). exfalso. exact (H e E2 E1).
Qed.

Lemma x0_rget_absent c (r : row) : has_col c r = false -> rget r c = s0.
Proof.
  induction r as [|e r IH]; intro H; [reflexivity|].
  rewrite x0_has_col_cons in H. apply orb_false_elim in H as [H1 H2].
  rewrite (rget_cons Srt), H1, IH by auto. ring.
Qed.

Lemma x0_rget_app (r1 r2 : row) j : rget (r1 ++ r2) j = rget r1 j + rget r2 j.
Proof.
  induction r1 as [|e r1 IH]; simpl.
  - rewrite rget_nil. ring.
  - rewrite !(rget_cons Srt), IH. ring.
Qed.

Lemma x0_map_fst_upd_last c f (r : row) : map fst (upd_last c f r) = map fst r.
Proof.
  induction r as [|e r IH]; simpl; auto.
  destruct (has_col c r); [simpl; f_equal; auto|].
  destruct (fst e =? c); reflexivity.
Qed.

Lemma x0_upd_last_absent c f (r : row) : has_col c r = false -> upd_last c f r = r.
Proof.
  induction r as [|e r IH]; simpl; auto. intro H.
  apply orb_false_elim in H as [H1 H2]. fold (has_col c r) in H2. rewrite H2, H1. reflexivity.
Qed.

Lemma x0_upd_last_app c f (l1 l2 : row) :
  upd_last c f (l1 ++ l2) =
  if has_col c l2 then l1 ++ upd_last c f l2 else upd_last c f l1 ++ l2.
Proof.
  induction l1 as [|e l1 IH]; simpl.
  - destruct (has_col c l2) eqn:E; [reflexivity|]. apply x0_upd_last_absent; auto.
  - rewrite x0_has_col_app, IH. destruct (has_col c l2) eqn:E2.
    + rewrite orb_true_r. reflexivity.
    + rewrite orb_false_r. destruct (has_col c l1); [reflexivity|].
      destruct (fst e =? c); reflexivity.
Qed.

Lemma x0_rget_upd_last_other c f (r : row) j : j <> c -> rget (upd_last c f r) j = rget r j.
Proof.
  intro H. induction r as [|e r IH]; simpl; auto.
  destruct (has_col c r).
  - rewrite !(rget_cons Srt), IH; auto.
  - destruct (Nat.eqb_spec (fst e) c) as [E|E]; auto.
    rewrite !(rget_cons Srt). simpl.
    destruct (Nat.eqb_spec (fst e) j); [lia|reflexivity].
Qed.

Lemma x0_rget_upd_last_same c f (r : row) :
  NoDup (map fst r) -> has_col c r = true -> rget (upd_last c f r) c = f (rget r c).
Proof.
  induction r as [|e r IH]; intros Hnd Hc; [discriminate|].
  rewrite x0_has_col_cons in Hc. simpl in Hnd. inversion Hnd as [|? ? Hnin Hnd']; subst.
  simpl. destruct (has_col c r) eqn:Hcr.
  - assert (Hne : fst e <> c).
    { intro E; subst c. apply Hnin. apply x0_has_col_In. exact Hcr. }
    rewrite !(rget_cons Srt), IH by auto.
    destruct (Nat.eqb_spec (fst e) c); [contradiction|].
    replace (s0 + rget r c) with (rget r c) by ring. ring.
  - rewrite orb_false_r in Hc. rewrite Hc. rewrite !(rget_cons Srt). simpl. rewrite Hc.
    rewrite (x0_rget_absent c r Hcr).
    replace (snd e + s0) with (snd e) by ring. ring.
Qed.

Lemma x0_get_last_none c (r : row) : has_col c r = false -> get_last c r = None.
Proof.
  induction r as [|e r IH]; simpl; auto. intro H.
  apply orb_false_elim in H as [H1 H2]. fold (has_col c r) in H2.
  rewrite IH, H1 by auto. reflexivity.
Qed.

Lemma x0_get_last_rget c (r : row) : NoDup (map fst r) ->
  match get_last c r with Some v => v | None => s0 end = rget r c.
Proof.
  induction r as [|e r IH]; intros Hnd; [reflexivity|].
  simpl in Hnd. inversion Hnd as [|? ? Hnin Hnd']; subst. specialize (IH Hnd').
  simpl. rewrite (rget_cons Srt).
  destruct (has_col c r) eqn:Hcr.
  - assert (Hne : fst e <> c).
    { intro E; subst c. apply Hnin. apply x0_has_col_In. exact Hcr. }
    destruct (Nat.eqb_spec (fst e) c); [contradiction|].
    destruct (get_last c r); rewrite <- IH; ring.
  - rewrite (x0_get_last_none c r Hcr). rewrite (x0_rget_absent c r Hcr).
    destruct (fst e =? c); ring.
Qed.

Lemma x0_rget_drop_zeros (r : row) j : rget (drop_zeros r) j = rget r j.
Proof.
  induction r as [|e r IH]; [reflexivity|]. simpl.
  destruct (is_zero (snd e)) eqn:Z; simpl.
  - rewrite (rget_cons Srt), IH. rewrite (is_zero_true Seqb _ Z).
    destruct (fst e =? j); ring.
  - rewrite !(rget_cons Srt), IH. reflexivity.
Qed.

Lemma x0_drop_zeros_In (r : row) e : In e (drop_zeros r) -> In e r.
Proof. unfold drop_zeros. intro H. apply filter_In in H. tauto. Qed.

(* sortedness *)
Lemma x0_sorted_cons_inv (tl : row) : forall e : nat * S,
  sorted_strict (e :: tl) = true ->
  sorted_strict tl = true /\ forall e', In e' tl -> fst e < fst e'.
Proof.
  induction tl as [|e2 tl IH]; intros e H.
  - split; [reflexivity|intros ? []].
  - change (sorted_strict (e :: e2 :: tl)) with ((fst e <? fst e2) && sorted_strict (e2 :: tl)) in H.
    apply andb_prop in H as [H1 H2]. split; [exact H2|].
    destruct (IH e2 H2) as [_ H3]. apply Nat.ltb_lt in H1.
    intros e' [<-|Hin]; [exact H1|]. specialize (H3 e' Hin). lia.
Qed.

Lemma x0_sorted_app_l (l1 l2 : row) : sorted_strict (l1 ++ l2) = true -> sorted_strict l1 = true.
Proof.
  induction l1 as [|e l1 IH]; intro H; [reflexivity|].
  destruct l1 as [|e2 l1]; [reflexivity|].
  change (sorted_strict ((e :: e2 :: l1) ++ l2))
    with ((fst e <? fst e2) && sorted_strict ((e2 :: l1) ++ l2)) in H.
  apply andb_prop in H as [H1 H2].
  change (sorted_strict (e :: e2 :: l1)) with ((fst e <? fst e2) && sorted_strict (e2 :: l1)).
  rewrite H1, IH; auto.
Qed.

Lemma x0_sorted_NoDup (r : row) : sorted_strict r = true -> NoDup (map fst r).
Proof.
  induction r as [|e r IH]; intro H; simpl; [constructor|].
  destruct (x0_sorted_cons_inv r e H) as [H1 H2]. constructor; auto.
  intro Hin. apply in_map_iff in Hin as (e' & E1 & E2). specialize (H2 e' E2). lia.
Qed.

Lemma x0_sorted_split i (r : row) : sorted_strict r = true -> has_col i r = true ->
  exists Lp d Up, r = Lp ++ (i, d) :: Up /\
    (forall e, In e Lp -> fst e < i) /\ (forall e, In e Up -> i < fst e).
Proof.
  induction r as [|e r IH]; intros Hs Hc; [discriminate|].
  destruct (x0_sorted_cons_inv r e Hs) as [Hs' Hlt].
  rewrite x0_has_col_cons in Hc.
  destruct (Nat.eqb_spec (fst e) i) as [E|E].
  - exists [], (snd e), r. split; [|split].
    + simpl. rewrite <- E. destruct e; reflexivity.
    + intros ? [].
    + intros e' Hin. rewrite <- E. auto.
  - simpl in Hc. destruct (IH Hs' Hc) as (Lp & d & Up & -> & HL & HU).
    exists (e :: Lp), d, Up. split; [reflexivity|]. split; auto.
    intros e' [<-|Hin]; auto.
    assert (H := Hlt (i, d)). simpl in H. apply H. apply in_or_app. right. left. reflexivity.
Qed.

(* ------------------------------------------------------------------ *)
(* 2. flat view of the work row                                        *)
Definition x0_wflat (i : nat) (w : @wrow S) : row := wL w ++ (i, wd w) :: wU w.

Definition x0_fsub (t : S) (fl : row) (u : nat * S) : row :=
  upd_last (fst u) (fun v => v - t * snd u) fl.
Definition x0_fstep (Us : list row) (D : vec) (fl : row) (e : nat * S) : row :=
  let c := fst e in
  let t := rget fl c * vget D c in
  fold_left (x0_fsub t) (nth c Us []) (upd_last c (fun _ => t) fl).
Definition x0_piv_step (i : nat) (Us : list row) (D : vec) (w : @wrow S) (e : nat * S) : @wrow S :=
  let c := fst e in
  let t := wgetL w c * vget D c in
  fold_left (fun w u => wupd i w (fst u) (fun v => v - t * snd u)) (nth c Us [])
            (wupd i w c (fun _ => t)).
Definition x0_sstep (i : nat) (w : @wrow S) (e : nat * S) : @wrow S :=
  if Nat.ltb (fst e) i then mkW (wL w ++ [e]) (wd w) (whasd w) (wU w)
  else if Nat.eqb (fst e) i then mkW (wL w) (snd e) true (wU w)
  else mkW (wL w) (wd w) (whasd w) (wU w ++ [e]).

Section Flat.
Variables (i : nat) (Lp Up : row).
Hypothesis HL : forall e, In e Lp -> fst e < i.
Hypothesis HU : forall e, In e Up -> i < fst e.

Definition x0_wok (w : @wrow S) : Prop :=
  whasd w = true /\ map fst (wL w) = map fst Lp /\ map fst (wU w) = map fst Up.

Lemma x0_hcL w c : x0_wok w -> i <= c -> has_col c (wL w) = false.
Proof.
  intros (_ & H & _) Hc. rewrite (x0_has_col_map c _ _ H).
  apply x0_has_col_false. intros e He. specialize (HL e He). lia.
Qed.
Lemma x0_hcU w c : x0_wok w -> c <= i -> has_col c (wU w) = false.
Proof.
  intros (_ & _ & H) Hc. rewrite (x0_has_col_map c _ _ H).
  apply x0_has_col_false. intros e He. specialize (HU e He). lia.
Qed.

Lemma x0_wflat_wupd w c f : x0_wok w ->
  x0_wflat i (wupd i w c f) = upd_last c f (x0_wflat i w) /\ x0_wok (wupd i w c f).
Proof.
  intros Hw. pose proof Hw as (Hd & HmL & HmU). unfold wupd, x0_wflat.
  rewrite x0_upd_last_app, x0_has_col_cons. cbn [fst].
  destruct (Nat.ltb_spec c i) as [Hlt|Hge].
  - cbn [wL wd wU whasd].
    replace (i =? c) with false by (symmetry; apply Nat.eqb_neq; lia).
    rewrite (x0_hcU w c Hw) by lia. cbn [orb]. split; [reflexivity|].
    unfold x0_wok; cbn [wL wd wU whasd]. rewrite x0_map_fst_upd_last. auto.
  - destruct (Nat.eqb_spec c i) as [->|Hne].
    + rewrite Hd. cbn [wL wd wU whasd]. rewrite Nat.eqb_refl. cbn [orb].
      split; [|unfold x0_wok; cbn [wL wd wU whasd]; auto].
      cbn [upd_last]. rewrite (x0_hcU w i Hw) by lia. cbn [fst snd]. rewrite Nat.eqb_refl.
      reflexivity.
    + cbn [wL wd wU whasd].
      replace (i =? c) with false by (symmetry; apply Nat.eqb_neq; lia). cbn [orb].
      split; [|unfold x0_wok; cbn [wL wd wU whasd]; rewrite x0_map_fst_upd_last; auto].
      destruct (has_col c (wU w)) eqn:E.
      * cbn [upd_last]. rewrite E. reflexivity.
      * rewrite (x0_upd_last_absent c f (wU w) E).
        rewrite (x0_upd_last_absent c f (wL w)); [reflexivity|].
        apply x0_hcL; [exact Hw|lia].
Qed.

Lemma x0_wflat_fold_sub t (us : row) : forall w, x0_wok w ->
  x0_wflat i (fold_left (fun w u => wupd i w (fst u) (fun v => v - t * snd u)) us w)
  = fold_left (x0_fsub t) us (x0_wflat i w)
  /\ x0_wok (fold_left (fun w u => wupd i w (fst u) (fun v => v - t * snd u)) us w).
Proof.
  induction us as [|u us IH]; intros w Hw; [split; [reflexivity|exact Hw]|].
  cbn [fold_left].
  destruct (x0_wflat_wupd w (fst u) (fun v => v - t * snd u) Hw) as [E1 Hw1].
  destruct (IH _ Hw1) as [E2 Hw2]. split; [|exact Hw2].
  rewrite E2, E1. reflexivity.
Qed.

Hypothesis HndL : NoDup (map fst Lp).

Lemma x0_wgetL_flat w c : x0_wok w -> c < i -> wgetL w c = rget (x0_wflat i w) c.
Proof.
  intros Hw Hc. pose proof Hw as (Hd & HmL & HmU). unfold wgetL, x0_wflat.
  rewrite x0_get_last_rget by (rewrite HmL; exact HndL).
  rewrite x0_rget_app, (rget_cons Srt). cbn [fst snd].
  replace (i =? c) with false by (symmetry; apply Nat.eqb_neq; lia).
  rewrite (x0_rget_absent c (wU w)) by (apply x0_hcU; [exact Hw|lia]). ring.
Qed.

Lemma x0_wflat_piv_step Us D w e : x0_wok w -> fst e < i ->
  x0_wflat i (x0_piv_step i Us D w e) = x0_fstep Us D (x0_wflat i w) e /\ x0_wok (x0_piv_step i Us D w e).
Proof.
  intros Hw Hc. unfold x0_piv_step, x0_fstep. cbv zeta.
  rewrite (x0_wgetL_flat w (fst e) Hw Hc).
  set (t := rget (x0_wflat i w) (fst e) * vget D (fst e)).
  destruct (x0_wflat_wupd w (fst e) (fun _ => t) Hw) as [E1 Hw1].
  destruct (x0_wflat_fold_sub t (nth (fst e) Us []) _ Hw1) as [E2 Hw2].
  split; [|exact Hw2]. rewrite E2, E1. reflexivity.
Qed.

Lemma x0_wflat_fold_piv Us D (l : row) : forall w, x0_wok w -> (forall e, In e l -> fst e < i) ->
  x0_wflat i (fold_left (x0_piv_step i Us D) l w) = fold_left (x0_fstep Us D) l (x0_wflat i w)
  /\ x0_wok (fold_left (x0_piv_step i Us D) l w).
Proof.
  induction l as [|e l IH]; intros w Hw Hl; [split; [reflexivity|exact Hw]|].
  cbn [fold_left].
  destruct (x0_wflat_piv_step Us D w e Hw) as [E1 Hw1]; [apply Hl; left; reflexivity|].
  destruct (IH _ Hw1) as [E2 Hw2]; [intros; apply Hl; right; assumption|].
  split; [|exact Hw2]. rewrite E2, E1. reflexivity.
Qed.

(* the walk of ilu0_elim over a row  l ++ (i,d0) :: Up'  with  cols(l) < i *)
Lemma x0_elim_app Us D d0 (Up' : row) (l : row) : forall w,
  (forall e, In e l -> fst e < i) ->
  ilu0_elim i Us D (l ++ (i, d0) :: Up') w =
  let w' := fold_left (x0_piv_step i Us D) l w in
  if is_zero (wd w') then Err ZeroPivot
  else Ok (mkW (wL w') (sinv (wd w')) (whasd w') (wU w')).
Proof.
  induction l as [|e l IH]; intros w Hl.
  - cbn [app fold_left ilu0_elim fst]. rewrite Nat.leb_refl, Nat.eqb_refl. reflexivity.
  - cbn [app fold_left ilu0_elim].
    assert (Hc : fst e < i) by (apply Hl; left; reflexivity).
    replace (i <=? fst e) with false by (symmetry; apply Nat.leb_gt; exact Hc).
    rewrite IH by (intros; apply Hl; right; assumption). reflexivity.
Qed.

Lemma x0_scat_L (l : row) : forall w, (forall e, In e l -> fst e < i) ->
  fold_left (x0_sstep i) l w = mkW (wL w ++ l) (wd w) (whasd w) (wU w).
Proof.
  induction l as [|e l IH]; intros w Hl.
  - simpl. rewrite app_nil_r. destruct w; reflexivity.
  - cbn [fold_left]. rewrite IH by (intros; apply Hl; right; assumption).
    unfold x0_sstep. assert (Hc : fst e < i) by (apply Hl; left; reflexivity).
    replace (fst e <? i) with true by (symmetry; apply Nat.ltb_lt; exact Hc).
    cbn [wL wd wU whasd]. rewrite <- app_assoc. reflexivity.
Qed.
Lemma x0_scat_U (l : row) : forall w, (forall e, In e l -> i < fst e) ->
  fold_left (x0_sstep i) l w = mkW (wL w) (wd w) (whasd w) (wU w ++ l).
Proof.
  induction l as [|e l IH]; intros w Hl.
  - simpl. rewrite app_nil_r. destruct w; reflexivity.
  - cbn [fold_left]. rewrite IH by (intros; apply Hl; right; assumption).
    unfold x0_sstep. assert (Hc : i < fst e) by (apply Hl; left; reflexivity).
    replace (fst e <? i) with false by (symmetry; apply Nat.ltb_ge; lia).
    replace (fst e =? i) with false by (symmetry; apply Nat.eqb_neq; lia).
    cbn [wL wd wU whasd]. rewrite <- app_assoc. reflexivity.
Qed.

Lemma x0_scatter d0 jd : ilu0_scatter i (Lp ++ (i, d0) :: Up) jd = mkW Lp d0 true Up.
Proof.
  change (ilu0_scatter i (Lp ++ (i, d0) :: Up) jd)
    with (fold_left (x0_sstep i) (Lp ++ (i, d0) :: Up) (mkW [] jd false [])).
  rewrite fold_left_app, (x0_scat_L Lp _ HL). cbn [fold_left].
  unfold x0_sstep at 2. cbn [fst snd wL wd wU whasd].
  rewrite Nat.ltb_irrefl, Nat.eqb_refl. rewrite (x0_scat_U Up _ HU). reflexivity.
Qed.

End Flat.

(* ------------------------------------------------------------------ *)
(* 3. dense semantics of the flat elimination step                     *)
Lemma x0_fsub_spec t (fl : row) (u : nat * S) : NoDup (map fst fl) ->
  map fst (x0_fsub t fl u) = map fst fl /\
  forall j, rget (x0_fsub t fl u) j =
            rget fl j - (if has_col j fl then t * (if fst u =? j then snd u else s0) else s0).
Proof.
  intro Hnd. unfold x0_fsub. split; [apply x0_map_fst_upd_last|]. intro j.
  destruct (Nat.eqb_spec (fst u) j) as [E|E].
  - subst j. destruct (has_col (fst u) fl) eqn:Hc.
    + rewrite x0_rget_upd_last_same by assumption. reflexivity.
    + rewrite x0_upd_last_absent by assumption. ring.
  - rewrite x0_rget_upd_last_other by auto. destruct (has_col j fl); ring.
Qed.

Lemma x0_fold_fsub t (u : row) : forall fl : row, NoDup (map fst fl) ->
  map fst (fold_left (x0_fsub t) u fl) = map fst fl /\
  forall j, rget (fold_left (x0_fsub t) u fl) j =
            rget fl j - (if has_col j fl then t * rget u j else s0).
Proof.
  induction u as [|e u IH]; intros fl Hnd.
  - split; [reflexivity|]. intro j. cbn [fold_left]. rewrite rget_nil.
    destruct (has_col j fl); ring.
  - cbn [fold_left]. destruct (x0_fsub_spec t fl e Hnd) as [M1 R1].
    assert (Hnd1 : NoDup (map fst (x0_fsub t fl e))) by (rewrite M1; exact Hnd).
    destruct (IH _ Hnd1) as [M2 R2]. split; [congruence|]. intro j.
    rewrite R2, R1, (x0_has_col_map j _ _ M1), (rget_cons Srt).
    destruct (has_col j fl); ring.
Qed.

Lemma x0_fstep_spec Us D (fl : row) (e : nat * S) :
  NoDup (map fst fl) -> has_col (fst e) fl = true ->
  map fst (x0_fstep Us D fl e) = map fst fl /\
  forall j, rget (x0_fstep Us D fl e) j =
    (if j =? fst e then rget fl (fst e) * vget D (fst e) else rget fl j)
    - (if has_col j fl
       then rget fl (fst e) * vget D (fst e) * rget (nth (fst e) Us []) j else s0).
Proof.
  intros Hnd Hc. unfold x0_fstep. cbv zeta.
  set (t := rget fl (fst e) * vget D (fst e)).
  set (fl1 := upd_last (fst e) (fun _ => t) fl).
  assert (M1 : map fst fl1 = map fst fl) by apply x0_map_fst_upd_last.
  assert (Hnd1 : NoDup (map fst fl1)) by (rewrite M1; exact Hnd).
  destruct (x0_fold_fsub t (nth (fst e) Us []) fl1 Hnd1) as [M2 R2].
  split; [congruence|]. intro j. rewrite R2, (x0_has_col_map j _ _ M1).
  f_equal. unfold fl1. destruct (Nat.eqb_spec j (fst e)) as [->|Hne].
  - rewrite x0_rget_upd_last_same by assumption. reflexivity.
  - rewrite x0_rget_upd_last_other by assumption. reflexivity.
Qed.

(* ------------------------------------------------------------------ *)
(* 4. the row invariant                                                *)
Section RowInv.
Variables (Us : list row) (D : vec) (r : row) (i : nat).
Hypothesis Hnd : NoDup (map fst r).
Hypothesis Hup : forall k j, k < i -> j <= k -> rget (nth k Us []) j = s0.

(* all pattern columns < m have been used as pivots *)
Definition x0_Inv (m : nat) (fl : row) : Prop :=
  map fst fl = map fst r /\
  forall j, has_col j r = true ->
    rget fl j = (rget r j - sumn (fun k => rget fl k * rget (nth k Us []) j) m)
                * (if j <? m then vget D j else s1).

Lemma x0_Inv_0 : x0_Inv 0 r.
Proof.
  split; [reflexivity|]. intros j _. cbn [sumn]. cbn. ring.
Qed.

Lemma x0_Inv_skip m fl : x0_Inv m fl -> has_col m r = false -> x0_Inv (Datatypes.S m) fl.
Proof.
  intros [M R] Hm. split; [exact M|]. intros j Hj. rewrite (R j Hj). cbn [sumn].
  assert (Z : rget fl m = s0).
  { apply x0_rget_absent. rewrite (x0_has_col_map m _ _ M). exact Hm. }
  rewrite Z.
  assert (j <> m) by (intro; subst; congruence).
  replace (j <? Datatypes.S m) with (j <? m) by lia.
  ring.
Qed.

Lemma x0_Inv_skip_many n : forall m fl,
  (forall j, m <= j -> j < (m + n)%nat -> has_col j r = false) -> x0_Inv m fl -> x0_Inv (m + n)%nat fl.
Proof.
  induction n as [|n IH]; intros m fl H HI.
  - rewrite Nat.add_0_r. exact HI.
  - replace (m + Datatypes.S n)%nat with (Datatypes.S m + n)%nat by lia.
    apply IH; [intros; apply H; lia|]. apply x0_Inv_skip; [exact HI|]. apply H; lia.
Qed.

Lemma x0_Inv_pivot m fl e : m < i -> fst e = m -> x0_Inv m fl -> has_col m r = true ->
  x0_Inv (Datatypes.S m) (x0_fstep Us D fl e).
Proof.
  intros Hmi He [M R] Hm.
  assert (Hndf : NoDup (map fst fl)) by (rewrite M; exact Hnd).
  assert (Hcf : has_col (fst e) fl = true) by (rewrite He, (x0_has_col_map m _ _ M); exact Hm).
  destruct (x0_fstep_spec Us D fl e Hndf Hcf) as [M' R']. rewrite He in R'.
  split; [congruence|]. intros j Hj.
  assert (Hk : forall k, k < m -> rget (x0_fstep Us D fl e) k = rget fl k).
  { intros k Hk. rewrite R'. replace (k =? m) with false by lia.
    rewrite (Hup m k) by lia. destruct (has_col k fl); ring. }
  cbn [sumn].
  rewrite (sumn_ext _ (fun k => rget fl k * rget (nth k Us []) j))
    by (intros k Hk'; rewrite Hk by exact Hk'; reflexivity).
  assert (Hm' : rget (x0_fstep Us D fl e) m = rget fl m * vget D m).
  { rewrite R'. rewrite Nat.eqb_refl. rewrite (Hup m m) by lia. destruct (has_col m fl); ring. }
  rewrite Hm'. rewrite R'. rewrite (x0_has_col_map j _ _ M), Hj.
  pose proof (R j Hj) as Rj. pose proof (R m Hm) as Rm.
  rewrite Nat.ltb_irrefl in Rm.
  destruct (Nat.eqb_spec j m) as [->|Hne].
  - replace (m <? Datatypes.S m) with true by lia.
    rewrite (Hup m m) by lia. rewrite Rm. ring.
  - destruct (Nat.ltb_spec j m) as [Hlt|Hge].
    + replace (j <? Datatypes.S m) with true by lia.
      rewrite (Hup m j) by lia. rewrite Rj. ring.
    + replace (j <? Datatypes.S m) with false by lia.
      rewrite Rj. ring.
Qed.

(* the fold over the (sorted) strictly-lower entries *)
Lemma x0_Inv_fold (l : row) : forall m fl,
  sorted_strict l = true ->
  (forall e, In e l -> m <= fst e /\ fst e < i) ->
  (forall j, m <= j -> j < i -> has_col j r = has_col j l) ->
  m <= i -> x0_Inv m fl -> x0_Inv i (fold_left (x0_fstep Us D) l fl).
Proof.
  induction l as [|e l IH]; intros m fl Hs Hb Hpat Hmi HI.
  - cbn [fold_left]. replace i with (m + (i - m))%nat by lia.
    apply x0_Inv_skip_many; [|exact HI]. intros j H1 H2. rewrite Hpat by lia. reflexivity.
  - cbn [fold_left].
    destruct (x0_sorted_cons_inv l e Hs) as [Hs' Hlt].
    destruct (Hb e (or_introl eq_refl)) as [Hme Hei].
    assert (HIc : x0_Inv (fst e) fl).
    { replace (fst e) with (m + (fst e - m))%nat by lia.
      apply x0_Inv_skip_many; [|exact HI]. intros j H1 H2. rewrite Hpat by lia.
      apply x0_has_col_false. intros e' [<-|Hin]; [lia|]. specialize (Hlt e' Hin). lia. }
    assert (Hce : has_col (fst e) r = true).
    { rewrite Hpat by lia. rewrite x0_has_col_cons, Nat.eqb_refl. reflexivity. }
    apply (IH (Datatypes.S (fst e))); [exact Hs'| | |lia|].
    + intros e' Hin. specialize (Hlt e' Hin). destruct (Hb e' (or_intror Hin)). lia.
    + intros j H1 H2. rewrite Hpat by lia. rewrite x0_has_col_cons.
      replace (fst e =? j) with false by lia. reflexivity.
    + apply x0_Inv_pivot; auto.
Qed.

End RowInv.

(* ------------------------------------------------------------------ *)
(* 5. result of one row                                                *)
Lemma x0_row_spec (Us : list row) (D : vec) i (r : row) jd w :
  (forall k j, k < i -> j <= k -> rget (nth k Us []) j = s0) ->
  (forall k, k < i -> vget D k <> s0) ->
  sorted_strict r = true -> has_col i r = true ->
  ilu0_elim i Us D r (ilu0_scatter i r jd) = Ok w ->
  wd w <> s0 /\
  (forall j, j <= i -> rget (drop_zeros (wU w)) j = s0) /\
  forall j, has_col j r = true ->
    sumn (fun k => rget (drop_zeros (wL w)) k *
                   (if k =? j then sinv (vget D k) else rget (nth k Us []) j)) i
    + (if i =? j then sinv (wd w) else rget (drop_zeros (wU w)) j) = rget r j.
Proof.
  intros Hup HD Hs Hci Hel.
  pose proof (x0_sorted_NoDup r Hs) as Hnd.
  destruct (x0_sorted_split i r Hs Hci) as (Lp & d0 & Up & Er & HL & HU).
  assert (HsL : sorted_strict Lp = true) by (apply (x0_sorted_app_l Lp ((i, d0) :: Up)); rewrite <- Er; exact Hs).
  assert (HndL : NoDup (map fst Lp)) by (apply x0_sorted_NoDup; exact HsL).
  rewrite Er in Hel at 2. rewrite (x0_scatter i Lp Up HL HU) in Hel.
  rewrite Er in Hel. rewrite (x0_elim_app i Us D d0 Up Lp _ HL) in Hel. cbv zeta in Hel.
  set (w0 := mkW Lp d0 true Up) in Hel.
  assert (Hw0 : x0_wok Lp Up w0) by (unfold x0_wok, w0; cbn; auto).
  destruct (x0_wflat_fold_piv i Lp Up HL HU HndL Us D Lp w0 Hw0 HL) as [Efl Hw'].
  set (w' := fold_left (x0_piv_step i Us D) Lp w0) in *.
  assert (Ew0 : x0_wflat i w0 = r) by (unfold x0_wflat, w0; cbn [wL wd wU]; symmetry; exact Er).
  rewrite Ew0 in Efl.
  assert (HI : x0_Inv Us D r i (x0_wflat i w')).
  { rewrite Efl. apply (x0_Inv_fold Us D r i Hnd Hup Lp 0 r HsL).
    - intros e He. split; [lia|auto].
    - intros j _ Hj. rewrite Er, x0_has_col_app, x0_has_col_cons. cbn [fst].
      replace (i =? j) with false by lia.
      rewrite (x0_has_col_false j Up) by (intros e He; specialize (HU e He); lia).
      rewrite !orb_false_r. reflexivity.
    - lia.
    - apply x0_Inv_0. }
  destruct HI as [M R].
  (* components of the flat row *)
  assert (FL : forall k, k < i -> rget (x0_wflat i w') k = rget (wL w') k).
  { intros k Hk. unfold x0_wflat. rewrite x0_rget_app, (rget_cons Srt). cbn [fst snd].
    replace (i =? k) with false by lia.
    rewrite (x0_rget_absent k (wU w')) by (apply (x0_hcU i Lp Up HU w' k Hw'); lia). ring. }
  assert (FD : rget (x0_wflat i w') i = wd w').
  { unfold x0_wflat. rewrite x0_rget_app, (rget_cons Srt). cbn [fst snd]. rewrite Nat.eqb_refl.
    rewrite (x0_rget_absent i (wU w')) by (apply (x0_hcU i Lp Up HU w' i Hw'); lia).
    rewrite (x0_rget_absent i (wL w')) by (apply (x0_hcL i Lp Up HL w' i Hw'); lia). ring. }
  assert (FU : forall j, i < j -> rget (x0_wflat i w') j = rget (wU w') j).
  { intros j Hj. unfold x0_wflat. rewrite x0_rget_app, (rget_cons Srt). cbn [fst snd].
    replace (i =? j) with false by lia.
    rewrite (x0_rget_absent j (wL w')) by (apply (x0_hcL i Lp Up HL w' j Hw'); lia). ring. }
  assert (UL : forall j, j <= i -> rget (wU w') j = s0).
  { intros j Hj. apply x0_rget_absent. apply (x0_hcU i Lp Up HU w' j Hw'); lia. }
  destruct (is_zero (wd w')) eqn:Z; [discriminate|].
  apply x0_is_zero_false in Z.
  inversion Hel as [Ew]. cbn [wL wd wU].
  split; [apply x0_inv_neq0; exact Z|].
  split; [intros j Hj; rewrite x0_rget_drop_zeros; apply UL; exact Hj|].
  intros j Hj.
  set (Sg := sumn (fun k => rget (x0_wflat i w') k * rget (nth k Us []) j) i).
  pose proof (R j Hj) as Rj. fold Sg in Rj.
  rewrite (sumn_ext _ (fun k => rget (x0_wflat i w') k * rget (nth k Us []) j
                               + (if j =? k then rget (x0_wflat i w') j * sinv (vget D j) else s0))).
  2:{ intros k Hk. rewrite x0_rget_drop_zeros, <- (FL k Hk).
      destruct (Nat.eqb_spec k j) as [->|Hne].
      - rewrite Nat.eqb_refl. rewrite (Hup j j) by lia. ring.
      - replace (j =? k) with false by lia. ring. }
  rewrite (sumn_add Srt), (sumn_delta Srt). fold Sg.
  rewrite x0_rget_drop_zeros.
  destruct (Nat.ltb_spec j i) as [Hlt|Hge].
  - replace (i =? j) with false by lia. rewrite (UL j) by lia.
    rewrite Rj.
    replace (Sg + (rget r j - Sg) * vget D j * sinv (vget D j) + s0)
      with (Sg + (rget r j - Sg) * (sinv (vget D j) * vget D j)) by ring.
    rewrite (Finv_l Sft _ (HD j Hlt)). ring.
  - destruct (Nat.eqb_spec i j) as [<-|Hne].
    + rewrite (x0_inv_inv _ Z). rewrite <- FD, Rj. ring.
    + rewrite <- (FU j) by lia. rewrite Rj. ring.
Qed.

(* ------------------------------------------------------------------ *)
(* 6. induction over the rows                                          *)
Definition x0_row_exact (Ls Us : list row) (D : vec) (r : row) (k : nat) : Prop :=
  forall j, has_col j r = true ->
    sumn (fun k' => rget (nth k Ls []) k' *
                    (if k' =? j then sinv (vget D k') else rget (nth k' Us []) j)) k
    + (if k =? j then sinv (vget D k) else rget (nth k Us []) j) = rget r j.

Definition x0_ginv (allrows : list row) (Ls Us : list row) (D : vec) (i : nat) : Prop :=
  length Ls = i /\ length Us = i /\ length D = i /\
  (forall k j, k < i -> j <= k -> rget (nth k Us []) j = s0) /\
  (forall k, k < i -> vget D k <> s0) /\
  (forall k, k < i -> x0_row_exact Ls Us D (nth k allrows []) k).

Lemma x0_row_exact_app (Ls Us : list row) (D : vec) (r : row) k (a b : row) (c : S) :
  k < length Ls -> k < length Us -> k < length D ->
  x0_row_exact Ls Us D r k -> x0_row_exact (Ls ++ [a]) (Us ++ [b]) (D ++ [c]) r k.
Proof.
  intros H1 H2 H3 H j Hj. rewrite <- (H j Hj). unfold vget.
  rewrite !app_nth1 by assumption. f_equal.
  apply sumn_ext. intros k' Hk'. rewrite !app_nth1 by lia. reflexivity.
Qed.

Lemma x0_rows_inv (allrows : list row) (junk : vec) :
  (forall k, k < length allrows ->
     sorted_strict (nth k allrows []) = true /\ has_col k (nth k allrows []) = true) ->
  forall (rs pre : list row) i Ls Us D Ls' Us' D',
  allrows = pre ++ rs -> i = length pre ->
  x0_ginv allrows Ls Us D i ->
  ilu0_rows (Ls, Us, D) i rs junk = Ok (Ls', Us', D') ->
  x0_ginv allrows Ls' Us' D' (length allrows).
Proof.
  intro Hrows. induction rs as [|r tl IH]; intros pre i Ls Us D Ls' Us' D' Ea Ei G H.
  - cbn [ilu0_rows] in H. inversion H; subst Ls' Us' D'.
    assert (El : length allrows = i) by (rewrite Ea, app_nil_r; auto).
    rewrite El. exact G.
  - cbn [ilu0_rows] in H. unfold ilu0_row in H.
    destruct (ilu0_elim i Us D r (ilu0_scatter i r (vget junk i))) as [w|] eqn:El; [|discriminate].
    destruct G as (G1 & G2 & G3 & G4 & G5 & G6).
    assert (Hr : nth i allrows [] = r) by (rewrite Ea, Ei; apply nth_middle).
    assert (Hi : i < length allrows) by (rewrite Ea, app_length; cbn [length]; lia).
    destruct (Hrows i Hi) as [Hs Hc]. rewrite Hr in Hs, Hc.
    destruct (x0_row_spec Us D i r (vget junk i) w G4 G5 Hs Hc El) as (W1 & W2 & W3).
    apply (IH (pre ++ [r]) (Datatypes.S i) (Ls ++ [drop_zeros (wL w)])
              (Us ++ [drop_zeros (wU w)]) (D ++ [wd w]) Ls' Us' D').
    + rewrite <- app_assoc. exact Ea.
    + rewrite app_length; cbn [length]; lia.
    + assert (NL : nth i (Ls ++ [drop_zeros (wL w)]) [] = drop_zeros (wL w))
        by (rewrite <- G1; apply nth_middle).
      assert (NU : nth i (Us ++ [drop_zeros (wU w)]) [] = drop_zeros (wU w))
        by (rewrite <- G2; apply nth_middle).
      assert (ND : nth i (D ++ [wd w]) s0 = wd w)
        by (rewrite <- G3; apply nth_middle).
      unfold x0_ginv. rewrite !app_length. cbn [length].
      split; [lia|]. split; [lia|]. split; [lia|]. split; [|split].
      * intros k j Hk Hj. destruct (Nat.eq_dec k i) as [->|Hne].
        -- rewrite NU. apply W2. exact Hj.
        -- rewrite app_nth1 by lia. apply G4; lia.
      * intros k Hk. unfold vget. destruct (Nat.eq_dec k i) as [->|Hne].
        -- rewrite ND. exact W1.
        -- rewrite app_nth1 by lia. apply G5; lia.
      * intros k Hk. destruct (Nat.eq_dec k i) as [->|Hne].
        -- rewrite Hr. intros j Hj. rewrite <- (W3 j Hj). unfold vget.
           rewrite NL, NU, ND.
           f_equal. apply sumn_ext. intros k' Hk'. rewrite !app_nth1 by lia. reflexivity.
        -- apply x0_row_exact_app; try lia. apply G6. lia.
    + exact H.
Qed.

Lemma x0_In_indexed {X} (l : list X) i d : i < length l -> In (i, nth i l d) (indexed l).
Proof.
  intro Hi. unfold indexed.
  assert (E : nth i (combine (seq 0 (length l)) l) (0%nat, d) = (i, nth i l d)).
  { rewrite combine_nth by (rewrite seq_length; reflexivity). rewrite seq_nth by exact Hi. reflexivity. }
  rewrite <- E. apply nth_In. rewrite combine_length, seq_length. lia.
Qed.

Lemma x0_first_col_has_col (r : row) i : first_col r i <> None -> has_col i r = true.
Proof.
  induction r as [|[c v] r IH]; simpl; [congruence|]. intro H.
  destruct (c =? i); [reflexivity|]. apply IH. exact H.
Qed.

Lemma x0_has_diag_has_col (A : crs) i : has_diag A = true -> i < nrows A ->
  has_col i (nth i (rows A) []) = true.
Proof.
  intros H Hi. unfold has_diag in H. rewrite forallb_forall in H.
  specialize (H _ (x0_In_indexed (rows A) i [] Hi)). cbn [fst snd] in H.
  apply x0_first_col_has_col. destruct (first_col (nth i (rows A) []) i); congruence.
Qed.

(* ------------------------------------------------------------------ *)
(* MAIN THEOREM                                                        *)
Theorem ilu0_exact_on_pattern (A : crs) (junk : vec) L U D :
  wf A = true -> ncols A = nrows A ->
  (forall i, i < nrows A -> sorted_strict (nth i (rows A) []) = true) ->
  has_diag A = true ->
  ilu0 A junk = Ok (L, U, D) ->
  forall i j, i < nrows A -> has_col j (nth i (rows A) []) = true ->
    lu_entry L U D i j = mget A i j.
Proof.
  intros _ _ Hs Hd H i j Hi Hj. unfold ilu0 in H.
  destruct (ilu0_rows ([], [], []) 0 (rows A) junk) as [[[Ls Us] D']|] eqn:E; [|discriminate].
  inversion H; subst L U D. clear H.
  assert (G : x0_ginv (rows A) Ls Us D' (length (rows A))).
  { apply (x0_rows_inv (rows A) junk) with (rs := rows A) (pre := []) (i := 0%nat)
      (Ls := []) (Us := []) (D := []); auto.
    - intros k Hk. split; [apply Hs; exact Hk|apply x0_has_diag_has_col; assumption].
    - unfold x0_ginv. cbn [length]. repeat split; intros; lia. }
  destruct G as (_ & _ & _ & _ & _ & G6).
  exact (G6 i Hi j Hj).
Qed.

End Exact.

(* ------------------------------------------------------------------ *)
(* closed instance at the exact rationals + a non-vacuity witness      *)
From Amgcl Require Import QcInst.

Theorem ilu0_exact_on_pattern_Qc (A : crs QcS) (junk : vec QcS) L U D :
  wf A = true -> ncols A = nrows A ->
  (forall i, i < nrows A -> sorted_strict (nth i (rows A) []) = true) ->
  has_diag A = true ->
  ilu0 A junk = Ok (L, U, D) ->
  forall i j, i < nrows A -> has_col j (nth i (rows A) []) = true ->
    lu_entry L U D i j = mget A i j.
Proof. exact (ilu0_exact_on_pattern QcS_field QcS_eqb A junk L U D). Qed.

(* the hypotheses are satisfiable (4x4 matrix with a nontrivial pattern: fill-in at
   (3,1)/(1,3) is discarded by ILU(0), so LU <> A outside the pattern) *)
Definition x0_A4 : crs QcS := mkCrs 4
  [ [(0, qc 4 1); (1, qc (-1) 1); (3, qc (-1) 1)];
    [(0, qc (-1) 1); (1, qc 4 1); (2, qc (-1) 1)];
    [(1, qc (-1) 1); (2, qc 4 1); (3, qc (-1) 1)];
    [(0, qc (-1) 1); (2, qc (-1) 1); (3, qc 4 1)] ]%nat.

(* hypotheses hold, the factorisation succeeds, LU = A on all pattern positions and
   LU <> A at the (discarded) fill position (1,3) *)
Definition x0_A4_check : bool :=
  wf x0_A4 && Nat.eqb (ncols x0_A4) (nrows x0_A4) &&
  forallb (fun r => sorted_strict r) (rows x0_A4) && has_diag x0_A4 &&
  match ilu0 x0_A4 [] with
  | Ok (L, U, D) =>
      forallb (fun ir => forallb (fun e =>
                 seqb (lu_entry L U D (fst ir) (fst e)) (mget x0_A4 (fst ir) (fst e))) (snd ir))
              (indexed (rows x0_A4))
      && negb (seqb (lu_entry L U D 1 3) (mget x0_A4 1 3))
  | Err _ => false
  end.

Example x0_A4_nonvacuous : x0_A4_check = true.
Proof. vm_compute. reflexivity. Qed.
