(* StaticMat.v -- amgcl::static_matrix<T,N,M> (amgcl/value_type/static_matrix.hpp).
   A block is its row-major buffer [buf] (list of N*M scalars); the dimensions are
   parameters of the operations, as the template arguments are in the C++.
   Loop and accumulation order as coded (product: c(i,j) = 0; for k: c(i,j) += a(i,k)*b(k,j)).
   Definitions only; proofs in StaticMatProofs.v. *)
From Amgcl Require Import Scalar Vec DirectUtil Inverse.
Local Open Scope S_scope.
Local Open Scope nat_scope.

Section StaticMat.
Context {S : Scalar}.
Local Notation vec := (vec S).

Definition smat := vec.

(* operator()(i,j) of an N x M block *)
Definition sm_get (M : nat) (a : smat) (i j : nat) : S := vget a (i * M + j).
Definition sm_of_fun (N M : nat) (f : nat -> nat -> S) : smat :=
  tabulate (N * M) (fun idx => f (idx / M) (idx mod M)).

(* operator+=, operator-=, operator*=(T c), unary minus: loops over buf *)
Definition sm_add (a b : smat) : smat := upd2 (fun bi ai => (ai + bi)%S) b a.
Definition sm_sub (a b : smat) : smat := upd2 (fun bi ai => (ai - bi)%S) b a.
Definition sm_scale (c : S) (a : smat) : smat := map (fun x => (x * c)%S) a.   (* c * x  ==  x *= c *)
Definition sm_neg (a : smat) : smat := map (fun x => (- x)%S) a.

(* operator*(static_matrix<N,K>, static_matrix<K,M>) *)
Definition sm_mul (N K M : nat) (a b : smat) : smat :=
  sm_of_fun N M (fun i j => sumn (fun k => (sm_get K a i k * sm_get M b k j)%S) K).

(* math::zero, math::identity (static_cast<T>(i == j)), math::constant *)
Definition sm_zero (N M : nat) : smat := repeat s0 (N * M).
Definition sm_id (N : nat) : smat := sm_of_fun N N (fun i j => if Nat.eqb i j then s1 else s0).
Definition sm_const (N M : nat) (c : S) : smat := repeat c (N * M).

(* math::adjoint: y(j,i) = adjoint(x(i,j)); result is M x N *)
Definition sm_adjoint (N M : nat) (a : smat) : smat :=
  sm_of_fun M N (fun j i => sadj (sm_get M a i j)).

(* math::is_zero *)
Definition sm_is_zero (a : smat) : bool := forallb is_zero a.

(* math::norm: sqrt(norm(sum x_i adjoint(x_i))) *)
Definition sm_norm (a : smat) : S :=
  ssqrt (sabs (fold_left (fun s x => (s + x * sadj x)%S) a s0)).

(* math::inner_product of N x 1 blocks: sum x_i adjoint(y_i) *)
Definition sm_inner_vec (x y : smat) : S :=
  fold_left (fun s xy => (s + fst xy * sadj (snd xy))%S) (combine x y) s0.
(* math::inner_product of N x M blocks: p(i,j) = sum_k x(k,i) adjoint(y(k,j)), M x M *)
Definition sm_inner (N M : nat) (x y : smat) : smat :=
  sm_of_fun M M (fun i j => sumn (fun k => (sm_get M x k i * sadj (sm_get M y k j))%S) N).

(* operator<: compares traces *)
Definition sm_trace (N M : nat) (a : smat) : S :=
  sumn (fun i => sm_get M a i i) (Nat.min N M).
Definition sm_ltb (N M : nat) (a b : smat) : bool := sltb (sm_trace N M a) (sm_trace N M b).

(* math::inverse: detail::inverse(N, A.data(), buf.data(), p.data()) with uninitialised buf *)
Definition sm_inverse (N : nat) (a junk : smat) : option smat := inverse N a junk.

End StaticMat.
