(* PmisPartition.v -- C12-B: the partition invariant of the distributed PMIS aggregation across rank
   boundaries (model: Pmis.v; termination: PmisProofs.v). *)
From Amgcl Require Import Scalar Vec Crs MatOps Dist DistProofs Pmis PmisProofs.
From Coq Require Import Lia List Arith Bool.
Import ListNotations.
Local Open Scope nat_scope.

(* ------------------------------------------------------------------ memb / dedup *)
Lemma memb_In x l : memb x l = true <-> In x l.
Proof.
  unfold memb. rewrite existsb_exists. split.
  - intros [y [Hy E]]. apply Nat.eqb_eq in E. subst. exact Hy.
  - intros H. exists x. split; [exact H | apply Nat.eqb_refl].
Qed.

Lemma dedup_In x l : In x (dedup l) <-> In x l.
Proof.
  unfold dedup.
  assert (H : forall acc, In x (fold_left (fun acc x => if memb x acc then acc else acc ++ [x]) l acc) <-> In x acc \/ In x l).
  { induction l as [|h t IH]; intros acc; simpl; [tauto|].
    rewrite IH. destruct (memb h acc) eqn:E.
    - apply memb_In in E. split; [tauto|]. intros [H|[->|H]]; auto.
    - rewrite in_app_iff. simpl. tauto. }
  rewrite H. simpl. tauto.
Qed.

(* ------------------------------------------------------------------ getn / upd *)
Lemma getn_upd_same (l : list pnode) c v : c < length l -> getn (upd l c v) c = v.
Proof. intros H. unfold getn. apply nth_upd_same. exact H. Qed.
Lemma getn_upd_other (l : list pnode) c c' v : c <> c' -> getn (upd l c v) c' = getn l c'.
Proof. intros H. unfold getn. apply nth_upd_other. exact H. Qed.
Lemma getn_upd_out {X} (l : list X) c v : length l <= c -> upd l c v = l.
Proof. revert c; induction l as [|h t IH]; intros [|c] H; simpl in *; try lia; auto. f_equal. apply IH. lia. Qed.

Lemma in_combine_seq {X} (l : list X) d : forall s i x,
  In (i, x) (combine (seq s (length l)) l) -> s <= i < s + length l /\ x = nth (i - s) l d.
Proof.
  induction l as [|h t IH]; intros s i x H; simpl in *; [destruct H|].
  destruct H as [H|H].
  - inversion H; subst. split; [lia|]. rewrite Nat.sub_diag. reflexivity.
  - apply IH in H. destruct H as [H1 H2]. split; [lia|]. subst.
    replace (i - s) with (S (i - S s)) by lia. reflexivity.
Qed.

Lemma in_indexed_nth {X} (l : list X) d i x : In (i, x) (indexed l) -> i < length l /\ x = nth i l d.
Proof.
  unfold indexed. intros H. apply (in_combine_seq l d) in H. destruct H as [H1 H2].
  rewrite Nat.sub_0_r in H2. split; [lia | exact H2].
Qed.

Lemma nth_upd_eq {X} (l : list X) c c' v d : nth c' (upd l c v) d = if Nat.eqb c c' && Nat.ltb c (length l) then v else nth c' l d.
Proof.
  destruct (Nat.eqb_spec c c') as [<-|Hne]; simpl.
  - destruct (Nat.ltb_spec c (length l)); [apply nth_upd_same; assumption | rewrite getn_upd_out by assumption; reflexivity].
  - apply nth_upd_other. exact Hne.
Qed.

(* ------------------------------------------------------------------ counting with filter over seq (the partial sum of new_id) *)
Lemma filter_seq_S (f : nat -> bool) m : filter f (seq 0 (S m)) = filter f (seq 0 m) ++ (if f m then [m] else []).
Proof. rewrite seq_S, filter_app. simpl. destruct (f m); reflexivity. Qed.

Lemma filter_seq_mono (f : nat -> bool) k m : k <= m -> length (filter f (seq 0 k)) <= length (filter f (seq 0 m)).
Proof.
  induction 1 as [|m H IH]; [lia|]. rewrite filter_seq_S, app_length. lia.
Qed.

Lemma filter_seq_lt (f : nat -> bool) k m : k < m -> f k = true ->
  length (filter f (seq 0 k)) < length (filter f (seq 0 m)).
Proof.
  intros H Hf. pose proof (filter_seq_mono f (S k) m H) as H1.
  rewrite filter_seq_S, Hf, app_length in H1. simpl in H1. lia.
Qed.

Lemma filter_seq_nth (f : nat -> bool) m : forall j, j < length (filter f (seq 0 m)) ->
  let k := nth j (filter f (seq 0 m)) 0 in k < m /\ f k = true /\ length (filter f (seq 0 k)) = j.
Proof.
  induction m as [|m IH]; intros j Hj; [simpl in Hj; lia|].
  rewrite filter_seq_S in *. rewrite app_length in Hj.
  destruct (Nat.lt_ge_cases j (length (filter f (seq 0 m)))) as [Hlt|Hge].
  - rewrite app_nth1 by exact Hlt. destruct (IH j Hlt) as [H1 [H2 H3]]. split; [lia | split; assumption].
  - destruct (f m) eqn:E; simpl in Hj; [|lia].
    assert (j = length (filter f (seq 0 m))) by lia. subst j.
    rewrite app_nth2 by lia. rewrite Nat.sub_diag. simpl. split; [lia | split; [exact E | reflexivity]].
Qed.

Section Part.
Variable parts : list nat.
Variable G : list (list nat).
Let np := length parts.
Let n := psum parts.

(* the diagonal is part of every row of the strength pattern (conn_strength keeps c == i) *)
Hypothesis Hdiag : forall i, i < n -> In i (grow G i).

Lemma own_rank r i : In i (own_nodes parts r) -> r < np -> rk parts i = r.
Proof.
  unfold own_nodes. intros H Hr. apply in_seq in H. unfold rk, owner.
  apply owner_from_unique; [exact Hr|]. unfold psize in H. lia.
Qed.

Lemma own_lt r i : In i (own_nodes parts r) -> i < n.
Proof.
  unfold own_nodes. intros H. apply in_seq in H. unfold psize in H.
  pose proof (pbeg_le_psum parts r). unfold n. lia.
Qed.

Lemma cl_rank i c : In c (cl parts G i) -> rk parts c = rk parts i.
Proof. unfold cl. intros H. apply filter_In in H. destruct H as [_ H]. unfold same_rank in H. apply Nat.eqb_eq in H. auto. Qed.

Lemma sq_loc_rank i c : In c (sq_loc parts G i) -> rk parts c = rk parts i.
Proof.
  unfold sq_loc. destruct (is_nil (sq_rem parts G i)); [intros []|].
  intros H. apply (proj1 (dedup_In _ _)) in H. apply in_app_iff in H. destruct H as [H|H].
  - apply in_flat_map in H. destruct H as [ca [H1 H2]]. rewrite (cl_rank _ _ H2). apply cl_rank. exact H1.
  - apply in_flat_map in H. destruct H as [ca [H1 H2]]. apply filter_In in H2. destruct H2 as [_ H2].
    unfold same_rank in H2. apply Nat.eqb_eq in H2. auto.
Qed.

Lemma cr_in_sq_rem i c : i < n -> In c (cr parts G i) -> In c (sq_rem parts G i).
Proof.
  intros Hi H. unfold sq_rem. apply dedup_In. apply in_app_iff. left.
  apply in_flat_map. exists i. split; [|exact H].
  unfold cl. apply filter_In. split; [apply Hdiag; exact Hi|]. unfold same_rank. apply Nat.eqb_refl.
Qed.

Lemma sq_rem_ghost r i c : In i (own_nodes parts r) -> In c (sq_rem parts G i) -> In c (ghosts parts G r).
Proof.
  intros Hi H. unfold ghosts. apply dedup_In. apply in_flat_map. exists i. split; assumption.
Qed.

(* ------------------------------------------------------------------ the invariant *)
(* what may stand at position c: an undecided / deleted unknown without owner, or an aggregate id of a rank o
   that is below the rank's counter [bnd o]; an unknown of another rank is one of o's ghosts *)
Definition good (bnd : nat -> nat) (c : nat) (p : pnode) : Prop :=
  match n_st p, n_own p with
  | Agg id, Some o => o < np /\ id < bnd o /\ (o = rk parts c \/ In c (ghosts parts G o))
  | Agg _, None => False
  | _, Some _ => False
  | _, None => True
  end.

Definition allgood (bnd : nat -> nat) (l : list pnode) : Prop := forall c, c < length l -> good bnd c (getn l c).

Lemma good_mono bnd bnd' c p : (forall o, bnd o <= bnd' o) -> good bnd c p -> good bnd' c p.
Proof.
  intros Hb. unfold good. destruct (n_st p); auto. destruct (n_own p); auto.
  intros [H1 [H2 H3]]. split; [exact H1|]. split; [specialize (Hb n0); lia | exact H3].
Qed.

Lemma allgood_mono bnd bnd' l : (forall o, bnd o <= bnd' o) -> allgood bnd l -> allgood bnd' l.
Proof. intros Hb H c Hc. eapply good_mono; [exact Hb | apply H; exact Hc]. Qed.

Lemma allgood_upd bnd l c v : allgood bnd l -> (c < length l -> good bnd c v) -> allgood bnd (upd l c v).
Proof.
  intros H Hv c' Hc'. rewrite upd_length in Hc'.
  destruct (Nat.eq_dec c c') as [<-|Hne].
  - rewrite getn_upd_same by exact Hc'. apply Hv. exact Hc'.
  - rewrite getn_upd_other by exact Hne. apply H. exact Hc'.
Qed.

Lemma allgood_claim bnd r id l c :
  allgood bnd l -> r < np -> id < bnd r -> rk parts c = r -> allgood bnd (claim r id l c).
Proof.
  intros H Hr Hid Hc. unfold claim. apply allgood_upd; [exact H|]. intros _. unfold good; simpl. auto.
Qed.

Lemma allgood_claim_if bnd r id l c :
  allgood bnd l -> r < np -> id < bnd r -> rk parts c = r -> allgood bnd (claim_if_undone r id l c).
Proof. intros. unfold claim_if_undone. destruct (is_undone (getn l c)); [apply allgood_claim; assumption | assumption]. Qed.

Lemma fold_allgood {X} bnd (f : list pnode -> X -> list pnode) xs :
  (forall a x, In x xs -> allgood bnd a -> allgood bnd (f a x)) -> forall a, allgood bnd a -> allgood bnd (fold_left f xs a).
Proof.
  induction xs as [|x xs IH]; intros Hf a Ha; simpl; [exact Ha|].
  apply IH; [intros a' x' Hx'; apply Hf; right; exact Hx' | apply Hf; [left; reflexivity | exact Ha]].
Qed.

(* ------------------------------------------------------------------ one step of a rank's sweep *)
Definition bset (bnd : nat -> nat) (r v : nat) : nat -> nat := fun o => if Nat.eqb o r then v else bnd o.

Lemma bset_le bnd r v v' : v <= v' -> forall o, bset bnd r v o <= bset bnd r v' o.
Proof. intros H o. unfold bset. destruct (Nat.eqb o r); lia. Qed.
Lemma bset_same bnd r v : bset bnd r v r = v.
Proof. unfold bset. rewrite Nat.eqb_refl. reflexivity. Qed.

(* messages of rank r: ids below its counter, addressed to its ghosts *)
Definition msgs_ok (r na : nat) (ms : list (nat * nat)) : Prop :=
  forall c id, In (c, id) ms -> id < na /\ In c (ghosts parts G r).

Lemma msgs_ok_mono r na na' ms : na <= na' -> msgs_ok r na ms -> msgs_ok r na' ms.
Proof. intros H Hm c id Hin. destruct (Hm c id Hin). split; [lia | assumption]. Qed.

Lemma fold_ms_in st0 id xs : forall gh ms c' id',
  In (c', id') (snd (fold_left (fun (a : list nat * list (nat * nat)) c =>
                                  if ghost_undone st0 (fst a) c then (fst a ++ [c], snd a ++ [(c, id)]) else a) xs (gh, ms))) ->
  In (c', id') ms \/ (In c' xs /\ id' = id).
Proof.
  induction xs as [|x xs IH]; intros gh ms c' id' H; simpl in *; [left; exact H|].
  destruct (ghost_undone st0 gh x); simpl in H.
  - apply IH in H. destruct H as [H|[H1 H2]]; [|right; auto].
    apply in_app_iff in H. destruct H as [H|[H|[]]]; [left; exact H|]. inversion H; subst. right; auto.
  - apply IH in H. destruct H as [H|[H1 H2]]; [left; exact H | right; auto].
Qed.

Lemma inner_nbr_good bnd r id i xs : r < np -> id < bnd r -> (forall c, In c xs -> rk parts c = r) ->
  forall a nb, allgood bnd a -> (forall k, In k nb -> rk parts k = r) ->
  let res := fold_left (fun (a : list pnode * list nat) c =>
                          if Nat.eqb c i || is_deleted (getn (fst a) c) then a
                          else (claim r id (fst a) c, snd a ++ [c])) xs (a, nb) in
  allgood bnd (fst res) /\ (forall k, In k (snd res) -> rk parts k = r).
Proof.
  intros Hr Hid. induction xs as [|x xs IH]; intros Hxs a nb Ha Hnb; simpl; [split; assumption|].
  destruct (Nat.eqb x i || is_deleted (getn a x)); simpl.
  - apply IH; auto. intros c Hc. apply Hxs. right. exact Hc.
  - apply IH.
    + intros c Hc. apply Hxs. right. exact Hc.
    + apply allgood_claim; auto. apply Hxs. left. reflexivity.
    + intros k Hk. apply in_app_iff in Hk. destruct Hk as [Hk|[<-|[]]]; [apply Hnb; exact Hk | apply Hxs; left; reflexivity].
Qed.

Lemma step_good bnd r st0 lp i :
  r < np -> In i (own_nodes parts r) ->
  allgood (bset bnd r (lp_na lp)) (lp_cur lp) -> msgs_ok r (lp_na lp) (lp_msgs lp) ->
  lp_na lp <= lp_na (step parts G r st0 lp i) /\
  allgood (bset bnd r (lp_na (step parts G r st0 lp i))) (lp_cur (step parts G r st0 lp i)) /\
  msgs_ok r (lp_na (step parts G r st0 lp i)) (lp_msgs (step parts G r st0 lp i)).
Proof.
  intros Hr Hi Hg Hm. pose proof (own_rank r i Hi Hr) as Hri. pose proof (own_lt r i Hi) as Hin.
  unfold step.
  destruct (negb (is_undone (getn (lp_cur lp) i))); [split; [lia | split; assumption]|].
  set (id := lp_na lp).
  assert (Hg' : allgood (bset bnd r (S id)) (lp_cur lp)) by (eapply allgood_mono; [apply bset_le with (v := id); lia | exact Hg]).
  assert (Hid : id < bset bnd r (S id) r) by (rewrite bset_same; lia).
  destruct (negb (is_nil (sq_rem parts G i))).
  - destruct (existsb _ (sq_rem parts G i)); [split; [lia | split; assumption]|].
    match goal with |- context [fold_left ?f (sq_rem parts G i) ?a] => remember (fold_left f (sq_rem parts G i) a) as pr eqn:Epr end.
    destruct pr as [gh3 ms3]. simpl. split; [lia|]. split.
    + apply fold_allgood.
      * intros a x Hx Ha. destruct (Nat.eqb x i); [exact Ha|]. apply allgood_claim_if; auto.
        rewrite (sq_loc_rank _ _ Hx). exact Hri.
      * apply fold_allgood.
        -- intros a x Hx Ha. destruct (Nat.eqb x i); [exact Ha|]. apply allgood_claim; auto.
           rewrite (cl_rank _ _ Hx). exact Hri.
        -- apply allgood_claim; auto.
    + intros c id' Hc. replace ms3 with (snd (gh3, ms3)) in Hc by reflexivity. rewrite Epr in Hc.
      apply fold_ms_in in Hc. destruct Hc as [Hc|[Hc ->]].
      * apply in_app_iff in Hc. destruct Hc as [Hc|Hc].
        -- destruct (Hm c id' Hc). split; [unfold id; lia | assumption].
        -- apply in_map_iff in Hc. destruct Hc as [x [Hx1 Hx2]]. inversion Hx1; subst. split; [lia|].
           eapply sq_rem_ghost; [exact Hi | apply cr_in_sq_rem; assumption].
      * split; [lia|]. eapply sq_rem_ghost; eassumption.
  - match goal with |- context [fold_left ?f (cl parts G i) ?a] => remember (fold_left f (cl parts G i) a) as pr eqn:Epr end.
    destruct pr as [cur2 nbr]. simpl. split; [lia|]. split; [|apply msgs_ok_mono with (na := id); [lia | exact Hm]].
    pose proof (inner_nbr_good (bset bnd r (S id)) r id i (cl parts G i) Hr Hid) as Hn.
    specialize (Hn (fun c Hc => eq_trans (cl_rank _ _ Hc) Hri) (claim r id (lp_cur lp) i) []).
    specialize (Hn (allgood_claim _ _ _ _ _ Hg' Hr Hid Hri) (fun k (Hk : In k []) => match Hk with end)).
    rewrite <- Epr in Hn. simpl in Hn. destruct Hn as [Hn1 Hn2].
    apply fold_allgood; [|exact Hn1].
    intros a k Hk Ha. apply fold_allgood; [|exact Ha].
    intros a' c Hc Ha'. destruct (Nat.eqb c k); [exact Ha'|]. apply allgood_claim_if; auto.
    rewrite (cl_rank _ _ Hc). apply Hn2. exact Hk.
Qed.

(* ------------------------------------------------------------------ the sweep of one rank *)
Lemma steps_good bnd r st0 xs : r < np -> (forall i, In i xs -> In i (own_nodes parts r)) -> forall lp,
  allgood (bset bnd r (lp_na lp)) (lp_cur lp) -> msgs_ok r (lp_na lp) (lp_msgs lp) ->
  let lp' := fold_left (step parts G r st0) xs lp in
  lp_na lp <= lp_na lp' /\ allgood (bset bnd r (lp_na lp')) (lp_cur lp') /\ msgs_ok r (lp_na lp') (lp_msgs lp').
Proof.
  intros Hr. induction xs as [|x xs IH]; intros Hxs lp Hg Hm; simpl; [split; [lia | split; assumption]|].
  destruct (step_good bnd r st0 lp x Hr (Hxs x (or_introl eq_refl)) Hg Hm) as [H1 [H2 H3]].
  destruct (IH (fun i Hi => Hxs i (or_intror Hi)) _ H2 H3) as [H4 [H5 H6]].
  split; [lia | split; assumption].
Qed.

Lemma local_pass_good bnd r st0 cur na : r < np -> allgood (bset bnd r na) cur ->
  let lp := local_pass parts G r st0 cur na in
  na <= lp_na lp /\ allgood (bset bnd r (lp_na lp)) (lp_cur lp) /\ msgs_ok r (lp_na lp) (lp_msgs lp).
Proof.
  intros Hr Hg. unfold local_pass.
  apply (steps_good bnd r st0 _ Hr (fun i Hi => Hi) (mkLp cur [] na [])); simpl; [exact Hg|].
  intros c id [].
Qed.

(* ------------------------------------------------------------------ the sweep of the world and the delivery *)
Definition bn (nas : list nat) : nat -> nat := fun o => nth o nas 0.

Lemma bn_upd nas r v o : r < length nas -> bn (upd nas r v) o = bset (bn nas) r v o.
Proof.
  intros H. unfold bn, bset. rewrite nth_upd_eq. rewrite (Nat.eqb_sym o r).
  destruct (Nat.eqb r o); simpl; [|reflexivity]. destruct (Nat.ltb_spec r (length nas)); [reflexivity | lia].
Qed.

Definition sw_inv (k : nat) (a : list pnode * list nat * list (list (nat * nat))) : Prop :=
  let '(cur, nas, msgs) := a in
  length nas = np /\ allgood (bn nas) cur /\ length msgs = k /\
  forall d, d < k -> msgs_ok d (nth d nas 0) (nth d msgs []).

Lemma sweep_f_good w k a : k < np -> sw_inv k a -> sw_inv (S k) (sweep_f parts G w a k).
Proof.
  destruct a as [[cur nas] msgs]. intros Hk [Hl [Hg [Hlm Hms]]]. unfold sweep_f.
  destruct (local_pass_good (bn nas) k (w_st w) cur (nth k nas 0) Hk) as [H1 [H2 H3]].
  { eapply allgood_mono; [|exact Hg]. intros o. unfold bset, bn. destruct (Nat.eqb_spec o k); [subst|]; lia. }
  set (lp := local_pass parts G k (w_st w) cur (nth k nas 0)) in *.
  unfold sw_inv. split; [rewrite upd_length; exact Hl|]. split.
  - eapply allgood_mono; [|exact H2]. intros o. rewrite bn_upd by lia. lia.
  - split; [rewrite app_length; simpl; lia|].
    intros d Hd. assert (Hdk : d < k \/ d = k) by lia. destruct Hdk as [Hdk| ->].
    + rewrite app_nth1 by lia. rewrite nth_upd_eq.
      destruct (Nat.eqb_spec k d); [lia|]. simpl. apply Hms. exact Hdk.
    + rewrite app_nth2 by lia. rewrite Hlm, Nat.sub_diag. simpl.
      rewrite nth_upd_eq, Nat.eqb_refl. destruct (Nat.ltb_spec k (length nas)); [simpl; exact H3 | lia].
Qed.

Lemma sweep_fold_good w m : forall k a, k + m = np -> sw_inv k a ->
  sw_inv (k + m) (fold_left (sweep_f parts G w) (seq k m) a).
Proof.
  induction m as [|m IH]; intros k a Hk Ha; simpl; [rewrite Nat.add_0_r; exact Ha|].
  replace (k + S m) with (S k + m) by lia. apply IH; [lia|]. apply sweep_f_good; [lia | exact Ha].
Qed.

Definition winv (w : world) : Prop :=
  length (w_st w) = n /\ length (w_na w) = np /\ allgood (bn (w_na w)) (w_st w).

Lemma deliver_good bnd cur msgs : allgood bnd cur -> length msgs = np ->
  (forall d, d < np -> forall c id, In (c, id) (nth d msgs []) -> id < bnd d /\ In c (ghosts parts G d)) ->
  allgood bnd (deliver cur msgs).
Proof.
  intros Hg Hl Hm. unfold deliver. apply fold_allgood; [|exact Hg].
  intros a [d ms] Hin Ha. apply (in_indexed_nth msgs []) in Hin. destruct Hin as [Hd ->]. simpl.
  apply fold_allgood; [|exact Ha].
  intros a' [c id] Hc Ha'. simpl. apply allgood_upd; [exact Ha'|]. intros _.
  destruct (Hm d ltac:(lia) c id Hc) as [H1 H2]. unfold good; simpl. split; [lia|]. split; [exact H1 | right; exact H2].
Qed.

Lemma round_good w : winv w -> winv (round parts G w).
Proof.
  intros [Hl [Hna Hg]]. unfold round, sweep.
  pose proof (sweep_fold_good w np 0 (w_st w, w_na w, []) eq_refl) as H. simpl in H.
  assert (H0 : sw_inv 0 (w_st w, w_na w, [])).
  { unfold sw_inv. split; [exact Hna|]. split; [exact Hg|]. split; [reflexivity|]. intros d Hd. lia. }
  specialize (H H0). fold np.
  pose proof (sweep_f_mono parts G w (seq 0 np) (w_st w, w_na w, [])) as Hmono. simpl in Hmono.
  destruct (fold_left (sweep_f parts G w) (seq 0 np) (w_st w, w_na w, [])) as [[cur nas] msgs].
  destruct H as [H1 [H2 [H3 H4]]]. simpl in *. unfold winv; simpl.
  split; [|split; [exact H1|]].
  - rewrite (mono_length _ _ (deliver_mono cur msgs)), (mono_length _ _ Hmono). exact Hl.
  - apply deliver_good; [exact H2 | exact H3 |]. intros d Hd c id Hc. apply (H4 d Hd c id Hc).
Qed.

Lemma rounds_good : forall fuel w w', winv w -> rounds parts G fuel w = Some w' -> winv w'.
Proof.
  induction fuel as [|k IH]; intros w w' Hw H; simpl in H; [discriminate|].
  destruct (any_undone (w_st (round parts G w))).
  - eapply IH; [apply round_good; exact Hw | exact H].
  - inversion H; subst. apply round_good. exact Hw.
Qed.

Lemma init_good : winv (init_world parts G).
Proof.
  unfold winv, init_world; simpl. split; [apply init_state_length|]. split; [apply map_length|].
  intros c Hc. unfold init_state in *. rewrite map_length, seq_length in Hc.
  set (f := fun i => mkNode (if lonely parts G i then Deleted else Undone) None).
  unfold getn. rewrite nth_indep with (d' := f 0) by (rewrite map_length, seq_length; exact Hc).
  rewrite map_nth. unfold f, good; simpl. destruct (lonely parts G (nth c (seq 0 (nnodes parts)) 0)); simpl; exact I.
Qed.

(* ------------------------------------------------------------------ drop empty aggregates / renumbering *)
Lemma getn_out (l : list pnode) c : length l <= c -> getn l c = dflt_node.
Proof. intros H. unfold getn. apply nth_overflow. exact H. Qed.

Lemma getn_renumber w c : c < length (w_st w) ->
  getn (w_st (renumber parts G w)) c = renumber_node parts G (w_st w) c (getn (w_st w) c).
Proof.
  intros Hc. unfold renumber; simpl. unfold getn.
  set (f := fun cp : nat * pnode => renumber_node parts G (w_st w) (fst cp) (snd cp)).
  rewrite nth_indep with (d' := f (0, dflt_node)) by (rewrite map_length; unfold indexed; rewrite combine_length, seq_length; lia).
  rewrite map_nth. unfold indexed. rewrite combine_nth by (rewrite seq_length; reflexivity).
  rewrite seq_nth by exact Hc. reflexivity.
Qed.

Lemma na_renumber w o : o < length (w_na w) ->
  nth o (w_na (renumber parts G w)) 0 = new_id parts G (w_st w) o (nth o (w_na w) 0).
Proof.
  intros Ho. unfold renumber; simpl.
  set (f := fun rn : nat * nat => new_id parts G (w_st w) (fst rn) (snd rn)).
  rewrite nth_indep with (d' := f (0, 0)) by (rewrite map_length; unfold indexed; rewrite combine_length, seq_length; lia).
  rewrite map_nth. unfold indexed. rewrite combine_nth by (rewrite seq_length; reflexivity).
  rewrite seq_nth by exact Ho. reflexivity.
Qed.

Lemma node_eta p : p = mkNode (n_st p) (n_own p). Proof. destruct p; reflexivity. Qed.

Lemma in_own_of_rank c : c < n -> In c (own_nodes parts (rk parts c)).
Proof.
  intros Hc. destruct (owner_spec parts c Hc) as [_ H]. unfold own_nodes, rk, psize. apply in_seq. lia.
Qed.

Lemma rk_lt c : c < n -> rk parts c < np.
Proof. intros Hc. destruct (owner_spec parts c Hc) as [H _]. exact H. Qed.

(* every aggregated unknown of a well-formed world keeps a valid id; every id below the new counter has a member *)
Lemma renumber_valid w c id o : winv w -> c < n ->
  getn (w_st w) c = mkNode (Agg id) (Some o) ->
  getn (w_st (renumber parts G w)) c = mkNode (Agg (new_id parts G (w_st w) o id)) (Some o) /\
  o < np /\ new_id parts G (w_st w) o id < nth o (w_na (renumber parts G w)) 0.
Proof.
  intros [Hl [Hna Hg]] Hc E. pose proof (Hg c ltac:(lia)) as Hgc. rewrite E in Hgc. unfold good in Hgc; simpl in Hgc.
  destruct Hgc as [Ho [Hid Hvis]].
  assert (Hcond : Nat.eqb o (rk parts c) || memb c (ghosts parts G o) = true).
  { destruct Hvis as [->|Hv]; [rewrite Nat.eqb_refl; reflexivity|]. apply orb_true_iff. right. apply memb_In. exact Hv. }
  split; [|split; [exact Ho|]].
  - rewrite getn_renumber by lia. rewrite E. unfold renumber_node; simpl. rewrite Hcond. reflexivity.
  - rewrite na_renumber by lia. unfold new_id. apply filter_seq_lt; [exact Hid|].
    unfold used. apply existsb_exists. exists c. split.
    + apply in_app_iff. destruct Hvis as [->|Hv]; [left; apply in_own_of_rank; exact Hc | right; exact Hv].
    + unfold member. rewrite E; simpl. rewrite !Nat.eqb_refl. reflexivity.
Qed.

Lemma renumber_no_empty w o id : winv w -> o < np -> id < nth o (w_na (renumber parts G w)) 0 ->
  exists c, c < n /\ getn (w_st (renumber parts G w)) c = mkNode (Agg id) (Some o).
Proof.
  intros Hw Ho Hid. pose proof Hw as [Hl [Hna Hg]]. rewrite na_renumber in Hid by lia. unfold new_id in Hid.
  destruct (filter_seq_nth (used parts G (w_st w) o) _ id Hid) as [Hk [Hu Hn]].
  set (k := nth id (filter (used parts G (w_st w) o) (seq 0 (nth o (w_na w) 0))) 0) in *.
  unfold used in Hu. apply existsb_exists in Hu. destruct Hu as [c [Hin Hm]].
  unfold member in Hm.
  destruct (n_st (getn (w_st w) c)) as [| |id0] eqn:E1; try discriminate.
  destruct (n_own (getn (w_st w) c)) as [o0|] eqn:E2; try discriminate.
  apply andb_true_iff in Hm. destruct Hm as [Hm1 Hm2]. apply Nat.eqb_eq in Hm1, Hm2. subst o0 id0.
  assert (Hc : c < n).
  { destruct (Nat.lt_ge_cases c n) as [H|H]; [exact H|]. rewrite getn_out in E1 by lia. discriminate. }
  exists c. split; [exact Hc|].
  assert (E : getn (w_st w) c = mkNode (Agg k) (Some o)) by (rewrite (node_eta (getn (w_st w) c)), E1, E2; reflexivity).
  destruct (renumber_valid w c k o Hw Hc E) as [H1 _]. rewrite H1. unfold new_id. rewrite Hn. reflexivity.
Qed.

Lemma renumber_other w c : c < length (w_st w) ->
  match n_st (getn (w_st w) c) with Agg _ => True | s => n_st (getn (w_st (renumber parts G w)) c) = s end.
Proof.
  intros Hc. destruct (n_st (getn (w_st w) c)) eqn:E; [| |exact I];
    rewrite getn_renumber by exact Hc; unfold renumber_node; rewrite E; exact E.
Qed.

(* ------------------------------------------------------------------ the theorem *)
Lemma no_undone_all l c : any_undone l = false -> is_undone (getn l c) = false.
Proof.
  intros H. destruct (Nat.lt_ge_cases c (length l)) as [Hc|Hc]; [|rewrite getn_out by exact Hc; reflexivity].
  destruct (is_undone (getn l c)) eqn:E; [|reflexivity].
  assert (any_undone l = true) by (apply existsb_exists; exists (getn l c); split; [apply nth_In; exact Hc | exact E]).
  congruence.
Qed.

Lemma getn_init c : c < n -> getn (init_state parts G) c = mkNode (if lonely parts G c then Deleted else Undone) None.
Proof.
  intros Hc. unfold init_state.
  set (f := fun i => mkNode (if lonely parts G i then Deleted else Undone) None).
  unfold getn. rewrite nth_indep with (d' := f 0) by (rewrite map_length, seq_length; exact Hc).
  rewrite map_nth. rewrite seq_nth by exact Hc. reflexivity.
Qed.

Theorem pmis_partition :
  exists w, pmis parts G = Some w /\
    (* every unknown is left out (no owner) or in exactly one aggregate: a valid id of a valid rank *)
    (forall c, c < n ->
       getn (w_st w) c = mkNode Deleted None \/
       exists o id, getn (w_st w) c = mkNode (Agg id) (Some o) /\ o < np /\ id < nth o (w_na w) 0) /\
    (* an unknown with a strong connection (not "lonely") is aggregated *)
    (forall c, c < n -> lonely parts G c = false -> exists o id, getn (w_st w) c = mkNode (Agg id) (Some o)) /\
    (* no empty aggregate: the ids of every rank are exactly 0 .. naggr-1 *)
    (forall o id, o < np -> id < nth o (w_na w) 0 -> exists c, c < n /\ getn (w_st w) c = mkNode (Agg id) (Some o)).
Proof.
  destruct (pmis_rounds_terminate parts G) as [w0 [Hr [Hnu Hmono]]].
  pose proof (rounds_good _ _ _ init_good Hr) as Hw. pose proof Hw as [Hl [Hna Hg]].
  exists (renumber parts G w0). split; [unfold pmis; rewrite Hr; reflexivity|].
  assert (Hnode : forall c, c < n -> getn (w_st w0) c = mkNode Deleted None \/
                    exists o id, getn (w_st w0) c = mkNode (Agg id) (Some o)).
  { intros c Hc. pose proof (Hg c ltac:(lia)) as Hgc. pose proof (no_undone_all _ c Hnu) as Hu.
    rewrite (node_eta (getn (w_st w0) c)) in *. unfold good, is_undone in *. simpl in *.
    destruct (n_st (getn (w_st w0) c)), (n_own (getn (w_st w0) c)); try discriminate; try contradiction; eauto. }
  split; [|split].
  - intros c Hc. destruct (Hnode c Hc) as [E|[o [id E]]].
    + left. pose proof (renumber_other w0 c ltac:(lia)) as H. rewrite E in H; simpl in H.
      rewrite getn_renumber by lia. rewrite E. reflexivity.
    + right. destruct (renumber_valid w0 c id o Hw Hc E) as [H1 [H2 H3]]. eauto.
  - intros c Hc Hlon. destruct (Hnode c Hc) as [E|[o [id E]]].
    + exfalso. destruct (mono_getn _ _ c Hmono) as [_ Hd]. rewrite E in Hd. specialize (Hd eq_refl).
      rewrite getn_init in Hd by exact Hc. rewrite Hlon in Hd. discriminate.
    + destruct (renumber_valid w0 c id o Hw Hc E) as [H1 _]. eauto.
  - intros o id Ho Hid. apply renumber_no_empty; assumption.
Qed.

(* the same in terms of the columns of the tentative prolongation (what the tie compares): the ranks' aggregates are
   numbered consecutively over the world, every coarse column is hit, every non-lonely unknown has a column *)
Lemma column_spec w c id o : getn (w_st w) c = mkNode (Agg id) (Some o) -> column w c = Some (pbeg (w_na w) o + id).
Proof. intros E. unfold column. rewrite E. reflexivity. Qed.

Theorem pmis_columns_partition :
  exists cols nas, pmis_columns parts G = Some (cols, nas) /\ length cols = n /\ length nas = np /\
    (forall c j, c < n -> nth c cols None = Some j -> j < psum nas) /\
    (forall j, j < psum nas -> exists c, c < n /\ nth c cols None = Some j) /\
    (forall c, c < n -> lonely parts G c = false -> nth c cols None <> None).
Proof.
  destruct pmis_partition as [w [Hp [H1 [H2 H3]]]].
  assert (Hna : length (w_na w) = np).
  { unfold pmis in Hp. destruct (rounds parts G (pmis_fuel parts G) (init_world parts G)) as [w0|] eqn:Hr; [|discriminate].
    inversion Hp; subst. destruct (rounds_good _ _ _ init_good Hr) as [_ [Hl _]].
    unfold renumber; simpl. rewrite map_length. unfold indexed. rewrite combine_length, seq_length. lia. }
  exists (map (column w) (seq 0 n)), (w_na w). unfold pmis_columns. rewrite Hp.
  split; [reflexivity|]. split; [rewrite map_length, seq_length; reflexivity|]. split; [exact Hna|].
  assert (Hcol : forall c, c < n -> nth c (map (column w) (seq 0 n)) None = column w c).
  { intros c Hc. rewrite nth_indep with (d' := column w 0) by (rewrite map_length, seq_length; exact Hc).
    rewrite map_nth, seq_nth by exact Hc. reflexivity. }
  split; [|split].
  - intros c j Hc Hj. rewrite Hcol in Hj by exact Hc.
    destruct (H1 c Hc) as [E|[o [id [E [Ho Hid]]]]].
    + unfold column in Hj. rewrite E in Hj. discriminate.
    + rewrite (column_spec _ _ _ _ E) in Hj. inversion Hj; subst.
      pose proof (pbeg_le_psum (w_na w) o). lia.
  - intros j Hj. destruct (owner_spec (w_na w) j Hj) as [Ho Hrange]. rewrite Hna in Ho.
    destruct (H3 (owner (w_na w) j) (j - pbeg (w_na w) (owner (w_na w) j)) Ho ltac:(lia)) as [c [Hc E]].
    exists c. split; [exact Hc|]. rewrite Hcol by exact Hc. rewrite (column_spec _ _ _ _ E). f_equal. lia.
  - intros c Hc Hl. rewrite Hcol by exact Hc. destruct (H2 c Hc Hl) as [o [id E]].
    rewrite (column_spec _ _ _ _ E). discriminate.
Qed.

End Part.

(* ------------------------------------------------------------------ "lonely" = no strong connection *)
Lemma two_in_length {X} (a b : X) l : In a l -> In b l -> a <> b -> 2 <= length l.
Proof.
  intros Ha Hb Hne. destruct l as [|x l]; [destruct Ha|]. destruct l as [|y t]; [|simpl; lia].
  exfalso. simpl in Ha, Hb. destruct Ha as [Ha|[]]. destruct Hb as [Hb|[]]. congruence.
Qed.

Lemma nodup_all_eq (i : nat) l : NoDup l -> In i l -> (forall c, In c l -> c = i) -> l = [i].
Proof.
  intros Hn Hi Hall. destruct l as [|x [|y t]]; simpl in *.
  - destruct Hi.
  - destruct Hi as [->|[]]. reflexivity.
  - exfalso. rewrite (Hall x (or_introl eq_refl)), (Hall y (or_intror (or_introl eq_refl))) in Hn.
    inversion Hn; subst. apply H1. left. reflexivity.
Qed.

(* "lonely" (removed before the rounds: wl + wr == 1) means exactly: the row of the strength matrix holds nothing but the
   diagonal -- the unknown has no strong connection *)
Lemma lonely_spec parts G i : NoDup (grow G i) -> In i (grow G i) ->
  (lonely parts G i = false <-> exists c, In c (grow G i) /\ c <> i).
Proof.
  intros Hnd Hi.
  assert (Hicl : In i (cl parts G i)).
  { unfold cl. apply filter_In. split; [exact Hi|]. unfold same_rank. apply Nat.eqb_refl. }
  split.
  - intros Hl. destruct (existsb (fun c => negb (Nat.eqb c i)) (grow G i)) eqn:E.
    + apply existsb_exists in E. destruct E as [c [Hc Hne]]. exists c. split; [exact Hc|].
      apply negb_true_iff in Hne. apply Nat.eqb_neq in Hne. exact Hne.
    + exfalso. assert (Hall : forall c, In c (grow G i) -> c = i).
      { intros c Hc. destruct (Nat.eq_dec c i) as [->|Hne]; [reflexivity|].
        assert (existsb (fun c => negb (Nat.eqb c i)) (grow G i) = true).
        { apply existsb_exists. exists c. split; [exact Hc|]. apply negb_true_iff. apply Nat.eqb_neq. exact Hne. }
        congruence. }
      pose proof (nodup_all_eq i _ Hnd Hi Hall) as Hg.
      unfold lonely, sq_rem, cl, cr in Hl. rewrite Hg in Hl. simpl in Hl.
      unfold same_rank in Hl. rewrite Nat.eqb_refl in Hl. simpl in Hl.
      unfold cr in Hl. rewrite Hg in Hl. simpl in Hl. unfold same_rank in Hl. rewrite Nat.eqb_refl in Hl. simpl in Hl.
      discriminate.
  - intros [c [Hc Hne]]. unfold lonely. apply Nat.eqb_neq.
    destruct (same_rank parts i c) eqn:E.
    + assert (In c (cl parts G i)) by (unfold cl; apply filter_In; split; assumption).
      pose proof (two_in_length _ _ _ Hicl H (fun e => Hne (eq_sym e))). lia.
    + assert (Hcr : In c (cr parts G i)) by (unfold cr; apply filter_In; split; [assumption | rewrite E; reflexivity]).
      assert (Hsq : In c (sq_rem parts G i)).
      { unfold sq_rem. apply dedup_In. apply in_app_iff. left. apply in_flat_map. exists i. split; assumption. }
      assert (1 <= length (cl parts G i)) by (destruct (cl parts G i); [destruct Hicl | simpl; lia]).
      assert (1 <= length (sq_rem parts G i)) by (destruct (sq_rem parts G i); [destruct Hsq | simpl; lia]).
      lia.
Qed.

(* ------------------------------------------------------------------ the aggregation depends on the partition *)
(* rank-count independence does NOT hold (and the property does not ask for it): on the path 0-1-2-3 one rank builds the
   aggregates {0,1} {2,3}, the two ranks [2;2] build the single aggregate {0,1,2,3} (the higher rank selects first and
   its root 2 takes the distance-2 neighbourhood across the boundary) *)
Definition ex_path4 : list (list nat) := [[0; 1]; [0; 1; 2]; [1; 2; 3]; [2; 3]].
Lemma pmis_depends_on_partition :
  pmis_columns [4] ex_path4 = Some ([Some 0; Some 0; Some 1; Some 1], [2]) /\
  pmis_columns [2; 2] ex_path4 = Some ([Some 0; Some 0; Some 0; Some 0], [0; 1]) /\
  pmis_columns [1; 1; 1; 1] ex_path4 = Some ([Some 0; Some 0; Some 1; Some 1], [1; 0; 0; 1]).
Proof. vm_compute. repeat split. Qed.
