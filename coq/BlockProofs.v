(* BlockProofs.v -- C13-A1: the block_matrix adapter on a scalar matrix with sorted rows
   represents the same operator: densely, unblock (block A) = A. *)
From Coq Require Import ZifyBool.
From Amgcl Require Import Scalar Vec Crs Kernels KernelsProofs MatOps Adapters AdaptersProofs.

(* ---------------------------------------------------------------- arithmetic *)
Lemma blk_range_mod b c y j : 0 < b -> c * b <= y < (c + 1) * b -> j < b ->
  (y mod b = j <-> y = c * b + j).
Proof.
  intros Hb Hy Hj.
  assert (E : y = (y - c * b) + c * b) by lia.
  assert (Hs : y - c * b < b) by lia.
  assert (Hm : y mod b = y - c * b).
  { rewrite E at 1. rewrite Nat.mod_add by lia. apply Nat.mod_small. exact Hs. }
  rewrite Hm. lia.
Qed.

Lemma div_lower b c y : 0 < b -> c <= y / b -> c * b <= y.
Proof. intros Hb H. pose proof (Nat.mul_div_le y b ltac:(lia)). nia. Qed.

Lemma div_upper b y : 0 < b -> y < (y / b + 1) * b.
Proof. intro Hb. pose proof (Nat.mul_succ_div_gt y b ltac:(lia)). nia. Qed.

Lemma blk_index_inj b c J j jj : j < b -> jj < b -> c * b + j = J * b + jj -> c = J /\ j = jj.
Proof.
  intros Hj Hjj E.
  assert (c = J).
  { destruct (Nat.lt_trichotomy c J) as [H|[H|H]]; [exfalso|exact H|exfalso].
    - assert ((c + 1) * b <= J * b) by (apply Nat.mul_le_mono_r; lia). lia.
    - assert ((J + 1) * b <= c * b) by (apply Nat.mul_le_mono_r; lia). lia. }
  subst. split; [reflexivity|lia].
Qed.

Lemma blk_in_range b c J jj : jj < b -> c * b <= J * b + jj < (c + 1) * b -> c = J.
Proof.
  intros Hjj [H1 H2].
  destruct (Nat.lt_trichotomy c J) as [H|[H|H]]; [exfalso|exact H|exfalso].
  - assert ((c + 1) * b <= J * b) by (apply Nat.mul_le_mono_r; lia). lia.
  - assert ((J + 1) * b <= c * b) by (apply Nat.mul_le_mono_r; lia). lia.
Qed.

(* ---------------------------------------------------------------- structure (any S) *)
Section Struct.
Context {S : Scalar}.
Local Notation row := (row S).

Lemma sorted_strict_cons (a : nat * S) r :
  sorted_strict (a :: r) = true -> Forall (fun x => fst a < fst x) r /\ sorted_strict r = true.
Proof.
  revert a; induction r as [|x r IH]; intros a H; [split; [constructor|reflexivity]|].
  cbn [sorted_strict] in H. apply andb_prop in H as [H1 H2]. apply Nat.ltb_lt in H1.
  destruct (IH x H2) as [F _]. split; [|exact H2].
  constructor; [exact H1|]. eapply Forall_impl; [|exact F]. simpl. intros; lia.
Qed.

Lemma span_lt_app e (r : row) : r = fst (span_lt e r) ++ snd (span_lt e r).
Proof.
  induction r as [|x r IH]; [reflexivity|]. simpl.
  destruct (Nat.ltb (fst x) e); [|reflexivity].
  destruct (span_lt e r) as [t rest]. simpl in *. f_equal. exact IH.
Qed.

Lemma span_lt_taken e (r : row) : Forall (fun x => fst x < e) (fst (span_lt e r)).
Proof.
  induction r as [|x r IH]; [constructor|]. simpl.
  destruct (Nat.ltb_spec (fst x) e); [|constructor].
  destruct (span_lt e r) as [t rest]. simpl in *. constructor; assumption.
Qed.

Lemma span_lt_sorted e (r : row) : sorted_strict r = true ->
  sorted_strict (fst (span_lt e r)) = true /\ sorted_strict (snd (span_lt e r)) = true /\
  Forall (fun x => e <= fst x) (snd (span_lt e r)).
Proof.
  induction r as [|x r IH]; intro Hs; [repeat split; constructor|].
  destruct (sorted_strict_cons x r Hs) as [F Hs']. specialize (IH Hs'). simpl.
  destruct (Nat.ltb_spec (fst x) e) as [Hlt|Hge].
  - destruct (span_lt e r) as [t rest] eqn:E. simpl in *. destruct IH as (I1 & I2 & I3).
    repeat split; try assumption.
    destruct t as [|y t]; [reflexivity|].
    cbn [sorted_strict]. apply andb_true_intro. split; [|exact I1].
    apply Nat.ltb_lt. rewrite Forall_forall in F. apply F.
    pose proof (span_lt_app e r) as A. rewrite E in A. simpl in A. rewrite A. left; reflexivity.
  - simpl. repeat split; [exact Hs|].
    constructor; [exact Hge|]. eapply Forall_impl; [|exact F]. simpl. intros; lia.
Qed.

Lemma span_lt_len e (r : row) : length (snd (span_lt e r)) <= length r.
Proof.
  rewrite (span_lt_app e r) at 2. rewrite app_length. lia.
Qed.

Lemma span_lt_progress e (x : nat * S) r : fst x < e -> length (snd (span_lt e (x :: r))) < length (x :: r).
Proof.
  intro H. simpl. destruct (Nat.ltb_spec (fst x) e); [|lia].
  destruct (span_lt e r) as [t rest] eqn:E. simpl.
  pose proof (span_lt_len e r) as L. rewrite E in L. simpl in L. lia.
Qed.

(* heads_min *)
Definition hm_step (b : nat) (acc : option nat) (r : row) : option nat :=
  match r with
  | [] => acc
  | e :: _ => match acc with None => Some (fst e / b) | Some c => Some (Nat.min c (fst e / b)) end
  end.

Lemma hm_fold b (rs : list row) : forall acc,
  match fold_left (hm_step b) rs acc with
  | None => acc = None /\ Forall (fun r => r = []) rs
  | Some m => (forall a, acc = Some a -> m <= a) /\
              Forall (fun r => match r with [] => True | x :: _ => m <= fst x / b end) rs /\
              (acc = Some m \/ Exists (fun r => match r with [] => False | x :: _ => fst x / b = m end) rs)
  end.
Proof.
  induction rs as [|r rs IH]; intro acc; simpl.
  - destruct acc as [a|]; [|split; [reflexivity|constructor]].
    split; [intros a' E; inversion E; lia|]. split; [constructor|left; reflexivity].
  - specialize (IH (hm_step b acc r)).
    destruct (fold_left (hm_step b) rs (hm_step b acc r)) as [m|].
    + destruct IH as (I1 & I2 & I3).
      destruct r as [|x tl]; simpl in *.
      * split; [exact I1|]. split; [constructor; [exact I|exact I2]|].
        destruct I3 as [E|E]; [left; exact E|right; apply Exists_cons_tl; exact E].
      * destruct acc as [a|]; simpl in *.
        -- pose proof (I1 _ eq_refl) as Hm.
           split; [intros a' E; inversion E; subst; lia|].
           split; [constructor; [lia|exact I2]|].
           destruct I3 as [E|E]; [|right; apply Exists_cons_tl; exact E].
           inversion E as [E']. destruct (Nat.min_spec a (fst x / b)) as [[_ Hmin]|[_ Hmin]].
           ++ left. f_equal. lia.
           ++ right. apply Exists_cons_hd. lia.
        -- pose proof (I1 _ eq_refl) as Hm.
           split; [intros a' E; discriminate|].
           split; [constructor; [exact Hm|exact I2]|].
           destruct I3 as [E|E]; [|right; apply Exists_cons_tl; exact E].
           inversion E. right. apply Exists_cons_hd. reflexivity.
    + destruct IH as (I1 & I2). destruct r as [|x tl]; simpl in *.
      * split; [exact I1|constructor; [reflexivity|exact I2]].
      * destruct acc; discriminate.
Qed.

Lemma heads_min_none b (rs : list row) : heads_min b rs = None -> Forall (fun r => r = []) rs.
Proof.
  intro H. pose proof (hm_fold b rs None) as P. unfold heads_min in H.
  change (fold_left (hm_step b) rs None = None) in H. rewrite H in P. apply P.
Qed.

Lemma heads_min_some b (rs : list row) c : heads_min b rs = Some c ->
  Forall (fun r => match r with [] => True | x :: _ => c <= fst x / b end) rs /\
  Exists (fun r => match r with [] => False | x :: _ => fst x / b = c end) rs.
Proof.
  intro H. pose proof (hm_fold b rs None) as P. unfold heads_min in H.
  change (fold_left (hm_step b) rs None = Some c) in H. rewrite H in P.
  destruct P as (_ & P2 & [P3|P3]); [discriminate|]. split; assumption.
Qed.

Lemma total_len_zero (rs : list row) i : total_len rs = 0 -> nth i rs [] = [].
Proof.
  revert i; induction rs as [|r rs IH]; intros i H; [destruct i; reflexivity|].
  simpl in H. destruct i; simpl.
  - destruct r; [reflexivity|simpl in H; lia].
  - apply IH. lia.
Qed.

Lemma all_nil_nth (rs : list row) i : Forall (fun r => r = []) rs -> nth i rs [] = [].
Proof.
  intro H. revert i; induction H as [|r rs Hr _ IH]; intros [|i]; simpl; auto.
Qed.

Lemma total_len_map_lt (g : row -> row) (rs : list row) :
  (forall r, length (g r) <= length r) ->
  Exists (fun r => length (g r) < length r) rs ->
  total_len (map g rs) < total_len rs.
Proof.
  intros Hle Hex. induction Hex as [r rs Hr|r rs _ IH]; simpl.
  - assert (total_len (map g rs) <= total_len rs).
    { clear Hr. induction rs as [|r' rs IH]; simpl; [lia|]. specialize (Hle r'). lia. }
    lia.
  - specialize (Hle r). lia.
Qed.

End Struct.

(* ---------------------------------------------------------------- dense semantics (ring) *)
Section Ring.
Context {S : Scalar}.
Local Notation vec := (vec S).
Local Notation row := (row S).
Local Notation crs := (crs S).
Hypothesis Srt : Sring S.
Add Ring SRingB : Srt.

Lemma rget_app (l1 l2 : row) j : rget (l1 ++ l2) j = (rget l1 j + rget l2 j)%S.
Proof.
  induction l1 as [|e l1 IH]; simpl app; [rewrite (rget_nil j); ring|].
  rewrite !(rget_cons Srt), IH. ring.
Qed.

Lemma rget_notin (r : row) j : Forall (fun x => fst x <> j) r -> rget r j = s0.
Proof.
  induction 1 as [|e r He _ IH]; [reflexivity|].
  rewrite (rget_cons Srt), IH. destruct (Nat.eqb_spec (fst e) j); [contradiction|ring].
Qed.

(* dense reading of a block row: entries with the same block column add up *)
Definition brget (br : grow (@block S)) (J i j : nat) : S :=
  fold_right (fun cv acc => ((if Nat.eqb (fst cv) J then bget (snd cv) i j else s0) + acc)%S) s0 br.

(* assignment semantics of the gather loop = dense entry, for a strictly sorted run of
   entries inside one block column *)
Lemma blk_fold_spec b c (t : row) j : 0 < b -> j < b ->
  sorted_strict t = true -> Forall (fun x => c * b <= fst x < (c + 1) * b) t ->
  forall acc,
  fold_left (fun acc e => if Nat.eqb (fst e mod b) j then snd e else acc) t acc =
  if existsb (fun x => Nat.eqb (fst x) (c * b + j)) t then rget t (c * b + j) else acc.
Proof.
  intros Hb Hj. induction t as [|x t IH]; intros Hs HF acc; [reflexivity|].
  destruct (sorted_strict_cons x t Hs) as [Fgt Hs']. inversion HF as [|? ? Hx HF']; subst.
  simpl fold_left. rewrite (IH Hs' HF'). simpl existsb. rewrite (rget_cons Srt).
  pose proof (blk_range_mod b c (fst x) j Hb Hx Hj) as M.
  destruct (Nat.eqb_spec (fst x mod b) j) as [E|E].
  - assert (Ek : fst x = c * b + j) by (apply M; exact E).
    destruct (Nat.eqb_spec (fst x) (c * b + j)); [|contradiction].
    assert (Hno : Forall (fun y => fst y <> c * b + j) t).
    { eapply Forall_impl; [|exact Fgt]. simpl. intros; lia. }
    assert (Hex : existsb (fun y => Nat.eqb (fst y) (c * b + j)) t = false).
    { clear -Hno. induction Hno as [|y t Hy _ IH]; [reflexivity|]. simpl.
      destruct (Nat.eqb_spec (fst y) (c * b + j)); [contradiction|exact IH]. }
    rewrite Hex. simpl. rewrite (rget_notin t _ Hno). ring.
  - destruct (Nat.eqb_spec (fst x) (c * b + j)) as [Ek|Ek]; [exfalso; apply E, M; exact Ek|].
    simpl. destruct (existsb _ t); [ring|reflexivity].
Qed.

Lemma blk_entry_rget b c (t : row) j : 0 < b -> j < b ->
  sorted_strict t = true -> Forall (fun x => c * b <= fst x < (c + 1) * b) t ->
  blk_entry b t j = rget t (c * b + j).
Proof.
  intros Hb Hj Hs HF. unfold blk_entry. rewrite (blk_fold_spec b c t j Hb Hj Hs HF).
  destruct (existsb _ t) eqn:E; [reflexivity|].
  symmetry. apply rget_notin. apply Forall_forall. intros y Hy Ey.
  assert (existsb (fun x => Nat.eqb (fst x) (c * b + j)) t = true).
  { apply existsb_exists. exists y. split; [exact Hy|apply Nat.eqb_eq; exact Ey]. }
  congruence.
Qed.

Lemma bget_blk_of b (takens : list row) i j : i < length takens -> j < b ->
  bget (blk_of b takens) i j = blk_entry b (nth i takens []) j.
Proof.
  intros Hi Hj. unfold bget, blk_of.
  rewrite (nth_indep _ [] (map (blk_entry b []) (seq 0 b))) by (rewrite map_length; exact Hi).
  rewrite (map_nth (fun t => map (blk_entry b t) (seq 0 b))).
  rewrite (nth_indep _ s0 (blk_entry b (nth i takens []) 0)) by (rewrite map_length, seq_length; exact Hj).
  rewrite (map_nth (blk_entry b (nth i takens []))). rewrite seq_nth by exact Hj. reflexivity.
Qed.

(* all entries of a sorted row lie at or after its head *)
Lemma sorted_lower (r : row) lo : sorted_strict r = true ->
  match r with [] => True | x :: _ => lo <= fst x end -> Forall (fun x => lo <= fst x) r.
Proof.
  destruct r as [|x r]; intros Hs H; [constructor|].
  destruct (sorted_strict_cons x r Hs) as [F _]. constructor; [exact H|].
  eapply Forall_impl; [|exact F]. simpl. intros; lia.
Qed.

(* the main loop invariant: the dense reading of the produced block row equals the dense
   reading of the scalar rows it was gathered from *)
Lemma block_row_dense b : 0 < b -> forall fuel (rs : list row),
  Forall (fun r => sorted_strict r = true) rs -> total_len rs <= fuel ->
  forall J i j, i < length rs -> j < b ->
  brget (block_row fuel b rs) J i j = rget (nth i rs []) (J * b + j).
Proof.
  intros Hb. induction fuel as [|k IH]; intros rs Hs Hlen J i j Hi Hj.
  - simpl. rewrite total_len_zero by lia. reflexivity.
  - simpl. destruct (heads_min b rs) as [c|] eqn:Hm.
    + destruct (heads_min_some b rs c Hm) as [Hlow Hatt].
      set (e := (c + 1) * b). set (sp := map (span_lt e) rs).
      cbn [brget fold_right fst snd]. fold (brget (block_row k b (map snd sp)) J i j).
      (* recursive part *)
      assert (Hs' : Forall (fun r => sorted_strict r = true) (map snd sp)).
      { unfold sp. rewrite map_map. apply Forall_forall. intros r Hr. apply in_map_iff in Hr as [r0 [<- Hr0]].
        rewrite Forall_forall in Hs. apply (span_lt_sorted e r0 (Hs _ Hr0)). }
      assert (Hlen' : total_len (map snd sp) <= k).
      { unfold sp. rewrite map_map.
        assert (total_len (map (fun r => snd (span_lt e r)) rs) < total_len rs); [|lia].
        apply total_len_map_lt; [intro; apply span_lt_len|].
        apply Exists_exists. apply Exists_exists in Hatt as [r [Hr Hx]].
        exists r. split; [exact Hr|]. destruct r as [|x tl]; [contradiction|].
        apply span_lt_progress. unfold e. rewrite <- Hx. apply div_upper; exact Hb. }
      rewrite (IH (map snd sp) Hs' Hlen' J i j); [|unfold sp; rewrite !map_length; assumption|assumption].
      (* the row under consideration *)
      set (r := nth i rs []).
      assert (Hr_in : In r rs) by (apply nth_In; exact Hi).
      assert (Hr_s : sorted_strict r = true) by (rewrite Forall_forall in Hs; apply Hs; exact Hr_in).
      assert (Et : nth i (map fst sp) [] = fst (span_lt e r)).
      { unfold sp. rewrite map_map. change [] with (fst (span_lt e (@nil (nat * S)))) at 1.
        rewrite (map_nth (fun r => fst (span_lt e r))). reflexivity. }
      assert (Er : nth i (map snd sp) [] = snd (span_lt e r)).
      { unfold sp. rewrite map_map. change [] with (snd (span_lt e (@nil (nat * S)))) at 1.
        rewrite (map_nth (fun r => snd (span_lt e r))). reflexivity. }
      rewrite Er.
      assert (Esplit : rget r (J * b + j) = (rget (fst (span_lt e r)) (J * b + j) + rget (snd (span_lt e r)) (J * b + j))%S).
      { rewrite (span_lt_app e r) at 1. apply rget_app. }
      fold r. rewrite Esplit.
      destruct (span_lt_sorted e r Hr_s) as (St & Sr & Fr).
      pose proof (span_lt_taken e r) as Ft.
      assert (Flo : Forall (fun x => c * b <= fst x) r).
      { apply sorted_lower; [exact Hr_s|]. rewrite Forall_forall in Hlow. specialize (Hlow r Hr_in).
        destruct r as [|x tl]; [exact I|]. apply div_lower; assumption. }
      assert (Ftr : Forall (fun x => c * b <= fst x < (c + 1) * b) (fst (span_lt e r))).
      { apply Forall_forall. intros x Hx. split.
        - rewrite Forall_forall in Flo. apply Flo. rewrite (span_lt_app e r). apply in_or_app. left; exact Hx.
        - rewrite Forall_forall in Ft. apply Ft. exact Hx. }
      destruct (Nat.eqb_spec c J) as [->|Hne].
      * rewrite bget_blk_of by (unfold sp; rewrite ?map_length; assumption).
        rewrite Et. rewrite (blk_entry_rget b J _ j Hb Hj St Ftr).
        reflexivity.
      * assert (Z : rget (fst (span_lt e r)) (J * b + j) = s0).
        { apply rget_notin. eapply Forall_impl; [|exact Ftr]. simpl. intros x Hx Ex. apply Hne.
          apply (blk_in_range b c J j Hj). lia. }
        rewrite Z. ring.
    + simpl. pose proof (heads_min_none b rs Hm) as Hn. rewrite all_nil_nth by exact Hn. reflexivity.
Qed.

(* ---------------------------------------------------------------- unblock *)
Lemma rget_expand (v : nat -> S) base n key :
  rget (map (fun j => ((base + j)%nat, v j)) (seq 0 n)) key =
  if (Nat.leb base key && Nat.ltb key (base + n))%bool then v (key - base) else s0.
Proof.
  induction n as [|n IH].
  { simpl map. rewrite (rget_nil key).
    destruct (Nat.leb_spec base key); destruct (Nat.ltb_spec key (base + 0)); simpl; try reflexivity; lia. }
  rewrite seq_S, map_app, rget_app, IH. simpl map. rewrite (rget_cons Srt), (rget_nil key). simpl fst; simpl snd.
  destruct (Nat.leb_spec base key); simpl;
    destruct (Nat.ltb_spec key (base + n)); destruct (Nat.ltb_spec key (base + Datatypes.S n));
    destruct (Nat.eqb_spec (base + n) key); try lia; try ring.
  replace (key - base) with n by lia. ring.
Qed.

Lemma unblock_row_dense b (br : grow (@block S)) ii J jj : 0 < b -> jj < b ->
  rget (flat_map (fun cv => map (fun j => ((fst cv * b + j)%nat, bget (snd cv) ii j)) (seq 0 b)) br) (J * b + jj)
  = brget br J ii jj.
Proof.
  intros Hb Hjj. induction br as [|cv br IH]; [reflexivity|].
  simpl flat_map. rewrite rget_app, IH. cbn [brget fold_right]. fold (brget br J ii jj).
  rewrite (rget_expand (fun j => bget (snd cv) ii j) (fst cv * b) b (J * b + jj)).
  destruct (Nat.eqb_spec (fst cv) J) as [->|Hne].
  - replace (Nat.leb (J * b) (J * b + jj)) with true by (symmetry; apply Nat.leb_le; lia).
    replace (Nat.ltb (J * b + jj) (J * b + b)) with true by (symmetry; apply Nat.ltb_lt; lia).
    simpl. replace (J * b + jj - J * b) with jj by lia. reflexivity.
  - destruct (Nat.leb_spec (fst cv * b) (J * b + jj)); simpl; [|reflexivity].
    destruct (Nat.ltb_spec (J * b + jj) (fst cv * b + b)); [|reflexivity].
    exfalso. apply Hne. apply (blk_in_range b (fst cv) J jj Hjj). lia.
Qed.

Lemma nth_flat_map_const {X Y} (f : X -> list Y) (l : list X) b I ii (dx : X) (dy : Y) :
  (forall x, length (f x) = b) -> I < length l -> ii < b ->
  nth (I * b + ii) (flat_map f l) dy = nth ii (f (nth I l dx)) dy.
Proof.
  intros Hf. revert I; induction l as [|x l IH]; intros I HI Hii; simpl in HI; [lia|].
  simpl flat_map. destruct I as [|I].
  - simpl. rewrite app_nth1 by (rewrite Hf; exact Hii). reflexivity.
  - rewrite app_nth2 by (rewrite Hf; nia).
    rewrite Hf. replace (Datatypes.S I * b + ii - b) with (I * b + ii) by nia.
    simpl nth. apply IH; [lia|exact Hii].
Qed.

Lemma nth_map_seq {Y} (g : nat -> Y) n i d : i < n -> nth i (map g (seq 0 n)) d = g i.
Proof.
  intro Hi. rewrite (nth_indep _ d (g 0)) by (rewrite map_length, seq_length; exact Hi).
  rewrite (map_nth g). rewrite seq_nth by exact Hi. reflexivity.
Qed.

Lemma unblock_rows_nth b (G : gcrs (@block S)) I ii : I < length (grows G) -> ii < b ->
  nth (I * b + ii) (rows (unblock b G)) [] =
  flat_map (fun cv => map (fun j => ((fst cv * b + j)%nat, bget (snd cv) ii j)) (seq 0 b)) (nth I (grows G) []).
Proof.
  intros HI Hii. unfold unblock. cbn [rows].
  erewrite (nth_flat_map_const _ _ b I ii []);
    [|intro; rewrite map_length, seq_length; reflexivity|exact HI|exact Hii].
  rewrite nth_map_seq by exact Hii. reflexivity.
Qed.

(* C13-A1: densely, unblock (block A) = A *)
Theorem unblock_block_dense (b : nat) (A : crs) i j :
  0 < b -> nrows A mod b = 0 -> ncols A mod b = 0 ->
  Forall (fun r => sorted_strict r = true) (rows A) ->
  i < nrows A -> j < ncols A ->
  mget (unblock b (to_gcrs (block_adapter b (crs_view A)))) i j = mget A i j.
Proof.
  intros Hb Hr Hc Hs Hi Hj.
  assert (Er : nrows A = (nrows A / b) * b).
  { pose proof (Nat.div_mod (nrows A) b ltac:(lia)). lia. }
  set (I := i / b). set (ii := i mod b). set (J := j / b). set (jj := j mod b).
  assert (Ei : i = I * b + ii) by (unfold I, ii; pose proof (Nat.div_mod i b ltac:(lia)); lia).
  assert (Ej : j = J * b + jj) by (unfold J, jj; pose proof (Nat.div_mod j b ltac:(lia)); lia).
  assert (Hii : ii < b) by (apply Nat.mod_upper_bound; lia).
  assert (Hjj : jj < b) by (apply Nat.mod_upper_bound; lia).
  assert (HI : I < nrows A / b) by (apply Nat.div_lt_upper_bound; lia).
  set (G := to_gcrs (block_adapter b (crs_view A))).
  assert (HG : length (grows G) = nrows A / b).
  { unfold G, to_gcrs. cbn [grows block_adapter a_rows crs_view]. rewrite map_length, seq_length. reflexivity. }
  set (rs := map (fun k => nth (I * b + k) (rows A) []) (seq 0 b)).
  assert (Grow : nth I (grows G) [] = block_row (total_len rs) b rs).
  { unfold G, to_gcrs. cbn [grows block_adapter a_rows a_row crs_view].
    rewrite nth_map_seq by exact HI. reflexivity. }
  unfold mget. rewrite Ei at 1. rewrite unblock_rows_nth by (rewrite ?HG; assumption).
  rewrite Ej at 1. rewrite (unblock_row_dense b _ ii J jj Hb Hjj). rewrite Grow.
  rewrite (block_row_dense b Hb).
  - unfold rs. rewrite nth_map_seq by exact Hii. rewrite <- Ei, <- Ej. reflexivity.
  - apply Forall_forall. intros r Hr'. unfold rs in Hr'. apply in_map_iff in Hr' as [k [<- Hk]]. apply in_seq in Hk.
    rewrite Forall_forall in Hs. apply Hs. apply nth_In. unfold nrows in *. nia.
  - lia.
  - unfold rs. rewrite map_length, seq_length. exact Hii.
  - exact Hjj.
Qed.

Theorem unblock_block_dims (b : nat) (A : crs) :
  0 < b -> nrows A mod b = 0 -> ncols A mod b = 0 ->
  nrows (unblock b (to_gcrs (block_adapter b (crs_view A)))) = nrows A /\
  ncols (unblock b (to_gcrs (block_adapter b (crs_view A)))) = ncols A.
Proof.
  intros Hb Hr Hc. split.
  - unfold nrows at 1, unblock. cbn [rows to_gcrs grows block_adapter a_rows a_row crs_view].
    assert (L : forall (l : list (grow (@block S))),
               length (flat_map (fun br => map (fun i => flat_map (fun cv => map (fun j => ((fst cv * b + j)%nat, bget (snd cv) i j)) (seq 0 b)) br) (seq 0 b)) l)
               = length l * b).
    { induction l as [|x l IH]; [reflexivity|]. simpl flat_map. rewrite app_length, IH, map_length, seq_length. simpl. lia. }
    rewrite L, map_length, seq_length.
    pose proof (Nat.div_mod (nrows A) b ltac:(lia)). lia.
  - unfold unblock. cbn [ncols to_gcrs gncols block_adapter a_cols crs_view].
    pose proof (Nat.div_mod (ncols A) b ltac:(lia)). lia.
Qed.

(* consequence: the scalar matrix recovered from the block matrix has the same action *)
Theorem unblock_block_Ax (b : nat) (A : crs) (x : vec) i :
  0 < b -> nrows A mod b = 0 -> ncols A mod b = 0 ->
  Forall (fun r => sorted_strict r = true) (rows A) ->
  i < nrows A ->
  Ax (unblock b (to_gcrs (block_adapter b (crs_view A)))) x i = Ax A x i.
Proof.
  intros Hb Hr Hc Hs Hi. unfold Ax.
  destruct (unblock_block_dims b A Hb Hr Hc) as [_ Ec]. rewrite Ec.
  apply sumn_ext. intros j Hj. rewrite unblock_block_dense by assumption. reflexivity.
Qed.

End Ring.
