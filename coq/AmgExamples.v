(* AmgExamples.v -- boolean checkers (with soundness lemmas) for the side conditions of the
   C02 theorems, and a concrete hierarchy over the exact rationals used by the non-vacuity
   examples of Properties_C02.v / Properties_C03.v. *)
From Coq Require Import QArith Qcanon.
From Amgcl Require Import Scalar QcInst Vec Crs Kernels KernelsProofs MatOps MatOpsProofs Relax DenseSolve
  Amg AmgExec AmgProofs AmgProofs2 AmgProofs3 AmgProofs4 AmgProofs5 AmgProofs6 AmgProofs7 AmgProofs8 AmgProofs10 AmgOrder AmgProofs11 AmgProofs12.
From Amgcl Require Export AmgExampleData.
Local Close Scope Qc_scope.
Local Close Scope Q_scope.
Local Open Scope S_scope.

Section Checkers.
Context {S : Scalar}.
Local Notation crs := (crs S).

Definition solve_check (ls : list (@ldesc S)) : bool :=
  forallb (fun l => match l with
                    | LSolve A => Nat.eqb (ncols A) (nrows A) && solvable A
                    | _ => true end) ls.

Lemma solve_check_ok ls : solve_check ls = true ->
  forall A, In (LSolve A) ls -> ncols A = nrows A /\ solvable A = true.
Proof.
  intros H A HA. unfold solve_check in H. rewrite forallb_forall in H. specialize (H _ HA).
  simpl in H. apply andb_prop in H as [H1 H2]. apply Nat.eqb_eq in H1. auto.
Qed.

Fixpoint ts_wfb (n : nat) (ts : list (option (crs * crs))) : bool :=
  match ts with
  | Some (P, R) :: ts' => wf P && wf R && Nat.eqb (nrows P) n && ts_wfb (nrows R) ts'
  | _ => true
  end.

Lemma ts_wfb_ok ts : forall n, ts_wfb n ts = true -> ts_wf n ts.
Proof.
  induction ts as [|[[P R]|] ts' IH]; intros n H; simpl in *; auto.
  apply andb_prop in H as [H H4]. apply andb_prop in H as [H H3]. apply andb_prop in H as [H1 H2].
  apply Nat.eqb_eq in H3. auto.
Qed.

Hypothesis Seqb : seqb_spec S.

Definition sym_matb (n : nat) (A : crs) : bool :=
  Nat.eqb (ncols A) n &&
  forallb (fun i => forallb (fun j => seqb (mget A i j) (mget A j i)) (seq 0 n)) (seq 0 n).

Lemma sym_matb_ok n A : sym_matb n A = true -> sym_mat n A.
Proof.
  intro H. apply andb_prop in H as [H1 H2]. apply Nat.eqb_eq in H1. split; [exact H1|].
  intros i j Hi Hj. rewrite forallb_forall in H2.
  assert (Hi' : In i (seq 0 n)) by (apply in_seq; lia). specialize (H2 i Hi').
  rewrite forallb_forall in H2. apply Seqb, H2. apply in_seq; lia.
Qed.

Definition transpb (n n' : nat) (R P : crs) : bool :=
  Nat.eqb (ncols R) n && Nat.eqb (ncols P) n' &&
  forallb (fun i => forallb (fun j => seqb (mget R i j) (mget P j i)) (seq 0 n)) (seq 0 n').

Lemma transpb_ok n n' R P : transpb n n' R P = true -> transp n n' R P.
Proof.
  intro H. apply andb_prop in H as [H H3]. apply andb_prop in H as [H1 H2].
  apply Nat.eqb_eq in H1, H2. split; [exact H1|]. split; [exact H2|].
  intros i j Hi Hj. rewrite forallb_forall in H3.
  assert (Hi' : In i (seq 0 n')) by (apply in_seq; lia). specialize (H3 i Hi').
  rewrite forallb_forall in H3. apply Seqb, H3. apply in_seq; lia.
Qed.

Fixpoint ts_symb (n : nat) (ts : list (option (crs * crs))) : bool :=
  match ts with
  | Some (P, R) :: ts' => wf P && wf R && Nat.eqb (nrows P) n && transpb n (nrows R) R P
                          && ts_symb (nrows R) ts'
  | _ => true
  end.

Lemma ts_symb_ok ts : forall n, ts_symb n ts = true -> ts_sym n ts.
Proof.
  induction ts as [|[[P R]|] ts' IH]; intros n H; simpl in *; auto.
  apply andb_prop in H as [H H5]. apply andb_prop in H as [H H4]. apply andb_prop in H as [H H3].
  apply andb_prop in H as [H1 H2]. apply Nat.eqb_eq in H3. apply transpb_ok in H4.
  split; [exact H1|]. split; [exact H2|]. split; [exact H3|]. split; [exact H4|]. apply IH, H5.
Qed.

Definition solve_sym_check (ls : list (@ldesc S)) : bool :=
  forallb (fun l => match l with
                    | LSolve A => solvable A && sym_matb (nrows A) A
                    | _ => true end) ls.

Lemma solve_sym_check_ok ls : solve_sym_check ls = true ->
  forall A, In (LSolve A) ls -> solvable A = true /\ sym_mat (nrows A) A.
Proof.
  intros H A HA. unfold solve_sym_check in H. rewrite forallb_forall in H. specialize (H _ HA).
  simpl in H. apply andb_prop in H as [H1 H2]. split; [exact H1|apply sym_matb_ok, H2].
Qed.

Definition gs_diag_okb (A : crs) : bool :=
  forallb (fun i => let d := gsD i (nth i (rows A) []) s1 in
                    negb (seqb d s0) && seqb (mget A i i) d) (seq 0 (nrows A)).

Lemma gs_diag_okb_ok A : gs_diag_okb A = true -> gs_diag_ok A.
Proof.
  intros H i Hi. unfold gs_diag_okb in H. rewrite forallb_forall in H.
  assert (Hi' : In i (seq 0 (nrows A))) by (apply in_seq; lia). specialize (H i Hi').
  cbv zeta in H. apply andb_prop in H as [H1 H2]. split.
  - intro E. apply negb_true_iff in H1. rewrite E in H1.
    assert (seqb (@s0 S) s0 = true) by (apply Seqb; reflexivity). congruence.
  - apply Seqb, H2.
Qed.

Lemma gs_levels_check (ls : list (@ldesc S)) :
  forallb (fun l => gs_diag_okb (ld_A l)) ls = true -> forall l, In l ls -> gs_diag_ok (ld_A l).
Proof. intros H l Hl. rewrite forallb_forall in H. apply gs_diag_okb_ok, H, Hl. Qed.

End Checkers.

Definition exLvls := std_levels exJac exH.
Definition exLvls' := std_levels exJac exH'.
Definition exLvlsGS := std_levels (@RGS QcS) exH'.
Definition exLvlsGSd := std_levels (@RGS QcS) exH.

(* scratch well-formedness as a boolean on the level sizes *)
Section ScrCheck.
Context {S : Scalar}.
Fixpoint scr_okb (sizes : list nat) (scr : list (@scratch S)) : bool :=
  match sizes, scr with
  | [], [] => true
  | n :: ns, s :: ss =>
    Nat.eqb (length (sf s)) n && Nat.eqb (length (su s)) n && Nat.eqb (length (st s)) n && scr_okb ns ss
  | _, _ => false
  end.

Lemma scr_okb_ok (lvls : list (@level S)) : forall scr,
  scr_okb (map (fun l => nrows (lA l)) lvls) scr = true -> scratch_wf lvls scr.
Proof.
  induction lvls as [|l ls IH]; intros [|s ss] H; simpl in *; try discriminate; [exact I|].
  apply andb_prop in H as [H H4]. apply andb_prop in H as [H H3]. apply andb_prop in H as [H1 H2].
  apply Nat.eqb_eq in H1, H2, H3. split; [unfold scr_ok; auto|apply IH, H4].
Qed.

Lemma std_levels_sizes (k : @relax_kind S) (ls : list (@ldesc S)) :
  map (fun l => nrows (lA l)) (std_levels k ls) = map (fun l => nrows (ld_A l)) ls.
Proof.
  unfold std_levels. rewrite map_map. apply map_ext. intro l. rewrite inst_lA. reflexivity.
Qed.

Lemma std_scratch_check (k : @relax_kind S) (ls : list (@ldesc S)) scr :
  scr_okb (map (fun l => nrows (ld_A l)) ls) scr = true -> scratch_wf (std_levels k ls) scr.
Proof. intro H. apply scr_okb_ok. rewrite std_levels_sizes. exact H. Qed.
End ScrCheck.

(* checkers for the M-matrix side conditions of C02-B1 *)
Section SpdCheck.
Context {S : Scalar}.
Hypothesis Seqb : seqb_spec S.
Local Notation crs := (crs S).

Definition mmatb (n : nat) (A : crs) : bool :=
  sym_matb n A &&
  forallb (fun i => forallb (fun j => Nat.eqb i j || negb (sltb s0 (mget A i j))) (seq 0 n)) (seq 0 n) &&
  forallb (fun i => sltb s0 (mget A i i)) (seq 0 n) &&
  forallb (fun i => negb (sltb (mget A i i) (Cs n A i))) (seq 0 n).

Lemma mmatb_ok n A : mmatb n A = true -> mmat n A.
Proof.
  intro H. unfold mmatb in H.
  apply andb_prop in H as [H H4]. apply andb_prop in H as [H H3]. apply andb_prop in H as [H1 H2].
  rewrite forallb_forall in H2, H3, H4.
  assert (Hin : forall i, i < n -> In i (seq 0 n)) by (intros; apply in_seq; lia).
  split; [apply (sym_matb_ok Seqb), H1|]. split; [|split].
  - intros i j Hi Hj Hne. specialize (H2 i (Hin i Hi)). rewrite forallb_forall in H2.
    specialize (H2 j (Hin j Hj)). apply orb_prop in H2 as [E|E].
    + apply Nat.eqb_eq in E. contradiction.
    + unfold ole. apply negb_true_iff, E.
  - intros i Hi. apply (H3 i (Hin i Hi)).
  - intros i Hi. unfold ole. apply negb_true_iff, (H4 i (Hin i Hi)).
Qed.

Definition fdiagb (A : crs) : bool :=
  forallb (fun i => match first_col (nth i (rows A) []) i with
                    | Some d => seqb d (mget A i i) | None => false end) (seq 0 (nrows A)).

Lemma fdiagb_ok A : fdiagb A = true -> fdiag_ok A.
Proof.
  intros H i Hi. unfold fdiagb in H. rewrite forallb_forall in H.
  specialize (H i ltac:(apply in_seq; lia)).
  destruct (first_col (nth i (rows A) []) i) as [d|]; [|discriminate]. apply Seqb in H. congruence.
Qed.

Definition lvl_spdb (A : crs) : bool := wf A && mmatb (nrows A) A && fdiagb A && gs_diag_okb A.

Lemma lvl_spdb_ok A : lvl_spdb A = true -> lvl_spd A.
Proof.
  intro H. unfold lvl_spdb in H.
  apply andb_prop in H as [H H4]. apply andb_prop in H as [H H3]. apply andb_prop in H as [H1 H2].
  split; [exact H1|]. split; [apply mmatb_ok, H2|]. split; [apply fdiagb_ok, H3|apply (gs_diag_okb_ok Seqb), H4].
Qed.

Fixpoint descs_spdb (ls : list (@ldesc S)) : bool :=
  match ls with
  | [] => true
  | LMid A P R :: tl => lvl_spdb A && wf P && wf R && Nat.eqb (nrows P) (nrows A) &&
                        transpb (nrows A) (nrows R) R P && descs_spdb tl
  | LLast A :: tl => lvl_spdb A && descs_spdb tl
  | LSolve A :: tl => lvl_spdb A && descs_spdb tl
  end.

Lemma descs_spdb_ok ls : descs_spdb ls = true -> descs_spd ls.
Proof.
  induction ls as [|l tl IH]; intro H; [exact I|]. destruct l as [A P R|A|A]; simpl in *.
  - apply andb_prop in H as [H H6]. apply andb_prop in H as [H H5]. apply andb_prop in H as [H H4].
    apply andb_prop in H as [H H3]. apply andb_prop in H as [H1 H2].
    split; [apply lvl_spdb_ok, H1|]. split; [exact H2|]. split; [exact H3|].
    split; [apply Nat.eqb_eq, H4|]. split; [apply (transpb_ok Seqb), H5|apply IH, H6].
  - apply andb_prop in H as [H1 H2]. split; [apply lvl_spdb_ok, H1|apply IH, H2].
  - apply andb_prop in H as [H1 H2]. split; [apply lvl_spdb_ok, H1|apply IH, H2].
Qed.
End SpdCheck.
