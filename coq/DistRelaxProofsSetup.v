(* DistRelaxProofsSetup.v -- C12: the set-up phase of the two point smoothers under MPI
   (amgcl/mpi/relaxation/spai0.hpp:55-90 and relaxation::damped_jacobi( *A.local() ) in mpi/relaxation/runtime.hpp),
   as modelled in DistRelax.v, computes on every rank the rank's slice of what the serial smoother (Relax.v)
   computes for the whole matrix -- for every contiguous partition (empty ranks included).

     dist_spai0_setup_split  : dist_spai0_setup (split A parts parts) = chunks parts (spai0_setup A)
         the denominator sum |a_ij|^2 is summed over the local and then the remote entries of the row (needs that +
         is a commutative monoid: ring laws as a Section hypothesis), the numerator only sees the local part (an entry
         in the diagonal column is local);
     dist_jacobi_setup_split : dist_jacobi_setup (split A parts parts) (chunks parts junk)
                               = chunks parts (jacobi_setup A junk)
         no algebraic law; rows without a diagonal entry keep the rank's slice of the uninitialised memory [junk].

   The only hypothesis on the data is psum parts = nrows A. *)
From Amgcl Require Import Scalar Vec Crs Kernels KernelsProofs MatOps Relax Dist DistProofs DistProofsG DistRelax.
Local Open Scope nat_scope.

(* ------------------------------------------------------------------ lists *)
Section ListSetup.
Context {X : Type}.

Lemma chunks_of_concat (Ls : list (list X)) : chunks (map (@length X) Ls) (concat Ls) = Ls.
Proof.
  induction Ls as [|L Ls IH]; simpl; [reflexivity|].
  rewrite firstn_length_app. f_equal.
  rewrite skipn_app, skipn_all, Nat.sub_diag. simpl. exact IH.
Qed.

Lemma chunk_full_length (parts : list nat) (l : list X) r : r < length parts -> psum parts = length l ->
  length (nth r (chunks parts l) []) = psize parts r.
Proof.
  intros Hr Hl. rewrite nth_chunks by exact Hr. rewrite firstn_length, skipn_length.
  pose proof (pbeg_le_psum parts r). unfold psize. lia.
Qed.

End ListSetup.

(* a world of per-rank results that are maps over the rank's numbered rows = the chunks of the serial map *)
Lemma world_of_rows {X Y} (f : nat * X -> Y) (parts : list nat) (l : list X) : psum parts = length l ->
  map (fun r => map f (indexed_from (pbeg parts r) (nth r (chunks parts l) []))) (seq 0 (length parts))
  = chunks parts (map f (indexed l)).
Proof.
  intro Hl. rewrite indexed_is_from. rewrite <- (indexed_chunks parts 0 l) by lia.
  rewrite concat_map, map_map. cbn [Nat.add].
  set (Ls := map _ (seq 0 (length parts))).
  assert (E : map (@length Y) Ls = parts).
  { unfold Ls. rewrite map_map.
    apply (nth_ext _ _ 0 0).
    - rewrite map_length, seq_length. reflexivity.
    - intros r Hr. rewrite map_length, seq_length in Hr.
      rewrite nth_map_seq by exact Hr. rewrite map_length. unfold indexed_from.
      rewrite combine_length, seq_length, Nat.min_id. apply chunk_full_length; assumption. }
  pose proof (chunks_of_concat Ls) as C. rewrite E in C. symmetry. exact C.
Qed.

(* ------------------------------------------------------------------ damped_jacobi: no algebraic law *)
Section SetupJacobi.
Context {S : Scalar}.
Local Notation vec := (vec S).
Local Notation row := (row S).
Local Notation crs := (crs S).

Lemma in_range_intro (b n i : nat) : i < n -> in_range b n (b + i) = true.
Proof.
  intro H. unfold in_range. apply andb_true_intro. split; [apply Nat.leb_le; lia|apply Nat.ltb_lt; lia].
Qed.

Lemma first_col_loc_row' (b n : nat) (rw : row) (i : nat) : i < n ->
  first_col (loc_row b n rw) i = first_col rw (b + i).
Proof.
  intro Hi. induction rw as [|[c v] rw IH]; [reflexivity|].
  unfold loc_row. cbn [filter fst]. destruct (in_range b n c) eqn:Er.
  - cbn [map first_col fst snd]. fold (loc_row b n rw). rewrite IH.
    replace (Nat.eqb (c - b) i) with (Nat.eqb c (b + i)); [reflexivity|].
    unfold in_range in Er. apply andb_prop in Er as [H1 H2]. apply Nat.leb_le in H1.
    destruct (Nat.eqb_spec c (b + i)); destruct (Nat.eqb_spec (c - b) i); try reflexivity; lia.
  - fold (loc_row b n rw). rewrite IH. cbn [first_col].
    replace (Nat.eqb c (b + i)) with false; [reflexivity|].
    symmetry. apply Nat.eqb_neq. intro E. subst c. rewrite in_range_intro in Er by exact Hi. discriminate.
Qed.

Definition jrow (junk : vec) (ir : nat * row) : S :=
  match first_col (snd ir) (fst ir) with Some d => diag_val true d | None => vget junk (fst ir) end.

Lemma rank_jacobi_spec (b n gc : nat) (rws : list row) (junkr junk : vec) : length rws <= n ->
  (forall i, i < n -> vget junkr i = vget junk (b + i)) ->
  jacobi_setup (rm_loc (split_rows b n gc rws)) junkr = map (jrow junk) (indexed_from b rws).
Proof.
  intros Hn Hj. unfold jacobi_setup, diagonal, split_rows. cbn [rm_loc rows].
  rewrite (indexed_from_shift b rws). rewrite map_map.
  unfold indexed, indexed_from. rewrite map_length.
  set (ix := seq 0 (length rws)).
  assert (Hix : forall i, In i ix -> i < n) by (intros i Hi; apply in_seq in Hi; lia).
  clearbody ix. clear Hn. revert ix Hix.
  induction rws as [|rw rws IH]; intros ix Hix; destruct ix as [|i ix]; simpl; try reflexivity.
  assert (Hi : i < n) by (apply Hix; left; reflexivity).
  f_equal.
  - unfold jrow. cbn [fst snd]. rewrite first_col_loc_row' by exact Hi. rewrite Hj by exact Hi. reflexivity.
  - apply IH. intros j Hj'. apply Hix. right. exact Hj'.
Qed.

Theorem dist_jacobi_setup_split (A : crs) (parts : list nat) (junk : vec) :
  psum parts = nrows A ->
  dist_jacobi_setup (Dist.split A parts parts) (chunks parts junk) = chunks parts (jacobi_setup A junk).
Proof.
  intro Hp. unfold nrows in Hp. unfold dist_jacobi_setup, nranks, rk.
  change (dm_cparts (Dist.split A parts parts)) with parts.
  unfold jacobi_setup at 2. unfold diagonal. fold (jrow junk).
  rewrite <- (world_of_rows (jrow junk) parts (rows A) Hp).
  apply map_ext_in. intros r Hr. apply in_seq in Hr.
  unfold Dist.split. cbn [dm_ranks]. rewrite nth_map_seq by lia. unfold split_rank.
  apply rank_jacobi_spec.
  - rewrite chunk_full_length by (lia || exact Hp). lia.
  - intros i Hi. rewrite <- (vget_chunk parts junk r (pbeg parts r + i)) by lia.
    f_equal. lia.
Qed.

End SetupJacobi.

(* ------------------------------------------------------------------ spai0: + is a commutative monoid *)
Section Setup.
Context {S : Scalar}.
Hypothesis Srt : Sring S.
Add Ring SRingDistRelaxSetup : Srt.
Local Notation vec := (vec S).
Local Notation row := (row S).
Local Notation crs := (crs S).
Local Open Scope S_scope.

(* ---- one row ---- *)
Definition sden (r : row) : S := fold_right (fun e acc => sabs (snd e) * sabs (snd e) + acc) s0 r.
Definition snum (i : nat) (r : row) (a : S) : S :=
  fold_left (fun a e => if Nat.eqb (fst e) i then a + sadj (snd e) else a) r a.

Lemma den_fold (r : row) (a : S) :
  fold_left (fun dn e => let nv := sabs (snd e) in dn + nv * nv) r a = a + sden r.
Proof. revert a; induction r as [|e r IH]; intro a; simpl; [ring|]. rewrite IH. ring. Qed.

Lemma spai0_pair_fold (i : nat) (r : row) (a d : S) :
  fold_left (fun (nd : S * S) e =>
        let nv := sabs (snd e) in
        (if Nat.eqb (fst e) i then fst nd + sadj (snd e) else fst nd, snd nd + nv * nv)) r (a, d)
  = (snum i r a, d + sden r).
Proof.
  unfold snum. revert a d; induction r as [|e r IH]; intros a d; simpl.
  - f_equal. ring.
  - rewrite IH. f_equal. ring.
Qed.

Lemma sden_filter_split (p : nat * S -> bool) (r : row) :
  sden (filter p r) + sden (filter (fun e => negb (p e)) r) = sden r.
Proof.
  induction r as [|e r IH]; simpl; [ring|].
  destruct (p e); simpl; rewrite <- IH; ring.
Qed.

Lemma sden_reindex (g : nat -> nat) (r : row) : sden (map (fun e => (g (fst e), snd e)) r) = sden r.
Proof. induction r as [|e r IH]; simpl; [reflexivity|rewrite IH; reflexivity]. Qed.

(* the diagonal test on local numbers = the diagonal test on global numbers *)
Lemma snum_loc_row (b n g : nat) (r : row) (a : S) : in_range b n g = true ->
  snum (g - b) (loc_row b n r) a = snum g r a.
Proof.
  intro Hg. unfold snum, loc_row. revert a; induction r as [|e r IH]; intro a; simpl; [reflexivity|].
  unfold in_range in Hg. apply andb_prop in Hg as [Hg1 Hg2].
  apply Nat.leb_le in Hg1. apply Nat.ltb_lt in Hg2.
  destruct (in_range b n (fst e)) eqn:E; simpl.
  - unfold in_range in E. apply andb_prop in E as [E1 E2]. apply Nat.leb_le in E1.
    assert (Q : Nat.eqb (fst e - b) (g - b) = Nat.eqb (fst e) g).
    { destruct (Nat.eqb_spec (fst e) g) as [->|N]; [apply Nat.eqb_refl|apply Nat.eqb_neq; lia]. }
    rewrite Q. apply IH.
  - assert (Q : Nat.eqb (fst e) g = false).
    { apply Nat.eqb_neq. intro Heq. rewrite Heq in E. unfold in_range in E.
      apply Bool.andb_false_iff in E as [E|E]; [apply Nat.leb_gt in E|apply Nat.ltb_ge in E]; lia. }
    rewrite Q. apply IH.
Qed.

Lemma rank_spai0_row_split (b n g : nat) (r : row) : in_range b n g = true ->
  rank_spai0_row (g - b) (loc_row b n r) (rem_row b n r) = spai0_row g r.
Proof.
  intro Hg. unfold rank_spai0_row, spai0_row. rewrite !spai0_pair_fold. rewrite den_fold.
  rewrite (snum_loc_row b n g r s0 Hg).
  assert (E : s0 + sden (loc_row b n r) + sden (rem_row b n r) = s0 + sden r).
  { unfold loc_row, rem_row. rewrite (sden_reindex (fun c => (c - b)%nat)).
    rewrite <- (sden_filter_split (fun e => in_range b n (fst e)) r). ring. }
  rewrite E. reflexivity.
Qed.

(* ---- one rank ---- *)
Definition srow (ir : nat * row) : S := spai0_row (fst ir) (snd ir).

Lemma rank_spai0_spec (b n gc : nat) (rws : list row) : (length rws <= n)%nat ->
  rank_spai0 (split_rows b n gc rws) = map srow (indexed_from b rws).
Proof.
  intro Hn. unfold rank_spai0, split_rows. cbn [rm_loc rm_rem rows]. rewrite map_combine_maps.
  rewrite (indexed_from_shift b rws). rewrite map_map.
  unfold indexed, indexed_from. rewrite map_length.
  set (ix := seq 0 (length rws)).
  assert (Hix : forall i, In i ix -> (i < n)%nat) by (intros i Hi; apply in_seq in Hi; lia).
  clearbody ix. clear Hn. revert ix Hix.
  induction rws as [|rw rws IH]; intros ix Hix; destruct ix as [|i ix]; simpl; try reflexivity.
  f_equal.
  - unfold srow. simpl. rewrite <- (rank_spai0_row_split b n (b + i) rw).
    + replace (b + i - b)%nat with i by lia. reflexivity.
    + apply in_range_intro. apply Hix. left. reflexivity.
  - apply IH. intros j Hj. apply Hix. right. exact Hj.
Qed.

(* ---- the world ---- *)
Theorem dist_spai0_setup_split (A : crs) (parts : list nat) :
  psum parts = nrows A ->
  dist_spai0_setup (Dist.split A parts parts) = chunks parts (spai0_setup A).
Proof.
  intro Hp. unfold nrows in Hp. unfold dist_spai0_setup, nranks, rk.
  change (dm_cparts (Dist.split A parts parts)) with parts.
  unfold spai0_setup. fold srow.
  rewrite <- (world_of_rows srow parts (rows A) Hp).
  apply map_ext_in. intros r Hr. apply in_seq in Hr.
  unfold Dist.split. cbn [dm_ranks]. rewrite nth_map_seq by lia. unfold split_rank.
  apply rank_spai0_spec.
  rewrite chunk_full_length by (lia || exact Hp). lia.
Qed.

End Setup.

Print Assumptions dist_spai0_setup_split.
Print Assumptions dist_jacobi_setup_split.
