(* Extract_fileio.v -- extraction of the file-format models (C19) to OCaml.
   (Named after the driver group "fileio": the runner pairs coq/Extract_<group>.v with
   ocaml/<group>/ and harness/drv_<group>.cpp.)
   Directives: the shared ones of ExtractCommon.v plus ExtrOcamlNativeString
   (string -> OCaml string, ascii -> char) for the tokens of the MatrixMarket model. *)
From Amgcl Require Import ExtractCommon.
From Coq Require Import ExtrOcamlNativeString.
From Coq Require Import QArith Qcanon.
From Amgcl Require Import Scalar QcInst Vec Crs MMFormat BinFormat.
Separate Extraction
  QcInst.QcS Scalar.is_zero Vec Crs
  MMFormat BinFormat.
