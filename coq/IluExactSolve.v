(* IluExactSolve.v -- when the triangular factors fit A exactly, i.e.
   (I + L)(D^-1 + U) = A entrywise (lu_entry L U D i j = mget A i j for all
   i, j < n), the substitution sweep ilu_solve returns an exact solution of
   A x = b.  Pure algebra over a field on top of ilu_solve_spec_field. *)
From Amgcl Require Import Scalar Vec Crs Kernels KernelsProofs MatOps Relax Ilu IluProofs.
Local Open Scope S_scope.

Section ExactSolve.
Context {S : Scalar}.
Local Notation vec := (vec S).
Local Notation crs := (crs S).
Hypothesis Sft : Sfield S.
Add Field SField : Sft.
Let Srt := F_R Sft.

(* ---------------- finite sums ---------------- *)
Lemma sumn_scal_r (a : S) (f : nat -> S) n : sumn (fun i => f i * a) n = sumn f n * a.
Proof. induction n as [|n IH]; simpl; [ring|rewrite IH; ring]. Qed.

(* exchange of two finite sums *)
Lemma sumn_exchange (f : nat -> nat -> S) m n :
  sumn (fun j => sumn (fun k => f k j) m) n = sumn (fun k => sumn (fun j => f k j) n) m.
Proof.
  induction n as [|n IH]; simpl.
  - rewrite (sumn_zero Srt). reflexivity.
  - rewrite IH. rewrite <- (sumn_add Srt). reflexivity.
Qed.

(* a sum may be extended by vanishing terms *)
Lemma sumn_extend (f : nat -> S) n m :
  n <= m -> (forall k, n <= k -> k < m -> f k = s0) -> sumn f m = sumn f n.
Proof.
  intros Hnm. induction Hnm as [|m Hnm IH]; intro Hz; [reflexivity|].
  simpl. rewrite IH by (intros; apply Hz; lia). rewrite Hz by lia. ring.
Qed.

(* ---------------- the upper factor with its diagonal ---------------- *)
(* entry (k,j) of D^-1 + U *)
Definition Up (U : crs) (D : vec) (k j : nat) : S :=
  if Nat.eqb k j then sinv (vget D k) else mget U k j.

Lemma lu_entry_Up (L U : crs) (D : vec) i j :
  lu_entry L U D i j = sumn (fun k => mget L i k * Up U D k j) i + Up U D i j.
Proof. reflexivity. Qed.

(* row k of (D^-1 + U) x, split into the diagonal term and the strict part *)
Lemma Up_row_sum n (U : crs) (D x : vec) k :
  strict_upper n U -> k < n ->
  sumn (fun j => Up U D k j * vget x j) n
  = sinv (vget D k) * vget x k + sumn (fun j => mget U k j * vget x j) n.
Proof.
  intros HU Hk.
  rewrite (sumn_ext _ (fun j => (if Nat.eqb k j then sinv (vget D k) * vget x k else s0)
                                + mget U k j * vget x j)).
  - rewrite (sumn_add Srt), (sumn_delta Srt).
    replace (k <? n)%nat with true by (symmetry; apply Nat.ltb_lt; exact Hk). reflexivity.
  - intros j _. unfold Up. destruct (Nat.eqb_spec k j) as [<-|Hne].
    + rewrite (mget_upper_zero n U k k HU) by lia. ring.
    + ring.
Qed.

(* (E2) in Up form: (D^-1 + U) x = y with y the forward-substitution result *)
Theorem ilu_solve_upper_eq (L U : crs) (D b : vec) :
  strict_lower L -> strict_upper (nrows L) U -> length b = nrows L ->
  forall k, k < nrows L -> vget D k <> s0 ->
    sumn (fun j => Up U D k j * vget (ilu_solve L U D b) j) (nrows L) = vget (lsolve L b) k.
Proof.
  intros HL HU Hb k Hk HD.
  rewrite (Up_row_sum (nrows L) U D _ k HU Hk).
  apply (ilu_solve_spec_field Sft L U D b HL HU Hb k Hk HD).
Qed.

(* (E1) with the sum cut at the diagonal *)
Lemma lsolve_lower_eq (L : crs) (b : vec) :
  strict_lower L -> length b = nrows L ->
  forall i, i < nrows L ->
    sumn (fun k => mget L i k * vget (lsolve L b) k) i + vget (lsolve L b) i = vget b i.
Proof.
  intros HL Hb i Hi.
  destruct (lsolve_spec Srt L b HL Hb) as [_ E]. rewrite <- (E i Hi).
  rewrite (sumn_extend (fun j => mget L i j * vget (lsolve L b) j) i (nrows L)).
  - ring.
  - lia.
  - intros k Hik _. rewrite (mget_lower_zero L i k HL Hik). ring.
Qed.

(* ---------------- the exact solve ---------------- *)
(* row i of A x, for any A whose entries are those of (I+L)(D^-1+U), equals
   row i of (I+L) applied to (D^-1+U) x *)
Lemma Ax_factor (A L U : crs) (D x : vec) n i :
  ncols A = n ->
  (forall j, j < n -> lu_entry L U D i j = mget A i j) ->
  Ax A x i = sumn (fun k => mget L i k * sumn (fun j => Up U D k j * vget x j) n) i
             + sumn (fun j => Up U D i j * vget x j) n.
Proof.
  intros Hc HA. unfold Ax. rewrite Hc.
  rewrite (sumn_ext _ (fun j => sumn (fun k => mget L i k * (Up U D k j * vget x j)) i
                                + Up U D i j * vget x j)).
  - rewrite (sumn_add Srt). f_equal.
    rewrite (sumn_exchange (fun k j => mget L i k * (Up U D k j * vget x j)) i n).
    apply sumn_ext. intros k _. apply (sumn_scal Srt).
  - intros j Hj. rewrite <- (HA j Hj), lu_entry_Up.
    transitivity (sumn (fun k => mget L i k * Up U D k j * vget x j) i + Up U D i j * vget x j).
    + rewrite (sumn_scal_r (vget x j)). ring.
    + f_equal. apply sumn_ext. intros; ring.
Qed.

Theorem ilu_exact_solve (A L U : crs) (D b : vec) :
  strict_lower L -> strict_upper (nrows L) U -> length b = nrows L ->
  ncols A = nrows L ->
  (forall i, i < nrows L -> vget D i <> s0) ->
  (forall i j, i < nrows L -> j < nrows L -> lu_entry L U D i j = mget A i j) ->
  forall i, i < nrows L -> Ax A (ilu_solve L U D b) i = vget b i.
Proof.
  intros HL HU Hb Hc HD HA i Hi.
  rewrite (Ax_factor A L U D _ (nrows L) i Hc) by (intros j Hj; apply HA; assumption).
  rewrite (ilu_solve_upper_eq L U D b HL HU Hb i Hi (HD i Hi)).
  rewrite (sumn_ext _ (fun k => mget L i k * vget (lsolve L b) k)).
  - apply lsolve_lower_eq; assumption.
  - intros k Hk. f_equal.
    apply (ilu_solve_upper_eq L U D b HL HU Hb); [lia|apply HD; lia].
Qed.

(* ---------------- ILU(0) factors that fit exactly ---------------- *)
(* For a well-formed square A on which ilu0 succeeds with nonzero stored
   (inverted) pivots, if the computed factors reproduce A at every position
   (true when the pattern of A is closed under elimination, e.g. tridiagonal
   or dense patterns), the preconditioner application is an exact solve. *)
Corollary ilu0_exact_solve (A : crs) (junk : vec) (L U : crs) (D b x0 : vec) :
  ilu0 A junk = Ok (L, U, D) -> wf A = true -> ncols A = nrows A ->
  length b = nrows A -> length x0 = nrows A ->
  (forall i, i < nrows A -> vget D i <> s0) ->
  (forall i j, i < nrows A -> j < nrows A -> lu_entry L U D i j = mget A i j) ->
  forall i, i < nrows A -> Ax A (ilu_apply L U D b x0) i = vget b i.
Proof.
  intros H Hwf Hsq Hb Hx HD HA i Hi.
  pose proof (ilu0_strict_lower A junk L U D H) as HL.
  pose proof (ilu0_strict_upper A junk L U D H Hwf) as HU.
  apply ilu0_structure in H as (Hn & _).
  rewrite Hsq in HU. rewrite <- Hn in *.
  unfold ilu_apply. rewrite vcopy_spec by congruence.
  apply ilu_exact_solve; assumption.
Qed.

End ExactSolve.

Check @sumn_exchange.
Check @sumn_extend.
Check @ilu_solve_upper_eq.
Check @ilu_exact_solve.
Check @ilu0_exact_solve.
Print Assumptions ilu_exact_solve.
Print Assumptions ilu0_exact_solve.
