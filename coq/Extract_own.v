(* Extract_own.v -- extraction of the crs::own_data state machine (Own.v, property C10-A3) and of
   the array-level models with uninitialised cells (LowLevel2*.v, property C10-A2).
   QcS/Vec/Crs are extracted because ocaml/io.ml (shared case parser) refers to them. *)
From Amgcl Require Import ExtractCommon.
From Coq Require Import QArith Qcanon.
From Amgcl Require Import Scalar QcInst Vec Crs Own LowLevel LowLevelT LowLevel2 LowLevel2G LowLevel2A LowLevel2I LowLevel2K CuthillMcKee.
Separate Extraction
  QcInst.QcS Scalar.is_zero Scalar.smax Scalar.smin
  Vec Crs Own
  LowLevelT.flat_of LowLevel2.ll_sort_rows LowLevel2.fresh LowLevel2.filled
  LowLevel2G.ll_spgemm LowLevel2G.minit
  LowLevel2A.ll_plain_aggregates LowLevel2A.ll_tentative LowLevel2I.ll_ilu0
  LowLevel2K.ll_sky_build LowLevel2K.ll_sky_solve CuthillMcKee.cuthill_mckee.
