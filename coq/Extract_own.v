(* Extract_own.v -- extraction of the crs::own_data state machine (Own.v, property C10-A3).
   QcS/Vec/Crs are extracted only because ocaml/io.ml (shared case parser) refers to them. *)
From Amgcl Require Import ExtractCommon.
From Coq Require Import QArith Qcanon.
From Amgcl Require Import Scalar QcInst Vec Crs Own.
Separate Extraction
  QcInst.QcS Scalar.is_zero Scalar.smax Scalar.smin
  Vec Crs Own.
