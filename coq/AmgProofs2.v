(* AmgProofs2.v -- property C02, part A: the cycle as a lock-step relational statement.
   One induction over the level list (cycle_rel) serves every "k runs side by side" property:
     A1 history independence (2 runs, same data, different scratch),
     A2 linearity            (3 runs, third = a*first + b*second).
   The relation Rel n is on the data vectors (rhs, x, f, u) of the runs, work vectors t are only
   constrained in length. *)
From Amgcl Require Import Scalar Vec Crs Kernels KernelsProofs MatOps MatOpsProofs Relax DenseSolve Amg AmgExec AmgProofs.
Local Open Scope S_scope.

Section CycleUnfold.
Context {S : Scalar}.
Local Notation vec := (vec S).
Local Notation crs := (crs S).
Local Notation level := (@level S).
Local Notation scratch := (@scratch S).
Local Notation sweep := (@sweep S).

Definition d_scr : scratch := mkScratch [] [] [].

Definition scr_ok (n : nat) (s : scratch) : Prop :=
  length (sf s) = n /\ length (su s) = n /\ length (st s) = n.

(* one scratch record per level, all three vectors of the level size *)
Fixpoint scratch_wf (lvls : list level) (scr : list scratch) : Prop :=
  match lvls, scr with
  | [], [] => True
  | l :: ls, s :: ss => scr_ok (nrows (lA l)) s /\ scratch_wf ls ss
  | _, _ => False
  end.

Lemma scratch_wf_cons l ls sc : scratch_wf (l :: ls) sc ->
  sc = hd d_scr sc :: tl sc /\ scr_ok (nrows (lA l)) (hd d_scr sc) /\ scratch_wf ls (tl sc).
Proof. destruct sc as [|s ss]; simpl; [intros []|]. intros [H1 H2]. auto. Qed.

Lemma scratch_wf_nil sc : scratch_wf [] sc -> sc = [].
Proof. destruct sc; simpl; [reflexivity|intros []]. Qed.

Definition top_n (lvls : list level) : nat :=
  match lvls with l :: _ => nrows (lA l) | [] => 0 end.

Section Unfold.
Variables npre npost ncycle : nat.
Local Notation cycle := (cycle npre npost ncycle).

Definition set_u (u' : vec) (sc : list scratch) : list scratch :=
  match sc with sn2 :: tl => mkScratch (sf sn2) u' (st sn2) :: tl | [] => [] end.

(* the body of the for(j < ncycle) loop, with the recursive call abstracted *)
Definition cyc_body (rec : list scratch -> vec -> vec -> vec * list scratch) (lvl : level) (rhs : vec)
  (st3 : vec * vec * list scratch) : vec * vec * list scratch :=
  let '(x, t, sc) := st3 in
  match sc with
  | sn :: sc' =>
    let '(x1, t1) := sweeps npre (lpre lvl) rhs (x, t) in
    let t2 := residual rhs (lA lvl) x1 t1 in
    let f' := spmv s1 (lR lvl) t2 s0 (sf sn) in
    let u0 := vclear (su sn) in
    let '(u', sc'') := rec (mkScratch f' u0 (st sn) :: sc') f' u0 in
    let sc3 := match sc'' with
               | sn2 :: tl => mkScratch (sf sn2) u' (st sn2) :: tl
               | [] => []
               end in
    let x2 := spmv s1 (lP lvl) u' s1 x1 in
    let '(x3, t3) := sweeps npost (lpost lvl) rhs (x2, t2) in
    (x3, t3, sc3)
  | [] => st3
  end.

Lemma cycle_nil (scr : list scratch) (rhs x : vec) : cycle [] scr rhs x = (x, scr).
Proof. reflexivity. Qed.

Lemma cycle_mid (lvl nxt : level) (rest : list level) (s sn : scratch) (srest : list scratch) (rhs x : vec) :
  cycle (lvl :: nxt :: rest) (s :: sn :: srest) rhs x =
  let '(xf, tf, scf) := iter ncycle (cyc_body (cycle (nxt :: rest)) lvl rhs) (x, st s, sn :: srest) in
  (xf, mkScratch (sf s) (su s) tf :: scf).
Proof. reflexivity. Qed.

Lemma cycle_mid_proj (lvl nxt : level) (rest : list level) (s sn : scratch) (srest : list scratch) (rhs x : vec) :
  cycle (lvl :: nxt :: rest) (s :: sn :: srest) rhs x =
  let r := iter ncycle (cyc_body (cycle (nxt :: rest)) lvl rhs) (x, st s, sn :: srest) in
  (fst (fst r), mkScratch (sf s) (su s) (snd (fst r)) :: snd r).
Proof.
  rewrite cycle_mid.
  destruct (iter ncycle (cyc_body (cycle (nxt :: rest)) lvl rhs) (x, st s, sn :: srest)) as [[xf tf] scf].
  reflexivity.
Qed.

Lemma cycle_last (l : level) (s : scratch) (srest : list scratch) (rhs x : vec) :
  cycle [l] (s :: srest) rhs x =
  match lsolve l with
  | Some sv => (sv rhs x, s :: srest)
  | None =>
    let xt2 := sweeps npost (lpost l) rhs (sweeps npre (lpre l) rhs (x, st s)) in
    (fst xt2, mkScratch (sf s) (su s) (snd xt2) :: srest)
  end.
Proof.
  simpl. destruct (lsolve l); [reflexivity|].
  destruct (sweeps npre (lpre l) rhs (x, st s)) as [x1 t1].
  destruct (sweeps npost (lpost l) rhs (x1, t1)) as [x2 t2]. reflexivity.
Qed.

Lemma cyc_body_proj rec (lvl : level) (rhs x t : vec) (sn : scratch) (sc' : list scratch) :
  cyc_body rec lvl rhs (x, t, sn :: sc') =
  let xt1 := sweeps npre (lpre lvl) rhs (x, t) in
  let t2 := residual rhs (lA lvl) (fst xt1) (snd xt1) in
  let f' := spmv s1 (lR lvl) t2 s0 (sf sn) in
  let u0 := vclear (su sn) in
  let r := rec (mkScratch f' u0 (st sn) :: sc') f' u0 in
  let x2 := spmv s1 (lP lvl) (fst r) s1 (fst xt1) in
  let xt3 := sweeps npost (lpost lvl) rhs (x2, t2) in
  (fst xt3, snd xt3, set_u (fst r) (snd r)).
Proof.
  unfold cyc_body.
  destruct (sweeps npre (lpre lvl) rhs (x, t)) as [x1 t1]. cbn [fst snd].
  destruct (rec _ _ _) as [u' sc'']. cbn [fst snd].
  destruct (sweeps npost (lpost lvl) rhs _) as [x3 t3]. reflexivity.
Qed.

End Unfold.

(* unconditional length facts (upd2 always returns a list as long as its last argument) *)
Lemma upd2_length_any f (x y : vec) : length (upd2 f x y) = length y.
Proof.
  revert y; induction x as [|a x IH]; intros [|b y]; simpl; try reflexivity. f_equal. apply IH.
Qed.

Lemma spmv_length_any alpha (A : crs) x beta (y : vec) : length (spmv alpha A x beta y) = length y.
Proof. unfold spmv. destruct (is_zero beta); apply upd2_length_any. Qed.

Lemma vclear_eq (u u' : vec) : length u = length u' -> vclear u = vclear u'.
Proof.
  revert u'; induction u as [|a u IH]; intros [|b u'] H; simpl in *; try congruence.
  f_equal. apply IH. congruence.
Qed.

(* ------------------------------------------------------------------ *)
(* the lock-step lemma *)
Section Rel.
Variable I : Type.
Variable Rel : nat -> (I -> vec) -> Prop.
Definition Len (n : nat) (v : I -> vec) : Prop := forall i, length (v i) = n.
Hypothesis Rel_ext : forall n v w, (forall i, v i = w i) -> Rel n v -> Rel n w.

Definition sweep_rel (n : nat) (sw : sweep) : Prop :=
  forall rhs x t, Rel n rhs -> Rel n x -> Len n t ->
    Rel n (fun i => fst (sw (rhs i) (x i) (t i))) /\ Len n (fun i => snd (sw (rhs i) (x i) (t i))).
Definition solve_rel (n : nat) (sv : vec -> vec -> vec) : Prop :=
  forall rhs x, Rel n rhs -> Rel n x -> Rel n (fun i => sv (rhs i) (x i)).
Definition resid_rel (n : nat) (A : crs) : Prop :=
  forall rhs x t, Rel n rhs -> Rel n x -> Len n t -> Rel n (fun i => residual (rhs i) A (x i) (t i)).
Definition restrict_rel (n n' : nat) (R : crs) : Prop :=
  forall t y, Rel n t -> Len n' y -> Rel n' (fun i => spmv s1 R (t i) s0 (y i)).
Definition clear_rel (n : nat) : Prop :=
  forall u, Len n u -> Rel n (fun i => vclear (u i)).
Definition prolong_rel (n n' : nat) (P : crs) : Prop :=
  forall u x, Rel n' u -> Rel n x -> Rel n (fun i => spmv s1 P (u i) s1 (x i)).

Fixpoint hier_rel (lvls : list level) : Prop :=
  match lvls with
  | [] => True
  | l :: rest =>
    let n := nrows (lA l) in
    (forall v, Rel n v -> Len n v) /\
    clear_rel n /\ sweep_rel n (lpre l) /\ sweep_rel n (lpost l) /\
    match rest with
    | [] => forall sv, lsolve l = Some sv -> solve_rel n sv
    | nxt :: _ => let n' := nrows (lA nxt) in
        resid_rel n (lA l) /\ restrict_rel n n' (lR l) /\ prolong_rel n n' (lP l)
    end /\ hier_rel rest
  end.

Lemma iter_inv {X} (Inv : (I -> X) -> Prop) (f : I -> X -> X) :
  (forall st, Inv st -> Inv (fun i => f i (st i))) ->
  forall k st, Inv st -> Inv (fun i => iter k (f i) (st i)).
Proof.
  intros Hf k; induction k as [|k IH]; intros st H; simpl; [exact H|].
  apply (IH (fun i => f i (st i))). apply Hf, H.
Qed.

Lemma sweeps_rel n sw k : sweep_rel n sw -> forall rhs (xt : I -> vec * vec),
  Rel n rhs -> Rel n (fun i => fst (xt i)) -> Len n (fun i => snd (xt i)) ->
  Rel n (fun i => fst (sweeps k sw (rhs i) (xt i))) /\ Len n (fun i => snd (sweeps k sw (rhs i) (xt i))).
Proof.
  intros Hsw rhs xt Hr Hx Ht. unfold sweeps.
  apply (iter_inv (fun st => Rel n (fun i => fst (st i)) /\ Len n (fun i => snd (st i)))
                  (fun i xt => sw (rhs i) (fst xt) (snd xt))); [|split; assumption].
  intros st [H1 H2]. apply (Hsw rhs (fun i => fst (st i)) (fun i => snd (st i))); assumption.
Qed.

Section WithParams.
Variables npre npost ncycle : nat.
Local Notation cycle := (cycle npre npost ncycle).
Opaque Amg.cycle.

Lemma set_u_wf lvls u sc : scratch_wf lvls sc -> length u = top_n lvls -> scratch_wf lvls (set_u u sc).
Proof.
  destruct lvls as [|l ls]; destruct sc as [|s ss]; simpl; try tauto.
  intros [(H1 & H2 & H3) Hr] Hu. split; [|exact Hr]. unfold scr_ok; simpl. auto.
Qed.

Theorem cycle_rel lvls : hier_rel lvls -> forall (scr : I -> list scratch) rhs x,
  (forall i, scratch_wf lvls (scr i)) -> Rel (top_n lvls) rhs -> Rel (top_n lvls) x ->
  Rel (top_n lvls) (fun i => fst (cycle lvls (scr i) (rhs i) (x i))) /\
  (forall i, scratch_wf lvls (snd (cycle lvls (scr i) (rhs i) (x i)))).
Proof.
  induction lvls as [|l rest IH]; intros Hh scr rhs x Hs Hr Hx.
  - split.
    + apply (Rel_ext _ x); [intro i; rewrite cycle_nil; reflexivity|exact Hx].
    + intro i. rewrite cycle_nil. apply Hs.
  - cbn [hier_rel] in Hh. destruct Hh as (Hlen & Hclr & Hpre & Hpost & Hmid & Hrest).
    cbn [top_n] in *. set (n := nrows (lA l)) in *.
    pose (s := fun i => hd d_scr (scr i)). pose (sr := fun i => tl (scr i)).
    assert (Es : forall i, scr i = s i :: sr i) by (intro i; apply (scratch_wf_cons l rest), Hs).
    assert (Hsok : forall i, scr_ok n (s i)) by (intro i; apply (scratch_wf_cons l rest), Hs).
    assert (Hsr : forall i, scratch_wf rest (sr i)) by (intro i; apply (scratch_wf_cons l rest), Hs).
    destruct rest as [|nxt rest'].
    + (* coarsest level *)
      assert (Hnil : forall i, sr i = []) by (intro i; apply scratch_wf_nil, Hsr).
      destruct (lsolve l) as [sv|] eqn:El.
      * split.
        -- apply (Rel_ext n (fun i => sv (rhs i) (x i))).
           ++ intro i. rewrite (Es i), cycle_last, El. reflexivity.
           ++ apply (Hmid sv eq_refl); assumption.
        -- intro i. rewrite (Es i), cycle_last, El. cbn [snd]. rewrite <- (Es i). apply Hs.
      * destruct (sweeps_rel n (lpre l) npre Hpre rhs (fun i => (x i, st (s i))) Hr Hx
                    (fun i => proj2 (proj2 (Hsok i)))) as [Hx1 Ht1].
        destruct (sweeps_rel n (lpost l) npost Hpost rhs
                    (fun i => sweeps npre (lpre l) (rhs i) (x i, st (s i))) Hr Hx1 Ht1) as [Hx2 Ht2].
        split.
        -- eapply Rel_ext; [|exact Hx2]. intro i. rewrite (Es i), cycle_last, El. reflexivity.
        -- intro i. rewrite (Es i), cycle_last, El. cbn [snd scratch_wf]. rewrite (Hnil i).
           split; [|exact Logic.I]. destruct (Hsok i) as (H1 & H2 & H3). unfold scr_ok; cbn [sf su st].
           repeat split; try assumption. apply Ht2.
    + (* level with a coarser one below *)
      destruct Hmid as (Hres & Hrst & Hpro).
      set (n' := nrows (lA nxt)) in *.
      assert (Hclr' : clear_rel n') by (cbn [hier_rel] in Hrest; apply Hrest).
      assert (Hlen' : forall v, Rel n' v -> Len n' v) by (cbn [hier_rel] in Hrest; apply Hrest).
      specialize (IH Hrest). cbn [top_n] in IH. fold n' in IH.
      (* invariant of the ncycle loop *)
      pose (Inv := fun st : I -> vec * vec * list scratch =>
                     Rel n (fun i => fst (fst (st i))) /\ Len n (fun i => snd (fst (st i))) /\
                     forall i, scratch_wf (nxt :: rest') (snd (st i))).
      assert (Hbody : forall st, Inv st ->
                Inv (fun i => cyc_body npre npost (cycle (nxt :: rest')) l (rhs i) (st i))).
      { intros st0 (Ix & It & Isc).
        pose (sn := fun i => hd d_scr (snd (st0 i))). pose (sc' := fun i => tl (snd (st0 i))).
        assert (Est : forall i, st0 i = (fst (fst (st0 i)), snd (fst (st0 i)), sn i :: sc' i)).
        { intro i. destruct (st0 i) as [[a b] c] eqn:E. cbn [fst snd]. f_equal.
          unfold sn, sc'. rewrite E. cbn [snd]. apply (scratch_wf_cons nxt rest').
          specialize (Isc i). rewrite E in Isc. exact Isc. }
        assert (Hsn : forall i, scr_ok n' (sn i))
          by (intro i; apply (scratch_wf_cons nxt rest'), Isc).
        assert (Hsc' : forall i, scratch_wf rest' (sc' i))
          by (intro i; apply (scratch_wf_cons nxt rest'), Isc).
        (* step by step *)
        destruct (sweeps_rel n (lpre l) npre Hpre rhs (fun i => fst (st0 i)) Hr Ix It) as [Hx1 Ht1].
        set (xt1 := fun i => sweeps npre (lpre l) (rhs i) (fst (st0 i))) in *.
        pose proof (Hres rhs (fun i => fst (xt1 i)) (fun i => snd (xt1 i)) Hr Hx1 Ht1) as Ht2.
        set (t2 := fun i => residual (rhs i) (lA l) (fst (xt1 i)) (snd (xt1 i))) in *.
        pose proof (Hrst t2 (fun i => sf (sn i)) Ht2 (fun i => proj1 (Hsn i))) as Hf'.
        set (f' := fun i => spmv s1 (lR l) (t2 i) s0 (sf (sn i))) in *.
        pose proof (Hclr' (fun i => su (sn i)) (fun i => proj1 (proj2 (Hsn i)))) as Hu0.
        set (u0 := fun i => vclear (su (sn i))) in *.
        destruct (IH (fun i => mkScratch (f' i) (u0 i) (st (sn i)) :: sc' i) f' u0) as [Hu' Hsc''].
        { intro i. cbn [scratch_wf]. split; [|apply Hsc'].
          unfold scr_ok; cbn [sf su st]. repeat split.
          - apply (Hlen' _ Hf').
          - apply (Hlen' _ Hu0).
          - apply (Hsn i). }
        { exact Hf'. } { exact Hu0. }
        set (r := fun i => cycle (nxt :: rest') (mkScratch (f' i) (u0 i) (st (sn i)) :: sc' i) (f' i) (u0 i)) in *.
        pose proof (Hpro (fun i => fst (r i)) (fun i => fst (xt1 i)) Hu' Hx1) as Hx2.
        set (x2 := fun i => spmv s1 (lP l) (fst (r i)) s1 (fst (xt1 i))) in *.
        destruct (sweeps_rel n (lpost l) npost Hpost rhs (fun i => (x2 i, t2 i)) Hr Hx2
                    (Hlen _ Ht2)) as [Hx3 Ht3].
        assert (Eb : forall i, cyc_body npre npost (cycle (nxt :: rest')) l (rhs i) (st0 i) =
                     (fst (sweeps npost (lpost l) (rhs i) (x2 i, t2 i)),
                      snd (sweeps npost (lpost l) (rhs i) (x2 i, t2 i)),
                      set_u (fst (r i)) (snd (r i)))).
        { intro i. rewrite (Est i) at 1. rewrite cyc_body_proj. cbv zeta.
          unfold x2, r, u0, f', t2, xt1. rewrite <- (surjective_pairing (fst (st0 i))). reflexivity. }
        unfold Inv. repeat split.
        - eapply Rel_ext; [|exact Hx3]. intro i. rewrite (Eb i). reflexivity.
        - intro i. rewrite (Eb i). cbn [fst snd]. apply Ht3.
        - intro i. rewrite (Eb i). cbn [snd].
          refine (set_u_wf (nxt :: rest') (fst (r i)) (snd (r i)) (Hsc'' i) _).
          cbn [top_n]. exact (Hlen' _ Hu' i). }
      assert (Hfin : Inv (fun i => iter ncycle (cyc_body npre npost (cycle (nxt :: rest')) l (rhs i))
                                        (x i, st (s i), sr i))).
      { apply (iter_inv Inv (fun i => cyc_body npre npost (cycle (nxt :: rest')) l (rhs i)) Hbody).
        unfold Inv; cbn [fst snd]. repeat split; [exact Hx| |exact Hsr].
        intro i. apply (Hsok i). }
      destruct Hfin as (Fx & Ft & Fsc).
      assert (Esr : forall i, sr i = hd d_scr (sr i) :: tl (sr i))
        by (intro i; apply (scratch_wf_cons nxt rest'), Hsr).
      split.
      * eapply Rel_ext; [|exact Fx]. intro i. rewrite (Es i), (Esr i), cycle_mid_proj. reflexivity.
      * intro i. rewrite (Es i), (Esr i), cycle_mid_proj. cbv zeta. cbn [snd]. rewrite <- (Esr i).
        cbn [scratch_wf]. fold (scratch_wf (nxt :: rest')). split; [|apply Fsc].
        destruct (Hsok i) as (H1 & H2 & H3). unfold scr_ok; cbn [sf su st].
        repeat split; try assumption. apply Ft.
Qed.

(* apply = clear x, then pre_cycles cycles (pre_cycles = 0: copy) *)
Definition copy_rel (n : nat) : Prop :=
  forall rhs x, Rel n rhs -> Len n x -> Rel n (fun i => vcopy (rhs i) (x i)).

Theorem apply_rel pre_cycles lvls : hier_rel lvls -> lvls <> [] -> copy_rel (top_n lvls) ->
  forall (scr : I -> list scratch) rhs x,
  (forall i, scratch_wf lvls (scr i)) -> Rel (top_n lvls) rhs -> Len (top_n lvls) x ->
  Rel (top_n lvls) (fun i => fst (apply npre npost ncycle pre_cycles lvls (scr i) (rhs i) (x i))) /\
  (forall i, scratch_wf lvls (snd (apply npre npost ncycle pre_cycles lvls (scr i) (rhs i) (x i)))).
Proof.
  intros Hh Hne Hcp scr rhs x Hs Hr Hx.
  destruct pre_cycles as [|pc].
  - simpl. split; [apply Hcp; assumption|exact Hs].
  - assert (Hclr : clear_rel (top_n lvls)).
    { destruct lvls as [|l rest]; [congruence|]. cbn [hier_rel] in Hh. apply Hh. }
    unfold apply.
    pose (Inv := fun st : I -> vec * list scratch =>
                   Rel (top_n lvls) (fun i => fst (st i)) /\ forall i, scratch_wf lvls (snd (st i))).
    assert (G : Inv (fun i => iter (Datatypes.S pc) (fun xs => cycle lvls (snd xs) (rhs i) (fst xs))
                                   (vclear (x i), scr i))).
    { apply (iter_inv Inv (fun i xs => cycle lvls (snd xs) (rhs i) (fst xs))).
      - intros st0 [H1 H2]. unfold Inv.
        apply (cycle_rel lvls Hh (fun i => snd (st0 i)) rhs (fun i => fst (st0 i))); assumption.
      - unfold Inv; cbn [fst snd]. split; [apply Hclr; exact Hx|exact Hs]. }
    exact G.
Qed.

End WithParams.
Transparent Amg.cycle.
End Rel.
End CycleUnfold.
