(* InversePivotQc.v -- the order hypotheses of InversePivot.v hold for the exact rationals QcS
   (qc_ltb is the strict order of Q, qc_abs the absolute value): closed, axiom-free instance of
   "non-singular => inverse() returns and A * inverse(A) = I".   (C16 / A3-B) *)
From Coq Require Import QArith Qcanon Lia.
From Amgcl Require Import Scalar QcInst Vec DirectUtil Inverse InversePivot.
Local Open Scope Z_scope.

Lemma qc_ltb_lt (a b : Qc) : qc_ltb a b = true <-> Qlt (this a) (this b).
Proof. unfold qc_ltb, Qlt. apply Z.ltb_lt. Qed.

Lemma QcS_lt_irrefl : forall a : QcS, sltb a a = false.
Proof. intro a. simpl. unfold qc_ltb. apply Z.ltb_irrefl. Qed.

Lemma QcS_lt_trans : forall a b c : QcS, sltb a b = true -> sltb b c = true -> sltb a c = true.
Proof.
  intros a b c H1 H2. simpl in *. apply qc_ltb_lt in H1. apply qc_ltb_lt in H2. apply qc_ltb_lt.
  eapply Qlt_trans; eassumption.
Qed.

Lemma QcS_abs_0 : sabs (@s0 QcS) = s0.
Proof. reflexivity. Qed.

Lemma Qnum_Qred_pos (q : Q) : 0 < Qnum q -> 0 < Qnum (Qred q).
Proof.
  intro H. pose proof (Qred_correct q) as E. unfold Qeq in E.
  pose proof (Pos2Z.is_pos (Qden q)) as H1. pose proof (Pos2Z.is_pos (Qden (Qred q))) as H2.
  nia.
Qed.

Lemma QcS_abs_pos : forall x : QcS, x <> s0 -> sltb s0 (sabs x) = true.
Proof.
  intros x Hx. simpl in *. unfold qc_ltb.
  change (Qnum (this (Q2Qc 0))) with 0. change (Qden (this (Q2Qc 0))) with 1%positive.
  rewrite Z.mul_0_l, Z.mul_1_r. apply Z.ltb_lt. unfold qc_abs.
  destruct (Z.ltb_spec (Qnum (this x)) 0) as [Hneg|Hnn].
  - unfold Qcopp, Q2Qc. cbn [this]. apply Qnum_Qred_pos. unfold Qopp. cbn [Qnum]. lia.
  - assert (Hnz : Qnum (this x) <> 0).
    { intro E. apply Hx. apply Qc_is_canon. unfold Qeq. simpl. rewrite E. reflexivity. }
    lia.
Qed.

Theorem inverse_nonsingular_Qc n (A t : vec QcS) :
  length A = (n * n)%nat -> length t = (n * n)%nat -> nonsingular n A ->
  exists B, inverse n A t = Some B /\
    forall i j, (i < n)%nat -> (j < n)%nat -> mat_mul_get n A B i j = if Nat.eqb i j then s1 else s0.
Proof.
  exact (inverse_nonsingular QcS_field QcS_eqb eq_refl QcS_lt_irrefl QcS_lt_trans QcS_abs_0 QcS_abs_pos n A t).
Qed.
