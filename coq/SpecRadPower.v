(* SpecRadPower.v -- C08, the power-method branch of backend::spectral_radius (builtin.hpp, power_iters > 0;
   model MatOps2.spectral_radius_power / pm_loop / pm_iter / pm_normalize):

     "the power-method estimate never exceeds the largest singular value of the (diagonally scaled) matrix"

   in SQUARED form, in every ordered field, without square roots.
   What the code computes in one sweep (pm_iter): s = T b0 with T the operator the loop applies
   ([pm_op]: T = A, or row i of A scaled by the inverse of the thread-private [dia] = last stored diagonal entry seen
   so far), b1_norm = sum_i |s_i s_i| and   radius = sum_i |s_i * b0_i|   (NOT |<s,b0>|: the absolute values are
   taken term by term, so radius >= |<s,b0>|).  By Cauchy-Schwarz on (|s_i|), (|b0_i|):
       radius^2 <= |s|^2 |b0|^2 <= M |b0|^4          for every M with |T x|^2 <= M |x|^2 for all x.   [pm_iter_bound]
   The iterate is normalised with f = 1/sqrt(b1_norm); |f b1|^2 = b1_norm / sqrt(b1_norm)^2, which is <= 1 exactly
   when the root is not under-estimated:  sqrt_ok x := x <= ssqrt x * ssqrt x  (an exact root satisfies it; so does
   any root rounded upwards; the hypothesis is needed only for the norms the run meets, [power_norms]).  Hence
       radius^2 <= M   for every iteration count, every start vector.                                   [power_bound]
   Without any hypothesis on ssqrt:  radius^2 <= M t^2, t = |last iterate|^2                    [power_bound_always]
   (this is what the exact-arithmetic oracle of tools/props/C08.py checks: in QcS / vq::Q ssqrt is the floor root on
   the 2^-64 grid, which UNDER-estimates, so t is slightly above 1).
   A concrete M: the dense Frobenius norm (scaled: rows weighted by the squared inverse [dia])     [op_bound_frob]. *)
From Amgcl Require Import Scalar QcInst Vec Crs Kernels KernelsProofs MatOps MatOpsProofs MatOps2 MatOps2Proofs SpecRadOrd.
Local Open Scope nat_scope.
Local Open Scope S_scope.

(* ------------------------------------------------------------------ *)
(* definitions (any Scalar)                                             *)
Section Defs.
Context {S : Scalar}.
Local Notation vec := (vec S).
Local Notation row := (row S).
Local Notation crs := (crs S).

(* the operator one sweep applies: b1 of pm_iter *)
Definition pm_op (scale : bool) (A : crs) (x : vec) : vec := snd (pm_iter scale A x).

(* the arguments of sqrt during a run: |start|^2, then b1_norm of every sweep but the last *)
Fixpoint pm_norms (scale : bool) (A : crs) (iters : nat) (b0 : vec) : list S :=
  match iters with
  | O => []
  | Datatypes.S k =>
    let '(nrm, rad, b1) := pm_iter scale A b0 in
    match k with
    | O => []
    | _ => nrm :: pm_norms scale A k (pm_normalize nrm b1)
    end
  end.
Definition power_norms (scale : bool) (A : crs) (iters : nat) (start : vec) : list S :=
  let nrm0 := fold_left (fun a v => a + sabs (v * v)) start s0 in
  nrm0 :: pm_norms scale A iters (pm_normalize nrm0 start).

(* the (normalised) vector the last sweep is applied to *)
Fixpoint pm_last (scale : bool) (A : crs) (iters : nat) (b0 : vec) : vec :=
  match iters with
  | O => b0
  | Datatypes.S k =>
    match k with
    | O => b0
    | _ => let '(nrm, rad, b1) := pm_iter scale A b0 in pm_last scale A k (pm_normalize nrm b1)
    end
  end.
Definition power_last (scale : bool) (A : crs) (iters : nat) (start : vec) : vec :=
  let nrm0 := fold_left (fun a v => a + sabs (v * v)) start s0 in
  pm_last scale A iters (pm_normalize nrm0 start).

(* the root is not under-estimated at x *)
Definition sqrt_ok (x : S) : Prop := sle x (ssqrt x * ssqrt x).

(* one row: (s, dia') *)
Definition pm_row_s (scale : bool) (b0 : vec) (dia : S) (ir : nat * row) : S * S :=
  let sd := fold_left (fun (sd : S * S) e =>
                         (fst sd + snd e * vget b0 (fst e),
                          if scale && Nat.eqb (fst e) (fst ir) then snd e else snd sd))
                      (snd ir) (s0, dia) in
  (if scale then sinv (snd sd) * fst sd else fst sd, snd sd).
Fixpoint pm_svals (scale : bool) (b0 : vec) (irs : list (nat * row)) (dia : S) : list S :=
  match irs with
  | [] => []
  | ir :: t => fst (pm_row_s scale b0 dia ir) :: pm_svals scale b0 t (snd (pm_row_s scale b0 dia ir))
  end.

(* the value of the thread-private [dia] when row i is scaled: the last stored diagonal entry of row i, or of the
   nearest earlier row that stores one, or the identity *)
Fixpoint pm_dias (irs : list (nat * row)) (dia : S) : list S :=
  match irs with
  | [] => []
  | ir :: t =>
    let d' := match last_col (snd ir) (fst ir) with Some d => d | None => dia end in
    d' :: pm_dias t d'
  end.
Definition pm_dia (A : crs) (i : nat) : S := nth i (pm_dias (indexed (rows A)) s1) s1.
Definition pm_coef (scale : bool) (A : crs) (i : nat) : S := if scale then sinv (pm_dia A i) else s1.

(* dense squared Frobenius norm (rows weighted by the squared scaling factor) *)
Definition frob2 (scale : bool) (A : crs) : S :=
  sumn (fun i => pm_coef scale A i * pm_coef scale A i * sumn (fun j => mget A i j * mget A i j) (ncols A)) (nrows A).

(* executable oracle: r^2 <= ||A||_F^2 * (|last iterate|^2)^2 *)
Definition power_oracle (scale : bool) (A : crs) (iters : nat) (start : vec) (r : S) : bool :=
  let t := vsq (power_last scale A iters start) in
  negb (sltb (frob2 scale A * (t * t)) (r * r)) && negb (sltb r s0).
End Defs.

(* ------------------------------------------------------------------ *)
Section Power.
Context {S : Scalar}.
Local Notation vec := (vec S).
Local Notation row := (row S).
Local Notation crs := (crs S).
Hypothesis Hof : ordfield_theory S.

Let Srt : Sring S := of_ring S Hof.
Let Sft : Sfield S := of_field S Hof.
Add Ring SRingPow : Srt.

(* ---- the sweep as sums ---- *)
Lemma pm_row_unfold (scale : bool) (b0 : vec) (nrm rad dia : S) (b1 : vec) (ir : nat * row) :
  pm_row scale b0 (nrm, rad, dia, b1) ir =
  (nrm + sabs (fst (pm_row_s scale b0 dia ir) * fst (pm_row_s scale b0 dia ir)),
   rad + sabs (fst (pm_row_s scale b0 dia ir) * vget b0 (fst ir)),
   snd (pm_row_s scale b0 dia ir), b1 ++ [fst (pm_row_s scale b0 dia ir)]).
Proof. reflexivity. Qed.

Lemma pm_svals_length (scale : bool) (b0 : vec) (irs : list (nat * row)) (dia : S) :
  length (pm_svals scale b0 irs dia) = length irs.
Proof. revert dia; induction irs as [|ir t IH]; intro dia; cbn [pm_svals length]; [reflexivity|]. rewrite IH. reflexivity. Qed.

Lemma pm_fold (scale : bool) (b0 : vec) (irs : list (nat * row)) :
  forall (nrm rad dia : S) (b1 : vec), exists d,
  fold_left (pm_row scale b0) irs (nrm, rad, dia, b1) =
  (fold_left (fun a s => a + sabs (s * s)) (pm_svals scale b0 irs dia) nrm,
   fold_left (fun a (p : nat * S) => a + sabs (snd p * vget b0 (fst p)))
             (combine (map fst irs) (pm_svals scale b0 irs dia)) rad,
   d, b1 ++ pm_svals scale b0 irs dia).
Proof.
  induction irs as [|ir t IH]; intros nrm rad dia b1.
  - exists dia. cbn. rewrite app_nil_r. reflexivity.
  - cbn [fold_left]. rewrite pm_row_unfold.
    destruct (IH (nrm + sabs (fst (pm_row_s scale b0 dia ir) * fst (pm_row_s scale b0 dia ir)))
                 (rad + sabs (fst (pm_row_s scale b0 dia ir) * vget b0 (fst ir)))
                 (snd (pm_row_s scale b0 dia ir)) (b1 ++ [fst (pm_row_s scale b0 dia ir)])) as [d Hd].
    exists d. refine (eq_trans Hd _). cbn [pm_svals map combine fold_left fst snd]. rewrite <- app_assoc. reflexivity.
Qed.

Lemma map_fst_indexed {X} (l : list X) : map fst (indexed l) = seq 0 (length l).
Proof.
  unfold indexed. generalize 0. induction l as [|x l IH]; intro k; cbn; [reflexivity|]. rewrite IH. reflexivity.
Qed.

Lemma nth_combine_seq (l : vec) i : i < length l -> nth i (combine (seq 0 (length l)) l) (0, s0) = (i, vget l i).
Proof.
  intro Hi. rewrite combine_nth by apply seq_length. rewrite seq_nth by exact Hi. reflexivity.
Qed.

(* one sweep: b1 = pm_op, b1_norm = |b1|^2, radius = sum_i |b1_i * b0_i| *)
Theorem pm_iter_sums (scale : bool) (A : crs) (b0 : vec) :
  pm_iter scale A b0 =
  (vsq (pm_op scale A b0),
   sumn (fun i => sabs (vget (pm_op scale A b0) i * vget b0 i)) (nrows A),
   pm_op scale A b0) /\
  pm_op scale A b0 = pm_svals scale b0 (indexed (rows A)) s1 /\
  length (pm_op scale A b0) = nrows A.
Proof.
  assert (E : pm_iter scale A b0 =
              (fold_left (fun a s => a + sabs (s * s)) (pm_svals scale b0 (indexed (rows A)) s1) s0,
               fold_left (fun a (p : nat * S) => a + sabs (snd p * vget b0 (fst p)))
                         (combine (map fst (indexed (rows A))) (pm_svals scale b0 (indexed (rows A)) s1)) s0,
               pm_svals scale b0 (indexed (rows A)) s1)).
  { unfold pm_iter. destruct (pm_fold scale b0 (indexed (rows A)) s0 s0 s1 []) as [d Hd].
    exact (f_equal (fun z : S * S * S * vec => let '(nrm, rad, _, b1) := z in (nrm, rad, b1)) Hd). }
  assert (Eop : pm_op scale A b0 = pm_svals scale b0 (indexed (rows A)) s1) by (unfold pm_op; rewrite E; reflexivity).
  assert (Hl : length (pm_op scale A b0) = nrows A).
  { rewrite Eop, pm_svals_length. apply Gersh.indexed_length. }
  split; [|split; assumption].
  rewrite E, <- Eop. apply f_equal2; [apply f_equal2|reflexivity].
  - rewrite (fold_add_sumn Hof (fun s => sabs (s * s)) s0). unfold vsq.
    replace (s0 + sumn (fun i => sabs (nth i (pm_op scale A b0) s0 * nth i (pm_op scale A b0) s0)) (length (pm_op scale A b0)))
      with (sumn (fun i => sabs (nth i (pm_op scale A b0) s0 * nth i (pm_op scale A b0) s0)) (length (pm_op scale A b0))) by ring.
    apply sumn_ext. intros i _. apply (oabs_sq Hof).
  - rewrite map_fst_indexed. fold (nrows A). rewrite <- Hl.
    rewrite (fold_add_sumn Hof (fun p : nat * S => sabs (snd p * vget b0 (fst p))) (0, s0)).
    rewrite combine_length, seq_length, Nat.min_id.
    match goal with |- s0 + ?x = ?y => replace (s0 + x) with x by ring end.
    apply sumn_ext. intros i Hi. rewrite nth_combine_seq by exact Hi. reflexivity.
Qed.

Lemma pm_iter_fst (scale : bool) (A : crs) (b0 : vec) nrm rad b1 :
  pm_iter scale A b0 = (nrm, rad, b1) ->
  nrm = vsq b1 /\ rad = sumn (fun i => sabs (vget b1 i * vget b0 i)) (nrows A) /\
  b1 = pm_op scale A b0 /\ length b1 = nrows A.
Proof.
  intro E. destruct (pm_iter_sums scale A b0) as [E1 [_ Hl]]. rewrite E1 in E. injection E as <- <- <-.
  repeat split; try reflexivity. exact Hl.
Qed.

(* Cauchy-Schwarz for the radius *)
Lemma radius_cs (s b : vec) n : length b = n -> length s = n ->
  let rad := sumn (fun i => sabs (vget s i * vget b i)) n in
  sle s0 rad /\ sle (rad * rad) (vsq s * vsq b).
Proof.
  intros Hb Hs rad. split.
  - apply (osumn_nonneg Hof). intros. apply (of_abs_nonneg S Hof).
  - unfold rad, vsq. rewrite Hb, Hs.
    rewrite (sumn_ext (fun i => sabs (vget s i * vget b i)) (fun i => sabs (vget s i) * sabs (vget b i)))
      by (intros; apply (oabs_mul Hof)).
    rewrite (sumn_ext (fun i => vget s i * vget s i) (fun i => sabs (vget s i) * sabs (vget s i)))
      by (intros; symmetry; apply (of_abs_sqr S Hof)).
    rewrite (sumn_ext (fun i => vget b i * vget b i) (fun i => sabs (vget b i) * sabs (vget b i)))
      by (intros; symmetry; apply (of_abs_sqr S Hof)).
    apply (cauchy_schwarz Hof).
Qed.

(* the bound on the operator the sweep applies: |T x|^2 <= M |x|^2 *)
Definition op_bound (scale : bool) (A : crs) (M : S) : Prop :=
  forall x : vec, length x = nrows A -> sle (vsq (pm_op scale A x)) (M * vsq x).

(* one sweep: 0 <= radius, radius^2 <= M |b0|^4 *)
Theorem pm_iter_bound (scale : bool) (A : crs) (M : S) (b0 : vec) nrm rad b1 :
  op_bound scale A M -> length b0 = nrows A -> pm_iter scale A b0 = (nrm, rad, b1) ->
  sle s0 rad /\ sle (rad * rad) (M * (vsq b0 * vsq b0)).
Proof.
  intros HM Hb E. destruct (pm_iter_fst scale A b0 nrm rad b1 E) as (_ & Hr & Hop & Hl).
  destruct (radius_cs b1 b0 (nrows A) Hb Hl) as [H0 H1]. rewrite <- Hr in H0, H1.
  split; [exact H0|]. apply (ole_trans Hof _ _ _ H1).
  replace (M * (vsq b0 * vsq b0)) with (M * vsq b0 * vsq b0) by ring.
  apply (ole_mul_r Hof); [|apply (vsq_nonneg Hof)]. rewrite Hop. apply HM. exact Hb.
Qed.

(* ---- normalisation ---- *)
Lemma pm_normalize_length (nrm : S) (b : vec) : length (pm_normalize nrm b) = length b.
Proof. unfold pm_normalize. apply map_length. Qed.

Lemma pm_normalize_vsq (nrm : S) (b : vec) :
  vsq (pm_normalize nrm b) = (s1 / ssqrt nrm) * (s1 / ssqrt nrm) * vsq b.
Proof. unfold pm_normalize. apply (vsq_scal Hof). Qed.

Lemma onz_cases (r : S) : r = s0 \/ r <> s0.
Proof.
  destruct (sltb r s0) eqn:E1; [right|destruct (sltb s0 r) eqn:E2; [right|left]].
  - intros ->. rewrite (of_lt_irrefl S Hof) in E1. discriminate.
  - intros ->. rewrite (of_lt_irrefl S Hof) in E2. discriminate.
  - apply (of_lt_total S Hof); assumption.
Qed.

Lemma odiv_mul (r : S) : r <> s0 -> s1 / r * r = s1.
Proof. intro H. rewrite (Fdiv_def Sft). replace (s1 * sinv r * r) with (sinv r * r) by ring. apply (Finv_l Sft). exact H. Qed.

(* root not under-estimated -> the normalised vector has |.|^2 <= 1 *)
Lemma pm_normalize_le1 (b : vec) : sqrt_ok (vsq b) -> sle (vsq (pm_normalize (vsq b) b)) s1.
Proof.
  unfold sqrt_ok. intro Hq. rewrite pm_normalize_vsq. set (r := ssqrt (vsq b)) in *.
  destruct (onz_cases r) as [Hr|Hr].
  - rewrite Hr in Hq. replace (@s0 S * s0) with (@s0 S) in Hq by ring.
    assert (E : vsq b = s0) by (apply (ole_antisym Hof); [exact Hq|apply (vsq_nonneg Hof)]).
    rewrite E. replace (s1 / r * (s1 / r) * s0) with (@s0 S) by ring. apply (ole_0_1 Hof).
  - apply (ole_trans Hof _ (s1 / r * (s1 / r) * (r * r))).
    + apply (ole_mul_l Hof); [exact Hq|apply (osq_nonneg Hof)].
    + apply (ole_eq Hof). replace (s1 / r * (s1 / r) * (r * r)) with ((s1 / r * r) * (s1 / r * r)) by ring.
      rewrite (odiv_mul r Hr). ring.
Qed.

(* exact root: the normalised vector has |.|^2 = 1 (or is 0 when b = 0) *)
Lemma pm_normalize_exact (b : vec) : ssqrt (vsq b) * ssqrt (vsq b) = vsq b -> vsq b <> s0 ->
  vsq (pm_normalize (vsq b) b) = s1.
Proof.
  intros Hq Hn. rewrite pm_normalize_vsq. set (r := ssqrt (vsq b)) in *.
  assert (Hr : r <> s0).
  { intro E. apply Hn. rewrite <- Hq, E. ring. }
  rewrite <- Hq. replace (s1 / r * (s1 / r) * (r * r)) with ((s1 / r * r) * (s1 / r * r)) by ring.
  rewrite (odiv_mul r Hr). ring.
Qed.

Lemma start_norm (start : vec) : fold_left (fun a v => a + sabs (v * v)) start s0 = vsq start.
Proof.
  rewrite (fold_add_sumn Hof (fun s => sabs (s * s)) s0). unfold vsq.
  match goal with |- s0 + ?x = ?y => replace (s0 + x) with x by ring end.
  apply sumn_ext. intros i _. apply (oabs_sq Hof).
Qed.

(* ---- the loop ---- *)
(* no hypothesis on ssqrt: radius^2 <= M t^2, t = |last iterate|^2 *)
Theorem pm_loop_bound_always (scale : bool) (A : crs) (M : S) : op_bound scale A M ->
  forall (iters : nat) (b0 : vec) (radius : S), 0 < iters -> length b0 = nrows A ->
  let r := pm_loop scale A iters b0 radius in
  let t := vsq (pm_last scale A iters b0) in
  sle s0 r /\ sle (r * r) (M * (t * t)).
Proof.
  intro HM. induction iters as [|k IH]; intros b0 radius Hk Hb; [lia|].
  cbn [pm_loop pm_last]. destruct (pm_iter scale A b0) as [[nrm rad] b1] eqn:E.
  destruct k as [|k'].
  - exact (pm_iter_bound scale A M b0 nrm rad b1 HM Hb E).
  - apply IH; [lia|]. rewrite pm_normalize_length.
    destruct (pm_iter_fst scale A b0 nrm rad b1 E) as (_ & _ & _ & Hl). exact Hl.
Qed.

(* with the root never under-estimated on the norms met: radius^2 <= M *)
Theorem pm_loop_bound (scale : bool) (A : crs) (M : S) : sle s0 M -> op_bound scale A M ->
  forall (iters : nat) (b0 : vec) (radius : S), 0 < iters -> length b0 = nrows A -> sle (vsq b0) s1 ->
  Forall sqrt_ok (pm_norms scale A iters b0) ->
  let r := pm_loop scale A iters b0 radius in
  sle s0 r /\ sle (r * r) M.
Proof.
  intros HM0 HM. induction iters as [|k IH]; intros b0 radius Hk Hb Hb1 Hq; [lia|].
  cbn [pm_loop pm_norms] in *. destruct (pm_iter scale A b0) as [[nrm rad] b1] eqn:E.
  destruct k as [|k'].
  - destruct (pm_iter_bound scale A M b0 nrm rad b1 HM Hb E) as [H0 H1]. split; [exact H0|].
    apply (ole_trans Hof _ _ _ H1). replace M with (M * (s1 * s1)) at 2 by ring.
    apply (ole_mul_l Hof); [|exact HM0].
    apply (ole_mul Hof); try assumption; apply (vsq_nonneg Hof).
  - destruct (pm_iter_fst scale A b0 nrm rad b1 E) as (Hn & _ & _ & Hl).
    inversion Hq as [|? ? Hq1 Hq2]; subst.
    apply IH; [lia| | |exact Hq2].
    + rewrite pm_normalize_length. exact Hl.
    + apply pm_normalize_le1. exact Hq1.
Qed.

(* spectral_radius<scale>(A, iters), iters >= 1 *)
Theorem power_bound_always (scale : bool) (A : crs) (M : S) (iters : nat) (start : vec) :
  op_bound scale A M -> 0 < iters -> length start = nrows A ->
  let r := spectral_radius_power scale A iters start in
  let t := vsq (power_last scale A iters start) in
  sle s0 r /\ sle (r * r) (M * (t * t)).
Proof.
  intros HM Hk Hs. unfold spectral_radius_power, power_last. cbv zeta.
  set (b0 := pm_normalize (fold_left (fun a v => a + sabs (v * v)) start s0) start).
  assert (Hb : length b0 = nrows A) by (unfold b0; rewrite pm_normalize_length; exact Hs).
  destruct (pm_loop_bound_always scale A M HM iters b0 s0 Hk Hb) as [H0 H1].
  unfold Gersh.sle in H0. rewrite H0. split; [exact H0|exact H1].
Qed.

Theorem power_bound (scale : bool) (A : crs) (M : S) (iters : nat) (start : vec) :
  sle s0 M -> op_bound scale A M -> length start = nrows A ->
  Forall sqrt_ok (power_norms scale A iters start) ->
  let r := spectral_radius_power scale A iters start in
  sle s0 r /\ sle (r * r) M.
Proof.
  intros HM0 HM Hs Hq. unfold spectral_radius_power, power_norms in *. cbv zeta in *.
  rewrite start_norm in *. inversion Hq as [|? ? Hq1 Hq2]; subst.
  destruct iters as [|k].
  - cbn [pm_loop]. rewrite (of_lt_irrefl S Hof). split; [apply (ole_refl Hof)|].
    replace (@s0 S * s0) with (@s0 S) by ring. exact HM0.
  - assert (Hb : length (pm_normalize (vsq start) start) = nrows A) by (rewrite pm_normalize_length; exact Hs).
    destruct (pm_loop_bound scale A M HM0 HM (Datatypes.S k) _ s0 (Nat.lt_0_succ k) Hb (pm_normalize_le1 start Hq1) Hq2)
      as [H0 H1].
    unfold Gersh.sle in H0. rewrite H0. split; [exact H0|exact H1].
Qed.

(* M >= 0 follows from the operator bound as soon as there is a row *)
Lemma vsq_e0 (m : nat) : vsq (s1 :: repeat (@s0 S) m) = s1.
Proof.
  unfold vsq. cbn [length].
  assert (G : forall k, sumn (fun i => vget (s1 :: repeat (@s0 S) m) i * vget (s1 :: repeat (@s0 S) m) i) (Datatypes.S k) = s1).
  { induction k as [|k IH]; [cbn; ring|]. cbn [sumn] in *. rewrite IH.
    unfold vget. cbn [nth]. rewrite nth_repeat. ring. }
  apply G.
Qed.

Lemma op_bound_nonneg (scale : bool) (A : crs) (M : S) : (0 < nrows A)%nat -> op_bound scale A M -> sle s0 M.
Proof.
  intros Hn HM. pose (x := s1 :: repeat (@s0 S) (nrows A - 1)%nat).
  assert (Hx : length x = nrows A) by (unfold x; cbn [length]; rewrite repeat_length; lia).
  pose proof (HM x Hx) as H. unfold x in H. rewrite vsq_e0 in H. replace (M * s1) with M in H by ring.
  apply (ole_trans Hof _ _ _ (vsq_nonneg Hof _) H).
Qed.

(* ---- the operator, densely: (T x)_i = c_i * (A x)_i, c_i = 1 or the inverse of the [dia] used for row i ---- *)
Lemma pm_inner (scale : bool) (b0 : vec) (i : nat) (r : row) (a dia : S) :
  fold_left (fun (sd : S * S) e =>
               (fst sd + snd e * vget b0 (fst e),
                if scale && Nat.eqb (fst e) i then snd e else snd sd)) r (a, dia)
  = (fold_left (fun acc e => acc + snd e * vget b0 (fst e)) r a,
     if scale then match last_col r i with Some d => d | None => dia end else dia).
Proof.
  revert a dia; induction r as [|[c v] r IH]; intros a dia; cbn [fold_left last_col fst snd].
  - destruct scale; reflexivity.
  - rewrite IH. f_equal. destruct scale; cbn [andb]; [|reflexivity].
    destruct (last_col r i); [reflexivity|]. destruct (Nat.eqb c i); reflexivity.
Qed.

Lemma pm_row_s_spec (scale : bool) (b0 : vec) (dia : S) (ir : nat * row) :
  pm_row_s scale b0 dia ir =
  (if scale then sinv (match last_col (snd ir) (fst ir) with Some d => d | None => dia end) * dotrow (snd ir) b0
   else dotrow (snd ir) b0,
   if scale then match last_col (snd ir) (fst ir) with Some d => d | None => dia end else dia).
Proof. unfold pm_row_s. rewrite pm_inner. cbn [fst snd]. unfold dotrow. destruct scale; reflexivity. Qed.

Lemma pm_svals_nth (scale : bool) (b0 : vec) (irs : list (nat * row)) : forall (dia : S) (i : nat),
  (i < length irs)%nat ->
  nth i (pm_svals scale b0 irs dia) s0 =
  if scale then sinv (nth i (pm_dias irs dia) s1) * dotrow (snd (nth i irs (0%nat, []))) b0
  else dotrow (snd (nth i irs (0%nat, []))) b0.
Proof.
  induction irs as [|ir t IH]; intros dia i Hi; cbn [length] in Hi; [lia|].
  cbn [pm_svals pm_dias]. rewrite pm_row_s_spec. cbn [fst snd]. destruct i as [|i]; cbn [nth].
  - destruct scale; reflexivity.
  - rewrite IH by lia. destruct scale; reflexivity.
Qed.

Lemma nth_indexed {X} (l : list X) (d : X) i : (i < length l)%nat -> nth i (indexed l) (0%nat, d) = (i, nth i l d).
Proof.
  intro Hi. unfold indexed. rewrite combine_nth by apply seq_length. rewrite seq_nth by exact Hi. reflexivity.
Qed.

Theorem pm_op_get (scale : bool) (A : crs) (x : vec) i : wf A = true -> (i < nrows A)%nat ->
  vget (pm_op scale A x) i = pm_coef scale A i * Ax A x i.
Proof.
  intros Hwf Hi. destruct (pm_iter_sums scale A x) as (_ & Eop & _). rewrite Eop. unfold vget.
  rewrite pm_svals_nth by (rewrite Gersh.indexed_length; exact Hi).
  rewrite nth_indexed by exact Hi. cbn [snd]. rewrite <- (Gersh.Ax_dotrow Srt A x i Hwf Hi).
  unfold pm_coef, pm_dia. destruct scale; [reflexivity|ring].
Qed.

Lemma vsq_pm_op (scale : bool) (A : crs) (x : vec) : wf A = true ->
  vsq (pm_op scale A x) = sumn (fun i => (pm_coef scale A i * Ax A x i) * (pm_coef scale A i * Ax A x i)) (nrows A).
Proof.
  intro Hwf. destruct (pm_iter_sums scale A x) as (_ & _ & Hl). unfold vsq. rewrite Hl.
  apply sumn_ext. intros i Hi. rewrite pm_op_get by assumption. reflexivity.
Qed.

(* the dense Frobenius norm bounds the operator (rows may be unsorted and may store a column twice) *)
Theorem op_bound_frob (scale : bool) (A : crs) : wf A = true -> nrows A = ncols A -> op_bound scale A (frob2 scale A).
Proof.
  intros Hwf Hsq x Hx. rewrite vsq_pm_op by exact Hwf. unfold frob2. rewrite <- (sumn_scal_r Hof).
  apply (osumn_le Hof). intros i Hi. set (c := pm_coef scale A i).
  replace (c * Ax A x i * (c * Ax A x i)) with (c * c * (Ax A x i * Ax A x i)) by ring.
  replace (c * c * sumn (fun j => mget A i j * mget A i j) (ncols A) * vsq x)
    with (c * c * (sumn (fun j => mget A i j * mget A i j) (ncols A) * vsq x)) by ring.
  apply (ole_mul_l Hof); [|apply (osq_nonneg Hof)].
  unfold Ax, vsq. rewrite Hx, Hsq. apply (cauchy_schwarz Hof).
Qed.

Lemma frob2_nonneg (scale : bool) (A : crs) : sle s0 (frob2 scale A).
Proof.
  apply (osumn_nonneg Hof). intros i _. apply (ole_mul_nonneg Hof); [apply (osq_nonneg Hof)|].
  apply (osumn_sq_nonneg Hof) with (f := fun j => mget A i j).
Qed.

(* the estimate never exceeds the Frobenius norm *)
Theorem power_le_frobenius (scale : bool) (A : crs) (iters : nat) (start : vec) :
  wf A = true -> nrows A = ncols A -> length start = nrows A ->
  Forall sqrt_ok (power_norms scale A iters start) ->
  let r := spectral_radius_power scale A iters start in
  sle s0 r /\ sle (r * r) (frob2 scale A).
Proof.
  intros Hwf Hsq Hs Hq. apply power_bound; try assumption; [apply frob2_nonneg|apply op_bound_frob; assumption].
Qed.

(* the exact-arithmetic oracle accepts the model's value, whatever ssqrt is *)
Theorem power_oracle_sound (scale : bool) (A : crs) (iters : nat) (start : vec) :
  wf A = true -> nrows A = ncols A -> (0 < iters)%nat -> length start = nrows A ->
  power_oracle scale A iters start (spectral_radius_power scale A iters start) = true.
Proof.
  intros Hwf Hsq Hk Hs.
  destruct (power_bound_always scale A (frob2 scale A) iters start (op_bound_frob scale A Hwf Hsq) Hk Hs) as [H0 H1].
  unfold power_oracle. cbv zeta. unfold Gersh.sle in H0, H1. rewrite H0, H1. reflexivity.
Qed.

(* ---- [dia] of a row that stores a diagonal entry is that entry: T = D^-1 A ---- *)
Lemma pm_dias_nth_some (irs : list (nat * row)) : forall (dia : S) (i : nat) (d : S), (i < length irs)%nat ->
  last_col (snd (nth i irs (0%nat, []))) (fst (nth i irs (0%nat, []))) = Some d ->
  nth i (pm_dias irs dia) s1 = d.
Proof.
  induction irs as [|ir t IH]; intros dia i d Hi Hd; cbn [length] in Hi; [lia|].
  cbn [pm_dias]. destruct i as [|i]; cbn [nth] in *.
  - rewrite Hd. reflexivity.
  - apply IH; [lia|exact Hd].
Qed.

Theorem pm_dia_last_diag (A : crs) i : Gersh.has_last_diag A = true -> (i < nrows A)%nat ->
  pm_dia A i = Gersh.last_diag A i.
Proof.
  intros Hd Hi. unfold Gersh.has_last_diag in Hd. rewrite forallb_forall in Hd.
  pose proof (Hd _ (Gersh.indexed_In (rows A) i [] Hi)) as H. unfold Gersh.has_last_diag_row in H. cbn [fst snd] in H.
  unfold pm_dia, Gersh.last_diag. destruct (last_col (nth i (rows A) []) i) as [d|] eqn:E; [|discriminate].
  apply pm_dias_nth_some; [rewrite Gersh.indexed_length; exact Hi|].
  rewrite nth_indexed by exact Hi. exact E.
Qed.

(* the property as stated: M bounds the squared singular values of A (resp. D^-1 A, D = last stored diagonal
   entries, every row storing one) *)
Definition DinvA (scale : bool) (A : crs) (x : vec) (i : nat) : S :=
  if scale then sinv (Gersh.last_diag A i) * Ax A x i else Ax A x i.

Theorem power_bound_dense (scale : bool) (A : crs) (M : S) (iters : nat) (start : vec) :
  wf A = true -> (scale = true -> Gersh.has_last_diag A = true) -> sle s0 M ->
  (forall x : vec, length x = nrows A ->
     sle (sumn (fun i => DinvA scale A x i * DinvA scale A x i) (nrows A)) (M * vsq x)) ->
  length start = nrows A -> Forall sqrt_ok (power_norms scale A iters start) ->
  let r := spectral_radius_power scale A iters start in
  sle s0 r /\ sle (r * r) M.
Proof.
  intros Hwf Hd HM0 HM Hs Hq. apply power_bound; try assumption.
  intros x Hx. rewrite vsq_pm_op by exact Hwf.
  rewrite (sumn_ext _ (fun i => DinvA scale A x i * DinvA scale A x i)); [apply HM; exact Hx|].
  intros i Hi. unfold DinvA, pm_coef. destruct scale.
  - rewrite pm_dia_last_diag by (try apply Hd; auto). reflexivity.
  - ring.
Qed.

End Power.
