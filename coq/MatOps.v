(* MatOps.v -- sparse matrix kernels of the builtin backend, definitions only
   (amgcl/backend/builtin.hpp:333-500, 662-777; amgcl/detail/spgemm.hpp:61-127;
    amgcl/detail/sort_row.hpp).  Proofs: MatOpsProofs.v. *)
From Amgcl Require Import Scalar Vec Crs.
Local Open Scope S_scope.

Section MatOps.
Context {S : Scalar}.
Local Notation vec := (vec S).
Local Notation row := (row S).
Local Notation crs := (crs S).

(* marker-array accumulation inside one output row: the first time column c is seen
   the entry is appended, afterwards the value is added to the existing entry *)
Fixpoint row_add (r : row) (c : nat) (v : S) : row :=
  match r with
  | [] => [(c, v)]
  | (c', v') :: tl => if Nat.eqb c' c then (c', v' + v) :: tl else (c', v') :: row_add tl c v
  end.

(* detail::sort_row : stable insertion sort by column (elements move only past
   strictly greater columns) *)
Fixpoint ins_sorted (e : nat * S) (r : row) : row :=
  match r with
  | [] => [e]
  | e' :: tl => if Nat.ltb (fst e) (fst e') then e :: e' :: tl else e' :: ins_sorted e tl
  end.
(* insertion of the next element into the sorted prefix happens from the right:
   the new element stops after the last element with column <= its own *)
Fixpoint ins_right (e : nat * S) (r : row) : row :=
  match r with
  | [] => [e]
  | e' :: tl => if Nat.leb (fst e') (fst e) then e' :: ins_right e tl else e :: e' :: tl
  end.
Definition sort_row (r : row) : row := fold_left (fun acc e => ins_right e acc) r [].

Definition sort_rows (A : crs) : crs := mkCrs (ncols A) (map sort_row (rows A)).

(* spgemm_saad: row ia of C accumulates va*vb over the entries of A's row and the
   corresponding rows of B, in storage order *)
Definition spgemm_row (ra : row) (B : crs) : row :=
  fold_left (fun acc ea =>
    fold_left (fun acc eb => row_add acc (fst eb) (snd ea * snd eb))
              (nth (fst ea) (rows B) []) acc) ra [].
Definition spgemm_saad (A B : crs) (sort : bool) : crs :=
  mkCrs (ncols B) (map (fun ra => let r := spgemm_row ra B in if sort then sort_row r else r) (rows A)).

(* transpose: row j of T lists (i, adjoint a) for the entries of column j, rows in
   increasing order, entries of one row in storage order *)
Definition indexed {X} (l : list X) : list (nat * X) := combine (seq 0 (length l)) l.
Definition transpose (A : crs) : crs :=
  mkCrs (nrows A)
    (map (fun j => flat_map (fun ir => map (fun e => (fst ir, sadj (snd e)))
                                           (filter (fun e => Nat.eqb (fst e) j) (snd ir)))
                            (indexed (rows A)))
         (seq 0 (ncols A))).

(* sum: alpha*A + beta*B with the same marker logic *)
Definition sum_row (alpha : S) (ra : row) (beta : S) (rb : row) : row :=
  fold_left (fun acc e => row_add acc (fst e) (beta * snd e)) rb
    (fold_left (fun acc e => row_add acc (fst e) (alpha * snd e)) ra []).
Fixpoint map2 {X Y Z} (f : X -> Y -> Z) (l1 : list X) (l2 : list Y) : list Z :=
  match l1, l2 with a :: l1', b :: l2' => f a b :: map2 f l1' l2' | _, _ => [] end.
Definition msum (alpha : S) (A : crs) (beta : S) (B : crs) (sort : bool) : crs :=
  mkCrs (ncols A) (map2 (fun ra rb => let r := sum_row alpha ra beta rb in if sort then sort_row r else r)
                        (rows A) (rows B)).

(* scale: A.val[j] *= s *)
Definition mscale (A : crs) (s : S) : crs :=
  mkCrs (ncols A) (map (map (fun e => (fst e, snd e * s))) (rows A)).

(* diagonal(A, invert): first entry of row i with column i; rows without a diagonal
   entry leave the (uninitialised) output cell untouched: explicit junk input *)
Fixpoint first_col (r : row) (i : nat) : option S :=
  match r with
  | [] => None
  | (c, v) :: tl => if Nat.eqb c i then Some v else first_col tl i
  end.
Definition diag_val (invert : bool) (d : S) : S :=
  if invert then (if is_zero d then s1 else sinv d) else d.
Definition diagonal (A : crs) (invert : bool) (junk : vec) : vec :=
  map (fun ir => match first_col (snd ir) (fst ir) with
                 | Some d => diag_val invert d
                 | None => vget junk (fst ir)
                 end) (indexed (rows A)).
Definition has_diag (A : crs) : bool :=
  forallb (fun ir => match first_col (snd ir) (fst ir) with Some _ => true | None => false end)
          (indexed (rows A)).

(* identity-like helpers used by specifications *)
Definition mget_dense (A : crs) : list (list S) :=
  map (fun r => map (fun j => rget r j) (seq 0 (ncols A))) (rows A).

End MatOps.
