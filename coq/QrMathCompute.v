(* QrMathCompute.v -- QR::compute (Qr.v: qr_compute) in matrix terms.
   For strides (rs, cs) that address an m x n matrix injectively inside the array (row-major
   (n,1) and column-major (1,m) are instances), after compute():
     - every stored reflector  H_j = I - tau_j v_j v_j'  (v_j = (0..0, 1, A'[j+1..m-1][j]))
       satisfies  tau_j = 0  or  tau_j * v_j'v_j = 2   (so H_j is symmetric and orthogonal),
     - each column of the input equals  H_0 H_1 ... H_(k-1)  applied to the column of R,
       R = the accessor qr_R (upper triangular part of the array).
   Hypotheses: see QrMathRefl.v.   (C16 / A6) *)
From Amgcl Require Import Scalar Vec KernelsProofs StaticMatProofs DirectUtil DirectProofs Qr QrProofs QrMathAlg QrMathRefl.
Local Open Scope S_scope.
Local Open Scope nat_scope.

Section HouseVector.
Context {S : Scalar}.
Hypothesis Sft : Sfield S.
Let SrtH : Sring S := F_R Sft.
Add Ring SRingQrHV : SrtH.
Add Field SFieldQrHV : Sft.

Lemma sumn_split3 (f : nat -> S) i m : i < m ->
  sumn f m = (sumn f i + f i + sumn (fun t => f (i + 1 + t)%nat) (m - i - 1))%S.
Proof.
  intro H. replace m with (i + 1 + (m - i - 1)) at 1 by lia.
  rewrite (sumn_app Sft). replace (i + 1) with (Datatypes.S i) at 1 by lia. reflexivity.
Qed.

(* the elementary reflector of ZLARFG: for any beta with beta^2 = |x[i..]|^2, beta <> 0, beta <> x_i *)
Lemma house_vector m (x : nat -> S) i (beta : S) :
  i < m -> beta <> s0 -> (x i - beta)%S <> s0 ->
  (beta * beta = x i * x i + sumn (fun t => x (i + 1 + t)%nat * x (i + 1 + t)%nat) (m - i - 1))%S ->
  let v := fun r => if Nat.ltb r i then s0 else if Nat.eqb r i then s1 else (sinv (x i - beta) * x r)%S in
  let tau := (s1 - sinv beta * x i)%S in
  ReflOK m tau v /\
  forall r, r < m -> happ m tau v x r = if Nat.ltb r i then x r else if Nat.eqb r i then beta else s0.
Proof.
  intros Hi Hb Hab Hbb v tau.
  set (a := x i) in *. set (xn := sumn (fun t => (x (i + 1 + t)%nat * x (i + 1 + t)%nat)%S) (m - i - 1)) in *.
  assert (Hxn : xn = (beta * beta - a * a)%S) by (rewrite Hbb; ring).
  assert (Hvv : dot m v v = (s1 + sinv (a - beta) * sinv (a - beta) * xn)%S).
  { unfold dot. rewrite (sumn_split3 _ i m Hi).
    rewrite (sumn_allz Sft) by (intros t Ht; unfold v; destruct (Nat.ltb_spec t i); [ring|lia]).
    unfold v at 1 2. destruct (Nat.ltb_spec i i); [lia|]. rewrite Nat.eqb_refl.
    assert (E : sumn (fun t => (v (i + 1 + t)%nat * v (i + 1 + t)%nat)%S) (m - i - 1)
              = sumn (fun t => (sinv (a - beta) * sinv (a - beta) * (x (i + 1 + t)%nat * x (i + 1 + t)%nat))%S) (m - i - 1)).
    { apply sumn_ext. intros t _. unfold v. destruct (Nat.ltb_spec (i + 1 + t) i); [lia|].
      destruct (Nat.eqb_spec (i + 1 + t) i); [lia|]. ring. }
    rewrite E, (sumn_scal SrtH). fold xn. ring. }
  assert (Hvx : dot m v x = (a + sinv (a - beta) * xn)%S).
  { unfold dot. rewrite (sumn_split3 _ i m Hi).
    rewrite (sumn_allz Sft) by (intros t Ht; unfold v; destruct (Nat.ltb_spec t i); [ring|lia]).
    unfold v at 1. destruct (Nat.ltb_spec i i); [lia|]. rewrite Nat.eqb_refl.
    assert (E : sumn (fun t => (v (i + 1 + t)%nat * x (i + 1 + t)%nat)%S) (m - i - 1)
              = sumn (fun t => (sinv (a - beta) * (x (i + 1 + t)%nat * x (i + 1 + t)%nat))%S) (m - i - 1)).
    { apply sumn_ext. intros t _. unfold v. destruct (Nat.ltb_spec (i + 1 + t) i); [lia|].
      destruct (Nat.eqb_spec (i + 1 + t) i); [lia|]. ring. }
    rewrite E, (sumn_scal SrtH). fold xn. fold a. ring. }
  split.
  - unfold ReflOK. rewrite Hvv, Hxn. unfold tau. fold a. field. split; assumption.
  - intros r Hr. unfold happ. rewrite Hvx, Hxn. unfold v, tau. fold a.
    destruct (Nat.ltb_spec r i); [ring|]. destruct (Nat.eqb_spec r i) as [->|Hne].
    + fold a. field. split; assumption.
    + field. split; assumption.
Qed.

Lemma ReflOK_ext m tau (v v' : nat -> S) : (forall l, l < m -> v l = v' l) -> ReflOK m tau v -> ReflOK m tau v'.
Proof. intros E H. unfold ReflOK in *. rewrite <- (dot_ext m v v v' v' E E). assumption. Qed.

Lemma ReflOK_tau0 m (v : nat -> S) : ReflOK m s0 v.
Proof. unfold ReflOK. ring. Qed.

End HouseVector.

Section Compute.
Context {S : Scalar}.
Local Notation vec := (vec S).
Hypothesis Sft : Sfield S.
Hypothesis Seqb : seqb_spec S.
Hypothesis Hadj : forall x : S, sadj x = x.
Hypothesis Habs : forall x : S, (sabs x * sabs x = x * x)%S.
Hypothesis Hsqrt : forall y : S, sos y -> (ssqrt y * ssqrt y = y)%S.
Hypothesis Hreal : forall y x : S, sos y -> (y + x * x = s0)%S -> y = s0.
Let SrtC : Sring S := F_R Sft.
Add Ring SRingQrC : SrtC.

Variables m n rs cs : nat.
(* the strides address an m x n matrix injectively *)
Definition StrideOK : Prop :=
  forall i j i' j', i < m -> j < n -> i' < m -> j' < n -> i * rs + j * cs = i' * rs + j' * cs -> i = i' /\ j = j'.
Definition InB (A : vec) : Prop := forall i j, i < m -> j < n -> i * rs + j * cs < length A.
Hypothesis Hst : StrideOK.

Definition mv (A : vec) (i j : nat) : S := vget A (i * rs + j * cs).
(* v_j as stored: zeros, unit diagonal, column j of the array below the diagonal *)
Definition vcol (A : vec) (j r : nat) : S :=
  if Nat.ltb r j then s0 else if Nat.eqb r j then s1 else mv A r j.
(* the working matrix after i steps: reflector storage of the finished columns read as zero *)
Definition Bmat (i : nat) (A : vec) (l c : nat) : S :=
  if Nat.ltb c i && Nat.ltb c l then s0 else mv A l c.

Lemma InB_length (A A' : vec) : length A' = length A -> InB A -> InB A'.
Proof. intros E H i j Hi Hj. rewrite E. apply H; assumption. Qed.

(* ---------- one step of compute ---------- *)
Definition compute_step (i : nat) (A : vec) : vec * S :=
  let ii := i * (rs + cs) in
  let '(t, A1) := gen_reflector (m - i) ii (ii + rs) rs A in
  let A2 := if Nat.ltb (i + 1) n
            then apply_reflector (m - i) (n - i - 1) A1 ii rs (sadj t) A1 (ii + cs) rs cs
            else A1 in
  (A2, t).

Lemma compute_step_spec i (A : vec) : i < m -> i < n -> InB A ->
  let A2 := fst (compute_step i A) in
  let t := snd (compute_step i A) in
  length A2 = length A /\
  (forall r c, r < m -> c < n -> (c < i \/ r < i) -> mv A2 r c = mv A r c) /\
  ReflOK m t (vcol A2 i) /\
  (forall c r, i <= c -> c < n -> r < m ->
     happ m t (vcol A2 i) (fun l => mv A l c) r = if Nat.eqb c i && Nat.ltb i r then s0 else mv A2 r c).
Proof.
  intros Hi Hin HB. unfold compute_step. cbv zeta.
  set (ii := i * (rs + cs)).
  (* cells of gen_reflector *)
  assert (Eii : ii = i * rs + i * cs) by (unfold ii; ring).
  assert (Ex : forall t, ii + rs + t * rs = (i + 1 + t) * rs + i * cs) by (intro t; unfold ii; ring).
  pose proof (gen_reflector_spec Sft Seqb Habs Hsqrt Hreal (m - i) ii (ii + rs) rs A) as HG.
  cbv zeta in HG.
  destruct HG as (HL1 & Hfr1 & Hcase).
  { intros t Ht E. rewrite Ex, Eii in E. apply Hst in E; lia. }
  { intros t t' Ht Ht' E. rewrite !Ex in E. apply Hst in E; lia. }
  { rewrite Eii. apply HB; lia. }
  { intros t Ht. rewrite Ex. apply HB; lia. }
  destruct (gen_reflector (m - i) ii (ii + rs) rs A) as [t A1] eqn:EG. cbn [fst snd] in *.
  assert (HB1 : InB A1) by (apply (InB_length A); assumption).
  (* A1 in matrix terms *)
  assert (HA1 : forall r c, r < m -> c < n -> (c <> i \/ r < i) -> mv A1 r c = mv A r c).
  { intros r c Hr Hc Hor. unfold mv. apply Hfr1.
    - rewrite Eii. intro E. apply Hst in E; lia.
    - intros t' Ht' E. rewrite Ex in E. apply Hst in E; lia. }
  (* the apply step *)
  set (A2 := if Nat.ltb (i + 1) n then apply_reflector (m - i) (n - i - 1) A1 ii rs (sadj t) A1 (ii + cs) rs cs else A1).
  assert (Ec : forall c' j, ii + cs + c' * cs + j * rs = (i + j) * rs + (i + 1 + c') * cs) by (intros; unfold ii; ring).
  assert (Ev : forall j, ii + j * rs = (i + j) * rs + i * cs) by (intros; unfold ii; ring).
  assert (HA2 : length A2 = length A1 /\
     (forall r c, r < m -> c < n -> (c <= i \/ r < i) -> mv A2 r c = mv A1 r c) /\
     (forall c r, i < c -> c < n -> i <= r -> r < m ->
        mv A2 r c = (mv A1 r c - vcol A1 i r * (t * sumn (fun l => vcol A1 i (i + l) * mv A1 (i + l) c) (m - i)))%S)).
  { unfold A2. destruct (Nat.ltb_spec (i + 1) n) as [Hn|Hn].
    - pose proof (apply_reflector_spec Sft Seqb Hadj (m - i) (n - i - 1) A1 ii rs (sadj t) A1 (ii + cs) rs cs) as HA.
      cbv zeta in HA. destruct HA as (HL2 & Hfr2 & Hv2).
      { lia. }
      { intros c j c' j' Hc Hj Hc' Hj' E. rewrite !Ec in E. apply Hst in E; lia. }
      { intros c j Hc Hj. rewrite Ec. apply HB1; lia. }
      split; [assumption|]. split.
      + intros r c Hr Hc Hor. unfold mv. apply Hfr2. intros c' j Hc' Hj E. rewrite Ec in E. apply Hst in E; lia.
      + intros c r Hic Hc Hir Hr. unfold mv at 1.
        replace (r * rs + c * cs) with (ii + cs + (c - i - 1) * cs + (r - i) * rs)
          by (rewrite Ec; f_equal; f_equal; lia).
        rewrite Hv2 by lia. rewrite Hadj.
        assert (Evv : forall j, j < m - i -> vvec A1 ii rs j = vcol A1 i (i + j)).
        { intros j Hj. unfold vvec, vcol. destruct (Nat.ltb_spec (i + j) i); [lia|].
          destruct (Nat.eqb_spec j 0) as [->|Hj0].
          - rewrite Nat.add_0_r, Nat.eqb_refl. reflexivity.
          - destruct (Nat.eqb_spec (i + j) i); [lia|]. unfold mv. rewrite Ev. reflexivity. }
        rewrite Evv by lia. replace (i + (r - i)) with r by lia.
        rewrite Ec. replace (i + (r - i)) with r by lia. replace (i + 1 + (c - i - 1)) with c by lia.
        fold (mv A1 r c). f_equal. f_equal. f_equal. apply sumn_ext. intros l Hl.
        rewrite Evv by assumption. rewrite Ec. replace (i + 1 + (c - i - 1)) with c by lia. reflexivity.
    - split; [reflexivity|]. split; [reflexivity|]. intros; lia. }
  destruct HA2 as (HL2 & HA2fr & HA2v).
  assert (Hvc : forall l, l < m -> vcol A2 i l = vcol A1 i l).
  { intros l Hl. unfold vcol. destruct (Nat.ltb l i); [reflexivity|]. destruct (Nat.eqb l i); [reflexivity|].
    apply HA2fr; try assumption. left. lia. }
  split; [congruence|]. split.
  { intros r c Hr Hc Hor. rewrite HA2fr by (try assumption; lia). apply HA1; try assumption. lia. }
  (* the reflector generated in this step, as a function-level statement about column i *)
  assert (Hrefl : ReflOK m t (vcol A1 i) /\
     forall r, r < m -> happ m t (vcol A1 i) (fun l => mv A l i) r = if Nat.ltb i r then s0 else mv A1 r i).
  { destruct Hcase as [(Et & EA & Hz)|(beta & Hbnz & Habnz & Hbb & Et & Hbeta & Hx)].
    - subst t. split; [apply (ReflOK_tau0 Sft)|]. intros r Hr. rewrite happ_tau0 by assumption.
      rewrite EA. destruct (Nat.ltb_spec i r); [|reflexivity].
      unfold mv. replace (r * rs + i * cs) with (ii + rs + (r - i - 1) * rs) by (rewrite Ex; f_equal; f_equal; lia).
      apply Hz. lia.
    - assert (Ea : vget A ii = mv A i i) by (unfold mv; rewrite Eii; reflexivity).
      rewrite Ea in *.
      assert (Exx : forall u, vget A (ii + rs + u * rs) = mv A (i + 1 + u) i) by (intro u; unfold mv; rewrite Ex; reflexivity).
      pose proof (house_vector Sft m (fun l => mv A l i) i beta Hi Hbnz Habnz) as HV. cbv beta zeta in HV.
      destruct HV as (HR & HH).
      { rewrite Hbb. f_equal. apply sumn_ext. intros u _. rewrite Exx. reflexivity. }
      assert (Evv : forall l, l < m -> (if Nat.ltb l i then s0 else if Nat.eqb l i then s1 else (sinv (mv A i i - beta) * mv A l i)%S) = vcol A1 i l).
      { intros l Hl. unfold vcol. destruct (Nat.ltb_spec l i); [reflexivity|]. destruct (Nat.eqb_spec l i); [reflexivity|].
        unfold mv at 3. replace (l * rs + i * cs) with (ii + rs + (l - i - 1) * rs) by (rewrite Ex; f_equal; f_equal; lia).
        rewrite Hx by lia. rewrite Exx. replace (i + 1 + (l - i - 1)) with l by lia. reflexivity. }
      rewrite <- Et in *.
      split; [apply (ReflOK_ext m t _ _ Evv HR)|].
      intros r Hr. rewrite <- (happ_ext m t _ _ _ _ Evv (fun l _ => eq_refl) r Hr). rewrite HH by assumption.
      destruct (Nat.ltb_spec r i), (Nat.ltb_spec i r); try lia.
      + symmetry. apply HA1; try assumption; lia.
      + destruct (Nat.eqb_spec r i); [lia|]. reflexivity.
      + destruct (Nat.eqb_spec r i); [|lia]. subst r. unfold mv. rewrite <- Eii. symmetry. assumption. }
  destruct Hrefl as (HR1 & HH1).
  split; [apply (ReflOK_ext m t (vcol A1 i)); [intros; symmetry; apply Hvc; assumption|assumption]|].
  intros c r Hic Hc Hr.
  rewrite (happ_ext m t (vcol A2 i) (vcol A1 i) _ (fun l => mv A l c) Hvc (fun l _ => eq_refl) r Hr).
  destruct (Nat.eq_dec c i) as [->|Hci].
  - rewrite Nat.eqb_refl. cbn [andb]. rewrite HH1 by assumption.
    destruct (Nat.ltb i r); [reflexivity|]. symmetry. apply HA2fr; try assumption. left. lia.
  - destruct (Nat.eqb_spec c i); [lia|]. cbn [andb].
    destruct (Nat.lt_ge_cases r i) as [Hri|Hri].
    + unfold happ. unfold vcol at 1. destruct (Nat.ltb_spec r i); [|lia].
      rewrite HA2fr by (try assumption; lia). rewrite HA1 by (try assumption; lia). ring.
    + rewrite HA2v by (try assumption; lia). unfold happ.
      rewrite HA1 by (try assumption; lia). f_equal. f_equal. f_equal.
      unfold dot. replace m with (i + (m - i)) at 1 by lia. rewrite (sumn_app Sft).
      rewrite (sumn_allz Sft) by (intros u Hu; unfold vcol; destruct (Nat.ltb_spec u i); [ring|lia]).
      transitivity (sumn (fun u => (vcol A1 i (i + u) * mv A (i + u) c)%S) (m - i)); [ring|].
      apply sumn_ext. intros u Hu. rewrite HA1 by (try assumption; lia). reflexivity.
Qed.

(* ---------- the loop ---------- *)
Definition CInv (A0 : vec) (i : nat) (At : vec * vec) : Prop :=
  length (fst At) = length A0 /\ length (snd At) = Nat.min m n /\
  (forall j, j < i -> ReflOK m (vget (snd At) j) (vcol (fst At) j)) /\
  (forall c r, c < n -> r < m ->
     mv A0 r c = hprod m (vget (snd At)) (vcol (fst At)) i (fun l => Bmat i (fst At) l c) r).

Lemma CInv_step (A0 : vec) i (At : vec * vec) : InB A0 -> i < Nat.min m n -> CInv A0 i At ->
  CInv A0 (Datatypes.S i) (fst (compute_step i (fst At)), lset (snd At) i (snd (compute_step i (fst At)))).
Proof.
  intros HB0 Hi (HL & HLt & HR & HP). destruct At as [A tv]. cbn [fst snd] in *.
  assert (HB : InB A) by (apply (InB_length A0); assumption).
  destruct (compute_step_spec i A ltac:(lia) ltac:(lia) HB) as (HL2 & Hfr & HRi & HH).
  set (A2 := fst (compute_step i A)) in *. set (t := snd (compute_step i A)) in *.
  assert (Et : vget (lset tv i t) i = t) by (apply vget_lset_eq; lia).
  assert (Etj : forall j, j < i -> vget (lset tv i t) j = vget tv j) by (intros j Hj; apply vget_lset_neq; lia).
  assert (Evj : forall j l, j < i -> l < m -> vcol A2 j l = vcol A j l).
  { intros j l Hj Hl. unfold vcol. destruct (Nat.ltb l j); [reflexivity|]. destruct (Nat.eqb l j); [reflexivity|].
    apply Hfr; [assumption|lia|left; assumption]. }
  unfold CInv. cbn [fst snd]. split; [congruence|]. split; [rewrite lset_length; assumption|]. split.
  - intros j Hj. destruct (Nat.eq_dec j i) as [->|Hne].
    + rewrite Et. assumption.
    + rewrite Etj by lia. apply (ReflOK_ext m _ (vcol A j)); [intros; symmetry; apply Evj; [lia|assumption]|apply HR; lia].
  - intros c r Hc Hr. rewrite (HP c r Hc Hr). simpl hprod. rewrite Et.
    apply hprod_ext; try assumption.
    + intros j Hj. symmetry. apply Etj. assumption.
    + intros j l Hj Hl. symmetry. apply Evj; assumption.
    + (* B_i[:,c] = H_i B_(i+1)[:,c] *)
      intros l Hl. destruct (Nat.lt_ge_cases c i) as [Hci|Hci].
      * (* finished column: orthogonal to v_i *)
        rewrite (happ_fix Sft).
        -- unfold Bmat. destruct (Nat.ltb_spec c i); [|lia]. destruct (Nat.ltb_spec c (Datatypes.S i)); [|lia].
           cbn [andb]. destruct (Nat.ltb c l); [reflexivity|]. symmetry. apply Hfr; [assumption|assumption|left; assumption].
        -- unfold dot. apply (sumn_allz Sft). intros u Hu. unfold vcol, Bmat.
           destruct (Nat.ltb_spec u i); [ring|].
           destruct (Nat.ltb_spec c (Datatypes.S i)); [|lia]. destruct (Nat.ltb_spec c u); [|lia]. cbn [andb]. ring.
      * assert (EB : forall l', l' < m -> Bmat (Datatypes.S i) A2 l' c = happ m t (vcol A2 i) (fun l0 => mv A l0 c) l').
        { intros l' Hl'. rewrite HH by assumption. unfold Bmat.
          destruct (Nat.eqb_spec c i) as [->|Hne].
          - destruct (Nat.ltb_spec i (Datatypes.S i)); [|lia]. reflexivity.
          - destruct (Nat.ltb_spec c (Datatypes.S i)); [lia|]. reflexivity. }
        rewrite (happ_ext m t (vcol A2 i) (vcol A2 i) _ _ (fun _ _ => eq_refl) EB l Hl).
        rewrite happ_invol by assumption. unfold Bmat. destruct (Nat.ltb_spec c i); [lia|]. reflexivity.
Qed.

Lemma qr_compute_unfold (A : vec) :
  qr_compute m n rs cs A =
  for_loop 0 (Nat.min m n) (fun i At => (fst (compute_step i (fst At)), lset (snd At) i (snd (compute_step i (fst At)))))
           (A, repeat s0 (Nat.min m n)).
Proof.
  unfold qr_compute. apply for_loop_ext. intros i [Ac tv] _. unfold compute_step. cbv zeta. cbn [fst snd].
  destruct (gen_reflector (m - i) (i * (rs + cs)) (i * (rs + cs) + rs) rs Ac) as [t A1]. reflexivity.
Qed.

(* R as the accessor returns it, for every row index *)
Lemma Bmat_final (A' : vec) l c : l < m -> c < n -> Bmat (Nat.min m n) A' l c = qr_R rs cs A' l c.
Proof.
  intros Hl Hc. unfold Bmat, qr_R, mv.
  destruct (Nat.ltb_spec c l); [|rewrite Bool.andb_false_r; reflexivity].
  destruct (Nat.ltb_spec c (Nat.min m n)); [reflexivity|lia].
Qed.

Theorem qr_compute_spec (A0 : vec) : InB A0 ->
  let A' := fst (qr_compute m n rs cs A0) in
  let tau := snd (qr_compute m n rs cs A0) in
  length A' = length A0 /\ length tau = Nat.min m n /\
  (forall j, j < Nat.min m n -> ReflOK m (vget tau j) (vcol A' j)) /\
  (forall c r, c < n -> r < m ->
     mv A0 r c = hprod m (vget tau) (vcol A') (Nat.min m n) (fun l => qr_R rs cs A' l c) r).
Proof.
  intros HB. cbv zeta. rewrite qr_compute_unfold.
  match goal with |- context [for_loop 0 ?k ?body ?init] =>
    assert (H : CInv A0 (0 + k) (for_loop 0 k body init)) end.
  { apply (for_loop_inv (CInv A0)).
    - split; [reflexivity|]. split; [apply repeat_length|]. split; [intros; lia|].
      intros c r Hc Hr. cbn [fst snd hprod]. unfold Bmat. reflexivity.
    - intros i At Hi HI. apply CInv_step; [assumption|lia|assumption]. }
  destruct H as (H1 & H2 & H3 & H4). split; [assumption|]. split; [assumption|]. split; [assumption|].
  intros c r Hc Hr. rewrite (H4 c r Hc Hr). apply hprod_ext; try reflexivity; [|assumption].
  intros l Hl. apply Bmat_final; assumption.
Qed.

End Compute.
