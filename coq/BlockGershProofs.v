(* BlockGershProofs.v -- C08, spectral_radius (Gershgorin branch) for BLOCK values: math::norm of a block is a base
   scalar, so the whole computation runs on base scalars although the model (MatOps2.spectral_radius_gersh at
   BlockS) carries them embedded as c*I.
   Section EmbGersh (abstract): B a Scalar with an embedding [emb : S0 -> B] of base scalars that preserves + * < 0 1
   and a norm [nrm : B -> S0] with sabs a = emb (nrm a).  Then
     spectral_radius_gersh (S := B) scale lens A = emb (gersh_n scale lens A)            [gersh_emb]
   where gersh_n is the SAME loop on base scalars (row sums of nrm a_ij, times nrm (inverse dia) when scaled), and for
   the unscaled variant this is the scalar Gershgorin estimate of the matrix of norms
     gersh_n false lens A = spectral_radius_gersh (S := S0) false lens (norm_matrix A)   [gersh_n_norm_matrix]
   (needs sabs (nrm a) = nrm a: norms are non-negative).
   Section BlockGersh: BlockS QcS b with emb = blk_embed, nrm = Frobenius norm (sm_norm) satisfies the hypotheses for
   b >= 1 (operator< of static_matrix compares traces: b*x < b*y iff x < y), hence for every thread chunking
     spectral_radius<false>(A) = max(0, max_i sum_j ||a_ij||_F)  over the stored blocks.  [block_gersh_value_Qc] *)
From Coq Require Import QArith Qcanon Qcabs.
From Amgcl Require Import Scalar QcInst Vec Crs Kernels KernelsProofs MatOps MatOpsProofs MatOps2 MatOps2Proofs
  DirectUtil Inverse StaticMat StaticMatProofs BlockInst NcRing NcRingBlock.
Local Close Scope Qc_scope.
Local Close Scope Q_scope.
Local Open Scope nat_scope.
Local Open Scope S_scope.

Section EmbGersh.
Variable S0 B : Scalar.
Variable emb : S0 -> B.
Variable nrm : B -> S0.
Hypothesis emb_add : forall x y : S0, emb (x + y) = emb x + emb y.
Hypothesis emb_mul : forall x y : S0, emb (x * y) = emb x * emb y.
Hypothesis emb_ltb : forall x y : S0, sltb (emb x) (emb y) = sltb x y.
Hypothesis emb_0 : emb s0 = s0.
Hypothesis emb_1 : emb s1 = s1.
Hypothesis abs_emb : forall a : B, sabs a = emb (nrm a).

Lemma emb_smax (x y : S0) : smax (emb x) (emb y) = emb (smax x y).
Proof. unfold smax. rewrite emb_ltb. destruct (sltb x y); reflexivity. Qed.

(* the loop on base scalars *)
Definition gersh_row_n (scale : bool) (emax : S0) (ir : nat * row B) : S0 :=
  let sd := fold_left (fun (sd : S0 * B) e =>
                         (fst sd + nrm (snd e),
                          if scale && Nat.eqb (fst e) (fst ir) then snd e else snd sd))
                      (snd ir) (s0, s1) in
  let s := if scale then fst sd * nrm (sinv (snd sd)) else fst sd in
  smax emax s.
Definition gersh_chunk_n (scale : bool) (irs : list (nat * row B)) : S0 :=
  fold_left (gersh_row_n scale) irs s0.
Definition gersh_n (scale : bool) (lens : list nat) (A : crs B) : S0 :=
  let radius := fold_left (fun r ch => smax r (gersh_chunk_n scale ch))
                          (chunks lens (indexed (rows A))) s0 in
  if sltb radius s0 then s1 + s1 else radius.

Lemma gersh_inner_emb (scale : bool) (i : nat) (r : row B) (a : S0) (d : B) :
  fold_left (fun (sd : B * B) e =>
               (fst sd + sabs (snd e), if scale && Nat.eqb (fst e) i then snd e else snd sd)) r (emb a, d) =
  (emb (fst (fold_left (fun (sd : S0 * B) e =>
               (fst sd + nrm (snd e), if scale && Nat.eqb (fst e) i then snd e else snd sd)) r (a, d))),
   snd (fold_left (fun (sd : S0 * B) e =>
               (fst sd + nrm (snd e), if scale && Nat.eqb (fst e) i then snd e else snd sd)) r (a, d))).
Proof.
  revert a d; induction r as [|e r IH]; intros a d; simpl; [reflexivity|].
  rewrite abs_emb, <- emb_add. apply IH.
Qed.

Lemma gersh_row_emb (scale : bool) (e : S0) (ir : nat * row B) :
  gersh_row scale (emb e) ir = emb (gersh_row_n scale e ir).
Proof.
  unfold gersh_row, gersh_row_n. cbv zeta. rewrite <- emb_0. rewrite !gersh_inner_emb. cbn [fst snd].
  destruct scale.
  - rewrite abs_emb, <- emb_mul. apply emb_smax.
  - apply emb_smax.
Qed.

Lemma gersh_fold_emb (scale : bool) (irs : list (nat * row B)) (e : S0) :
  fold_left (gersh_row scale) irs (emb e) = emb (fold_left (gersh_row_n scale) irs e).
Proof.
  revert e; induction irs as [|ir irs IH]; intro e; simpl; [reflexivity|].
  rewrite gersh_row_emb. apply IH.
Qed.

Lemma gersh_chunk_emb (scale : bool) (irs : list (nat * row B)) :
  gersh_chunk scale irs = emb (gersh_chunk_n scale irs).
Proof. unfold gersh_chunk, gersh_chunk_n. rewrite <- emb_0 at 1. apply gersh_fold_emb. Qed.

Lemma gersh_outer_emb (scale : bool) (chs : list (list (nat * row B))) (r : S0) :
  fold_left (fun r ch => smax r (gersh_chunk scale ch)) chs (emb r) =
  emb (fold_left (fun r ch => smax r (gersh_chunk_n scale ch)) chs r).
Proof.
  revert r; induction chs as [|ch chs IH]; intro r; simpl; [reflexivity|].
  rewrite gersh_chunk_emb, emb_smax. apply IH.
Qed.

(* the block-valued Gershgorin estimate is the embedded base-scalar computation *)
Theorem gersh_emb (scale : bool) (lens : list nat) (A : crs B) :
  spectral_radius_gersh scale lens A = emb (gersh_n scale lens A).
Proof.
  unfold spectral_radius_gersh, gersh_n, s2. cbv zeta.
  rewrite <- emb_0. rewrite !gersh_outer_emb. rewrite emb_ltb.
  destruct (sltb _ s0); [|reflexivity].
  rewrite emb_add, emb_1. reflexivity.
Qed.

(* ---- unscaled: the scalar Gershgorin estimate of the matrix of norms ---- *)
Definition norm_row (r : row B) : row S0 := map (fun e => (fst e, nrm (snd e))) r.
Definition norm_matrix (A : crs B) : crs S0 := mkCrs (ncols A) (map norm_row (rows A)).

Hypothesis abs_nrm : forall a : B, sabs (nrm a) = nrm a.

Lemma gersh_inner_norm (i : nat) (r : row B) (a : S0) (d : B) (d' : S0) :
  fst (fold_left (fun (sd : S0 * B) e =>
               (fst sd + nrm (snd e), if false && Nat.eqb (fst e) i then snd e else snd sd)) r (a, d)) =
  fst (fold_left (fun (sd : S0 * S0) e =>
               (fst sd + sabs (snd e), if false && Nat.eqb (fst e) i then snd e else snd sd)) (norm_row r) (a, d')).
Proof.
  revert a; induction r as [|e r IH]; intro a; simpl; [reflexivity|].
  rewrite abs_nrm. apply IH.
Qed.

Lemma gersh_row_norm (e : S0) (ir : nat * row B) :
  gersh_row_n false e ir = gersh_row false e (fst ir, norm_row (snd ir)).
Proof.
  unfold gersh_row_n, gersh_row. cbn [fst snd]. f_equal. apply gersh_inner_norm.
Qed.

Lemma gersh_chunk_norm (irs : list (nat * row B)) :
  gersh_chunk_n false irs = gersh_chunk false (map (fun ir => (fst ir, norm_row (snd ir))) irs).
Proof.
  unfold gersh_chunk_n, gersh_chunk. generalize (@s0 S0).
  induction irs as [|ir irs IH]; intro e; simpl; [reflexivity|].
  rewrite gersh_row_norm. apply IH.
Qed.

Lemma combine_seq_map {X Y} (g : X -> Y) (l : list X) k :
  combine (seq k (length (map g l))) (map g l) =
  map (fun ir => (fst ir, g (snd ir))) (combine (seq k (length l)) l).
Proof.
  revert k; induction l as [|x l IH]; intro k; simpl; [reflexivity|]. f_equal. apply IH.
Qed.

Lemma chunks_map {X Y} (g : X -> Y) (lens : list nat) (l : list X) :
  chunks lens (map g l) = map (map g) (chunks lens l).
Proof.
  revert l; induction lens as [|n ns IH]; intro l; simpl; [reflexivity|].
  rewrite firstn_map, skipn_map, IH. reflexivity.
Qed.

Theorem gersh_n_norm_matrix (lens : list nat) (A : crs B) :
  gersh_n false lens A = spectral_radius_gersh false lens (norm_matrix A).
Proof.
  unfold gersh_n, spectral_radius_gersh, s2, norm_matrix. cbn [rows].
  unfold indexed. rewrite combine_seq_map, chunks_map.
  assert (E : forall (chs : list (list (nat * row B))) r,
            fold_left (fun r ch => smax r (gersh_chunk_n false ch)) chs r =
            fold_left (fun r ch => smax r (gersh_chunk false ch))
                      (map (map (fun ir => (fst ir, norm_row (snd ir)))) chs) r).
  { induction chs as [|ch chs IH]; intro r; simpl; [reflexivity|]. rewrite gersh_chunk_norm. apply IH. }
  rewrite E. reflexivity.
Qed.

End EmbGersh.

(* ------------------------------------------------------------------ *)
(* static_matrix<Q,b,b>: emb = c |-> c*I, nrm = Frobenius norm *)
Section BlockGersh.
Variable b : nat.
Hypothesis Hb : 0 < b.
Local Notation B := (BlockS QcS b).

Definition qn (n : nat) : Qc := Q2Qc (inject_Z (Z.of_nat n)).

Lemma qn_succ n : qn (Datatypes.S n) = Qcplus (qn n) (Q2Qc 1%Q).
Proof.
  unfold qn. apply Qc_is_canon. unfold Qcplus, Q2Qc. cbn [this]. rewrite !Qred_correct.
  rewrite Nat2Z.inj_succ. unfold Z.succ. rewrite inject_Z_plus. reflexivity.
Qed.

Lemma sumn_const_Qc (x : Qc) n : sumn (S := QcS) (fun _ => x) n = Qcmult (qn n) x.
Proof.
  induction n as [|n IH].
  - cbn [sumn]. unfold qn. cbn [s0 QcS]. apply Qc_is_canon. cbn. reflexivity.
  - cbn [sumn]. rewrite IH, qn_succ.
    change (Qcplus (Qcmult (qn n) x) x = Qcmult (Qcplus (qn n) (Q2Qc 1%Q)) x). ring.
Qed.

Lemma trace_embed (x : Qc) :
  sm_trace (S := QcS) b b (blk_list (blk_embed QcS b x)) = Qcmult (qn b) x.
Proof.
  unfold sm_trace. rewrite Nat.min_id. rewrite <- sumn_const_Qc. apply sumn_ext. intros i Hi.
  change (sm_get b (blk_list (blk_embed QcS b x)) i i) with (blk_get (blk_embed QcS b x) i i).
  rewrite (blk_get_embed QcS b) by assumption. rewrite Nat.eqb_refl. reflexivity.
Qed.

Lemma nb_pos : Qclt (Q2Qc 0%Q) (qn b).
Proof.
  unfold Qclt, qn. cbn [this Q2Qc]. rewrite !Qred_correct. unfold Qlt; simpl. lia.
Qed.

Lemma embed_ltb (x y : Qc) : @sltb B (blk_embed QcS b x) (blk_embed QcS b y) = @sltb QcS x y.
Proof.
  cbn [sltb BlockS QcS]. unfold blk_ltb, sm_ltb. rewrite !trace_embed. cbn [sltb QcS].
  destruct (qc_ltb x y) eqn:E.
  - apply Gersh.qc_ltb_lt. apply Gersh.qc_ltb_lt in E.
    rewrite !(Qcmult_comm (qn b)). apply Qcmult_lt_compat_r; [exact nb_pos|exact E].
  - apply Gersh.qc_ltb_ge. apply Gersh.qc_ltb_ge in E.
    rewrite !(Qcmult_comm (qn b)). apply Qcmult_le_compat_r; [exact E|].
    apply Qclt_le_weak. exact nb_pos.
Qed.

Definition bnorm (a : B) : QcS := sm_norm (blk_list a).

Lemma Qred_num_nonneg (z : Z) (p : positive) : (0 <= z)%Z -> (0 <= Qnum (Qred (z # p)))%Z.
Proof.
  intro Hz. assert (H : Qle (0 # 1) (Qred (z # p))).
  { rewrite Qred_correct. unfold Qle; simpl. lia. }
  remember (Qred (z # p)) as r. unfold Qle in H; simpl in H. lia.
Qed.

Lemma qc_sqrt_abs (q : Qc) : qc_abs (qc_sqrt q) = qc_sqrt q.
Proof.
  unfold qc_sqrt. destruct (Z.leb (Qnum (this q)) 0); [reflexivity|].
  unfold qc_abs. cbn [this Q2Qc].
  match goal with |- (if Z.ltb ?n 0 then _ else _) = _ => assert (H : (0 <= n)%Z) end.
  { apply Qred_num_nonneg. apply Z.sqrt_nonneg. }
  match goal with |- (if Z.ltb ?n 0 then _ else _) = _ => destruct (Z.ltb_spec n 0) end; [lia|reflexivity].
Qed.

Lemma bnorm_abs (a : B) : sabs (bnorm a) = bnorm a.
Proof. unfold bnorm, sm_norm. cbn [sabs ssqrt QcS]. apply qc_sqrt_abs. Qed.

(* spectral_radius<false> at block values = embedded scalar Gershgorin estimate of the matrix of Frobenius norms
   = max(0, max_i sum_j ||a_ij||_F) over the stored blocks, for every chunking of the rows over the threads *)
Theorem block_gersh_value_Qc (lens : list nat) (A : crs B) :
  nrows A <= fold_right Nat.add 0 lens ->
  spectral_radius_gersh false lens A =
  blk_embed QcS b (gersh_spec false (norm_matrix QcS B bnorm A)).
Proof.
  intro Hl.
  rewrite (gersh_emb QcS B (blk_embed QcS b) bnorm (blk_embed_add QcS b QcS_ring) (blk_embed_mul QcS b QcS_ring)
             embed_ltb (blk_embed_0 QcS b) (blk_embed_1 QcS b) (fun a => eq_refl) false lens A).
  f_equal. rewrite (gersh_n_norm_matrix QcS B bnorm bnorm_abs lens A).
  apply Gersh.gersh_value_unscaled_Qc. unfold nrows, norm_matrix. cbn [rows]. rewrite map_length. exact Hl.
Qed.

(* both variants: the result is an embedded base scalar computed by the base-scalar loop *)
Theorem block_gersh_is_scalar_Qc (scale : bool) (lens : list nat) (A : crs B) :
  spectral_radius_gersh scale lens A = blk_embed QcS b (gersh_n QcS B bnorm scale lens A).
Proof.
  exact (gersh_emb QcS B (blk_embed QcS b) bnorm (blk_embed_add QcS b QcS_ring) (blk_embed_mul QcS b QcS_ring)
           embed_ltb (blk_embed_0 QcS b) (blk_embed_1 QcS b) (fun a => eq_refl) scale lens A).
Qed.

End BlockGersh.
