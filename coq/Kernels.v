(* Kernels.v -- builtin backend primitives
   (amgcl/backend/builtin.hpp:1060-1342, backend/detail/matrix_ops.hpp:47-116,
    backend/interface.hpp:430-442). *)
From Amgcl Require Import Scalar Vec Crs.
Local Open Scope S_scope.

Section Kernels.
Context {S : Scalar}.
Local Notation vec := (vec S).

(* spmv_impl::apply : y = alpha A x + beta y, with the is_zero(beta) branch *)
Definition spmv (alpha : S) (A : crs S) (x : vec) (beta : S) (y : vec) : vec :=
  if is_zero beta
  then upd2 (fun s _  => alpha * s) (map (fun r => dotrow r x) (rows A)) y
  else upd2 (fun s yi => alpha * s + beta * yi) (map (fun r => dotrow r x) (rows A)) y.

(* residual_impl::apply : res = rhs - A x *)
Definition residual (f : vec) (A : crs S) (x : vec) (res : vec) : vec :=
  upd3 (fun s fi _ => fi - s) (map (fun r => dotrow r x) (rows A)) f res.

Definition axpby (a : S) (x : vec) (b : S) (y : vec) : vec :=
  if is_zero b then upd2 (fun xi _ => a * xi) x y
  else upd2 (fun xi yi => a * xi + b * yi) x y.

Definition axpbypcz (a : S) (x : vec) (b : S) (y : vec) (c : S) (z : vec) : vec :=
  if is_zero c then upd3 (fun xi yi _ => a * xi + b * yi) x y z
  else upd3 (fun xi yi zi => a * xi + b * yi + c * zi) x y z.

Definition vmul (a : S) (x y : vec) (b : S) (z : vec) : vec :=
  if is_zero b then upd3 (fun xi yi _ => a * xi * yi) x y z
  else upd3 (fun xi yi zi => a * xi * yi + b * zi) x y z.

Definition vcopy (x y : vec) : vec := upd2 (fun xi _ => xi) x y.
Definition vclear (x : vec) : vec := map (fun _ => s0) x.

(* lin_comb(n, c, v, alpha, y): first axpby with alpha, then pairs with axpbypcz,
   then a possible last single axpby; cv = the (c_j, v_j) pairs, n = length cv >= 1 *)
Fixpoint lin_comb_rest (cv : list (S * vec)) (y : vec) : vec :=
  match cv with
  | (c1, v1) :: (c2, v2) :: tl => lin_comb_rest tl (axpbypcz c1 v1 c2 v2 s1 y)
  | [(c1, v1)] => axpby c1 v1 s1 y
  | [] => y
  end.
Definition lin_comb (cv : list (S * vec)) (alpha : S) (y : vec) : vec :=
  match cv with
  | (c0, v0) :: tl => lin_comb_rest tl (axpby c0 v0 alpha y)
  | [] => y      (* n = 0 reads c[0] out of bounds in the C++; excluded by guard *)
  end.

(* Kahan-compensated inner product, serial form; state (s, c) *)
Definition kahan_step (sc : S * S) (xy : S * S) : S * S :=
  let '(s, c) := sc in
  let d := fst xy * sadj (snd xy) - c in
  let t := s + d in
  (t, (t - s) - d).
Definition kahan (x y : vec) : S := fst (fold_left kahan_step (combine x y) (s0, s0)).
Definition inner_product_serial (x y : vec) : S := kahan x y.

(* parallel form: contiguous chunks (any chunk lengths), one Kahan sum per thread,
   then std::accumulate over threads in thread order *)
Fixpoint chunks {X : Type} (lens : list nat) (l : list X) : list (list X) :=
  match lens with
  | [] => []
  | n :: ns => firstn n l :: chunks ns (skipn n l)
  end.
Definition inner_product_parallel (lens : list nat) (x y : vec) : S :=
  vsum (map (fun xy => fst (fold_left kahan_step xy (s0, s0))) (chunks lens (combine x y))).

(* omp static schedule of libgomp: q = n / nt, r = n mod nt, first r threads get q+1 *)
Definition omp_static_lens (n nt : nat) : list nat :=
  map (fun t => if Nat.ltb t (n mod nt) then Datatypes.S (n / nt) else (n / nt)%nat) (seq 0 nt).

Definition norm2 (x : vec) : S := ssqrt (sabs (inner_product_serial x x)).

End Kernels.
