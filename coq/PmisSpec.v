(* PmisSpec.v -- C12: specification-level oracles for the distributed aggregation with a near-null
   space (amgcl/mpi/coarsening/pmis.hpp, tentative_prolongation(), branch nullspace.cols > 0).
   They are evaluated by the extracted code on the operators gathered from all ranks:
     P   the tentative prolongation (global rows x K*naggr columns, rows sorted by column),
     N   the coarse near-null space held by the ranks afterwards (K*naggr rows x K columns),
     B   the near-null space that was passed in (global rows x K columns).
   Definitions only; the lemmas about them are in PmisSpecProofs.v. *)
From Amgcl Require Import Scalar Vec Crs Kernels MatOps DistSolve.
Local Open Scope S_scope.

Section NsOracles.
Context {S : Scalar}.
Local Notation vec := (vec S).
Local Notation crs := (crs S).
Local Notation row := (row S).

(* the aggregate a row of P belongs to (K columns per aggregate); None = left out *)
Definition row_aggr (K : nat) (r : row) : option nat :=
  match r with [] => None | e :: _ => Some (fst e / K)%nat end.

Definition opt_nat_eqb (a b : option nat) : bool :=
  match a, b with
  | None, None => true
  | Some x, Some y => Nat.eqb x y
  | _, _ => false
  end.

Fixpoint nat_list_eqb (a b : list nat) : bool :=
  match a, b with
  | [], [] => true
  | x :: a', y :: b' => Nat.eqb x y && nat_list_eqb a' b'
  | _, _ => false
  end.

(* a row is empty or consists of exactly the K columns K*a, ..., K*a+K-1 of ONE aggregate a *)
Definition ns_row_ok (K nc : nat) (r : row) : bool :=
  match r with
  | [] => true
  | e :: _ => Nat.eqb (fst e mod K) 0 && Nat.leb (fst e + K) nc && nat_list_eqb (map fst r) (seq (fst e) K)
  end.

Definition aggr_size (K : nat) (P : crs) (a : nat) : nat :=
  length (filter (fun r => opt_nat_eqb (row_aggr K r) (Some a)) (rows P)).

(* global partition: every unknown is in at most one aggregate (its row has the K columns of one
   aggregate), the coarse space consists of whole aggregates, and no aggregate is empty *)
Definition ns_partition_ok (K : nat) (P : crs) : bool :=
  Nat.ltb 0 K && Nat.eqb (ncols P mod K) 0 &&
  forallb (ns_row_ok K (ncols P)) (rows P) &&
  forallb (fun a => Nat.ltb 0 (aggr_size K P a)) (seq 0 (ncols P / K)).

(* block problems: the bs unknowns of one point are treated alike (same aggregate, or all left out) *)
Definition block_rows_ok (K bs : nat) (P : crs) : bool :=
  Nat.ltb 0 bs && Nat.eqb (nrows P mod bs) 0 &&
  forallb (fun i => opt_nat_eqb (row_aggr K (nth i (rows P) [])) (row_aggr K (nth (i / bs * bs) (rows P) [])))
          (seq 0 (nrows P)).

(* near-null space reproduced: (P N)_i = B_i up to tol on every aggregated row i -- also on the rows
   whose aggregate is owned by another rank *)
Definition ns_repro_ok (P N B : crs) (tol : S) : bool :=
  Nat.eqb (nrows P) (nrows B) && Nat.eqb (ncols P) (nrows N) && Nat.eqb (ncols N) (ncols B) &&
  forallb (fun t => let '(rp, (pn, b)) := t in
                    match rp with
                    | [] => true
                    | _ => Nat.eqb (length pn) (length b) &&
                           forallb (fun q => within tol (fst q) (snd q)) (combine pn b)
                    end)
          (combine (rows P) (combine (mget_dense (spgemm_saad P N false)) (mget_dense B))).

(* orthonormal columns: (P^T P)_jk = delta_jk up to tol for every column j of an aggregate that has
   at least K members (a smaller aggregate cannot carry K orthonormal columns) *)
Definition ns_orthonormal_ok (K : nat) (P : crs) (tol : S) : bool :=
  let G := mget_dense (spgemm_saad (transpose P) P false) in
  forallb (fun jr => let '(j, gr) := jr in
                     if Nat.leb K (aggr_size K P (j / K)) then
                       forallb (fun kv => within tol (snd kv) (if Nat.eqb (fst kv) j then s1 else s0)) (indexed gr)
                     else true)
          (indexed G).

(* number of aggregates with fewer than K members (evidence only) *)
Definition ns_small_aggregates (K : nat) (P : crs) : nat :=
  length (filter (fun a => Nat.ltb (aggr_size K P a) K) (seq 0 (ncols P / K))).

End NsOracles.
