(* Properties_C09.v -- C09: results do not depend on the number of threads or their
   interleaving.  Statements only; proofs live in SchedProofs.v.
   "any S": holds for every Scalar record / value type (so also for floats with NaN);
   "ring": for every commutative ring, closed at Qc.
   Semantics (Sched.v): a level = per-thread step lists between two barriers; an
   execution of a level = any interleaving that keeps every thread's own order;
   a region = levels separated by barriers. *)
From Coq Require Import Permutation.
From Amgcl Require Import Scalar QcInst Vec Crs Kernels KernelsProofs MatOps Relax Sched GsSched IluSched SchedProofs.

(* ---------------------------------------------------------------------------------- *)
(* A1 (any value type)  Bernstein: if steps of different threads of a level never write
   a cell the other reads or writes, every interleaving of the level gives the state of
   the in-order execution (thread 0's list, then thread 1's, ...).                       *)
Theorem C09_bernstein_level (V : Type) (d : V) ts l :
  Interleave ts l -> Forall (Forall (respects V d)) ts -> cross_indep ts ->
  forall st, exec l st = exec (concat ts) st.
Proof. exact (bernstein V d ts l). Qed.
Print Assumptions C09_bernstein_level.

(* ... lifted to a list of levels with a barrier after each *)
Theorem C09_bernstein_levels (V : Type) (d : V) lv l :
  InterleaveLevels lv l ->
  Forall (fun ts => Forall (Forall (respects V d)) ts) lv -> Forall cross_indep lv ->
  forall st, exec l st = exec (seq_of_levels lv) st.
Proof. exact (bernstein_levels V d lv l). Qed.
Print Assumptions C09_bernstein_levels.

(* the relation is inhabited: the in-order run and every scripted run are interleavings *)
Theorem C09_interleavings_exist (V : Type) choices (lv : list (list (list (step V)))) :
  InterleaveLevels lv (pick_levels choices lv).
Proof. exact (pick_levels_Interleave V choices lv). Qed.
Print Assumptions C09_interleavings_exist.

(* ---------------------------------------------------------------------------------- *)
(* the static chunking both schedulers use: chunk = ceil(len/nt), thread tid gets
   [min(tid*chunk,len), min(beg+chunk,len)) -- the nt chunks cover the level exactly
   once and in order, for every nt >= 1 (no row dropped or duplicated at a boundary)     *)
Theorem C09_omp_chunks_cover (X : Type) nt (l : list X) : 1 <= nt ->
  concat (omp_chunks nt l) = l /\ length (omp_chunks nt l) = nt.
Proof. intro H. split; [exact (omp_chunks_concat nt l H) | exact (omp_chunks_length nt l)]. Qed.
Print Assumptions C09_omp_chunks_cover.

(* ---------------------------------------------------------------------------------- *)
(* A generic validity criterion for a level schedule of rows (any value type).
   [sched_valid reads n forward sch]: sch is a permutation of 0..n-1; two different rows
   of one level never read each other's cell; a row that reads the cell of a row of
   another level finds that row in an earlier level iff it is earlier in the serial
   order.  Then EVERY interleaving of EVERY level gives the result of the serial sweep.
   The same criterion as a boolean ([sched_ok]) is what the check evaluates on the
   tables dumped from the implementation.                                               *)
Theorem C09_valid_schedule_gives_serial_result (V : Type) (d : V) (stp : nat -> step V) rds n forward sch :
  (forall i, respects V d (stp i)) -> (forall i, wr (stp i) = i) ->
  (forall i c, In c (reads (stp i)) -> c = i \/ In c (rds i)) ->
  sched_valid rds n forward sch ->
  forall l, InterleaveLevels (map (map (map stp)) sch) l ->
  forall st, exec l st = exec (map stp (sweep_order forward n)) st.
Proof. intros H1 H2 H3. exact (sched_valid_sound V d stp rds H1 H2 H3 n forward sch). Qed.
Print Assumptions C09_valid_schedule_gives_serial_result.

Theorem C09_sched_ok_sound rds n forward sch :
  sched_ok rds n forward sch = true -> sched_valid rds n forward sch.
Proof. exact (sched_ok_valid rds n forward sch). Qed.
Print Assumptions C09_sched_ok_sound.

(* ---------------------------------------------------------------------------------- *)
(* A2  ilu_solve::sptr_solve<lower> (any S): for every strictly triangular matrix and
   every nt >= 1 ...                                                                     *)
(* ... every row appears in exactly one task *)
Theorem C09_sptr_schedule_is_permutation (S : Scalar) lower (A : crs S) nt : 1 <= nt ->
  Permutation (flat_sched (sptr_schedule lower A nt)) (seq 0 (nrows A)).
Proof. exact (sptr_schedule_perm lower A nt). Qed.
Print Assumptions C09_sptr_schedule_is_permutation.

(* ... a row reads only cells written in earlier levels: level(c) < level(i) for every entry (i,c) *)
Theorem C09_sptr_levels_increase (S : Scalar) lower (A : crs S) i c :
  strict_tri lower A -> i < nrows A -> In c (cols_of A i) ->
  nth c (sptr_levels lower A) 0 < nth i (sptr_levels lower A) 0.
Proof. exact (sptr_levels_increase lower A i c). Qed.
Print Assumptions C09_sptr_levels_increase.

(* ... hence the threads of every level are pairwise independent *)
Theorem C09_sptr_levels_race_free (S : Scalar) lower (A : crs S) (D : vec S) nt ts :
  1 <= nt -> strict_tri lower A -> In ts (sptr_par_levels lower A D nt) -> cross_indep ts.
Proof. exact (sptr_levels_cross_indep lower A D nt ts). Qed.
Print Assumptions C09_sptr_levels_race_free.

(* ... and every interleaving gives what the same row function gives in serial order
   (0..n-1 for lower, n-1..0 for upper with the D scaling) *)
Theorem C09_sptr_solve_serial (S : Scalar) lower (A : crs S) (D : vec S) nt l (x : vec S) :
  1 <= nt -> strict_tri lower A ->
  InterleaveLevels (sptr_par_levels lower A D nt) l ->
  exec l x = exec (sptr_serial_steps lower A D) x.
Proof. exact (sptr_solve_serial_steps lower A D nt l x). Qed.
Print Assumptions C09_sptr_solve_serial.

(* ---------------------------------------------------------------------------------- *)
(* A3  gauss_seidel::parallel_sweep<forward> (any S), with the level loop as it is after
   the fix /repo dff00c6 (second loop over the row: level[c] = max(level[c], l+1) for the
   columns that are swept later).  For EVERY sparsity pattern (no structural symmetry
   needed), both sweep directions, every nt >= 1:                                        *)
(* ... every row appears in exactly one task *)
Theorem C09_gs_schedule_is_permutation (S : Scalar) forward (A : crs S) nt : 1 <= nt ->
  Permutation (flat_sched (gs_schedule forward A nt)) (seq 0 (nrows A)).
Proof. exact (gs_schedule_perm forward A nt). Qed.
Print Assumptions C09_gs_schedule_is_permutation.

(* ... the level numbers order both kinds of dependency between rows i and c with a_ic <> 0
   structurally: c swept earlier (true dependency) => level c < level i; c swept later
   (anti-dependency: row i must still see the old x[c]) => level i < level c *)
Theorem C09_gs_levels_order (S : Scalar) forward (A : crs S) i c :
  i < nrows A -> c < nrows A -> In c (cols_of A i) -> c <> i ->
  (serial_before forward c i = true -> nth c (gs_levels forward A) 0 < nth i (gs_levels forward A) 0) /\
  (serial_before forward c i = false -> nth i (gs_levels forward A) 0 < nth c (gs_levels forward A) 0).
Proof. exact (gs_levels_order forward A i c). Qed.
Print Assumptions C09_gs_levels_order.

(* ... the whole validity criterion holds *)
Theorem C09_gs_schedule_valid (S : Scalar) forward (A : crs S) nt : 1 <= nt ->
  sched_valid (gs_reads A) (nrows A) forward (gs_schedule forward A nt).
Proof. exact (gs_schedule_valid forward A nt). Qed.
Print Assumptions C09_gs_schedule_valid.

(* ... the threads of every level are pairwise independent (no data race) *)
Theorem C09_gs_levels_race_free (S : Scalar) forward (A : crs S) nt rhs ts :
  1 <= nt -> In ts (gs_par_levels forward A nt rhs) -> cross_indep ts.
Proof. exact (gs_levels_cross_indep forward A nt rhs ts). Qed.
Print Assumptions C09_gs_levels_race_free.

(* ... and every interleaving of the schedule gives the serial sweep Relax.gs_sweep *)
Theorem C09_gs_parallel_sweep_serial (S : Scalar) forward (A : crs S) nt rhs l (x : vec S) :
  1 <= nt ->
  InterleaveLevels (gs_par_levels forward A nt rhs) l ->
  exec l x = gs_sweep A rhs x forward.
Proof. exact (gs_parallel_sweep_serial forward A nt rhs l x). Qed.
Print Assumptions C09_gs_parallel_sweep_serial.

(* HISTORICAL (documentation of finding C09-gs-antidep, fixed by /repo dff00c6).  The level
   rule BEFORE the fix (GsSched.gs_levels_old: only the row's own already-swept neighbours)
   violates the property on structurally non-symmetric patterns:
   Witness 1 (data race): A = [[1,1],[0,1]], f = (10,1), x = (0,5), 4 threads: rows 0 and 1
   share level 0 although row 0 reads x[1]; thread order 0,1 gives the serial (5,1),
   thread order 1,0 gives (9,1).  Replayed on the implementation before the fix
   (gs_sweep op: NONDET [5 1] [9 1]); the fixed rule passes sched_ok on the same input.   *)
Theorem C09_gs_schedule_old_race_refuted :
  exists (A : crs QcS) (nt : nat) (rhs x : vec QcS) (l1 l2 : list (step QcS)),
    4 <= nt /\
    InterleaveLevels (gs_par_levels_old true A nt rhs) l1 /\
    InterleaveLevels (gs_par_levels_old true A nt rhs) l2 /\
    exec l1 x <> exec l2 x /\
    exec l1 x = gs_sweep A rhs x true /\
    exec l2 x <> gs_sweep A rhs x true /\
    gs_sched_ok true A (gs_schedule_old true A nt) = false /\
    gs_sched_ok true A (gs_schedule true A nt) = true.
Proof. exact gs_schedule_old_race_refuted. Qed.
Print Assumptions C09_gs_schedule_old_race_refuted.

(* Witness 2 (deterministic): rows {0:1} {0:1,1:1,2:1} {2:2}: old levels (0,1,0); row 1 reads
   x[2] whose writer sits in the EARLIER level 0: no two rows of a level conflict, yet the
   old schedule gives (1,7,2) where the serial sweep gives (1,4,2).                       *)
Theorem C09_gs_schedule_old_order_refuted :
  exists (A : crs QcS) (nt : nat) (rhs x : vec QcS) (l : list (step QcS)),
    4 <= nt /\
    InterleaveLevels (gs_par_levels_old true A nt rhs) l /\
    level_conflict_free (gs_reads A) (gs_schedule_old true A nt) = true /\
    exec l x <> gs_sweep A rhs x true /\
    first_dep_violation (gs_reads A) (nrows A) true (gs_schedule_old true A nt) = Some (1, 2) /\
    gs_sched_ok true A (gs_schedule true A nt) = true.
Proof. exact gs_schedule_old_order_refuted. Qed.
Print Assumptions C09_gs_schedule_old_order_refuted.

(* ---------------------------------------------------------------------------------- *)
(* A2' (ring)  the row function of sptr_solve (X = sum; x[i] -= X, resp. D*(x[i]-X)) applied
   in serial order IS serial_solve's entry-by-entry in-place update, so that the
   level-scheduled solve equals ilu_solve::serial_solve for every thread count and every
   interleaving.  (In floats the two forms associate the row sum differently: "equal up
   to summation-order rounding", stated in the property, not proved.)                     *)
Section Ring.
Variable S : Scalar.
Hypothesis Srt : Sring S.

Theorem C09_sptr_rows_eq_serial_lower (L : crs S) (D x : vec S) :
  strict_tri true L -> length x = nrows L ->
  exec (sptr_serial_steps true L D) x = serial_lower L x.
Proof. exact (sptr_serial_steps_lower S Srt L D x). Qed.

Theorem C09_sptr_rows_eq_serial_upper (U : crs S) (D x : vec S) :
  strict_tri false U -> length x = nrows U ->
  exec (sptr_serial_steps false U D) x = serial_upper U D x.
Proof. exact (sptr_serial_steps_upper S Srt U D x). Qed.

Theorem C09_ilu_parallel_solve_serial (L U : crs S) (D x : vec S) nt l1 l2 :
  1 <= nt -> strict_tri true L -> strict_tri false U ->
  length x = nrows L -> nrows U = nrows L ->
  InterleaveLevels (sptr_par_levels true L D nt) l1 ->
  InterleaveLevels (sptr_par_levels false U D nt) l2 ->
  exec l2 (exec l1 x) = ilu_serial_solve L U D x.
Proof. exact (ilu_parallel_solve_serial S Srt L U D x nt l1 l2). Qed.
End Ring.

Theorem C09_ilu_parallel_solve_serial_Qc (L U : crs QcS) (D x : vec QcS) nt l1 l2 :
  1 <= nt -> strict_tri true L -> strict_tri false U ->
  length x = nrows L -> nrows U = nrows L ->
  InterleaveLevels (sptr_par_levels true L D nt) l1 ->
  InterleaveLevels (sptr_par_levels false U D nt) l2 ->
  exec l2 (exec l1 x) = ilu_serial_solve L U D x.
Proof. exact (C09_ilu_parallel_solve_serial QcS QcS_ring L U D x nt l1 l2). Qed.
Print Assumptions C09_ilu_parallel_solve_serial_Qc.

(* ---------------------------------------------------------------------------------- *)
(* A4 (any value type)  row-parallel loops are maps.  A "parallel for" whose iteration i
   writes only cell i of the output and reads of the output at most cell i gives, for
   EVERY assignment of iterations to threads ([its]: static, dynamic, guided ...) and
   every interleaving, the map.  Kernels of the model with this shape: all in-place
   vector updates of Kernels.v are upd2/upd3 (spmv, residual, axpby, axpbypcz, vmul,
   copy, clear); all row-wise matrix kernels of MatOps.v are maps over the rows of A
   (spgemm_saad with thread-private markers, msum, mscale, sort_rows, diagonal, the
   smoothed-aggregation filter/smoothing loop).                                          *)
Theorem C09_parallel_for_is_map (V : Type) (d : V) (body : nat -> V -> V) n its l st :
  length st = n -> Permutation (concat its) (seq 0 n) ->
  Interleave (par_for_steps d body its) l ->
  exec l st = map (fun i => body i (nth i st d)) (seq 0 n).
Proof. exact (par_for_map V d body n its l st). Qed.
Print Assumptions C09_parallel_for_is_map.

Theorem C09_upd2_parallel (S : Scalar) (f : S -> S -> S) (x y : vec S) its l :
  length x = length y -> Permutation (concat its) (seq 0 (length y)) ->
  Interleave (par_for_steps s0 (fun i yi => f (vget x i) yi) its) l ->
  exec l y = upd2 f x y.
Proof. exact (upd2_parallel f x y its l). Qed.
Print Assumptions C09_upd2_parallel.

Theorem C09_upd3_parallel (S : Scalar) (f : S -> S -> S -> S) (x y z : vec S) its l :
  length x = length z -> length y = length z ->
  Permutation (concat its) (seq 0 (length z)) ->
  Interleave (par_for_steps s0 (fun i zi => f (vget x i) (vget y i) zi) its) l ->
  exec l z = upd3 f x y z.
Proof. exact (upd3_parallel f x y z its l). Qed.
Print Assumptions C09_upd3_parallel.

Theorem C09_map_rows_parallel (X Y : Type) (F : X -> Y) (dx : X) (dy : Y) (inp : list X) (out : list Y) its l :
  length out = length inp -> Permutation (concat its) (seq 0 (length inp)) ->
  Interleave (par_for_steps dy (fun i _ => F (nth i inp dx)) its) l ->
  exec l out = map F inp.
Proof. exact (map_rows_parallel F dx dy inp out its l). Qed.
Print Assumptions C09_map_rows_parallel.

(* ---------------------------------------------------------------------------------- *)
(* A5  reductions.  std::max over a strict total order: per-thread maxima combined in any
   order (critical section) = the serial maximum, for every chunking and every order of
   the elements (spectral_radius Gershgorin branch, spgemm_rmerge row widths).           *)
Theorem C09_max_reduction_order_independent (S : Scalar) :
  (forall a : S, sltb a a = false) ->
  (forall a b c : S, sltb a b = true -> sltb b c = true -> sltb a c = true) ->
  (forall a b : S, sltb a b = false -> sltb b a = false -> a = b) ->
  forall (e : S) (cs : list (list S)) (l : list S),
  Permutation (concat cs) l -> reduce_chunked smax e cs = reduce smax e l.
Proof. exact (max_reduction_order_independent S). Qed.
Print Assumptions C09_max_reduction_order_independent.

Theorem C09_max_reduction_order_independent_Qc (e : QcS) (cs : list (list QcS)) (l : list QcS) :
  Permutation (concat cs) l -> reduce_chunked smax e cs = reduce smax e l.
Proof. exact (max_reduction_order_independent QcS QcS_lt_irr QcS_lt_trans QcS_lt_tri e cs l). Qed.
Print Assumptions C09_max_reduction_order_independent_Qc.

(* any associative-commutative operation with an idempotent start value *)
Theorem C09_ac_reduction_order_independent (X : Type) (op : X -> X -> X) :
  (forall a b c, op (op a b) c = op a (op b c)) -> (forall a b, op a b = op b a) ->
  forall e cs l, op e e = e -> Permutation (concat cs) l -> reduce_chunked op e cs = reduce op e l.
Proof. exact (reduce_chunked_any_order X op). Qed.
Print Assumptions C09_ac_reduction_order_independent.

(* "+" (ring): the per-thread Kahan inner product equals the serial one for every chunking:
   this is C07_inner_product_parallel (KernelsProofs.inner_product_parallel_spec), cited *)
Theorem C09_inner_product_any_chunking (S : Scalar) (Srt : Sring S) lens (x y : vec S) :
  length (combine x y) <= fold_right Nat.add 0 lens ->
  inner_product_parallel lens x y = inner_product_serial x y.
Proof. exact (inner_product_parallel_spec Srt lens x y). Qed.

(* ---------------------------------------------------------------------------------- *)
(* non-vacuity: the hypotheses are satisfiable by inputs whose schedules have several
   levels and several busy threads                                                       *)
Example C09_nonvacuous :
  strict_tri true tri_L /\ strict_tri false tri_U /\
  gs_schedule true sym_A 2 = [[[0]; [3]]; [[1]; [4]]; [[2]; []]] /\
  sptr_schedule true tri_L 2 = [[[0]; [2]]; [[1]; [3]]; [[4]; []]] /\
  sptr_schedule false tri_U 2 = [[[2]; [4]]; [[1]; [3]]; [[0]; []]].
Proof.
  split; [exact tri_L_strict|]. split; [exact tri_U_strict|].
  vm_compute. repeat split; reflexivity.
Qed.

(* ---------------------------------------------------------------------------------- *)
(* A6  The executing TEAM may be smaller (or larger) than the thread count seen at set-up
   (SchedTeam.v).  Both level schedulers size their per-thread tables with omp_get_max_threads()
   in the constructor; OpenMP may give the later "#pragma omp parallel" a team of k <> nt threads
   (k < nt: region entered from an enclosing active parallel region with nested parallelism off,
   thread limit, OMP_DYNAMIC, omp_set_num_threads lowered after set-up).
     team_cyclic k : the code since /repo 9f8f0d9 -- thread t of k runs tasks[t], tasks[t+k], ...
                     of the level, then the barrier;
     team_trunc k  : HISTORICAL, the code before 9f8f0d9 -- thread t < k runs tasks[t], tasks[t]
                     for t >= k are run by nobody (finding C09-level-schedule-reduced-team).     *)
From Amgcl Require Import SchedTeam.

(* for the full team both are the semantics all theorems above are about *)
Theorem C09_team_full_is_existing_semantics (S : Scalar) lower f (A : crs S) (D rhs : vec S) nt :
  team_trunc nt (sptr_par_levels lower A D nt) = sptr_par_levels lower A D nt /\
  team_trunc nt (gs_par_levels f A nt rhs) = gs_par_levels f A nt rhs /\
  team_cyclic nt (sptr_par_levels lower A D nt) = sptr_par_levels lower A D nt /\
  team_cyclic nt (gs_par_levels f A nt rhs) = gs_par_levels f A nt rhs.
Proof.
  exact (conj (sptr_team_trunc_full lower A D nt) (conj (gs_team_trunc_full f A nt rhs)
        (conj (sptr_team_cyclic_full lower A D nt) (gs_team_cyclic_full f A nt rhs)))).
Qed.
Print Assumptions C09_team_full_is_existing_semantics.

(* HISTORICAL: the code before 9f8f0d9 under a reduced team is deterministic (so one run of
   the implementation showed THE result) ... *)
Theorem C09_sptr_reduced_team_deterministic (S : Scalar) lower (A : crs S) (D : vec S) nt k l (x : vec S) :
  1 <= nt -> strict_tri lower A ->
  InterleaveLevels (team_trunc k (sptr_par_levels lower A D nt)) l ->
  exec l x = sptr_solve_team_trunc k lower A D nt x.
Proof. exact (sptr_team_trunc_deterministic lower A D nt k l x). Qed.
Print Assumptions C09_sptr_reduced_team_deterministic.

Theorem C09_gs_reduced_team_deterministic (S : Scalar) f (A : crs S) nt k rhs l (x : vec S) :
  1 <= nt ->
  InterleaveLevels (team_trunc k (gs_par_levels f A nt rhs)) l ->
  exec l x = gs_par_sweep_team_trunc k f A nt rhs x.
Proof. exact (gs_team_trunc_deterministic f A nt k rhs l x). Qed.
Print Assumptions C09_gs_reduced_team_deterministic.

(* ... in which the rows of the missing threads keep their input value (any value type) *)
Theorem C09_reduced_team_skips_rows (V : Type) (d : V) (stp : nat -> step V) (k : nat) (sch : rsched) i :
  (forall j, wr (stp j) = j) -> ~ In i (flat_sched (team_trunc k sch)) ->
  forall l, InterleaveLevels (team_trunc k (map (map (map stp)) sch)) l ->
  forall st, rd V d (exec l st) i = rd V d st i.
Proof. exact (team_trunc_skips V d stp k sch i). Qed.
Print Assumptions C09_reduced_team_skips_rows.

(* HISTORICAL (documentation of finding C09-level-schedule-reduced-team, fixed by /repo 9f8f0d9).
   REFUTED for the code before the fix: a valid
   schedule built for nt = 4 and executed by a team of 2 is no longer a permutation of the
   rows, and EVERY interleaving differs from the serial result.
   sptr_solve<lower>: L rows {} {0:1} {0:1} {0:1}, x = (1,2,3,4): level 1 = rows 1,2,3 split
   1/1/1/0 over 4 threads; threads 0,1 give (1,1,2,4), the serial solve (1,1,2,3).
   Replayed on the implementation before the fix by the ops ilu_team / gs_team of drv_sched.cpp
   (same values); the check reports the old behaviour again if it comes back.               *)
Theorem C09_sptr_reduced_team_refuted :
  exists (A : crs QcS) (D x : vec QcS) (nt k : nat),
    strict_tri true A /\ 1 <= k /\ k < nt /\
    sptr_sched_ok true A (sptr_schedule true A nt) = true /\
    sched_is_perm (nrows A) (team_trunc k (sptr_schedule true A nt)) = false /\
    forall l, InterleaveLevels (team_trunc k (sptr_par_levels true A D nt)) l ->
              exec l x <> exec (sptr_serial_steps true A D) x.
Proof. exact sptr_reduced_team_refuted. Qed.
Print Assumptions C09_sptr_reduced_team_refuted.

(* parallel_sweep<forward>: A = diag(2,2,2,2), rhs = 2, x = 0: one level, one row per thread;
   a team of 2 leaves x[2] = x[3] = 0 where the serial sweep gives 1. *)
Theorem C09_gs_reduced_team_refuted :
  exists (A : crs QcS) (rhs x : vec QcS) (nt k : nat),
    1 <= k /\ k < nt /\
    gs_sched_ok true A (gs_schedule true A nt) = true /\
    sched_is_perm (nrows A) (team_trunc k (gs_schedule true A nt)) = false /\
    forall l, InterleaveLevels (team_trunc k (gs_par_levels true A nt rhs)) l ->
              exec l x <> gs_sweep A rhs x true.
Proof. exact gs_reduced_team_refuted. Qed.
Print Assumptions C09_gs_reduced_team_refuted.

(* validity of a level schedule is a property of the row SETS of its levels: it survives every
   redistribution of a level over any number of threads *)
Theorem C09_validity_independent_of_distribution rds n f sch sch' :
  same_levels sch sch' -> sched_valid rds n f sch -> sched_valid rds n f sch'.
Proof. exact (sched_valid_same_levels rds n f sch sch'). Qed.
Print Assumptions C09_validity_independent_of_distribution.

(* the cyclic distribution keeps the rows of every level, for every team size *)
Theorem C09_team_cyclic_keeps_rows (X : Type) k (lv : list (list X)) : 1 <= k ->
  Permutation (concat (regroup k lv)) (concat lv) /\ length (regroup k lv) = k.
Proof. intro H. exact (conj (regroup_flat_perm k lv H) (regroup_length k lv)). Qed.
Print Assumptions C09_team_cyclic_keeps_rows.

(* The execution since /repo 9f8f0d9: for every set-up count
   nt >= 1, EVERY team size k >= 1 (smaller, equal or larger than nt) and every interleaving
   the result is the serial sweep / solve (any value type) *)
Theorem C09_sptr_solve_any_team (S : Scalar) lower (A : crs S) (D : vec S) nt k l (x : vec S) :
  1 <= nt -> 1 <= k -> strict_tri lower A ->
  InterleaveLevels (team_cyclic k (sptr_par_levels lower A D nt)) l ->
  exec l x = exec (sptr_serial_steps lower A D) x.
Proof. exact (sptr_solve_cyclic_any_team lower A D nt k l x). Qed.
Print Assumptions C09_sptr_solve_any_team.

Theorem C09_gs_parallel_sweep_any_team (S : Scalar) forward (A : crs S) nt k rhs l (x : vec S) :
  1 <= nt -> 1 <= k ->
  InterleaveLevels (team_cyclic k (gs_par_levels forward A nt rhs)) l ->
  exec l x = gs_sweep A rhs x forward.
Proof. exact (gs_sweep_cyclic_any_team forward A nt k rhs l x). Qed.
Print Assumptions C09_gs_parallel_sweep_any_team.

(* (ring) ... = ilu_solve::serial_solve; the two triangular solves may even see different teams *)
Theorem C09_ilu_parallel_solve_any_team_Qc (L U : crs QcS) (D x : vec QcS) nt k1 k2 l1 l2 :
  1 <= nt -> 1 <= k1 -> 1 <= k2 -> strict_tri true L -> strict_tri false U ->
  length x = nrows L -> nrows U = nrows L ->
  InterleaveLevels (team_cyclic k1 (sptr_par_levels true L D nt)) l1 ->
  InterleaveLevels (team_cyclic k2 (sptr_par_levels false U D nt)) l2 ->
  exec l2 (exec l1 x) = ilu_serial_solve L U D x.
Proof. exact (ilu_parallel_solve_cyclic_any_team QcS QcS_ring L U D x nt k1 k2 l1 l2). Qed.
Print Assumptions C09_ilu_parallel_solve_any_team_Qc.

Example C09_team_nonvacuous :
  team_cyclic 2 (sptr_schedule true team_L 4) = [[[0]; []]; [[1; 3]; [2]]] /\
  team_trunc 2 (sptr_schedule true team_L 4) = [[[0]; []]; [[1]; [2]]] /\
  team_cyclic 3 (gs_schedule true team_A 5) = [[[0; 3]; [1]; [2]]] /\
  stride_idx 3 8 1 = [1; 4; 7].
Proof. exact team_cyclic_nontrivial. Qed.

(* ---------------------------------------------------------------------------------- *)
(* A7  further hand-scheduled regions under a reduced team (SchedTeamKernels.v).
   HISTORICAL: what a team of k <= nt executed of one level before 9f8f0d9: the first k of the
   nt chunks = the prefix of length min(k*ceil(len/nt), len) of the level; the tail is skipped. *)
From Amgcl Require Import SchedTeamKernels.
Theorem C09_reduced_team_executes_level_prefix (X : Type) nt k (l : list X) : k <= nt ->
  concat (firstn k (omp_chunks nt l)) = firstn (chunk_beg (length l) nt k) l.
Proof. exact (team_trunc_level_prefix nt k l). Qed.
Print Assumptions C09_reduced_team_executes_level_prefix.

(* thread-indexed accumulators filled by a work-sharing loop (inner_product: sum[tid],
   builtin.hpp:1152-1182; mpi::subdomain_deflation: erow(tid,.,.), subdomain_deflation.hpp:388-440):
   nt slots start with the neutral element, "omp for" hands every iteration to one of the k <= nt team
   threads, the slots are added up serially.  Slots of missing threads stay neutral (empty chunks):
   the result is the serial one for every team size (ring: Kahan inner product; any AC operation). *)
Theorem C09_inner_product_reduced_team (S : Scalar) (Srt : Sring S) (lens : list nat) (nt : nat) (x y : vec S) :
  length (combine x y) <= fold_right Nat.add 0 lens ->
  inner_product_parallel (lens ++ repeat 0 (nt - length lens)) x y = inner_product_serial x y.
Proof. exact (inner_product_reduced_team Srt lens nt x y). Qed.
Theorem C09_inner_product_reduced_team_Qc (lens : list nat) (nt : nat) (x y : vec QcS) :
  length (combine x y) <= fold_right Nat.add 0 lens ->
  inner_product_parallel (lens ++ repeat 0 (nt - length lens)) x y = inner_product_serial x y.
Proof. exact (inner_product_reduced_team QcS_ring lens nt x y). Qed.
Print Assumptions C09_inner_product_reduced_team_Qc.

Theorem C09_thread_slots_reduced_team (X : Type) (op : X -> X -> X) (e : X) :
  (forall a b c, op (op a b) c = op a (op b c)) -> (forall a b, op a b = op b a) -> op e e = e ->
  forall (cs : list (list X)) (m : nat) (l : list X), Permutation (concat cs) l ->
  reduce_chunked op e (cs ++ repeat [] m) = reduce op e l.
Proof. exact (slots_reduced_team op e). Qed.
Print Assumptions C09_thread_slots_reduced_team.

(* spgemm_rmerge (amgcl/detail/spgemm.hpp:405-504), hand-scheduled with thread-private scratch
   tmp_col[tid] / tmp_val[tid] (sized by omp_get_max_threads(), indexed by omp_get_thread_num() <
   team <= max) inside "omp for" loops over the rows of A: in the model (MatOps2.v, C08) both passes
   are maps over the rows of A, so every assignment of rows to the threads of a team of ANY size
   and every interleaving gives the rows of spgemm_rmerge A B.  (That the scratch of a thread does
   not leak from one row into the next is the modelling step; tied by running it in reduced teams.) *)
From Amgcl Require Import MatOps2.
Theorem C09_rmerge_numeric_pass_any_team (S : Scalar) (A B : crs S) (out : list (row S)) its l :
  length out = length (rows A) -> Permutation (concat its) (seq 0 (length (rows A))) ->
  Interleave (par_for_steps [] (fun i _ => prod_row (nth i (rows A) []) B) its) l ->
  exec l out = rows (spgemm_rmerge A B).
Proof. exact (map_rows_parallel (fun ra => prod_row ra B) [] [] (rows A) out its l). Qed.
Print Assumptions C09_rmerge_numeric_pass_any_team.

Theorem C09_rmerge_symbolic_pass_any_team (S : Scalar) (A B : crs S) (out : list nat) its l :
  length out = length (rows A) -> Permutation (concat its) (seq 0 (length (rows A))) ->
  Interleave (par_for_steps 0 (fun i _ => prod_row_width (map fst (nth i (rows A) [])) B) its) l ->
  exec l out = rmerge_widths A B.
Proof. exact (map_rows_parallel (fun ra => prod_row_width (map fst ra) B) [] 0 (rows A) out its l). Qed.
Print Assumptions C09_rmerge_symbolic_pass_any_team.
