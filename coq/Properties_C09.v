(* Properties_C09.v -- C09: results do not depend on the number of threads or their
   interleaving.  Statements only; proofs live in SchedProofs.v.
   "any S": holds for every Scalar record / value type (so also for floats with NaN);
   "ring": for every commutative ring, closed at Qc.
   Semantics (Sched.v): a level = per-thread step lists between two barriers; an
   execution of a level = any interleaving that keeps every thread's own order;
   a region = levels separated by barriers. *)
From Coq Require Import Permutation.
From Amgcl Require Import Scalar QcInst Vec Crs Kernels KernelsProofs MatOps Relax Sched GsSched IluSched SchedProofs.

(* ---------------------------------------------------------------------------------- *)
(* A1 (any value type)  Bernstein: if steps of different threads of a level never write
   a cell the other reads or writes, every interleaving of the level gives the state of
   the in-order execution (thread 0's list, then thread 1's, ...).                       *)
Theorem C09_bernstein_level (V : Type) (d : V) ts l :
  Interleave ts l -> Forall (Forall (respects V d)) ts -> cross_indep ts ->
  forall st, exec l st = exec (concat ts) st.
Proof. exact (bernstein V d ts l). Qed.
Print Assumptions C09_bernstein_level.

(* ... lifted to a list of levels with a barrier after each *)
Theorem C09_bernstein_levels (V : Type) (d : V) lv l :
  InterleaveLevels lv l ->
  Forall (fun ts => Forall (Forall (respects V d)) ts) lv -> Forall cross_indep lv ->
  forall st, exec l st = exec (seq_of_levels lv) st.
Proof. exact (bernstein_levels V d lv l). Qed.
Print Assumptions C09_bernstein_levels.

(* the relation is inhabited: the in-order run and every scripted run are interleavings *)
Theorem C09_interleavings_exist (V : Type) choices (lv : list (list (list (step V)))) :
  InterleaveLevels lv (pick_levels choices lv).
Proof. exact (pick_levels_Interleave V choices lv). Qed.
Print Assumptions C09_interleavings_exist.

(* ---------------------------------------------------------------------------------- *)
(* the static chunking both schedulers use: chunk = ceil(len/nt), thread tid gets
   [min(tid*chunk,len), min(beg+chunk,len)) -- the nt chunks cover the level exactly
   once and in order, for every nt >= 1 (no row dropped or duplicated at a boundary)     *)
Theorem C09_omp_chunks_cover (X : Type) nt (l : list X) : 1 <= nt ->
  concat (omp_chunks nt l) = l /\ length (omp_chunks nt l) = nt.
Proof. intro H. split; [exact (omp_chunks_concat nt l H) | exact (omp_chunks_length nt l)]. Qed.
Print Assumptions C09_omp_chunks_cover.

(* ---------------------------------------------------------------------------------- *)
(* A generic validity criterion for a level schedule of rows (any value type).
   [sched_valid reads n forward sch]: sch is a permutation of 0..n-1; two different rows
   of one level never read each other's cell; a row that reads the cell of a row of
   another level finds that row in an earlier level iff it is earlier in the serial
   order.  Then EVERY interleaving of EVERY level gives the result of the serial sweep.
   The same criterion as a boolean ([sched_ok]) is what the check evaluates on the
   tables dumped from the implementation.                                               *)
Theorem C09_valid_schedule_gives_serial_result (V : Type) (d : V) (stp : nat -> step V) rds n forward sch :
  (forall i, respects V d (stp i)) -> (forall i, wr (stp i) = i) ->
  (forall i c, In c (reads (stp i)) -> c = i \/ In c (rds i)) ->
  sched_valid rds n forward sch ->
  forall l, InterleaveLevels (map (map (map stp)) sch) l ->
  forall st, exec l st = exec (map stp (sweep_order forward n)) st.
Proof. intros H1 H2 H3. exact (sched_valid_sound V d stp rds H1 H2 H3 n forward sch). Qed.
Print Assumptions C09_valid_schedule_gives_serial_result.

Theorem C09_sched_ok_sound rds n forward sch :
  sched_ok rds n forward sch = true -> sched_valid rds n forward sch.
Proof. exact (sched_ok_valid rds n forward sch). Qed.
Print Assumptions C09_sched_ok_sound.

(* ---------------------------------------------------------------------------------- *)
(* A2  ilu_solve::sptr_solve<lower> (any S): for every strictly triangular matrix and
   every nt >= 1 ...                                                                     *)
(* ... every row appears in exactly one task *)
Theorem C09_sptr_schedule_is_permutation (S : Scalar) lower (A : crs S) nt : 1 <= nt ->
  Permutation (flat_sched (sptr_schedule lower A nt)) (seq 0 (nrows A)).
Proof. exact (sptr_schedule_perm lower A nt). Qed.
Print Assumptions C09_sptr_schedule_is_permutation.

(* ... a row reads only cells written in earlier levels: level(c) < level(i) for every entry (i,c) *)
Theorem C09_sptr_levels_increase (S : Scalar) lower (A : crs S) i c :
  strict_tri lower A -> i < nrows A -> In c (cols_of A i) ->
  nth c (sptr_levels lower A) 0 < nth i (sptr_levels lower A) 0.
Proof. exact (sptr_levels_increase lower A i c). Qed.
Print Assumptions C09_sptr_levels_increase.

(* ... hence the threads of every level are pairwise independent *)
Theorem C09_sptr_levels_race_free (S : Scalar) lower (A : crs S) (D : vec S) nt ts :
  1 <= nt -> strict_tri lower A -> In ts (sptr_par_levels lower A D nt) -> cross_indep ts.
Proof. exact (sptr_levels_cross_indep lower A D nt ts). Qed.
Print Assumptions C09_sptr_levels_race_free.

(* ... and every interleaving gives what the same row function gives in serial order
   (0..n-1 for lower, n-1..0 for upper with the D scaling) *)
Theorem C09_sptr_solve_serial (S : Scalar) lower (A : crs S) (D : vec S) nt l (x : vec S) :
  1 <= nt -> strict_tri lower A ->
  InterleaveLevels (sptr_par_levels lower A D nt) l ->
  exec l x = exec (sptr_serial_steps lower A D) x.
Proof. exact (sptr_solve_serial_steps lower A D nt l x). Qed.
Print Assumptions C09_sptr_solve_serial.

(* ---------------------------------------------------------------------------------- *)
(* A3  gauss_seidel::parallel_sweep<forward> (any S), structurally symmetric pattern:
   every interleaving of the schedule gives the serial sweep Relax.gs_sweep.            *)
Theorem C09_gs_schedule_is_permutation (S : Scalar) forward (A : crs S) nt : 1 <= nt ->
  Permutation (flat_sched (gs_schedule forward A nt)) (seq 0 (nrows A)).
Proof. exact (gs_schedule_perm forward A nt). Qed.
Print Assumptions C09_gs_schedule_is_permutation.

Theorem C09_gs_levels_race_free (S : Scalar) forward (A : crs S) nt rhs ts :
  1 <= nt -> pattern_symmetric A -> In ts (gs_par_levels forward A nt rhs) -> cross_indep ts.
Proof. exact (gs_levels_cross_indep forward A nt rhs ts). Qed.
Print Assumptions C09_gs_levels_race_free.

Theorem C09_gs_parallel_sweep_serial (S : Scalar) forward (A : crs S) nt rhs l (x : vec S) :
  1 <= nt -> pattern_symmetric A ->
  InterleaveLevels (gs_par_levels forward A nt rhs) l ->
  exec l x = gs_sweep A rhs x forward.
Proof. exact (gs_parallel_sweep_serial forward A nt rhs l x). Qed.
Print Assumptions C09_gs_parallel_sweep_serial.

(* Without structural symmetry the statement is FALSE for the faithful model of the
   schedule (the level loop only looks at the row's own already-swept neighbours and so
   misses anti-dependencies):
   FULL STATEMENT (refuted): forall S forward (A : crs S) nt rhs l x, 1 <= nt ->
     InterleaveLevels (gs_par_levels forward A nt rhs) l -> exec l x = gs_sweep A rhs x forward.
   Witness 1 (data race): A = [[1,1],[0,1]], f = (10,1), x = (0,5), 4 threads: rows 0 and 1
   share level 0 although row 0 reads x[1]; thread order 0,1 gives the serial (5,1),
   thread order 1,0 gives (9,1).  Replayed on the implementation by the check
   (gs_sweep op, NONDET [5 1] [9 1]).                                                   *)
Theorem C09_gs_schedule_race_refuted :
  exists (A : crs QcS) (nt : nat) (rhs x : vec QcS) (l1 l2 : list (step QcS)),
    4 <= nt /\
    InterleaveLevels (gs_par_levels true A nt rhs) l1 /\
    InterleaveLevels (gs_par_levels true A nt rhs) l2 /\
    exec l1 x <> exec l2 x /\
    exec l1 x = gs_sweep A rhs x true /\
    exec l2 x <> gs_sweep A rhs x true /\
    gs_sched_ok true A (gs_schedule true A nt) = false.
Proof. exact gs_schedule_race_refuted. Qed.
Print Assumptions C09_gs_schedule_race_refuted.

(* Witness 2 (deterministic): rows {0:1} {0:1,1:1,2:1} {2:2}: levels (0,1,0); row 1 reads
   x[2] whose writer sits in the EARLIER level 0: no two rows of a level conflict, yet the
   parallel sweep gives (1,7,2) where the serial sweep gives (1,4,2).                    *)
Theorem C09_gs_schedule_order_refuted :
  exists (A : crs QcS) (nt : nat) (rhs x : vec QcS) (l : list (step QcS)),
    4 <= nt /\
    InterleaveLevels (gs_par_levels true A nt rhs) l /\
    level_conflict_free (gs_reads A) (gs_schedule true A nt) = true /\
    exec l x <> gs_sweep A rhs x true /\
    first_dep_violation (gs_reads A) (nrows A) true (gs_schedule true A nt) = Some (1, 2).
Proof. exact gs_schedule_order_refuted. Qed.
Print Assumptions C09_gs_schedule_order_refuted.

(* ---------------------------------------------------------------------------------- *)
(* non-vacuity: the hypotheses are satisfiable by inputs whose schedules have several
   levels and several busy threads                                                       *)
Example C09_nonvacuous :
  pattern_symmetric sym_A /\ strict_tri true tri_L /\ strict_tri false tri_U /\
  gs_schedule true sym_A 2 = [[[0]; [3]]; [[1]; [4]]; [[2]; []]] /\
  sptr_schedule true tri_L 2 = [[[0]; [2]]; [[1]; [3]]; [[4]; []]] /\
  sptr_schedule false tri_U 2 = [[[2]; [4]]; [[1]; [3]]; [[0]; []]].
Proof.
  split; [exact sym_A_symmetric|]. split; [exact tri_L_strict|]. split; [exact tri_U_strict|].
  vm_compute. repeat split; reflexivity.
Qed.
