(* IoProofs.v -- proofs about the file-format models (C19).
   The bulk lives in IoProofsMM.v (MatrixMarket) and IoProofsBin.v (binary); this file
   re-exports them and discharges the value-oracle hypothesis for the two value kinds whose
   text conversion is modelled concretely or derived: integers and complex numbers. *)
From Coq Require Import List ZArith Lia Bool String.
From Amgcl Require Export MMFormat BinFormat IoProofsMM IoProofsBin.
Import ListNotations.
Local Open Scope Z_scope.

(* integer values: `os << x` / `is >> x` are concrete in the model, the law is a theorem *)
Lemma vread_int_vprint_int : forall bits z rest,
  0 < bits <= 64 -> - 2 ^ (bits - 1) <= z < 2 ^ (bits - 1) ->
  vread_int bits (vprint_int z ++ rest)%list = Some (z, rest).
Proof.
  intros bits z rest Hb Hz. unfold vread_int, vprint_int.
  change ([print_Z z] ++ rest)%list with (print_Z z :: rest).
  assert (H63 : 2 ^ (bits - 1) <= two63).
  { unfold two63. change 9223372036854775808 with (2 ^ 63). apply Z.pow_le_mono_r; lia. }
  rewrite read_int_print_signed by lia.
  destruct (Z.leb_spec (- 2 ^ (bits - 1)) z); [|lia].
  destruct (Z.ltb_spec z (2 ^ (bits - 1))); [|lia]. reflexivity.
Qed.

(* complex values "re im" from a scalar oracle pair *)
Lemma vread_complex_vprint_complex : forall (R : Type) (rprint : R -> string)
    (rread : list string -> option (R * list string)),
  (forall x rest, rread (rprint x :: rest) = Some (x, rest)) ->
  forall z rest, vread_complex R rread (vprint_complex R rprint z ++ rest)%list = Some (z, rest).
Proof.
  intros R rprint rread H [x y] rest. unfold vread_complex, vprint_complex. simpl.
  rewrite H. rewrite H. reflexivity.
Qed.

Lemma vread_real_vprint_real : forall (R : Type) (rprint : R -> string)
    (rread : list string -> option (R * list string)),
  (forall x rest, rread (rprint x :: rest) = Some (x, rest)) ->
  forall x rest, rread (vprint_real R rprint x ++ rest)%list = Some (x, rest).
Proof. intros. unfold vprint_real. simpl. auto. Qed.
