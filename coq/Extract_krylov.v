(* Extract_krylov.v -- extraction of the Krylov models, their references and specs. *)
From Coq Require Import Extraction ExtrOcamlBasic ExtrOcamlNatInt ExtrOcamlZBigInt.
From Coq Require Import QArith Qcanon.
From Amgcl Require Import Scalar QcInst Vec Crs Kernels Krylov KrylovRef.
Extraction Blacklist List String Int Nat.
Set Extraction Optimize.
(* Krylov iterates are rationals with 10^4..10^5 digits: the structural binary gcd of the
   standard library (recursion depth = bit length) is replaced by zarith's gcd.
   Z.ggcd a b = (g, (a/g, b/g)) with g = gcd(|a|,|b|) >= 0 (trusted base, see C01.py). *)
Extract Constant Z.ggcd =>
  "(fun a b -> let g = Big_int_Z.gcd_big_int a b in
     if Big_int_Z.sign_big_int g = 0 then (g, (Big_int_Z.zero_big_int, Big_int_Z.zero_big_int))
     else (g, (Big_int_Z.div_big_int a g, Big_int_Z.div_big_int b g)))".
Extract Constant Z.gcd => "(fun a b -> Big_int_Z.gcd_big_int a b)".
Separate Extraction
  QcInst.QcS Scalar.is_zero Scalar.smax Scalar.smin
  Vec Crs Kernels Krylov KrylovRef.
