(* Extract_krylov.v -- extraction of the Krylov models (Krylov.v, KrylovIdrs.v), the independent
   references (KrylovRef.v) and the specification functions used by the oracles.
   Directives: ExtractCommon.v (Basic, NatInt, ZBigInt, Z.ggcd -> zarith gcd). *)
From Amgcl Require Import ExtractCommon.
From Coq Require Import QArith Qcanon.
From Amgcl Require Import Scalar QcInst Vec Crs Kernels Krylov KrylovIdrs KrylovRef.
Separate Extraction
  QcInst.QcS Scalar.is_zero Scalar.smax Scalar.smin
  Vec Crs Kernels Krylov KrylovIdrs KrylovRef.
