(* Extract_coarsen.v -- extraction of the coarsening models (C04) to OCaml.
   Directives: ExtractCommon.v (trusted base, DESIGN.md section 6). *)
From Amgcl Require Import ExtractCommon.
From Coq Require Import QArith Qcanon.
From Amgcl Require Import Scalar QcInst Vec Crs Kernels MatOps MatOps2 Aggregates Tentative Coarsen DirectUtil Qr TentativeQr TentativeQrPolicies.
Separate Extraction
  QcInst.QcS Scalar.is_zero Scalar.smax Scalar.smin
  Vec Crs Kernels MatOps MatOps2 Aggregates Tentative Coarsen DirectUtil Qr TentativeQr TentativeQrPolicies.
