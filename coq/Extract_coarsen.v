(* Extract_coarsen.v -- extraction of the coarsening models (C04) to OCaml.
   Same directives as Extract_kernels.v (trusted base, DESIGN.md section 6). *)
From Coq Require Import Extraction ExtrOcamlBasic ExtrOcamlNatInt ExtrOcamlZBigInt.
From Coq Require Import QArith Qcanon.
From Amgcl Require Import Scalar QcInst Vec Crs Kernels MatOps MatOps2 Aggregates Tentative Coarsen.
Extraction Blacklist List String Int Nat.
Set Extraction Optimize.
Separate Extraction
  QcInst.QcS Scalar.is_zero Scalar.smax Scalar.smin
  Vec Crs Kernels MatOps MatOps2 Aggregates Tentative Coarsen.
