(* EminProofs3.v -- C04, triage of "smoothed_aggr_emin returns P == 0": it is what the formula demands.
   If a column of P_t is an eigenvector of D^-1 A_F (A_F P_t e_j = lambda D P_t e_j, lambda <> 0), the
   energy-minimising damping is omega_j = 1/lambda and column j of P = P_t - D^-1 A_F P_t Omega vanishes
   (the zero column has zero energy: it IS the minimiser).  Smallest instance: the 1-D Poisson matrix on two
   points, one aggregate, P_t = (1,1)', lambda = 1/2. *)
From Amgcl Require Import Scalar QcInst Vec Crs Kernels KernelsProofs MatOps MatOps2 Aggregates Tentative Coarsen CoarsenProofs.
Local Open Scope S_scope.

Section EminEigen.
Variable S : Scalar.
Hypothesis Sft : Sfield S.
Let Srt : Sring S := F_R Sft.
Add Field SFieldEig : Sft.

Lemma sumn_scal_l (a : S) (f : nat -> S) n : sumn (fun i => a * f i) n = a * sumn f n.
Proof. induction n as [|n IH]; simpl; [ring|rewrite IH; ring]. Qed.

Theorem emin_eigen_column_vanishes (A : crs S) (st : flags) (Pt : crs S) (j : nat) (lambda : S) :
  (forall i, i < nrows A -> emin_AP A st Pt i j = lambda * sa_D A st i * mget Pt i j) ->
  (forall k, k < nrows A -> sa_D A st k <> s0) ->
  lambda <> s0 ->
  sumn (fun i => (sa_D A st i * mget Pt i j) * (sa_D A st i * mget Pt i j)) (nrows A) <> s0 ->
  (forall i, i < nrows A -> emin_ADAP A st Pt i j = lambda * emin_AP A st Pt i j) /\
  emin_omega_spec A st Pt j = sinv lambda /\
  (forall i, i < nrows A -> emin_P_spec A st Pt i j = s0).
Proof.
  intros Heig HD Hl Hq. set (n := nrows A) in *.
  assert (HADAP : forall i, i < n -> emin_ADAP A st Pt i j = lambda * emin_AP A st Pt i j).
  { intros i Hi. unfold emin_ADAP. fold n.
    rewrite (sumn_ext _ (fun k => lambda * (sa_AF A st i k * mget Pt k j))).
    - rewrite sumn_scal_l. reflexivity.
    - intros k Hk. rewrite (Heig k Hk). field. apply HD. exact Hk. }
  set (q := sumn (fun i => (sa_D A st i * mget Pt i j) * (sa_D A st i * mget Pt i j)) n) in *.
  assert (Hden : sumn (fun i => emin_ADAP A st Pt i j * emin_ADAP A st Pt i j) n = lambda * lambda * lambda * lambda * q).
  { unfold q. rewrite <- sumn_scal_l. apply sumn_ext. intros i Hi. rewrite (HADAP i Hi), (Heig i Hi). ring. }
  assert (Hnum : sumn (fun i => emin_AP A st Pt i j * emin_ADAP A st Pt i j) n = lambda * lambda * lambda * q).
  { unfold q. rewrite <- sumn_scal_l. apply sumn_ext. intros i Hi. rewrite (HADAP i Hi), (Heig i Hi). ring. }
  assert (Hom : emin_omega_spec A st Pt j = sinv lambda).
  { unfold emin_omega_spec. fold n. rewrite Hden, Hnum. field. split; assumption. }
  split; [exact HADAP|]. split; [exact Hom|].
  intros i Hi. unfold emin_P_spec. rewrite Hom, (Heig i Hi). field. split; [exact Hl|apply HD; exact Hi].
Qed.
End EminEigen.

(* the smallest witness: 1-D Poisson on two points (SPD, irreducibly diagonally dominant M-matrix).
   transfer_operators() returns P = 0 and R = 0, so the Galerkin coarse operator is the 1 x 1 zero matrix *)
Definition is_zero_crs (M : crs QcS) : bool := forallb (forallb (fun e : nat * QcS => is_zero (snd e))) (rows M).
Lemma emin_poisson2_zero :
  match emin_transfer 1 (qc 1 16) 1 poisson1d_2 (repeat (qc 0 1) 2) with
  | TrOk P R =>
      nrows P = 2%nat /\ ncols P = 1%nat /\ is_zero_crs P = true /\ is_zero_crs R = true /\
      is_zero_crs (emin_coarse 1 poisson1d_2 P R) = true /\ nrows (emin_coarse 1 poisson1d_2 P R) = 1%nat
  | _ => False
  end.
Proof. vm_compute. repeat split; reflexivity. Qed.
