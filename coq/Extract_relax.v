(* Extract_relax.v -- extraction of the relaxation models (C06) to OCaml.
   Directives: ExtractCommon.v (trusted base, DESIGN.md section 6). *)
From Amgcl Require Import ExtractCommon.
From Coq Require Import QArith Qcanon.
From Amgcl Require Import Scalar QcInst Vec Crs Kernels MatOps Relax Ilu Cheby DenseSolve Spai1.
Separate Extraction
  QcInst.QcS Scalar.is_zero Scalar.smax Scalar.smin
  Vec Crs Kernels MatOps Relax Ilu Cheby DenseSolve Spai1.
