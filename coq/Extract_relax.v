(* Extract_relax.v -- extraction of the relaxation models (C06) to OCaml.
   Directives: ExtractCommon.v (trusted base, DESIGN.md section 6).
   BlockInst: the static_matrix<T,b,b> Scalar instance (block-valued smoothers, ops_relax_block.ml).
   ComplexInst: the std::complex Scalar instance (SPAI-0 with complex values, ops_relax_cplx.ml). *)
From Amgcl Require Import ExtractCommon.
From Coq Require Import QArith Qcanon.
From Amgcl Require Import Scalar QcInst Vec Crs Kernels MatOps Relax Ilu Cheby DenseSolve Spai1
  DirectUtil Inverse StaticMat BlockInst ComplexInst.
Separate Extraction
  QcInst.QcS Scalar.is_zero Scalar.smax Scalar.smin
  Vec Crs Kernels MatOps Relax Ilu Cheby DenseSolve Spai1 StaticMat BlockInst ComplexInst.
