(* KrylovProofs2Reuse.v -- any Scalar record: a call of BiCGStab(L) / IDR(s) with length preserving
   operators leaves the workspace vectors with their allocated length n (no algebraic law), hence
   the junk-independence theorems apply to the workspace left behind by ANY earlier call:
   call sequences on one object equal calls on fresh objects (floats, NaN included). *)
From Amgcl Require Import Scalar Vec Kernels KernelsProofs Krylov KrylovIdrs KrylovProofs KrylovProofs2 KrylovProofs2Bl KrylovProofs2Idrs.
From Coq Require Import ZifyBool.
Local Open Scope S_scope.
Local Notation SS := Datatypes.S.

Section Len.
Context {S : Scalar}.
Local Notation vec := (vec S).
Local Notation id_st := (@id_st S).
Local Notation id_ws := (@id_ws S).
Local Notation iprm := (@iprm S).
Local Notation bl_st := (@bl_st S).
Local Notation bl_ws := (@bl_ws S).
Variable n : nat.
Variables A P : vec -> vec.
Hypothesis A_len : forall v, length v = n -> length (A v) = n.
Hypothesis P_len : forall v, length v = n -> length (P v) = n.

Lemma axpby_n a (x : vec) b (y : vec) : length x = n -> length y = n -> length (k_axpby a x b y) = n.
Proof. intros Lx Ly. rewrite k_axpby_length; lia. Qed.
Lemma residual_n (f x : vec) : length f = n -> length x = n -> length (k_residual f (A x)) = n.
Proof. intros Lf Lx. unfold k_residual. rewrite vmap2_length, A_len by exact Lx. lia. Qed.

(* ------------------------------ IDR(s) ------------------------------ *)
Definition id_linv (prm : iprm) (x : vec) (w : id_ws) : Prop :=
  length x = n /\ length (d_r w) = n /\
  (forall i, i < ip_s prm -> length (d_G w i) = n /\ length (d_U w i) = n) /\
  (ip_smooth prm = true -> length (d_xs w) = n /\ length (d_rs w) = n).

Lemma axpbypcz_n a (x : vec) b (y : vec) c (z : vec) :
  length x = n -> length y = n -> length z = n -> length (k_axpbypcz a x b y c z) = n.
Proof. intros. unfold k_axpbypcz. destruct (is_zero c); rewrite ?vmap2_length, ?vmap3_length; lia. Qed.

Lemma id_smooth_linv (prm : iprm) (x : vec) (w : id_ws) res : length (d_t w) = n ->
  id_linv prm x w -> id_linv prm x (fst (id_smooth (ip_smooth prm) x w res)).
Proof.
  intros Lt (Lx & Lr & HG & Hs). unfold id_smooth.
  destruct (ip_smooth prm) eqn:Sm; cbn [fst]; [|unfold id_linv; rewrite Sm; auto].
  destruct (Hs eq_refl) as (Lxs & Lrs).
  assert (Lt' : length (k_axpbypcz s1 (d_rs w) (- s1) (d_r w) s0 (d_t w)) = n) by (apply axpbypcz_n; assumption).
  unfold id_linv. cbn [d_r d_G d_U d_xs d_rs]. rewrite Sm.
  split; [exact Lx|]. split; [exact Lr|]. split; [exact HG|]. intros _. split.
  - apply axpbypcz_n; assumption.
  - apply axpby_n; assumption.
Qed.

Lemma id_solve_n s k M fv (G : nat -> vec) c0 (r : vec) :
  (forall i, i < s -> length (G i) = n) -> length r = n -> length (snd (id_solve s k M fv G c0 r)) = n.
Proof.
  intros HG Lr. unfold id_solve.
  assert (Q : forall l, (forall i, In i l -> i < s) -> forall cv : (nat -> S) * vec, length (snd cv) = n ->
    length (snd (fold_left (fun (cv : (nat -> S) * vec) i =>
        let ci0 := fold_left (fun acc j => acc - M i j * fst cv j) (seq k (i - k)) (fv i) in
        let ci := sinv (M i i) * ci0 in
        (upd (fst cv) i ci, k_axpby (- ci) (G i) s1 (snd cv))) l cv)) = n).
  { induction l as [|i tl IH]; intros Hl cv Lc; simpl; [exact Lc|].
    apply IH; [intros j Hj; apply Hl; right; exact Hj|]. cbn [snd].
    apply axpby_n; [apply HG, Hl; left; reflexivity | exact Lc]. }
  apply Q; [|exact Lr]. intros i Hi. apply in_seq in Hi. lia.
Qed.

Lemma id_newU_n s k om (t : vec) c (U : nat -> vec) :
  (forall i, i < s -> length (U i) = n) -> k < s -> length t = n -> length (id_newU s k om t c U) = n.
Proof.
  intros HU Hk Lt. unfold id_newU.
  assert (Q : forall l, (forall i, In i l -> i < s) -> forall u : vec, length u = n ->
    length (fold_left (fun u i => k_axpby (c i) (U i) s1 u) l u) = n).
  { induction l as [|i tl IH]; intros Hl u Lu; simpl; [exact Lu|].
    apply IH; [intros j Hj; apply Hl; right; exact Hj|].
    apply axpby_n; [apply HU, Hl; left; reflexivity | exact Lu]. }
  apply Q; [intros i Hi; apply in_seq in Hi; lia|].
  apply axpby_n; [exact Lt | apply HU; exact Hk].
Qed.

Lemma id_biorth_n s k Sh M (G U : nat -> vec) :
  (forall i, i < s -> length (G i) = n /\ length (U i) = n) -> k <= s ->
  forall gu : vec * vec, length (fst gu) = n -> length (snd gu) = n ->
  length (fst (id_biorth k Sh M G U gu)) = n /\ length (snd (id_biorth k Sh M G U gu)) = n.
Proof.
  intros HG Hk. unfold id_biorth.
  assert (Q : forall l, (forall i, In i l -> i < s) -> forall gu : vec * vec, length (fst gu) = n -> length (snd gu) = n ->
    let gu' := fold_left (fun (gu : vec * vec) i =>
        let alpha := ip (fst gu) (Sh i) / M i i in
        (k_axpby (- alpha) (G i) s1 (fst gu), k_axpby (- alpha) (U i) s1 (snd gu))) l gu in
    length (fst gu') = n /\ length (snd gu') = n).
  { induction l as [|i tl IH]; intros Hl gu L1 L2; simpl; [split; assumption|].
    destruct (HG i (Hl i (or_introl eq_refl))) as (LG & LU).
    apply IH; [intros j Hj; apply Hl; right; exact Hj | |]; cbn [fst snd]; apply axpby_n; assumption. }
  intros gu L1 L2. apply (Q (seq 0 k)); [intros i Hi; apply in_seq in Hi; lia | exact L1 | exact L2].
Qed.

Lemma id_kcore_linv Sh (prm : iprm) k (st : id_st) o : k < ip_s prm ->
  id_linv prm (e_x st) (e_ws st) -> id_kcore A P Sh prm k st = Some o -> id_linv prm (o_x o) (o_w o).
Proof.
  intros Hk (Lx & Lr & HG & Hs). unfold id_kcore. cbv zeta.
  set (s := ip_s prm) in *. set (w := e_ws st) in *.
  set (cv := id_solve s k (d_M w) (d_f w) (d_G w) (d_c w) (d_r w)).
  assert (Lv : length (snd cv) = n) by (apply id_solve_n; [intros i Hi; apply HG, Hi | exact Lr]).
  set (t := P (snd cv)). assert (Lt : length t = n) by (apply P_len, Lv).
  set (Uk1 := id_newU s k (e_om st) t (fst cv) (d_U w)).
  assert (LU1 : length Uk1 = n) by (apply id_newU_n; auto; intros i Hi; apply HG, Hi).
  destruct (id_biorth_n s k Sh (d_M w) (d_G w) (d_U w) HG ltac:(lia) (A Uk1, Uk1) ltac:(cbn [fst]; apply A_len, LU1) LU1) as (LGk & LUk).
  set (gu := id_biorth k Sh (d_M w) (d_G w) (d_U w) (A Uk1, Uk1)) in *.
  destruct (is_zero _); [discriminate|].
  intro H; inversion H; subst o; clear H. cbn [o_x o_w].
  apply id_smooth_linv; [exact Lt|].
  unfold id_linv. cbn [d_r d_G d_U d_xs d_rs].
  split; [apply axpby_n; assumption|]. split; [apply axpby_n; assumption|]. split; [|exact Hs].
  intros i Hi. destruct (Nat.eq_dec i k) as [->|Ni].
  - rewrite !upd_eq. split; assumption.
  - rewrite !upd_neq by exact Ni. apply HG, Hi.
Qed.

Definition id_slinv (prm : iprm) (st : id_st) : Prop := id_linv prm (e_x st) (e_ws st).

Lemma id_kstep_linv Sh (prm : iprm) eps k (st : id_st) : k < ip_s prm -> id_slinv prm st ->
  match id_kstep A P Sh prm eps k st with
  | IdExc => True | IdStop st' => id_slinv prm st' | IdCont st' => id_slinv prm st'
  end.
Proof.
  intros Hk I0. unfold id_kstep.
  destruct (id_kcore A P Sh prm k st) as [o|] eqn:E; [|exact I].
  pose proof (id_kcore_linv Sh prm k st o Hk I0 E) as I1.
  destruct (sleb (o_res o) eps); [exact I1|]. destruct (Nat.leb _ _); exact I1.
Qed.

Lemma id_kloop_linv Sh (prm : iprm) eps ks : (forall k, In k ks -> k < ip_s prm) -> forall st : id_st, id_slinv prm st ->
  match id_kloop A P Sh prm eps ks st with
  | IdExc => True | IdStop st' => id_slinv prm st' | IdCont st' => id_slinv prm st'
  end.
Proof.
  induction ks as [|k tl IH]; intros Hk st I0; simpl; [exact I0|].
  pose proof (id_kstep_linv Sh prm eps k st (Hk k (or_introl eq_refl)) I0) as Q.
  destruct (id_kstep A P Sh prm eps k st) as [|st'|st']; [exact I | exact Q |].
  apply IH; [intros j Hj; apply Hk; right; exact Hj | exact Q].
Qed.

Lemma id_omstep_linv (prm : iprm) (f : vec) (st st' : id_st) : length f = n ->
  id_slinv prm st -> id_omstep A P prm f st = Some st' -> id_slinv prm st'.
Proof.
  intros Lf (Lx & Lr & HG & Hs). unfold id_omstep. cbv zeta.
  set (w := e_ws st) in *.
  set (v := P (d_r w)). assert (Lv : length v = n) by (apply P_len, Lr).
  set (t := A v). assert (Lt : length t = n) by (apply A_len, Lv).
  destruct (is_zero _); [discriminate|].
  intro H; inversion H; subst st'; clear H. unfold id_slinv. cbn [e_x e_ws].
  apply id_smooth_linv; [exact Lt|].
  assert (Lx' : length (k_axpby (id_omega (ip_omega prm) t (d_r w)) v s1 (e_x st)) = n) by (apply axpby_n; assumption).
  unfold id_linv. cbn [d_r d_G d_U d_xs d_rs].
  split; [exact Lx'|]. split; [|split; [exact HG | exact Hs]].
  destruct (ip_repl prm); [apply residual_n; assumption | apply axpby_n; assumption].
Qed.

Lemma id_pass_linv Sh (prm : iprm) (f : vec) eps (st : id_st) : length f = n -> id_slinv prm st ->
  match id_pass A P Sh prm f eps st with
  | IdExc => True | IdStop st' => id_slinv prm st' | IdCont st' => id_slinv prm st'
  end.
Proof.
  intros Lf I0. unfold id_pass. cbv zeta.
  match goal with |- context [id_kloop A P Sh prm eps ?ks ?s1'] =>
    assert (I1 : id_slinv prm s1') by exact I0;
    pose proof (id_kloop_linv Sh prm eps ks ltac:(intros k Hk; apply in_seq in Hk; lia) s1' I1) as Q;
    destruct (id_kloop A P Sh prm eps ks s1') as [|st'|st2] end; [exact I | exact Q |].
  destruct (sleb (e_res st2) eps || Nat.leb (p_maxiter (ip_k prm)) (e_it st2)); [exact Q|].
  destruct (id_omstep A P prm f st2) as [st3|] eqn:E; [|exact I].
  exact (id_omstep_linv prm f st2 st3 Lf Q E).
Qed.

Lemma id_loop_linv Sh (prm : iprm) (f : vec) eps fuel : length f = n -> forall (st st' : id_st) oof,
  id_slinv prm st -> id_loop A P Sh prm f eps fuel st = Some (st', oof) -> id_slinv prm st'.
Proof.
  intro Lf. induction fuel as [|m IH]; intros st st' oof I0; simpl.
  - destruct (_ && _); intro H; inversion H; subst; exact I0.
  - destruct (_ && _); [|intro H; inversion H; subst; exact I0].
    pose proof (id_pass_linv Sh prm f eps st Lf I0) as Q.
    destruct (id_pass A P Sh prm f eps st) as [|s'|s']; [discriminate | |].
    + intro H; inversion H; subst; exact Q.
    + apply IH. exact Q.
Qed.

Theorem idrs_sized_preserved_any Sh (prm : iprm) (f x0 : vec) junk :
  length f = n -> length x0 = n -> id_sized n (ip_s prm) junk ->
  id_sized n (ip_s prm) (snd (idrs A P Sh prm f x0 junk)).
Proof.
  intros Lf Lx Hz. unfold idrs. cbv zeta. destruct (k_prologue norm_b (ip_k prm) f) as [nr|nr]; [exact Hz|].
  destruct (sleb _ _); [exact Hz|].
  match goal with |- context [id_loop A P Sh prm f ?e ?fu ?st] =>
    assert (I0 : id_slinv prm st);
    [| destruct (id_loop A P Sh prm f e fu st) as [[st' oof]|] eqn:E; [|exact Hz];
       apply (id_loop_linv Sh prm f _ _ Lf _ _ _ I0) in E ] end.
  { unfold id_init, id_slinv, id_linv. cbv zeta. cbn [e_x e_ws d_r d_G d_U d_xs d_rs].
    split; [exact Lx|]. split; [apply residual_n; assumption|]. split.
    - intros i Hi. destruct (Hz i Hi) as (LG & LU).
      destruct (fold_upd_range (fun (_ : nat) (v : vec) => k_clear v) 0 (ip_s prm) (d_G junk)) as (G1 & _).
      destruct (fold_upd_range (fun (_ : nat) (v : vec) => k_clear v) 0 (ip_s prm) (d_U junk)) as (U1 & _).
      cbv zeta in G1, U1. rewrite G1, U1 by lia. rewrite !k_clear_length. split; assumption.
    - intro Sm. rewrite Sm. split; [exact Lx | apply residual_n; assumption]. }
  destruct E as (_ & _ & HG & _). exact HG.
Qed.

(* ---------------------------- BiCGStab(L) ---------------------------- *)
Definition cvn (cv : list (S * vec)) : Prop := forall p, In p cv -> length (snd p) = n.

Lemma k_lin_comb_rest_n cv :
  (cvn cv -> forall y : vec, length y = n -> length (k_lin_comb_rest cv y) = n) /\
  (forall p, cvn (p :: cv) -> forall y : vec, length y = n -> length (k_lin_comb_rest (p :: cv) y) = n).
Proof.
  induction cv as [|q tl (IH1 & IH2)].
  - split; [intros _ y Ly; exact Ly|]. intros [c1 v1] H y Ly. simpl.
    apply axpby_n; [apply (H (c1, v1)); left; reflexivity | exact Ly].
  - split; [apply IH2|]. intros [c1 v1] H y Ly. destruct q as [c2 v2].
    change (k_lin_comb_rest ((c1, v1) :: (c2, v2) :: tl) y) with (k_lin_comb_rest tl (k_axpbypcz c1 v1 c2 v2 s1 y)).
    apply IH1; [intros p Hp; apply H; right; right; exact Hp|].
    apply axpbypcz_n; [apply (H (c1, v1)); left; reflexivity | apply (H (c2, v2)); right; left; reflexivity | exact Ly].
Qed.

Lemma k_lin_comb_n cv alpha (y : vec) : cvn cv -> length y = n -> length (k_lin_comb cv alpha y) = n.
Proof.
  intros H Ly. destruct cv as [|[c0 v0] tl]; [exact Ly|]. simpl.
  destruct (k_lin_comb_rest_n tl) as (Q & _).
  apply Q; [intros p Hp; apply H; right; exact Hp|].
  apply axpby_n; [apply (H (c0, v0)); left; reflexivity | exact Ly].
Qed.

Definition bl_linv (j : nat) (st : bl_st) : Prop :=
  let w := t_ws st in
  length (t_x st) = n /\ length (l_X w) = n /\ length (l_B w) = n /\
  forall i, i <= j -> length (l_R w i) = n /\ length (l_U w i) = n.

Lemma pspmv_n left (F : vec) : length F = n ->
  length (fst (pspmv left A P F)) = n /\ (left = false -> length (snd (pspmv left A P F)) = n).
Proof. intro L. unfold pspmv. destruct left; cbn [fst snd]; split; auto; discriminate. Qed.

Lemma bl_bicg_part_linv left eps : forall m j (st : bl_st), bl_linv j st ->
  match bl_bicg_part A P left eps (seq j m) st with
  | BlExc => True
  | BlDone s => bl_linv 0 s
  | BlCont s => bl_linv (j + m) s
  end.
Proof.
  induction m as [|m IH]; intros j st (Lx & LX & LB & Hl).
  - simpl. rewrite Nat.add_0_r. repeat split; auto; apply Hl; assumption.
  - change (seq j (SS m)) with (j :: seq (SS j) m). rewrite bl_bicg_part_cons. cbv zeta.
    set (w := t_ws st) in *.
    destruct (is_zero (ip (l_R w j) (l_Rt w))); [exact I|].
    set (beta := t_alpha st * (ip (l_R w j) (l_Rt w) / t_rho0 st)).
    destruct (fold_upd_range (fun i (v : vec) => k_axpby s1 (l_R w i) (- beta) v) 0 (SS j) (l_U w)) as (U1a & U1b).
    cbv zeta in U1a, U1b.
    set (U1 := fold_left (fun U i => upd U i (k_axpby s1 (l_R w i) (- beta) (U i))) (seq 0 (SS j)) (l_U w)) in *.
    assert (U1l : forall i, i <= j -> length (U1 i) = n).
    { intros i Hi. destruct (Hl i Hi) as (L1 & L2). rewrite U1a by lia. apply axpby_n; assumption. }
    destruct (pspmv_n left (U1 j) (U1l j (le_n j))) as (Luj & _).
    destruct (pspmv left A P (U1 j)) as [uj1 T1]. cbn [fst] in Luj.
    set (U2 := upd U1 (SS j) uj1).
    destruct (is_zero (ip uj1 (l_Rt w))); [exact I|].
    set (alpha := ip (l_R w j) (l_Rt w) / ip uj1 (l_Rt w)).
    assert (U2l : forall i, i <= SS j -> length (U2 i) = n).
    { intros i Hi. unfold U2. destruct (Nat.eq_dec i (SS j)) as [->|N]; [rewrite upd_eq; exact Luj|].
      rewrite upd_neq by exact N. apply U1l. lia. }
    destruct (fold_upd_range (fun i (v : vec) => k_axpby (- alpha) (U2 (SS i)) s1 v) 0 (SS j) (l_R w)) as (R1a & R1b).
    cbv zeta in R1a, R1b.
    set (R1 := fold_left (fun R i => upd R i (k_axpby (- alpha) (U2 (SS i)) s1 (R i))) (seq 0 (SS j)) (l_R w)) in *.
    assert (R1l : forall i, i <= j -> length (R1 i) = n).
    { intros i Hi. destruct (Hl i Hi) as (L1 & L2). rewrite R1a by lia. apply axpby_n; [apply U2l; lia | exact L1]. }
    destruct (pspmv_n left (R1 j) (R1l j (le_n j))) as (Lrj & _).
    destruct (pspmv left A P (R1 j)) as [rj1 T2]. cbn [fst] in Lrj.
    set (R2 := upd R1 (SS j) rj1).
    assert (R2l : forall i, i <= SS j -> length (R2 i) = n).
    { intros i Hi. unfold R2. destruct (Nat.eq_dec i (SS j)) as [->|N]; [rewrite upd_eq; exact Lrj|].
      rewrite upd_neq by exact N. apply R1l. lia. }
    assert (LX' : length (k_axpby alpha (U2 0) s1 (l_X w)) = n) by (apply axpby_n; [apply U2l; lia | exact LX]).
    assert (Hn : forall a r0 om z c t it T, bl_linv (SS j) (mkBlSt (t_x st) (mkBlWs (l_Rt w) (k_axpby alpha (U2 0) s1 (l_X w)) (l_B w) T R2 U2) a r0 om z c t it)).
    { intros. unfold bl_linv. cbn [t_x t_ws l_X l_B l_R l_U]. split; [exact Lx|]. split; [exact LX'|]. split; [exact LB|].
      intros i Hi. split; [apply R2l | apply U2l]; exact Hi. }
    destruct (sltb _ eps).
    + cbn [t_ws]. destruct (Hn (t_alpha st) s0 s0 s0 s0 s0 0 T2) as (H1 & H2 & H3 & H4).
      unfold bl_linv. cbn [t_x t_ws l_X l_B l_R l_U] in *. repeat split; auto; apply H4; lia.
    + replace (j + SS m)%nat with (SS j + m)%nat by lia. apply IH. apply Hn.
Qed.

Lemma bl_step_linv prm eps zeta0 (st : bl_st) : bl_linv 0 st ->
  match bl_step A P prm eps zeta0 st with
  | BlExc => True | BlDone s => bl_linv 0 s | BlCont s => bl_linv 0 s
  end.
Proof.
  intros I0. unfold bl_step. cbv zeta.
  match goal with |- context [bl_bicg_part A P ?l eps (seq 0 ?L) ?s1'] =>
    assert (I1 : bl_linv 0 s1') by exact I0;
    pose proof (bl_bicg_part_linv l eps L 0 s1' I1) as Q;
    destruct (bl_bicg_part A P l eps (seq 0 L) s1') as [|s|s] end; [exact I | exact Q |].
  simpl in Q. destruct Q as (Lx & LX & LB & Hl).
  set (L := p_L prm) in *. set (w := t_ws s) in *.
  destruct (bl_poly L (p_convex prm) (l_R w)) as [[Y0 omega]|]; [|exact I].
  assert (CX : cvn (map (fun i => (Y0 (SS i), l_R w i)) (seq 0 L))).
  { intros p Hp. apply in_map_iff in Hp as (i & <- & Hi). apply in_seq in Hi. apply Hl. lia. }
  assert (CU : cvn (map (fun i => (- s1 * Y0 (SS i), l_U w (SS i))) (seq 0 L))).
  { intros p Hp. apply in_map_iff in Hp as (i & <- & Hi). apply in_seq in Hi. apply Hl. lia. }
  assert (CR : cvn (map (fun i => (- s1 * Y0 (SS i), l_R w (SS i))) (seq 0 L))).
  { intros p Hp. apply in_map_iff in Hp as (i & <- & Hi). apply in_seq in Hi. apply Hl. lia. }
  destruct (Hl 0 ltac:(lia)) as (LR0 & LU0).
  set (X' := k_lin_comb (map (fun i => (Y0 (SS i), l_R w i)) (seq 0 L)) s1 (l_X w)).
  set (U0 := k_lin_comb (map (fun i => (- s1 * Y0 (SS i), l_U w (SS i))) (seq 0 L)) s1 (l_U w 0)).
  set (R0 := k_lin_comb (map (fun i => (- s1 * Y0 (SS i), l_R w (SS i))) (seq 0 L)) s1 (l_R w 0)).
  assert (LX' : length X' = n) by (apply k_lin_comb_n; assumption).
  assert (LU0' : length U0 = n) by (apply k_lin_comb_n; assumption).
  assert (LR0' : length R0 = n) by (apply k_lin_comb_n; assumption).
  assert (Hn : forall x X B T (Rr : vec) a r0 om z c t it, length x = n -> length X = n -> length B = n -> length Rr = n ->
     bl_linv 0 (mkBlSt x (mkBlWs (l_Rt w) X B T (upd (upd (l_R w) 0 R0) 0 Rr) (upd (l_U w) 0 U0)) a r0 om z c t it)).
  { intros. unfold bl_linv. cbn [t_x t_ws l_X l_B l_R l_U]. repeat split; auto;
      assert (i = 0) by lia; subst i; rewrite !upd_eq; assumption. }
  assert (Hn1 : forall a r0 om z c t it,
     bl_linv 0 (mkBlSt (t_x s) (mkBlWs (l_Rt w) X' (l_B w) (l_T w) (upd (l_R w) 0 R0) (upd (l_U w) 0 U0)) a r0 om z c t it)).
  { intros. unfold bl_linv. cbn [t_x t_ws l_X l_B l_R l_U]. repeat split; auto;
      assert (i = 0) by lia; subst i; rewrite !upd_eq; assumption. }
  destruct (sltb _ (p_delta prm)); [|apply Hn1].
  destruct (pspmv_n (p_left prm) X' LX') as (Lr0 & LT).
  destruct (pspmv (p_left prm) A P X') as [r0 T]. cbn [fst snd] in Lr0, LT.
  assert (LR0'' : length (k_axpby s1 (l_B w) (- s1) r0) = n) by (apply axpby_n; assumption).
  destruct (_ || _); [|apply Hn1].
  destruct (_ && _).
  - apply Hn; auto; [|rewrite k_clear_length; exact LX'].
    destruct (p_left prm); apply axpby_n; auto.
  - apply Hn; auto.
Qed.

Lemma bl_loop_linv prm eps zeta0 fuel : forall (st s : bl_st) oof,
  bl_linv 0 st -> bl_loop A P prm eps zeta0 fuel st = Some (s, oof) -> bl_linv 0 s.
Proof.
  induction fuel as [|k IH]; intros st s oof I0; simpl.
  - destruct (_ && _); intro H; inversion H; subst; exact I0.
  - destruct (_ && _); [|intro H; inversion H; subst; exact I0].
    pose proof (bl_step_linv prm eps zeta0 st I0) as Q.
    destruct (bl_step A P prm eps zeta0 st) as [|s'|s']; [discriminate | |].
    + intro H; inversion H; subst; exact Q.
    + apply IH. exact Q.
Qed.

Theorem bicgstabl_sized_preserved_any prm (f x0 : vec) junk :
  length f = n -> length x0 = n -> bl_sized n junk ->
  bl_sized n (snd (bicgstabl A P prm f x0 junk)).
Proof.
  intros Lf Lx Hz. pose proof Hz as (ZX & ZU). unfold bicgstabl.
  destruct (k_prologue norm_a prm f) as [nr|nr]; [exact Hz|]. cbv zeta.
  assert (LB : length (fst (if p_left prm then (P (k_residual f (A x0)), k_residual f (A x0)) else (k_residual f (A x0), l_T junk))) = n).
  { destruct (p_left prm); cbn [fst]; [apply P_len|]; apply residual_n; assumption. }
  destruct (if p_left prm then (P (k_residual f (A x0)), k_residual f (A x0)) else (k_residual f (A x0), l_T junk)) as [B T].
  cbn [fst] in LB.
  match goal with |- context [bl_loop A P prm ?e ?z ?fu ?st] =>
    assert (I0 : bl_linv 0 st);
    [| destruct (bl_loop A P prm e z fu st) as [[st' oof]|] eqn:E; [|exact Hz];
       apply (bl_loop_linv prm _ _ _ _ _ _ I0) in E ] end.
  { unfold bl_linv. cbn [t_x t_ws l_X l_B l_R l_U]. split; [exact Lx|]. split; [rewrite k_clear_length; exact ZX|].
    split; [exact LB|]. intros i Hi. assert (i = 0) by lia. subst i. rewrite !upd_eq, k_clear_length. split; assumption. }
  destruct E as (_ & LX' & _ & Hl). destruct (Hl 0 (le_n 0)) as (_ & LU').
  unfold bl_sized. destruct (p_left prm); cbn [snd l_X l_U]; split; assumption.
Qed.

End Len.

(* call sequences on one object: the second call gives what a fresh object gives, whatever the
   first call was (other matrix, preconditioner, parameters, right-hand side; any Scalar record) *)
Section Reuse.
Context {S : Scalar}.
Local Notation vec := (vec S).
Variable n : nat.
Variables A1 P1 : vec -> vec.
Hypothesis A1_len : forall v, length v = n -> length (A1 v) = n.
Hypothesis P1_len : forall v, length v = n -> length (P1 v) = n.

Theorem idrs_reuse (Hz : is_zero (@s0 S) = true) (A2 P2 : vec -> vec) Sh (prm1 prm2 : @iprm S) (f1 x1 f2 x2 : vec) fresh1 fresh2 :
  ip_s prm1 = ip_s prm2 -> length f1 = n -> length x1 = n ->
  id_sized n (ip_s prm1) fresh1 -> id_sized n (ip_s prm2) fresh2 ->
  fst (idrs A2 P2 Sh prm2 f2 x2 (snd (idrs A1 P1 Sh prm1 f1 x1 fresh1))) = fst (idrs A2 P2 Sh prm2 f2 x2 fresh2).
Proof.
  intros Es Lf Lx Z1 Z2. apply (idrs_junk_independent Hz A2 P2 Sh prm2 f2 x2 n); [|exact Z2].
  rewrite <- Es. apply (idrs_sized_preserved_any n A1 P1 A1_len P1_len); assumption.
Qed.

Theorem bicgstabl_reuse (A2 P2 : vec -> vec) (prm1 prm2 : @kprm S) (f1 x1 f2 x2 : vec) fresh1 fresh2 :
  1 <= p_L prm2 -> length f1 = n -> length x1 = n -> bl_sized n fresh1 -> bl_sized n fresh2 ->
  fst (bicgstabl A2 P2 prm2 f2 x2 (snd (bicgstabl A1 P1 prm1 f1 x1 fresh1))) = fst (bicgstabl A2 P2 prm2 f2 x2 fresh2).
Proof.
  intros HL Lf Lx Z1 Z2. apply (bicgstabl_junk_independent A2 P2 prm2 f2 x2 n); [exact HL | | exact Z2].
  apply (bicgstabl_sized_preserved_any n A1 P1 A1_len P1_len); assumption.
Qed.
End Reuse.
