(* AmgBlockCycleSym2.v -- C02 for block value types, part A3 in full: symmetry of the multigrid preconditioner over a
   NON-COMMUTATIVE ring of values with an involutive anti-automorphism (math::adjoint of static_matrix<T,b,b>), for
   npre = npost = k, any ncycle (V- and W-cycles) and any pre_cycles >= 1.
   Port of AmgProofs7.v (method of consistent / dual stationary iterations) to the hermitian form
   AmgBlockCycleSym.ipH n x y = sum_i sadj x_i * y_i: the form is additive in both arguments and hermitian, nothing else
   is used, no product is commuted.  The structural part of AmgProofs7 (the cycle as an iteration: Cyc, cyc_mid_eq,
   cyc_last_eq, apply_it -- no ring law is used there) is re-used as it is. *)
From Amgcl Require Import Scalar Vec Crs Kernels KernelsProofs MatOps MatOpsProofs Relax DenseSolve
  Amg AmgExec AmgProofs AmgProofs2 AmgProofs3 AmgProofs4 AmgProofs6 AmgProofs7 NcRing NcKernels AmgBlockNc AmgBlockCycle
  AmgBlockCycleProofs AmgBlockCycleSym.
Local Open Scope S_scope.

Section FullNc.
Context {S : Scalar}.
Local Notation vec := (vec S).
Local Notation crs := (crs S).
Local Notation level := (@level S).
Local Notation scratch := (@scratch S).
Local Notation sweep := (@sweep S).
Hypothesis Hnc : ncring_theory S.
Hypothesis Seqb : seqb_spec S.
Local Instance ncsy2 : NcRingInst S := ncring_inst Hnc.
Hypothesis adj_add : forall a b : S, sadj (a + b) = sadj a + sadj b.
Hypothesis adj_mul : forall a b : S, sadj (a * b) = sadj b * sadj a.
Hypothesis adj_inv : forall a : S, sadj (sadj a) = a.

Local Notation ipH_hermL := (ipH_herm Hnc adj_add adj_mul adj_inv).
Local Notation adj_0L := (adj_0 Hnc adj_add).
Local Notation adj_subL := (adj_sub Hnc adj_add).
Local Notation vaddg := (AmgBlockCycleSym.vadd_get Hnc).

(* --- a fixed level size n and hermitian matrix A --- *)
Section Iterations.
Variable n : nat.
Variable A : crs.
Hypothesis WA : wf A = true.
Hypothesis NA : nrows A = n.
Hypothesis HA : herm_mat n A.

Local Notation res := (res n A).
Local Notation z := (z n).
Local Notation it_len := (it_len n).
Local Notation it_cons := (it_cons n A).

Lemma resH_length f x : length f = n -> length (res f x) = n.
Proof. intro Lf. unfold AmgProofs7.res. rewrite <- NA in *. apply residual_length; rewrite ?vzero_length; congruence. Qed.

Lemma resH_get f x i : length f = n -> i < n -> vget (res f x) i = vget f i - Ax A x i.
Proof.
  intros Lf Hi. unfold AmgProofs7.res. rewrite <- NA in *.
  apply (nc_residual_spec Hnc); rewrite ?vzero_length; auto.
Qed.

Lemma vaddH_length (x y : vec) : length x = n -> length y = n -> length (vadd x y) = n.
Proof. apply vlin_length. Qed.

Lemma resH_add f (y w : vec) : length f = n -> length y = n -> length w = n ->
  res f (vadd y w) = res (res f y) w.
Proof.
  intros Lf Ly Lw. apply vec_ext.
  - rewrite !resH_length; auto using resH_length.
  - rewrite resH_length by exact Lf. intros i Hi.
    rewrite !resH_get by (auto using resH_length).
    rewrite (nc_Ax_add Hnc A y w (vadd y w) i) by (intro j; apply vaddg; congruence). ncr.
Qed.

Lemma resH_zero f : length f = n -> res f z = f.
Proof.
  intro Lf. apply vec_ext; [rewrite resH_length; auto|].
  rewrite resH_length by exact Lf. intros i Hi. rewrite resH_get by assumption.
  unfold AmgProofs7.z. rewrite (nc_Ax_zero Hnc). ncr.
Qed.

Lemma vaddH_assoc (x y w : vec) : length x = n -> length y = n -> length w = n ->
  vadd (vadd x y) w = vadd x (vadd y w).
Proof.
  intros Lx Ly Lw. apply vec_ext; [rewrite !vaddH_length; auto using vaddH_length|].
  rewrite vaddH_length by (auto using vaddH_length). intros i Hi.
  rewrite !vaddg by (rewrite ?vaddH_length; congruence). ncr.
Qed.

Lemma ipH_vadd_r (f x y : vec) : length x = n -> length y = n ->
  ipH n f (vadd x y) = ipH n f x + ipH n f y.
Proof. intros Lx Ly. apply (ipH_add_r Hnc). intros i _. apply vaddg. congruence. Qed.

Lemma ipH_vadd_l (x y g : vec) : length x = n -> length y = n ->
  ipH n (vadd x y) g = ipH n x g + ipH n y g.
Proof. intros Lx Ly. apply (ipH_add_l Hnc adj_add). intros i _. apply vaddg. congruence. Qed.

Lemma ipH_zero_l (g : vec) : ipH n z g = s0.
Proof.
  unfold ipH. apply (ncsumn_zero_fun Hnc). intros i _. unfold AmgProofs7.z.
  rewrite nc_vget_vzero, adj_0L. ncr.
Qed.

Lemma ipH_zero_r (f : vec) : ipH n f z = s0.
Proof.
  unfold ipH. apply (ncsumn_zero_fun Hnc). intros i _. unfold AmgProofs7.z.
  rewrite nc_vget_vzero. ncr.
Qed.

(* <f - A x, w> = <f, w> - <A x, w>  and  <x, g - A w> = <x, g> - <x, A w> *)
Lemma ipH_res_l (f x w : vec) : length f = n -> ipH n (res f x) w = ipH n f w - qL n A x w.
Proof.
  intro Lf. unfold ipH, qL. rewrite <- (ncsumn_sub Hnc). apply sumn_ext. intros i Hi.
  rewrite resH_get by assumption. rewrite adj_subL. ncr.
Qed.
Lemma ipH_res_r (x g w : vec) : length g = n -> ipH n x (res g w) = ipH n x g - qR n x A w.
Proof.
  intro Lg. unfold ipH, qR. rewrite <- (ncsumn_sub Hnc). apply sumn_ext. intros i Hi.
  rewrite resH_get by assumption. ncr.
Qed.
Lemma qLR (x w : vec) : qL n A x w = qR n x A w.
Proof.
  destruct HA as [HcA HsA]. apply (qL_adj Hnc adj_add adj_mul A A n n x w HcA HcA).
  intros i j Hi Hj. apply HsA; assumption.
Qed.

(* Psi is the dual of Phi with respect to the hermitian form *)
Definition it_dualH (Psi Phi : iteration) : Prop :=
  forall f x g, length f = n -> length x = n -> length g = n ->
    ipH n (Psi f x) g = ipH n f (Phi g z) + ipH n x (res g (Phi g z)).

Lemma comp_consH Phi1 Phi2 : it_len Phi1 -> it_len Phi2 -> it_cons Phi1 -> it_cons Phi2 ->
  it_cons (comp Phi1 Phi2).
Proof.
  intros L1 L2 C1 C2 f x Lf Lx. unfold comp.
  assert (Lh : length (res f x) = n) by (apply resH_length; exact Lf).
  set (h := res f x) in *.
  assert (Lw : length (Phi2 h z) = n) by (apply L2; auto using Lz).
  rewrite (C2 f x Lf Lx). fold h.
  change (vlin s1 x s1 (Phi2 h z)) with (vadd x (Phi2 h z)).
  rewrite (C1 f (vadd x (Phi2 h z)) Lf) by (apply vaddH_length; assumption).
  rewrite (resH_add f x (Phi2 h z) Lf Lx Lw). fold h.
  rewrite (C1 h (Phi2 h z) Lh Lw).
  change (vlin s1 (vadd x (Phi2 h z)) s1 (Phi1 (res h (Phi2 h z)) z))
    with (vadd (vadd x (Phi2 h z)) (Phi1 (res h (Phi2 h z)) z)).
  rewrite vaddH_assoc; auto.
  apply L1; [apply resH_length; exact Lh|apply Lz].
Qed.

(* the dual of "Psi1 then Psi2" is "Phi2 then Phi1" *)
Lemma comp_dualH Psi1 Psi2 Phi1 Phi2 :
  it_len Psi1 -> it_len Phi1 -> it_len Phi2 -> it_cons Phi1 ->
  it_dualH Psi1 Phi1 -> it_dualH Psi2 Phi2 ->
  it_dualH (comp Psi2 Psi1) (comp Phi1 Phi2).
Proof.
  intros LP1 L1 L2 C1 D1 D2 f x g Lf Lx Lg. unfold comp.
  assert (Lw : length (Phi2 g z) = n) by (apply L2; auto using Lz).
  assert (Lg' : length (res g (Phi2 g z)) = n) by (apply resH_length; exact Lg).
  set (g' := res g (Phi2 g z)) in *.
  assert (Lv : length (Phi1 g' z) = n) by (apply L1; auto using Lz).
  rewrite (D2 f (Psi1 f x) g Lf (LP1 f x Lf Lx) Lg). fold g'.
  rewrite (D1 f x g' Lf Lx Lg').
  rewrite (C1 g (Phi2 g z) Lg Lw). fold g'.
  change (vlin s1 (Phi2 g z) s1 (Phi1 g' z)) with (vadd (Phi2 g z) (Phi1 g' z)).
  rewrite (ipH_vadd_r f (Phi2 g z) (Phi1 g' z) Lw Lv).
  rewrite (resH_add g (Phi2 g z) (Phi1 g' z) Lg Lw Lv). fold g'. ncr.
Qed.

Lemma id_consH : it_cons (fun _ x => x).
Proof.
  intros f x Lf Lx. symmetry.
  apply vec_ext; [rewrite (vlin_length s1 x s1 z n); auto using Lz|].
  rewrite (vlin_length s1 x s1 z n) by (auto using Lz). intros i Hi.
  change (vlin s1 x s1 z) with (vadd x z). rewrite vaddg by (rewrite Lz; congruence).
  unfold AmgProofs7.z. rewrite nc_vget_vzero. ncr.
Qed.

Lemma id_dualH : it_dualH (fun _ x => x) (fun _ x => x).
Proof. intros f x g Lf Lx Lg. rewrite (resH_zero g Lg), ipH_zero_r. ncr. Qed.

Lemma itpow_consH k Phi : it_len Phi -> it_cons Phi -> it_cons (itpow k Phi).
Proof.
  intros HL HC. induction k as [|k IH].
  - exact id_consH.
  - intros f x Lf Lx.
    change (itpow (Datatypes.S k) Phi f x) with (comp (itpow k Phi) Phi f x).
    rewrite (comp_consH (itpow k Phi) Phi (itpow_len n k Phi HL) HL IH HC f x Lf Lx). reflexivity.
Qed.

Lemma itpow_dualH k Psi Phi : it_len Psi -> it_len Phi -> it_cons Phi ->
  it_dualH Psi Phi -> it_dualH (itpow k Psi) (itpow k Phi).
Proof.
  intros LP LF HC HD. induction k as [|k IH].
  - exact id_dualH.
  - intros f x g Lf Lx Lg.
    assert (E : forall h y, itpow (Datatypes.S k) Phi h y = comp Phi (itpow k Phi) h y).
    { intros h y. unfold itpow, comp. simpl. apply iter_comm. }
    change (itpow (Datatypes.S k) Psi f x) with (comp (itpow k Psi) Psi f x).
    rewrite !E.
    apply (comp_dualH Psi (itpow k Psi) Phi (itpow k Phi)); auto using itpow_len.
Qed.

(* a self-dual iteration gives a hermitian operator at x = 0 *)
Lemma dual_herm Phi : it_dualH Phi Phi -> forall f g, length f = n -> length g = n ->
  ipH n (Phi f z) g = ipH n f (Phi g z).
Proof. intros HD f g Lf Lg. rewrite (HD f z g Lf (Lz n) Lg), ipH_zero_l. ncr. Qed.

Lemma it_dualH_ext Phi Psi : (forall f x, length f = n -> length x = n -> Psi f x = Phi f x) ->
  it_dualH Phi Phi -> it_dualH Psi Psi.
Proof. intros E H f x g Lf Lx Lg. rewrite (E f x Lf Lx), (E g z Lg (Lz n)). apply H; assumption. Qed.

(* --- smoothers as iterations --- *)
Lemma sm_consH (sw : sweep) : sweep_consH n A sw -> it_cons (sm n sw).
Proof. intros H f x Lf Lx. exact (H f x z Lf Lx (Lz n)). Qed.

Lemma sm_dualH (pre post : sweep) : sweep_ok n pre -> sweep_ok n post -> sweep_consH n A post ->
  sweep_adjH n pre post -> it_dualH (sm n post) (sm n pre).
Proof.
  intros Hpre Hpost Hc Ha f x g Lf Lx Lg.
  exact (post_ipH Hnc adj_add adj_mul adj_inv n A pre post f g x z WA NA HA Hpre Hpost Hc Ha Lf Lg Lx (Lz n)).
Qed.

Lemma sweep_adjH_swap (pre post : sweep) : sweep_adjH n pre post -> sweep_adjH n post pre.
Proof.
  intros H f g Lf Lg.
  rewrite <- (ipH_hermL n g (opM post n f)), <- (H g f Lg Lf), ipH_hermL. reflexivity.
Qed.

(* --- the coarse-grid correction as an iteration --- *)
Section Cgc.
Variable n' : nat.
Variables R P : crs.
Variable Bc : vec -> vec.
Hypothesis WR : wf R = true.
Hypothesis WP : wf P = true.
Hypothesis NR : nrows R = n'.
Hypothesis NP : nrows P = n.
Hypothesis HT : transpH n n' R P.
Hypothesis Bc_len : forall h, length h = n' -> length (Bc h) = n'.
Hypothesis Bc_herm : forall a b, length a = n' -> length b = n' -> ipH n' (Bc a) b = ipH n' a (Bc b).

Local Notation restr := (restr n' R).
Local Notation cgc := (cgc n A n' R P Bc).

Lemma cgc_getH f x i : length x = n -> i < n ->
  vget (cgc f x) i = Ax P (Bc (restr (res f x))) i + vget x i.
Proof. intros Lx Hi. unfold AmgProofs7.cgc. rewrite (nc_spmv_spec Hnc Seqb) by (auto; congruence). ncr. Qed.

Lemma restr_get t i : i < n' -> vget (restr t) i = Ax R t i.
Proof.
  intro Hi. unfold AmgProofs7.restr.
  rewrite (nc_spmv_spec Hnc Seqb) by (auto; rewrite ?vzero_length; congruence). ncr.
Qed.

Lemma cgc_consH : it_cons cgc.
Proof.
  intros f x Lf Lx.
  assert (Lh : length (res f x) = n) by (apply resH_length; exact Lf).
  pose proof (cgc_len n A n' R P Bc) as CL.
  apply vec_ext.
  - rewrite (CL f x Lf Lx). symmetry. apply vlin_length; [exact Lx|apply CL; auto using Lz].
  - rewrite (CL f x Lf Lx). intros i Hi.
    change (vlin s1 x s1 (cgc (res f x) z)) with (vadd x (cgc (res f x) z)).
    rewrite vaddg by (rewrite CL; auto using Lz; congruence).
    rewrite !cgc_getH by (auto using Lz).
    rewrite (resH_zero (res f x) Lh). unfold AmgProofs7.z. rewrite nc_vget_vzero. ncr.
Qed.

Lemma cgc_dualH : it_dualH cgc cgc.
Proof.
  intros f x g Lf Lx Lg. destruct HT as (HcR & HcP & Htr).
  pose proof (cgc_len n A n' R P Bc) as CL.
  assert (Lrf : length (res f x) = n) by (apply resH_length; exact Lf).
  assert (Lrs : forall h, length (restr h) = n') by (intro h; apply restr_length).
  set (uf := Bc (restr (res f x))). set (ug := Bc (restr g)).
  assert (Ecg : forall i, i < n -> vget (cgc g z) i = Ax P ug i).
  { intros i Hi. rewrite cgc_getH by (auto using Lz). rewrite (resH_zero g Lg). fold ug.
    unfold AmgProofs7.z. rewrite nc_vget_vzero. ncr. }
  assert (Lcg : length (cgc g z) = n) by (apply CL; auto using Lz).
  (* left-hand side: <P uf + x, g> *)
  rewrite (ipH_add_l Hnc adj_add n (map (fun r => dotrow r uf) (rows P)) x (cgc f x) g).
  2:{ intros i Hi. rewrite cgc_getH by assumption. fold uf.
      rewrite (nc_dotrows_get Hnc) by (auto; congruence). reflexivity. }
  rewrite (ipH_Ax_l n P uf (map (fun r => dotrow r uf) (rows P)))
    by (intros i Hi; apply (nc_dotrows_get Hnc); auto; congruence).
  (* <P uf, g> = <uf, R g> *)
  rewrite (qL_adj Hnc adj_add adj_mul P R n n' uf g HcP HcR) by (intros i j Hi Hj; apply Htr; assumption).
  rewrite <- (ipH_Ax_r n' R g (restr g) uf) by (intros j Hj; apply restr_get; exact Hj).
  (* <Bc R (f - A x), R g> = <R (f - A x), Bc R g> *)
  unfold uf. rewrite (Bc_herm (restr (res f x)) (restr g) (Lrs _) (Lrs _)). fold ug.
  rewrite (ipH_Ax_l n' R (res f x) (restr (res f x)) ug) by (intros j Hj; apply restr_get; exact Hj).
  (* <R r, ug> = <r, P ug> *)
  rewrite (qL_adj Hnc adj_add adj_mul R P n' n (res f x) ug HcR HcP).
  2:{ intros i j Hi Hj. rewrite (Htr i j Hi Hj), adj_inv. reflexivity. }
  rewrite <- (ipH_Ax_r n P ug (cgc g z) (res f x)) by exact Ecg.
  rewrite (ipH_res_l f x (cgc g z) Lf).
  rewrite (ipH_res_r x g (cgc g z) Lg).
  rewrite (qLR x (cgc g z)). ncr.
Qed.

End Cgc.
End Iterations.

(* ------------------------------------------------------------------ *)
(* the pre-smoothers are consistent as well (needed as soon as a smoother is applied more than once or the cycle is
   repeated: the dual of a composition needs the consistency of the iteration applied FIRST on the dual side) *)
Fixpoint hier_hermk (lvls : list level) : Prop :=
  match lvls with
  | [] => True
  | l :: rest => sweep_consH (nrows (lA l)) (lA l) (lpre l) /\ hier_hermk rest
  end.

Section CycleIt.
Variables k nc : nat.           (* npre = npost = k, ncycle = nc *)
Local Notation Cyc := (Cyc k nc).

Definition selfdualH (lvls : list level) : Prop :=
  match lvls with
  | l :: _ => it_cons (nrows (lA l)) (lA l) (Cyc lvls) /\ it_dualH (nrows (lA l)) (lA l) (Cyc lvls) (Cyc lvls)
  | [] => True
  end.

Theorem Cyc_hermN (lvls : list level) : hier_herm lvls -> hier_hermk lvls ->
  (forall f g, length f = top_n lvls -> length g = top_n lvls ->
     ipH (top_n lvls) (Cyc lvls f (vzero (top_n lvls))) g = ipH (top_n lvls) f (Cyc lvls g (vzero (top_n lvls)))) /\
  (nosolve_top lvls -> selfdualH lvls).
Proof.
  induction lvls as [|l rest IH]; intros Hh Hk; [split; [reflexivity|auto]|].
  pose proof (hier_herm_wf _ Hh) as Hwf.
  cbn [hier_herm] in Hh. destruct Hh as (Hpre & Hpost & WA & HsA & Hcpost & Hadj & Hmid & Hrest).
  cbn [hier_hermk] in Hk. destruct Hk as [Hcpre Hk'].
  cbn [top_n]. set (n := nrows (lA l)) in *.
  assert (NA : nrows (lA l) = n) by reflexivity.
  pose proof (sweep_adjH_swap n (lpre l) (lpost l) Hadj) as Hadj'.
  pose proof (sm_len n _ Hpre) as Lpre. pose proof (sm_len n _ Hpost) as Lpost.
  pose proof (itpow_len n k _ Lpre) as LPpre. pose proof (itpow_len n k _ Lpost) as LPpost.
  pose proof (itpow_consH n (lA l) WA NA HsA k _ Lpre (sm_consH n (lA l) _ Hcpre)) as CPpre.
  pose proof (itpow_consH n (lA l) WA NA HsA k _ Lpost (sm_consH n (lA l) _ Hcpost)) as CPpost.
  pose proof (itpow_dualH n (lA l) WA NA HsA k _ _ Lpost Lpre (sm_consH n (lA l) _ Hcpre)
                (sm_dualH n (lA l) WA NA HsA _ _ Hpre Hpost Hcpost Hadj)) as Dpost.
  pose proof (itpow_dualH n (lA l) WA NA HsA k _ _ Lpre Lpost (sm_consH n (lA l) _ Hcpost)
                (sm_dualH n (lA l) WA NA HsA _ _ Hpost Hpre Hcpre Hadj')) as Dpre.
  destruct rest as [|nxt rest'].
  - (* coarsest level *)
    assert (Ec : forall f x, length f = n -> length x = n -> Cyc [l] f x =
              match lsolve l with
              | Some sv => sv f x
              | None => comp (itpow k (sm n (lpost l))) (itpow k (sm n (lpre l))) f x end).
    { intros f x Lf Lx. unfold AmgProofs7.Cyc. apply (cyc_last_eq k nc l Hwf); auto. apply (zscr_wf [l]). }
    destruct (lsolve l) as [sv|] eqn:El.
    + split; [|intro Hn; simpl in Hn; congruence].
      intros f g Lf Lg. rewrite !Ec by (auto using vzero_length).
      apply (Hmid sv eq_refl); auto using vzero_length.
    + assert (SD : it_dualH n (lA l) (Cyc [l]) (Cyc [l])).
      { apply (it_dualH_ext n (lA l) (comp (itpow k (sm n (lpost l))) (itpow k (sm n (lpre l)))));
          [exact Ec|].
        apply (comp_dualH n (lA l) WA NA HsA); assumption. }
      split.
      * intros f g Lf Lg. apply (dual_herm n (lA l) _ SD); assumption.
      * intros _. split; [|exact SD].
        apply (it_cons_ext n (lA l) (comp (itpow k (sm n (lpost l))) (itpow k (sm n (lpre l)))));
          [exact Ec| |exact NA].
        apply (comp_consH n (lA l) WA NA HsA); assumption.
  - (* level with a coarser one below *)
    destruct Hmid as (WR & WP & NR & NP & HT).
    set (n' := nrows (lA nxt)) in *.
    destruct (IH Hrest Hk') as [Bsym _]. cbn [top_n] in Bsym. fold n' in Bsym.
    pose proof Hwf as (_ & _ & _ & Hwf').
    set (Bc := fun h => Cyc (nxt :: rest') h (vzero n')).
    assert (Bc_len : forall h, length h = n' -> length (Bc h) = n').
    { intros h Lh. unfold Bc. apply (Cyc_len Seqb k nc (nxt :: rest') Hwf'); [exact Lh|apply vzero_length]. }
    pose proof (cgc_len n (lA l) n' (lR l) (lP l) Bc) as Lcgc.
    pose proof (cgc_consH n (lA l) WA NA HsA n' (lR l) (lP l) Bc WP NP) as Ccgc.
    pose proof (cgc_dualH n (lA l) WA NA HsA n' (lR l) (lP l) Bc WR WP NR NP HT Bsym) as Dcgc.
    set (mid := comp (cgc n (lA l) n' (lR l) (lP l) Bc) (itpow k (sm n (lpre l)))).
    assert (Lmid : it_len n mid) by (apply comp_len; assumption).
    assert (Cmid : it_cons n (lA l) mid) by (apply (comp_consH n (lA l) WA NA HsA); assumption).
    set (mid' := comp (itpow k (sm n (lpost l))) (cgc n (lA l) n' (lR l) (lP l) Bc)).
    assert (Lmid' : it_len n mid') by (apply comp_len; assumption).
    assert (Cmid' : it_cons n (lA l) mid') by (apply (comp_consH n (lA l) WA NA HsA); assumption).
    assert (Dmid : it_dualH n (lA l) mid mid').
    { unfold mid, mid'. apply (comp_dualH n (lA l) WA NA HsA); assumption. }
    assert (Lbody : it_len n (body_it k l n' Bc)) by (apply comp_len; assumption).
    assert (Cbody : it_cons n (lA l) (body_it k l n' Bc))
      by (apply (comp_consH n (lA l) WA NA HsA); assumption).
    assert (Dbody : it_dualH n (lA l) (body_it k l n' Bc) (body_it k l n' Bc)).
    { assert (E : forall f x, body_it k l n' Bc f x = comp mid' (itpow k (sm n (lpre l))) f x) by reflexivity.
      intros f x g Lf Lx Lg. rewrite (E g (z n)).
      change (body_it k l n' Bc f x) with (comp (itpow k (sm n (lpost l))) mid f x).
      apply (comp_dualH n (lA l) WA NA HsA mid (itpow k (sm n (lpost l))) mid' (itpow k (sm n (lpre l))));
        assumption. }
    assert (Ec : forall f x, length f = n -> length x = n ->
              Cyc (l :: nxt :: rest') f x = itpow nc (body_it k l n' Bc) f x).
    { intros f x Lf Lx. unfold AmgProofs7.Cyc. apply (cyc_mid_eq Seqb k nc l nxt rest' Hwf); auto. apply zscr_wf. }
    assert (SD : it_dualH n (lA l) (Cyc (l :: nxt :: rest')) (Cyc (l :: nxt :: rest'))).
    { apply (it_dualH_ext n (lA l) (itpow nc (body_it k l n' Bc))); [exact Ec|].
      apply (itpow_dualH n (lA l) WA NA HsA); assumption. }
    split.
    + intros f g Lf Lg. apply (dual_herm n (lA l) _ SD); assumption.
    + intros _. split; [|exact SD].
      apply (it_cons_ext n (lA l) (itpow nc (body_it k l n' Bc))); [exact Ec| |exact NA].
      apply (itpow_consH n (lA l) WA NA HsA); assumption.
Qed.

End CycleIt.

(* A3 for block values, full statement: npre = npost = k, any ncycle, pre_cycles = 1; and any pre_cycles >= 1 unless
   the hierarchy is a single level handled by the direct solver *)
Theorem apply_herm_full k nc pc (lvls : list level) : hier_herm lvls -> hier_hermk lvls -> lvls <> [] ->
  (pc = 0 \/ nosolve_top lvls) ->
  forall scr1 scr2 f g x1 x2,
  scratch_wf lvls scr1 -> scratch_wf lvls scr2 ->
  length f = top_n lvls -> length g = top_n lvls ->
  length x1 = top_n lvls -> length x2 = top_n lvls ->
  ipH (top_n lvls) (fst (apply k k nc (Datatypes.S pc) lvls scr1 f x1)) g =
  ipH (top_n lvls) f (fst (apply k k nc (Datatypes.S pc) lvls scr2 g x2)).
Proof.
  intros Hh Hk Hne Hpc scr1 scr2 f g x1 x2 H1 H2 Lf Lg L1 L2.
  pose proof (hier_herm_wf _ Hh) as Hw.
  rewrite !(apply_it Seqb k nc pc lvls Hw) by assumption.
  set (n := top_n lvls) in *.
  destruct (Cyc_hermN k nc lvls Hh Hk) as [Bsym SD].
  destruct Hpc as [->|Hns].
  - apply Bsym; assumption.
  - specialize (SD Hns). destruct lvls as [|l rest]; [congruence|].
    destruct SD as [SC SD]. cbn [top_n] in *.
    pose proof Hh as Hh'. cbn [hier_herm] in Hh'. destruct Hh' as (_ & _ & WA & HsA & _).
    apply (dual_herm n (lA l) (itpow (Datatypes.S pc) (Cyc k nc (l :: rest)))); [|assumption|assumption].
    apply (itpow_dualH n (lA l) WA eq_refl HsA); try assumption; apply (Cyc_len Seqb k nc (l :: rest) Hw).
Qed.

End FullNc.
