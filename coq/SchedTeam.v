(* SchedTeam.v -- C09: a scheduled region laid out for nt threads and executed by a TEAM of k threads.

   amgcl sizes the per-thread tables of its two hand-written level schedulers with
   omp_get_max_threads() at set-up (gauss_seidel.hpp:224, ilu_solve.hpp:296) and later runs a
   "#pragma omp parallel" region over them (gauss_seidel.hpp:357-397, ilu_solve.hpp:412-447).
   OpenMP does not promise that the team of that region has omp_get_max_threads()-at-set-up
   members: the region may be entered from inside an enclosing active parallel region (nested
   parallelism off: team of 1), under a thread limit (OMP_THREAD_LIMIT, teams thread_limit: team
   of k), with OMP_DYNAMIC, or after omp_set_num_threads(k).

   [team_cyclic k] : the code as it is since /repo 9f8f0d9: thread t of a team of k runs, level
                     by level,  for (tid = t; tid < nthreads; tid += k) tasks[tid][lev]  and then
                     waits at the barrier (the constructors fill the tables the same way).
   [team_trunc k]  : HISTORICAL, the code before 9f8f0d9:  tid = omp_get_thread_num();
                     for (task : tasks[tid]) { rows; barrier }  -- thread t < k runs tasks[t],
                     nobody runs tasks[t] for t >= k (finding C09-level-schedule-reduced-team;
                     for k > nt the old code read tasks[tid] out of bounds: not modelled).
   Both act on "level -> thread -> X" for any X (row numbers: [rsched]; steps: the regions of
   Sched.v), so that they commute with [map (map (map stp))]. *)
From Coq Require Import Permutation ZifyBool.
From Amgcl Require Import Scalar Vec Crs Kernels MatOps Relax Sched GsSched IluSched SchedProofs.

Definition team_trunc {X} (k : nat) (region : list (list (list X))) : list (list (list X)) :=
  map (firstn k) region.

(* the task numbers thread t of a team of k visits among n tasks: t, t+k, t+2k, ... < n *)
Definition stride_idx (k n t : nat) : list nat :=
  filter (fun j => Nat.eqb (j mod k) t) (seq 0 n).
Definition regroup {X} (k : nat) (lv : list (list X)) : list (list X) :=
  map (fun t => concat (map (fun j => nth j lv []) (stride_idx k (length lv) t))) (seq 0 k).
Definition team_cyclic {X} (k : nat) (region : list (list (list X))) : list (list (list X)) :=
  map (regroup k) region.

(* executable forms (extracted): the in-order run of the region by a team of k *)
Section TeamExec.
Context {S : Scalar}.
Definition sptr_solve_team_trunc (k : nat) (lower : bool) (A : crs S) (D : vec S) (nt : nat) (x : vec S) : vec S :=
  exec (seq_of_levels (team_trunc k (sptr_par_levels lower A D nt))) x.
Definition ilu_parallel_solve_team_trunc (k : nat) (L U : crs S) (D : vec S) (nt : nat) (x : vec S) : vec S :=
  sptr_solve_team_trunc k false U D nt (sptr_solve_team_trunc k true L D nt x).
Definition gs_par_sweep_team_trunc (k : nat) (forward : bool) (A : crs S) (nt : nat) (rhs x : vec S) : vec S :=
  exec (seq_of_levels (team_trunc k (gs_par_levels forward A nt rhs))) x.
Definition sptr_solve_team_cyclic (k : nat) (lower : bool) (A : crs S) (D : vec S) (nt : nat) (x : vec S) : vec S :=
  exec (seq_of_levels (team_cyclic k (sptr_par_levels lower A D nt))) x.
Definition ilu_parallel_solve_team_cyclic (k : nat) (L U : crs S) (D : vec S) (nt : nat) (x : vec S) : vec S :=
  sptr_solve_team_cyclic k false U D nt (sptr_solve_team_cyclic k true L D nt x).
Definition gs_par_sweep_team_cyclic (k : nat) (forward : bool) (A : crs S) (nt : nat) (rhs x : vec S) : vec S :=
  exec (seq_of_levels (team_cyclic k (gs_par_levels forward A nt rhs))) x.
End TeamExec.

(* ================================================================================ *)
(* 1. both commute with the row -> step translation                                  *)
Lemma team_trunc_map {X Y} (f : X -> Y) k (region : list (list (list X))) :
  map (map (map f)) (team_trunc k region) = team_trunc k (map (map (map f)) region).
Proof.
  unfold team_trunc. rewrite !map_map. apply map_ext. intro lv. symmetry. apply firstn_map.
Qed.

Lemma regroup_map {X Y} (f : X -> Y) k (lv : list (list X)) :
  map (map f) (regroup k lv) = regroup k (map (map f) lv).
Proof.
  unfold regroup. rewrite map_map, map_length. apply map_ext. intro t.
  rewrite concat_map, map_map. f_equal. apply map_ext. intro j.
  change (@nil Y) with (map f []). rewrite map_nth. reflexivity.
Qed.

Lemma team_cyclic_map {X Y} (f : X -> Y) k (region : list (list (list X))) :
  map (map (map f)) (team_cyclic k region) = team_cyclic k (map (map (map f)) region).
Proof.
  unfold team_cyclic. rewrite !map_map. apply map_ext. intro lv. apply regroup_map.
Qed.

(* ================================================================================ *)
(* 2. a full team: both semantics are the semantics of Sched.v                       *)
Theorem team_trunc_full {X} k (region : list (list (list X))) :
  (forall lv, In lv region -> length lv <= k) -> team_trunc k region = region.
Proof.
  intro H. unfold team_trunc. rewrite <- (map_id region) at 2. apply map_ext_in.
  intros lv Hlv. apply firstn_all2. apply H. exact Hlv.
Qed.

Lemma filter_eqb_seq t : forall n s,
  filter (fun j => Nat.eqb j t) (seq s n) = if (s <=? t) && (t <? s + n) then [t] else [].
Proof.
  induction n as [|n IH]; intro s; simpl.
  - destruct (s <=? t) eqn:E1; destruct (t <? s + 0) eqn:E2; simpl; try reflexivity. lia.
  - rewrite IH. destruct (Nat.eqb_spec s t) as [->|Hne].
    + replace (t <=? t) with true by lia. replace (t <? t + Datatypes.S n) with true by lia.
      replace (Datatypes.S t <=? t) with false by lia. reflexivity.
    + destruct (s <=? t) eqn:E1; destruct (Datatypes.S s <=? t) eqn:E2;
        destruct (t <? Datatypes.S s + n) eqn:E3; destruct (t <? s + Datatypes.S n) eqn:E4;
        simpl; try reflexivity; lia.
Qed.

Lemma stride_idx_full n t : t < n -> stride_idx n n t = [t].
Proof.
  intro H. unfold stride_idx.
  rewrite (filter_ext_in (fun j => Nat.eqb (j mod n) t) (fun j => Nat.eqb j t)).
  - rewrite filter_eqb_seq. replace (0 <=? t) with true by lia. replace (t <? 0 + n) with true by lia. reflexivity.
  - intros j Hj. apply in_seq in Hj. rewrite Nat.mod_small by lia. reflexivity.
Qed.

Lemma map_nth_seq {X} (dx : X) (l : list X) : map (fun j => nth j l dx) (seq 0 (length l)) = l.
Proof. symmetry. rewrite <- (map_id l) at 1. apply (map_as_seq (fun x => x) dx l). Qed.

Theorem regroup_full {X} (lv : list (list X)) : regroup (length lv) lv = lv.
Proof.
  unfold regroup. transitivity (map (fun j => nth j lv []) (seq 0 (length lv))); [|apply map_nth_seq].
  apply map_ext_in.
  intros t Ht. apply in_seq in Ht. rewrite stride_idx_full by lia. simpl. apply app_nil_r.
Qed.

Theorem team_cyclic_full {X} k (region : list (list (list X))) :
  (forall lv, In lv region -> length lv = k) -> team_cyclic k region = region.
Proof.
  intro H. unfold team_cyclic. rewrite <- (map_id region) at 2. apply map_ext_in.
  intros lv Hlv. rewrite <- (H lv Hlv). apply regroup_full.
Qed.

(* every level of the schedules amgcl builds has exactly nt task lists *)
Lemma schedule_of_levels_width nt level lv : In lv (schedule_of_levels nt level) -> length lv = nt.
Proof.
  unfold schedule_of_levels. intro H. apply in_map_iff in H. destruct H as (r & <- & _).
  apply omp_chunks_length.
Qed.

(* ================================================================================ *)
(* 3. the cyclic distribution keeps every level's rows (as a multiset)               *)
Lemma concat_map_perm {X} (g : nat -> list X) p q : Permutation p q ->
  Permutation (concat (map g p)) (concat (map g q)).
Proof.
  induction 1; simpl.
  - constructor.
  - apply Permutation_app_head. assumption.
  - rewrite !app_assoc. apply Permutation_app_tail. apply Permutation_app_comm.
  - eapply Permutation_trans; eauto.
Qed.

Lemma stride_idx_partition k n : 1 <= k ->
  Permutation (concat (map (stride_idx k n) (seq 0 k))) (seq 0 n).
Proof.
  intro Hk. unfold stride_idx.
  eapply Permutation_trans; [apply (levels_partition (fun j => j mod k) (seq 0 n) k)|].
  rewrite filter_all; [apply Permutation_refl|].
  intros x _. apply Nat.ltb_lt. apply Nat.mod_upper_bound. lia.
Qed.

Lemma concat_concat_map {X Y} (g : Y -> list X) (L : list (list Y)) :
  concat (map (fun l => concat (map g l)) L) = concat (map g (concat L)).
Proof.
  induction L as [|l L IH]; simpl; [reflexivity|].
  rewrite map_app, concat_app, IH. reflexivity.
Qed.

Theorem regroup_flat_perm {X} k (lv : list (list X)) : 1 <= k ->
  Permutation (concat (regroup k lv)) (concat lv).
Proof.
  intro Hk. unfold regroup.
  rewrite <- (map_map (stride_idx k (length lv)) (fun idx => concat (map (fun j => nth j lv []) idx))).
  rewrite concat_concat_map.
  eapply Permutation_trans; [apply concat_map_perm; apply stride_idx_partition; exact Hk|].
  rewrite map_nth_seq. apply Permutation_refl.
Qed.

Lemma regroup_length {X} k (lv : list (list X)) : length (regroup k lv) = k.
Proof. unfold regroup. rewrite map_length, seq_length. reflexivity. Qed.

(* ================================================================================ *)
(* 4. validity of a row schedule depends only on the SET of rows of each level, not
      on how a level is distributed over threads (nor on the number of threads)      *)
Definition same_levels (sch sch' : rsched) : Prop :=
  Forall2 (fun a b => Permutation (flat_level a) (flat_level b)) sch sch'.

Lemma same_levels_flat sch sch' : same_levels sch sch' -> Permutation (flat_sched sch) (flat_sched sch').
Proof.
  unfold flat_sched. induction 1 as [|a b sch sch' Hab _ IH]; simpl; [constructor|].
  apply Permutation_app; assumption.
Qed.

Lemma same_levels_in sch sch' lv' : same_levels sch sch' -> In lv' sch' ->
  exists lv, In lv sch /\ Permutation (flat_level lv) (flat_level lv').
Proof.
  induction 1 as [|a b sch sch' Hab _ IH]; simpl; [tauto|]. intros [<-|Hin].
  - exists a. auto.
  - destruct (IH Hin) as (lv & H1 & H2). exists lv. auto.
Qed.

Lemma existsb_eqb_perm i l l' : Permutation l l' -> existsb (Nat.eqb i) l = existsb (Nat.eqb i) l'.
Proof.
  intro Hp. destruct (existsb (Nat.eqb i) l) eqn:E; destruct (existsb (Nat.eqb i) l') eqn:E'; try reflexivity.
  - apply existsb_eqb_In in E. apply (Permutation_in _ Hp) in E. apply existsb_eqb_In in E. congruence.
  - apply existsb_eqb_In in E'. apply (Permutation_in _ (Permutation_sym Hp)) in E'.
    apply existsb_eqb_In in E'. congruence.
Qed.

Lemma same_levels_level_in sch sch' i : same_levels sch sch' -> level_in sch' i = level_in sch i.
Proof.
  induction 1 as [|a b sch sch' Hab _ IH]; simpl; [reflexivity|].
  rewrite (existsb_eqb_perm i _ _ Hab). rewrite IH. reflexivity.
Qed.

Theorem sched_valid_same_levels rds n f sch sch' : same_levels sch sch' ->
  sched_valid rds n f sch -> sched_valid rds n f sch'.
Proof.
  intros Hs (Hp & Hcf & Hdep). split; [|split].
  - eapply Permutation_trans; [apply Permutation_sym, same_levels_flat; exact Hs|exact Hp].
  - intros lv' i j Hlv' Hi Hj Hij.
    destruct (same_levels_in _ _ _ Hs Hlv') as (lv & Hlv & Hperm).
    apply (Hcf lv i j Hlv); auto; eapply Permutation_in; try (apply Permutation_sym; exact Hperm); assumption.
  - intros i c Hi Hr Hne Hc. rewrite !(same_levels_level_in _ _ _ Hs). apply Hdep; auto.
Qed.

Lemma team_cyclic_same_levels k (sch : rsched) : 1 <= k -> same_levels sch (team_cyclic k sch).
Proof.
  intro Hk. unfold same_levels, team_cyclic. induction sch as [|lv sch IH]; simpl; constructor; auto.
  apply Permutation_sym. apply regroup_flat_perm. exact Hk.
Qed.

Theorem team_cyclic_valid rds n f k (sch : rsched) : 1 <= k ->
  sched_valid rds n f sch -> sched_valid rds n f (team_cyclic k sch).
Proof. intros Hk Hv. eapply sched_valid_same_levels; [apply team_cyclic_same_levels; exact Hk|exact Hv]. Qed.

(* ================================================================================ *)
(* 5. the execution since 9f8f0d9: for EVERY team size k >= 1 (smaller, equal or larger than
      the nt of the set-up) and every interleaving the result is the serial sweep    *)
Section CyclicSound.
Variable V : Type.
Variable d : V.
Variable stp : nat -> step V.
Variable rds : nat -> list nat.
Hypothesis Hresp : forall i, respects V d (stp i).
Hypothesis Hwr : forall i, wr (stp i) = i.
Hypothesis Hreads : forall i c, In c (reads (stp i)) -> c = i \/ In c (rds i).

Theorem team_cyclic_sound n f sch k : 1 <= k -> sched_valid rds n f sch ->
  forall l, InterleaveLevels (team_cyclic k (map (map (map stp)) sch)) l ->
  forall st, exec l st = exec (map stp (sweep_order f n)) st.
Proof.
  intros Hk Hv l Hil st. rewrite <- team_cyclic_map in Hil.
  apply (sched_valid_sound V d stp rds Hresp Hwr Hreads n f (team_cyclic k sch)); auto.
  apply team_cyclic_valid; auto.
Qed.
End CyclicSound.

(* ================================================================================ *)
(* 6. HISTORICAL: the code before 9f8f0d9, executed by a team of k: deterministic (the remaining
      tasks of a level are still pairwise independent), rows of the missing threads
      are never executed: their cells keep the input value                           *)
Section TruncSem.
Variable V : Type.
Variable d : V.
Local Notation respects := (respects V d).

Lemma nth_firstn_sub {X} k (ts : list (list X)) i a : In a (nth i (firstn k ts) []) -> In a (nth i ts []).
Proof.
  revert k i. induction ts as [|t ts IH]; intros k i H.
  - rewrite firstn_nil in H. exact H.
  - destruct k as [|k]; simpl in H; [destruct i; destruct H|].
    destruct i as [|i]; simpl; [exact H|]. eapply IH; eauto.
Qed.

Lemma cross_indep_firstn k (ts : list (list (step V))) : cross_indep ts -> cross_indep (firstn k ts).
Proof. intros H i j a b Hij Ha Hb. apply (H i j); auto; eapply nth_firstn_sub; eauto. Qed.

Lemma Forall_firstn {X} (P : X -> Prop) k (l : list X) : Forall P l -> Forall P (firstn k l).
Proof. revert k. induction l as [|a l IH]; intros [|k] H; simpl; auto. inversion H; subst. constructor; auto. Qed.

Theorem team_trunc_deterministic k (region : list (list (list (step V)))) l :
  Forall (fun ts => Forall (Forall respects) ts) region -> Forall cross_indep region ->
  InterleaveLevels (team_trunc k region) l ->
  forall st, exec l st = exec (seq_of_levels (team_trunc k region)) st.
Proof.
  intros Hr Hc Hil st. apply (bernstein_levels V d _ _ Hil).
  - unfold team_trunc. rewrite Forall_forall in *. intros ts Hts. apply in_map_iff in Hts.
    destruct Hts as (ts0 & <- & H0). apply Forall_firstn. apply Hr. exact H0.
  - unfold team_trunc. rewrite Forall_forall in *. intros ts Hts. apply in_map_iff in Hts.
    destruct Hts as (ts0 & <- & H0). apply cross_indep_firstn. apply Hc. exact H0.
Qed.

(* a cell no executed step writes keeps its value *)
Lemma exec_untouched (l : list (step V)) c : (forall s, In s l -> wr s <> c) ->
  forall st, rd V d (exec l st) c = rd V d st c.
Proof.
  induction l as [|s l IH]; intros H st; [reflexivity|].
  change (exec (s :: l) st) with (exec l (exec1 s st)).
  rewrite IH by (intros; apply H; right; auto).
  unfold exec1. apply rd_upd_other. intro E. apply (H s); [left; reflexivity|auto].
Qed.

Lemma Interleave_In (ts : list (list (step V))) l : Interleave ts l -> forall s, In s l -> In s (concat ts).
Proof.
  induction 1 as [ts Hn|ts1 s0 t ts2 l Hil IH]; intros s Hs; [destruct Hs|].
  rewrite concat_app. simpl. destruct Hs as [<-|Hs].
  - apply in_or_app. right. left. reflexivity.
  - specialize (IH s Hs). rewrite concat_app in IH. simpl in IH.
    apply in_app_or in IH. apply in_or_app. destruct IH as [IH|IH]; [left; auto|right].
    right. exact IH.
Qed.

Lemma InterleaveLevels_In (lv : list (list (list (step V)))) l : InterleaveLevels lv l ->
  forall s, In s l -> In s (seq_of_levels lv).
Proof.
  induction 1 as [|ts l rest lr Hil Hrest IH]; intros s Hs; [destruct Hs|].
  unfold seq_of_levels. simpl. apply in_app_or in Hs. apply in_or_app. destruct Hs as [Hs|Hs].
  - left. eapply Interleave_In; eauto.
  - right. apply IH. exact Hs.
Qed.
End TruncSem.

Theorem team_trunc_skips (V : Type) (d : V) (stp : nat -> step V) (k : nat) (sch : rsched) i :
  (forall j, wr (stp j) = j) -> ~ In i (flat_sched (team_trunc k sch)) ->
  forall l, InterleaveLevels (team_trunc k (map (map (map stp)) sch)) l ->
  forall st, rd V d (exec l st) i = rd V d st i.
Proof.
  intros Hwr Hni l Hil st. apply exec_untouched. intros s Hs.
  apply (InterleaveLevels_In V _ _ Hil) in Hs. rewrite <- team_trunc_map in Hs.
  rewrite (seq_of_levels_map V stp) in Hs. apply in_map_iff in Hs. destruct Hs as (j & <- & Hj).
  rewrite Hwr. intro; subst. contradiction.
Qed.

(* ================================================================================ *)
(* 7. instances                                                                      *)
Section Instances.
Context {S : Scalar}.
Local Notation vec := (vec S).
Local Notation crs := (crs S).

(* full team = the semantics the existing theorems are about *)
Theorem sptr_team_trunc_full lower (A : crs) (D : vec) nt :
  team_trunc nt (sptr_par_levels lower A D nt) = sptr_par_levels lower A D nt.
Proof.
  apply team_trunc_full. intros lv Hlv. unfold sptr_par_levels in Hlv.
  apply in_map_iff in Hlv. destruct Hlv as (r & <- & Hr). rewrite map_length.
  unfold sptr_schedule in Hr. rewrite (schedule_of_levels_width _ _ _ Hr). lia.
Qed.
Theorem gs_team_trunc_full f (A : crs) nt rhs :
  team_trunc nt (gs_par_levels f A nt rhs) = gs_par_levels f A nt rhs.
Proof.
  apply team_trunc_full. intros lv Hlv. unfold gs_par_levels in Hlv.
  apply in_map_iff in Hlv. destruct Hlv as (r & <- & Hr). rewrite map_length.
  unfold gs_schedule in Hr. rewrite (schedule_of_levels_width _ _ _ Hr). lia.
Qed.
Theorem sptr_team_cyclic_full lower (A : crs) (D : vec) nt :
  team_cyclic nt (sptr_par_levels lower A D nt) = sptr_par_levels lower A D nt.
Proof.
  apply team_cyclic_full. intros lv Hlv. unfold sptr_par_levels in Hlv.
  apply in_map_iff in Hlv. destruct Hlv as (r & <- & Hr). rewrite map_length.
  unfold sptr_schedule in Hr. apply (schedule_of_levels_width _ _ _ Hr).
Qed.
Theorem gs_team_cyclic_full f (A : crs) nt rhs :
  team_cyclic nt (gs_par_levels f A nt rhs) = gs_par_levels f A nt rhs.
Proof.
  apply team_cyclic_full. intros lv Hlv. unfold gs_par_levels in Hlv.
  apply in_map_iff in Hlv. destruct Hlv as (r & <- & Hr). rewrite map_length.
  unfold gs_schedule in Hr. apply (schedule_of_levels_width _ _ _ Hr).
Qed.

(* the execution since 9f8f0d9, any set-up count nt >= 1, any team k >= 1 *)
Theorem sptr_solve_cyclic_any_team lower (A : crs) (D : vec) nt k l (x : vec) :
  1 <= nt -> 1 <= k -> strict_tri lower A ->
  InterleaveLevels (team_cyclic k (sptr_par_levels lower A D nt)) l ->
  exec l x = exec (sptr_serial_steps lower A D) x.
Proof.
  intros Hnt Hk Hst Hil. unfold sptr_serial_steps.
  exact (team_cyclic_sound S s0 (sptr_step lower A D) (cols_of A) (sptr_step_respects lower A D) (fun i => eq_refl)
           (fun i c H => match H with or_introl e => or_introl (eq_sym e) | or_intror h => or_intror h end)
           (nrows A) lower (sptr_schedule lower A nt) k Hk (sptr_schedule_valid lower A nt Hnt Hst) l Hil x).
Qed.

Theorem gs_sweep_cyclic_any_team f (A : crs) nt k rhs l (x : vec) :
  1 <= nt -> 1 <= k ->
  InterleaveLevels (team_cyclic k (gs_par_levels f A nt rhs)) l ->
  exec l x = gs_sweep A rhs x f.
Proof.
  intros Hnt Hk Hil. rewrite <- gs_serial_steps_sweep. unfold gs_serial_steps.
  exact (team_cyclic_sound S s0 (gs_step A rhs) (gs_reads A) (gs_step_respects A rhs) (fun i => eq_refl)
           (fun i c H => or_intror H) (nrows A) f (gs_schedule f A nt) k Hk (gs_schedule_valid f A nt Hnt) l Hil x).
Qed.

(* HISTORICAL: the code before 9f8f0d9 under a reduced team is deterministic: the in-order run is THE result *)
Theorem sptr_team_trunc_deterministic lower (A : crs) (D : vec) nt k l (x : vec) :
  1 <= nt -> strict_tri lower A ->
  InterleaveLevels (team_trunc k (sptr_par_levels lower A D nt)) l ->
  exec l x = sptr_solve_team_trunc k lower A D nt x.
Proof.
  intros Hnt Hst Hil. unfold sptr_solve_team_trunc.
  apply (team_trunc_deterministic S s0 k _ l); auto.
  - unfold sptr_par_levels. rewrite Forall_forall. intros ts Hts. apply in_map_iff in Hts. destruct Hts as (lv & <- & _).
    rewrite Forall_forall. intros t Ht. apply in_map_iff in Ht. destruct Ht as (r & <- & _).
    rewrite Forall_forall. intros s Hs. apply in_map_iff in Hs. destruct Hs as (i & <- & _). apply sptr_step_respects.
  - rewrite Forall_forall. intros ts Hts. eapply sptr_levels_cross_indep; eauto.
Qed.

Theorem gs_team_trunc_deterministic f (A : crs) nt k rhs l (x : vec) :
  1 <= nt ->
  InterleaveLevels (team_trunc k (gs_par_levels f A nt rhs)) l ->
  exec l x = gs_par_sweep_team_trunc k f A nt rhs x.
Proof.
  intros Hnt Hil. unfold gs_par_sweep_team_trunc.
  apply (team_trunc_deterministic S s0 k _ l); auto.
  - unfold gs_par_levels. rewrite Forall_forall. intros ts Hts. apply in_map_iff in Hts. destruct Hts as (lv & <- & _).
    rewrite Forall_forall. intros t Ht. apply in_map_iff in Ht. destruct Ht as (r & <- & _).
    rewrite Forall_forall. intros s Hs. apply in_map_iff in Hs. destruct Hs as (i & <- & _). apply gs_step_respects.
  - rewrite Forall_forall. intros ts Hts. eapply gs_levels_cross_indep; eauto.
Qed.
End Instances.

(* (ring) the level-scheduled ILU solve (since 9f8f0d9) = serial_solve for every team size *)
Section CyclicRing.
Variable S : Scalar.
Hypothesis Srt : Sring S.

Theorem ilu_parallel_solve_cyclic_any_team (L U : crs S) (D x : vec S) nt k1 k2 l1 l2 :
  1 <= nt -> 1 <= k1 -> 1 <= k2 -> strict_tri true L -> strict_tri false U ->
  length x = nrows L -> nrows U = nrows L ->
  InterleaveLevels (team_cyclic k1 (sptr_par_levels true L D nt)) l1 ->
  InterleaveLevels (team_cyclic k2 (sptr_par_levels false U D nt)) l2 ->
  exec l2 (exec l1 x) = ilu_serial_solve L U D x.
Proof.
  intros Hnt Hk1 Hk2 HL HU Hlen Hn H1 H2. unfold ilu_serial_solve.
  rewrite (sptr_solve_cyclic_any_team false U D nt k2 l2) by auto.
  rewrite (sptr_solve_cyclic_any_team true L D nt k1 l1) by auto.
  rewrite (sptr_serial_steps_lower S Srt L D x) by auto.
  apply (sptr_serial_steps_upper S Srt); auto.
  rewrite <- (sptr_serial_steps_lower S Srt L D x) by auto. rewrite exec_length. lia.
Qed.
End CyclicRing.

(* ================================================================================ *)
(* 8. HISTORICAL refutation: the code before 9f8f0d9, team smaller than the set-up count *)
From Coq Require Import QArith Qcanon.
From Amgcl Require Import QcInst.
Local Close Scope Qc_scope.
Local Close Scope Q_scope.
Local Open Scope nat_scope.

(* L = strictly lower bidiagonal-free: rows 1..3 read x[0]; 4 rows in 2 levels:
   level 0 = {0}, level 1 = {1,2,3}; at nt = 4 level 1 is split 1/1/1/0, a team of 2
   executes rows 0,1,2 and skips row 3. *)
Definition team_L : crs QcS :=
  mkCrs 4 [[]; [(0, qc 1 1)]; [(0, qc 1 1)]; [(0, qc 1 1)]]%nat.
Definition team_D : vec QcS := [qc 1 1; qc 1 1; qc 1 1; qc 1 1].
Definition team_x : vec QcS := [qc 1 1; qc 2 1; qc 3 1; qc 4 1].

Lemma team_L_strict : strict_tri true team_L.
Proof. apply strict_trib_sound. vm_compute. reflexivity. Qed.

Theorem sptr_reduced_team_refuted :
  exists (A : crs QcS) (D x : vec QcS) (nt k : nat),
    strict_tri true A /\ 1 <= k /\ k < nt /\
    sptr_sched_ok true A (sptr_schedule true A nt) = true /\
    sched_is_perm (nrows A) (team_trunc k (sptr_schedule true A nt)) = false /\
    forall l, InterleaveLevels (team_trunc k (sptr_par_levels true A D nt)) l ->
              exec l x <> exec (sptr_serial_steps true A D) x.
Proof.
  exists team_L, team_D, team_x, 4, 2.
  split; [exact team_L_strict|]. split; [lia|]. split; [lia|].
  split; [vm_compute; reflexivity|]. split; [vm_compute; reflexivity|].
  intros l Hil E.
  assert (Hk : rd QcS s0 (exec l team_x) 3 = rd QcS s0 team_x 3).
  { unfold sptr_par_levels in Hil.
    apply (team_trunc_skips QcS s0 (sptr_step true team_L team_D) 2 (sptr_schedule true team_L 4) 3); auto.
    vm_compute. intuition discriminate. }
  rewrite E in Hk. revert Hk. vm_compute. intro Hk. discriminate.
Qed.

(* Gauss-Seidel: diagonal matrix diag(2,2,2,2), rhs = 2: one level of 4 rows, 4 threads one row
   each; a team of 2 leaves x[2], x[3] at their input value 0 where the serial sweep gives 1 *)
Definition team_A : crs QcS :=
  mkCrs 4 [[(0, qc 2 1)]; [(1, qc 2 1)]; [(2, qc 2 1)]; [(3, qc 2 1)]]%nat.
Definition team_f : vec QcS := [qc 2 1; qc 2 1; qc 2 1; qc 2 1].
Definition team_x0 : vec QcS := [qc 0 1; qc 0 1; qc 0 1; qc 0 1].

Theorem gs_reduced_team_refuted :
  exists (A : crs QcS) (rhs x : vec QcS) (nt k : nat),
    1 <= k /\ k < nt /\
    gs_sched_ok true A (gs_schedule true A nt) = true /\
    sched_is_perm (nrows A) (team_trunc k (gs_schedule true A nt)) = false /\
    forall l, InterleaveLevels (team_trunc k (gs_par_levels true A nt rhs)) l ->
              exec l x <> gs_sweep A rhs x true.
Proof.
  exists team_A, team_f, team_x0, 4, 2.
  split; [lia|]. split; [lia|].
  split; [vm_compute; reflexivity|]. split; [vm_compute; reflexivity|].
  intros l Hil E.
  assert (Hk : rd QcS s0 (exec l team_x0) 3 = rd QcS s0 team_x0 3).
  { unfold gs_par_levels in Hil.
    apply (team_trunc_skips QcS s0 (gs_step team_A team_f) 2 (gs_schedule true team_A 4) 3); auto.
    vm_compute. intuition discriminate. }
  rewrite E in Hk. revert Hk. vm_compute. intro Hk. discriminate.
Qed.

(* the same inputs under the execution since 9f8f0d9: every team size, every interleaving *)
Example team_witnesses_repaired k l1 l2 : 1 <= k ->
  InterleaveLevels (team_cyclic k (sptr_par_levels true team_L team_D 4)) l1 ->
  InterleaveLevels (team_cyclic k (gs_par_levels true team_A 4 team_f)) l2 ->
  exec l1 team_x = exec (sptr_serial_steps true team_L team_D) team_x /\
  exec l2 team_x0 = gs_sweep team_A team_f team_x0 true.
Proof.
  intros Hk H1 H2. split.
  - apply (sptr_solve_cyclic_any_team true team_L team_D 4 k); auto. exact team_L_strict.
  - apply (gs_sweep_cyclic_any_team true team_A 4 k); auto.
Qed.

Example team_cyclic_nontrivial :
  team_cyclic 2 (sptr_schedule true team_L 4) = [[[0]; []]; [[1; 3]; [2]]]%nat /\
  team_trunc 2 (sptr_schedule true team_L 4) = [[[0]; []]; [[1]; [2]]]%nat /\
  team_cyclic 3 (gs_schedule true team_A 5) = [[[0; 3]; [1]; [2]]]%nat /\
  stride_idx 3 8 1 = [1; 4; 7]%nat.
Proof. vm_compute. repeat split; reflexivity. Qed.
