(* Properties_C10.v -- C10: outputs are a function of the inputs only; no memory errors on
   valid input.  Statements only; proofs live in the imported *Proofs.v files.

   A3  ownership of the crs arrays (own_data)  : Own.v / OwnProofs.v       (C10_own_...)
   A1  junk independence of the modelled kernels: JunkProofs.v and the proof files of the
       groups that own the kernels                                           (C10_junk_...)
   A2  bounds-checked re-statement of spmv / residual / CRS construction / transpose over
       flat arrays: LowLevel.v, LowLevelProofs.v, LowLevelT.v, LowLevelTProofs.v (C10_ll_...)
   "any S" = for every Scalar record, IEEE floats with NaN payloads included. *)
From Coq Require Import List.
From Amgcl Require Import Scalar QcInst Vec Crs Kernels KernelsProofs MatOps MatOpsProofs Relax.
From Amgcl Require Import Own OwnProofs Junk JunkProofs LowLevel LowLevelProofs LowLevelT LowLevelTProofs.
From Amgcl Require Import Aggregates Coarsen CoarsenProofs Direct DirectProofs Krylov KrylovProofs
                          Cheby ChebyProofs Inverse InverseProofs Amg AmgProofs.
Import ListNotations.
Local Open Scope S_scope.

(* ================================================================== A3: crs::own_data *)
(* the invariant: every live library block is held by exactly one object and that object has
   own_data = true; objects with own_data = false hold user memory or nothing; no double
   free and no free of user memory has happened *)
Theorem C10_own_init_inv : Inv init.
Proof. exact Inv_init. Qed.
Print Assumptions C10_own_init_inv.

Theorem C10_own_step_preserves_inv (w : world) (o : op) : Inv w -> Inv (step w o).
Proof. exact (step_preserves_Inv w o). Qed.
Print Assumptions C10_own_step_preserves_inv.

Theorem C10_own_reachable_inv (ops : list op) : Inv (run ops).
Proof. exact (reachable_Inv ops). Qed.
Print Assumptions C10_own_reachable_inv.

(* after every sequence of constructions, copies, moves, assignments and destructions, once
   the remaining objects are destroyed: no library block is left (no leak), none was freed
   twice, no user block was freed, no object is left *)
Theorem C10_own_no_leak_no_bad_free (ops : list op) :
  let w := destroy_all (run ops) in
  heap w = [] /\ leaks w = 0 /\ dfree w = 0 /\ ufree w = 0 /\ (forall k, find k w = None).
Proof. exact (no_leak_no_bad_free ops). Qed.
Print Assumptions C10_own_no_leak_no_bad_free.

(* ... and at every intermediate moment *)
Theorem C10_own_reachable_no_error (ops : list op) : dfree (run ops) = 0 /\ ufree (run ops) = 0.
Proof. exact (reachable_no_error ops). Qed.
Print Assumptions C10_own_reachable_no_error.

Theorem C10_own_view_borrows_only (ops : list op) k o :
  find k (run ops) = Some o -> own o = false -> forall b, arr o <> Some (Lib b).
Proof. exact (reachable_view_borrows_only ops k o). Qed.
Print Assumptions C10_own_view_borrows_only.

Theorem C10_own_unique_owner (ops : list op) b :
  In b (heap (run ops)) ->
  exists k o, find k (run ops) = Some o /\ arr o = Some (Lib b) /\ own o = true /\
    forall k' o', find k' (run ops) = Some o' -> arr o' = Some (Lib b) -> k' = k.
Proof. exact (reachable_unique_holder ops b). Qed.
Print Assumptions C10_own_unique_owner.

(* ops on objects that do not exist (never created / already destroyed), and constructions
   into a live id, are no-ops -- in both the current and the historical step function *)
Theorem C10_own_absent_target_noop fixed w k j :
  find k w = None ->
  step_gen fixed w (CopyAssign k j) = w /\ step_gen fixed w (MoveAssign k j) = w /\
  step_gen fixed w (Destroy k) = w.
Proof. exact (absent_target_noop fixed w k j). Qed.
Print Assumptions C10_own_absent_target_noop.

Theorem C10_own_absent_source_noop fixed w k j :
  find j w = None ->
  step_gen fixed w (CopyCtor k j) = w /\ step_gen fixed w (MoveCtor k j) = w /\
  step_gen fixed w (CopyAssign k j) = w /\ step_gen fixed w (MoveAssign k j) = w.
Proof. exact (absent_source_noop fixed w k j). Qed.
Print Assumptions C10_own_absent_source_noop.

Theorem C10_own_live_target_ctor_noop fixed w k j u o :
  find k w = Some o ->
  step_gen fixed w (NewEmpty k) = w /\ step_gen fixed w (NewOwn k) = w /\
  step_gen fixed w (NewView k u) = w /\
  step_gen fixed w (CopyCtor k j) = w /\ step_gen fixed w (MoveCtor k j) = w.
Proof. exact (live_target_ctor_noop fixed w k j u o). Qed.
Print Assumptions C10_own_live_target_ctor_noop.

(* HISTORICAL (before /repo b0b02bf, finding fixed): operator=(const crs&) left own_data
   untouched; copy-assigning into a zero-copy view leaked the three new arrays.  Witness:
   [NewView 0 u; NewOwn 1; CopyAssign 0 1; Destroy 0; Destroy 1] *)
Theorem C10_own_copy_assign_old_leaks_refuted :
  exists ops, leaks (destroy_all_gen false (run_gen false ops)) <> 0 /\
              dfree (destroy_all_gen false (run_gen false ops)) = 0 /\
              ufree (destroy_all_gen false (run_gen false ops)) = 0.
Proof. exact copy_assign_old_leaks_refuted. Qed.
Print Assumptions C10_own_copy_assign_old_leaks_refuted.

(* ================================================================== A1: junk independence *)
(* --- diagonal(A, invert) into uninitialised memory (any S); guard: every row has a diagonal *)
Theorem C10_junk_diagonal (S : Scalar) (A : crs S) invert (junk1 junk2 : vec S) :
  has_diag A = true -> diagonal A invert junk1 = diagonal A invert junk2.
Proof. exact (diagonal_junk_independent A invert junk1 junk2). Qed.
Print Assumptions C10_junk_diagonal.

(* without the guard it is false (documented precondition, not a finding) *)
Theorem C10_junk_diagonal_without_guard_refuted :
  has_diag nodiag_A = false /\
  exists inv j1 j2, diagonal nodiag_A inv j1 <> diagonal nodiag_A inv j2.
Proof. exact diagonal_junk_dependent_refuted. Qed.
Print Assumptions C10_junk_diagonal_without_guard_refuted.

Theorem C10_junk_jacobi_setup (S : Scalar) (A : crs S) (j1 j2 : vec S) :
  has_diag A = true -> jacobi_setup A j1 = jacobi_setup A j2.
Proof. exact (jacobi_setup_junk_independent A j1 j2). Qed.
Print Assumptions C10_junk_jacobi_setup.

Theorem C10_junk_spai0_setup (S : Scalar) (A B : crs S) : rows A = rows B -> spai0_setup A = spai0_setup B.
Proof. exact (spai0_setup_function_of_rows A B). Qed.
Print Assumptions C10_junk_spai0_setup.

Theorem C10_junk_jacobi_sweep_tmp (S : Scalar) (w : S) (dia : vec S) (A : crs S) (rhs x t1 t2 : vec S) :
  length rhs = nrows A -> length t1 = nrows A -> length t2 = nrows A ->
  jacobi_sweep w dia A rhs x t1 = jacobi_sweep w dia A rhs x t2.
Proof. exact (jacobi_sweep_tmp_independent w dia A rhs x t1 t2). Qed.
Print Assumptions C10_junk_jacobi_sweep_tmp.

Theorem C10_junk_spai0_sweep_tmp (S : Scalar) (M : vec S) (A : crs S) (rhs x t1 t2 : vec S) :
  length rhs = nrows A -> length t1 = nrows A -> length t2 = nrows A ->
  spai0_sweep M A rhs x t1 = spai0_sweep M A rhs x t2.
Proof. exact (spai0_sweep_tmp_independent M A rhs x t1 t2). Qed.
Print Assumptions C10_junk_spai0_sweep_tmp.

Theorem C10_junk_jacobi_apply_x (S : Scalar) (dia rhs x1 x2 : vec S) :
  is_zero (@s0 S) = true -> length rhs = length dia -> length x1 = length dia -> length x2 = length dia ->
  jacobi_apply dia rhs x1 = jacobi_apply dia rhs x2.
Proof. exact (jacobi_apply_x_independent dia rhs x1 x2). Qed.
Print Assumptions C10_junk_jacobi_apply_x.

Theorem C10_junk_spai0_apply_x (S : Scalar) (M rhs x1 x2 : vec S) :
  is_zero (@s0 S) = true -> length rhs = length M -> length x1 = length M -> length x2 = length M ->
  spai0_apply M rhs x1 = spai0_apply M rhs x2.
Proof. exact (spai0_apply_x_independent M rhs x1 x2). Qed.
Print Assumptions C10_junk_spai0_apply_x.

(* --- Ruge-Stuben (CoarsenProofs.v): after /repo 7bd138f connect() writes every S.val cell *)
Theorem C10_junk_rs_connect (S : Scalar) (eps eps_strong : S) (A : crs S) (j1 j2 : flags) :
  rs_connect eps eps_strong A j1 = rs_connect eps eps_strong A j2.
Proof. exact (rs_connect_junk_independent eps eps_strong A j1 j2). Qed.
Print Assumptions C10_junk_rs_connect.

Theorem C10_junk_rs_transfer (S : Scalar) (eps_strong eps_trunc : S) do_trunc (A : crs S) (j1 j2 : flags) :
  rs_transfer eps_strong eps_trunc do_trunc A j1 = rs_transfer eps_strong eps_trunc do_trunc A j2.
Proof. exact (rs_transfer_junk_independent eps_strong eps_trunc do_trunc A j1 j2). Qed.
Print Assumptions C10_junk_rs_transfer.

(* --- skyline LU (DirectProofs.v): the scratch vector y that survives between solves *)
Theorem C10_junk_skyline_forward (S : Scalar) (f : skyline S) rhs (y y' : vec S) :
  profile_wf (sk_n f) (sk_ptr f) -> length y = sk_n f -> length y' = sk_n f ->
  sky_forward f rhs y = sky_forward f rhs y'.
Proof. exact (sky_forward_junk_independent f rhs y y'). Qed.
Print Assumptions C10_junk_skyline_forward.

Theorem C10_junk_skyline_solve (S : Scalar) (f : skyline S) rhs x (y y' : vec S) :
  profile_wf (sk_n f) (sk_ptr f) -> length y = sk_n f -> length y' = sk_n f ->
  sky_solve f rhs x y = sky_solve f rhs x y'.
Proof. exact (sky_solve_junk_independent f rhs x y y'). Qed.
Print Assumptions C10_junk_skyline_solve.

(* --- dense inverse (InverseProofs.v): the n*n work array t *)
Theorem C10_junk_dense_inverse (S : Scalar) n (A t t' : vec S) :
  length t = (n * n)%nat -> length t' = (n * n)%nat -> inverse n A t = inverse n A t'.
Proof. exact (inverse_junk_independent n A t t'). Qed.
Print Assumptions C10_junk_dense_inverse.

(* --- Krylov workspaces (KrylovProofs.v): the result (iterations, residual, x) of a solve
   does not depend on what a previous solve left in the work vectors *)
Theorem C10_junk_cg (S : Scalar) (A P : vec S -> vec S) prm (f x0 : vec S) (j1 j2 : cg_ws) :
  fst (cg A P prm f x0 j1) = fst (cg A P prm f x0 j2).
Proof. exact (cg_junk_independent A P prm f x0 j1 j2). Qed.
Print Assumptions C10_junk_cg.

Theorem C10_junk_richardson (S : Scalar) (A P : vec S -> vec S) prm (f x0 : vec S) (j1 j2 : ri_ws) :
  fst (richardson A P prm f x0 j1) = fst (richardson A P prm f x0 j2).
Proof. exact (richardson_junk_independent A P prm f x0 j1 j2). Qed.
Print Assumptions C10_junk_richardson.

Theorem C10_junk_bicgstab (S : Scalar) (Hz : is_zero (@s0 S) = true)
  (A P : vec S -> vec S) prm (f x0 : vec S) (j1 j2 : bs_ws) :
  fst (bicgstab A P prm f x0 j1) = fst (bicgstab A P prm f x0 j2).
Proof. exact (bicgstab_junk_independent Hz A P prm f x0 j1 j2). Qed.
Print Assumptions C10_junk_bicgstab.

(* --- Chebyshev (ChebyProofs.v): work vectors p, r (commutative ring) *)
Theorem C10_junk_chebyshev_sweep (S : Scalar) (Srt : Sring S) (Seqb : seqb_spec S)
  (c d : S) (M : option (list S)) degree (A : crs S) (b x p r p' r' : vec S) :
  wf A = true -> length b = nrows A -> length x = nrows A ->
  length p = nrows A -> length r = nrows A -> length p' = nrows A -> length r' = nrows A ->
  (forall m, M = Some m -> length m = nrows A) ->
  forall i, i < nrows A ->
  vget (cheby_sweep (c, d, M) degree A b x p r) i = vget (cheby_sweep (c, d, M) degree A b x p' r') i.
Proof. exact (cheby_sweep_junk_independent Srt Seqb c d M degree A b x p r p' r'). Qed.
Print Assumptions C10_junk_chebyshev_sweep.

Theorem C10_junk_chebyshev_sweep_Qc
  (c d : QcS) (M : option (list QcS)) degree (A : crs QcS) (b x p r p' r' : vec QcS) :
  wf A = true -> length b = nrows A -> length x = nrows A ->
  length p = nrows A -> length r = nrows A -> length p' = nrows A -> length r' = nrows A ->
  (forall m, M = Some m -> length m = nrows A) ->
  forall i, i < nrows A ->
  vget (cheby_sweep (c, d, M) degree A b x p r) i = vget (cheby_sweep (c, d, M) degree A b x p' r') i.
Proof. exact (C10_junk_chebyshev_sweep QcS QcS_ring QcS_eqb c d M degree A b x p r p' r'). Qed.
Print Assumptions C10_junk_chebyshev_sweep_Qc.

(* --- amg::rebuild (AmgProofs.v): the hierarchy after a rebuild is the one a fresh build
   with the same transfer operators gives, whatever matrices were installed before *)
Theorem C10_amg_rebuild_history (S : Scalar) ce dc ml (cop : crs S -> crs S -> crs S -> crs S)
  (Hc : coarse_shape cop) ts (M : crs S) (Ms : list (crs S)) (M' : crs S) :
  Forall (fun X => nrows X = nrows M) Ms -> nrows M' = nrows M ->
  amg_rebuild cop (fold_left (amg_rebuild cop) Ms (amg_init ce dc ml cop ts M)) M' =
  amg_init ce dc ml cop ts M'.
Proof. exact (amg_rebuild_history ce dc ml cop Hc ts M Ms M'). Qed.
Print Assumptions C10_amg_rebuild_history.

(* ================================================================== A2: bounds safety *)
(* on well-formed flat arrays (ptr monotone from 0, ptr[n] = |col| = |val|, columns < m,
   |x| = m, |y| = n) the checked spmv never leaves an array and is the model of Kernels.v *)
Theorem C10_ll_spmv (S : Scalar) alpha (F : fcrs S) (x : vec S) beta (y : vec S) :
  fwf F -> length x = fm F -> length y = fn F ->
  ll_spmv alpha F x beta y = Ok (spmv alpha (unflat F) x beta y).
Proof. exact (ll_spmv_ok alpha F x beta y). Qed.
Print Assumptions C10_ll_spmv.

Theorem C10_ll_spmv_no_oob (S : Scalar) alpha (F : fcrs S) (x : vec S) beta (y : vec S) :
  fwf F -> length x = fm F -> length y = fn F -> ll_spmv alpha F x beta y <> ErrOOB.
Proof. exact (ll_spmv_no_oob alpha F x beta y). Qed.
Print Assumptions C10_ll_spmv_no_oob.

Theorem C10_ll_residual (S : Scalar) (f : vec S) (F : fcrs S) (x r : vec S) :
  fwf F -> length x = fm F -> length f = fn F -> length r = fn F ->
  ll_residual f F x r = Ok (residual f (unflat F) x r).
Proof. exact (ll_residual_ok f F x r). Qed.
Print Assumptions C10_ll_residual.

Theorem C10_ll_residual_no_oob (S : Scalar) (f : vec S) (F : fcrs S) (x r : vec S) :
  fwf F -> length x = fm F -> length f = fn F -> length r = fn F -> ll_residual f F x r <> ErrOOB.
Proof. exact (ll_residual_no_oob f F x r). Qed.
Print Assumptions C10_ll_residual_no_oob.

(* the list-of-rows view of well-formed arrays satisfies Crs.wf: the C07 formulas apply *)
Theorem C10_ll_unflat_wf (S : Scalar) (F : fcrs S) :
  fwf F -> wf (unflat F) = true /\ nrows (unflat F) = fn F /\ ncols (unflat F) = fm F.
Proof. exact (unflat_wf F). Qed.
Print Assumptions C10_ll_unflat_wf.

(* CRS construction (crs(n, m, ptr, col, val), copy constructor, copy assignment): the arrays
   obtained from new T[..] are completely written before they are read -- the result is the
   source, whatever the fresh memory contained, and no access leaves an array *)
Theorem C10_ll_crs_copy (S : Scalar) n (pr cr : list nat) (vr : vec S) (jp jc : list nat) (jv : vec S) :
  copy_wf n pr cr vr jp jc jv -> ll_crs_copy n pr cr vr jp jc jv = Ok (pr, (cr, vr)).
Proof. exact (ll_crs_copy_ok n pr cr vr jp jc jv). Qed.
Print Assumptions C10_ll_crs_copy.

Theorem C10_ll_crs_copy_junk_independent (S : Scalar) n (pr cr : list nat) (vr : vec S)
  (jp jc jp' jc' : list nat) (jv jv' : vec S) :
  copy_wf n pr cr vr jp jc jv -> copy_wf n pr cr vr jp' jc' jv' ->
  ll_crs_copy n pr cr vr jp jc jv = ll_crs_copy n pr cr vr jp' jc' jv'.
Proof. exact (ll_crs_copy_junk_independent n pr cr vr jp jc jp' jc' jv jv'). Qed.
Print Assumptions C10_ll_crs_copy_junk_independent.

Theorem C10_ll_crs_copy_no_oob (S : Scalar) n (pr cr : list nat) (vr : vec S) (jp jc : list nat) (jv : vec S) :
  copy_wf n pr cr vr jp jc jv -> ll_crs_copy n pr cr vr jp jc jv <> ErrOOB.
Proof. exact (ll_crs_copy_no_oob n pr cr vr jp jc jv). Qed.
Print Assumptions C10_ll_crs_copy_no_oob.

(* transpose (stable counting sort into zero-filled arrays, LowLevelT.v): on well-formed input
   no access leaves an array, the result is a well-formed CRS matrix, and it is MatOps.transpose *)
Theorem C10_ll_transpose (S : Scalar) (F : fcrs S) :
  fwf F -> exists T, ll_transpose F = Ok T /\ fwf T /\ unflat T = transpose (unflat F).
Proof. exact (ll_transpose_ok F). Qed.
Print Assumptions C10_ll_transpose.

Theorem C10_ll_transpose_no_oob (S : Scalar) (F : fcrs S) : fwf F -> ll_transpose F <> ErrOOB.
Proof. exact (ll_transpose_no_oob F). Qed.
Print Assumptions C10_ll_transpose_no_oob.

(* non-vacuity: a well-formed flat matrix with an empty row; the checks reject bad input *)
Example C10_ll_nonvacuous :
  let F := (mkF 3 2 [0; 2; 2; 3] [0; 1; 1] [qc 2 1; qc (-1) 1; qc 5 1])%nat in
  fwf F /\
  ll_spmv (qc 1 1) F [qc 1 1; qc 3 1] (qc 2 1) [qc 1 1; qc 1 1; qc 1 1] = Ok [qc 1 1; qc 2 1; qc 17 1] /\
  ll_spmv (qc 1 1) (mkF 1 1 [0; 1] [3] [qc 2 1])%nat [qc 1 1] (qc 0 1) [qc 0 1] = ErrOOB.
Proof.
  split; [|split; vm_compute; reflexivity].
  unfold fwf; cbn. repeat split; try reflexivity.
  - intros i Hi. destruct i as [|[|[|i]]]; cbn; auto with arith. inversion Hi as [|? H1]. inversion H1 as [|? H2]. inversion H2 as [|? H3]. inversion H3.
  - intros c [<-|[<-|[<-|[]]]]; auto with arith.
Qed.
