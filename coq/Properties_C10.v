(* Properties_C10.v -- placeholder header; theorems are added below as they are proved. *)
From Amgcl Require Import Scalar QcInst Vec Crs Kernels MatOps.
Theorem C10_placeholder : True. Proof. exact I. Qed.
