(* Properties_C10.v -- C10: outputs are a function of the inputs only; no memory errors on
   valid input.  Statements only; proofs live in the imported *Proofs.v files.

   A3  ownership of the crs arrays (own_data)  : Own.v / OwnProofs.v       (C10_own_...)
   A1  junk independence of the modelled kernels: JunkProofs.v and the proof files of the
       groups that own the kernels                                           (C10_junk_...)
   A2  bounds-checked re-statement of spmv / residual / CRS construction / transpose over
       flat arrays: LowLevel.v, LowLevelProofs.v, LowLevelT.v, LowLevelTProofs.v (C10_ll_...)
   A2' the same with UNWRITTEN memory cells (new T[n] without initialisation): sort_row / sort_rows,
       spgemm_saad, plain_aggregates (+ diagonal), tentative_prolongation, ilu0 constructor, skyline_lu:
       LowLevel2*.v, LowLevel2*Proofs.v                                      (C10_ll2_...)
   "any S" = for every Scalar record, IEEE floats with NaN payloads included. *)
From Coq Require Import List.
From Amgcl Require Import Scalar QcInst Vec Crs Kernels KernelsProofs MatOps MatOpsProofs Relax.
From Amgcl Require Import Own OwnProofs Junk JunkProofs LowLevel LowLevelProofs LowLevelT LowLevelTProofs.
From Amgcl Require Import Aggregates Coarsen CoarsenProofs Direct DirectProofs Krylov KrylovProofs
                          Cheby ChebyProofs Inverse InverseProofs Amg AmgProofs.
From Amgcl Require Import Tentative LowLevel2 LowLevel2Proofs LowLevel2G LowLevel2GProofs LowLevel2A LowLevel2AProofs LowLevel2I LowLevel2IProofs LowLevel2K LowLevel2KProofs.
Import ListNotations.
Local Open Scope S_scope.

(* ================================================================== A3: crs::own_data *)
(* the invariant: every live library block is held by exactly one object and that object has
   own_data = true; objects with own_data = false hold user memory or nothing; no double
   free and no free of user memory has happened *)
Theorem C10_own_init_inv : Inv init.
Proof. exact Inv_init. Qed.
Print Assumptions C10_own_init_inv.

Theorem C10_own_step_preserves_inv (w : world) (o : op) : Inv w -> Inv (step w o).
Proof. exact (step_preserves_Inv w o). Qed.
Print Assumptions C10_own_step_preserves_inv.

Theorem C10_own_reachable_inv (ops : list op) : Inv (run ops).
Proof. exact (reachable_Inv ops). Qed.
Print Assumptions C10_own_reachable_inv.

(* after every sequence of constructions, copies, moves, assignments and destructions, once
   the remaining objects are destroyed: no library block is left (no leak), none was freed
   twice, no user block was freed, no object is left *)
Theorem C10_own_no_leak_no_bad_free (ops : list op) :
  let w := destroy_all (run ops) in
  heap w = [] /\ leaks w = 0 /\ dfree w = 0 /\ ufree w = 0 /\ (forall k, find k w = None).
Proof. exact (no_leak_no_bad_free ops). Qed.
Print Assumptions C10_own_no_leak_no_bad_free.

(* ... and at every intermediate moment *)
Theorem C10_own_reachable_no_error (ops : list op) : dfree (run ops) = 0 /\ ufree (run ops) = 0.
Proof. exact (reachable_no_error ops). Qed.
Print Assumptions C10_own_reachable_no_error.

Theorem C10_own_view_borrows_only (ops : list op) k o :
  find k (run ops) = Some o -> own o = false -> forall b, arr o <> Some (Lib b).
Proof. exact (reachable_view_borrows_only ops k o). Qed.
Print Assumptions C10_own_view_borrows_only.

Theorem C10_own_unique_owner (ops : list op) b :
  In b (heap (run ops)) ->
  exists k o, find k (run ops) = Some o /\ arr o = Some (Lib b) /\ own o = true /\
    forall k' o', find k' (run ops) = Some o' -> arr o' = Some (Lib b) -> k' = k.
Proof. exact (reachable_unique_holder ops b). Qed.
Print Assumptions C10_own_unique_owner.

(* ops on objects that do not exist (never created / already destroyed), and constructions
   into a live id, are no-ops -- in both the current and the historical step function *)
Theorem C10_own_absent_target_noop fixed w k j :
  find k w = None ->
  step_gen fixed w (CopyAssign k j) = w /\ step_gen fixed w (MoveAssign k j) = w /\
  step_gen fixed w (Destroy k) = w.
Proof. exact (absent_target_noop fixed w k j). Qed.
Print Assumptions C10_own_absent_target_noop.

Theorem C10_own_absent_source_noop fixed w k j :
  find j w = None ->
  step_gen fixed w (CopyCtor k j) = w /\ step_gen fixed w (MoveCtor k j) = w /\
  step_gen fixed w (CopyAssign k j) = w /\ step_gen fixed w (MoveAssign k j) = w.
Proof. exact (absent_source_noop fixed w k j). Qed.
Print Assumptions C10_own_absent_source_noop.

Theorem C10_own_live_target_ctor_noop fixed w k j u o :
  find k w = Some o ->
  step_gen fixed w (NewEmpty k) = w /\ step_gen fixed w (NewOwn k) = w /\
  step_gen fixed w (NewView k u) = w /\
  step_gen fixed w (CopyCtor k j) = w /\ step_gen fixed w (MoveCtor k j) = w.
Proof. exact (live_target_ctor_noop fixed w k j u o). Qed.
Print Assumptions C10_own_live_target_ctor_noop.

(* HISTORICAL (before /repo b0b02bf, finding fixed): operator=(const crs&) left own_data
   untouched; copy-assigning into a zero-copy view leaked the three new arrays.  Witness:
   [NewView 0 u; NewOwn 1; CopyAssign 0 1; Destroy 0; Destroy 1] *)
Theorem C10_own_copy_assign_old_leaks_refuted :
  exists ops, leaks (destroy_all_gen false (run_gen false ops)) <> 0 /\
              dfree (destroy_all_gen false (run_gen false ops)) = 0 /\
              ufree (destroy_all_gen false (run_gen false ops)) = 0.
Proof. exact copy_assign_old_leaks_refuted. Qed.
Print Assumptions C10_own_copy_assign_old_leaks_refuted.

(* ================================================================== A1: junk independence *)
(* --- diagonal(A, invert) into uninitialised memory (any S); guard: every row has a diagonal *)
Theorem C10_junk_diagonal (S : Scalar) (A : crs S) invert (junk1 junk2 : vec S) :
  has_diag A = true -> diagonal A invert junk1 = diagonal A invert junk2.
Proof. exact (diagonal_junk_independent A invert junk1 junk2). Qed.
Print Assumptions C10_junk_diagonal.

(* without the guard it is false (documented precondition, not a finding) *)
Theorem C10_junk_diagonal_without_guard_refuted :
  has_diag nodiag_A = false /\
  exists inv j1 j2, diagonal nodiag_A inv j1 <> diagonal nodiag_A inv j2.
Proof. exact diagonal_junk_dependent_refuted. Qed.
Print Assumptions C10_junk_diagonal_without_guard_refuted.

Theorem C10_junk_jacobi_setup (S : Scalar) (A : crs S) (j1 j2 : vec S) :
  has_diag A = true -> jacobi_setup A j1 = jacobi_setup A j2.
Proof. exact (jacobi_setup_junk_independent A j1 j2). Qed.
Print Assumptions C10_junk_jacobi_setup.

Theorem C10_junk_spai0_setup (S : Scalar) (A B : crs S) : rows A = rows B -> spai0_setup A = spai0_setup B.
Proof. exact (spai0_setup_function_of_rows A B). Qed.
Print Assumptions C10_junk_spai0_setup.

Theorem C10_junk_jacobi_sweep_tmp (S : Scalar) (w : S) (dia : vec S) (A : crs S) (rhs x t1 t2 : vec S) :
  length rhs = nrows A -> length t1 = nrows A -> length t2 = nrows A ->
  jacobi_sweep w dia A rhs x t1 = jacobi_sweep w dia A rhs x t2.
Proof. exact (jacobi_sweep_tmp_independent w dia A rhs x t1 t2). Qed.
Print Assumptions C10_junk_jacobi_sweep_tmp.

Theorem C10_junk_spai0_sweep_tmp (S : Scalar) (M : vec S) (A : crs S) (rhs x t1 t2 : vec S) :
  length rhs = nrows A -> length t1 = nrows A -> length t2 = nrows A ->
  spai0_sweep M A rhs x t1 = spai0_sweep M A rhs x t2.
Proof. exact (spai0_sweep_tmp_independent M A rhs x t1 t2). Qed.
Print Assumptions C10_junk_spai0_sweep_tmp.

Theorem C10_junk_jacobi_apply_x (S : Scalar) (dia rhs x1 x2 : vec S) :
  is_zero (@s0 S) = true -> length rhs = length dia -> length x1 = length dia -> length x2 = length dia ->
  jacobi_apply dia rhs x1 = jacobi_apply dia rhs x2.
Proof. exact (jacobi_apply_x_independent dia rhs x1 x2). Qed.
Print Assumptions C10_junk_jacobi_apply_x.

Theorem C10_junk_spai0_apply_x (S : Scalar) (M rhs x1 x2 : vec S) :
  is_zero (@s0 S) = true -> length rhs = length M -> length x1 = length M -> length x2 = length M ->
  spai0_apply M rhs x1 = spai0_apply M rhs x2.
Proof. exact (spai0_apply_x_independent M rhs x1 x2). Qed.
Print Assumptions C10_junk_spai0_apply_x.

(* --- Ruge-Stuben (CoarsenProofs.v): after /repo 7bd138f connect() writes every S.val cell *)
Theorem C10_junk_rs_connect (S : Scalar) (eps eps_strong : S) (A : crs S) (j1 j2 : flags) :
  rs_connect eps eps_strong A j1 = rs_connect eps eps_strong A j2.
Proof. exact (rs_connect_junk_independent eps eps_strong A j1 j2). Qed.
Print Assumptions C10_junk_rs_connect.

Theorem C10_junk_rs_transfer (S : Scalar) (eps_strong eps_trunc : S) do_trunc (A : crs S) (j1 j2 : flags) :
  rs_transfer eps_strong eps_trunc do_trunc A j1 = rs_transfer eps_strong eps_trunc do_trunc A j2.
Proof. exact (rs_transfer_junk_independent eps_strong eps_trunc do_trunc A j1 j2). Qed.
Print Assumptions C10_junk_rs_transfer.

(* --- skyline LU (DirectProofs.v): the scratch vector y that survives between solves *)
Theorem C10_junk_skyline_forward (S : Scalar) (f : skyline S) rhs (y y' : vec S) :
  profile_wf (sk_n f) (sk_ptr f) -> length y = sk_n f -> length y' = sk_n f ->
  sky_forward f rhs y = sky_forward f rhs y'.
Proof. exact (sky_forward_junk_independent f rhs y y'). Qed.
Print Assumptions C10_junk_skyline_forward.

Theorem C10_junk_skyline_solve (S : Scalar) (f : skyline S) rhs x (y y' : vec S) :
  profile_wf (sk_n f) (sk_ptr f) -> length y = sk_n f -> length y' = sk_n f ->
  sky_solve f rhs x y = sky_solve f rhs x y'.
Proof. exact (sky_solve_junk_independent f rhs x y y'). Qed.
Print Assumptions C10_junk_skyline_solve.

(* --- dense inverse (InverseProofs.v): the n*n work array t *)
Theorem C10_junk_dense_inverse (S : Scalar) n (A t t' : vec S) :
  length t = (n * n)%nat -> length t' = (n * n)%nat -> inverse n A t = inverse n A t'.
Proof. exact (inverse_junk_independent n A t t'). Qed.
Print Assumptions C10_junk_dense_inverse.

(* --- Krylov workspaces (KrylovProofs.v): the result (iterations, residual, x) of a solve
   does not depend on what a previous solve left in the work vectors *)
Theorem C10_junk_cg (S : Scalar) (A P : vec S -> vec S) prm (f x0 : vec S) (j1 j2 : cg_ws) :
  fst (cg A P prm f x0 j1) = fst (cg A P prm f x0 j2).
Proof. exact (cg_junk_independent A P prm f x0 j1 j2). Qed.
Print Assumptions C10_junk_cg.

Theorem C10_junk_richardson (S : Scalar) (A P : vec S -> vec S) prm (f x0 : vec S) (j1 j2 : ri_ws) :
  fst (richardson A P prm f x0 j1) = fst (richardson A P prm f x0 j2).
Proof. exact (richardson_junk_independent A P prm f x0 j1 j2). Qed.
Print Assumptions C10_junk_richardson.

Theorem C10_junk_bicgstab (S : Scalar) (Hz : is_zero (@s0 S) = true)
  (A P : vec S -> vec S) prm (f x0 : vec S) (j1 j2 : bs_ws) :
  fst (bicgstab A P prm f x0 j1) = fst (bicgstab A P prm f x0 j2).
Proof. exact (bicgstab_junk_independent Hz A P prm f x0 j1 j2). Qed.
Print Assumptions C10_junk_bicgstab.

(* --- Chebyshev (ChebyProofs.v): work vectors p, r (commutative ring) *)
Theorem C10_junk_chebyshev_sweep (S : Scalar) (Srt : Sring S) (Seqb : seqb_spec S)
  (c d : S) (M : option (list S)) degree (A : crs S) (b x p r p' r' : vec S) :
  wf A = true -> length b = nrows A -> length x = nrows A ->
  length p = nrows A -> length r = nrows A -> length p' = nrows A -> length r' = nrows A ->
  (forall m, M = Some m -> length m = nrows A) ->
  forall i, i < nrows A ->
  vget (cheby_sweep (c, d, M) degree A b x p r) i = vget (cheby_sweep (c, d, M) degree A b x p' r') i.
Proof. exact (cheby_sweep_junk_independent Srt Seqb c d M degree A b x p r p' r'). Qed.
Print Assumptions C10_junk_chebyshev_sweep.

Theorem C10_junk_chebyshev_sweep_Qc
  (c d : QcS) (M : option (list QcS)) degree (A : crs QcS) (b x p r p' r' : vec QcS) :
  wf A = true -> length b = nrows A -> length x = nrows A ->
  length p = nrows A -> length r = nrows A -> length p' = nrows A -> length r' = nrows A ->
  (forall m, M = Some m -> length m = nrows A) ->
  forall i, i < nrows A ->
  vget (cheby_sweep (c, d, M) degree A b x p r) i = vget (cheby_sweep (c, d, M) degree A b x p' r') i.
Proof. exact (C10_junk_chebyshev_sweep QcS QcS_ring QcS_eqb c d M degree A b x p r p' r'). Qed.
Print Assumptions C10_junk_chebyshev_sweep_Qc.

(* --- amg::rebuild (AmgProofs.v): the hierarchy after a rebuild is the one a fresh build
   with the same transfer operators gives, whatever matrices were installed before *)
Theorem C10_amg_rebuild_history (S : Scalar) ce dc ml (cop : crs S -> crs S -> crs S -> crs S)
  (Hc : coarse_shape cop) ts (M : crs S) (Ms : list (crs S)) (M' : crs S) :
  Forall (fun X => nrows X = nrows M) Ms -> nrows M' = nrows M ->
  amg_rebuild cop (fold_left (amg_rebuild cop) Ms (amg_init ce dc ml cop ts M)) M' =
  amg_init ce dc ml cop ts M'.
Proof. exact (amg_rebuild_history ce dc ml cop Hc ts M Ms M'). Qed.
Print Assumptions C10_amg_rebuild_history.

(* ================================================================== A2: bounds safety *)
(* on well-formed flat arrays (ptr monotone from 0, ptr[n] = |col| = |val|, columns < m,
   |x| = m, |y| = n) the checked spmv never leaves an array and is the model of Kernels.v *)
Theorem C10_ll_spmv (S : Scalar) alpha (F : fcrs S) (x : vec S) beta (y : vec S) :
  fwf F -> length x = fm F -> length y = fn F ->
  ll_spmv alpha F x beta y = Ok (spmv alpha (unflat F) x beta y).
Proof. exact (ll_spmv_ok alpha F x beta y). Qed.
Print Assumptions C10_ll_spmv.

Theorem C10_ll_spmv_no_oob (S : Scalar) alpha (F : fcrs S) (x : vec S) beta (y : vec S) :
  fwf F -> length x = fm F -> length y = fn F -> ll_spmv alpha F x beta y <> ErrOOB.
Proof. exact (ll_spmv_no_oob alpha F x beta y). Qed.
Print Assumptions C10_ll_spmv_no_oob.

Theorem C10_ll_residual (S : Scalar) (f : vec S) (F : fcrs S) (x r : vec S) :
  fwf F -> length x = fm F -> length f = fn F -> length r = fn F ->
  ll_residual f F x r = Ok (residual f (unflat F) x r).
Proof. exact (ll_residual_ok f F x r). Qed.
Print Assumptions C10_ll_residual.

Theorem C10_ll_residual_no_oob (S : Scalar) (f : vec S) (F : fcrs S) (x r : vec S) :
  fwf F -> length x = fm F -> length f = fn F -> length r = fn F -> ll_residual f F x r <> ErrOOB.
Proof. exact (ll_residual_no_oob f F x r). Qed.
Print Assumptions C10_ll_residual_no_oob.

(* the list-of-rows view of well-formed arrays satisfies Crs.wf: the C07 formulas apply *)
Theorem C10_ll_unflat_wf (S : Scalar) (F : fcrs S) :
  fwf F -> wf (unflat F) = true /\ nrows (unflat F) = fn F /\ ncols (unflat F) = fm F.
Proof. exact (unflat_wf F). Qed.
Print Assumptions C10_ll_unflat_wf.

(* CRS construction (crs(n, m, ptr, col, val), copy constructor, copy assignment): the arrays
   obtained from new T[..] are completely written before they are read -- the result is the
   source, whatever the fresh memory contained, and no access leaves an array *)
Theorem C10_ll_crs_copy (S : Scalar) n (pr cr : list nat) (vr : vec S) (jp jc : list nat) (jv : vec S) :
  copy_wf n pr cr vr jp jc jv -> ll_crs_copy n pr cr vr jp jc jv = Ok (pr, (cr, vr)).
Proof. exact (ll_crs_copy_ok n pr cr vr jp jc jv). Qed.
Print Assumptions C10_ll_crs_copy.

Theorem C10_ll_crs_copy_junk_independent (S : Scalar) n (pr cr : list nat) (vr : vec S)
  (jp jc jp' jc' : list nat) (jv jv' : vec S) :
  copy_wf n pr cr vr jp jc jv -> copy_wf n pr cr vr jp' jc' jv' ->
  ll_crs_copy n pr cr vr jp jc jv = ll_crs_copy n pr cr vr jp' jc' jv'.
Proof. exact (ll_crs_copy_junk_independent n pr cr vr jp jc jp' jc' jv jv'). Qed.
Print Assumptions C10_ll_crs_copy_junk_independent.

Theorem C10_ll_crs_copy_no_oob (S : Scalar) n (pr cr : list nat) (vr : vec S) (jp jc : list nat) (jv : vec S) :
  copy_wf n pr cr vr jp jc jv -> ll_crs_copy n pr cr vr jp jc jv <> ErrOOB.
Proof. exact (ll_crs_copy_no_oob n pr cr vr jp jc jv). Qed.
Print Assumptions C10_ll_crs_copy_no_oob.

(* transpose (stable counting sort into zero-filled arrays, LowLevelT.v): on well-formed input
   no access leaves an array, the result is a well-formed CRS matrix, and it is MatOps.transpose *)
Theorem C10_ll_transpose (S : Scalar) (F : fcrs S) :
  fwf F -> exists T, ll_transpose F = Ok T /\ fwf T /\ unflat T = transpose (unflat F).
Proof. exact (ll_transpose_ok F). Qed.
Print Assumptions C10_ll_transpose.

Theorem C10_ll_transpose_no_oob (S : Scalar) (F : fcrs S) : fwf F -> ll_transpose F <> ErrOOB.
Proof. exact (ll_transpose_no_oob F). Qed.
Print Assumptions C10_ll_transpose_no_oob.

(* non-vacuity: a well-formed flat matrix with an empty row; the checks reject bad input *)
Example C10_ll_nonvacuous :
  let F := (mkF 3 2 [0; 2; 2; 3] [0; 1; 1] [qc 2 1; qc (-1) 1; qc 5 1])%nat in
  fwf F /\
  ll_spmv (qc 1 1) F [qc 1 1; qc 3 1] (qc 2 1) [qc 1 1; qc 1 1; qc 1 1] = Ok [qc 1 1; qc 2 1; qc 17 1] /\
  ll_spmv (qc 1 1) (mkF 1 1 [0; 1] [3] [qc 2 1])%nat [qc 1 1] (qc 0 1) [qc 0 1] = ErrOOB.
Proof.
  split; [|split; vm_compute; reflexivity].
  unfold fwf; cbn. repeat split; try reflexivity.
  - intros i Hi. destruct i as [|[|[|i]]]; cbn; auto with arith. inversion Hi as [|? H1]. inversion H1 as [|? H2]. inversion H2 as [|? H3]. inversion H3.
  - intros c [<-|[<-|[<-|[]]]]; auto with arith.
Qed.

(* ================================================================== A2': unwritten memory
   LowLevel2.v: arrays of cells (None = obtained from new T[n], never written); outcomes
   Done x | OutOfBounds | UninitRead | OutOfFuel; signed indices as in the C++.  Each theorem
   says: on valid input the array-level model of the C++ loops returns Done (hence stays inside
   every array, reads no unwritten cell, stays within its loop bounds) and what it leaves in the
   arrays is the flat image of the list model. *)

(* flat arrays <-> list of rows (the bridge used by all statements below) *)
Theorem C10_ll2_flat_roundtrip (S : Scalar) :
  (forall A : crs S, unflat (flat_of A) = A) /\
  (forall A : crs S, wf A = true -> fwf (flat_of A)) /\
  (forall F : fcrs S, fwf F -> flat_of (unflat F) = F).
Proof. exact flat_roundtrip. Qed.
Print Assumptions C10_ll2_flat_roundtrip.

(* detail::sort_row on the sub-array [|P|, |P| + |L|) of col / val: whatever the cells around
   the row hold (P, Q, P', Q' may be unwritten), the row is sorted in place and nothing else
   is touched; i = j - 1, i >= 0, col[i + 1] never leave the row *)
Theorem C10_ll2_sort_row (S : Scalar) (P Q : marr nat) (P' Q' : marr S) (L : row S) :
  length P = length P' ->
  ll_sort_row (length P) (length L) (P ++ filled (map fst L) ++ Q, P' ++ filled (map snd L) ++ Q')
  = Done (P ++ filled (map fst (sort_row L)) ++ Q, P' ++ filled (map snd (sort_row L)) ++ Q').
Proof. exact (ll_sort_row_spec P Q P' Q' L). Qed.
Print Assumptions C10_ll2_sort_row.

(* backend::sort_rows, every matrix (columns are never used as indices) *)
Theorem C10_ll2_sort_rows (S : Scalar) (A : crs S) :
  ll_sort_rows (nrows A) (fptr (flat_of A)) (filled (fcol (flat_of A)), filled (fval (flat_of A)))
  = Done (filled (fcol (flat_of (sort_rows A))), filled (fval (flat_of (sort_rows A)))) /\
  fptr (flat_of (sort_rows A)) = fptr (flat_of A).
Proof. exact (ll_sort_rows_ok A). Qed.
Print Assumptions C10_ll2_sort_rows.

Theorem C10_ll2_sort_rows_flat (S : Scalar) (F : fcrs S) : fwf F ->
  exists col' val',
    ll_sort_rows (fn F) (fptr F) (filled (fcol F), filled (fval F)) = Done (filled col', filled val') /\
    fwf (mkF (fn F) (fm F) (fptr F) col' val') /\
    unflat (mkF (fn F) (fm F) (fptr F) col' val') = sort_rows (unflat F).
Proof. exact (ll_sort_rows_flat F). Qed.
Print Assumptions C10_ll2_sort_rows_flat.

Theorem C10_ll2_sort_rows_safe (S : Scalar) (A : crs S) :
  let r := ll_sort_rows (nrows A) (fptr (flat_of A)) (filled (fcol (flat_of A)), filled (fval (flat_of A))) in
  r <> OutOfBounds /\ r <> UninitRead /\ r <> OutOfFuel.
Proof. exact (ll_sort_rows_safe A). Qed.
Print Assumptions C10_ll2_sort_rows_safe.

(* std::partial_sum in place (scan_row_sizes): every cell must have been written *)
Theorem C10_ll2_partial_sum (l : list nat) : ll_psum (length l) (filled l) = Done (filled (psum l)).
Proof. exact (ll_psum_ok l). Qed.
Print Assumptions C10_ll2_partial_sum.

(* backend::spgemm_saad: C.ptr after set_size and C.col / C.val after set_nonzeros are unwritten;
   the marker array holds -1 / row numbers / positions; two passes + in-place sort of each row *)
Theorem C10_ll2_spgemm_saad (S : Scalar) (A B : crs S) (sort : bool) :
  wf A = true -> wf B = true -> ncols A <= nrows B ->
  ll_spgemm (flat_of A) (flat_of B) sort = Done (minit (flat_of (spgemm_saad A B sort))).
Proof. exact (ll_spgemm_ok A B sort). Qed.
Print Assumptions C10_ll2_spgemm_saad.

Theorem C10_ll2_spgemm_saad_flat (S : Scalar) (FA FB : fcrs S) (sort : bool) :
  fwf FA -> fwf FB -> fm FA <= fn FB ->
  exists FC, ll_spgemm FA FB sort = Done (minit FC) /\ fwf FC /\
             unflat FC = spgemm_saad (unflat FA) (unflat FB) sort.
Proof. exact (ll_spgemm_flat FA FB sort). Qed.
Print Assumptions C10_ll2_spgemm_saad_flat.

Theorem C10_ll2_spgemm_saad_safe (S : Scalar) (A B : crs S) (sort : bool) :
  wf A = true -> wf B = true -> ncols A <= nrows B ->
  let r := ll_spgemm (flat_of A) (flat_of B) sort in
  r <> OutOfBounds /\ r <> UninitRead /\ r <> OutOfFuel.
Proof. exact (ll_spgemm_safe A B sort). Qed.
Print Assumptions C10_ll2_spgemm_saad_safe.

(* backend::diagonal(A) writes numa_vector(n, false): complete when every row stores its diagonal *)
Theorem C10_ll2_diagonal (S : Scalar) (A : crs S) (junk : vec S) :
  wf A = true -> ncols A <= nrows A -> has_diag A = true ->
  ll_diagonal (flat_of A) = Done (filled (diagonal A false junk)).
Proof. exact (ll_diagonal_spec A junk). Qed.
Print Assumptions C10_ll2_diagonal.

(* coarsening::plain_aggregates: dia unwritten until diagonal() fills it, id with the sentinels
   undefined = -1 / removed = -2 (signed), cnt[id[i]] a signed index; three passes + renumbering *)
Theorem C10_ll2_plain_aggregates (S : Scalar) (eps2 : S) (A : crs S) (junk : vec S) :
  wf A = true -> ncols A <= nrows A -> has_diag A = true ->
  ll_plain_aggregates eps2 (flat_of A) = agg_out (plain_aggregates eps2 A junk).
Proof. exact (ll_plain_aggregates_ok eps2 A junk). Qed.
Print Assumptions C10_ll2_plain_aggregates.

Theorem C10_ll2_plain_aggregates_safe (S : Scalar) (eps2 : S) (A : crs S) :
  wf A = true -> ncols A <= nrows A -> has_diag A = true ->
  let r := ll_plain_aggregates eps2 (flat_of A) in
  r <> OutOfBounds /\ r <> UninitRead /\ r <> OutOfFuel.
Proof. exact (ll_plain_aggregates_safe eps2 A). Qed.
Print Assumptions C10_ll2_plain_aggregates_safe.

(* ... hence the result does not depend on what the unwritten dia cells held (A1 for plain_aggregates) *)
Theorem C10_junk_plain_aggregates (S : Scalar) (eps2 : S) (A : crs S) (j1 j2 : vec S) :
  wf A = true -> ncols A <= nrows A -> has_diag A = true ->
  agg_out (plain_aggregates eps2 A j1) = agg_out (plain_aggregates eps2 A j2).
Proof. exact (ll_plain_aggregates_junk_free eps2 A j1 j2). Qed.
Print Assumptions C10_junk_plain_aggregates.

(* tentative_prolongation without null space: P.ptr / P.col / P.val unwritten, every id vector *)
Theorem C10_ll2_tentative (S : Scalar) (n naggr : nat) (aggr : list Z) : length aggr = n ->
  ll_tentative n naggr aggr = Done (minit (flat_of (tentative_prolongation (S := S) naggr aggr))).
Proof. exact (ll_tentative_ok n naggr aggr). Qed.
Print Assumptions C10_ll2_tentative.

(* relaxation::ilu0 constructor: L / U (ptr, col, val) and D unwritten, work[c] = NULL or a pointer into
   L->val / D / U->val, in-place removal of zeros; rows in any order, duplicates allowed.  The array
   model throws exactly when the list model does and otherwise leaves its L, U, D (ilu0_agrees) *)
Theorem C10_ll2_ilu0 (S : Scalar) (A : crs S) (junk : vec S) :
  wf A = true -> ncols A <= nrows A -> has_diag A = true ->
  ilu0_agrees A junk (ll_ilu0 (flat_of A)).
Proof. exact (ll_ilu0_gen A junk). Qed.
Print Assumptions C10_ll2_ilu0.

Theorem C10_ll2_ilu0_safe (S : Scalar) (A : crs S) :
  wf A = true -> ncols A <= nrows A -> has_diag A = true ->
  let r := ll_ilu0 (flat_of A) in
  r <> OutOfBounds /\ r <> UninitRead /\ r <> OutOfFuel.
Proof. exact (ll_ilu0_safe A). Qed.
Print Assumptions C10_ll2_ilu0_safe.

(* without the guard: a row with no entry c >= i leaves D[i] unwritten; the constructor returns it
   (documented precondition of ILU(0), not a finding) *)
Theorem C10_ll2_ilu0_without_diagonal_refuted (S : Scalar) (junk : vec S) :
  (exists st, ll_ilu0 (flat_of (mkCrs 1 [[]] : crs S)) = Done (EOk st) /\ idd st = [None]) /\
  Ilu.ilu0 (mkCrs 1 [[]] : crs S) junk = Ilu.Ok (mkCrs 1 [[]], mkCrs 1 [[]], [vget junk 0]).
Proof. exact (ll_ilu0_nodiag_uninit junk). Qed.
Print Assumptions C10_ll2_ilu0_without_diagonal_refuted.

(* solver::skyline_lu after the ordering (perm given, entries < n): invperm, profile heights, the
   last/tmp transform of ptr, resize, fill, factorize() (Crout) with every int subtraction in Z
   (ptr[newi+1] + newj - newi, k + 1 - ptr[k+2] + ptr[k+1], i - ptr[i+1] + k, j = n-1 .. 0); a failed
   precondition is KThrow.  The list model Direct.v computes the same with truncated subtraction: the
   theorem also shows that no C++ index is ever negative or beyond its vector *)
Theorem C10_ll2_skyline_build (S : Scalar) (A : crs S) (perm : list nat) :
  wf A = true -> ncols A <= nrows A -> 0 < nrows A -> length perm = nrows A ->
  (forall i, i < nrows A -> pget perm i < nrows A) ->
  ll_sky_build (flat_of A) perm = Done (sky_out_of (sky_build_perm A perm)).
Proof. exact (ll_sky_build_ok A perm). Qed.
Print Assumptions C10_ll2_skyline_build.

Theorem C10_ll2_skyline_build_safe (S : Scalar) (A : crs S) (perm : list nat) :
  wf A = true -> ncols A <= nrows A -> 0 < nrows A -> length perm = nrows A ->
  (forall i, i < nrows A -> pget perm i < nrows A) ->
  ll_sky_build (flat_of A) perm <> OutOfBounds /\ ll_sky_build (flat_of A) perm <> UninitRead /\
  ll_sky_build (flat_of A) perm <> OutOfFuel.
Proof. exact (ll_sky_build_safe A perm). Qed.
Print Assumptions C10_ll2_skyline_build_safe.

(* operator()(rhs, x) of the object the constructor returns: forward, backward (descending j), scatter *)
Theorem C10_ll2_skyline_solve (S : Scalar) (A : crs S) (perm : list nat) (f : skyline S) (rhs x y : vec S) :
  wf A = true -> ncols A <= nrows A -> 0 < nrows A -> length perm = nrows A ->
  (forall i, i < nrows A -> pget perm i < nrows A) ->
  sky_build_perm A perm = SkyOk f ->
  length rhs = nrows A -> length x = nrows A -> length y = nrows A ->
  ll_sky_solve (sk_n f) (filled (sk_perm f)) (zfilled (sk_ptr f)) (filled (sk_L f)) (filled (sk_U f))
               (filled (sk_D f)) rhs (filled x) (filled y)
  = Done (filled (fst (sky_solve f rhs x y)), filled (snd (sky_solve f rhs x y))).
Proof. exact (ll_sky_build_solve_ok A perm f rhs x y). Qed.
Print Assumptions C10_ll2_skyline_solve.

(* n = 0 is NOT accepted: factorize() evaluates D[0] of an empty vector (before that, cuthill_mckee
   writes perm[0]); the list model hides it behind its total accessor (reports the precondition).
   Recorded as known finding C03-empty-coarse-level-direct-solver-crash. *)
Theorem C10_ll2_skyline_empty_matrix_refuted :
  ll_sky_build (flat_of ex0) [] = OutOfBounds /\ sky_out_of (sky_build_perm ex0 []) = KThrow.
Proof. exact ll_sky_build_n0_both. Qed.
Print Assumptions C10_ll2_skyline_empty_matrix_refuted.

(* the degenerate inputs named by the property, and inputs on which the checks must (and do) bite *)
Definition q10 (z : Z) : QcS := qc z 1.
Example C10_ll2_degenerate_sort_spgemm :
  (* 0 x 0, 1 x 1, empty rows *)
  ll_sort_rows 0 [0] (filled [], filled ([] : list QcS)) = Done (filled [], filled []) /\
  ll_sort_rows 1 [0; 1] (filled [0], filled [q10 3]) = Done (filled [0], filled [q10 3]) /\
  ll_sort_rows 3 [0; 0; 2; 2] (filled [1; 0], filled [q10 1; q10 2]) = Done (filled [0; 1], filled [q10 2; q10 1]) /\
  ll_spgemm (flat_of (mkCrs 0 ([] : list (row QcS)))) (flat_of (mkCrs 0 ([] : list (row QcS)))) true
    = Done (mkM 0 0 [Some 0] [] []) /\
  ll_spgemm (flat_of (mkCrs 1 [[(0, q10 2)]])) (flat_of (mkCrs 1 [[(0, q10 3)]])) true
    = Done (mkM 1 1 (filled [0; 1]) (filled [0]) (filled [q10 6])) /\
  ll_spgemm (flat_of (mkCrs 2 [[]; [(1, q10 2); (0, q10 1)]; []]))
            (flat_of (mkCrs 2 [[(1, q10 3)]; [(1, q10 5); (0, q10 7)]])) true
    = Done (mkM 3 2 (filled [0; 0; 2; 2]) (filled [0; 1]) (filled [q10 14; q10 13])) /\
  (* a row length beyond the arrays; a row whose cells were never written; scan_row_sizes before the counts exist *)
  ll_sort_row 0 3 (filled [2; 1], filled [q10 1; q10 2]) = OutOfBounds /\
  ll_sort_row 0 2 (fresh 2, filled [q10 1; q10 2]) = UninitRead /\
  ll_psum 2 (fresh 2) = UninitRead.
Proof. repeat split; vm_compute; reflexivity. Qed.

Example C10_ll2_degenerate_aggregates :
  (* 1 x 1 and diagonal matrices: every node is removed -> empty_level *)
  ll_plain_aggregates (qc 1 16) (flat_of (mkCrs 1 [[(0, q10 3)]])) = Done LAEmpty /\
  ll_plain_aggregates (qc 1 16) (flat_of (mkCrs 3 [[(0, q10 2)]; [(1, q10 3)]; [(2, q10 4)]])) = Done LAEmpty /\
  (* rows with only positive off-diagonals *)
  ll_plain_aggregates (qc 1 64) (flat_of (mkCrs 3 [[(0, q10 4); (1, q10 1)]; [(0, q10 1); (1, q10 4); (2, q10 1)]; [(1, q10 1); (2, q10 4)]]))
    = Done (LAOk 1 (filled [0; 0; 0]%Z) (filled [false; true; true; false; true; true; false])) /\
  (* disconnected graph with an isolated node *)
  ll_plain_aggregates (qc 1 16) (flat_of (mkCrs 5 [[(0, q10 2); (1, q10 (-1))]; [(0, q10 (-1)); (1, q10 2)]; [(2, q10 5)];
                                                   [(3, q10 2); (4, q10 (-1))]; [(3, q10 (-1)); (4, q10 2)]]))
    = Done (LAOk 2 (filled [0; 0; -2; 1; 1]%Z) (filled [false; true; true; false; false; false; true; true; false])) /\
  (* a row that does not store its diagonal: dia[0] is read unwritten (invalid input; the guard has_diag is needed) *)
  ll_plain_aggregates (qc 1 16) (flat_of (mkCrs 2 [[(1, q10 1)]; [(0, q10 1); (1, q10 2)]])) = UninitRead /\
  (* tentative prolongation: n = 0; all nodes removed *)
  ll_tentative (S := QcS) 0 0 [] = Done (mkM 0 0 [Some 0] [] []) /\
  ll_tentative (S := QcS) 3 0 [-2; -2; -2]%Z = Done (mkM 3 0 (filled [0; 0; 0; 0]) [] []).
Proof. repeat split; vm_compute; reflexivity. Qed.

(* ilu0 constructor (LowLevel2I.v): 1 x 1; the two preconditions; a row without diagonal and without
   upper entries leaves D[1] unwritten -- returned as such, and read by the next row that refers to it *)
Example C10_ll2_ilu0_examples :
  match ll_ilu0 (flat_of (mkCrs 1 [[(0, q10 4)]])) with
  | Done (EOk st) => (idd st, ilh st, iuh st) | _ => ([], 1, 1) end = (filled [qc 1 4], 0, 0) /\
  ll_ilu0 (flat_of (mkCrs 1 [[(0, q10 0)]])) = Done (EThrow Ilu.ZeroPivot) /\
  ll_ilu0 (flat_of (mkCrs 2 [[(1, q10 1)]; [(1, q10 1)]])) = Done (EThrow Ilu.NoDiag) /\
  match ll_ilu0 (flat_of (mkCrs 2 [[(0, q10 2)]; [(0, q10 1)]])) with
  | Done (EOk st) => idd st | _ => [] end = [Some (qc 1 2); None] /\
  ll_ilu0 (flat_of (mkCrs 3 [[(0, q10 2)]; [(0, q10 1)]; [(1, q10 1); (2, q10 1)]])) = UninitRead.
Proof. repeat split; vm_compute; reflexivity. Qed.

(* ================================================================== A2'': small aggregates and the QR of the near-null space
   (coq/SmallAggr.v, SmallAggrProofs.v, SmallAggrRProofs.v).  With nullspace.cols > 0 tentative_prolongation() copies
   qr.R(ii,jj), ii, jj < cols, out of a d x cols column-major block (d = unknowns of the block aggregate); for d < cols the
   read of R(cols-1, cols-1) is behind the block.  The only guard is pointwise_aggregates::remove_small_aggregates, called
   with min_aggregate = nullspace.cols. *)
From Coq Require Import ZArith.
From Amgcl Require Import TentativeQrGuard SmallAggr SmallAggrRProofs SmallAggrProofs.
Local Open Scope nat_scope.

(* remove_small_aggregates at array level (checked reads / writes of aggr.id and of the scratch vector count, the throw of
   empty_level) never leaves its arrays on valid aggregate ids and computes the list-level Aggregates.remove_small *)
Theorem C10_smallaggr_remove_small_memory_safe (n bs mina count : nat) (idl : list Z) :
  length idl = n -> valid_ids count idl ->
  ll_remove_small RsCoded n bs mina count (filled idl) = Done (remove_small_out bs mina count idl).
Proof. exact (ll_remove_small_ok n bs mina count idl). Qed.
Print Assumptions C10_smallaggr_remove_small_memory_safe.

(* what it guarantees (min_aggregate > 1): removed points stay removed, the points of an aggregate with
   block_size * count < min_aggregate get the removed id, all the others get an id below the new count; two remaining points
   share the new id iff they shared the old one (the partition is preserved); the new ids have no gaps and every remaining
   aggregate has block_size * count >= min_aggregate *)
Theorem C10_smallaggr_remove_small_spec (bs mina count : nat) (id : list Z) :
  valid_ids count id -> 1 < mina ->
  let r := remove_small bs mina count id in
  let small (a : Z) := Nat.ltb (bs * occ id a) mina in
  length (snd r) = length id /\
  valid_ids (fst r) (snd r) /\
  (forall k, k < length id -> zget id k = removed -> zget (snd r) k = removed) /\
  (forall k, k < length id -> zget id k <> removed -> small (zget id k) = true -> zget (snd r) k = removed) /\
  (forall k, k < length id -> zget id k <> removed -> small (zget id k) = false ->
     (0 <= zget (snd r) k < Z.of_nat (fst r))%Z) /\
  (forall k1 k2, k1 < length id -> k2 < length id -> (0 <= zget (snd r) k1)%Z -> (0 <= zget (snd r) k2)%Z ->
     (zget (snd r) k1 = zget (snd r) k2 <-> zget id k1 = zget id k2)) /\
  (forall m', m' < fst r -> 1 <= occ (snd r) (Z.of_nat m') /\ mina <= bs * occ (snd r) (Z.of_nat m')).
Proof. exact (remove_small_spec bs mina count id). Qed.
Print Assumptions C10_smallaggr_remove_small_spec.

(* block aggregate i of the expanded ids has block_size * (number of its nodes) rows *)
Theorem C10_smallaggr_block_rows (bs : nat) (pwid : list Z) (i : nat) : 1 <= bs ->
  length (members bs (expand_ids bs pwid) i) = bs * occ pwid (Z.of_nat i).
Proof. exact (members_expand_length bs pwid i). Qed.
Print Assumptions C10_smallaggr_block_rows.

(* the guard: with min_aggregate = nullspace.cols every QR block has at least cols rows (non-empty aggregates in, as
   plain_aggregates produces them) *)
Theorem C10_smallaggr_qr_rows_ge_cols (bs cols count : nat) (id : list Z) :
  1 <= bs -> 1 <= cols -> valid_ids count id -> (forall m, m < count -> 1 <= occ id (Z.of_nat m)) ->
  let r := remove_small bs cols count id in
  forall i, i < fst r -> cols <= length (members bs (expand_ids bs (snd r)) i).
Proof. exact (remove_small_qr_guard bs cols count id). Qed.
Print Assumptions C10_smallaggr_qr_rows_ge_cols.

(* ... for the aggregates of the coarsening policies as modelled (plain aggregation on A or on the pointwise matrix, then
   remove_small_aggregates, then the expansion of the ids): any block_size, any Scalar, any junk *)
Theorem C10_smallaggr_pointwise_aggregates_guard (S : Scalar) (eps2 : S) (bs cols : nat) (A : crs S) (junk : vec S)
        (count : nat) (id : list Z) (st : flags) :
  1 <= cols ->
  pointwise_aggregates eps2 bs cols A junk = AggOk count id st ->
  forall i, i < count / bs -> cols <= length (members bs id i).
Proof. exact (pointwise_aggregates_qr_guard eps2 bs cols A junk count id st). Qed.
Print Assumptions C10_smallaggr_pointwise_aggregates_guard.

(* the copy loop Bnew[i*cols*cols + kk] = qr.R(ii,jj) with checked reads of the d*cols cells of Bpart: Done when
   cols <= d, OutOfBounds when d < cols *)
Theorem C10_smallaggr_r_copy_done (S : Scalar) (cols d base : nat) (rl : list S) (pre mid post : marr S) :
  cols <= d -> length rl = d * cols -> length pre = base -> length mid = cols * cols ->
  r_copy_loop cols d (filled rl) base (pre ++ mid ++ post) = Done (pre ++ filled (r_values cols d rl) ++ post).
Proof. exact (r_copy_done cols d base rl pre mid post). Qed.
Print Assumptions C10_smallaggr_r_copy_done.

Theorem C10_smallaggr_r_copy_out_of_bounds (S : Scalar) (cols d base : nat) (rl : list S) (bnew : marr S) :
  0 < cols -> d < cols -> length rl = d * cols ->
  r_copy_loop cols d (filled rl) base bnew = OutOfBounds.
Proof. exact (r_copy_oob cols d base rl bnew). Qed.
Print Assumptions C10_smallaggr_r_copy_out_of_bounds.

(* together: behind remove_small_aggregates(min_aggregate = nullspace.cols) the copy loop of every block aggregate is
   memory safe *)
Theorem C10_smallaggr_r_copy_safe (S : Scalar) (bs cols count : nat) (id : list Z) :
  1 <= bs -> 1 <= cols -> valid_ids count id -> (forall m, m < count -> 1 <= occ id (Z.of_nat m)) ->
  let r := remove_small bs cols count id in
  forall i, i < fst r ->
  let d := length (members bs (expand_ids bs (snd r)) i) in
  forall (rl : list S) (pre mid post : marr S),
    length rl = d * cols -> length mid = cols * cols ->
    r_copy_loop cols d (filled rl) (length pre) (pre ++ mid ++ post) = Done (pre ++ filled (r_values cols d rl) ++ post).
Proof. exact (smallaggr_r_copy_safe bs cols count id). Qed.
Print Assumptions C10_smallaggr_r_copy_safe.

(* the variant `min_aggregate /= block_size; ... count[i] < min_aggregate` (threshold in nodes, rounded down) is refuted:
   block_size 2, nullspace.cols 3, one aggregate of one node -- as coded: empty_level; variant: the aggregate survives, its
   QR block is 2 x 3 and the copy loop is OutOfBounds *)
Theorem C10_smallaggr_floor_variant_refuted (S : Scalar) :
  exists (bs cols count : nat) (id : list Z),
    1 <= bs /\ 1 <= cols /\ valid_ids count id /\ (forall m, m < count -> 1 <= occ id (Z.of_nat m)) /\
    ll_remove_small RsCoded (length id) bs cols count (filled id) = Done RsEmptyLevel /\
    exists count' id',
      ll_remove_small RsFloor (length id) bs cols count (filled id) = Done (RsOk count' (filled id')) /\
      exists i, i < count' /\
        let d := length (members bs (expand_ids bs id') i) in
        d < cols /\
        forall (rl : list S) (base : nat) (bnew : marr S), length rl = d * cols ->
          r_copy_loop cols d (filled rl) base bnew = OutOfBounds.
Proof. exact remove_small_floor_variant_refuted. Qed.
Print Assumptions C10_smallaggr_floor_variant_refuted.

(* a witness that runs through the three loops of the variant (threshold 5/2 = 2): block_size 2, nullspace.cols 5, ids
   [0;1;1;0;0]: as coded aggregate 1 (2 nodes, 4 unknowns < 5) is removed and aggregate 0 is renumbered; the variant keeps it *)
Theorem C10_smallaggr_floor_variant_refuted_loops (S : Scalar) :
  exists (bs cols count : nat) (id : list Z),
    1 <= bs /\ 1 <= cols /\ valid_ids count id /\ (forall m, m < count -> 1 <= occ id (Z.of_nat m)) /\
    ll_remove_small RsCoded (length id) bs cols count (filled id) = Done (RsOk 1 (filled [0; removed; removed; 0; 0]%Z)) /\
    exists count' id',
      ll_remove_small RsFloor (length id) bs cols count (filled id) = Done (RsOk count' (filled id')) /\
      exists i, i < count' /\
        let d := length (members bs (expand_ids bs id') i) in
        d < cols /\
        forall (rl : list S) (base : nat) (bnew : marr S), length rl = d * cols ->
          r_copy_loop cols d (filled rl) base bnew = OutOfBounds.
Proof. exact remove_small_floor_variant_refuted_loops. Qed.
Print Assumptions C10_smallaggr_floor_variant_refuted_loops.
