(* Composite.v -- composite preconditioners (definitions only; proofs: CompositeProofs.v).
   preconditioner/schur_pressure_correction.hpp (sub-block extraction 327-420, adjust_p
   441-497, apply 215-252, matrix-free Schur operator 254-281), preconditioner/cpr.hpp (apply
   131-147), deflated_solver.hpp (init 137-165, project 206-217).
   Inner solvers are abstract: function arguments. *)
From Amgcl Require Import Scalar Vec Crs Kernels MatOps Adapters.
Local Open Scope S_scope.

Section Composite.
Context {S : Scalar}.
Local Notation vec := (vec S).
Local Notation row := (row S).
Local Notation crs := (crs S).

(* y = A x as the backend computes it with alpha = 1, beta = 0 up to the ring identities
   1 * s = s (C07): the vector of row sums *)
Definition mv (A : crs) (x : vec) : vec := map (fun r => dotrow r x) (rows A).
Definition vsub (a b : vec) : vec := map2 ssub a b.
Definition vadd (a b : vec) : vec := map2 sadd a b.

(* ---- partition of the unknowns induced by pmask ---- *)
(* idx[i] = pmask[i] ? np++ : nu++ *)
Fixpoint idx_from (mask : list bool) (nu np : nat) : list nat :=
  match mask with
  | [] => []
  | true :: tl => np :: idx_from tl nu (Datatypes.S np)
  | false :: tl => nu :: idx_from tl (Datatypes.S nu) np
  end.
Definition mask_idx (mask : list bool) : list nat := idx_from mask 0 0.
Definition count_of (want : bool) (mask : list bool) : nat := length (filter (Bool.eqb want) mask).

(* rows of K with pmask = rp, entries with pmask[col] = cp, columns renumbered by idx;
   (rp, cp) = (false,false) Kuu, (false,true) Kup, (true,false) Kpu, (true,true) Kpp *)
Definition sub_block (K : crs) (mask : list bool) (rp cp : bool) : crs :=
  let idx := mask_idx mask in
  mkCrs (count_of cp mask)
    (map (fun ir => map (fun e => (nth (fst e) idx 0%nat, snd e))
                        (filter (fun e => Bool.eqb (nth (fst e) mask false) cp) (snd ir)))
         (filter (fun ir => Bool.eqb (nth (fst ir) mask false) rp) (indexed (rows K)))).

(* x2u / x2p and u2x / p2x: 0-1 gather and scatter matrices *)
Definition gather (mask : list bool) (want : bool) (x : vec) : vec :=
  map snd (filter (fun mx : bool * S => Bool.eqb (fst mx) want) (combine mask x)).
Definition scatter_up (mask : list bool) (u p : vec) : vec :=
  map (fun mi : bool * nat => if fst mi then vget p (snd mi) else vget u (snd mi)) (combine mask (mask_idx mask)).

(* ---- adjust_p ---- *)
(* dia(Kuu)^-1, or 1/sum_j |Kuu_ij| with simplec_dia *)
Definition kuu_dia (simplec : bool) (Kuu : crs) (junk : vec) : vec :=
  if simplec then map (fun r => sinv (fold_left (fun s e => s + sabs (snd e)) r s0)) (rows Kuu)
  else diagonal Kuu true junk.
(* L[i] = sum over entries (k, v) of Kpu row i of v * dia[k] * Kup[k][i] (first entry of Kup row
   k with column i) *)
Definition ld_vec (Kpu Kup : crs) (dia : vec) : vec :=
  map (fun ir => fold_left (fun s e => match first_col (nth (fst e) (rows Kup) []) (fst ir) with
                                       | Some w => s + snd e * vget dia (fst e) * w
                                       | None => s end) (snd ir) s0)
      (indexed (rows Kpu)).
(* Kpp->val[j] -= s for the first entry of row i with column i -- rows WITHOUT a diagonal entry
   are left unchanged although L[i] is kept *)
Fixpoint sub_first (r : row) (i : nat) (s : S) : row :=
  match r with
  | [] => []
  | (c, v) :: tl => if Nat.eqb c i then (c, v - s) :: tl else (c, v) :: sub_first tl i s
  end.
Definition kpp_adjust1 (Kpp : crs) (L : vec) : crs :=
  mkCrs (ncols Kpp) (map (fun ir => sub_first (snd ir) (fst ir) (vget L (fst ir))) (indexed (rows Kpp))).

(* the matrix-free operator handed to the pressure solver (spmv(), alpha = 1, beta = 0):
   adjust_p = 1 : P.system_matrix() x + Ld .* x - Kpu U(Kup x)
   adjust_p = 2 : Lm x - Kpu U(Kup x)          (Lm = original Kpp)
   otherwise    : P.system_matrix() x - Kpu U(Kup x)  *)
Definition schur_op (adjust_p : nat) (Kpp Kup Kpu : crs) (L : vec) (solveU : vec -> vec) (x : vec) : vec :=
  let kx := match adjust_p with
            | 1 => vadd (mv (kpp_adjust1 Kpp L) x) (map2 smul L x)
            | _ => mv Kpp x
            end in
  vsub kx (mv Kpu (solveU (mv Kup x))).
(* the true Schur complement action *)
Definition schur_true (Kpp Kup Kpu : crs) (solveU : vec -> vec) (x : vec) : vec :=
  vsub (mv Kpp x) (mv Kpu (solveU (mv Kup x))).

(* apply(): type 1 and type 2, on split vectors *)
Definition schur_split1 (Kup Kpu : crs) (solveU solveS : vec -> vec) (fu fp : vec) : vec * vec :=
  let u1 := solveU fu in
  let rp := vsub fp (mv Kpu u1) in
  let p := solveS rp in
  let ru := vsub fu (mv Kup p) in
  (solveU ru, p).
Definition schur_split2 (Kup : crs) (solveU solveS : vec -> vec) (fu fp : vec) : vec * vec :=
  let p := solveS fp in
  (solveU (vsub fu (mv Kup p)), p).
Definition schur_apply (type : nat) (K : crs) (mask : list bool) (solveU solveS : vec -> vec) (f : vec) : vec :=
  let Kup := sub_block K mask false true in
  let Kpu := sub_block K mask true false in
  let fu := gather mask false f in let fp := gather mask true f in
  let up := match type with
            | 1 => schur_split1 Kup Kpu solveU solveS fu fp
            | _ => schur_split2 Kup solveU solveS fu fp
            end in
  scatter_up mask (fst up) (snd up).

(* ---- pmask_pattern strings: the three loops that fill the mask ---- *)
(* "%start:stride" : for(i = start; i < n; i += stride) pmask[i] = 1.  fuel bounds the number
   of iterations: with stride = 0 (what a two-digit start parses to) the loop never ends *)
Fixpoint pattern_loop (fuel : nat) (n stride i : nat) (mask : list bool) : option (list bool) :=
  match fuel with
  | O => None                                   (* did not terminate within fuel steps *)
  | Datatypes.S k => if Nat.ltb i n then pattern_loop k n stride (i + stride) (lset mask i true)
                     else Some mask
  end.

(* ---- CPR: x = S f + Scatter P (Fpp (f - A S f)) ---- *)
Definition cpr_apply (A Fpp Scatter : crs) (sprecond pprecond : vec -> vec) (f : vec) : vec :=
  let x := sprecond f in
  let rs := vsub f (mv A x) in
  let xp := pprecond (mv Fpp rs) in
  vadd x (mv Scatter xp).

(* ---- deflation: x += Z^T-combination d, d = E^-1 Z (b - A x) ---- *)
Definition dotv (a b : vec) : S := fold_left (fun acc xy => acc + fst xy * snd xy) (combine a b) s0.
(* x + sum_i d_i Z_i *)
Definition lin_add (Z : list vec) (d : vec) (x : vec) : vec :=
  fold_left (fun acc dz => vadd acc (map (fun z => fst dz * z) (snd dz))) (combine d Z) x.
Definition deflate_project (A : crs) (Z : list vec) (Einv : list vec) (b x : vec) : vec :=
  let r := vsub b (mv A x) in
  let fz := map (fun z => dotv z r) Z in
  let d := map (fun erow => dotv erow fz) Einv in
  lin_add Z d x.
(* E = Z^T A Z as init() accumulates it *)
Definition deflate_E (A : crs) (Z : list vec) : list vec :=
  map (fun zi => map (fun zj => dotv zi (mv A zj)) Z) Z.

End Composite.
