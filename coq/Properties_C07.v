(* Properties_C07.v -- C07: backend vector and matrix-vector primitives equal their
   algebraic definitions.  Statements only; proofs live in KernelsProofs.v.
   "any S": holds for every Scalar record (so also for floats with NaN/Inf);
   "ring": for every commutative ring with decidable equality, closed at Qc. *)
From Amgcl Require Import Scalar QcInst Vec Crs Kernels KernelsProofs.
Local Open Scope S_scope.

(* --- zero output coefficient: the old output content is irrelevant (any S) --- *)
Theorem C07_spmv_beta0_ignores_output (S : Scalar) alpha (A : crs S) x beta (y y' : vec S) :
  is_zero beta = true -> length y = nrows A -> length y' = nrows A ->
  spmv alpha A x beta y = spmv alpha A x beta y'.
Proof. exact (spmv_beta0_ignores_y alpha A x beta y y'). Qed.
Print Assumptions C07_spmv_beta0_ignores_output.

Theorem C07_residual_ignores_output (S : Scalar) f (A : crs S) x (r r' : vec S) :
  length f = nrows A -> length r = nrows A -> length r' = nrows A ->
  residual f A x r = residual f A x r'.
Proof. exact (residual_ignores_res f A x r r'). Qed.
Print Assumptions C07_residual_ignores_output.

Theorem C07_axpby_b0_ignores_output (S : Scalar) a (x : vec S) b (y y' : vec S) :
  is_zero b = true -> length y = length x -> length y' = length x ->
  axpby a x b y = axpby a x b y'.
Proof. exact (axpby_b0_ignores_y a x b y y'). Qed.
Print Assumptions C07_axpby_b0_ignores_output.

Theorem C07_axpbypcz_c0_ignores_output (S : Scalar) a (x : vec S) b (y : vec S) c (z z' : vec S) :
  is_zero c = true -> length y = length x -> length z = length x -> length z' = length x ->
  axpbypcz a x b y c z = axpbypcz a x b y c z'.
Proof. exact (axpbypcz_c0_ignores_z a x b y c z z'). Qed.
Print Assumptions C07_axpbypcz_c0_ignores_output.

Theorem C07_vmul_b0_ignores_output (S : Scalar) a (x y : vec S) b (z z' : vec S) :
  is_zero b = true -> length y = length x -> length z = length x -> length z' = length x ->
  vmul a x y b z = vmul a x y b z'.
Proof. exact (vmul_b0_ignores_z a x y b z z'). Qed.
Print Assumptions C07_vmul_b0_ignores_output.

Theorem C07_lin_comb_alpha0_ignores_output (S : Scalar) c0 (v0 : vec S) cv alpha (y y' : vec S) :
  is_zero alpha = true -> length y = length v0 -> length y' = length v0 ->
  lin_comb ((c0, v0) :: cv) alpha y = lin_comb ((c0, v0) :: cv) alpha y'.
Proof. exact (lin_comb_alpha0_ignores_y c0 v0 cv alpha y y'). Qed.
Print Assumptions C07_lin_comb_alpha0_ignores_output.

Theorem C07_copy (S : Scalar) (x y : vec S) : length y = length x -> vcopy x y = x.
Proof. exact (vcopy_spec x y). Qed.
Print Assumptions C07_copy.

Theorem C07_clear (S : Scalar) (x : vec S) i :
  vget (vclear x) i = s0 /\ length (vclear x) = length x.
Proof. split; [exact (vclear_spec x i) | exact (vclear_length x)]. Qed.
Print Assumptions C07_clear.

(* --- defining formulas (ring), element-wise; Ax A x i = sum_j A_ij x_j (dense semantics,
       duplicate entries add up) --- *)
Section Ring.
Variable S : Scalar.
Hypothesis Srt : Sring S.
Hypothesis Seqb : seqb_spec S.

Theorem C07_spmv_formula alpha (A : crs S) (x : vec S) beta (y : vec S) i :
  wf A = true -> length y = nrows A -> i < nrows A ->
  vget (spmv alpha A x beta y) i = alpha * Ax A x i + beta * vget y i.
Proof. exact (spmv_spec Srt Seqb alpha A x beta y i). Qed.

Theorem C07_residual_formula (f : vec S) (A : crs S) (x r : vec S) i :
  wf A = true -> length f = nrows A -> length r = nrows A -> i < nrows A ->
  vget (residual f A x r) i = vget f i - Ax A x i.
Proof. exact (residual_spec Srt f A x r i). Qed.

Theorem C07_axpby_formula a (x : vec S) b (y : vec S) i : length y = length x -> i < length x ->
  vget (axpby a x b y) i = a * vget x i + b * vget y i.
Proof. exact (axpby_spec Srt Seqb a x b y i). Qed.

Theorem C07_axpbypcz_formula a (x : vec S) b (y : vec S) c (z : vec S) i :
  length y = length x -> length z = length x -> i < length x ->
  vget (axpbypcz a x b y c z) i = a * vget x i + b * vget y i + c * vget z i.
Proof. exact (axpbypcz_spec Srt Seqb a x b y c z i). Qed.

Theorem C07_vmul_formula a (x y : vec S) b (z : vec S) i :
  length y = length x -> length z = length x -> i < length x ->
  vget (vmul a x y b z) i = a * vget x i * vget y i + b * vget z i.
Proof. exact (vmul_spec Srt Seqb a x y b z i). Qed.

(* for every number n >= 1 of terms (odd/even pairing loop) *)
Theorem C07_lin_comb_formula c0 (v0 : vec S) cv alpha (y : vec S) i :
  length v0 = length y -> all_len (length y) cv -> i < length y ->
  vget (lin_comb ((c0, v0) :: cv) alpha y) i = lc_sum ((c0, v0) :: cv) i + alpha * vget y i.
Proof. exact (lin_comb_spec Srt Seqb c0 v0 cv alpha y i). Qed.

(* Kahan-compensated serial inner product = sum_i x_i * adj(y_i) *)
Theorem C07_inner_product_serial (x y : vec S) : inner_product_serial x y = dot x y.
Proof. exact (inner_product_serial_spec Srt x y). Qed.

(* per-thread Kahan sums over ANY contiguous chunking that covers the range = serial value *)
Theorem C07_inner_product_parallel lens (x y : vec S) :
  length (combine x y) <= fold_right Nat.add 0 lens ->
  inner_product_parallel lens x y = inner_product_serial x y.
Proof. exact (inner_product_parallel_spec Srt lens x y). Qed.
End Ring.

(* closed instances at the exact rationals: no hypotheses left *)
Theorem C07_spmv_formula_Qc alpha (A : crs QcS) (x : vec QcS) beta (y : vec QcS) i :
  wf A = true -> length y = nrows A -> i < nrows A ->
  vget (spmv alpha A x beta y) i = alpha * Ax A x i + beta * vget y i.
Proof. exact (C07_spmv_formula QcS QcS_ring QcS_eqb alpha A x beta y i). Qed.
Print Assumptions C07_spmv_formula_Qc.

Theorem C07_lin_comb_formula_Qc c0 (v0 : vec QcS) cv alpha (y : vec QcS) i :
  length v0 = length y -> all_len (length y) cv -> i < length y ->
  vget (lin_comb ((c0, v0) :: cv) alpha y) i = lc_sum ((c0, v0) :: cv) i + alpha * vget y i.
Proof. exact (C07_lin_comb_formula QcS QcS_ring QcS_eqb c0 v0 cv alpha y i). Qed.
Print Assumptions C07_lin_comb_formula_Qc.

Theorem C07_inner_product_parallel_Qc lens (x y : vec QcS) :
  length (combine x y) <= fold_right Nat.add 0 lens ->
  inner_product_parallel lens x y = dot x y.
Proof.
  intro H. rewrite (C07_inner_product_parallel QcS QcS_ring lens x y H).
  exact (C07_inner_product_serial QcS QcS_ring x y).
Qed.
Print Assumptions C07_inner_product_parallel_Qc.

(* non-vacuity: a concrete non-trivial instance meets the hypotheses *)
Example C07_nonvacuous :
  let A : crs QcS := mkCrs 3 [[(0, qc 1 1); (1, qc 1 2)]; [(2, qc 3 1)]]%nat in
  wf A = true /\ length [qc 7 1; qc 8 1] = nrows A /\
  spmv (qc 2 1) A [qc 1 1; qc 2 1; qc 3 1] (qc 0 1) [qc 7 1; qc 8 1] = [qc 4 1; qc 18 1].
Proof. vm_compute. repeat split; reflexivity. Qed.
